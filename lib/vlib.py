#!/usr/bin/env python3
"""Shared machinery of /verif/check (see DESIGN.md section 2 and FRAMEWORK.md).

One property = one plugin props/Cnn.py exposing PROP (a dict).  This library
  1. regenerates translated models (PROP['gen']) from $VERIF_REPO (default /repo),
  2. builds the Coq closure of Properties/Cnn.v (full .vo build) and the extraction,
  3. checks hygiene (no Admitted/Axiom/...) and parses Print Assumptions,
  4. builds the Go harness against the repo's working tree (-tags verif) and runs it,
  5. runs the extracted model (OCaml `modelrun`) over the recorded trace,
  6. decides the verdict, consults known_findings.json, writes evidence/Cnn.json.
"""
import fcntl
import hashlib
import importlib.util
import json
import os
import re
import shutil
import subprocess
import sys
import time

VERIF = os.path.dirname(os.path.dirname(os.path.abspath(__file__)))
REPO = os.path.abspath(os.environ.get("VERIF_REPO", "/repo"))
_SCR = os.environ.get("VERIF_SCRATCH", os.path.expanduser("~/.cache/verif"))
SCRATCH = os.path.join(_SCR, hashlib.sha1(REPO.encode()).hexdigest()[:10])
COQ = os.path.join(VERIF, "coq")
NS = "BioVerif"
NCPU = os.cpu_count() or 4

GOENV = dict(os.environ)
GOENV.update({"GOFLAGS": "-mod=mod", "GOPROXY": "off", "GOSUMDB": "off",
              "GOTOOLCHAIN": "local", "CGO_ENABLED": "0"})

FORBIDDEN = re.compile(
    r"\b(Admitted|admit|Axiom|Axioms|Parameter|Parameters|Conjecture|Conjectures|"
    r"Admit\s+Obligations|bypass_check|native_compute)\b|Unset\s+Guard|"
    r"Unset\s+Positivity|Unset\s+Universe\s+Checking|type-in-type|impredicative-set")


def log(msg):
    print(msg, flush=True)


def sh(cmd, cwd=None, timeout=None, env=None, stdin=None):
    """Run; return (rc, stdout+stderr). rc=124 on timeout."""
    try:
        p = subprocess.run(cmd, cwd=cwd, env=env, input=stdin, timeout=timeout,
                           stdout=subprocess.PIPE, stderr=subprocess.STDOUT, text=True,
                           errors="replace")
        return p.returncode, p.stdout
    except subprocess.TimeoutExpired as e:
        out = e.stdout or ""
        if isinstance(out, bytes):
            out = out.decode(errors="replace")
        return 124, out + "\n[timeout after %ss]" % timeout


def load_prop(pid):
    path = os.path.join(VERIF, "props", pid + ".py")
    if not os.path.exists(path):
        raise SystemExit("unknown property %s (no %s)" % (pid, path))
    spec = importlib.util.spec_from_file_location("prop_" + pid, path)
    m = importlib.util.module_from_spec(spec)
    spec.loader.exec_module(m)
    p = dict(m.PROP)
    p["_module"] = m
    return p


def all_props():
    d = os.path.join(VERIF, "props")
    return sorted(f[:-3] for f in os.listdir(d) if re.fullmatch(r"C\d+\.py", f))


# ---------------------------------------------------------------- Coq side

class BuildLock:
    def __enter__(self):
        os.makedirs(COQ, exist_ok=True)
        self.f = open(os.path.join(COQ, ".build.lock"), "w")
        fcntl.flock(self.f, fcntl.LOCK_EX)
        return self

    def __exit__(self, *a):
        fcntl.flock(self.f, fcntl.LOCK_UN)
        self.f.close()


def coq_files():
    out = []
    for root, _dirs, files in os.walk(COQ):
        for f in files:
            if f.endswith(".v") and not re.match(r"(zz|tmp|scratch|test_)", f, re.I):
                out.append(os.path.relpath(os.path.join(root, f), COQ))
    return sorted(out)


def coq_project():
    """(Re)generate _CoqProject and Makefile when the file list changed."""
    files = coq_files()
    content = "-Q . %s\n-arg -w -arg -notation-overridden,-deprecated-hint-without-locality," \
              "-deprecated-instance-without-locality,-ambiguous-paths\n%s\n" % (NS, "\n".join(files))
    cp = os.path.join(COQ, "_CoqProject")
    old = open(cp).read() if os.path.exists(cp) else None
    if old != content or not os.path.exists(os.path.join(COQ, "Makefile")):
        with open(cp, "w") as f:
            f.write(content)
        rc, out = sh(["coq_makefile", "-f", "_CoqProject", "-o", "Makefile"], cwd=COQ, timeout=120)
        if rc != 0:
            raise RuntimeError("coq_makefile failed: " + out)


def coq_make(targets, timeout=1500, keep_going=False):
    """Full .vo build of the given targets (relative to coq/). Returns (ok, log)."""
    with BuildLock():
        coq_project()
        cmd = ["make", "-j%d" % NCPU] + (["-k"] if keep_going else []) + list(targets)
        rc, out = sh(cmd, cwd=COQ, timeout=timeout)
        return rc == 0, out


REQ_RE = re.compile(r"From\s+%s(?:\.(\w+(?:\.\w+)*))?\s+Require\s+(?:Import\s+|Export\s+)?([^.]*(?:\.\w[^.\s]*)*)\s*\.\s" % NS)
REQ2_RE = re.compile(r"Require\s+(?:Import\s+|Export\s+)?((?:%s\.[\w.]+\s*)+)\." % NS)


def strip_comments(src):
    out, depth, i, n = [], 0, 0, len(src)
    while i < n:
        if src.startswith("(*", i):
            depth += 1
            i += 2
        elif src.startswith("*)", i) and depth > 0:
            depth -= 1
            i += 2
        else:
            if depth == 0:
                out.append(src[i])
            i += 1
    return "".join(out)


def coq_closure(relfile):
    """Transitive closure of project-local dependencies of a .v file (relative paths)."""
    seen, todo = [], [relfile]
    while todo:
        f = todo.pop()
        if f in seen:
            continue
        path = os.path.join(COQ, f)
        if not os.path.exists(path):
            continue
        seen.append(f)
        src = strip_comments(open(path).read())
        mods = []
        for m in re.finditer(r"From\s+%s(\.[\w.]+)?\s+Require\s+(?:Import\s+|Export\s+)?([\w.\s]+?)\.(?=\s)" % NS, src):
            prefix = (m.group(1) or "").strip(".")
            for name in m.group(2).split():
                mods.append((prefix + "." + name).strip("."))
        for m in re.finditer(r"(?<!From\s)Require\s+(?:Import\s+|Export\s+)?([\w.\s]+?)\.(?=\s)", src):
            for name in m.group(1).split():
                if name.startswith(NS + "."):
                    mods.append(name[len(NS) + 1:])
        for mod in mods:
            cand = mod.replace(".", "/") + ".v"
            if os.path.exists(os.path.join(COQ, cand)):
                todo.append(cand)
    return sorted(seen)


def hygiene(files):
    """Forbidden constructs in the given coq files (comments stripped). Returns list of hits."""
    hits = []
    for f in files:
        src = strip_comments(open(os.path.join(COQ, f)).read())
        for ln, line in enumerate(src.split("\n"), 1):
            m = FORBIDDEN.search(line)
            if m:
                hits.append("%s:%d: %s" % (f, ln, m.group(0)))
    return hits


def prop_files(prop):
    return [prop["properties_file"]] + list(prop.get("more_properties_files", []))


def print_assumptions(prop):
    """Re-compile Properties/Cnn.v (and any more_properties_files) capturing the Print Assumptions blocks.
    Returns (ok, {theorem: 'closed' | [axiom names]}, log)."""
    res, logs = {}, ""
    for rel in prop_files(prop):
        ok, r, out = _print_assumptions_file(prop, rel)
        logs += out
        if not ok:
            return False, {}, out
        res.update(r)
    return True, res, logs


def _print_assumptions_file(prop, rel):
    src = strip_comments(open(os.path.join(COQ, rel)).read())
    asked = re.findall(r"Print\s+Assumptions\s+(\w+)\s*\.", src)
    outvo = os.path.join(SCRATCH, prop["id"], "pa", os.path.basename(rel) + "o")
    os.makedirs(os.path.dirname(outvo), exist_ok=True)
    with BuildLock():
        rc, out = sh(["coqc", "-Q", ".", NS, "-w", "-notation-overridden", rel, "-o", outvo], cwd=COQ, timeout=600)
    if rc != 0:
        return False, {}, out
    blocks, cur = [], None
    for line in out.split("\n"):
        if line.startswith("Closed under the global context"):
            blocks.append("closed")
            cur = None
        elif line.startswith("Axioms:") or line.startswith("Section Variables:"):
            cur = []
            blocks.append(cur)
        elif cur is not None:
            m = re.match(r"^(\S+)\s*:", line)
            if m:
                cur.append(m.group(1))
    res = {}
    for i, name in enumerate(asked):
        res[name] = blocks[i] if i < len(blocks) else ["<no output>"]
    return True, res, out


def theorem_names(prop):
    names = []
    for rel in prop_files(prop):
        src = strip_comments(open(os.path.join(COQ, rel)).read())
        names += re.findall(r"\b(?:Theorem|Lemma|Corollary)\s+(\w+)", src)
    return names


def proof_side(prop, timeout):
    """Returns dict(ok, obligations, discharged, problems[list of str], checker_cmd, axioms, log)."""
    r = {"ok": True, "problems": [], "axioms": {}, "log": ""}
    targets = list(prop["coq_targets"])
    r["checker_cmd"] = "cd coq && coq_makefile -f _CoqProject -o Makefile && make -j%d %s && coqc -Q . %s %s  # Print Assumptions" % (
        NCPU, " ".join(targets), NS, prop["properties_file"])
    # translators first
    for g in prop.get("gen", []):
        rc, out = sh(g["cmd"], cwd=VERIF, timeout=g.get("timeout", 300), env=dict(GOENV, VERIF_REPO=REPO))
        if rc != 0:
            r["ok"] = False
            r["problems"].append("translator %s failed: %s" % (g.get("name", g["cmd"][0]), out.strip()[-600:]))
    want = list(prop.get("theorems", []))
    r["obligations"] = len(want)
    if not r["ok"]:
        r["discharged"] = 0
        return r
    ok, out = coq_make(targets, timeout=timeout)
    r["log"] = out[-6000:]
    if not ok:
        r["ok"] = False
        m = re.findall(r'File "([^"]+)", line (\d+)[^\n]*\n(?:.*\n){0,6}?Error:[^\n]*(?:\n[^\n]+){0,3}', out)
        err = re.search(r'File "[^"]+", line \d+[^\n]*\n(?:[^\n]*\n){0,8}?Error:[^\n]*(?:\n[^\n]+){0,4}', out)
        r["problems"].append("coq build failed: " + (err.group(0) if err else out[-800:]))
        r["discharged"] = 0
        return r
    files = coq_closure(prop["properties_file"])
    for extra_pf in prop.get("more_properties_files", []):
        for f in coq_closure(extra_pf):
            if f not in files:
                files.append(f)
    for t in targets:
        v = t[:-1] if t.endswith(".vo") else t
        for f in coq_closure(v):
            if f not in files:
                files.append(f)
    r["closure"] = files
    hits = hygiene(files)
    if hits:
        r["ok"] = False
        r["problems"].append("hygiene: forbidden constructs: " + "; ".join(hits[:10]))
    present = theorem_names(prop)
    ok, assum, out = print_assumptions(prop)
    if not ok:
        r["ok"] = False
        r["problems"].append("Print Assumptions pass failed: " + out[-600:])
        r["discharged"] = 0
        return r
    allowed = set(prop.get("allowed_axioms", []))
    discharged = 0
    for t in want:
        if t not in present:
            r["ok"] = False
            r["problems"].append("theorem %s missing from %s" % (t, prop["properties_file"]))
            continue
        a = assum.get(t)
        if a is None:
            r["ok"] = False
            r["problems"].append("no Print Assumptions for %s" % t)
            continue
        r["axioms"][t] = a
        if a == "closed" or all(x in allowed for x in a):
            discharged += 1
        else:
            r["ok"] = False
            r["problems"].append("theorem %s depends on non-allowed assumptions %s" % (t, a))
    r["discharged"] = discharged
    return r


# ---------------------------------------------------------------- Go harness

def harness_modfile():
    d = os.path.join(SCRATCH, "gomod")
    os.makedirs(d, exist_ok=True)
    mod = os.path.join(d, "go.mod")
    # start from the repo's own requirements so that versions agree
    src = open(os.path.join(REPO, "go.mod")).read()
    m = re.search(r"^go\s+(\S+)", src, re.M)
    gov = m.group(1) if m else "1.20"
    reqs = re.findall(r"require\s*\((.*?)\)", src, re.S)
    lines = []
    for blk in reqs:
        for l in blk.strip().split("\n"):
            l = l.strip()
            if l and not l.startswith("//"):
                lines.append("\t" + l)
    for l in re.findall(r"^require\s+([^(\s]\S*\s+\S+.*)$", src, re.M):
        lines.append("\t" + l)
    content = "module verifharness\n\ngo %s\n\nrequire (\n\tgithub.com/bio-routing/bio-rd v0.0.0\n%s\n)\n\n" \
              "replace github.com/bio-routing/bio-rd => %s\n" % (gov, "\n".join(lines), REPO)
    for l in re.findall(r"^replace\s+.*$", src, re.M):
        content += l + "\n"
    side = mod + ".src"
    old = open(side).read() if os.path.exists(side) else None
    if old != content or not os.path.exists(mod):
        open(mod, "w").write(content)
        open(side, "w").write(content)
    shutil.copyfile(os.path.join(REPO, "go.sum"), os.path.join(d, "go.sum"))
    return mod


def build_harness(name, race=False, timeout=900):
    mod = harness_modfile()
    bindir = os.path.join(SCRATCH, "bin")
    os.makedirs(bindir, exist_ok=True)
    out = os.path.join(bindir, name + ("-race" if race else ""))
    env = dict(GOENV)
    cmd = ["go", "build", "-modfile=" + mod, "-tags", "verif"]
    if race:
        cmd.append("-race")
        env["CGO_ENABLED"] = "1"
    cmd += ["-o", out, "./cmd/" + name]
    rc, o = sh(cmd, cwd=os.path.join(VERIF, "harness"), timeout=timeout, env=env)
    return rc == 0, out, o


# ---------------------------------------------------------------- OCaml modelrun

def build_modelrun(prop, timeout=600):
    """Compile extracted model + driver. Returns (ok, exe, log)."""
    mr = prop["modelrun"]
    name = mr["name"]
    bdir = os.path.join(VERIF, "ocaml", "_build", name)
    os.makedirs(bdir, exist_ok=True)
    srcs = []
    h = hashlib.sha1()
    for modname in mr["extracted"]:
        for ext in (".mli", ".ml"):
            p = os.path.join(COQ, modname + ext)
            if not os.path.exists(p):
                return False, None, "extracted file %s missing (did the Extract/*.v target build?)" % p
            h.update(open(p, "rb").read())
    conv = open(os.path.join(VERIF, "ocaml", "common", "conv.ml")).read()
    drv = open(os.path.join(VERIF, mr["driver"])).read()
    main = "".join("open %s\n" % (m[0].upper() + m[1:]) for m in mr["extracted"]) + conv + "\n" + drv
    h.update(main.encode())
    stamp = os.path.join(bdir, "stamp")
    exe = os.path.join(bdir, "run")
    if os.path.exists(stamp) and os.path.exists(exe) and open(stamp).read() == h.hexdigest():
        return True, exe, "up to date"
    files = []
    for modname in mr["extracted"]:
        for ext in (".mli", ".ml"):
            shutil.copyfile(os.path.join(COQ, modname + ext), os.path.join(bdir, modname + ext))
            files.append(modname + ext)
    open(os.path.join(bdir, "main.ml"), "w").write(main)
    files.append("main.ml")
    rc, out = sh(["ocamlfind", "ocamlopt", "-O2" if False else "-inline", "50", "-w", "-a", "-package", "str,unix",
                  "-linkpkg"] + files + ["-o", "run"], cwd=bdir, timeout=timeout)
    if rc != 0:
        return False, None, out
    open(stamp, "w").write(h.hexdigest())
    return True, exe, out


# ---------------------------------------------------------------- findings

def known_findings(pid):
    p = os.path.join(VERIF, "known_findings.json")
    if not os.path.exists(p):
        return []
    data = json.load(open(p))
    return [e for e in data.get("findings", []) if e.get("property") == pid]


def sig_known(pid, sig):
    for e in known_findings(pid):
        if e.get("status") == "known" and e.get("signature") == sig:
            return e
    return None


def parse_kv(line):
    """'SPEC-VIOLATION case=3 sig=foo rest of detail' -> dict(case, sig, detail)."""
    d = {"detail": line}
    for m in re.finditer(r"\b(case|sig|clause)=(\S+)", line):
        d.setdefault(m.group(1), m.group(2))
    return d


def write_replay(pid, obj):
    d = os.path.join(VERIF, "replay")
    os.makedirs(d, exist_ok=True)
    blob = json.dumps(obj, sort_keys=True, indent=1)
    path = os.path.join(d, "%s-%s.json" % (pid, hashlib.sha1(blob.encode()).hexdigest()[:12]))
    open(path, "w").write(blob + "\n")
    return path


def read_trace_cases(trace):
    """Trace line: '<caseid> <nt:0|1> <input tokens> => <impl observation>'."""
    cases = {}
    if not os.path.exists(trace):
        return cases
    with open(trace) as f:
        for line in f:
            line = line.rstrip("\n")
            if not line or line.startswith("#"):
                continue
            parts = line.split(" ", 2)
            if len(parts) < 3:
                continue
            cases[parts[0]] = line
    return cases


def trace_stats(trace):
    n, seen, samples = 0, set(), []
    if not os.path.exists(trace):
        return 0, 0, []
    with open(trace) as f:
        for line in f:
            line = line.rstrip("\n")
            if not line or line.startswith("#"):
                continue
            parts = line.split(" ", 2)
            if len(parts) < 3:
                continue
            n += 1
            inp = parts[2].split(" => ")[0]
            if parts[1] == "1":
                hsh = hashlib.sha1(inp.encode()).digest()[:10]
                if hsh not in seen:
                    seen.add(hsh)
                    if len(samples) < 3 and len(line) < 1500:
                        samples.append(line)
    return n, len(seen), samples


# ---------------------------------------------------------------- the check

def run_harness_once(exe, prop, tier, seed, mode, ncases, outdir, extra=None, timeout=1500):
    os.makedirs(outdir, exist_ok=True)
    trace = os.path.join(outdir, "trace-%s.txt" % mode)
    stats = os.path.join(outdir, "stats-%s.json" % mode)
    for p in (trace, stats):
        if os.path.exists(p):
            os.remove(p)
    cmd = [exe, "-seed", str(seed), "-tier", tier, "-mode", mode, "-n", str(ncases), "-out", trace,
           "-stats", stats, "-corpus", os.path.join(VERIF, "corpus", prop["id"])] + list(extra or [])
    rc, out = sh(cmd, cwd=outdir, timeout=timeout, env=dict(GOENV, VERIF_REPO=REPO))
    st = {}
    if os.path.exists(stats):
        try:
            st = json.load(open(stats))
        except Exception:
            st = {}
    return rc, out, trace, st


def run_modelrun(exe, trace, timeout=1500, extra=None):
    rc, out = sh([exe, trace] + list(extra or []), timeout=timeout)
    return rc, out


def shared_stages_for(pid):
    path = os.path.join(VERIF, "props", "_shared.py")
    if not os.path.exists(path):
        return []
    spec = importlib.util.spec_from_file_location("props_shared", path)
    m = importlib.util.module_from_spec(spec)
    spec.loader.exec_module(m)
    return [st for st in getattr(m, "SHARED", []) if pid in st.get("props", [])]


def tree_fingerprint():
    """Identify the state of the repo working tree (HEAD + uncommitted diff + untracked go files)."""
    h = hashlib.sha1()
    for cmd in (["git", "-C", REPO, "rev-parse", "HEAD"], ["git", "-C", REPO, "diff", "HEAD"],
                ["git", "-C", REPO, "status", "--porcelain"]):
        rc, out = sh(cmd, timeout=120)
        h.update(out.encode())
    return h.hexdigest()[:16]


def run_shared_stage(st, pid, tier, seed):
    """Run (or reuse) a cross-property harness stage; return (lines for pid, stats)."""
    name = st["name"]
    hh = hashlib.sha1()
    for root in (os.path.join(VERIF, "harness"), os.path.join(VERIF, "corpus", name), os.path.join(VERIF, "props", "_shared.py")):
        paths = [root] if os.path.isfile(root) else sorted(
            os.path.join(dp, f) for dp, _dn, fs in os.walk(root) for f in fs if f.endswith((".go", ".txt", ".py")))
        for fp in paths:
            try:
                hh.update(fp.encode())
                hh.update(open(fp, "rb").read())
            except OSError:
                pass
    key = "%s-%s-%s-%s-%s" % (name, tree_fingerprint(), hh.hexdigest()[:10], tier, seed)
    cdir = os.path.join(SCRATCH, "shared", key)
    outf = os.path.join(cdir, "out.txt")
    statf = os.path.join(cdir, "stats.json")
    lock = os.path.join(SCRATCH, "shared", name + ".lock")
    os.makedirs(os.path.join(SCRATCH, "shared"), exist_ok=True)
    with open(lock, "w") as lf:
        fcntl.flock(lf, fcntl.LOCK_EX)
        if not os.path.exists(outf):
            os.makedirs(cdir, exist_ok=True)
            ok, exe, blog = build_harness(st["harness"])
            if not ok:
                open(outf, "w").write("HARNESS-ERROR prop=* shared stage %s does not build: %s\n" % (name, blog.strip()[-500:].replace("\n", " | ")))
            else:
                n = st.get("tiers", {}).get(tier, {}).get("cases", 200)
                rc, out, trace, stats = run_harness_once(exe, {"id": "shared-" + name}, tier, seed, "check", n, cdir,
                                                         extra=st.get("harness_args", []),
                                                         timeout=st.get("timeout", 900))
                if rc != 0 and "SPEC-VIOLATION" not in out:
                    out += "\nHARNESS-ERROR prop=* shared stage %s exit=%d %s" % (name, rc, out.strip()[-300:].replace("\n", " | "))
                open(outf, "w").write(out)
                json.dump(stats or {}, open(statf, "w"))
        fcntl.flock(lf, fcntl.LOCK_UN)
    lines = []
    for l in open(outf).read().split("\n"):
        m = re.search(r"\bprop=(\S+)", l)
        if not m:
            continue
        if m.group(1) == pid or m.group(1) == "*":
            lines.append(re.sub(r"\s*\bprop=\S+", "", l, count=1))
    stats = {}
    if os.path.exists(statf):
        try:
            stats = json.load(open(statf))
        except Exception:
            stats = {}
    return lines, stats


def classify(lines):
    spec, corr, other = [], [], []
    for l in lines:
        if l.startswith("SPEC-VIOLATION"):
            spec.append(l)
        elif l.startswith("CORR-MISMATCH"):
            corr.append(l)
        elif l.startswith("HARNESS-ERROR") or l.startswith("MODEL-ERROR"):
            other.append(l)
    return spec, corr, other


def run_check(pid, tier, seed):
    t0 = time.time()
    prop = load_prop(pid)
    outdir = os.path.join(SCRATCH, pid)
    os.makedirs(outdir, exist_ok=True)
    tcfg = prop["tiers"][tier]
    violations = []          # (text, replay_path, no_failing_input)
    known_seen = []
    notes = []
    broken = []              # names of theorems / correspondences that no longer check

    # ---- A. proof side
    ps = proof_side(prop, timeout=tcfg.get("coq_timeout", 1500))
    if not ps["ok"]:
        for p in ps["problems"]:
            broken.append("proof:" + p)

    # ---- B. correspondence side
    evaluations = distinct = validated = 0
    samples, hstats, mstats = [], {}, {}
    spec_lines, corr_lines, err_lines = [], [], []
    cases = {}
    hok, hexe, hlog = build_harness(prop["harness"])
    if not hok:
        broken.append("correspondence:%s harness does not build against %s: %s" % (pid, REPO, hlog.strip()[-700:]))
    else:
        rc, hout, trace, hstats = run_harness_once(hexe, prop, tier, seed, "check", tcfg["cases"], outdir,
                                                   extra=prop.get("harness_args", []),
                                                   timeout=tcfg.get("harness_timeout", 1500))
        hl = hout.split("\n")
        s, c, e = classify(hl)
        spec_lines += s
        err_lines += e
        if rc != 0 and not s:
            err_lines.append("HARNESS-ERROR exit=%d %s" % (rc, hout.strip()[-500:]))
        evaluations, distinct, samples = trace_stats(trace)
        cases = read_trace_cases(trace)
        if ps["ok"] or os.path.exists(os.path.join(COQ, prop["modelrun"]["extracted"][0] + ".ml")):
            mok, mexe, mlog = build_modelrun(prop)
            if not mok:
                broken.append("correspondence:%s modelrun does not build: %s" % (pid, (mlog or "")[-500:]))
            else:
                rc, mout = run_modelrun(mexe, trace, timeout=tcfg.get("model_timeout", 1500))
                ml = mout.split("\n")
                s, c, e = classify(ml)
                spec_lines += s
                corr_lines += c
                err_lines += e
                for l in ml:
                    if l.startswith("STATS "):
                        for m in re.finditer(r"(\w+)=(\S+)", l):
                            try:
                                mstats[m.group(1)] = int(m.group(2))
                            except ValueError:
                                mstats[m.group(1)] = m.group(2)
                validated = mstats.get("compared", 0)
                if rc != 0 and not (s or c):
                    err_lines.append("MODEL-ERROR exit=%d %s" % (rc, mout.strip()[-500:]))
        else:
            broken.append("correspondence:%s model not extracted (coq build failed)" % pid)

    # ---- B'. optional property-specific stage (props/Cnn.py: def extra(ctx) -> {"lines": [...], "stats": {...}})
    xstats = {}
    if callable(prop.get("extra")):
        try:
            xr = prop["extra"]({"tier": tier, "seed": seed, "outdir": outdir, "repo": REPO, "verif": VERIF,
                                "vlib": sys.modules[__name__], "proof_ok": ps["ok"]}) or {}
        except Exception as ex:  # a crashing stage is a broken tie, never a silent pass
            xr = {"lines": ["HARNESS-ERROR extra stage raised %r" % (ex,)]}
        s, c, e = classify(xr.get("lines", []))
        spec_lines += s
        corr_lines += c
        err_lines += e
        xstats = xr.get("stats", {})
        evaluations += int(xstats.get("evaluations", 0))

    # ---- B''. shared cross-property stages (props/_shared.py): one harness run per (tree, seed, tier), cached;
    #      each SPEC-VIOLATION line carries prop=Cnn and is attributed to that property's check only
    sstats = {}
    for st in shared_stages_for(pid):
        try:
            lines, one = run_shared_stage(st, pid, tier, seed)
        except Exception as ex:
            lines, one = ["HARNESS-ERROR shared stage %s raised %r" % (st.get("name"), ex)], {}
        s, c, e = classify(lines)
        spec_lines += s
        corr_lines += c
        err_lines += e
        sstats[st["name"]] = one
        evaluations += int(one.get("cases", 0))

    # ---- C. verdict
    unlisted_spec = []
    seen_sigs = set()
    for l in spec_lines:
        kv = parse_kv(l)
        sig = kv.get("sig", "?")
        e = sig_known(pid, sig)
        if e is not None:
            if sig not in seen_sigs:
                seen_sigs.add(sig)
                known_seen.append((sig, e.get("what", "")))
        else:
            unlisted_spec.append((l, kv))
    for l in err_lines:
        broken.append("correspondence:%s %s" % (pid, l[:700]))
    if corr_lines:
        broken.append("correspondence:%s model and implementation disagree on %d case(s); first: %s" % (
            pid, len(corr_lines), corr_lines[0][:700]))

    reported = set()
    for l, kv in unlisted_spec:
        sig = kv.get("sig", "?")
        if sig in reported:
            continue
        reported.add(sig)
        cl = cases.get(kv.get("case", ""), None)
        path = write_replay(pid, {"property": pid, "kind": "spec-violation", "signature": sig, "verdict": l,
                                  "case_line": cl, "seed": seed, "tier": tier, "repo": REPO})
        violations.append((l, path, False))

    if broken and not violations:
        # search for a concrete failing input with the spec oracle on the implementation
        found = None
        if hok:
            for k in range(prop.get("search_rounds", 3)):
                rc, sout, strace, _ = run_harness_once(hexe, prop, tier, seed + 7919 * (k + 1), "search",
                                                       prop.get("search_cases", tcfg["cases"] * 4), outdir,
                                                       extra=prop.get("harness_args", []),
                                                       timeout=tcfg.get("harness_timeout", 1500))
                s, _, _ = classify(sout.split("\n"))
                scases = read_trace_cases(strace)
                for l in s:
                    kv = parse_kv(l)
                    if sig_known(pid, kv.get("sig", "?")) is None:
                        found = (l, kv, scases.get(kv.get("case", "")))
                        break
                if found:
                    break
        if found:
            l, kv, cl = found
            path = write_replay(pid, {"property": pid, "kind": "spec-violation", "signature": kv.get("sig"),
                                      "verdict": l, "case_line": cl, "seed": seed, "tier": tier, "repo": REPO,
                                      "broken": broken})
            violations.append((l, path, False))
        else:
            path = write_replay(pid, {"property": pid, "kind": "broken-tie", "no_failing_input": True,
                                      "broken": broken, "seed": seed, "tier": tier, "repo": REPO,
                                      "first_mismatch_case": cases.get(parse_kv(corr_lines[0]).get("case", "")) if corr_lines else None})
            violations.append(("; ".join(broken)[:900], path, True))

    # ---- D. optional coqchk (thorough)
    coqchk = None
    if tier == "thorough" and ps["ok"] and prop.get("coqchk", True) and os.environ.get("VERIF_NO_COQCHK") != "1":
        mods = [NS + "." + prop["properties_file"][:-2].replace("/", ".")]
        with BuildLock():
            rc, out = sh(["coqchk", "-silent", "-o", "-Q", ".", NS] + mods, cwd=COQ, timeout=3000)
        coqchk = {"rc": rc, "tail": out.strip()[-1500:]}
        if rc != 0:
            path = write_replay(pid, {"property": pid, "kind": "broken-tie", "no_failing_input": True,
                                      "broken": ["coqchk rejected " + mods[0], out[-2000:]]})
            violations.append(("coqchk failed", path, True))

    # ---- E. evidence + output
    wall = time.time() - t0
    tb = list(prop.get("trusted_base", []))
    tb.insert(0, "Coq 8.16.1 kernel (coqc, full .vo build); vm_compute used in proofs; native_compute not used")
    axs = sorted({a for v in ps.get("axioms", {}).values() if v != "closed" for a in v})
    tb.insert(1, "axioms per Print Assumptions: " + (", ".join(axs) if axs else "none (all property theorems closed under the global context)"))
    ev = {
        "property_id": pid, "tier": tier, "seed": int(seed), "level": "proof",
        "coverage": {
            "obligations": ps.get("obligations", 0), "discharged": ps.get("discharged", 0),
            "checker_cmd": ps.get("checker_cmd", ""), "trusted_base": tb,
            "theorems": ps.get("axioms", {}),
            "evaluations": evaluations, "distinct_nontrivial": distinct,
            "rule": prop.get("rule", ""), "samples": samples or ["<no trace>"],
            "traces_validated_against_impl": validated,
            "disagreements_checked": len(corr_lines),
            "spec_violations_seen": len(spec_lines),
            "known_findings_seen": [s for s, _ in known_seen],
            "input_distribution": hstats, "model_stats": mstats, "extra_stage": xstats, "shared_stages": sstats,
            "proof_problems": ps.get("problems", []),
            "broken": broken, "coqchk": coqchk,
            "explanation": prop.get("explanation", ""),
        },
        "assumptions": list(prop.get("assumptions", [])),
        "wall_s": round(wall, 2), "violations": len(violations),
    }
    os.makedirs(os.path.join(VERIF, "evidence"), exist_ok=True)
    with open(os.path.join(VERIF, "evidence", pid + ".json"), "w") as f:
        json.dump(ev, f, indent=1, sort_keys=True)
        f.write("\n")

    log("[%s] tier=%s seed=%s theorems %d/%d, cases=%d (distinct non-trivial %d), model-compared=%d, wall=%.1fs" % (
        pid, tier, seed, ps.get("discharged", 0), ps.get("obligations", 0), evaluations, distinct, validated, wall))
    for sig, what in known_seen:
        log("KNOWN-FINDING: property=%s %s [%s]" % (pid, what, sig))
    for text, path, nofound in violations:
        log("  " + text[:1000].replace("\n", " | "))
        log("VIOLATION property=%s replay=%s%s" % (pid, path, " no-failing-input-found" if nofound else ""))
    return 1 if violations else 0


def run_replay(pid, path):
    prop = load_prop(pid)
    obj = json.load(open(path))
    outdir = os.path.join(SCRATCH, pid, "replay")
    os.makedirs(outdir, exist_ok=True)
    if obj.get("no_failing_input") and not obj.get("first_mismatch_case"):
        log("replay file names broken obligations only (no failing input):")
        for b in obj.get("broken", []):
            log("  " + str(b)[:1500])
        ps = proof_side(prop, timeout=1500)
        log("proof side now: ok=%s %s" % (ps["ok"], ps["problems"]))
        return 0 if ps["ok"] else 1
    cl = obj.get("case_line") or obj.get("first_mismatch_case")
    if not cl:
        log("nothing to replay in " + path)
        return 2
    rf = os.path.join(outdir, "replay-case.txt")
    open(rf, "w").write(cl + "\n")
    hok, hexe, hlog = build_harness(prop["harness"])
    if not hok:
        log("harness build failed: " + hlog[-800:])
        return 2
    rc, hout, trace, _ = run_harness_once(hexe, prop, "quick", 0, "replay", 1, outdir, extra=["-replay", rf] + prop.get("harness_args", []))
    lines = hout.split("\n")
    ps_ok, _ = coq_make(prop["coq_targets"])
    if ps_ok:
        mok, mexe, mlog = build_modelrun(prop)
        if mok:
            rc, mout = run_modelrun(mexe, trace)
            lines += mout.split("\n")
    s, c, e = classify(lines)
    for l in s + c + e:
        log(l)
    bad = [l for l in s if sig_known(pid, parse_kv(l).get("sig", "?")) is None] + c + e
    if bad:
        log("VIOLATION property=%s replay=%s" % (pid, path))
        return 1
    log("replay: no violation reproduced")
    return 0
