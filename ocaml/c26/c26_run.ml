(* C26 model driver: the access table of tools/locktab judged by Spec/LockSpec.v.
   (1) every access row that does not hold the guard of its field -> SPEC-VIOLATION with the site in
       the signature (known exception sites are listed in known_findings.json); unclassified fields;
   (2) tie to the implementation (race-detector build, run by props/C26.py): every race witness must
       be reported by the detector exactly when its exception row is (still) in the table, and the
       stress mixes over table-respecting operations must be report-free. *)
let str (cs : n list) : string = String.concat "" (List.map (fun c -> String.make 1 (Char.chr (int_of_n c))) cs)

let us (s : string) : string = String.map (fun c -> if c = ' ' then '_' else c) s

let has_acc (field : string) (fn : string) : bool =
  List.exists (fun ((v, fs), _) -> (v = RowKnown || v = RowNew) && (match List.map str fs with
      | [f; g] -> f = field && g = fn | _ -> false)) x_acc_rows

let () =
  let corr_only = Array.length Sys.argv > 2 && Sys.argv.(2) = "corr-only" in
  let rows = ref 0 in
  if not corr_only then begin
    List.iter (fun ((v, fs), w) ->
      incr rows;
      match v, List.map str fs with
      | (RowKnown | RowNew), [f; g] ->
        Printf.printf "SPEC-VIOLATION case=table sig=lockset:%s@%s:%s access without the guard of the field\n" f g (if w then "w" else "r")
      | RowBenign, [f; g] -> Printf.printf "NOTE benign lock-set exception %s@%s:%s\n" f g (if w then "w" else "r")
      | _ -> ()) x_acc_rows;
    List.iter (fun (v, fs) ->
      incr rows;
      match v, List.map str fs with
      | (RowKnown | RowNew), [f; k; c] ->
        Printf.printf "SPEC-VIOLATION case=table sig=shared-path:%s:%s %s into %s\n" f (us k) k c
      | RowBenign, [f; k; _] -> Printf.printf "NOTE benign shared-path exception %s:%s\n" f k
      | _ -> ()) x_shared_rows;
    List.iter (fun (v, fs) ->
      incr rows;
      match v, List.map str fs with
      | (RowKnown | RowNew), [g; h; k] ->
        Printf.printf "SPEC-VIOLATION case=table sig=unjoined-goroutine:%s@%s:%s the function addresses the goroutine without waiting for it\n" g h k
      | RowBenign, [g; h; k] -> Printf.printf "NOTE benign goroutine-join exception %s@%s:%s\n" g h k
      | _ -> ()) x_join_rows;
    List.iter (fun f ->
      Printf.printf "SPEC-VIOLATION case=table sig=unclassified-field:%s written after publication, neither guarded nor listed as goroutine-confined\n" (str f))
      x_unclassified
  end;
  let compared = ref 0 and mism = ref 0 in
  iter_trace Sys.argv.(1) (fun id inp obs ->
    let o = match obs with x :: _ -> x | [] -> "?" in
    let expect_race =
      match inp with
      | ["witness"; "race-route-paths"] -> Some (has_acc "route.Route.paths" "route.Route.Paths")
      | ["witness"; "race-adjribin-unregister"] ->
        Some (has_acc "route.Route.paths" "route.Route.Paths" || has_acc "adjRIBIn.AdjRIBIn.exportFilterChain" "adjRIBIn.AdjRIBIn.Unregister")
      | ["witness"; "race-adjribout-filterchain"] -> Some (has_acc "adjRIBOut.AdjRIBOut.exportFilterChain" "adjRIBOut.AdjRIBOut.AddPath")
      | ["witness"; "race-metrics-fsm-state"] -> Some (has_acc "server.FSM.state" "server.statusFromFSM")
      | "stress" :: _ -> Some false
      | _ -> None in
    match expect_race with
    | None -> ()
    | Some e ->
      incr compared;
      let got = (o = "RACE") in
      if o <> "OK" && o <> "RACE" then
        (incr mism; Printf.printf "CORR-MISMATCH case=%s implementation=%s (neither clean nor a race report)\n" id (String.concat " " obs))
      else if e <> got then
        (incr mism; Printf.printf "CORR-MISMATCH case=%s table predicts %s, race detector: %s\n" id
           (if e then "a race (exception row present)" else "no race") (String.concat " " obs)));
  Printf.printf "STATS compared=%d mismatches=%d rows=%d fields=%d guarded=%d\n" !compared !mism !rows
    (int_of_n (List.nth x_counts 3)) (int_of_n (List.nth x_counts 5))
