(* C13 modelrun: the object-store model (Model.Heap) of two Adj-RIB-Outs over one store is replayed on the
   calls the Loc-RIB made (with object identities) and must reproduce the values stored in both tables
   AND the sharing of path objects and BGPPathA blocks. Grammar: harness/cmd/c13/main.go. *)
let () =
  let compared = ref 0 and mism = ref 0 in
  iter_trace Sys.argv.(1) (fun id inp obs ->
    incr compared;
    match obs with
    | ["PANIC"] | ["HANG"] ->
      incr mism; Printf.printf "CORR-MISMATCH case=%s impl %s, model does not\n" id (List.hd obs)
    | _ ->
      (match inp with
       | sa :: sb :: ca :: cb :: ops ->
         (try
           let (s0, mp0) = parse_sess sa and (s1, mp1) = parse_sess sb in
           ignore mp0; ignore mp1;
           let chain_of t = parse_chain (String.sub t 1 (String.length t - 1)) in
           let mk c = { t_tbl = []; t_pm = pidm_empty; t_cur = c; t_bad = false } in
           let heap = ref heap_empty and ta = ref (mk (chain_of ca)) and tb = ref (mk (chain_of cb)) in
           let oids = ref [] (* harness object number -> oid, newest first *) and opfx = ref [] in
           let oid k = List.nth (List.rev !oids) k and pfx_of k = List.nth (List.rev !opfx) k in
           let run who o =
             if who = 'A' then (let (h, t) = hstep interp s0 (!heap, !ta) o in heap := h; ta := t)
             else (let (h, t) = hstep interp s1 (!heap, !tb) o in heap := h; tb := t) in
           let bad = ref None in
           List.iteri (fun i optok ->
             if !bad = None then begin
               let o = (try List.nth obs i with _ -> "<missing>") in
               match split_obs o with
               | [stream; view; tabA; tabB; classes] ->
                 let body = String.sub optok 1 (String.length optok - 1) in
                 (match optok.[0] with
                  | 'n' ->
                    let n = String.length body in
                    let shared = body.[n - 1] = '1' in
                    let (pf, v) = parse_pfx_path (String.sub body 0 (n - 2)) in
                    let (h, o) = hnew !heap v shared in
                    heap := h; oids := o :: !oids; opfx := pf :: !opfx
                  | _ -> ());
                 (* the calls the Loc-RIB made *)
                 if stream <> "-" then
                   List.iter (fun t ->
                     let who = t.[0] and add = t.[1] = '+' in
                     (match String.split_on_char '.' (String.sub t 2 (String.length t - 2)) with
                      | [pf; k] ->
                        let k = int_of_string k in
                        if k < 0 then failwith "call with an object the harness does not know";
                        run who (if add then HAdd (ni pf, oid k) else HRemove (ni pf, oid k))
                      | _ -> failwith ("bad stream item " ^ t))) (String.split_on_char ',' stream);
                 (match optok.[0] with
                  | 'x' ->
                    let who = body.[0] in
                    let c = parse_chain (String.sub body 1 (String.length body - 1)) in
                    let vw = if view = "-" then [] else
                        List.map (fun e -> match String.index_opt e '=' with
                          | Some j -> (ni (String.sub e 0 j),
                                       List.map (fun k -> oid (int_of_string k))
                                         (String.split_on_char '.' (String.sub e (j + 1) (String.length e - j - 1))))
                          | None -> failwith ("bad view " ^ e)) (String.split_on_char ';' view) in
                    run who (HReplace (c, vw))
                  | 'd' ->
                    let who = body.[0] and k = int_of_string (String.sub body 1 (String.length body - 1)) in
                    if k < List.length !oids then run who (HAdd (pfx_of k, oid k))
                  | _ -> ());
                 (* the update senders behind both tables pack and write what was queued: they only read *)
                 run 'A' HFlush; run 'B' HFlush;
                 (* observables *)
                 let tab t =
                   let pfxs = List.sort_uniq compare (List.map (fun (k, _) -> int_of_n k) t.t_tbl) in
                   join_or_dash ";" (List.map (fun k ->
                     string_of_int k ^ "=" ^ String.concat "," (List.map (fun o ->
                       match read !heap o with Some v -> print_path v | None -> "?") (entries (n_of_int k) t.t_tbl))) pfxs) in
                 let ordered t =
                   let pfxs = List.sort_uniq compare (List.map (fun (k, _) -> int_of_n k) t.t_tbl) in
                   List.concat (List.map (fun k -> entries (n_of_int k) t.t_tbl) pfxs) in
                 let all = List.rev !oids @ ordered !ta @ ordered !tb in
                 let pc = Hashtbl.create 16 and bc = Hashtbl.create 16 in
                 let cls tbl key = (match Hashtbl.find_opt tbl key with
                   | Some c -> c | None -> let c = Hashtbl.length tbl in Hashtbl.add tbl key c; c) in
                 let pcs = List.map (fun o -> string_of_int (cls pc (int_of_n o))) all in
                 let bcs = List.map (fun o -> match obj_get o !heap.objs with
                   | Some { o_blk = Some k; _ } -> string_of_int (cls bc (int_of_n k))
                   | _ -> "-") all in
                 let mo = String.concat "#" [tab !ta; tab !tb; join_or_dash "." pcs ^ "/" ^ join_or_dash "." bcs] in
                 let io = String.concat "#" [tabA; tabB; classes] in
                 if !ta.t_bad || !tb.t_bad then bad := Some (i, "model: id search diverged", io)
                 else if mo <> io then bad := Some (i, mo, io)
               | _ -> bad := Some (i, "<unparsable observation>", o)
             end) ops;
           (match !bad with
            | None -> ()
            | Some (i, mo, io) ->
              incr mism;
              Printf.printf "CORR-MISMATCH case=%s after-op=%d model=%s impl=%s\n" id i mo io)
         with Failure m | Invalid_argument m ->
           incr mism; Printf.printf "CORR-MISMATCH case=%s driver cannot parse: %s\n" id m)
       | _ -> incr mism; Printf.printf "CORR-MISMATCH case=%s short input\n" id));
  Printf.printf "STATS compared=%d mismatches=%d\n" !compared !mism
