(* C20 modelrun: replay each case (an address family + a sequence of decoded UPDATE messages) through
   the extracted model (Model.UpdateApply.process_update over Model.AdjRIBIn) and compare the Adj-RIB-In
   and Loc-RIB content after every message with the implementation; additionally check on the model
   that process_update equals the fold of the per-NLRI operations (Spec.UpdateApplySpec.message_ops). *)
let ni = n_of_int
let i_of s = ni (int_of_string s)

let parse_list (s : string) : n list =
  if s = "_" || s = "" then [] else List.map i_of (String.split_on_char '-' s)

let parse_nl (s : string) : nlri list =
  if s = "_" || s = "" then [] else
    List.map (fun x -> match String.split_on_char '.' x with
        | [p; i] -> { n_pfx = i_of p; n_id = i_of i }
        | _ -> failwith ("bad nlri " ^ x)) (String.split_on_char '+' s)

let starts_with p s = String.length s >= String.length p && String.sub s 0 (String.length p) = p
let after k s = String.sub s k (String.length s - k)

let parse_attr (t : string) : attr =
  if starts_with "!" t then begin
    match after 1 t with
    | "lp" -> ALocalPref (false, N0) | "med" -> AMed (false, N0) | "nh" -> ANextHop (false, N0)
    | "as" -> AASPath (false, []) | "or" -> AOriginator (false, N0) | "cl" -> AClusterList (false, [])
    | "R" -> AReach (false, { mr_afi = N0; mr_safi = N0; mr_nh = N0; mr_nlri = [] })
    | "X" -> AUnreach (false, { mu_afi = N0; mu_safi = N0; mu_nlri = [] })
    | "ig" -> AIgnored false
    | k -> failwith ("bad attr !" ^ k)
  end
  else if starts_with "lp=" t then ALocalPref (true, i_of (after 3 t))
  else if starts_with "med=" t then AMed (true, i_of (after 4 t))
  else if starts_with "nh=" t then ANextHop (true, i_of (after 3 t))
  else if starts_with "or=" t then AOriginator (true, i_of (after 3 t))
  else if starts_with "as=" t then AASPath (true, parse_list (after 3 t))
  else if starts_with "cl=" t then AClusterList (true, parse_list (after 3 t))
  else if starts_with "ig" t then AIgnored true
  else if starts_with "sk" t then ASkipped
  else if starts_with "R" t || starts_with "X" t then begin
    match String.split_on_char '/' (after 1 t) with
    | [h; l] ->
      (match String.split_on_char '.' h, t.[0] with
       | [a; s; nh], 'R' -> AReach (true, { mr_afi = i_of a; mr_safi = i_of s; mr_nh = i_of nh; mr_nlri = parse_nl l })
       | [a; s], 'X' -> AUnreach (true, { mu_afi = i_of a; mu_safi = i_of s; mu_nlri = parse_nl l })
       | _ -> failwith ("bad attr " ^ t))
    | _ -> failwith ("bad attr " ^ t)
  end
  else failwith ("bad attr " ^ t)

let parse_msg (t : string) : update =
  match String.split_on_char ';' (after 2 t) with
  | [w; a; n] ->
    let attrs = let s = after 2 a in if s = "_" then [] else List.map parse_attr (String.split_on_char ',' s) in
    { u_withdrawn = parse_nl (after 2 w); u_attrs = attrs; u_nlri = parse_nl (after 2 n) }
  | _ -> failwith ("bad message " ^ t)

let fmt_list (l : n list) : string =
  if l = [] then "_" else String.concat "-" (List.map (fun x -> string_of_int (int_of_n x)) l)
let path_str (q : path) : string =
  Printf.sprintf "%d.%d.%d.%d.%s.%d.%s.%d.%d" (int_of_n q.pid) (int_of_n q.lpref) (int_of_n q.med) (int_of_n q.nhop)
    (fmt_list q.aspath) (int_of_n q.origid) (fmt_list q.clist) (int_of_n q.otc) (int_of_n q.hid)
let table_str (t : (n * path) list) : string =
  if t = [] then "-" else
    String.concat "," (List.sort compare (List.map (fun (p, q) -> Printf.sprintf "%d/%s" (int_of_n p) (path_str q)) t))

let obs_of (s : st) : string = "T=" ^ table_str s.tab ^ "|C=" ^ table_str (ct_get N0 s.ctabs)

let () =
  let compared = ref 0 and mism = ref 0 in
  iter_trace Sys.argv.(1) (fun id inp obs ->
    match inp with
    | [] -> ()
    | famtok :: msgs ->
      let (afi, ap, ib) = match List.map int_of_string (String.split_on_char ',' (after 4 famtok)) with
        | [a; b; c] -> (a, b = 1, c = 1) | _ -> failwith "bad fam" in
      let sa = { ibgp = ib; addpath_rx = ap; rid = ni 9; peer_asn = ni (if ib then 65000 else 65001); deflp = ni 100;
                 role_on = false; role_adv = false; role_remote = N0 } in
      let s0 = List.fold_left step (init sa (sample_policy N0 N0)) [AddASN (ni 65000); Register N0] in
      let s = ref (Some s0) in
      let bad = ref None in
      List.iteri (fun i t ->
        match !s with
        | None -> ()
        | Some cur ->
          let u = parse_msg t in
          let mo, next =
            match process_update (ni afi) (ni 1) u cur with
            | Panic -> ("PANIC", None)
            | Done s' ->
              (* the model's own tie to the spec, on this very input: the fold of the per-NLRI operations *)
              let s'' = List.fold_left step cur (message_ops (ni afi) u) in
              if obs_of s'' <> obs_of s' && !bad = None then
                bad := Some (i, t, "model:" ^ obs_of s', "per-nlri-fold:" ^ obs_of s'');
              (obs_of s', Some s') in
          let io = (try List.nth obs i with _ -> "<missing>") in
          if !bad = None && mo <> io then bad := Some (i, t, mo, io);
          s := next) msgs;
      incr compared;
      (match !bad with
       | None -> ()
       | Some (i, t, mo, io) ->
         incr mism;
         Printf.printf "CORR-MISMATCH case=%s message=%d(%s) model=%s impl=%s\n" id i t mo io));
  Printf.printf "STATS compared=%d mismatches=%d\n" !compared !mism
