(* C10 modelrun: the observation of a case lists the atomic steps that reached the update sender
   (with the wire events each produced); replay them through the extracted transition function
   Model.UpdateSender.step and compare the wire events of every step, the peer's final view
   (Model.view) and the Adj-RIB-Out (Spec.adj_rib_out, folded with rib_step). *)
let parse_cfg (s : string) : cfg =
  match String.split_on_char '/' s with
  | [f; ap; a4; ib; rr] ->
    { c_fam = (match f with "v4" -> V4 | "v4mp" -> V4MP | "v6" -> V6MP | _ -> failwith ("bad family " ^ f));
      c_addpath = (ap = "1"); c_asn4 = (a4 = "1"); c_ibgp = (ib = "1"); c_rr = (rr = "1") }
  | _ -> failwith ("bad cfg " ^ s)

let parse_ints (s : string) : int list =
  if s = "-" || s = "" then [] else List.map int_of_string (String.split_on_char '.' s)

let parse_shape (s : string) : int -> int -> path =
  let kv = List.map (fun t -> match String.index_opt t '=' with
      | Some i -> (String.sub t 0 i, String.sub t (i + 1) (String.length t - i - 1))
      | None -> failwith ("bad shape " ^ s)) (String.split_on_char ',' s) in
  let get k = try List.assoc k kv with Not_found -> failwith ("shape lacks " ^ k) in
  let b k = get k = "1" and n k = n_of_int (int_of_string (get k)) in
  let segs = List.map n_of_int (parse_ints (get "s")) and unk = List.map n_of_int (parse_ints (get "u")) in
  fun tag pid ->
    { p_tag = n_of_int tag; p_pid = n_of_int pid; p_segs = segs;
      p_med = b "m"; p_atomic = b "t"; p_aggr = b "g"; p_orig = b "o"; p_otc = b "c";
      p_clist = n "cl"; p_comms = n "co"; p_lcomms = n "lc"; p_unk = unk }

let hmod = 1000000007

let render_msg (m : msg) : string =
  match m with
  | MEoR -> "o"
  | MWd (x, pid) -> Printf.sprintf "w%d:%d" (int_of_n x.x_addr) (int_of_n pid)
  | MAnn (tag, pid, len, xs) ->
    let n = List.length xs in
    let body =
      if n <= 12 then String.concat "." (List.map (fun x -> string_of_int (int_of_n x.x_addr)) xs)
      else begin
        let h = ref 0 in
        List.iteri (fun j x -> h := (!h + (j + 1) * (int_of_n x.x_addr + 1)) mod hmod) xs;
        Printf.sprintf "#%d:%d" n !h
      end in
    Printf.sprintf "n%d:%d:%d:%s" (int_of_n tag) (int_of_n pid) (int_of_z len) body

(* messages consed onto `old` to give `cur`, oldest first *)
let new_msgs (old : msg list) (cur : msg list) : msg list =
  let rec go l acc = if l == old then acc else match l with [] -> acc | m :: r -> go r (m :: acc) in
  go cur []

exception Mismatch of string

let split2 (s : string) (c : char) : string * string =
  match String.index_opt s c with
  | Some i -> (String.sub s 0 i, String.sub s (i + 1) (String.length s - i - 1))
  | None -> (s, "")

let render_table (keys : (int * int) list) (f : int -> int -> int option) : string =
  let rows = List.filter_map (fun (x, pid) -> match f x pid with Some t -> Some (x, pid, t) | None -> None)
      (List.sort_uniq compare keys) in
  if rows = [] then "-" else
  if List.length rows > 16 then begin
    let h = List.fold_left (fun h (x, pid, t) -> (h * 31 + x * 7 + pid * 3 + t) mod hmod) 0 rows in
    Printf.sprintf "#%d:%d" (List.length rows) h
  end else String.concat "," (List.map (fun (x, pid, t) -> Printf.sprintf "%d:%d:%d" x pid t) rows)

let run_case (inp : string list) (obs : string list) : unit =
  let c, rest = match inp with
    | cs :: _mode :: r -> (parse_cfg cs, r)
    | _ -> failwith "short input" in
  let shapes = Hashtbl.create 8 in
  List.iter (fun t ->
      if t <> "" && t.[0] = 'P' then begin
        let (k, v) = split2 (String.sub t 1 (String.length t - 1)) '=' in
        Hashtbl.replace shapes (int_of_string k) (parse_shape v)
      end) rest;
  let plen = match c.c_fam with V6MP -> 48 | _ -> 24 in
  let pfx_of x = { x_addr = n_of_int x; x_len = n_of_int plen } in
  let path_of tag pid =
    try (Hashtbl.find shapes tag) tag pid with Not_found -> raise (Mismatch (Printf.sprintf "path %d is not declared" tag)) in
  let wpid pid = if c.c_addpath then pid else 0 in
  let s = ref init and rib = ref rib_empty and keys = ref [] in
  let do_step (l : label) : string =
    let old = !s.wire in
    (match step c !s l with
     | Some s' -> s := s'
     | None -> raise (Mismatch "label is not enabled in the model"));
    rib := rib_step c !rib l;
    String.concat "," (List.map render_msg (new_msgs old !s.wire)) in
  let three body = match String.split_on_char ':' body with
    | [a; b; d] -> (a, int_of_string b, int_of_string d)
    | _ -> raise (Mismatch ("bad label " ^ body)) in
  let expect i tok want got =
    if want <> got then
      raise (Mismatch (Printf.sprintf "step=%d label=%s model-wire=%s impl-wire=%s" i tok
                         (if got = "" then "-" else got) (if want = "" then "-" else want))) in
  List.iteri (fun i tok ->
      let (lab, w) = split2 tok '=' in
      let body = String.sub lab 1 (String.length lab - 1) in
      match lab.[0] with
      | 'A' ->
        let (xs, tag, pid) = three body in
        let (lo, hi) = match String.split_on_char '-' xs with
          | [a] -> (int_of_string a, int_of_string a)
          | [a; b] -> (int_of_string a, int_of_string b)
          | _ -> raise (Mismatch ("bad label " ^ lab)) in
        let p = path_of tag pid in
        let acc = Buffer.create 16 in
        for x = lo to hi do
          keys := (x, wpid pid) :: !keys;
          Buffer.add_string acc (do_step (Add (pfx_of x, p)))
        done;
        expect i tok w (Buffer.contents acc)
      | 'R' ->
        let (xs, tag, pid) = three body in
        let x = int_of_string xs in
        keys := (x, wpid pid) :: !keys;
        expect i tok w (do_step (Remove (pfx_of x, path_of tag pid)))
      | 'D' ->
        let (tag, pid) = split2 body ':' in
        expect i tok w (do_step (Dequeue (n_of_int (int_of_string tag), n_of_int (int_of_string pid))))
      | 'B' ->
        (* the real sender goroutine is blocked in the Write of a message of this key: it has
           dequeued the key if no batch was in flight, otherwise it is still writing that batch *)
        let (tag, pid) = split2 body ':' in
        let k = (n_of_int (int_of_string tag), n_of_int (int_of_string pid)) in
        (match !s.inflight with
         | None -> ignore (do_step (Dequeue k))
         | Some b ->
           if pkey b.b_path <> k then
             raise (Mismatch (Printf.sprintf "step=%d %s: the model has a batch of key %d:%d in flight" i tok
                                (int_of_n (fst (pkey b.b_path))) (int_of_n (snd (pkey b.b_path))))))
      | 'S' -> raise (Mismatch "the implementation's sender goroutine stalled")
      | 'E' -> expect i tok w (do_step EmitOne)
      | 'O' ->
        let order = if body = "" then [] else
            List.map (fun e -> let (t, p) = split2 e ':' in (n_of_int (int_of_string t), n_of_int (int_of_string p)))
              (String.split_on_char '.' body) in
        let first = do_step (EoRBegin order) in
        let parts = ref (if first = "" then [] else [first]) in
        let fuel = ref 100000 in
        while !s.eor <> None && !fuel > 0 do
          decr fuel;
          let e = do_step EoRStep in
          if e <> "" then parts := e :: !parts
        done;
        expect i tok w (String.concat "," (List.rev !parts))
      | 'V' ->
        let got = render_table !keys (fun x pid ->
            match view !s.wire (pfx_of x) (n_of_int pid) with Some t -> Some (int_of_n t) | None -> None) in
        if got <> w then raise (Mismatch (Printf.sprintf "peer-view model=%s impl=%s" got w))
      | 'T' ->
        let got = render_table !keys (fun x pid ->
            match !rib (pfx_of x) (n_of_int pid) with Some t -> Some (int_of_n t) | None -> None) in
        if got <> w then raise (Mismatch (Printf.sprintf "adj-rib-out model=%s impl=%s" got w))
      | _ -> raise (Mismatch ("unknown label " ^ lab))) obs;
  (* every case ends after a drain (hook-driven) or when the real goroutine has emptied the queue *)
  if not (quiescent !s) then
    raise (Mismatch "the implementation is quiescent, the model still has announcements queued or in flight")

let () =
  let compared = ref 0 and mism = ref 0 in
  iter_trace Sys.argv.(1) (fun id inp obs ->
    incr compared;
    if obs = ["PANIC"] then
      (incr mism; Printf.printf "CORR-MISMATCH case=%s impl panicked, model does not\n" id)
    else
      try run_case inp obs with
      | Mismatch m ->
        incr mism;
        let m = if String.length m > 400 then String.sub m 0 400 ^ "..." else m in
        Printf.printf "CORR-MISMATCH case=%s %s\n" id m
      | e -> incr mism; Printf.printf "MODEL-ERROR case=%s %s\n" id (Printexc.to_string e));
  Printf.printf "STATS compared=%d mismatches=%d\n" !compared !mism
