(* C31 modelrun: replay each case through the extracted Model.Adj.step and compare, event by event,
   with the implementation's neighbor table (state, timeout, last change per neighbor), the LSP
   update request flag and the neighbors listed in the local LSP. *)
let verdict_of (c : char) : verdict =
  match c with
  | 'm' -> Lists
  | 's' | 'c' | 'n' -> NotLists
  | 'l' -> Ignored
  | _ -> Rejected

let parse_ev (t : string) : event =
  match t.[0] with
  | 'H' | 'B' ->
    (match String.split_on_char ':' (String.sub t 1 (String.length t - 1)) with
     | [n; h; k] -> Hello (n_of_int (int_of_string n), n_of_int (int_of_string h), verdict_of k.[0])
     | _ -> failwith ("bad hello " ^ t))
  | 'T' -> Tick (n_of_int (int_of_string (String.sub t 1 (String.length t - 1))))
  | 'R' -> Regen
  | 'G' -> ForceRegen
  | _ -> failwith ("bad token " ^ t)

let st_letter = function Up -> "U" | Init -> "I" | Down -> "D"

let obs_of (e : event) (s : srv) : string =
  let ns = List.sort compare (List.map (fun (k, nb) ->
      (int_of_n k, Printf.sprintf "%d:%s:%d:%d" (int_of_n k) (st_letter nb.state) (int_of_n nb.timeout) (int_of_n nb.changed)))
      s.nbrs) in
  let n = if ns = [] then "-" else String.concat "," (List.map snd ns) in
  let l = List.sort compare (List.map int_of_n s.lsp) in
  let l = if l = [] then "-" else String.concat "." (List.map string_of_int l) in
  let pre = match e with
    | Hello (_, _, Rejected) -> "e1/"
    | Hello _ -> "e0/"
    | _ -> "" in
  Printf.sprintf "%s%s/p%d/l%s" pre n (if s.pending then 1 else 0) l

let () =
  let compared = ref 0 and mism = ref 0 in
  iter_trace Sys.argv.(1) (fun id inp obs ->
    (* "live": the real LSP updater routine runs, i.e. a pending request is served (Regen) as soon as the
       event that raised it is over; B = ForceRegen (the build the harness requested: request consumed,
       LSP := Up adjacencies), then the hello that arrived during the build, then the updater again *)
    let live = (match inp with "live" :: _ -> true | _ -> false) in
    let inp = if live then List.tl inp else inp in
    let s = ref (if live then step init Regen else init) in
    let bad = ref None in
    let nobs = List.length obs in
    List.iteri (fun i t ->
      if i < nobs || !bad = None then begin
        let e = parse_ev t in
        if t.[0] = 'B' then s := step !s ForceRegen;
        s := step !s e;
        if live then s := step !s Regen;
        let mo = obs_of e !s in
        let io = (try List.nth obs i with _ -> "<missing>") in
        if !bad = None && mo <> io then bad := Some (i, t, mo, io)
      end) inp;
    incr compared;
    match !bad with
    | None -> ()
    | Some (i, t, mo, io) ->
      incr mism;
      Printf.printf "CORR-MISMATCH case=%s event=%d(%s) model=%s impl=%s\n" id i t mo io);
  Printf.printf "STATS compared=%d mismatches=%d\n" !compared !mism
