(* C27 / C28 modelrun (shared driver): replays every case of a trace through the extracted model
   (Model.BMPCodec + Model.BMPRouter) and compares with the implementation's observations.
   The abstract BGP layer of the model (OPEN decoding, application of one BGP message to the
   Adj-RIB-Ins) is instantiated from the O:/U: annotation tokens the harness computed with the real
   code; asking for a result the harness did not record is a mismatch. *)

let hex2 = "0123456789abcdef"
let bytes_of_hex (s : string) : n list =
  let k = String.length s / 2 in
  List.init k (fun i -> n_of_int (int_of_string ("0x" ^ String.sub s (2 * i) 2)))
let hex_of_bytes (b : n list) : string =
  let buf = Buffer.create (2 * List.length b) in
  List.iter (fun x -> let v = int_of_n x in
              Buffer.add_char buf hex2.[(v lsr 4) land 15]; Buffer.add_char buf hex2.[v land 15]) b;
  Buffer.contents buf

let bool_of_char c = (c = '1')
let b2s b = if b then "1" else "0"
let split c s = String.split_on_char c s
let dec_n (s : string) : n = n_of_int (int_of_string s)   (* values below 2^62 only *)

(* ---- annotations *)
let open_tbl : (string, open_info option) Hashtbl.t = Hashtbl.create 64
let upd_tbl : (string, uevent list) Hashtbl.t = Hashtbl.create 64
(* use_stack: answer the BGP layer's questions with the instantiated component models
   (Model.BMPStack: BGPCodec + UpdateApply) on the raw bytes instead of the tabulated real code *)
let use_stack = ref false
let missing : string list ref = ref []

let parse_pfx (s : string) : (n * n) =
  match split '/' s with
  | [a; l] -> (n_of_hex a, dec_n l)
  | _ -> failwith ("bad prefix " ^ s)

let parse_event (s : string) : uevent =
  (* A4~<hexaddr>/<len>~<id> *)
  let nlist x = if x = "-" then [] else List.map dec_n (split '.' x) in
  match split '~' s with
  | [k; p; id] when k.[0] = 'W' -> UWdr (k.[1] = '6', parse_pfx p, dec_n id)
  | [k; p; id; a] when k.[0] = 'A' ->
    (match split ';' a with
     | [e; asns; orig; cl] ->
       UAnn (k.[1] = '6', parse_pfx p, dec_n id,
             { pa_empty = (e = "e1"); pa_asns = nlist asns; pa_originator = dec_n orig; pa_clusters = nlist cl })
     | _ -> failwith ("bad attrs " ^ s))
  | _ -> failwith ("bad event " ^ s)

let add_annotation (tok : string) : unit =
  match String.index_opt tok '=' with
  | None -> ()
  | Some i ->
    let key = String.sub tok 0 i and v = String.sub tok (i + 1) (String.length tok - i - 1) in
    if tok.[0] = 'O' then begin
      let hx = String.sub key 2 (String.length key - 2) in
      if v = "E" then Hashtbl.replace open_tbl hx None
      else match split ';' v with
        | [asn; id; a4; ap] ->
          let a4 = if a4 = "-" then [] else List.map dec_n (split ',' a4) in
          let ap = if ap = "-" then [] else
              List.map (fun t -> match split '.' t with
                  | [a; s; r] -> ((dec_n a, dec_n s), dec_n r)
                  | _ -> failwith "bad tuple") (split ',' ap) in
          Hashtbl.replace open_tbl hx (Some { o_asn = dec_n asn; o_bgpid = dec_n id; o_asn4 = a4; o_addpath = ap })
        | _ -> failwith ("bad open annotation " ^ tok)
    end else begin
      let k = String.sub key 2 (String.length key - 2) in
      let evs = if v = "-" then [] else List.map parse_event (split ',' v) in
      Hashtbl.replace upd_tbl k evs
    end

let open_decode (b : n list) : open_info option =
  if !use_stack then stack_open_decode b else
  let k = hex_of_bytes b in
  match Hashtbl.find_opt open_tbl k with
  | Some r -> r
  | None -> missing := ("O:" ^ k) :: !missing; None

let applied_hook : (uevent list -> unit) ref = ref (fun _ -> ())
let rec upd_apply (ap4 : bool) (ap6 : bool) (a32 : bool) (b : n list) : uevent list =
  let r = upd_apply0 ap4 ap6 a32 b in !applied_hook r; r
and upd_apply0 (ap4 : bool) (ap6 : bool) (a32 : bool) (b : n list) : uevent list =
  if !use_stack then stack_upd_apply ap4 ap6 a32 b else
  let k = b2s ap4 ^ b2s ap6 ^ b2s a32 ^ ":" ^ hex_of_bytes b in
  match Hashtbl.find_opt upd_tbl k with
  | Some r -> r
  | None -> missing := ("U:" ^ k) :: !missing; []

(* ---- rendering of the model state, as harness/bmpx.Digest does *)
let src_tok ((v6, a) : bool * n) : string = (if v6 then "6." else "4.") ^ hex_of_n a
let entry_tok (((s, (pa, pl)), id) : ((bool * n) * (n * n)) * n) : string =
  Printf.sprintf "%s~%s/%d~%d" (src_tok s) (hex_of_n pa) (int_of_n pl) (int_of_n id)
let table_tok (t : entry list) : string =
  String.concat "," (List.sort compare (List.map entry_tok t))

let num_key (x : n) : int * string = let h = hex_of_n x in (String.length h, h)

let digest (st : rstate) : string =
  let cs = String.concat "." (List.map (fun x -> string_of_int (int_of_n x)) st.r_counters) in
  let ns = String.concat "," (List.map (fun n ->
      (* k0c0: a BMP VRF has no contributing ASNs / cluster ids (Model.BMPRouter.bmp_contributing_asns) *)
      Printf.sprintf "%s:%s:%s:%d:%d:o%s%sr%s%sa%se1:rid%d:k%sc%s" (hex_of_n n.n_vrf) (hex_of_n n.n_addr) (src_tok n.n_src)
        (int_of_n n.n_as) (int_of_n n.n_localas) (b2s n.n_ap4) (b2s n.n_ap6) (b2s n.n_ap4) (b2s n.n_ap6) (b2s n.n_asn4)
        (int_of_n n.n_rid)
        (b2s (List.exists (fun x -> x = n.n_localas) bmp_contributing_asns))
        (b2s (List.exists (fun x -> x = n.n_rid) bmp_contributing_cluster_ids)))
      st.r_nbrs) in
  let ig = String.concat "," (List.sort compare (List.map src_tok st.r_ignored)) in
  let vs = List.sort (fun a b -> compare (num_key a.v_rd) (num_key b.v_rd)) st.r_vrfs in
  let vt = String.concat "" (List.map (fun v ->
      Printf.sprintf "%s[%s][%s]" (hex_of_n v.v_rd) (table_tok v.v_t4) (table_tok v.v_t6)) vs) in
  Printf.sprintf "c=%s|n=%s|i=%s|v=%s|x=%s|nm=%s" cs ns ig vt (b2s st.r_closed) (hex_of_bytes st.r_name)

let observers_tok (ids : int list) (st : rstate) : string =
  String.concat ";" (List.map (fun id ->
      let i = n_of_int id in
      Printf.sprintf "%d=%s/%s" id (table_tok (view i st.r_log)) (b2s (disposed i st.r_log))) ids)

let parse_cfg (tok : string) : cfg =
  (* cfg=<asns|->/<pre><post> *)
  let body = String.sub tok 4 (String.length tok - 4) in
  match split '/' body with
  | [a; f] ->
    { ignore_asns = (if a = "-" then [] else List.map dec_n (split ',' a));
      ignore_pre = bool_of_char f.[0]; ignore_post = bool_of_char f.[1] }
  | _ -> failwith ("bad cfg " ^ tok)

(* IPv4 NLRI with host bits set are accepted by packet.Decode, stored unmasked and corrupt the routing
   tables below (C01_noncanonical_refuted, notes/C19.md): for a case whose BGP layer produced such a prefix
   the tables are left out of the comparison (everything else is still compared) *)
let noncanonical = ref false and noncanonical_cases = ref 0
let event_noncanonical (e : uevent) : bool =
  let chk v6 (a, l) =
    if v6 then false else
      let l = int_of_n l in
      l > 32 || (l < 32 && (match a with N0 -> false | _ -> (int_of_n a) land ((1 lsl (32 - l)) - 1) <> 0)) in
  match e with UAnn (v6, p, _, _) -> chk v6 p | UWdr (v6, p, _) -> chk v6 p
let strip_tables (d : string) : string =
  if not !noncanonical then d else
    match Str.bounded_split_delim (Str.regexp_string "|v=") d 2 with
    | [a; rest] ->
      (match Str.bounded_split_delim (Str.regexp_string "|x=") rest 2 with
       | [_; b] -> a ^ "|v=*|x=" ^ b
       | _ -> d)
    | _ -> d

let () = applied_hook := (fun evs ->
    if (not !noncanonical) && List.exists event_noncanonical evs then begin
      noncanonical := true; if not !use_stack then incr noncanonical_cases end)

let starts (p : string) (s : string) : bool =
  String.length s >= String.length p && String.sub s 0 (String.length p) = p

(* proven bound on the BMP-layer allocation cost of serve (Properties/C27.v) *)
let cost_bound (l : int) (frames : int) : int = 8 * l + 5800 * (frames + 1)

let mism = ref 0 and compared = ref 0 and stack_compared = ref 0
let mismatch id fmt =
  Printf.ksprintf (fun s -> incr mism;
                    Printf.printf "CORR-MISMATCH case=%s %s%s\n" id (if !use_stack then "[instantiated stack] " else "") s) fmt

(* the tabulated BGP layer (real code) against the component models, entry by entry *)
let event_str (e : uevent) : string =
  match e with
  | UAnn (v6, (a, l), id, pa) ->
    Printf.sprintf "A%s~%s/%d~%d~e%s;%s;%d;%s" (if v6 then "6" else "4") (hex_of_n a) (int_of_n l) (int_of_n id)
      (b2s pa.pa_empty) (String.concat "." (List.map (fun x -> string_of_int (int_of_n x)) pa.pa_asns))
      (int_of_n pa.pa_originator) (String.concat "." (List.map (fun x -> string_of_int (int_of_n x)) pa.pa_clusters))
  | UWdr (v6, (a, l), id) -> Printf.sprintf "W%s~%s/%d~%d" (if v6 then "6" else "4") (hex_of_n a) (int_of_n l) (int_of_n id)
let events_str (l : uevent list) : string = if l = [] then "-" else String.concat "," (List.map event_str l)
let open_str (o : open_info option) : string =
  match o with
  | None -> "E"
  | Some o -> Printf.sprintf "%d;%d;%s;%s" (int_of_n o.o_asn) (int_of_n o.o_bgpid)
                (String.concat "," (List.map (fun x -> string_of_int (int_of_n x)) o.o_asn4))
                (String.concat "," (List.map (fun ((a, s), r) -> Printf.sprintf "%d.%d.%d" (int_of_n a) (int_of_n s) (int_of_n r)) o.o_addpath))

let compare_layers id =
  Hashtbl.iter (fun k v ->
      let m = stack_open_decode (bytes_of_hex k) in
      if m <> v then mismatch id "OPEN %s: component model (BGPCodec) gives %s, the implementation %s" k (open_str m) (open_str v))
    open_tbl;
  Hashtbl.iter (fun k v ->
      (* key: <ap4><ap6><asn32>:<hex> *)
      let fl = String.sub k 0 3 and hx = String.sub k 4 (String.length k - 4) in
      let m = stack_upd_apply (fl.[0] = '1') (fl.[1] = '1') (fl.[2] = '1') (bytes_of_hex hx) in
      if m <> v then mismatch id "BGP message %s: component models (BGPCodec + UpdateApply) give %s, the implementation %s" k (events_str m) (events_str v))
    upd_tbl

(* ---- C27: one byte stream served to the end *)
let run_c27 id (c : cfg) (stream : n list) (obs : string list) =
  let fobs = List.filter (starts "F|") obs in
  let eobs = List.filter (starts "END|") obs in
  let sobs = List.filter (starts "S|") obs in
  let od = open_decode and ua = upd_apply in
  (* the serve loop, one message at a time *)
  let rec loop st s frames acc =
    if st.r_closed then (cleanup st, "end", frames, List.rev acc)
    else match recv s with
      | RMsg (m, rest, _) ->
        (match process od ua c st m with
         | ((POk, st'), _) -> loop st' rest (frames + 1) (("F|" ^ digest st') :: acc)
         | ((PPanic, _), _) -> (st, "PANIC", frames, List.rev acc))
      | RFail _ -> (cleanup st, "end", frames, List.rev acc)
      | RPanic _ -> (st, "PANIC", frames, List.rev acc)
      | RFuel -> (st, "FUEL", frames, List.rev acc) in
  let (stf, res, frames, macc) = loop init stream 0 [] in
  let bad = ref false in
  let rec cmp i ms is =
    match ms, is with
    | [], [] -> ()
    | m :: mr, x :: ir -> if strip_tables m <> strip_tables x then (bad := true; mismatch id "message=%d model=%s impl=%s" i m x) else cmp (i + 1) mr ir
    | m :: _, [] -> bad := true; mismatch id "message=%d model processes a message (%s), impl does not" i m
    | [], x :: _ -> bad := true; mismatch id "message=%d impl processes a message (%s), model does not" i x in
  cmp 0 macc fobs;
  if not !bad then begin
    let mend = Printf.sprintf "END|%s|%d|%s" res frames (digest stf) in
    (match eobs with
     | [e] ->
       let impl_panics = starts "END|PANIC" e in
       if impl_panics && res <> "PANIC" then mismatch id "impl panicked (%s), model does not" e
       else if (not impl_panics) && strip_tables e <> strip_tables mend then mismatch id "end model=%s impl=%s" mend e
     | _ -> mismatch id "no END observation");
    (* the whole stack's allocation (BMP layer + BGP decoder) against BMPStack_alloc_proportional *)
    if !use_stack then begin
      let a = int_of_n (stack_alloc c init stream) and l = List.length stream in
      if a > 11901 * l + 5800 then mismatch id "stack allocation %d exceeds the proven bound %d" a (11901 * l + 5800)
    end;
    (* Router.serve as one function *)
    (match serve od ua c init stream with
     | SDone (st2, cost, fr2) ->
       if res <> "end" || digest st2 <> digest stf || int_of_n fr2 <> frames then
         mismatch id "model: serve differs from the stepped loop (%s vs %s)" (digest st2) (digest stf);
       if int_of_n cost > cost_bound (List.length stream) frames then
         mismatch id "model cost %d exceeds the proven bound %d" (int_of_n cost) (cost_bound (List.length stream) frames);
       let cs = List.hd (split '|' (digest st2)) in
       (match sobs with
        | [s] -> if s <> Printf.sprintf "S|%s|end" cs then mismatch id "serve model=S|%s|end impl=%s" cs s
        | _ -> mismatch id "no S observation")
     | SPanic (_, _) -> if res <> "PANIC" then mismatch id "model: serve panics, stepped loop does not"
     | SFuel -> mismatch id "model: serve ran out of fuel")
  end;
  if !missing <> [] && not !bad then
    mismatch id "model asked the BGP layer for a result the implementation never computed: %s" (List.hd !missing)

(* ---- C28: a history of frames, observer registrations and connection losses *)
let run_c28 id (c : cfg) (acts : string list) (obs : string list) =
  let aobs = List.filter (starts "A|") obs in
  let od = open_decode and ua = upd_apply in
  let ids = ref [] in
  let st = ref (Some init) in
  let out = ref [] in
  List.iter (fun a ->
      match !st with
      | None -> ()
      | Some s ->
        let act =
          if starts "f:" a then AFrame (bytes_of_hex (String.sub a 2 (String.length a - 2)))
          else if a = "loss" then AConnLoss
          else match split ':' a with
            | ["o"; i; rd; fam] -> ids := !ids @ [int_of_string i]; AObserve (dec_n i, n_of_hex rd, fam = "6")
            | _ -> failwith ("bad action " ^ a) in
        (match step od ua c s act with
         | SDone (s', _, _) -> st := Some s'; out := Printf.sprintf "A|%s|%s" (digest s') (observers_tok !ids s') :: !out
         | SPanic (_, _) -> st := None; out := "A|PANIC" :: !out
         | SFuel -> st := None; out := "A|FUEL" :: !out)) acts;
  let ms = List.rev !out in
  let rec cmp i ms is =
    match ms, is with
    | [], [] -> ()
    | m :: mr, x :: ir -> if strip_tables m <> strip_tables x then mismatch id "action=%d model=%s impl=%s" i m x else cmp (i + 1) mr ir
    | m :: _, [] -> mismatch id "action=%d missing in the impl observation (model=%s)" i m
    | [], x :: _ -> mismatch id "action=%d missing in the model (impl=%s)" i x in
  let before = !mism in
  cmp 0 ms aobs;
  if !missing <> [] && !mism = before then
    mismatch id "model asked the BGP layer for a result the implementation never computed: %s" (List.hd !missing)

let () =
  iter_trace Sys.argv.(1) (fun id inp obs ->
      Hashtbl.reset open_tbl; Hashtbl.reset upd_tbl; missing := [];
      if obs = ["FATAL"] || obs = ["WEDGED"] then
        mismatch id "implementation %s, the model serves every stream" (List.hd obs)
      else begin
        List.iter (fun t -> if starts "O:" t || starts "U:" t then add_annotation t) obs;
        noncanonical := false;
        incr compared;
        match inp with
        | c :: rest ->
          let c = parse_cfg c in
          let go () =
            (match rest with
             | [s] when starts "s=" s -> run_c27 id c (bytes_of_hex (String.sub s 2 (String.length s - 2))) obs
             | _ -> run_c28 id c rest obs) in
          use_stack := false; go ();
          (* the same case once more on the instantiated stack: raw bytes, no tabulated BGP layer *)
          let before = !mism in
          use_stack := true;
          compare_layers id;
          if !mism = before then (missing := []; noncanonical := false; go ());
          incr stack_compared;
          use_stack := false
        | [] -> mismatch id "empty input"
      end);
  Printf.printf "STATS compared=%d mismatches=%d stack_compared=%d tables_skipped_noncanonical_ipv4=%d\n" !compared !mism !stack_compared !noncanonical_cases
