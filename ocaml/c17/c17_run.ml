(* C17 modelrun: the traced input is the structure handed to a serializer (canonical tokens, the inverse of
   renderMsg is below); the model serializes it (Model.BGPEncode.encodeMsg) and the bytes are compared with
   what bio-rd wrote. For every message the model emits, the model's own decoder is run on the bytes with the
   session's options and must succeed (a cheap re-check of the round trip on the extracted definitions). *)
exception Bad of string
let toks = ref ([] : int list)
let next () = match !toks with x :: r -> toks := r; x | [] -> raise (Bad "tokens exhausted")
let nn () = n_of_int (next ())
let rec times k f = if k <= 0 then [] else let x = f () in x :: times (k - 1) f

let be l = List.fold_left (fun acc x -> acc * 256 + x) 0 l
let parse_ip () =
  match next () with
  | 4 -> let b = times 4 next in IP4 (n_of_int (be b))
  | _ ->
    let b = times 16 next in
    let rec take k l = if k = 0 then [] else List.hd l :: take (k - 1) (List.tl l) in
    let rec drop k l = if k = 0 then l else drop (k - 1) (List.tl l) in
    (* 64-bit halves do not fit OCaml's int: build them from two 32-bit pieces in N arithmetic *)
    let half l = N.add (N.mul (n_of_int (be (take 4 l))) (n_of_int 4294967296)) (n_of_int (be (drop 4 l))) in
    IP6 (half (take 8 b), half (drop 8 b))

let parse_nlris () =
  let n = next () in
  times n (fun () ->
    let id = nn () in
    let nl = next () in
    let labels = times nl nn in
    let ip = parse_ip () in
    let pl = nn () in
    { n_id = id; n_labels = labels; n_pfx = { p_ip = ip; p_len = pl } })

let parse_attr () =
  let fl = next () in
  let ty = nn () in
  let ln = nn () in
  let v = (match next () with
    | 1 -> AVOrigin (nn ())
    | 2 -> let ns = next () in
      AVASPath (times ns (fun () -> let t = nn () in let c = next () in (t, times c nn)))
    | 3 -> AVNextHop (parse_ip ())
    | 4 -> AVU32 (nn ())
    | 5 -> let a = nn () in let ad = nn () in AVAggregator (a, ad)
    | 6 -> AVNone
    | 7 -> let c = next () in AVComms (times c nn)
    | 8 -> let c = next () in AVLarge (times c (fun () -> let a = nn () in let b = nn () in let d = nn () in ((a, b), d)))
    | 9 -> let c = next () in AVCluster (times c nn)
    | 10 -> let afi = nn () in let safi = nn () in let nh = parse_ip () in let nl = parse_nlris () in
      AVMPReach (afi, safi, nh, nl)
    | 11 -> let afi = nn () in let safi = nn () in let nl = parse_nlris () in AVMPUnreach (afi, safi, nl)
    | 12 -> let c = next () in AVUnknown (times c nn)
    | 13 -> AVNil
    | t -> raise (Bad (Printf.sprintf "value tag %d" t))) in
  { a_opt = fl land 8 <> 0; a_trans = fl land 4 <> 0; a_part = fl land 2 <> 0; a_ext = fl land 1 <> 0;
    a_type = ty; a_len = ln; a_val = v }

let parse_capval () =
  match next () with
  | 1 -> let a = nn () in let s = nn () in CVMP (a, s)
  | 2 -> let c = next () in CVAddPath (times c (fun () -> let a = nn () in let b = nn () in let d = nn () in ((a, b), d)))
  | 3 -> CVASN4 (nn ())
  | 4 -> CVRole (nn ())
  | 5 -> let c = next () in CVExtNH (times c (fun () -> let a = nn () in let b = nn () in let d = nn () in ((a, b), d)))
  | _ -> CVNone

let parse_body () : body =
  let _len = next () in
  match next () with
  | 1 ->
    let version = nn () in let asn = nn () in let hold = nn () in let id = nn () in let ol = nn () in
    let np = next () in
    let params = times np (fun () ->
      let t = nn () in let l = nn () in let nc = next () in
      let caps = times nc (fun () -> let code = nn () in let cl = nn () in
                            { c_code = code; c_len = cl; c_val = parse_capval () }) in
      { o_type = t; o_len = l; o_caps = caps }) in
    BOpen { op_version = version; op_asn = asn; op_hold = hold; op_id = id; op_optlen = ol; op_params = params }
  | 2 ->
    let wlen = nn () in
    let wd = parse_nlris () in
    let tpal = nn () in
    let na = next () in
    let attrs = times na parse_attr in
    let nl = parse_nlris () in
    BUpdate { u_wlen = wlen; u_withdrawn = wd; u_tpal = tpal; u_attrs = attrs; u_nlri = nl }
  | 3 -> let c = nn () in let s = nn () in BNotification (c, s)
  | 4 -> BKeepalive
  | t -> raise (Bad (Printf.sprintf "message type %d" t))

let hex_of_bytes (l : n list) : string =
  let b = Buffer.create 256 in
  List.iter (fun x -> Buffer.add_string b (Printf.sprintf "%02x" (int_of_n x))) l;
  Buffer.contents b

let rec nat_len (l : n list) (acc : nat) : nat = match l with [] -> acc | _ :: r -> nat_len r (S acc)

let () =
  let compared = ref 0 and mism = ref 0 and emitted = ref 0 and redecoded = ref 0 in
  iter_trace Sys.argv.(1) (fun id inp obs ->
    try
      toks := List.map int_of_string inp;
      let k = nn () in
      let safi = nn () in
      let bd = parse_body () in
      let o = eoptsOf k in
      let mo = (match encodeMsg o safi bd with
          | EOk b ->
            incr emitted;
            (match fst (decode (nat_len b (S O)) (doptsOf o) b) with
             | Ok (_, []) -> incr redecoded
             | _ -> ());
            hex_of_bytes b
          | EErr -> "Err"
          | EPanic -> "PANIC") in
      let io = String.concat " " obs in
      incr compared;
      if mo <> io then begin
        incr mism;
        (* first differing position *)
        let i = ref 0 in
        while !i < String.length mo && !i < String.length io && mo.[!i] = io.[!i] do incr i done;
        let cut s = let st = max 0 (!i - 24) in
          if String.length s > st then String.sub s st (min 80 (String.length s - st)) else "" in
        if !mism <= 20 then
          Printf.printf "CORR-MISMATCH case=%s at hex offset %d model=[..%s] impl=[..%s] (lengths %d/%d)\n" id !i
            (cut mo) (cut io) (String.length mo) (String.length io)
      end
    with Bad s | Failure s -> Printf.printf "MODEL-ERROR case=%s %s\n" id s);
  Printf.printf "STATS compared=%d mismatches=%d model_emitted=%d model_redecoded=%d\n" !compared !mism !emitted !redecoded
