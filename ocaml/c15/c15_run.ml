(* C15 modelrun: replay each case of the Go harness (harness/cmd/c15) through the extracted
   model (Model.NetArith, Model.IPText) and compare observation tokens one by one. *)
let ip_of_tok (t : string) : ip =
  match String.split_on_char ':' t with
  | [f; h; l] -> { hi = z_of_hex h; lo = z_of_hex l; legacy = (f = "4") }
  | _ -> failwith ("bad ip token " ^ t)

let tok_of_ip (a : ip) : string =
  Printf.sprintf "%d:%s:%s" (if a.legacy then 4 else 6) (hex_of_z a.hi) (hex_of_z a.lo)

let tok_of_pfx (p : pfx) : string = Printf.sprintf "%s/%d" (tok_of_ip p.addr) (int_of_z p.plen)
let b2s b = if b then "1" else "0"
let zi = z_of_int

let bytes_of_hex (h : string) : int list =
  if h = "-" then [] else
  List.init (String.length h / 2) (fun i -> int_of_string ("0x" ^ String.sub h (2 * i) 2))
let hex_of_ints (l : int list) : string = String.concat "" (List.map (Printf.sprintf "%02x") l)
let zs_of_ints l = List.map z_of_int l
let ints_of_zs l = List.map int_of_z l
let str_of_ints l = String.init (List.length l) (fun i -> Char.chr (List.nth l i))

let has_char c s = String.contains s c

(* returns the model's observation tokens, or None when the input is outside the ParseIP model *)
let model_obs (inp : string list) : string list option =
  match inp with
  | ["pp"; tp; lp; tx; lx] ->
    let p = { addr = ip_of_tok tp; plen = zi (int_of_string lp) }
    and x = { addr = ip_of_tok tx; plen = zi (int_of_string lx) } in
    let sn = match getSupernet p x with Some s -> tok_of_pfx s | None -> "NONE" in
    Some [ "c=" ^ b2s (contains p x); "cr=" ^ b2s (contains x p); "e=" ^ b2s (pfx_equal p x);
           "c4=" ^ b2s (containsIPv4 p x); "c6=" ^ b2s (containsIPv6 p x); "sn=" ^ sn;
           "vp=" ^ b2s (valid p); "vx=" ^ b2s (valid x);
           "bp=" ^ tok_of_ip (baseAddr p); "bx=" ^ tok_of_ip (baseAddr x);
           "cmp=" ^ string_of_int (int_of_z (ip_compare p.addr x.addr));
           "cmpr=" ^ string_of_int (int_of_z (ip_compare x.addr p.addr));
           "ieq=" ^ b2s (ip_equal p.addr x.addr) ]
  | ["ab"; ta; n] ->
    let a = ip_of_tok ta and n = zi (int_of_string n) in
    Some [ "bit=" ^ b2s (bitAtPosition a n); "ml=" ^ tok_of_ip (maskLastNBits a n) ]
  | ["tx"; ta; l] ->
    let a = ip_of_tok ta and l = zi (int_of_string l) in
    let s = ip_string a in
    let st = match s with Some s -> hex_of_ints (ints_of_zs s) | None -> "NONE" in
    let rt = match s with
      | Some s -> (match iPFromString s with Some b -> tok_of_ip b | None -> "ERR")
      | None -> "NONE" in
    let ps = pfx_string { addr = a; plen = l } in
    let pst = match ps with Some s -> hex_of_ints (ints_of_zs s) | None -> "NONE" in
    let prt = match ps with
      | Some s -> (match prefixFromString s with Some q -> tok_of_pfx q | None -> "ERR")
      | None -> "NONE" in
    let by = bytes a in
    let fb = match iPFromBytes by with Some b -> tok_of_ip b | None -> "ERR" in
    Some [ "s=" ^ st; "rt=" ^ rt; "ps=" ^ pst; "prt=" ^ prt; "by=" ^ hex_of_ints (ints_of_zs by); "fb=" ^ fb ]
  | ["ps"; h] ->
    let ints = bytes_of_hex h in
    let text = str_of_ints ints in
    (* embedded dotted quad inside an IPv6 literal: outside the ParseIP model *)
    let addr_part = match String.index_opt text '/' with Some i -> String.sub text 0 i | None -> text in
    if has_char ':' addr_part && has_char '.' addr_part then None
    else
      let s = zs_of_ints ints in
      let o1 = match iPFromString s with Some b -> tok_of_ip b | None -> "ERR" in
      let o2 = match prefixFromString s with Some q -> tok_of_pfx q | None -> "ERR" in
      Some [ "ip=" ^ o1; "pfx=" ^ o2 ]
  | ["by"; h] ->
    let fb = match iPFromBytes (zs_of_ints (bytes_of_hex h)) with Some b -> tok_of_ip b | None -> "ERR" in
    Some [ "fb=" ^ fb ]
  | ["bl"; l] -> Some [ "n=" ^ string_of_int (int_of_z (bytesInAddr (zi (int_of_string l)))) ]
  | ["cl"; x; n] ->
    let x = z_of_hex x and n = zi (int_of_string n) in
    let x32 = wconv (zi 32) x in
    Some [ "c32=" ^ b2s (checkLastNBitsUint32 x32 n); "c64=" ^ b2s (checkLastNBitsUint64 x n) ]
  | _ -> failwith ("bad case: " ^ String.concat " " inp)

(* the same observables computed with the definitions regenerated from the Go source (Gen/NetGen.v) *)
let gen_obs (inp : string list) : string list option =
  match inp with
  | ["pp"; tp; lp; tx; lx] ->
    let p = { addr = ip_of_tok tp; plen = zi (int_of_string lp) }
    and x = { addr = ip_of_tok tx; plen = zi (int_of_string lx) } in
    let sn = match g_Prefix_GetSupernet p x with Some s -> tok_of_pfx s | None -> "NONE" in
    Some [ "c=" ^ b2s (g_Prefix_Contains p x); "cr=" ^ b2s (g_Prefix_Contains x p); "e=" ^ b2s (g_Prefix_Equal p x);
           "c4=" ^ b2s (g_Prefix_containsIPv4 p x); "c6=" ^ b2s (g_Prefix_containsIPv6 p x); "sn=" ^ sn;
           "vp=" ^ b2s (g_Prefix_Valid p); "vx=" ^ b2s (g_Prefix_Valid x);
           "bp=" ^ tok_of_ip (g_Prefix_BaseAddr p); "bx=" ^ tok_of_ip (g_Prefix_BaseAddr x);
           "cmp=" ^ string_of_int (int_of_z (g_IP_Compare p.addr x.addr));
           "cmpr=" ^ string_of_int (int_of_z (g_IP_Compare x.addr p.addr));
           "ieq=" ^ b2s (g_IP_Equal p.addr x.addr) ]
  | ["ab"; ta; n] ->
    let a = ip_of_tok ta and n = zi (int_of_string n) in
    Some [ "bit=" ^ b2s (g_IP_BitAtPosition a n); "ml=" ^ tok_of_ip (g_IP_MaskLastNBits a n) ]
  | ["cl"; x; n] ->
    let x = z_of_hex x and n = zi (int_of_string n) in
    let x32 = wconv (zi 32) x in
    Some [ "c32=" ^ b2s (g_checkLastNBitsUint32 x32 n); "c64=" ^ b2s (g_checkLastNBitsUint64 x n) ]
  | _ -> None

let () =
  let compared = ref 0 and mism = ref 0 and skipped = ref 0 and gencmp = ref 0 in
  iter_trace Sys.argv.(1) (fun id inp obs ->
    if obs = ["PANIC"] then
      (incr mism; Printf.printf "CORR-MISMATCH case=%s impl panicked, model does not\n" id)
    else
      match (try model_obs inp with Failure m -> (Printf.printf "MODEL-ERROR case=%s %s\n" id m; None)) with
      | None -> incr skipped
      | Some mo ->
        incr compared;
        let rec first_diff i a b = match a, b with
          | [], [] -> None
          | x :: a', y :: b' -> if x = y then first_diff (i + 1) a' b' else Some (x, y)
          | x :: _, [] -> Some (x, "<missing>")
          | [], y :: _ -> Some ("<missing>", y) in
        (match first_diff 0 mo obs with
         | None -> ()
         | Some (m, i) ->
           incr mism;
           Printf.printf "CORR-MISMATCH case=%s input=%s model:%s impl:%s\n" id (String.concat " " inp) m i);
        (match gen_obs inp with
         | None -> ()
         | Some go ->
           incr gencmp;
           (match first_diff 0 go obs with
            | None -> ()
            | Some (m, i) ->
              incr mism;
              Printf.printf "CORR-MISMATCH case=%s input=%s generated-model:%s impl:%s\n" id (String.concat " " inp) m i)));
  Printf.printf "STATS compared=%d mismatches=%d skipped_outside_parse_model=%d generated_model_compared=%d\n" !compared !mism !skipped !gencmp
