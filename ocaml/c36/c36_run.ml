(* C36 modelrun: replay each daemon life through the extracted model (Model.Reconf: start / reload)
   and compare the rendered server state after every step, and after a fresh start with the last
   configuration, with what the bio-rd binary printed. The spec (same sessions after reload and
   after a fresh start) is evaluated on the model as well. *)

let fail fmt = Printf.ksprintf failwith fmt

let split_on c s = String.split_on_char c s

let parse_addr (s : string) : addr =
  match split_on '.' s with
  | [f; id] when f = "4" || f = "6" -> { a_v4 = (f = "4"); a_id = n_of_int (int_of_string id) }
  | _ -> fail "bad address %s" s

let parse_af (s : string) : afconf =
  let len = String.length s in
  if len < 2 || s.[0] <> 'n' then fail "bad af %s" s;
  let nhx = s.[1] = '1' in
  if len = 2 then { af_addpath = None; af_nhx = nhx }
  else begin
    if len < 4 || s.[2] <> 'a' then fail "bad af %s" s;
    let recv = s.[3] = '1' in
    if len = 4 then { af_addpath = Some { ap_recv = recv; ap_send = None }; af_nhx = nhx }
    else begin
      if len < 8 || s.[4] <> 's' || s.[6] <> '.' then fail "bad af %s" s;
      let mp = s.[5] = '1' in
      let cnt = int_of_string (String.sub s 7 (len - 7)) in
      { af_addpath = Some { ap_recv = recv; ap_send = Some { aps_multipath = mp; aps_count = n_of_int cnt } };
        af_nhx = nhx }
    end
  end

let parse_ints (s : string) : n list = List.map (fun x -> n_of_int (int_of_string x)) (split_on ',' s)

(* mutable builders *)
type common = {
  mutable local : addr option; mutable ttl : int; mutable auth : int; mutable pas : int; mutable las : int;
  mutable hold : int; mutable imp : n list; mutable exp : n list; mutable rsc : bool option;
  mutable rrc : bool option; mutable pasv : bool option; mutable cl : int option;
  mutable v4 : afconf option; mutable v6 : afconf option; mutable ri : int }

let new_common () = { local = None; ttl = 0; auth = 0; pas = 0; las = 0; hold = 0; imp = []; exp = [];
                      rsc = None; rrc = None; pasv = None; cl = None; v4 = None; v6 = None; ri = 0 }

type nb = { nc : common; mutable addr : addr; mutable dis : bool; mutable mp4 : bool }
type grp = { gc : common; mutable nbs : nb list }
type cfg = { mutable c_as_ : int; mutable rid : int; mutable pols : (n * n) list;
             mutable ris : (positive * n) list; mutable nobgp : bool; mutable grps : grp list }

let set_common (c : common) k v : bool =
  match k with
  | "loc" -> c.local <- Some (parse_addr v); true
  | "ttl" -> c.ttl <- int_of_string v; true
  | "auth" -> c.auth <- int_of_string v; true
  | "pas" -> c.pas <- int_of_string v; true
  | "las" -> c.las <- int_of_string v; true
  | "hold" -> c.hold <- int_of_string v; true
  | "imp" -> c.imp <- parse_ints v; true
  | "exp" -> c.exp <- parse_ints v; true
  | "rsc" -> c.rsc <- Some (v = "1"); true
  | "rrc" -> c.rrc <- Some (v = "1"); true
  | "pasv" -> c.pasv <- Some (v = "1"); true
  | "cl" -> c.cl <- Some (int_of_string v); true
  | "v4" -> c.v4 <- Some (parse_af v); true
  | "v6" -> c.v6 <- Some (parse_af v); true
  | "ri" -> c.ri <- int_of_string v; true
  | _ -> false

let parse_seq (toks : string list) : cfg list =
  let cs = ref [] and cur = ref None and g = ref None and n = ref None in
  List.iter (fun t ->
    match t with
    | "cfg" ->
      let c = { c_as_ = 0; rid = 0; pols = []; ris = []; nobgp = false; grps = [] } in
      cs := c :: !cs; cur := Some c; g := None; n := None
    | "nobgp" -> (match !cur with Some c -> c.nobgp <- true | None -> fail "nobgp outside cfg")
    | "isis" -> ()  (* IS-IS section: not part of the BGP model; its observation (I<a>/<b>) is judged by the harness *)
    | "grp" ->
      (match !cur with
       | Some c -> let x = { gc = new_common (); nbs = [] } in c.grps <- c.grps @ [x]; g := Some x; n := None
       | None -> fail "grp outside cfg")
    | "nb" ->
      (match !g with
       | Some x -> let y = { nc = new_common (); addr = { a_v4 = true; a_id = N0 }; dis = false; mp4 = false } in
         x.nbs <- x.nbs @ [y]; n := Some y
       | None -> fail "nb outside grp")
    | _ ->
      let k, v = match String.index_opt t '=' with
        | Some i -> String.sub t 0 i, String.sub t (i + 1) (String.length t - i - 1)
        | None -> fail "bad token %s" t in
      (match !n, !g, !cur with
       | Some y, _, _ ->
         (match k with
          | "addr" -> y.addr <- parse_addr v
          | "dis" -> y.dis <- (v = "1")
          | "mp4" -> y.mp4 <- (v = "1")
          | _ -> if not (set_common y.nc k v) then fail "bad neighbor key %s" k)
       | None, Some x, _ -> if not (set_common x.gc k v) then fail "bad group key %s" k
       | None, None, Some c ->
         (match k with
          | "as" -> c.c_as_ <- int_of_string v
          | "rid" -> c.rid <- int_of_string v
          | "pol" | "ri" ->
            (match split_on ':' v with
             | [a; b] ->
               if k = "pol" then c.pols <- c.pols @ [ (n_of_int (int_of_string a), n_of_int (int_of_string b)) ]
               else c.ris <- c.ris @ [ (pos_of_int (int_of_string a), n_of_int (int_of_string b)) ]
             | _ -> fail "bad %s %s" k v)
          | _ -> fail "bad cfg key %s" k)
       | None, None, None -> fail "token %s outside cfg" t)) toks;
  List.rev !cs

let ri_opt (i : int) : positive option = if i = 0 then None else Some (pos_of_int i)
let cl_opt = function None -> None | Some i -> Some (n_of_int i)

let mk_neighbor (y : nb) : neighbor =
  let c = y.nc in
  { n_addr = y.addr; n_local = c.local; n_disabled = y.dis; n_ttl = n_of_int c.ttl; n_auth = n_of_int c.auth;
    n_pas = n_of_int c.pas; n_las = n_of_int c.las; n_hold = n_of_int c.hold; n_import = c.imp; n_export = c.exp;
    n_rsc = c.rsc; n_rrc = c.rrc; n_passive = c.pasv; n_cluster = cl_opt c.cl; n_v4 = c.v4; n_v6 = c.v6;
    n_mp4 = y.mp4; n_ri = ri_opt c.ri }

let mk_group (x : grp) : group =
  let c = x.gc in
  { g_local = c.local; g_ttl = n_of_int c.ttl; g_auth = n_of_int c.auth; g_pas = n_of_int c.pas;
    g_las = n_of_int c.las; g_hold = n_of_int c.hold; g_import = c.imp; g_export = c.exp; g_rsc = c.rsc;
    g_rrc = c.rrc; g_passive = c.pasv; g_cluster = cl_opt c.cl; g_v4 = c.v4; g_v6 = c.v6; g_ri = ri_opt c.ri;
    g_neighbors = List.map mk_neighbor x.nbs }

let mk_config (c : cfg) : config =
  { c_as = n_of_int c.c_as_; c_rid = n_of_int c.rid; c_policies = c.pols; c_ris = c.ris;
    c_groups = if c.nobgp then None else Some (List.map mk_group c.grps) }

(* ---------------------------------------------------------------- rendering (format of the hook) *)

let b01 b = if b then "1" else "0"
let ip (a : addr) : string =
  if a.a_v4 then Printf.sprintf "192.0.2.%d" (int_of_n a.a_id) else Printf.sprintf "2001:db8::%x" (int_of_n a.a_id)
let ip_opt = function None -> "-" | Some a -> ip a
let vrf_s = function
  | VDefault -> "main/0"
  | VNamed (nm, rd) -> Printf.sprintf "ri%d/%d" (int_of_pos nm) (int_of_n rd)
let chain_s (c : n list) : string =
  "(" ^ String.concat ";" (List.map (fun x -> Printf.sprintf "c%d" (int_of_n x)) c) ^ ")"
let auth_s (a : n) : string = if int_of_n a = 0 then "\"\"" else Printf.sprintf "\"k%d\"" (int_of_n a)

let cap_s = function
  | CapAddPath (afi, sr) -> Printf.sprintf "addpath:%d/1/%d" (int_of_n afi) (int_of_n sr)
  | CapASN4 a -> Printf.sprintf "asn4:%d" (int_of_n a)
  | CapNextHopExt -> "nhx:1/1/2"
  | CapMP afi -> Printf.sprintf "mp:%d/1" (int_of_n afi)

let peer_line ((k : vrf * addr), (p : peer)) : string =
  let c = p.p_cfg in
  let (kv, ka) = k in
  let afc name = function
    | None -> name ^ "=-"
    | Some s -> Printf.sprintf "%s=[imp=%s,exp=%s,aprx=%s,best=%s,max=%d,nhx=%s]" name
                  (chain_s c.pc_import) (chain_s c.pc_export) (b01 s.as_aprx) (b01 s.as_best)
                  (int_of_n s.as_max) (b01 s.as_nhx) in
  let paf name = function
    | None -> name ^ "=-"
    | Some s -> Printf.sprintf "%s=[imp=%s,exp=%s,aprx=%s,best=%s,max=%d]" name
                  (chain_s p.p_import) (chain_s p.p_export) (b01 s.pa_aprx) (b01 s.pa_best) (int_of_n s.pa_max) in
  let faf name present (fi, fe) =
    if present then Printf.sprintf "%s=[imp=%s,exp=%s]" name (chain_s fi) (chain_s fe) else name ^ "=-" in
  let key = Printf.sprintf "peer vrf=%s addr=%s" (vrf_s kv) (ip ka) in
  let cfg = Printf.sprintf
      "cfg addr=%s vrf=%s auth=%s admin=%s hold=%d ka=%d local=%s ttl=%d las=%d pas=%d passive=%s rid=%d rsc=%s rrc=%s cluster=%d mp4=%s %s %s"
      (ip c.pc_addr) (vrf_s c.pc_vrf) (auth_s c.pc_auth) (b01 c.pc_admin) (int_of_n c.pc_hold) (int_of_n c.pc_ka)
      (ip_opt c.pc_local) (int_of_n c.pc_ttl) (int_of_n c.pc_las) (int_of_n c.pc_pas) (b01 c.pc_passive)
      (int_of_n c.pc_rid) (b01 c.pc_rsc) (b01 c.pc_rrc) (int_of_n c.pc_cluster) (b01 c.pc_mp4)
      (afc "v4" c.pc_v4) (afc "v6" c.pc_v6) in
  let caps = match p.p_caps with [] -> "-" | l -> String.concat "+" (List.map cap_s l) in
  let eff = Printf.sprintf
      "eff hold=%d ka=%d local=%s ttl=%d las=%d pas=%d passive=%s rid=%d rsc=%s rrc=%s cluster=%d mp4adv=%s nhxadv=%s caps=%s %s %s"
      (int_of_n p.p_hold) (int_of_n p.p_ka) (ip_opt p.p_local) (int_of_n p.p_ttl) (int_of_n p.p_las)
      (int_of_n p.p_pas) (b01 p.p_passive) (int_of_n p.p_rid) (b01 p.p_rsc) (b01 p.p_rrc) (int_of_n p.p_cluster)
      (b01 p.p_mp4adv) (b01 p.p_nhxadv) caps (paf "v4" p.p_v4) (paf "v6" p.p_v6) in
  let fsm = match p.p_fsm with
    | None -> "fsm -"
    | Some ch -> Printf.sprintf "fsm %s %s" (faf "v4" (p.p_v4 <> None) ch) (faf "v6" (p.p_v6 <> None) ch) in
  String.concat " | " [key; cfg; eff; fsm]

(* restarts: number of distinct keys restarted by the step among the sessions that existed before *)
let state_obs (status : string) (restarts : int) (s : state option) : string =
  match s with
  | None -> Printf.sprintf "%s R0 Z0 " status
  | Some st ->
    let lines = List.sort compare (List.map peer_line st.s_peers) in
    Printf.sprintf "%s R%d Z0 %s" status restarts (String.concat " ; " lines)

let count_restarts (before : state) (c : config) : int =
  let ks = reload_restarts before c in
  let rec dedup = function
    | [] -> []
    | k :: r -> k :: dedup (List.filter (fun x -> not (key_eqb k x)) r) in
  List.length (dedup ks)

let outcome_obs (before : state) (c : config) (o : outcome) : string * state option =
  match o with
  | Applied s -> state_obs "ok" (count_restarts before c) (Some s), Some s
  | ApplyErr s -> state_obs "cfgerr" (count_restarts before c) (Some s), Some s
  | LoadErr s -> state_obs "loaderr" 0 (Some s), Some s
  | Crashed -> state_obs "panic" 0 None, None

(* the model's observations of a daemon life: one string per step *)
let model_life (cs : config list) : string list * state option =
  match cs with
  | [] -> [], None
  | c1 :: rest ->
    (match start c1 with
     | None -> [ "loaderr R0 Z0 " ], None
     | Some o ->
       let o1, s1 = outcome_obs (init c1.c_rid) c1 o in
       let rec go acc s = function
         | [] -> List.rev acc, s
         | c :: r ->
           (match s with
            | None -> List.rev acc, None
            | Some st -> let ob, s' = outcome_obs st c (reload st c) in go (ob :: acc) s' r) in
       go [ o1 ] s1 rest)

(* split the implementation's observation into steps: tokens "#<i>" / "#F" start a step *)
let split_steps (obs : string list) : (string * string) list =
  let steps = ref [] and cur = ref None and buf = ref [] in
  let flush () = match !cur with
    | Some tag -> steps := (tag, String.concat " " (List.rev !buf)) :: !steps
    | None -> () in
  List.iter (fun t ->
    if String.length t >= 2 && t.[0] = '#' then (flush (); cur := Some t; buf := [])
    else if Str.string_match (Str.regexp "^I[0-9]+/[0-9]+$") t 0 then ()
    else buf := t :: !buf) obs;
  flush ();
  List.rev !steps

(* the hook prints "status Z<n> peers"; with no peers the line ends after "Z<n>" and the trailing
   blank is lost when the trace is split into tokens *)
let norm s = String.trim s

let same_sessions_b (a : state) (b : state) : bool =
  let keys st = List.map fst st.s_peers in
  List.for_all (fun k -> lookup k a.s_peers = lookup k b.s_peers) (keys a @ keys b)

let () =
  let compared = ref 0 and mism = ref 0 in
  iter_trace Sys.argv.(1) (fun id inp obs ->
    match (try `Parsed (List.map mk_config (parse_seq inp)) with Failure m -> `Bad m) with
    | `Bad m -> incr mism; Printf.printf "MODEL-ERROR case=%s cannot parse input: %s\n" id m
    | `Parsed cs ->
      incr compared;
      let impl = split_steps obs in
      let life, final = model_life cs in
      let last = List.nth cs (List.length cs - 1) in
      let fresh_obs, fresh_state = match start last with
        | None -> "loaderr R0 Z0 ", None
        | Some o -> outcome_obs (init last.c_rid) last o in
      let expected = List.mapi (fun i o -> (Printf.sprintf "#%d" i, o)) life @ [ ("#F", fresh_obs) ] in
      let bad = ref None in
      if List.length impl <> List.length expected then
        bad := Some (Printf.sprintf "steps model=%d impl=%d" (List.length expected) (List.length impl))
      else
        List.iter2 (fun (tm, om) (ti, oi) ->
          if !bad = None && (tm <> ti || norm om <> norm oi) then
            bad := Some (Printf.sprintf "step=%s model=[%s %s] impl=[%s %s]" tm tm (norm om) ti (norm oi)))
          expected impl;
      (match !bad with
       | None -> ()
       | Some m -> incr mism; Printf.printf "CORR-MISMATCH case=%s %s\n" id m);
      (* the spec on the model: reload and fresh start agree whenever the fresh start is Applied,
         the whole life was played and the router id did not change *)
      (match final, (match start last with Some (Applied f) -> Some f | _ -> None) with
       | Some s, Some f when List.length life = List.length cs ->
         let rid_same = (List.hd cs).c_rid = last.c_rid in
         if rid_same && not (same_sessions_b s f) then
           Printf.printf "SPEC-VIOLATION case=%s sig=model-reload-differs the model's reload and fresh start differ\n" id
       | _ -> ()));
  Printf.printf "STATS compared=%d mismatches=%d\n" !compared !mism
