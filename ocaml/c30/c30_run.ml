(* C30 modelrun: replays every case of the trace through the extracted model (Model.ISISCodec) and
   compares the canonical rendering with the implementation's observation. Syntax: see
   harness/cmd/c30/render.go. *)
let ni (x : n) : string = string_of_int (int_of_n x)
let hex_of (l : n list) : string =
  if l = [] then "_" else String.concat "" (List.map (fun x -> Printf.sprintf "%02x" (int_of_n x)) l)
let bytes_of (s : string) : n list =
  if s = "_" || s = "" then [] else begin
    if String.length s mod 2 <> 0 then failwith ("bad hex " ^ s);
    List.init (String.length s / 2) (fun i -> n_of_int (int_of_string ("0x" ^ String.sub s (2 * i) 2)))
  end
let num (s : string) : n = n_of_int (int_of_string s)
let join sep = function [] -> "_" | l -> String.concat sep l
let split sep s = if s = "_" || s = "" then [] else String.split_on_char sep s

let render_entry (e : lspentry) : string =
  Printf.sprintf "%s.%s.%s.%s" (ni e.le_life) (hex_of e.le_id) (ni e.le_seq) (ni e.le_csum)
let render_sub = function
  | SLinkLR (ty, len, l, r) -> Printf.sprintf "l~%s~%s~%s~%s" (ni ty) (ni len) (ni l) (ni r)
  | SIPv4 (ty, len, a) -> Printf.sprintf "a~%s~%s~%s" (ni ty) (ni len) (ni a)
  | SRaw (ty, len, v) -> Printf.sprintf "u~%s~%s~%s" (ni ty) (ni len) (hex_of v)
let render_subs l = join "+" (List.map render_sub l)

let render_tlv (t : tlv) : string =
  let h k ty len rest = Printf.sprintf "%s,%s,%s,%s" k (ni ty) (ni len) rest in
  match t with
  | TArea (ty, len, areas) -> h "A" ty len (if areas = [] then "-" else String.concat "|" (List.map hex_of areas))
  | TChecksum (ty, len, cs) -> h "K" ty len (ni cs)
  | TDynHost (ty, len, nm) -> h "D" ty len (hex_of nm)
  | TProto (ty, len, ids) -> h "S" ty len (hex_of ids)
  | TIPIf (ty, len, addrs) -> h "I" ty len (join "|" (List.map ni addrs))
  | TP2PAdj (ty, len, st, ecid, nsys, necid) ->
    h "J" ty len (Printf.sprintf "%s,%s,%s,%s" (ni st) (ni ecid) (hex_of nsys) (ni necid))
  | TISNbr (ty, len, snpa) -> h "N" ty len (hex_of snpa)
  | TEntries (ty, len, es) -> h "E" ty len (join "|" (List.map render_entry es))
  | TUnknown (ty, len, v) -> h "U" ty len (hex_of v)
  | TPadding (ty, len, d) -> h "G" ty len (hex_of d)
  | TExtIS (ty, len, ns) ->
    h "X" ty len (join "|" (List.map (fun x ->
      Printf.sprintf "%s.%s.%s.%s" (hex_of x.xn_id) (ni x.xn_metric) (ni x.xn_sublen) (render_subs x.xn_subs)) ns))
  | TExtIP (ty, len, rs) ->
    h "Y" ty len (join "|" (List.map (fun x ->
      Printf.sprintf "%s.%s.%s.%s" (ni x.xp_metric) (ni x.xp_udpfx) (ni x.xp_addr) (render_subs x.xp_subs)) rs))
  | TTERid (ty, len, a) -> h "T" ty len (ni a)

let render_tlvs ts = "[" ^ String.concat ";" (List.map render_tlv ts) ^ "]"
let render_header (h : header) =
  Printf.sprintf "H:%s.%s.%s.%s.%s.%s.%s" (ni h.h_pd) (ni h.h_li) (ni h.h_pie) (ni h.h_idlen) (ni h.h_type) (ni h.h_ver) (ni h.h_maxarea)
let render_body = function
  | BNone -> "N"
  | BHello x -> Printf.sprintf "HELLO:%s:%s:%s:%s:%s:%s" (ni x.hl_ct) (hex_of x.hl_sys) (ni x.hl_hold) (ni x.hl_len) (ni x.hl_lcid) (render_tlvs x.hl_tlvs)
  | BLsp x -> Printf.sprintf "LSP:%s:%s:%s:%s:%s:%s:%s" (ni x.ls_len) (ni x.ls_life) (hex_of x.ls_id) (ni x.ls_seq) (ni x.ls_csum) (ni x.ls_tb) (render_tlvs x.ls_tlvs)
  | BCsnp x -> Printf.sprintf "CSNP:%s:%s:%s:%s:%s" (ni x.cs_len) (hex_of x.cs_src) (hex_of x.cs_start) (hex_of x.cs_end) (render_tlvs x.cs_tlvs)
  | BPsnp x -> Printf.sprintf "PSNP:%s:%s:%s" (ni x.ps_len) (hex_of x.ps_src) (render_tlvs x.ps_tlvs)
let render_l2 (x : l2hello) =
  Printf.sprintf "L2H:%s:%s:%s:%s:%s:%s:%s" (ni x.l2_ct) (hex_of x.l2_sys) (ni x.l2_hold) (ni x.l2_len) (ni x.l2_prio) (hex_of x.l2_dis) (render_tlvs x.l2_tlvs)
let render_pkt (p : packet) = render_header p.p_hdr ^ "/" ^ render_body p.p_body

let render_res f = function
  | Ok x -> f x
  | Err -> "Err"
  | Panic -> "PANIC"
  | OutOfFuel -> "OUTOFFUEL"

(* ---- parser *)
let parse_entry s =
  match String.split_on_char '.' s with
  | [a; b; c; d] -> { le_life = num a; le_id = bytes_of b; le_seq = num c; le_csum = num d }
  | _ -> failwith ("entry " ^ s)
let parse_entries s = List.map parse_entry (split '|' s)
let parse_subs s =
  List.map (fun x ->
    match String.split_on_char '~' x with
    | ["l"; ty; len; a; b] -> SLinkLR (num ty, num len, num a, num b)
    | ["a"; ty; len; a] -> SIPv4 (num ty, num len, num a)
    | ["u"; ty; len; v] -> SRaw (num ty, num len, bytes_of v)
    | _ -> failwith ("sub " ^ x)) (split '+' s)
let parse_areas v = if v = "-" then [] else List.map bytes_of (String.split_on_char '|' v)
let parse_tlv s =
  match String.split_on_char ',' s with
  | ["A"; ty; len; v] -> TArea (num ty, num len, parse_areas v)
  | ["K"; ty; len; v] -> TChecksum (num ty, num len, num v)
  | ["D"; ty; len; v] -> TDynHost (num ty, num len, bytes_of v)
  | ["S"; ty; len; v] -> TProto (num ty, num len, bytes_of v)
  | ["I"; ty; len; v] -> TIPIf (num ty, num len, List.map num (split '|' v))
  | ["J"; ty; len; st; ecid; nsys; necid] -> TP2PAdj (num ty, num len, num st, num ecid, bytes_of nsys, num necid)
  | ["N"; ty; len; v] -> TISNbr (num ty, num len, bytes_of v)
  | ["E"; ty; len; v] -> TEntries (num ty, num len, parse_entries v)
  | ["U"; ty; len; v] -> TUnknown (num ty, num len, bytes_of v)
  | ["G"; ty; len; v] -> TPadding (num ty, num len, bytes_of v)
  | ["X"; ty; len; v] ->
    TExtIS (num ty, num len, List.map (fun x ->
      match String.split_on_char '.' x with
      | [id; m; sl; subs] -> { xn_id = bytes_of id; xn_metric = num m; xn_sublen = num sl; xn_subs = parse_subs subs }
      | _ -> failwith ("X neighbor " ^ x)) (split '|' v))
  | ["Y"; ty; len; v] ->
    TExtIP (num ty, num len, List.map (fun x ->
      match String.split_on_char '.' x with
      | [m; ud; a; subs] -> { xp_metric = num m; xp_udpfx = num ud; xp_addr = num a; xp_subs = parse_subs subs }
      | _ -> failwith ("Y reach " ^ x)) (split '|' v))
  | ["T"; ty; len; v] -> TTERid (num ty, num len, num v)
  | _ -> failwith ("tlv " ^ s)
let parse_tlvs s =
  let l = String.length s in
  if l < 2 || s.[0] <> '[' || s.[l - 1] <> ']' then failwith ("tlvs " ^ s);
  let inner = String.sub s 1 (l - 2) in
  if inner = "" then [] else List.map parse_tlv (String.split_on_char ';' inner)
let parse_body s =
  match String.split_on_char ':' s with
  | ["N"] -> BNone
  | ["HELLO"; ct; sys; hold; len; lcid; ts] ->
    BHello { hl_ct = num ct; hl_sys = bytes_of sys; hl_hold = num hold; hl_len = num len; hl_lcid = num lcid; hl_tlvs = parse_tlvs ts }
  | ["LSP"; len; life; id; seq; cs; tb; ts] ->
    BLsp { ls_len = num len; ls_life = num life; ls_id = bytes_of id; ls_seq = num seq; ls_csum = num cs; ls_tb = num tb; ls_tlvs = parse_tlvs ts }
  | ["CSNP"; len; src; st; en; ts] ->
    BCsnp { cs_len = num len; cs_src = bytes_of src; cs_start = bytes_of st; cs_end = bytes_of en; cs_tlvs = parse_tlvs ts }
  | ["PSNP"; len; src; ts] -> BPsnp { ps_len = num len; ps_src = bytes_of src; ps_tlvs = parse_tlvs ts }
  | _ -> failwith ("body " ^ s)
let parse_header s =
  if String.length s < 2 || String.sub s 0 2 <> "H:" then failwith ("header " ^ s);
  match String.split_on_char '.' (String.sub s 2 (String.length s - 2)) with
  | [a; b; c; d; e; f; g] ->
    { h_pd = num a; h_li = num b; h_pie = num c; h_idlen = num d; h_type = num e; h_ver = num f; h_maxarea = num g }
  | _ -> failwith ("header " ^ s)
let parse_pkt s =
  let i = String.index s '/' in
  { p_hdr = parse_header (String.sub s 0 i); p_body = parse_body (String.sub s (i + 1) (String.length s - i - 1)) }

let llc = List.map n_of_int [0xfe; 0xfe; 0x03]
let snp_header ty li =
  { h_pd = n_of_int 0x83; h_li = n_of_int li; h_pie = n_of_int 1; h_idlen = n_of_int 0; h_type = n_of_int ty; h_ver = n_of_int 1; h_maxarea = n_of_int 0 }

let model_obs (inp : string list) : string list =
  match inp with
  | ["D"; h] -> [render_res render_pkt (decode (bytes_of h))]
  | ["L"; h] -> [render_res render_l2 (decode_l2 (bytes_of h))]
  | ["E"; p] ->
    let p = parse_pkt p in
    let wire = enc_packet llc p in
    [hex_of wire; render_res render_pkt (decode wire)]
  | ["K"; b] ->
    (match parse_body b with
     | BLsp x -> [render_body (BLsp (lsp_set_checksum (lsp_update_length x)))]
     | _ -> failwith "K wants an LSP")
  | "T" :: ctor :: args ->
    let arg i = (try List.nth args i with _ -> failwith "T: argument missing") in
    let t =
      match ctor with
      | "area" -> new_area_tlv (parse_areas (arg 0))
      | "host" -> new_dynhost_tlv (bytes_of (arg 0))
      | "proto" -> new_proto_tlv (bytes_of (arg 0))
      | "ipif" -> new_ipif_tlv (List.map num (split '|' (arg 0)))
      | "entries" -> new_entries_tlv (parse_entries (arg 0))
      | "p2padj" -> new_p2padj_tlv (num (arg 0)) (num (arg 1))
      | "pad" -> new_padding_tlv (num (arg 0))
      | "terid" -> new_terid_tlv (num (arg 0))
      | "extis" ->
        new_extis_tlv (List.map (fun x ->
          match String.split_on_char '.' x with
          | [id; m; _; subs] -> new_extis_nbr (bytes_of id) (num m) (parse_subs subs)
          | _ -> failwith ("extis neighbor " ^ x)) (split '|' (arg 0)))
      | "extip" ->
        new_extip_tlv (List.map (fun x ->
          match String.split_on_char '.' x with
          | [m; p; a] -> ((num m, num p), num a)
          | _ -> failwith ("extip reach " ^ x)) (split '|' (arg 0)))
      | _ -> failwith ("constructor " ^ ctor) in
    let z = n_of_int 0 in
    let p = { p_hdr = snp_header 0x14 27;
              p_body = BLsp { ls_len = z; ls_life = z; ls_id = List.init 8 (fun _ -> z); ls_seq = z; ls_csum = z; ls_tb = z; ls_tlvs = [t] } } in
    let wire = enc_packet llc p in
    [render_tlv t; hex_of wire; render_res render_pkt (decode wire)]
  | [("C" | "P") as st; ml; src; es] ->
    let ml = z_of_int (int_of_string ml) and src = bytes_of src and es = parse_entries es in
    let bodies =
      if st = "C" then (match new_csnps src es ml with Ok l -> Ok (List.map (fun c -> (snp_header 0x19 33, BCsnp c)) l) | Err -> Err | Panic -> Panic | OutOfFuel -> OutOfFuel)
      else (match new_psnps src es ml with Ok l -> Ok (List.map (fun c -> (snp_header 0x1b 17, BPsnp c)) l) | Err -> Err | Panic -> Panic | OutOfFuel -> OutOfFuel) in
    (match bodies with
     | Ok l ->
       Printf.sprintf "n=%d" (List.length l) ::
       List.concat (List.map (fun (h, b) ->
         [render_body b; render_res render_pkt (decode (enc_packet llc { p_hdr = h; p_body = b }))]) l)
     | Err -> ["Err"] | Panic -> ["PANIC"] | OutOfFuel -> ["OUTOFFUEL"])
  | _ -> failwith "unknown stream"

let clip s = if String.length s > 300 then String.sub s 0 300 ^ "..." else s

let () =
  let compared = ref 0 and mism = ref 0 in
  iter_trace Sys.argv.(1) (fun id inp obs ->
    match (try Stdlib.Ok (model_obs inp) with e -> Stdlib.Error (Printexc.to_string e)) with
    | Stdlib.Error m -> incr mism; Printf.printf "MODEL-ERROR case=%s %s\n" id m
    | Stdlib.Ok mo ->
      incr compared;
      if mo <> obs then begin
        incr mism;
        let rec first i a b = match a, b with
          | x :: a', y :: b' -> if x = y then first (i + 1) a' b' else (i, x, y)
          | x :: _, [] -> (i, x, "<missing>")
          | [], y :: _ -> (i, "<missing>", y)
          | [], [] -> (i, "", "") in
        let (i, m, o) = first 0 mo obs in
        Printf.printf "CORR-MISMATCH case=%s token=%d model=%s impl=%s\n" id i (clip m) (clip o)
      end);
  Printf.printf "STATS compared=%d mismatches=%d\n" !compared !mism
