(* C32 modelrun: replay each case through the extracted Model.LSDB.step and compare, token by token,
   with the implementation's database (sequence number, remaining lifetime, SRM and SSN interfaces of
   every entry), its sequence counter, the update-request flag and what the LSP / PSNP senders sent. *)
(* ids in traces: three digits <system><pseudonode><LSP number> *)
let id_of_int (i : int) : lspid = { sys = n_of_int (i / 100); pn = n_of_int ((i / 10) mod 10); num = n_of_int (i mod 10) }
let int_of_id (k : lspid) : int = int_of_n k.sys * 100 + int_of_n k.pn * 10 + int_of_n k.num

(* entries of all LSP entries TLVs of an SNP ('|' separates TLVs), in order: what GetLSPEntries returns *)
let parse_entries (s : string) : ((lspid * n) * n) list =
  if s = "-" then [] else
    List.map (fun t ->
      match String.split_on_char '.' t with
      | [i; sq; lt] -> ((id_of_int (int_of_string i), n_of_int (int_of_string sq)), n_of_int (int_of_string lt))
      | _ -> failwith ("bad entry " ^ t))
      (List.concat_map (String.split_on_char ',') (String.split_on_char '|' s))

let bound (s : string) : lspid =
  if s = "a" then { sys = N0; pn = N0; num = N0 }
  else if s = "z" then { sys = n_of_int 0xffffffffffff; pn = n_of_int 255; num = n_of_int 255 }
  else id_of_int (int_of_string s)

let rest t = String.sub t 1 (String.length t - 1)

let digits (l : nat list) : string =
  let d = List.sort compare (List.map int_of_nat l) in
  if d = [] then "-" else String.concat "" (List.map string_of_int d)

let db_str (s : srv) : string =
  let es = List.sort compare (List.map (fun (k, e) ->
      (int_of_id k, Printf.sprintf "%d:%d:%d:S%s:N%s" (int_of_id k) (int_of_n e.seq0) (int_of_n e.life) (digits e.srm) (digits e.ssn)))
      s.db) in
  if es = [] then "-" else String.concat "," (List.map snd es)

let obs (s : srv) (extra : string) : string =
  Printf.sprintf "%s/c%d/p%d%s" (db_str s) (int_of_n s.counter) (if s.pending then 1 else 0) extra

let rec repeat k f s = if k <= 0 then s else repeat (k - 1) f (f s)

let () =
  let compared = ref 0 and mism = ref 0 in
  iter_trace Sys.argv.(1) (fun id inp obsv ->
    match inp with
    | [] -> ()
    | cfg :: toks ->
      let kinds = String.sub cfg 4 (String.length cfg - 4) in
      let ifaces = List.init (String.length kinds) (fun i ->
          match kinds.[i] with
          | 'n' -> { passive = false; has_nbr = true }
          | 'e' -> { passive = false; has_nbr = false }
          | _ -> { passive = true; has_nbr = false }) in
      let s = ref (init ifaces (n_of_int 2)) in
      let bad = ref None in
      let nobs = List.length obsv in
      List.iteri (fun i t ->
        if i < nobs && !bad = None then begin
          let extra = ref "" in
          (match t.[0] with
           | 'L' ->
             (match String.split_on_char ':' (rest t) with
              | [ifi; k; sq; lt] ->
                s := step !s (RecvLSP (nat_of_int (int_of_string ifi), id_of_int (int_of_string k),
                                       n_of_int (int_of_string sq), n_of_int (int_of_string lt)))
              | _ -> failwith ("bad token " ^ t))
           | 'C' ->
             (match String.split_on_char ':' (rest t) with
              | [ifi; range; es] ->
                (match String.split_on_char '-' range with
                 | [lo; hi] when es <> "" ->
                   s := step !s (RecvCSNP (nat_of_int (int_of_string ifi), bound lo, bound hi, parse_entries es))
                 | _ -> failwith ("bad token " ^ t))
              | _ -> failwith ("bad token " ^ t))
           | 'P' ->
             (match String.split_on_char ':' (rest t) with
              | [ifi; es] -> s := step !s (RecvPSNP (nat_of_int (int_of_string ifi), parse_entries es))
              | _ -> failwith ("bad token " ^ t))
           | 'T' -> s := repeat (int_of_string (rest t)) (fun st -> step st Tick) !s
           | 'X' -> s := repeat (int_of_string (rest t)) (fun st -> step (step st Tick) Service) !s
           | 'S' -> s := step !s Service
           | 'R' -> s := step !s Regen
           | 'Q' ->
             let l = List.sort compare (List.map (fun ((i, k), sq) ->
                 Printf.sprintf "%d>%d.%d" (int_of_nat i) (int_of_id k) (int_of_n sq)) (lsps_to_send !s)) in
             extra := "/" ^ (if l = [] then "none" else String.concat ";" l);
             s := step !s SendLSPs
           | 'A' ->
             let l = List.sort compare (List.map (fun (i, es) ->
                 Printf.sprintf "%d>%s" (int_of_nat i)
                   (String.concat "+" (List.sort compare (List.map (fun (k, sq) ->
                        Printf.sprintf "%d.%d" (int_of_id k) (int_of_n sq)) es)))) (psnps_to_send !s)) in
             extra := "/" ^ (if l = [] then "none" else String.concat ";" l);
             s := step !s SendPSNPs
           | 'B' ->
             let l = List.sort compare (List.map (fun (i, es) ->
                 Printf.sprintf "%d>[a-z]%s" (int_of_nat i)
                   (String.concat "+" (List.sort compare (List.map (fun (k, sq) ->
                        Printf.sprintf "%d.%d" (int_of_id k) (int_of_n sq)) es)))) (csnps_to_send !s)) in
             extra := "/" ^ (if l = [] then "none" else String.concat ";" l);
             s := step !s SendCSNPs
           | _ -> failwith ("bad token " ^ t));
          let mo = obs !s !extra in
          let io = List.nth obsv i in
          if mo <> io then bad := Some (i, t, mo, io)
        end) toks;
      incr compared;
      match !bad with
      | None -> ()
      | Some (i, t, mo, io) ->
        incr mism;
        Printf.printf "CORR-MISMATCH case=%s event=%d(%s) model=%s impl=%s\n" id i t mo io);
  Printf.printf "STATS compared=%d mismatches=%d\n" !compared !mism
