(* C35 modelrun: replay each case through the extracted model (Model.Dijkstra.run with the nil
   guard of the repaired code) under several map-iteration oracles and compare with what the
   implementation returned:
   - the model must return Ok under every oracle (else the implementation's PANIC/TIMEOUT differs),
   - the key set and every distance must agree exactly, for every oracle,
   - the implementation's edge list for a node must pass the extracted, verified path test
     (Spec.DijkstraSpec.is_path_b on graph_of edges) with the reported weight, be empty for -1,
     and extend the edge list of its predecessor (the theorems C35_correct / tree_ok say the model's
     result has these properties for EVERY oracle; which of several shortest paths is returned
     depends on Go's map order, so the lists are not compared literally). *)

type case = { srcs : int list; nodes : int list; edges : (int * int * int) list }

let parse_input (toks : string list) : case =
  let srcs = ref [] and nodes = ref [] and edges = ref [] in
  List.iter (fun t ->
    let body = String.sub t 2 (String.length t - 2) in
    let items = List.filter (fun x -> x <> "") (String.split_on_char ',' body) in
    match String.sub t 0 2 with
    | "s=" -> srcs := List.map int_of_string items
    | "n=" -> nodes := List.map int_of_string items
    | "e=" ->
      edges := List.map (fun x ->
        match String.split_on_char ':' x with
        | [ab; w] ->
          (match String.split_on_char '-' ab with
           | [a; b] -> (int_of_string a, int_of_string b, int_of_string w)
           | _ -> failwith ("bad edge " ^ x))
        | _ -> failwith ("bad edge " ^ x)) items
    | _ -> failwith ("bad token " ^ t)) toks;
  { srcs = !srcs; nodes = !nodes; edges = !edges }

let in_domain (c : case) : bool =
  c.srcs <> [] && List.for_all (fun s -> List.mem s c.nodes) c.srcs &&
  List.for_all (fun (a, b, w) -> List.mem a c.nodes && List.mem b c.nodes && w >= 0) c.edges &&
  (let maxw = List.fold_left (fun m (_, _, w) -> max m w) 0 c.edges in
   maxw <= max_int / (List.length c.nodes + 1))

(* observation token "<id>:<dist>:<edges>" *)
let parse_obs_edges (s : string) : (int * int * int) list =
  if s = "-" then [] else
  List.map (fun x ->
    match String.split_on_char ':' x with
    | [ab; w] ->
      (match String.split_on_char '-' ab with
       | [a; b] -> (int_of_string a, int_of_string b, int_of_string w)
       | _ -> failwith ("bad obs edge " ^ x))
    | _ -> failwith ("bad obs edge " ^ x)) (String.split_on_char '/' s)

let parse_obs (t : string) : int * int * (int * int * int) list =
  (* distance may be negative: split on the first and second ':' only *)
  let i = String.index t ':' in
  let j = String.index_from t (i + 1) ':' in
  (int_of_string (String.sub t 0 i),
   int_of_string (String.sub t (i + 1) (j - i - 1)),
   parse_obs_edges (String.sub t (j + 1) (String.length t - j - 1)))

let mk_edge (a, b, w) : edge = { ea = n_of_int a; eb = n_of_int b; ew = z_of_int w }

(* deterministic shuffles (permutations) *)
let shuffle (salt : int) (k : int) (l : 'a list) : 'a list =
  let a = Array.of_list l in
  let st = ref (salt * 7919 + k * 104729 + 12345) in
  let next m = st := (!st * 1103515245 + 12345) land 0x3fffffff; (!st lsr 8) mod m in
  for i = Array.length a - 1 downto 1 do
    let j = next (i + 1) in
    let x = a.(i) in a.(i) <- a.(j); a.(j) <- x
  done;
  Array.to_list a

let oracles : (string * oracle) list = [
  "id",  { ord_edges = (fun _ l -> l); ord_nodes = (fun _ l -> l) };
  "rev", { ord_edges = (fun _ l -> List.rev l); ord_nodes = (fun _ l -> List.rev l) };
  "sh1", { ord_edges = (fun k l -> shuffle 1 (int_of_nat k) l); ord_nodes = (fun k l -> shuffle 2 (int_of_nat k) l) };
  "sh2", { ord_edges = (fun k l -> shuffle 3 (int_of_nat k) l); ord_nodes = (fun k l -> List.rev (shuffle 4 (int_of_nat k) l)) };
]

let fmt_edges es =
  if es = [] then "-" else
  String.concat "/" (List.map (fun (a, b, w) -> Printf.sprintf "%d-%d:%d" a b w) es)

let split_steps (toks : string list) : string list list =
  let rec go cur acc = function
    | [] -> List.rev (List.rev cur :: acc)
    | "&&" :: r -> go [] (List.rev cur :: acc) r
    | t :: r -> go (t :: cur) acc r in
  go [] [] toks

let () =
  let compared = ref 0 and mism = ref 0 and skipped = ref 0 and literal = ref 0 and calls = ref 0 in
  let mismatch id msg = incr mism; Printf.printf "CORR-MISMATCH case=%s %s\n" id msg in
  iter_trace Sys.argv.(1) (fun id inp obs ->
    let c = parse_input inp in
    if not (in_domain c) then incr skipped
    else begin
      incr compared;
      let nodes = List.map n_of_int c.nodes and es = List.map mk_edge c.edges in
      let g = graph_of es in
      (* the whole sequence of calls on one topology, once per oracle *)
      let results = List.map (fun (name, o) ->
          (name, run_seq true nodes es (List.map (fun s -> (o, n_of_int s)) c.srcs))) oracles in
      let obs_calls = split_steps obs in
      let bad = ref None in
      let fail msg = if !bad = None then bad := Some msg in
      if List.length obs_calls <> List.length c.srcs then
        fail (Printf.sprintf "%d calls, %d observations (impl stopped: %s)" (List.length c.srcs)
                (List.length obs_calls) (String.concat " " (List.nth obs_calls (List.length obs_calls - 1))));
      List.iteri (fun k obs ->
        if k < List.length c.srcs then begin
        incr calls;
        let src = List.nth c.srcs k in
        let fail msg = fail (Printf.sprintf "call=%d source=%d %s" (k + 1) src msg) in
        (match obs with
         | ["PANIC"] | ["TIMEOUT"] ->
           fail (Printf.sprintf "impl=%s model=Ok under every oracle" (List.hd obs))
         | _ ->
           let impl = (try List.map parse_obs obs with _ -> fail "unparsable observation"; []) in
           let impl_dist = List.sort compare (List.map (fun (v, d, _) -> (v, d)) impl) in
           let impl_str = String.concat " " obs in
           List.iter (fun (name, rs) ->
             match List.nth rs k with
             | Ok spt ->
               let m = List.sort compare
                   (List.map (fun (v, p) -> (int_of_n v, int_of_z p.pdist)) spt) in
               if m <> impl_dist then begin
                 let show l = String.concat "," (List.map (fun (v, d) -> Printf.sprintf "%d:%d" v d) l) in
                 fail (Printf.sprintf "oracle=%s distances model=%s impl=%s" name (show m) (show impl_dist))
               end;
               List.iter (fun (v, p) ->
                 if int_of_z p.pdist <> -1 &&
                    not (is_path_b g (n_of_int src) v p.pedges && weight p.pedges = p.pdist) then
                   Printf.printf "MODEL-ERROR case=%s oracle=%s model path for node %d fails is_path_b\n"
                     id name (int_of_n v)) spt;
               if name = "id" then begin
                 let mstr = String.concat " " (List.map (fun (v, p) ->
                     Printf.sprintf "%d:%d:%s" (int_of_n v) (int_of_z p.pdist)
                       (fmt_edges (List.map (fun e -> (int_of_n e.ea, int_of_n e.eb, int_of_z e.ew)) p.pedges)))
                     (List.sort (fun (a, _) (b, _) -> compare (int_of_n a) (int_of_n b)) spt)) in
                 if mstr = impl_str then incr literal
               end
             | Panic -> fail (Printf.sprintf "oracle=%s model=Panic" name)
             | OutOfFuel -> Printf.printf "MODEL-ERROR case=%s oracle=%s out of fuel\n" id name) results;
           (* the implementation's edge lists *)
           List.iter (fun (v, d, pes) ->
             let p = List.map mk_edge pes in
             if d = -1 then begin
               if pes <> [] then fail (Printf.sprintf "node %d: distance -1 with edges %s" v (fmt_edges pes))
             end else begin
               if not (is_path_b g (n_of_int src) (n_of_int v) p) then
                 fail (Printf.sprintf "node %d: %s is not a path from %d in the model's graph" v (fmt_edges pes) src)
               else if int_of_z (weight p) <> d then
                 fail (Printf.sprintf "node %d: path weight %d, distance %d" v (int_of_z (weight p)) d);
               (match List.rev pes with
                | [] -> ()
                | (u, _, _) :: rest ->
                  let pre = List.rev rest in
                  (match List.find_opt (fun (x, _, _) -> x = u) impl with
                   | Some (_, _, pu) when pu = pre -> ()
                   | _ -> fail (Printf.sprintf "node %d: path %s does not extend the path of node %d" v (fmt_edges pes) u)))
             end) impl)
        end) obs_calls;
      match !bad with
      | None -> ()
      | Some msg -> mismatch id msg
    end);
  Printf.printf "STATS compared=%d mismatches=%d calls=%d skipped_out_of_domain=%d literal_match_id_oracle=%d\n"
    !compared !mism !calls !skipped !literal
