(* C19 modelrun: the traced input is one UPDATE message m as a peer sends it; like the harness (and recvMsg)
   the model decodes m zero-padded to 4096 bytes, then applies Model.BGPInstall.installed for the IPv4 and the
   IPv6 unicast family. Compared: decode outcome + rendering, and the content of the two Adj-RIB-Ins. *)
let bytes_of_hex (s : string) : n list =
  if s = "-" then [] else begin
    let l = String.length s / 2 in
    let rec go i acc = if i < 0 then acc
      else go (i - 1) (n_of_int (int_of_string ("0x" ^ String.sub s (2 * i) 2)) :: acc) in
    go (l - 1) []
  end

let render_tokens (l : n list) : string =
  let b = Buffer.create 256 in
  List.iteri (fun i x -> if i > 0 then Buffer.add_char b ' '; Buffer.add_string b (string_of_int (int_of_n x))) l;
  Buffer.contents b

let rec nat_len (l : n list) (acc : nat) : nat = match l with [] -> acc | _ :: r -> nat_len r (S acc)

let rec pad (l : n list) (k : int) : n list =
  match l with
  | x :: r -> x :: pad r (k - 1)
  | [] -> if k <= 0 then [] else N0 :: pad [] (k - 1)

let entry_string (tag : string) (e : entry) : string =
  match List.map int_of_n (renderEntry e) with
  | _fam :: rest ->
    let n = List.length rest in
    let addr = List.filteri (fun i _ -> i < n - 3) rest in
    let tail = List.filteri (fun i _ -> i >= n - 3) rest in
    (match tail with
     | [plen; id; nh] ->
       Printf.sprintf "%s:%s/%d#%d%s" tag (String.concat "" (List.map (Printf.sprintf "%02x") addr)) plen id
         (if nh = 1 then "h" else "n")
     | _ -> "?")
  | [] -> "?"

let () =
  let compared = ref 0 and mism = ref 0 and installs = ref 0 and skipped = ref 0 in
  iter_trace Sys.argv.(1) (fun id inp obs ->
    match inp with
    | [k; hx] ->
      let m = bytes_of_hex hx in
      let b = pad m 4096 in
      let o = optionsOf (n_of_int (int_of_string k)) in
      let fuel = nat_len b (S O) in
      let r = decode fuel o b in
      let mo = (match fst r with
          | Ok (m, _) -> render_tokens (renderMsg m)
          | Err -> "Err"
          | Panic _ -> "PANIC"
          | OutOfFuel -> "OUTOFFUEL") in
      let es = List.map (entry_string "4") (installed (n_of_int 1) o r)
               @ List.map (entry_string "6") (installed (n_of_int 2) o r) in
      let inst = if es = [] then "-" else String.concat "," (List.sort compare es) in
      if es <> [] then incr installs;
      let io = String.concat " " obs in
      let impl_panicked = (let l = String.length io in l >= 7 && String.sub io (l - 7) 7 = "| PANIC") in
      let impl_dirty = (let l = String.length io in l >= 7 && String.sub io (l - 7) 7 = "| DIRTY") in
      let model = if impl_panicked then (incr skipped; mo ^ " | PANIC")
        else if impl_dirty then (incr skipped; mo ^ " | DIRTY") else mo ^ " | " ^ inst in
      incr compared;
      if model <> io then begin
        incr mism;
        let cut s = if String.length s > 400 then "..." ^ String.sub s (String.length s - 400) 400 else s in
        if !mism <= 20 then
          Printf.printf "CORR-MISMATCH case=%s model=[%s] impl=[%s]\n" id (cut model) (cut io)
      end
    | _ -> Printf.printf "MODEL-ERROR case=%s unparsable input\n" id);
  Printf.printf "STATS compared=%d mismatches=%d model_installs=%d install_not_compared=%d\n"
    !compared !mism !installs !skipped
