(* C09 modelrun: each path is added to a fresh Adj-RIB-Out model (Model.AdjRIBOut.step) and what the
   model stores and puts on the wire (Model.ExportWire.sess_wire) is compared with the implementation.
   Grammar: harness/cmd/c09/main.go. *)
let dots f l = String.concat "." (List.map f l)

let print_wattr = function
  | WAsPath [] -> "2=e"
  | WAsPath l -> "2=" ^ String.concat "_" (List.map (fun (q, asns) -> (if q then "q" else "s") ^ dots si asns) l)
  | WOrigin o -> "1=" ^ si o
  | WNextHop n -> "3=" ^ si n
  | WMed m -> "4=" ^ si m
  | WAtomic -> "6"
  | WAggregator (a, b) -> "7=" ^ si a ^ "." ^ si b
  | WLocalPref l -> "5=" ^ si l
  | WOriginator o -> "9=" ^ si o
  | WClusterList l -> "10=" ^ dots si l
  | WComms l -> "8=" ^ dots si l
  | WLComms l -> "32=" ^ dots (fun ((a, b), c) -> si a ^ ":" ^ si b ^ ":" ^ si c) l
  | WUnknown u -> "u" ^ si u.u_code ^ ":" ^ dots si u.u_val

let () =
  let compared = ref 0 and mism = ref 0 in
  iter_trace Sys.argv.(1) (fun id inp obs ->
    incr compared;
    match inp with
    | st :: ct :: paths when obs <> ["PANIC"] ->
      (try
        let (s, _) = parse_sess st in
        let c0 = parse_chain (String.sub ct 1 (String.length ct - 1)) in
        let bad = ref None in
        List.iteri (fun i ptok ->
          if !bad = None then begin
            let p = parse_path (String.sub ptok 1 (String.length ptok - 1)) in
            let render a = (match tbl_get (n_of_int 0) a.tbl with
              | [] -> "-#-"
              | (PBgp (_, b) as q) :: _ -> print_path q ^ "#" ^ String.concat ";" (List.map print_wattr (sess_wire s b))
              | q :: _ -> print_path q ^ "#?") in
            let a1 = step interp s (init c0) (OAdd (n_of_int 0, p)) in
            let drain = [[{ t_from = []; t_then = [AReject] }]] in
            let m2 = (if p = PStatic None then "-#-" else
              let b0 = step interp s (init drain) (OAdd (n_of_int 0, p)) in
              render (step interp s b0 (OReplace (c0, [(n_of_int 0, [p])])))) in
            let mo = render a1 ^ "#" ^ m2 in
            let io = (try List.nth obs i with _ -> "<missing>") in
            if mo <> io then bad := Some (i, mo, io)
          end) paths;
        (match !bad with
         | None -> ()
         | Some (i, mo, io) ->
           incr mism; Printf.printf "CORR-MISMATCH case=%s path=%d model=%s impl=%s\n" id i mo io)
      with Failure m | Invalid_argument m ->
        incr mism; Printf.printf "CORR-MISMATCH case=%s driver cannot parse: %s\n" id m)
    | _ -> incr mism; Printf.printf "CORR-MISMATCH case=%s impl panicked or short input\n" id);
  Printf.printf "STATS compared=%d mismatches=%d\n" !compared !mism
