(* Speaker modelrun (additional stage of C08, notes/Pipeline.md "Speaker"): replays every case of harness/cmd/speaker
   through the extracted wire-to-wire model (Model/Speaker.v: sp_step = decoder, per-NLRI application, RIB pipeline,
   update sender and encoder threaded) on the SAME BYTES the real sessions were fed, and compares after every event
   and for every session: up/down, the Adj-RIB-In, the Loc-RIB route of every prefix touched, the Adj-RIB-Out, the
   update sender's queue, the UPDATEs written during the event - their reference-decoded content and their bytes
   (attribute section of announcements, whole frame of withdrawals and End-of-RIB) - and, when drained, the peer's view.
   Path selection and sha256 are answered as in ocaml/pipeline/pipeline_run.ml.  Grammar: harness/cmd/speaker/main.go. *)

let split c s = if s = "" then [] else String.split_on_char c s
let ni s = n_of_int (int_of_string s)
let si x = string_of_int (int_of_n x)
let s01 b = if b then "1" else "0"
let bool01 s = (s = "1")
let nlist s = List.map ni (split '.' s)
let optlist s = match s with "n" -> None | "e" -> Some [] | _ -> Some (nlist s)
let sopt f o = match o with None -> "n" | Some [] -> "e" | Some l -> String.concat "." (List.map f l)
let join_or_dash sep = function [] -> "-" | l -> String.concat sep l

(* ---- route.Path tokens (harness/aro/aro.go) *)
let parse_path (t : string) : path =
  match String.split_on_char '/' t with
  | ["s"; "-"] -> PStatic None
  | ["s"; nh] -> PStatic (Some (ni nh))
  | ["b"; nh; src; lp; med; bgpid; oid; agg; ebgp; atomic; origin; otc; asp; aslen; cl; comms; lcomms; unk; pid; redist] ->
    let agg = (match agg with "-" -> None | a -> (match split '.' a with [x; y] -> Some (ni x, ni y) | _ -> failwith ("bad agg " ^ a))) in
    let asp = (match asp with
      | "e" -> []
      | a -> List.map (fun sg ->
          let k = sg.[0] and rest = String.sub sg 1 (String.length sg - 1) in
          ((k = 'q'), nlist rest)) (String.split_on_char '_' a)) in
    let lcomms = (match lcomms with
      | "n" -> None | "e" -> Some []
      | l -> Some (List.map (fun it -> match split ':' it with
          | [a; b; c] -> ((ni a, ni b), ni c) | _ -> failwith ("bad lcomm " ^ it)) (split '.' l))) in
    let unk = (match unk with
      | "e" -> []
      | l -> List.map (fun it -> match String.split_on_char ':' it with
          | [f; c; v] -> { u_flags = ni f; u_code = ni c; u_val = nlist v }
          | _ -> failwith ("bad unk " ^ it)) (String.split_on_char '_' l)) in
    PBgp (ni redist,
      { b_nh = ni nh; b_src = ni src; b_lp = ni lp; b_med = ni med; b_bgpid = ni bgpid; b_oid = ni oid;
        b_agg = agg; b_ebgp = bool01 ebgp; b_atomic = bool01 atomic; b_origin = ni origin; b_otc = ni otc;
        b_aspath = asp; b_aslen = ni aslen; b_cl = optlist cl; b_comms = optlist comms; b_lcomms = lcomms;
        b_unk = unk; b_pid = ni pid })
  | _ -> failwith ("bad path token " ^ t)

let print_path (p : path) : string =
  match p with
  | PStatic None -> "s/-"
  | PStatic (Some nh) -> "s/" ^ si nh
  | PBgp (r, b) ->
    let agg = (match b.b_agg with None -> "-" | Some (x, y) -> si x ^ "." ^ si y) in
    let asp = (match b.b_aspath with
      | [] -> "e"
      | l -> String.concat "_" (List.map (fun (q, asns) ->
          (if q then "q" else "s") ^ String.concat "." (List.map si asns)) l)) in
    let lc = (match b.b_lcomms with
      | None -> "n" | Some [] -> "e"
      | Some l -> String.concat "." (List.map (fun ((a, b), c) -> si a ^ ":" ^ si b ^ ":" ^ si c) l)) in
    let un = (match b.b_unk with
      | [] -> "e"
      | l -> String.concat "_" (List.map (fun u ->
          si u.u_flags ^ ":" ^ si u.u_code ^ ":" ^ String.concat "." (List.map si u.u_val)) l)) in
    String.concat "/" ["b"; si b.b_nh; si b.b_src; si b.b_lp; si b.b_med; si b.b_bgpid; si b.b_oid; agg;
      s01 b.b_ebgp; s01 b.b_atomic; si b.b_origin; si b.b_otc; asp; si b.b_aslen;
      sopt si b.b_cl; sopt si b.b_comms; lc; un; si b.b_pid; si r]

let parse_action (a : string) : action =
  let after k = String.sub a k (String.length a - k) in
  let starts p = String.length a >= String.length p && String.sub a 0 (String.length p) = p in
  if a = "acc" then AAccept
  else if a = "rej" then AReject
  else if starts "lp" then ASetLP (ni (after 2))
  else if starts "med" then ASetMED (ni (after 3))
  else if starts "nh" then ASetNH (ni (after 2))
  else if starts "pp" then
    (match String.split_on_char 'x' (after 2) with
     | [asn; t] -> APrepend (ni asn, ni t)
     | _ -> failwith ("bad prepend " ^ a))
  else failwith ("bad action " ^ a)

let parse_chain (s : string) : chain =
  if s = "0" then [] else
  List.map (fun fs ->
    List.map (fun ts ->
      match String.index_opt ts '>' with
      | None -> failwith ("bad term " ^ ts)
      | Some i ->
        let cs = String.sub ts 0 i and acts = String.sub ts (i + 1) (String.length ts - i - 1) in
        let from = if cs = "-" then [] else
            List.map (fun c -> if c = "*" then [] else nlist c) (String.split_on_char '&' cs) in
        { t_from = from; t_then = List.map parse_action (split ',' acts) })
      (String.split_on_char '^' fs))
    (String.split_on_char '~' s)

(* the prefixes of the stream (harness/cmd/speaker: pfxTab) and the RIB models' prefix id = address * 64 + length *)
let pfx_tab = [| (4, 30); (8, 30); (8, 31); (1, 32) |]
let id_of_idx (i : int) : int = if i < Array.length pfx_tab then (let (a, l) = pfx_tab.(i) in a * 64 + l) else i - 1000
let idx_of_id (id : int) : int =
  let r = ref (1000 + id) in
  Array.iteri (fun i (a, l) -> if a * 64 + l = id then r := i) pfx_tab; !r
let pidx (p : n) : int = idx_of_id (int_of_n p)
let spi (p : n) : string = string_of_int (pidx p)

let hex_of (l : n list) : string = String.concat "" (List.map (fun b -> Printf.sprintf "%02x" (int_of_n b)) l)
let bytes_of_hex (s : string) : n list =
  List.init (String.length s / 2) (fun i -> n_of_int (int_of_string ("0x" ^ String.sub s (2 * i) 2)))
(* the attribute section of an UPDATE frame *)
let attr_section (b : n list) : n list =
  let a = Array.of_list (List.map int_of_n b) in
  let wl = a.(19) * 256 + a.(20) in
  let al = a.(21 + wl) * 256 + a.(22 + wl) in
  List.map n_of_int (Array.to_list (Array.sub a (23 + wl) al))

let role_code = function "prov" -> 0 | "rs" -> 1 | "rsc" -> 2 | "cust" -> 3 | "peer" -> 4 | _ -> 0

let print_table (t : (n * path) list) : string =
  let pfxs = List.sort_uniq compare (List.map (fun (k, _) -> pidx k) t) in
  join_or_dash ";" (List.map (fun k ->
    string_of_int k ^ "=" ^ String.concat "," (List.map print_path (tbl_get (n_of_int (id_of_idx k)) t))) pfxs)

let dots f l = String.concat "." (List.map f l)

let print_wattr = function
  | WAsPath [] -> "2=e"
  | WAsPath l -> "2=" ^ String.concat "_" (List.map (fun (q, asns) -> (if q then "q" else "s") ^ dots si asns) l)
  | WOrigin o -> "1=" ^ si o
  | WNextHop n -> "3=" ^ si n
  | WMed m -> "4=" ^ si m
  | WAtomic -> "6"
  | WAggregator (a, b) -> "7=" ^ si a ^ "." ^ si b
  | WLocalPref l -> "5=" ^ si l
  | WOriginator o -> "9=" ^ si o
  | WClusterList l -> "10=" ^ dots si l
  | WComms l -> "8=" ^ dots si l
  | WLComms l -> "32=" ^ dots (fun ((a, b), c) -> si a ^ ":" ^ si b ^ ":" ^ si c) l
  | WUnknown u -> "u" ^ si u.u_code ^ ":" ^ dots si u.u_val

(* ---- configuration *)
type scfg_io = { kind : string; maxp : int; aprx : bool; cfg : sp_spcfg; ses : sess; chn : chain }

let parse_session (k : int) (t : string) : scfg_io =
  match String.split_on_char ':' t with
  | "K" :: kind :: mp :: role :: aprx :: pol :: rest ->
    let chain_tok = String.concat ":" rest in
    let mp = int_of_string mp in
    let ibgp = (kind = "ibgp" || kind = "rr") in
    let (code, arg) = (match String.split_on_char '.' pol with [c; a] -> (ni c, ni a) | _ -> failwith ("bad policy " ^ pol)) in
    let ip = n_of_int (0x0a0a0a01 + k) and bgpid = n_of_int (0x0b0b0b10 - k) in
    let peer_asn = if ibgp then 65000 else 65101 + k in
    let sa = pl_sattrs ibgp (aprx = "1") (n_of_int 0x01010101) (n_of_int peer_asn) (n_of_int 100)
               (role <> "-") (role <> "-") (n_of_int (role_code role)) in
    let ses = { s_ibgp = ibgp; s_rsclient = (kind = "rs"); s_rrclient = (kind = "rr"); s_addpath = (mp > 0);
                s_localasn = n_of_int 65000; s_localip = n_of_int 0x01010101; s_peerip = ip; s_clusterid = n_of_int 9;
                s_role_on = (role <> "-"); s_role = n_of_int (role_code role) } in
    let chn = parse_chain chain_tok in
    let cid = if kind = "rr" then Some (n_of_int 9) else None in
    { kind; maxp = mp; aprx = (aprx = "1"); ses; chn;
      cfg = sp_cfg (pl_cfg sa (pl_policy code arg) ip bgpid (n_of_int 65000) cid ses (pl_opts (mp = 0) false (nat_of_int mp)) chn)
              (aprx = "1") true (mp > 0) }
  | _ -> failwith ("bad session token " ^ t)

let parse_inlist (s : string) : n list =
  if s = "_" || s = "" then [] else List.map ni (String.split_on_char '-' s)
let fmt_inlist (l : n list) : string =
  if l = [] then "_" else String.concat "-" (List.map si l)

let parse_attrs (a : string) =
  match String.split_on_char '.' a with
  | [id; lp; md; nh; asp; orig; cl; ot] ->
    pl_inpath (ni id) (ni lp) (ni md) (ni nh) (parse_inlist asp) (ni orig) (parse_inlist cl) (ni ot)
  | _ -> failwith ("bad attrs " ^ a)

let inpath_str q : string =
  let (((id, lp), md), nh), ((asp, orig), cl), (otc, hid) =
    (match pl_inpath_fields q with ((a, b), c) -> (a, b, c)) in
  Printf.sprintf "%s.%s.%s.%s.%s.%s.%s.%s.%s" (si id) (si lp) (si md) (si nh) (fmt_inlist asp) (si orig) (fmt_inlist cl) (si otc) (si hid)

exception Mismatch of string

(* Path identifiers up to renaming.  AdjRIBIn.Unregister withdraws the session's paths in the order of its trie, the
   component model (Model/AdjRIBIn.v, C05) in insertion order; on an add-path session the NUMBERS of the identifiers
   allocated for the replacement paths of different prefixes then differ although the same paths are announced.  After
   a session-down event that touched several prefixes a session observation that differs is compared once more with
   the identifiers masked (and the lists they order re-sorted); if that agrees the rest of the case is compared masked. *)
let mask_obs (o : string) : string =
  let mask_path t =
    let f = String.split_on_char '/' t in
    if List.length f = 20 && List.hd f = "b" then String.concat "/" (List.mapi (fun i x -> if i = 18 then "*" else x) f) else t in
  let after_bang s = match String.index_opt s '!' with Some i -> String.sub s i (String.length s - i) | None -> s in
  let items c s = if s = "-" || s = "?" then [] else String.split_on_char c s in
  let back c s l = if s = "-" || s = "?" then s else String.concat (String.make 1 c) l in
  match String.split_on_char '~' o with
  | [u; i; t; p; w; v] ->
    let t' = back ';' t (List.map (fun e -> match String.index_opt e '=' with
        | Some k -> String.sub e 0 (k + 1) ^ String.concat "," (List.map mask_path (String.split_on_char ',' (String.sub e (k + 1) (String.length e - k - 1))))
        | None -> e) (items ';' t)) in
    let p' = back ',' p (List.sort compare (List.map (fun e -> "*" ^ after_bang e) (items ',' p))) in
    let w' = back ',' w (List.sort compare (List.map (fun e ->
        if e <> "" && e.[0] = 'A' then "A*" ^ after_bang e
        else if e <> "" && e.[0] = 'W' then (let x = "W*" ^ after_bang e in match String.index_opt x '#' with Some k -> String.sub x 0 k | None -> x)
        else e) (items ',' w))) in
    let v' = back ',' v (List.sort compare (List.map (fun e -> match String.index_opt e '/' with
        | Some k -> String.sub e 0 (k + 1) ^ "*" ^ after_bang e
        | None -> e) (items ',' v))) in
    String.concat "~" [u; i; t'; p'; w'; v']
  | _ -> o

(* ---- one case *)
let run_case (id : string) (inp : string list) (obs : string list) : string option * bool =
  let ktoks = List.filter (fun t -> String.length t > 2 && String.sub t 0 2 = "K:") inp in
  let etoks = List.filter (fun t -> not (String.length t > 2 && String.sub t 0 2 = "K:")) inp in
  let ios = Array.of_list (List.mapi parse_session ktoks) in
  let cfgs = Array.to_list (Array.map (fun io -> io.cfg) ios) in
  let nsess = Array.length ios in
  (* sha256 = identity on the hashed tuple *)
  let tags : (hkey, int) Hashtbl.t = Hashtbl.create 64 in
  let tagb : (int, bgp) Hashtbl.t = Hashtbl.create 64 in
  let tagf (b : bgp) : n =
    (* BGPPath.ComputeHashWithPathID: the tuple of ComputeHash without OnlyToCustomer (the path id is the other half of the key) *)
    let k = hkey_of { b with b_otc = N0 } in
    match Hashtbl.find_opt tags k with
    | Some t -> n_of_int t
    | None -> let t = Hashtbl.length tags + 1 in Hashtbl.add tags k t; Hashtbl.add tagb t b; n_of_int t in
  let attrs_of (k : int) (tag : n) : string =
    match Hashtbl.find_opt tagb (int_of_n tag) with
    | None -> "?tag" ^ si tag
    | Some b -> String.concat ";" (List.sort compare (List.map print_wattr (sess_wire ios.(k).ses b))) in
  (* Route.PathSelection: the implementation's answer.  The records of the current event are consumed in order;
     a call is answered by the first unconsumed record that is a permutation of what the model has stored
     (within one event the implementation may visit prefixes in another order: Unregister walks its trie) *)
  let lrecs : (int * int * path list * bool ref) list ref = ref [] in
  let selbad = ref None in
  let permute (l : (nat * path) list) (order : path list) : (nat * path) list option =
    let rest = ref l and out = ref [] and ok = ref true in
    List.iter (fun v ->
      let rec take acc = function
        | [] -> None
        | ((_, x) as e) :: r -> if x = v then Some (e, List.rev_append acc r) else take (e :: acc) r in
      match take [] !rest with
      | Some (e, r) -> out := e :: !out; rest := r
      | None -> ok := false) order;
    if !ok && !rest = [] then Some (List.rev !out) else None in
  let sel (t : nat) (l : (nat * path) list) : (nat * path) list * nat =
    let rec find = function
      | [] -> None
      | (_, ecmp, order, used) :: r ->
        if !used then find r else
        (match permute l order with
         | Some o -> used := true; Some (o, ecmp)
         | None -> find r) in
    match find !lrecs with
    | Some (o, ecmp) -> (o, nat_of_int (min ecmp (List.length l)))
    | None ->
      if !selbad = None then
        selbad := Some (Printf.sprintf "Loc-RIB operation %d: the model holds {%s}; no route the implementation reported during this event is a permutation of it"
                          (int_of_nat t) (String.concat "," (List.map (fun (_, x) -> print_path x) l)));
      (l, nat_of_int (List.length l)) in
  let st = ref (sp_init cfgs) in
  let wcount = Array.make nsess 0 in
  let step ev = st := sp_step sel tagf cfgs !st ev in
  let sess k = List.nth (pl_sessions (sp_pipeline !st)) k in
  (* pending entries of session k in canonical order: (tag, pid, prefixes, attrs) *)
  let pending k =
    (* the prefixes of an entry are a set: the order they were queued in follows the caller's iteration order *)
    let l = List.map (fun ((tag, pid), pfxs) -> (int_of_n pid, attrs_of k tag, tag, pid, List.sort compare (List.map pidx pfxs))) (pl_pending (sess k)) in
    let ps l = "[" ^ String.concat " " (List.map string_of_int l) ^ "]" in
    List.sort (fun (p1, a1, _, _, x1) (p2, a2, _, _, x2) -> compare (a1, ps x1, p1) (a2, ps x2, p2)) l in
  let emit_all k = while pl_inflight (sess k) do step (sp_emit (nat_of_int k)) done in
  let drain k =
    emit_all k;
    let continue = ref true in
    while !continue do
      match pending k with
      | [] -> continue := false
      | (_, _, tag, pid, _) :: _ ->
        let before = List.length (pl_pending (sess k)) in
        step (sp_dequeue_key (nat_of_int k) tag pid);
        emit_all k;
        if List.length (pl_pending (sess k)) >= before then continue := false
    done in
  (* one message of the wire log with the bytes the model writes for it; flatten: one token per announced prefix *)
  let render_msg k (flatten : bool) (((((kind, tag), pid), pfxs) : ((n * n) * n) * n list), (bs : n list option)) : string list =
    match int_of_n kind, bs with
    | _, None -> ["NOT-ENCODABLE"]
    | 0, Some b ->
      let hx = hex_of (attr_section b) in
      let ps = List.sort compare (List.map spi pfxs) in
      if flatten then List.map (fun p -> Printf.sprintf "A%s!%s!%s#%s" (si pid) p (attrs_of k tag) hx) ps
      else [Printf.sprintf "A%s!%s!%s#%s" (si pid) (String.concat "." ps) (attrs_of k tag) hx]
    | 1, Some b -> [Printf.sprintf "W%s!%s#%s" (si pid) (String.concat "." (List.map spi pfxs)) (hex_of b)]
    | _, Some b -> ["E#" ^ hex_of b] in
  let session_obs (k : int) (is_up_event : bool) (flatten : bool) : string * string list =
    let s = sess k in
    let intab = join_or_dash "," (List.sort compare (List.map (fun (p, q) -> spi p ^ "/" ^ inpath_str q) (pl_in_tab s))) in
    let wire = pl_wire s in
    let total = List.length wire in
    if total < wcount.(k) then wcount.(k) <- 0;
    let rec drop n l = if n <= 0 then l else match l with [] -> [] | _ :: r -> drop (n - 1) r in
    let outb = sp_output tagf ios.(k).cfg s in
    if List.length outb <> total then raise (Mismatch "driver: output and wire log differ in length");
    let fresh = List.concat_map (render_msg k flatten) (drop wcount.(k) (List.combine wire outb)) in
    wcount.(k) <- total;
    let fresh = if is_up_event then
        (* the flush of EndOfRIB visits the queue in map order *)
        List.sort compare fresh else fresh in
    if not (pl_is_up s) then (Printf.sprintf "u0~%s~-~-~%s~?" intab (join_or_dash "," fresh), [])
    else begin
      let pend = join_or_dash "," (List.map (fun (pid, a, _, _, pfxs) ->
        Printf.sprintf "%d!%s!%s" pid (String.concat "." (List.map string_of_int pfxs)) a) (pending k)) in
      let view, extra =
        if pl_drained s then begin
          let keys = List.sort_uniq compare (List.concat_map (fun (((kind, _), pid), pfxs) ->
            if int_of_n kind = 0 then List.map (fun p -> (pidx p, int_of_n pid)) pfxs else []) wire) in
          let ents = List.filter_map (fun (p, pid) ->
            match pl_peer_view s (n_of_int (id_of_idx p)) (n_of_int pid) with
            | Some tag -> Some (Printf.sprintf "%d/%d!%s" p pid (attrs_of k tag))
            | None -> None) keys in
          (join_or_dash "," (List.sort compare ents), [])
        end else ("?", []) in
      (Printf.sprintf "u1~%s~%s~%s~%s~%s" intab (print_table (pl_out_tab s)) pend (join_or_dash "," fresh) view, extra)
    end in
  let normalize_impl_session (o : string) (is_up_event : bool) : string =
    if not is_up_event then o else
    match String.split_on_char '~' o with
    | [u; i; t; p; w; v] ->
      let w' = if w = "-" then w else String.concat "," (List.sort compare (String.split_on_char ',' w)) in
      String.concat "~" [u; i; t; p; w'; v]
    | _ -> o in
  let result = ref None in
  let masked = ref false in
  (try
    List.iteri (fun i tok ->
      let o = (try List.nth obs i with _ -> raise (Mismatch (Printf.sprintf "event %d (%s): observation missing" i tok))) in
      let parts = String.split_on_char '|' o in
      (match parts with
       | lrec :: sobs when List.length sobs = nsess ->
         lrecs := [];
         let touched = ref [] in
         if lrec <> "-" then
           List.iter (fun r ->
             match String.split_on_char ':' r with
             | t :: pfx :: ecmp :: rest ->
               let ps = String.concat ":" rest in
               let paths = if ps = "-" then [] else List.map parse_path (String.split_on_char ',' ps) in
               ignore t;
               lrecs := !lrecs @ [(int_of_string pfx, int_of_string ecmp, paths, ref false)];
               touched := (int_of_string pfx, int_of_string ecmp, paths) :: List.filter (fun (p, _, _) -> p <> int_of_string pfx) !touched
             | _ -> failwith ("bad Loc-RIB record " ^ r)) (String.split_on_char ';' lrec);
         (* the event *)
         let kind = tok.[0] in
         let f = String.split_on_char ':' (String.sub tok 1 (String.length tok - 1)) in
         let k = int_of_string (List.hd f) in
         let kn = nat_of_int k in
         let was_up = (k < nsess && pl_is_up (sess k)) in
         (match kind, f with
          | 'U', _ -> step (sp_up kn); if not was_up then wcount.(k) <- 0
          | 'D', _ -> step (sp_down kn)
          | 'R', [_; h] ->
            let b = bytes_of_hex h in
            if not (sp_frame_ok b) then failwith "R: not a frame";
            step (sp_recv kn b)
          | 'E', _ -> step (sp_emit kn)
          | 'X', _ -> if pl_is_up (sess k) then drain k
          | 'Q', [_; p; j] ->
            if pl_is_up (sess k) then begin
              let cand = List.filter (fun (_, _, _, _, pfxs) -> List.mem (int_of_string p) pfxs) (pending k) in
              (match List.nth_opt cand (int_of_string j) with
               | Some (_, _, tag, pid, _) -> step (sp_dequeue_key kn tag pid)
               | None -> ())
            end
          | _ -> failwith ("bad event " ^ tok));
         (match !selbad with Some m -> raise (Mismatch (Printf.sprintf "event %d (%s): %s" i tok m)) | None -> ());
         if sp_crashed !st then raise (Mismatch (Printf.sprintf "event %d (%s): the model's decoder panics or runs out of fuel" i tok));
         let went_down = was_up && not (pl_is_up (sess k)) in
         if pl_panicked (sp_pipeline !st) then raise (Mismatch (Printf.sprintf "event %d (%s): the model's Loc-RIB panics, the implementation did not" i tok));
         (* the Loc-RIB routes touched *)
         List.iter (fun (p, ecmp, paths) ->
           let (mp, me) = pl_candidates (sp_pipeline !st) (n_of_int (id_of_idx p)) in
           let ms = join_or_dash "," (List.map print_path mp) and is = join_or_dash "," (List.map print_path paths) in
           if ms <> is || int_of_nat me <> ecmp then
             raise (Mismatch (Printf.sprintf "event %d (%s): Loc-RIB prefix %d model=%s/%d impl=%s/%d" i tok p ms (int_of_nat me) is ecmp))) !touched;
         (* every session *)
         List.iteri (fun j io ->
           (* EndOfRIB flushes in map order, Unregister withdraws in trie order: the messages of such an event are compared as a multiset *)
           let unordered = (kind = 'U' && j = k) || kind = 'D' || went_down in
           let (mo, _) = session_obs j unordered (kind = 'U' && j = k) in
           let io' = normalize_impl_session io unordered in
           let (mo, io') =
             if !masked then (mask_obs mo, mask_obs io')
             else if mo <> io' && (kind = 'D' || went_down) && List.length !touched >= 2 && mask_obs mo = mask_obs io' then
               (masked := true; (mask_obs mo, mask_obs io'))
             else (mo, io') in
           if mo <> io' then begin
             let mf = String.split_on_char '~' mo and imf = String.split_on_char '~' io' in
             let names = ["up"; "adj-rib-in"; "adj-rib-out"; "pending"; "wire"; "peer-view"] in
             let rec first ns a b = match ns, a, b with
               | nm :: ns', x :: a', y :: b' -> if x <> y then Printf.sprintf "%s model=%s impl=%s" nm x y else first ns' a' b'
               | _ -> Printf.sprintf "model=%s impl=%s" mo io' in
             raise (Mismatch (Printf.sprintf "event %d (%s): session %d %s" i tok j (first names mf imf)))
           end;
           (* link used by Pipeline_ribout_is_export_of_selection: the Adj-RIB-Out is Model.LocView.feed over the view history *)
           let s = sess j in
           if pl_is_up s then begin
             let ft = pl_feed_tbl ios.(j).ses ios.(j).chn (pl_hist s) in
             if print_table ft <> print_table (pl_out_tab s) then
               raise (Mismatch (Printf.sprintf "event %d (%s): session %d Adj-RIB-Out %s is not feed(view history) %s" i tok j
                                  (print_table (pl_out_tab s)) (print_table ft)))
           end) sobs
       | _ -> raise (Mismatch (Printf.sprintf "event %d (%s): unparsable observation" i tok)))) etoks
  with
  | Mismatch m -> result := Some m
  | Failure m | Invalid_argument m -> result := Some ("driver cannot parse: " ^ m)
  | Not_found -> result := Some "driver: Not_found");
  ignore id; (!result, !masked)

let () =
  let compared = ref 0 and mism = ref 0 and nmasked = ref 0 in
  iter_trace Sys.argv.(1) (fun id inp obs ->
    incr compared;
    match obs with
    | ["PANIC"] | ["HANG"] ->
      incr mism; Printf.printf "CORR-MISMATCH case=%s impl %s, model does not\n" id (List.hd obs)
    | _ ->
      (match run_case id inp obs with
       | (None, m) -> if m then incr nmasked
       | (Some m, _) -> incr mism; Printf.printf "CORR-MISMATCH case=%s %s\n" id m));
  Printf.printf "STATS compared=%d mismatches=%d path_ids_up_to_renaming=%d\n" !compared !mism !nmasked
