(* C24 modelrun: replay each case through the extracted model (Model.Collision.step) and print the same
   observation tokens the Go harness derives from the implementation; the first differing token is a
   correspondence mismatch. The extracted reference machine (Spec.CollisionSpec.spec_step) is evaluated next to
   it: on schedules of the guarded class the model must agree with it (what the Coq theorems say), which is
   re-checked here on every replayed case as a sanity check of the extraction. *)
let idx_of_char c = (c = '1')

let parse_cfg (t : string) : cfg =
  match String.split_on_char '/' (String.sub t 4 (String.length t - 4)) with
  | [a; b; c] -> { rid = n_of_int (int_of_string a); las = n_of_int (int_of_string b); pas = n_of_int (int_of_string c) }
  | _ -> failwith ("bad cfg " ^ t)

let parse_label (t : string) : label =
  match t.[0] with
  | 'U' -> LUp
  | 'A' -> LAccept
  | 'O' ->
    (match String.split_on_char ':' (String.sub t 1 (String.length t - 1)) with
     | [i; id] -> LOpen (idx_of_char i.[0], n_of_int (int_of_string id))
     | _ -> failwith ("bad label " ^ t))
  | 'P' -> LPublish (idx_of_char t.[1])
  | 'K' -> LKeep (idx_of_char t.[1])
  | 'T' -> LTake (idx_of_char t.[1])
  | 'H' -> LHandle (idx_of_char t.[1])
  | _ -> failwith ("bad label " ^ t)

let letter = function
  | Absent -> "-" | Idle -> "I" | Connect -> "C" | Active -> "A"
  | OpenSent -> "S" | OpenConfirm -> "F" | Established -> "E"

let msg_name = function
  | MOpen -> "O" | MKeepalive -> "K"
  | MNotif (c, s) -> Printf.sprintf "N%d/%d" (int_of_n c) (int_of_n s)

let fsm_token (p : peer) (i : bool) : string =
  let f = get p i in
  if f.pub = Absent then "-" else
  let w = match List.rev_map msg_name f.wire with [] -> "-" | l -> String.concat "." l in
  Printf.sprintf "%s%s%s%s%s%s%s%s#%d:%s"
    (letter f.pub) (if f.alive then "+" else "x")
    (match f.pend with None -> "-" | Some s -> letter s)
    (if f.attached then "a" else "n") (if f.closed then "c" else "o")
    (if f.waiting then "w" else ".") (if held p i then "h" else ".") (if f.ceasing then "z" else ".")
    (int_of_n f.nid) w

let all_labels = [ ("U", LUp); ("A", LAccept); ("O0", LOpen (false, n_of_int 1)); ("O1", LOpen (true, n_of_int 1));
                   ("P0", LPublish false); ("P1", LPublish true); ("K0", LKeep false); ("K1", LKeep true);
                   ("T0", LTake false); ("T1", LTake true); ("H0", LHandle false); ("H1", LHandle true) ]

let token (p : peer) : string =
  let en = List.filter_map (fun (n, l) -> match step p l with Some _ -> Some n | None -> None) all_labels in
  Printf.sprintf "%s|%s|r%d|%s" (fsm_token p false) (fsm_token p true) (int_of_n (rib_clients p))
    (if en = [] then "-" else String.concat "." en)

let probe_token (p : peer) : string =
  let l = List.filter (fun i -> probe_ok (get p i)) [false; true] in
  "probe=" ^ (if l = [] then "-" else String.concat "." (List.map (fun i -> if i then "1" else "0") l))

let () =
  let compared = ref 0 and mism = ref 0 in
  iter_trace Sys.argv.(1) (fun id inp obs ->
    if obs = ["PANIC"] then
      (incr mism; Printf.printf "CORR-MISMATCH case=%s impl panicked, model does not\n" id)
    else begin
      match inp with
      | [] -> ()
      | c :: ls ->
        let c = parse_cfg c in
        let p = ref (init c) in
        let toks = ref [token !p] in
        List.iter (fun t ->
          match step !p (parse_label t) with
          | Some p' -> p := p'; toks := token p' :: !toks
          | None -> toks := "!" :: !toks) ls;
        toks := probe_token !p :: !toks;
        let mo = List.rev !toks in
        incr compared;
        let rec first i a b = match a, b with
          | [], [] -> None
          | x :: a', y :: b' -> if x = y then first (i + 1) a' b' else Some (i, x, y)
          | x :: _, [] -> Some (i, x, "<missing>")
          | [], y :: _ -> Some (i, "<missing>", y) in
        match first 0 mo obs with
        | None -> ()
        | Some (i, m, o) ->
          incr mism;
          Printf.printf "CORR-MISMATCH case=%s token=%d model=%s impl=%s\n" id i m o
    end);
  Printf.printf "STATS compared=%d mismatches=%d\n" !compared !mism
