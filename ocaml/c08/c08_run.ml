(* C08 modelrun: (1) the calls the Loc-RIB made on a client are the ones Model.LocView.change_ops derives
   from the view before and after the op (the Loc-RIB abstraction is what the code does); (2) replaying
   them through Model.AdjRIBOut.step reproduces the Adj-RIB-Out's client calls, table and route count.
   Grammar: harness/cmd/c08/main.go. *)
let print_op = function
  | OAdd (pf, p) -> "+" ^ si pf ^ "=" ^ print_path p
  | ORemove (pf, p) -> "-" ^ si pf ^ "=" ^ print_path p
  | OReplace _ -> "x"

let () =
  let compared = ref 0 and mism = ref 0 in
  iter_trace Sys.argv.(1) (fun id inp obs ->
    incr compared;
    match obs with
    | ["PANIC"] | ["HANG"] ->
      incr mism; Printf.printf "CORR-MISMATCH case=%s impl %s, model does not\n" id (List.hd obs)
    | _ ->
      (match inp with
       | st :: ct :: ops ->
         (try
           let (s, _) = parse_sess st in
           let c0 = parse_chain (String.sub ct 1 (String.length ct - 1)) in
           let a = ref (init c0) and v = ref [] in
           let bad = ref None in
           List.iteri (fun i optok ->
             if !bad = None then begin
               let o = (try List.nth obs i with _ -> "<missing>") in
               match split_obs o with
               | [stream; view; events; table; count] ->
                 let before = !a in
                 let body = String.sub optok 1 (String.length optok - 1) in
                 let (pf, _) = parse_pfx_path body in
                 let v' = parse_view view in
                 let newl = (match List.assoc_opt (int_of_n pf) (List.map (fun (k, l) -> (int_of_n k, l)) v') with Some l -> l | None -> []) in
                 let predicted = change_ops (view_get pf !v) newl pf in
                 let ps = join_or_dash "," (List.map print_op predicted) in
                 if ps <> stream then bad := Some (i, "stream " ^ ps, "stream " ^ stream)
                 else begin
                   v := view_set pf newl !v;
                   List.iter (fun o -> a := step interp s !a o) predicted;
                   let mo = String.concat "#" [new_events before !a; print_table !a.tbl; si (route_count !a)] in
                   let io = String.concat "#" [events; table; count] in
                   if mo <> io then bad := Some (i, mo, io)
                 end
               | _ -> bad := Some (i, "<unparsable observation>", o)
             end) ops;
           (match !bad with
            | None -> ()
            | Some (i, mo, io) ->
              incr mism;
              Printf.printf "CORR-MISMATCH case=%s after-op=%d model=%s impl=%s\n" id i mo io)
         with Failure m | Invalid_argument m ->
           incr mism; Printf.printf "CORR-MISMATCH case=%s driver cannot parse: %s\n" id m)
       | _ -> incr mism; Printf.printf "CORR-MISMATCH case=%s short input\n" id));
  Printf.printf "STATS compared=%d mismatches=%d\n" !compared !mism
