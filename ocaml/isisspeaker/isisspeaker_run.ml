(* isisspeaker modelrun: replay the byte-level inputs of harness/cmd/isisspeaker through the extracted
   Model/ISISSpeaker.step and compare state digest and the frames on the wire after every token. *)
let bytes_of_hex (s : string) : n list =
  List.init (String.length s / 2) (fun i -> n_of_int (int_of_string ("0x" ^ String.sub s (2 * i) 2)))
let hex_of_bytes (l : n list) : string =
  String.concat "" (List.map (fun b -> Printf.sprintf "%02x" (int_of_n b)) l)

let mac_a = n_of_int 1
let mac_b = n_of_int 0xdeadbeef1234
let mac_c = n_of_int 0xdeadbeef1235
let mac_name k = let i = int_of_n k in
  if i = 1 then "a" else if i = 0xdeadbeef1234 then "b" else if i = 0xdeadbeef1235 then "c" else "?"

let ip last = n_of_int ((169 lsl 24) lor (254 lsl 16) lor (100 lsl 8) lor last)
let sys_a = List.map n_of_int [12; 12; 12; 13; 13; 13]
let sys_b = List.map n_of_int [222; 173; 190; 239; 255; 1]

let mk label sys idx last h =
  init sys [n_of_int 0x49; n_of_int 0] [n_of_int 118; n_of_int (Char.code label)] (n_of_int 16) (n_of_int h)
    (n_of_int 10) [((n_of_int idx, ip last), n_of_int 31)]

let id_hex (k : lspid) : string =
  Printf.sprintf "%012x%02x%02x" (int_of_n k.sys) (int_of_n k.pn) (int_of_n k.num)

let ifs_str (l : nat list) : string =
  let d = List.sort compare (List.map int_of_nat l) in
  if d = [] then "-" else String.concat "" (List.map string_of_int d)

let state_str (s : spk) : string =
  let ns = List.concat_map (fun f -> List.map (fun (k, nb) ->
      Printf.sprintf "%s:%s:%d:%d" (mac_name k) (match nb.state with Up -> "U" | Init -> "I" | Down -> "D")
        (int_of_n nb.timeout) (int_of_n nb.changed)) f.if_nbrs) s.sp_ifs in
  let db = List.map (fun (k, e) ->
      Printf.sprintf "%s:%d:%d:S%s:N%s" (id_hex k) (int_of_n e.seq0) (int_of_n e.life) (ifs_str e.srm) (ifs_str e.ssn))
      s.sp_db.db in
  Printf.sprintf "n=%s;db=%s;c=%d" (String.concat "," (List.sort compare ns)) (String.concat "," (List.sort compare db))
    (int_of_n s.sp_db.counter)

let canon (frames : n list list) : string =
  let tbl = Hashtbl.create 7 in
  List.iter (fun w ->
    let ty = (try int_of_n (List.nth w 7) with _ -> 0) in
    let txt =
      if ty = 27 then
        (match decode w with
         | Ok { p_hdr = _; p_body = BPsnp p } ->
           let es = List.concat_map (fun t -> match t with TEntries (_, _, es) -> es | _ -> [])
               (List.filter (fun t -> int_of_n (tlv_type t) = 9) p.ps_tlvs) in
           let es = List.sort compare (List.map (fun e ->
               Printf.sprintf "%d.%s.%d.%d" (int_of_n e.le_life) (hex_of_bytes e.le_id) (int_of_n e.le_seq) (int_of_n e.le_csum)) es) in
           Printf.sprintf "P:%d:%s:%s" (int_of_n p.ps_len) (hex_of_bytes p.ps_src) (String.concat "+" es)
         | _ -> hex_of_bytes w)
      else hex_of_bytes w in
    Hashtbl.replace tbl ty (txt :: (try Hashtbl.find tbl ty with Not_found -> []))) frames;
  let out = List.concat_map (fun ty ->
      let g = (try Hashtbl.find tbl ty with Not_found -> []) in
      Hashtbl.remove tbl ty; List.sort compare g) [20; 27; 17; 25] in
  let rest = Hashtbl.fold (fun ty g acc -> List.map (fun x -> Printf.sprintf "?%d:%s" ty x) g @ acc) tbl [] in
  let out = out @ rest in
  if out = [] then "-" else String.concat "," out

let frames_of (o : out list) : n list list = List.map snd o

let () =
  let compared = ref 0 and mism = ref 0 in
  iter_trace Sys.argv.(1) (fun id inp obsv ->
    let args = Hashtbl.create 7 and toks = ref [] and extra = Hashtbl.create 3 in
    List.iter (fun t ->
      match String.index_opt t '=' with
      | Some i when i < 5 && not (String.length t > 1 && t.[1] = ':') ->
        let k = String.sub t 0 i and v = String.sub t (i + 1) (String.length t - i - 1) in
        if k = "x" then
          (match String.split_on_char ':' v with
           | [sec; hx] -> Hashtbl.replace extra (int_of_string sec) (bytes_of_hex hx)
           | _ -> ())
        else Hashtbl.replace args k v
      | _ -> toks := !toks @ [t]) inp;
    let h = int_of_string (Hashtbl.find args "h") in
    let mo =
      if Hashtbl.find args "mode" = "single" then begin
        let s = ref (mk 'A' sys_a 7 0 h) in
        List.map (fun t ->
          let (s', o) =
            match t.[0] with
            | 'U' -> step0 !s (LinkUp O)
            | 'D' -> step0 !s (LinkDown O)
            | 'T' -> step0 !s Tick0
            | 'F' -> step0 !s (RecvPDU (O, mac_b, bytes_of_hex (String.sub t 2 (String.length t - 2))))
            | 'G' -> step0 !s (RecvPDU (O, mac_c, bytes_of_hex (String.sub t 2 (String.length t - 2))))
            | _ -> failwith ("bad token " ^ t) in
          s := s';
          state_str s' ^ "|" ^ canon (frames_of o)) !toks
      end else begin
        let k = int_of_string (Hashtbl.find args "k") in
        let a = ref (fst (step0 (mk 'A' sys_a 7 0 h) (LinkUp O))) in
        let b = ref (fst (step0 (mk 'B' sys_b 100 1 h) (LinkUp O))) in
        List.init k (fun i ->
          let sec = i + 1 in
          let (a1, fa) = step0 !a Tick0 in
          let (b1, fb) = step0 !b Tick0 in
          let b2 = List.fold_left (fun st f -> fst (step0 st (RecvPDU (O, mac_a, f)))) b1 (frames_of fa) in
          let a2 = List.fold_left (fun st f -> fst (step0 st (RecvPDU (O, mac_b, f)))) a1 (frames_of fb) in
          let a3 = (match Hashtbl.find_opt extra sec with
              | Some x -> fst (step0 a2 (RecvPDU (O, mac_b, x)))
              | None -> a2) in
          a := a3; b := b2;
          Printf.sprintf "A{%s|%s}B{%s|%s}" (state_str a3) (canon (frames_of fa)) (state_str b2) (canon (frames_of fb)))
      end in
    incr compared;
    let rec cmp k m i =
      match m, i with
      | _, [] -> ()          (* the implementation side stopped early (blocked / abnormal): reported by the harness *)
      | x :: m', y :: i' when x = y -> cmp (k + 1) m' i'
      | x :: _, y :: _ ->
        incr mism;
        Printf.printf "CORR-MISMATCH case=%s step=%d model=%s impl=%s\n" id k x y
      | [], y :: _ -> incr mism; Printf.printf "CORR-MISMATCH case=%s step=%d model=<nothing> impl=%s\n" id k y in
    if obsv <> ["blocked"] then cmp 0 mo obsv);
  Printf.printf "STATS compared=%d mismatches=%d\n" !compared !mism
