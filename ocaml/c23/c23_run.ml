(* modelrun for C23 / C07 / C21 / C22: replays each case (session configs + events) through the
   extracted model (Model.FSM.sys_step) and compares the observation after every event with what the
   Go harness recorded from the real FSMs. Token formats: harness/fsmx/case.go and run.go. *)
let ios = int_of_string
let nn i = n_of_int i
let b01 b = if b then "1" else "0"

let parse_cfg (t : string) : cfg =
  let p = Array.of_list (String.split_on_char '/' (String.sub t 1 (String.length t - 1))) in
  if Array.length p <> 11 then failwith ("bad cfg " ^ t);
  let fams = p.(4) and ap = p.(5) in
  let rr = String.split_on_char '.' p.(8) in
  { c_las = nn (ios p.(0)); c_pas = nn (ios p.(1)); c_rid = nn (ios p.(2)); c_hold = nn (ios p.(3));
    c_v4 = String.contains fams '4'; c_v6 = String.contains fams '6';
    c_apr4 = ap.[0] = '1'; c_aps4 = ap.[1] = '1'; c_apr6 = ap.[2] = '1'; c_aps6 = ap.[3] = '1';
    c_mp4 = p.(6).[0] = '1'; c_nx4 = String.length p.(6) > 1 && p.(6).[1] = '1';
    c_role = nn (Char.code p.(7).[0] - 48); c_strict = p.(7).[1] = '1';
    c_rr = List.nth rr 0 = "1"; c_cluster = nn (ios (List.nth rr 1));
    c_imp = (match p.(9).[0] with 'A' -> ImpAccept | 'R' -> ImpRewrite | _ -> ImpReject);
    c_passive = p.(10) = "a" }

let parse_cap (t : string) : cap =
  let nums = List.map ios (String.split_on_char '.' (String.sub t 1 (String.length t - 1))) in
  match t.[0], nums with
  | 'a', [v] -> CapASN4 (nn v)
  | 'm', [a; s] -> CapMP (nn a, nn s)
  | 'p', [a; s; v] -> CapAddPath (nn a, nn s, nn v)
  | 'r', [v] -> CapRole (nn v)
  | 'x', [a; s; h] -> CapExtNH (nn a, nn s, nn h)
  | 'u', [v] -> CapUnknown (nn v)
  | _ -> failwith ("bad cap " ^ t)

let parse_ids (s : string) : n list =
  if s = "-" then [] else List.map (fun x -> nn (ios x)) (String.split_on_char '.' s)

let parse_msg (s : string) : msg =
  match String.split_on_char ',' s with
  | ["K"] -> MKeepalive
  | ["O"; v; a; h; i; caps] ->
    let expand t =
      if t.[0] = 'q' then
        List.map (fun tu -> parse_cap ("p" ^ tu)) (String.split_on_char '_' (String.sub t 1 (String.length t - 1)))
      else [parse_cap t] in
    let cs = if caps = "-" then [] else List.concat_map expand (String.split_on_char '+' caps) in
    MOpen { o_ver = nn (ios v); o_asn = nn (ios a); o_hold = nn (ios h); o_id = nn (ios i); o_caps = cs }
  | ["U"; a; w] -> MUpdate (parse_ids a, parse_ids w)
  | ["P"; r; k; v] -> MPoison (nn (ios r), k = "a", nn (ios v))
  | ["A"; r; _] -> MUpdate ([nn (ios r)], [])   (* an ordinary announcement carrying an extra optional attribute *)
  | ["N"; c; s] -> MNotification (nn (ios c), nn (ios s))
  | ["H"; mk; l; t; av] -> MHeader (mk = "1", nn (ios l), nn (ios t), nn (ios av))
  | ["T"; k] -> MTrunc (nn (ios k))
  | ["B"; _] -> MBadBody
  | _ -> failwith ("bad msg " ^ s)

let parse_event (t : string) : int * ev =
  let i = String.index t '.' in
  let sid = ios (String.sub t 0 i) in
  let r = String.sub t (i + 1) (String.length t - i - 1) in
  let e =
    if r = "up" then ETcpUp false
    else if r = "upx" then ETcpUp true
    else if r = "ka" then EKeepaliveTimer
    else if r = "cr" then EConnectRetry
    else if r = "brk" || r = "pc" then EBreak
    else if String.length r = 3 && String.sub r 0 2 = "ri" then
      EReplaceImport (match r.[2] with 'A' -> ImpAccept | 'R' -> ImpRewrite | _ -> ImpReject)
    else if String.length r = 3 && String.sub r 0 2 = "re" then EReplaceExport
    else if r = "hp0" then EHoldPoll false
    else if r = "hp1" then EHoldPoll true
    else if String.length r > 2 && String.sub r 0 2 = "m:" then EMsg (parse_msg (String.sub r 2 (String.length r - 2)))
    else if r.[0] = 'e' then EAdmin (nn (ios (String.sub r 1 (String.length r - 1))))
    else failwith ("bad event " ^ t) in
  (sid, e)

let cap_str = function
  | CapASN4 a -> Printf.sprintf "a%d" (int_of_n a)
  | CapMP (a, s) -> Printf.sprintf "m%d.%d" (int_of_n a) (int_of_n s)
  | CapAddPath (a, s, v) -> Printf.sprintf "p%d.%d.%d" (int_of_n a) (int_of_n s) (int_of_n v)
  | CapRole r -> Printf.sprintf "r%d" (int_of_n r)
  | CapExtNH (a, s, h) -> Printf.sprintf "x%d.%d.%d" (int_of_n a) (int_of_n s) (int_of_n h)
  | CapUnknown c -> Printf.sprintf "u%d" (int_of_n c)

let open_token (c : cfg) : string =
  let o = sent_open c in
  let caps = List.sort compare (List.map cap_str o.o_caps) in
  Printf.sprintf "O%d.%d.%d.%s" (int_of_n o.o_asn) (int_of_n o.o_hold) (int_of_n o.o_id)
    (if caps = [] then "-" else String.concat "+" caps)

let st_letter = function
  | Idle -> 'I' | Connect -> 'C' | Active -> 'A' | OpenSent -> 'S' | OpenConfirm -> 'F'
  | Established -> 'E' | Ceased -> 'Z'

let obs_token (y : sys) (sid : int) (outs : out list) : string =
  if List.mem Crash outs then "PANIC" else begin
    let (c, s) = List.nth y.y_sess sid in
    let fr = if List.mem ReadErr outs then "r" else "-" in
    let sent = List.filter_map (function
        | SentOpen -> Some (open_token c)
        | SentKeepalive -> Some "K"
        | SentNotification (a, b) -> Some (Printf.sprintf "N%d.%d" (int_of_n a) (int_of_n b))
        | _ -> None) outs in
    let ng = s.s_neg in
    let negs = Printf.sprintf "h%dk%dt%sa%sx%s%s%s%s%s%sr%s%d" (int_of_n ng.n_hold) (int_of_n ng.n_katime)
        (b01 ng.n_katimer) (b01 ng.n_asn4) (b01 ng.n_rx4) (b01 ng.n_tx4) (b01 ng.n_mp4)
        (b01 ng.n_rx6) (b01 ng.n_tx6) (b01 ng.n_mp6) (b01 ng.n_roleadv) (int_of_n ng.n_roleremote) in
    let adj = List.sort compare (List.map int_of_n (alist_get y.y_adjin (nn sid))) in
    let adjs = if adj = [] then "-" else String.concat "." (List.map string_of_int adj) in
    let loc = List.sort compare (List.map (fun ((a, r), rw) ->
        Printf.sprintf "%d:%d%s" (int_of_n a) (int_of_n r) (if rw then "*" else "")) y.y_rib) in
    let asns = String.concat "" (List.map (fun (ci, _) -> b01 (int_of_n (rc_count y.y_asn ci.c_las) > 0)) y.y_sess) in
    let cids = String.concat "" (List.map (fun (ci, _) ->
        b01 (int_of_n (rc_count y.y_cid (cluster_of ci)) > 0)) y.y_sess) in
    let all = String.concat "" (List.map (fun (_, si) ->
        Printf.sprintf "%c%s" (st_letter si.s_st) (b01 si.s_att)) y.y_sess) in
    let reg b = if s.s_att && b then "1" else "x" in
    Printf.sprintf "%s/%c/%s/%c/%s/%d/%s/u%d/i%s/g%s.%s|L%s/a%sk%s/c%d.%d/T%s" fr (st_letter s.s_st) (b01 s.s_att)
      (match s.s_conn with NoConn -> 'n' | ConnOpen _ -> 'o' | ConnClosed -> 'c')
      (if sent = [] then "-" else String.concat "+" sent) (int_of_n s.s_retry) negs (int_of_n s.s_upd) adjs (reg c.c_v4) (reg c.c_v6)
      (if loc = [] then "-" else String.concat "," loc) asns cids (int_of_n y.y_cl4) (int_of_n y.y_cl6) all
  end

let () =
  let compared = ref 0 and mism = ref 0 in
  iter_trace Sys.argv.(1) (fun id inp obs ->
    try
      let cfgs = List.filter (fun t -> t.[0] = 's') inp in
      let evs = List.filter (fun t -> t.[0] <> 's') inp in
      let y = ref (init_sys (List.map parse_cfg cfgs)) in
      let bad = ref None and stop = ref false in
      List.iteri (fun i t ->
        if not !stop then begin
          let (sid, e) = parse_event t in
          let (y', outs) = sys_step !y (nat_of_int sid) e in
          y := y';
          let mo = obs_token !y sid outs in
          let io = (try List.nth obs i with _ -> "<missing>") in
          if !bad = None && mo <> io then bad := Some (i, t, mo, io);
          if mo = "PANIC" || io = "PANIC" || io = "WEDGED" then stop := true
        end) evs;
      incr compared;
      (match !bad with
       | None -> ()
       | Some (i, t, mo, io) ->
         incr mism;
         Printf.printf "CORR-MISMATCH case=%s step=%d event=%s model=%s impl=%s\n" id i t mo io)
    with Failure m | Invalid_argument m ->
      incr mism; Printf.printf "CORR-MISMATCH case=%s driver cannot interpret the case: %s\n" id m);
  Printf.printf "STATS compared=%d mismatches=%d\n" !compared !mism
