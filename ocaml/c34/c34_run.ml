(* C34 modelrun: parse the route of each case, run the extracted Model.APIConv.to_proto and
   from_proto, print the API message and the route that comes back in the notation of the Go
   harness and compare literally with what the implementation produced. *)

let b01 b = if b then "1" else "0"
let n_dec (x : n) : string = string_of_int (int_of_n x)   (* uint32 and smaller *)

let fmt_ip (i : ip option) : string =
  match i with
  | None -> "-"
  | Some i -> Printf.sprintf "%s:%s:%s" (hex_of_n i.ip_hi) (hex_of_n i.ip_lo) (if i.ip_legacy then "4" else "6")

let parse_ip (s : string) : ip option =
  if s = "-" then None else
  match String.split_on_char ':' s with
  | [h; l; v] -> Some { ip_hi = n_of_hex h; ip_lo = n_of_hex l; ip_legacy = (v = "4") }
  | _ -> failwith ("bad ip " ^ s)

let parse_nums (s : string) : n list option =
  if s = "-" then None
  else if s = "e" || s = "" then Some []
  else Some (List.map (fun x -> n_of_int (int_of_string x)) (String.split_on_char '.' s))

let fmt_numl (l : n list) : string =
  if l = [] then "e" else String.concat "." (List.map n_dec l)
let fmt_nums (l : n list option) : string =
  match l with None -> "-" | Some l -> fmt_numl l

let parse_segs (s : string) : segment list option =
  if s = "-" then None else if s = "e" then Some [] else
  Some (List.map (fun x ->
    match String.index_opt x ':' with
    | Some i ->
      let t = String.sub x 0 i and r = String.sub x (i + 1) (String.length x - i - 1) in
      { seg_type = n_of_int (int_of_string t);
        seg_asns = (match parse_nums r with Some l -> l | None -> []) }
    | None -> failwith ("bad segment " ^ x)) (String.split_on_char ';' s))

let fmt_segs (l : segment list option) : string =
  match l with
  | None -> "-"
  | Some [] -> "e"
  | Some l -> String.concat ";" (List.map (fun g ->
      Printf.sprintf "%s:%s" (n_dec g.seg_type) (if g.seg_asns = [] then "" else fmt_numl g.seg_asns)) l)

let parse_lc (s : string) : lcomm list option =
  if s = "-" then None else if s = "e" then Some [] else
  Some (List.map (fun x ->
    match parse_nums x with
    | Some [a; b; c] -> { lc_ga = a; lc_d1 = b; lc_d2 = c }
    | _ -> failwith ("bad large community " ^ x)) (String.split_on_char ';' s))

let fmt_lc (l : lcomm list option) : string =
  match l with
  | None -> "-"
  | Some [] -> "e"
  | Some l -> String.concat ";" (List.map (fun c ->
      Printf.sprintf "%s.%s.%s" (n_dec c.lc_ga) (n_dec c.lc_d1) (n_dec c.lc_d2)) l)

let hex_bytes (l : n list) : string =
  String.concat "" (List.map (fun b -> Printf.sprintf "%02x" (int_of_n b)) l)

let parse_ua (s : string) : unknown_attr list =
  if s = "e" then [] else
  List.map (fun x ->
    match String.split_on_char ':' x with
    | [f; c; v] ->
      let bytes = List.init (String.length v / 2) (fun i -> n_of_int (int_of_string ("0x" ^ String.sub v (2 * i) 2))) in
      { ua_optional = f.[0] = '1'; ua_transitive = f.[1] = '1'; ua_partial = f.[2] = '1';
        ua_code = n_of_int (int_of_string c); ua_value = bytes }
    | _ -> failwith ("bad unknown attribute " ^ x)) (String.split_on_char ';' s)

let fmt_ua_gen l = if l = [] then "e" else String.concat ";" l
let fmt_ua (l : unknown_attr list) : string =
  fmt_ua_gen (List.map (fun u -> Printf.sprintf "%s%s%s:%s:%s" (b01 u.ua_optional) (b01 u.ua_transitive)
                           (b01 u.ua_partial) (n_dec u.ua_code) (hex_bytes u.ua_value)) l)

(* ---- input -> model route *)
type pacc = { mutable typ : n; mutable rd : n; mutable hid : n; mutable lt : n;
              mutable st : ip option option; mutable bgp : bacc option }
and bacc = { mutable a : aacc option; mutable asp : segment list option; mutable cl : n list option;
             mutable co : n list option; mutable lc : lcomm list option; mutable ua : unknown_attr list;
             mutable pid : n; mutable apl : n; mutable pp : bool }
and aacc = { mutable nh : ip option; mutable src : ip option; mutable lp : n; mutable med : n; mutable id : n;
             mutable oid : n; mutable agg : (n * n) option; mutable ebgp : bool; mutable atom : bool;
             mutable org : n; mutable otc : n }

let parse_route (toks : string list) : route =
  let pfx = ref None in
  let paths = ref [] in
  let cur = ref None in
  let num v = n_of_int (int_of_string v) in
  List.iter (fun tok ->
    if tok = "|" then begin
      let p = { typ = N0; rd = N0; hid = N0; lt = N0; st = None; bgp = None } in
      paths := p :: !paths; cur := Some p
    end else begin
      let i = String.index tok '=' in
      let k = String.sub tok 0 i and v = String.sub tok (i + 1) (String.length tok - i - 1) in
      match !cur with
      | None ->
        (match k with
         | "dd" -> ()
         | "pfx" ->
           if v <> "-" then
             (match String.split_on_char '/' v with
              | [a; l] ->
                (match parse_ip a with
                 | Some ip -> pfx := Some { pfx_addr = ip; pfx_len = num l }
                 | None -> failwith "nil address in prefix")
              | _ -> failwith ("bad prefix " ^ v))
         | _ -> failwith ("bad token " ^ tok))
      | Some p ->
        let b () = match p.bgp with Some b -> b | None -> failwith ("out of place " ^ tok) in
        let a () = match (b ()).a with Some a -> a | None -> failwith ("out of place " ^ tok) in
        (match k with
         | "t" -> p.typ <- num v
         | "rd" -> p.rd <- num v
         | "h" -> p.hid <- num v
         | "lt" -> p.lt <- num v
         | "st" -> p.st <- (if v = "-" then None else if v = "~" then Some None else Some (parse_ip v))
         | "bgp" ->
           if v = "+" then
             p.bgp <- Some { a = None; asp = None; cl = None; co = None; lc = None; ua = []; pid = N0; apl = N0; pp = false }
         | "a" ->
           if v = "+" then
             (b ()).a <- Some { nh = None; src = None; lp = N0; med = N0; id = N0; oid = N0; agg = None;
                                ebgp = false; atom = false; org = N0; otc = N0 }
         | "nh" -> (a ()).nh <- parse_ip v
         | "src" -> (a ()).src <- parse_ip v
         | "lp" -> (a ()).lp <- num v
         | "med" -> (a ()).med <- num v
         | "id" -> (a ()).id <- num v
         | "oid" -> (a ()).oid <- num v
         | "otc" -> (a ()).otc <- num v
         | "org" -> (a ()).org <- num v
         | "ebgp" -> (a ()).ebgp <- (v = "1")
         | "atom" -> (a ()).atom <- (v = "1")
         | "agg" ->
           if v <> "-" then
             (match String.split_on_char ':' v with
              | [x; y] -> (a ()).agg <- Some (num x, num y)
              | _ -> failwith ("bad aggregator " ^ v))
         | "asp" -> (b ()).asp <- parse_segs v
         | "cl" -> (b ()).cl <- parse_nums v
         | "co" -> (b ()).co <- parse_nums v
         | "lc" -> (b ()).lc <- parse_lc v
         | "ua" -> (b ()).ua <- parse_ua v
         | "pid" -> (b ()).pid <- num v
         | "apl" -> (b ()).apl <- num v
         | "pp" -> (b ()).pp <- (v = "1")
         | _ -> failwith ("bad token " ^ tok))
    end) toks;
  let mk_path (p : pacc) : path =
    { p_type = p.typ; p_redist = p.rd; p_hidden = p.hid; p_ltime = p.lt; p_static = p.st;
      p_bgp = (match p.bgp with
          | None -> None
          | Some b ->
            Some { b_a = (match b.a with
                | None -> None
                | Some a -> Some { a_nexthop = a.nh; a_source = a.src; a_localpref = a.lp; a_med = a.med;
                                   a_bgpid = a.id; a_origid = a.oid; a_aggregator = a.agg; a_ebgp = a.ebgp;
                                   a_atomic = a.atom; a_origin = a.org; a_otc = a.otc });
                   b_aspath = b.asp; b_cluster = b.cl; b_comms = b.co; b_lcomms = b.lc; b_unknown = b.ua;
                   b_pathid = b.pid; b_aspathlen = b.apl; b_postpolicy = b.pp }) } in
  { r_pfx = !pfx; r_paths = List.rev_map mk_path !paths }

(* ---- printers (the notation of harness/cmd/c34): the returned route is shown with the fields the
   property speaks about only (no LTime, RedistributedFrom, Aggregator, AtomicAggregate, ASPathLen,
   and only the part of a path that belongs to its type) *)
let bgp_type = n_of_int 2
let fmt_bgp (b : bgp_path option) : string =
  match b with
  | None -> "bgp=-"
  | Some b ->
    let a = match b.b_a with
      | None -> ["a=-"]
      | Some a ->
        ["a=+"; "nh=" ^ fmt_ip a.a_nexthop; "src=" ^ fmt_ip a.a_source;
         Printf.sprintf "lp=%s med=%s id=%s oid=%s ebgp=%s org=%s otc=%s"
           (n_dec a.a_localpref) (n_dec a.a_med) (n_dec a.a_bgpid) (n_dec a.a_origid)
           (b01 a.a_ebgp) (n_dec a.a_origin) (n_dec a.a_otc)] in
    String.concat " " (["bgp=+"] @ a @
      ["asp=" ^ fmt_segs b.b_aspath; "cl=" ^ fmt_nums b.b_cluster; "co=" ^ fmt_nums b.b_comms;
       "lc=" ^ fmt_lc b.b_lcomms; "ua=" ^ fmt_ua b.b_unknown;
       Printf.sprintf "pid=%s pp=%s" (n_dec b.b_pathid) (b01 b.b_postpolicy)])

let fmt_path (p : path) : string =
  let head = Printf.sprintf "t=%s h=%s" (n_dec p.p_type) (n_dec p.p_hidden) in
  if p.p_type = bgp_type then head ^ " " ^ fmt_bgp p.p_bgp
  else
    let st = match p.p_static with None -> "-" | Some None -> "~" | Some (Some i) -> fmt_ip (Some i) in
    head ^ " st=" ^ st

let fmt_route (r : route) : string =
  let pf = match r.r_pfx with
    | None -> "-"
    | Some p -> Printf.sprintf "%s/%s" (fmt_ip (Some p.pfx_addr)) (n_dec p.pfx_len) in
  String.concat " " (("pfx=" ^ pf) :: List.concat_map (fun p -> ["|"; fmt_path p]) r.r_paths)

let fmt_aip (i : api_ip option) : string =
  match i with
  | None -> "-"
  | Some i -> Printf.sprintf "%s:%s:%s" (hex_of_n i.aip_higher) (hex_of_n i.aip_lower) (n_dec i.aip_version)

let fmt_api (a : api_route) : string =
  let pf = match a.ar_pfx with
    | None -> "-"
    | Some p -> Printf.sprintf "%s/%s" (fmt_aip p.apfx_addr) (n_dec p.apfx_len) in
  let path (p : api_path) : string list =
    let st = match p.ap_static with None -> "-" | Some None -> "~" | Some (Some i) -> fmt_aip (Some i) in
    let head = Printf.sprintf "t=%s h=%s st=%s" (n_dec p.ap_type) (n_dec p.ap_hidden) st in
    match p.ap_bgp with
    | None -> ["|"; head; "bgp=-"]
    | Some b ->
      let asp = if b.ab_aspath = [] then "e" else
          String.concat ";" (List.map (fun g ->
            Printf.sprintf "%s:%s" (b01 g.aseg_seq) (if g.aseg_asns = [] then "" else fmt_numl g.aseg_asns)) b.ab_aspath) in
      let lc = if b.ab_lcomms = [] then "e" else
          String.concat ";" (List.map (fun c ->
            Printf.sprintf "%s.%s.%s" (n_dec c.alc_ga) (n_dec c.alc_d1) (n_dec c.alc_d2)) b.ab_lcomms) in
      let ua = fmt_ua_gen (List.map (fun u -> Printf.sprintf "%s%s%s:%s:%s" (b01 u.aua_optional) (b01 u.aua_transitive)
                                        (b01 u.aua_partial) (n_dec u.aua_code) (hex_bytes u.aua_value)) b.ab_unknown) in
      ["|"; head;
       Printf.sprintf "bgp=+ pid=%s nh=%s lp=%s asp=%s org=%s med=%s ebgp=%s id=%s src=%s co=%s lc=%s oid=%s cl=%s ua=%s pp=%s otc=%s"
         (n_dec b.ab_pathid) (fmt_aip b.ab_nexthop) (n_dec b.ab_localpref) asp (n_dec b.ab_origin) (n_dec b.ab_med)
         (b01 b.ab_ebgp) (n_dec b.ab_bgpid) (fmt_aip b.ab_source) (fmt_numl b.ab_comms) lc (n_dec b.ab_origid)
         (fmt_numl b.ab_cluster) ua (b01 b.ab_postpolicy) (n_dec b.ab_otc)] in
  String.concat " " (("pfx=" ^ pf) :: List.concat_map path a.ar_paths)

(* split a token list at the "&&" tokens *)
let split_steps (toks : string list) : string list list =
  let rec go cur acc = function
    | [] -> List.rev (List.rev cur :: acc)
    | "&&" :: r -> go [] (List.rev cur :: acc) r
    | t :: r -> go (t :: cur) acc r in
  go [] [] toks

let dedup_of (toks : string list) : bool = List.mem "dd=1" toks

(* A case is a sequence of conversions made one after the other in the harness process; the model
   state (heap: allocation counter + attribute cache) is threaded through the steps of a case AND
   from case to case, as the process-wide cache of the implementation is.  To keep the lookup cost
   linear the model cache is emptied (the allocation counter kept) when it exceeds max_cache entries;
   by C34_history_independent no stored entry can influence a later conversion. *)
let max_cache = 300

let () =
  let compared = ref 0 and mism = ref 0 and panics = ref 0 and steps = ref 0 and dd_steps = ref 0 in
  let heap = ref empty_heap in
  iter_trace Sys.argv.(1) (fun id inp obs ->
    incr compared;
    let isteps = split_steps inp and osteps = split_steps obs in
    if List.length isteps <> List.length osteps then begin
      incr mism;
      Printf.printf "CORR-MISMATCH case=%s %d conversions in the input, %d observations\n" id
        (List.length isteps) (List.length osteps)
    end else begin
      let bad = ref None in
      List.iteri (fun k (itoks, otoks) ->
        incr steps;
        match (try Some (parse_route itoks) with Failure m ->
                 Printf.printf "MODEL-ERROR case=%s step=%d cannot parse input: %s\n" id k m; None) with
        | None -> ()
        | Some r ->
          let dd = dedup_of itoks in
          if dd then incr dd_steps;
          if List.length !heap.h_cache > max_cache then heap := { h_cache = []; h_next = !heap.h_next };
          let model =
            match to_proto r with
            | Panic -> incr panics; "PANIC-TO"
            | Ok a ->
              let (res, h') = from_proto_h dd a !heap in
              heap := h';
              (match res with
               | Panic -> incr panics; "PANIC-FROM"
               | Ok back -> "API " ^ fmt_api a ^ " BACK " ^ fmt_route back) in
          let impl = String.concat " " otoks in
          if model <> impl && !bad = None then begin
            let mt = split_ws model and it = split_ws impl in
            let rec diff i a b = match a, b with
              | x :: a', y :: b' -> if x = y then diff (i + 1) a' b' else Printf.sprintf "token %d model=%s impl=%s" i x y
              | x :: _, [] -> Printf.sprintf "token %d model=%s impl=<end>" i x
              | [], y :: _ -> Printf.sprintf "token %d model=<end> impl=%s" i y
              | [], [] -> "equal?" in
            bad := Some (Printf.sprintf "step=%d dedup=%b %s" k dd (diff 0 mt it))
          end) (List.combine isteps osteps);
      match !bad with
      | None -> ()
      | Some m -> incr mism; Printf.printf "CORR-MISMATCH case=%s %s\n" id m
    end);
  Printf.printf "STATS compared=%d mismatches=%d conversions=%d dedup_conversions=%d model_panics=%d\n"
    !compared !mism !steps !dd_steps !panics
