(* C05 / C06 modelrun: replay each history through the extracted model (Model.AdjRIBIn.step) and
   compare, after every operation, the Adj-RIB-In content, the number of registered clients, every
   client's table and the calls delivered to every client with what the implementation did. *)
let ni = n_of_int
let nclients = 2

let parse_list (s : string) : n list =
  if s = "_" || s = "" then [] else List.map (fun x -> ni (int_of_string x)) (String.split_on_char '-' s)

let parse_cfg (t : string) : sattrs * policy =
  let body = String.sub t 4 (String.length t - 4) in
  match List.map int_of_string (String.split_on_char ',' body) with
  | [ib; ap; rid; pasn; dlp; ron; radv; rem; _local; pc; pa] ->
    ({ ibgp = (ib = 1); addpath_rx = (ap = 1); rid = ni rid; peer_asn = ni pasn; deflp = ni dlp;
       role_on = (ron = 1); role_adv = (radv = 1); role_remote = ni rem },
     sample_policy (ni pc) (ni pa))
  | _ -> failwith ("bad cfg " ^ t)

let parse_op (t : string) : op =
  let body = String.sub t 1 (String.length t - 1) in
  let two () = match String.split_on_char ':' body with [a; b] -> (a, b) | _ -> failwith ("bad op " ^ t) in
  match t.[0] with
  | 'A' ->
    let (p, a) = two () in
    (match String.split_on_char '.' a with
     | [id; lp; md; nh; asp; orig; cl; ot] ->
       let i x = ni (int_of_string x) in
       Announce (i p, { pid = i id; lpref = i lp; med = i md; nhop = i nh; aspath = parse_list asp;
                        origid = i orig; clist = parse_list cl; otc = i ot; hid = N0 })
     | _ -> failwith ("bad attrs " ^ t))
  | 'W' -> let (p, i) = two () in Withdraw (ni (int_of_string p), ni (int_of_string i))
  | 'X' -> WithdrawAll (ni (int_of_string body))
  | 'F' -> Flush
  | 'R' -> Register (ni (int_of_string body))
  | 'U' -> Unregister (ni (int_of_string body))
  | 'P' -> let (c, a) = two () in ReplaceChain (sample_policy (ni (int_of_string c)) (ni (int_of_string a)))
  | 'a' -> AddASN (ni (int_of_string body))
  | 'd' -> DelASN (ni (int_of_string body))
  | 'c' -> AddCID (ni (int_of_string body))
  | 'e' -> DelCID (ni (int_of_string body))
  | _ -> failwith ("bad op " ^ t)

let fmt_list (l : n list) : string =
  if l = [] then "_" else String.concat "-" (List.map (fun x -> string_of_int (int_of_n x)) l)

let path_str (q : path) : string =
  Printf.sprintf "%d.%d.%d.%d.%s.%d.%s.%d.%d" (int_of_n q.pid) (int_of_n q.lpref) (int_of_n q.med) (int_of_n q.nhop)
    (fmt_list q.aspath) (int_of_n q.origid) (fmt_list q.clist) (int_of_n q.otc) (int_of_n q.hid)

let entry (p : n) (q : path) : string = Printf.sprintf "%d/%s" (int_of_n p) (path_str q)

let sorted_join (l : string list) : string =
  if l = [] then "-" else String.concat "," (List.sort compare l)

let table_str (t : (n * path) list) : string = sorted_join (List.map (fun (p, q) -> entry p q) t)

let rec take k l = if k <= 0 then [] else match l with [] -> [] | x :: r -> x :: take (k - 1) r

let ev_client = function
  | EvAdd (c, _, _) | EvDump (c, _, _) | EvRemove (c, _, _) | EvReplace (c, _, _, _) | EvEOR c -> int_of_n c

let ev_str = function
  | EvAdd (_, p, q) -> "+" ^ entry p q
  | EvDump (_, p, q) -> "i" ^ entry p q
  | EvRemove (_, p, q) -> "-" ^ entry p q
  | EvReplace (_, p, o, nw) -> "r" ^ entry p o ^ ">" ^ path_str nw
  | EvEOR _ -> "e"

let obs_of (before : st) (after : st) : string =
  let nnew = List.length after.log - List.length before.log in
  let evs = take nnew after.log in
  let toks = ref [ "T=" ^ table_str after.tab; Printf.sprintf "n=%d" (List.length after.regs) ] in
  for c = 0 to nclients - 1 do
    let mine = List.filter (fun e -> ev_client e = c) evs in
    toks := !toks @ [ Printf.sprintf "C%d=%s" c (table_str (ct_get (ni c) after.ctabs));
                      Printf.sprintf "E%d=%s" c (sorted_join (List.map ev_str mine)) ]
  done;
  String.concat "|" !toks

let () =
  let compared = ref 0 and mism = ref 0 in
  iter_trace Sys.argv.(1) (fun id inp obs ->
    if obs = ["PANIC"] then
      (incr mism; Printf.printf "CORR-MISMATCH case=%s impl panicked, model does not\n" id)
    else begin
      match inp with
      | [] -> ()
      | cfg :: optoks ->
        let (sa, pol) = parse_cfg cfg in
        let s = ref (init sa pol) in
        let bad = ref None in
        List.iteri (fun i t ->
          let before = !s in
          s := step before (parse_op t);
          if !bad = None then begin
            let mo = obs_of before !s in
            let io = (try List.nth obs i with _ -> "<missing>") in
            if mo <> io then bad := Some (i, t, mo, io)
          end) optoks;
        incr compared;
        (match !bad with
         | None -> ()
         | Some (i, t, mo, io) ->
           incr mism;
           Printf.printf "CORR-MISMATCH case=%s after-op=%d(%s) model=%s impl=%s\n" id i t mo io)
    end);
  Printf.printf "STATS compared=%d mismatches=%d\n" !compared !mism
