(* C16 modelrun: run the extracted decoder model (Model.BGPCodec.decode with fuel S (length b)) on
   every traced input and compare outcome + canonical rendering with what packet.Decode did. *)
let bytes_of_hex (s : string) : n list =
  if s = "-" then [] else begin
    let l = String.length s / 2 in
    let rec go i acc = if i < 0 then acc
      else go (i - 1) (n_of_int (int_of_string ("0x" ^ String.sub s (2 * i) 2)) :: acc) in
    go (l - 1) []
  end

let render_tokens (l : n list) : string =
  let b = Buffer.create 256 in
  List.iteri (fun i x -> if i > 0 then Buffer.add_char b ' '; Buffer.add_string b (string_of_int (int_of_n x))) l;
  Buffer.contents b

let rec nat_len (l : n list) (acc : nat) : nat = match l with [] -> acc | _ :: r -> nat_len r (S acc)

let () =
  let compared = ref 0 and mism = ref 0 and ok = ref 0 and maxal = ref 0 in
  iter_trace Sys.argv.(1) (fun id inp obs ->
    match inp with
    | [k; hx] ->
      let b = bytes_of_hex hx in
      let fuel = nat_len b (S O) in
      let (out, al) = decode fuel (optionsOf (n_of_int (int_of_string k))) b in
      let al = int_of_n al in
      if al > !maxal then maxal := al;
      let bound = 65535 + 3 * List.length b in
      if al > bound then
        Printf.printf "MODEL-ERROR case=%s model allocation %d exceeds the proven bound %d\n" id al bound;
      let mo = (match out with
          | Ok (m, _) -> incr ok; render_tokens (renderMsg m)
          | Err -> "Err"
          | Panic _ -> "PANIC"
          | OutOfFuel -> "OUTOFFUEL") in
      let io = String.concat " " obs in
      incr compared;
      if mo <> io then begin
        incr mism;
        let cut s = if String.length s > 300 then String.sub s 0 300 ^ "..." else s in
        if !mism <= 20 then
          Printf.printf "CORR-MISMATCH case=%s model=[%s] impl=[%s]\n" id (cut mo) (cut io)
      end
    | _ -> Printf.printf "MODEL-ERROR case=%s unparsable input\n" id);
  Printf.printf "STATS compared=%d mismatches=%d decoded_ok=%d max_model_alloc=%d\n" !compared !mism !ok !maxal
