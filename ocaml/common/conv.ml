(* Converters between OCaml ints / Zarith-free big values and the extracted
   nat / positive / N / Z datatypes. The constructors come from the extracted
   model opened above this text. Numbers in traces are decimal and fit in 63 bits
   unless a driver uses the *_of_string variants (arbitrary size, via lists of bits). *)
let rec nat_of_int (i : int) : nat = if i <= 0 then O else S (nat_of_int (i - 1))
let rec int_of_nat (n : nat) : int = match n with O -> 0 | S m -> 1 + int_of_nat m
let rec pos_of_int (i : int) : positive =
  if i <= 1 then XH else if i land 1 = 1 then XI (pos_of_int (i lsr 1)) else XO (pos_of_int (i lsr 1))
let rec int_of_pos (p : positive) : int =
  match p with XH -> 1 | XO q -> 2 * int_of_pos q | XI q -> 2 * int_of_pos q + 1
let n_of_int (i : int) : n = if i <= 0 then N0 else Npos (pos_of_int i)
let int_of_n (x : n) : int = match x with N0 -> 0 | Npos p -> int_of_pos p
let z_of_int (i : int) : z = if i = 0 then Z0 else if i > 0 then Zpos (pos_of_int i) else Zneg (pos_of_int (- i))
let int_of_z (x : z) : int = match x with Z0 -> 0 | Zpos p -> int_of_pos p | Zneg p -> - (int_of_pos p)

(* arbitrary-size decimal strings <-> positive, through base-10 schoolbook on int lists (little use; 64-bit values) *)
let pos_of_hex (s : string) : positive option =
  (* s: hex digits, most significant first; returns None for zero *)
  let bits = ref [] in
  String.iter (fun c ->
    let v = int_of_string ("0x" ^ String.make 1 c) in
    bits := !bits @ [ (v lsr 3) land 1; (v lsr 2) land 1; (v lsr 1) land 1; v land 1 ]) s;
  let rec strip = function 0 :: r -> strip r | l -> l in
  match strip !bits with
  | [] -> None
  | _ :: rest -> Some (List.fold_left (fun acc b -> if b = 1 then XI acc else XO acc) XH rest)
let n_of_hex s = match pos_of_hex s with None -> N0 | Some p -> Npos p
let z_of_hex s = match pos_of_hex s with None -> Z0 | Some p -> Zpos p
let hex_of_pos (p : positive) : string =
  let rec bits p acc = match p with XH -> 1 :: acc | XO q -> bits q (0 :: acc) | XI q -> bits q (1 :: acc) in
  let b = bits p [] in
  let pad = (4 - (List.length b mod 4)) mod 4 in
  let b = (List.init pad (fun _ -> 0)) @ b in
  let buf = Buffer.create 16 in
  let rec go = function
    | a :: b :: c :: d :: r -> Buffer.add_string buf (Printf.sprintf "%x" (a*8+b*4+c*2+d)); go r
    | _ -> () in
  go b; Buffer.contents buf
let hex_of_n = function N0 -> "0" | Npos p -> hex_of_pos p
let hex_of_z = function Z0 -> "0" | Zpos p -> hex_of_pos p | Zneg p -> "-" ^ hex_of_pos p

let split_ws (s : string) : string list =
  List.filter (fun x -> x <> "") (String.split_on_char ' ' s)

(* Trace line: "<caseid> <nt> <input tokens> => <observation tokens>" *)
let parse_trace_line (line : string) : (string * string list * string list) option =
  if line = "" || line.[0] = '#' then None else
  match Str.bounded_split (Str.regexp " ") line 3 with
  | [id; _nt; rest] ->
    (match Str.split_delim (Str.regexp_string " => ") rest with
     | [inp; obs] -> Some (id, split_ws inp, split_ws obs)
     | [inp] -> Some (id, split_ws inp, [])
     | inp :: obs -> Some (id, split_ws inp, split_ws (String.concat " => " obs))
     | [] -> None)
  | _ -> None

let iter_trace (file : string) (f : string -> string list -> string list -> unit) : unit =
  let ic = open_in file in
  (try
     while true do
       let line = input_line ic in
       match parse_trace_line line with
       | Some (id, inp, obs) -> f id inp obs
       | None -> ()
     done
   with End_of_file -> ());
  close_in ic
