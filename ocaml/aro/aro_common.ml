(* Shared by the Adj-RIB-Out drivers (C08, C09, C11, C12, C13): token parsers/printers for paths,
   sessions and policy chains (grammar: harness/aro/aro.go) over the extracted Model.AdjRIBOut.
   Concatenated in front of each property's driver by props/aro_props.py. *)

let split c s = if s = "" then [] else String.split_on_char c s
let ni s = n_of_int (int_of_string s)
let si x = string_of_int (int_of_n x)
let bool01 s = (s = "1")
let s01 b = if b then "1" else "0"

let nlist s = List.map ni (split '.' s)
let optlist s = match s with "n" -> None | "e" -> Some [] | _ -> Some (nlist s)
let sopt f o = match o with None -> "n" | Some [] -> "e" | Some l -> String.concat "." (List.map f l)

let parse_path (t : string) : path =
  match String.split_on_char '/' t with
  | ["s"; "-"] -> PStatic None
  | ["s"; nh] -> PStatic (Some (ni nh))
  | ["b"; nh; src; lp; med; bgpid; oid; agg; ebgp; atomic; origin; otc; asp; aslen; cl; comms; lcomms; unk; pid; redist] ->
    let agg = (match agg with "-" -> None | a -> (match split '.' a with [x; y] -> Some (ni x, ni y) | _ -> failwith ("bad agg " ^ a))) in
    let asp = (match asp with
      | "e" -> []
      | a -> List.map (fun sg ->
          let k = sg.[0] and rest = String.sub sg 1 (String.length sg - 1) in
          ((k = 'q'), nlist rest)) (String.split_on_char '_' a)) in
    let lcomms = (match lcomms with
      | "n" -> None | "e" -> Some []
      | l -> Some (List.map (fun it -> match split ':' it with
          | [a; b; c] -> ((ni a, ni b), ni c) | _ -> failwith ("bad lcomm " ^ it)) (split '.' l))) in
    let unk = (match unk with
      | "e" -> []
      | l -> List.map (fun it -> match String.split_on_char ':' it with
          | [f; c; v] -> { u_flags = ni f; u_code = ni c; u_val = nlist v }
          | _ -> failwith ("bad unk " ^ it)) (String.split_on_char '_' l)) in
    PBgp (ni redist,
      { b_nh = ni nh; b_src = ni src; b_lp = ni lp; b_med = ni med; b_bgpid = ni bgpid; b_oid = ni oid;
        b_agg = agg; b_ebgp = bool01 ebgp; b_atomic = bool01 atomic; b_origin = ni origin; b_otc = ni otc;
        b_aspath = asp; b_aslen = ni aslen; b_cl = optlist cl; b_comms = optlist comms; b_lcomms = lcomms;
        b_unk = unk; b_pid = ni pid })
  | _ -> failwith ("bad path token " ^ t)

let print_path (p : path) : string =
  match p with
  | PStatic None -> "s/-"
  | PStatic (Some nh) -> "s/" ^ si nh
  | PBgp (r, b) ->
    let agg = (match b.b_agg with None -> "-" | Some (x, y) -> si x ^ "." ^ si y) in
    let asp = (match b.b_aspath with
      | [] -> "e"
      | l -> String.concat "_" (List.map (fun (q, asns) ->
          (if q then "q" else "s") ^ String.concat "." (List.map si asns)) l)) in
    let lc = (match b.b_lcomms with
      | None -> "n" | Some [] -> "e"
      | Some l -> String.concat "." (List.map (fun ((a, b), c) -> si a ^ ":" ^ si b ^ ":" ^ si c) l)) in
    let un = (match b.b_unk with
      | [] -> "e"
      | l -> String.concat "_" (List.map (fun u ->
          si u.u_flags ^ ":" ^ si u.u_code ^ ":" ^ String.concat "." (List.map si u.u_val)) l)) in
    String.concat "/" ["b"; si b.b_nh; si b.b_src; si b.b_lp; si b.b_med; si b.b_bgpid; si b.b_oid; agg;
      s01 b.b_ebgp; s01 b.b_atomic; si b.b_origin; si b.b_otc; asp; si b.b_aslen;
      sopt si b.b_cl; sopt si b.b_comms; lc; un; si b.b_pid; si r]

(* chain  = "0" | filter {"~" filter} ; filter = term {"^" term} ; term = conds ">" acts *)
let parse_action (a : string) : action =
  let after k = String.sub a k (String.length a - k) in
  let starts p = String.length a >= String.length p && String.sub a 0 (String.length p) = p in
  if a = "acc" then AAccept
  else if a = "rej" then AReject
  else if starts "lp" then ASetLP (ni (after 2))
  else if starts "med" then ASetMED (ni (after 3))
  else if starts "nh" then ASetNH (ni (after 2))
  else if starts "pp" then
    (match String.split_on_char 'x' (after 2) with
     | [asn; t] -> APrepend (ni asn, ni t)
     | _ -> failwith ("bad prepend " ^ a))
  else failwith ("bad action " ^ a)

let parse_chain (s : string) : chain =
  if s = "0" then [] else
  List.map (fun fs ->
    List.map (fun ts ->
      match String.index_opt ts '>' with
      | None -> failwith ("bad term " ^ ts)
      | Some i ->
        let cs = String.sub ts 0 i and acts = String.sub ts (i + 1) (String.length ts - i - 1) in
        let from = if cs = "-" then [] else
            List.map (fun c -> if c = "*" then [] else nlist c) (String.split_on_char '&' cs) in
        { t_from = from; t_then = List.map parse_action (split ',' acts) })
      (String.split_on_char '^' fs))
    (String.split_on_char '~' s)

let role_code = function "prov" -> 0 | "rs" -> 1 | "rsc" -> 2 | "cust" -> 3 | "peer" -> 4 | _ -> 0

(* "S:" kind ":" maxpaths ":" role ; constants as in harness/aro/aro.go *)
let parse_sess (t : string) : sess * int =
  match String.split_on_char ':' t with
  | ["S"; kind; mp; role] ->
    let mp = int_of_string mp in
    ({ s_ibgp = (kind = "ibgp" || kind = "rr"); s_rsclient = (kind = "rs"); s_rrclient = (kind = "rr");
       s_addpath = (mp > 0); s_localasn = n_of_int 65000; s_localip = n_of_int 0x01010101;
       s_peerip = n_of_int 0x02020202; s_clusterid = n_of_int 9;
       s_role_on = (role <> "-"); s_role = n_of_int (role_code role) }, mp)
  | _ -> failwith ("bad session token " ^ t)

let parse_pfx_path (s : string) : n * path =
  match String.index_opt s '=' with
  | Some i -> (ni (String.sub s 0 i), parse_path (String.sub s (i + 1) (String.length s - i - 1)))
  | None -> failwith ("bad pfx=path " ^ s)

(* "+p=path,-p=path" *)
let parse_stream (s : string) : (bool * n * path) list =
  if s = "-" then [] else
  List.map (fun it ->
    let add = it.[0] = '+' in
    let (pf, p) = parse_pfx_path (String.sub it 1 (String.length it - 1)) in
    (add, pf, p)) (String.split_on_char ',' s)

(* "pfx=path,path;pfx=..." *)
let parse_view (s : string) : (n * path list) list =
  if s = "-" then [] else
  List.map (fun e ->
    match String.index_opt e '=' with
    | Some i -> (ni (String.sub e 0 i),
                 List.map parse_path (String.split_on_char ',' (String.sub e (i + 1) (String.length e - i - 1))))
    | None -> failwith ("bad view entry " ^ e)) (String.split_on_char ';' s)

let print_event = function
  | Announce (pf, p) -> "+" ^ si pf ^ "=" ^ print_path p
  | Withdraw (pf, p) -> "-" ^ si pf ^ "=" ^ print_path p

let join_or_dash sep = function [] -> "-" | l -> String.concat sep l

(* table dump as the harness prints it: prefixes ascending, paths in table order *)
let print_table (t : (n * path) list) : string =
  let pfxs = List.sort_uniq compare (List.map (fun (k, _) -> int_of_n k) t) in
  join_or_dash ";" (List.map (fun k ->
    string_of_int k ^ "=" ^ String.concat "," (List.map print_path (tbl_get (n_of_int k) t))) pfxs)

(* events emitted between two states (elog is newest first) *)
let new_events (before : 'a aro) (after : 'a aro) : string =
  let nb = List.length before.elog and na = List.length after.elog in
  let rec take k l = if k <= 0 then [] else match l with [] -> [] | x :: r -> x :: take (k - 1) r in
  join_or_dash "," (List.rev_map print_event (take (na - nb) after.elog))

let split_obs (o : string) : string list = String.split_on_char '#' o
