(* C11 modelrun: replay each case through the extracted Adj-RIB-Out model (Model.AdjRIBOut.step with the
   policy interpreter) and compare, op by op, with what the implementation did.
   Input/observation grammar: harness/cmd/c11/main.go. *)
let () =
  let compared = ref 0 and mism = ref 0 in
  iter_trace Sys.argv.(1) (fun id inp obs ->
    incr compared;
    match obs with
    | ["PANIC"] | ["HANG"] ->
      incr mism; Printf.printf "CORR-MISMATCH case=%s impl %s, model does not\n" id (List.hd obs)
    | _ ->
      (match inp with
       | "HASH" :: pairs ->
         (* the hash of the model (Model.AdjRIBOut.hkey_of) tells two paths apart iff ComputeHash does *)
         (try
           List.iteri (fun i t ->
             let eq = String.index t '=' and bar = String.index t '|' in
             let p1 = parse_path (String.sub t (eq + 1) (bar - eq - 1))
             and p2 = parse_path (String.sub t (bar + 1) (String.length t - bar - 1)) in
             let m = (match p1, p2 with
               | PBgp (_, a), PBgp (_, b) -> if hkey_eq_dec (hkey_of a) (hkey_of b) then "1" else "0"
               | _ -> "?") in
             let io = (try String.sub (List.nth obs i) 0 1 with _ -> "<missing>") in
             if m <> io then begin
               incr mism;
               Printf.printf "CORR-MISMATCH case=%s pair=%d (%s) model-hash-equal=%s impl-hash-equal=%s\n" id i t m io
             end) pairs
         with Failure _ | Invalid_argument _ | Not_found ->
           incr mism; Printf.printf "CORR-MISMATCH case=%s driver cannot parse hash case\n" id)
       | st :: ct :: ops ->
         (try
           let (s, _) = parse_sess st in
           let c0 = parse_chain (String.sub ct 1 (String.length ct - 1)) in
           let a = ref (init c0) in
           let bad = ref None in
           List.iteri (fun i optok ->
             if !bad = None then begin
               let o = (try List.nth obs i with _ -> "<missing>") in
               match split_obs o with
               | [stream; view; ret; events; table; counts] ->
                 let before = !a in
                 let body = String.sub optok 1 (String.length optok - 1) in
                 let mret = ref "-" in
                 (match optok.[0] with
                  | 'a' | 'r' ->
                    List.iter (fun (add, pf, p) ->
                      a := step interp s !a (if add then OAdd (pf, p) else ORemove (pf, p))) (parse_stream stream)
                  | 'A' ->
                    let (pf, p) = parse_pfx_path body in
                    a := step interp s !a (OAdd (pf, p));
                    mret := if int_of_n !a.errs > int_of_n before.errs then "err" else "ok"
                  | 'R' ->
                    let (pf, p) = parse_pfx_path body in
                    let (a', r) = remove_path interp s !a pf p in
                    a := a'; mret := if r then "t" else "f"
                  | 'x' -> a := step interp s !a (OReplace (parse_chain body, parse_view view))
                  | 'L' -> a := { !a with pm = { !a.pm with last = ni body } }
                  | _ -> failwith ("bad op " ^ optok));
                 let mo = String.concat "#" [!mret; new_events before !a; print_table !a.tbl;
                                            Printf.sprintf "%d/%d" (int_of_n !a.pm.used) (int_of_n (route_count !a))] in
                 let io = String.concat "#" [ret; events; table; counts] in
                 if !a.diverged then bad := Some (i, "model: id search diverged", io)
                 else if mo <> io then bad := Some (i, mo, io)
               | _ -> bad := Some (i, "<unparsable observation>", o)
             end) ops;
           (match !bad with
            | None -> ()
            | Some (i, mo, io) ->
              incr mism;
              Printf.printf "CORR-MISMATCH case=%s after-op=%d model=%s impl=%s\n" id i mo io)
         with Failure m | Invalid_argument m ->
           incr mism; Printf.printf "CORR-MISMATCH case=%s driver cannot parse: %s\n" id m)
       | _ -> incr mism; Printf.printf "CORR-MISMATCH case=%s short input\n" id));
  Printf.printf "STATS compared=%d mismatches=%d\n" !compared !mism
