(* C12 modelrun. K:E - the Adj-RIB-Out model replays the Loc-RIB's calls and the filter replacements
   (Model.AdjRIBOut.step); K:I - Model.ImportReplace.replace_in applied to the observed Adj-RIB-In and Loc-RIB
   must give the observed Loc-RIB; K:F - the session's entry points with the skip test
   (Model.ImportReplace.fam_replace_{import,export}); K:Q - Model.ImportReplace.chain_eqb against filter.Chain.Equal.
   Grammar: harness/cmd/c12/main.go. *)
let parse_table_h (s : string) : (n * path * bool) list =
  if s = "-" then [] else
  List.concat (List.map (fun e ->
    match String.index_opt e '=' with
    | Some i ->
      let pf = ni (String.sub e 0 i) in
      List.map (fun t ->
        if t.[0] = 'h' then (pf, parse_path (String.sub t 1 (String.length t - 1)), true)
        else (pf, parse_path t, false))
        (String.split_on_char ',' (String.sub e (i + 1) (String.length e - i - 1)))
    | None -> failwith ("bad table entry " ^ e)) (String.split_on_char ';' s))

let print_sorted (l : (n * path) list) : string =
  let pfxs = List.sort_uniq compare (List.map (fun (k, _) -> int_of_n k) l) in
  join_or_dash ";" (List.map (fun k ->
    string_of_int k ^ "=" ^ String.concat ","
      (List.sort compare (List.map (fun (_, p) -> print_path p) (List.filter (fun (k', _) -> int_of_n k' = k) l)))) pfxs)

let chain_of t = parse_chain (String.sub t 1 (String.length t - 1))

let run_export id st ct ops obs =
  let (s, _) = parse_sess st in
  let a = ref (init (chain_of ct)) in
  let bad = ref None in
  List.iteri (fun i optok ->
    if !bad = None then begin
      let o = (try List.nth obs i with _ -> "<missing>") in
      match split_obs o with
      | [stream; view; _ret; events; table; counts] ->
        let before = !a in
        let body = String.sub optok 1 (String.length optok - 1) in
        (match optok.[0] with
         | 'a' | 'r' ->
           List.iter (fun (add, pf, p) ->
             a := step interp s !a (if add then OAdd (pf, p) else ORemove (pf, p))) (parse_stream stream)
         | 'x' -> a := step interp s !a (OReplace (parse_chain body, parse_view view))
         | _ -> failwith ("bad op " ^ optok));
        let mo = String.concat "#" [new_events before !a; print_table !a.tbl;
                                   Printf.sprintf "%d/%d" (int_of_n !a.pm.used) (int_of_n (route_count !a))] in
        let io = String.concat "#" [events; table; counts] in
        if !a.diverged then bad := Some (i, "model: id search diverged", io)
        else if mo <> io then bad := Some (i, mo, io)
      | _ -> bad := Some (i, "<unparsable observation>", o)
    end) ops;
  !bad

let run_import id ct ops obs =
  let cur = ref (chain_of ct) in
  let bad = ref None in
  List.iteri (fun i optok ->
    if !bad = None && optok.[0] = 'y' then begin
      let o = (try List.nth obs i with _ -> "<missing>") in
      match split_obs o with
      | [rb; lb; la] ->
        let nw = parse_chain (String.sub optok 1 (String.length optok - 1)) in
        let rin = List.map (fun (pf, p, h) -> ((pf, p), h)) (parse_table_h rb) in
        let loc = List.map (fun (pf, p, _) -> (pf, p)) (parse_table_h lb) in
        let l' = replace_in (interp !cur) (interp nw) rin loc in
        cur := nw;
        let mo = print_sorted l' in
        if mo <> la then bad := Some (i, mo, la)
      | _ -> bad := Some (i, "<unparsable observation>", o)
    end) ops;
  !bad

let run_family st ct ops obs =
  let (s, _) = parse_sess st in
  let (imp, exp) = (match String.split_on_char '|' (String.sub ct 1 (String.length ct - 1)) with
    | [i; e] -> (parse_chain i, parse_chain e) | _ -> failwith "bad chains") in
  let start_down = (match ops with "Z" :: _ -> true | _ -> false) in
  let fam = ref { fam_imp = imp; fam_exp = exp; fam_up = not start_down } and a = ref (init exp) in
  let bad = ref None in
  List.iteri (fun i optok ->
    if !bad = None then begin
      let o = (try List.nth obs i with _ -> "<missing>") in
      match split_obs o with
      | [stream; view; rb; lb; la; ta] ->
        let body = String.sub optok 1 (String.length optok - 1) in
        (* whatever the Loc-RIB told the Adj-RIB-Out while the op ran *)
        List.iter (fun (add, pf, p) ->
          a := step interp s !a (if add then OAdd (pf, p) else ORemove (pf, p))) (parse_stream stream);
        (match optok.[0] with
         | 'm' ->
           let rin = List.map (fun (pf, p, h) -> ((pf, p), h)) (parse_table_h rb) in
           let loc = List.map (fun (pf, p, _) -> (pf, p)) (parse_table_h lb) in
           let (f', l') = fam_replace_import (!fam, loc) rin (parse_chain body) in
           fam := f';
           let mo = print_sorted l' in
           if mo <> la then bad := Some (i, "loc-rib " ^ mo, "loc-rib " ^ la)
         | 'e' ->
           let (f', a') = fam_replace_export s (!fam, !a) (parse_chain body) (parse_view view) in
           fam := f'; a := a'
         | 'D' -> fam := fam_dispose !fam; a := init !fam.fam_exp
         | 'U' -> if not !fam.fam_up then begin
             let (f', a') = fam_init_export s !fam (parse_view view) in fam := f'; a := a' end
         | _ -> ());
        if !bad = None then begin
          let mo = if !fam.fam_up then print_sorted !a.tbl else "-" in
          if mo <> ta then bad := Some (i, "adj-rib-out " ^ mo, "adj-rib-out " ^ ta)
        end
      | _ -> bad := Some (i, "<unparsable observation>", o)
    end) ops;
  !bad

let run_equal ops obs =
  let bad = ref None in
  List.iteri (fun i optok ->
    if !bad = None then begin
      let body = String.sub optok 1 (String.length optok - 1) in
      match String.split_on_char '|' body with
      | [x; y] ->
        let mo = if chain_eqb (parse_chain x) (parse_chain y) then "t" else "f" in
        let io = (try List.nth obs i with _ -> "<missing>") in
        if mo <> io then bad := Some (i, mo, io)
      | _ -> bad := Some (i, "<bad op>", optok)
    end) ops;
  !bad

let () =
  let compared = ref 0 and mism = ref 0 in
  iter_trace Sys.argv.(1) (fun id inp obs ->
    incr compared;
    match obs with
    | ["PANIC"] | ["HANG"] ->
      incr mism; Printf.printf "CORR-MISMATCH case=%s impl %s, model does not\n" id (List.hd obs)
    | _ ->
      (try
        let bad = (match inp with
          | "K:E" :: st :: ct :: ops -> run_export id st ct ops obs
          | "K:I" :: _ :: ct :: ops -> run_import id ct ops obs
          | "K:F" :: st :: ct :: ops -> run_family st ct ops obs
          | "K:Q" :: ops -> run_equal ops obs
          | _ -> Some (0, "<bad case>", "")) in
        (match bad with
         | None -> ()
         | Some (i, mo, io) ->
           incr mism; Printf.printf "CORR-MISMATCH case=%s after-op=%d model=%s impl=%s\n" id i mo io)
      with Failure m | Invalid_argument m ->
        incr mism; Printf.printf "CORR-MISMATCH case=%s driver cannot parse: %s\n" id m));
  Printf.printf "STATS compared=%d mismatches=%d\n" !compared !mism
