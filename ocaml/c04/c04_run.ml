(* C04 modelrun: replay each history through the extracted model (Model.LocRIBClients.step).
   Path values are (local-pref, next-hop) pairs; Compare and Equal on the generated paths are
   equality of these pairs.  Route.PathSelection is a PARAMETER of the model: the driver answers it
   with the order and ECMP count the implementation reported after the same operation, after
   checking the two facts the theorems assume about it (a permutation of what the model has stored;
   count <= number of paths).  Compared per operation: the route of the touched prefix and, per
   client, the exact sequence of callbacks.  At the end of each history the extracted
   specification (held vs want) is evaluated on the model's trace. *)
exception Bad of string

let vstr (lp, nh) = Printf.sprintf "%d.%d" lp nh
let parse_val s =
  match String.split_on_char '.' s with
  | [a; b] -> (int_of_string a, int_of_string b)
  | _ -> raise (Bad ("value " ^ s))

let parse_opts s : opts =
  match s.[0] with
  | 'B' | 'G' -> { bestOnly = true; ecmpOnly = false; maxPaths = O }
  | 'E' -> { bestOnly = false; ecmpOnly = true; maxPaths = O }
  | 'M' -> { bestOnly = false; ecmpOnly = false;
             maxPaths = nat_of_int (int_of_string (String.sub s 1 (String.length s - 1))) }
  | _ -> raise (Bad ("options " ^ s))

(* returns the op and the prefix it touches (-1 if none) *)
let parse_op (t : string) : (int * int) op * int =
  let f = String.split_on_char ':' (String.sub t 1 (String.length t - 1)) in
  let n = int_of_string (List.hd f) in
  match t.[0], f with
  | 'a', [_; v] -> OAdd (nat_of_int n, parse_val v), n
  | 'r', [_; v] -> ORemove (nat_of_int n, parse_val v), n
  | 'x', [_; v; w] -> OReplace (nat_of_int n, parse_val v, parse_val w), n
  | 'R', [_; o] -> ORegister (nat_of_int n, parse_opts o), -1
  | 'U', [_] -> OUnregister (nat_of_int n), -1
  | 'F', [_] -> ORefresh (nat_of_int n), -1
  | _ -> raise (Bad ("op " ^ t))

(* "<oid>.<oid>/<ecmp>" | "-/0" *)
let parse_sel (s : string) : int list * int =
  match String.split_on_char '/' s with
  | [ids; e] ->
    let ids = if ids = "-" then [] else List.map int_of_string (String.split_on_char '.' ids) in
    (ids, int_of_string e)
  | _ -> raise (Bad ("selection " ^ s))

let estr ((o, v) : (int * int) entry) = Printf.sprintf "%d@%s" (int_of_nat o) (vstr v)

let render_cbs (cbs : (int * int) cb list) : string =
  let cid_of = function
    | CbAdd (c, _, _) | CbRemove (c, _, _) | CbDump (c, _, _) | CbEndOfRIB c | CbRefresh (c, _, _) -> int_of_nat c in
  let key = function
    | CbAdd (_, p, _) | CbRemove (_, p, _) | CbDump (_, p, _) | CbRefresh (_, p, _) -> int_of_nat p
    | CbEndOfRIB _ -> 99 in
  let show = function
    | CbAdd (_, p, e) -> Printf.sprintf "+%d.%s" (int_of_nat p) (estr e)
    | CbRemove (_, p, e) -> Printf.sprintf "-%d.%s" (int_of_nat p) (estr e)
    | CbDump (_, p, e) -> Printf.sprintf "d%d.%s" (int_of_nat p) (estr e)
    | CbEndOfRIB _ -> "E"
    | CbRefresh (_, p, es) -> Printf.sprintf "f%d[%s]" (int_of_nat p) (String.concat "_" (List.map estr es)) in
  let cids = List.sort_uniq compare (List.map cid_of cbs) in
  if cids = [] then "-" else
    String.concat ";" (List.map (fun c ->
      let mine = List.filter (fun b -> cid_of b = c) cbs in
      let mine = List.stable_sort (fun a b -> compare (key a) (key b)) mine in
      Printf.sprintf "c%d:%s" c (String.concat "," (List.map show mine))) cids)

let render_route (r : (int * int) route) : string =
  match r.paths with
  | [] -> Printf.sprintf "-/%d" (int_of_nat r.ecmp)
  | ps -> Printf.sprintf "%s/%d" (String.concat "." (List.map (fun (o, _) -> string_of_int (int_of_nat o)) ps))
            (int_of_nat r.ecmp)

let veq (a : int * int) (b : int * int) = a = b

let () =
  let compared = ref 0 and mism = ref 0 and selcalls = ref 0 in
  iter_trace Sys.argv.(1) (fun id inp obs ->
    incr compared;
    if obs = ["PANIC"] then
      (incr mism; Printf.printf "CORR-MISMATCH case=%s impl panicked; the model is evaluated only on completed histories\n" id)
    else begin
      let recorded = ref None in
      let sel (_t : nat) (l : (int * int) entry list) : (int * int) entry list * nat =
        incr selcalls;
        match !recorded with
        | None -> raise (Bad "model runs path selection where the implementation reports no route change")
        | Some (ids, e) ->
          let have = List.sort compare (List.map (fun (o, _) -> int_of_nat o) l) in
          if have <> List.sort compare ids then
            raise (Bad (Printf.sprintf "stored paths differ: model has objects [%s] before selection, implementation selected [%s]"
                          (String.concat "," (List.map string_of_int have))
                          (String.concat "," (List.map string_of_int ids))));
          if e > List.length ids then raise (Bad "implementation reports an ECMP count above the number of paths");
          (List.map (fun i -> List.find (fun (o, _) -> int_of_nat o = i) l) ids, nat_of_int e) in
      let st = ref init and tr = ref [] in
      (try
         List.iteri (fun i tok ->
           let io = (try List.nth obs i with _ -> raise (Bad "observation missing")) in
           let isel, icb = match String.index_opt io '!' with
             | Some k -> String.sub io 0 k, String.sub io (k + 1) (String.length io - k - 1)
             | None -> raise (Bad ("observation " ^ io)) in
           let o, p = parse_op tok in
           recorded := (if isel = "_" then None else Some (parse_sel isel));
           (match step veq veq sel !st o with
            | Panic -> raise (Bad (Printf.sprintf "after=%d model panics (slice out of range), implementation does not" i))
            | Ok (st', cbs) ->
              st := st'; tr := !tr @ [(o, cbs)];
              if p >= 0 then begin
                let mr = render_route (route_at st' (nat_of_int p)) in
                if mr <> isel then raise (Bad (Printf.sprintf "after=%d op=%s route model=%s impl=%s" i tok mr isel))
              end;
              let mc = render_cbs cbs in
              if mc <> icb then raise (Bad (Printf.sprintf "after=%d op=%s callbacks model=%s impl=%s" i tok mc icb))))
           inp;
         (* extracted specification on the final state: every registered client, every prefix *)
         List.iter (fun (c, o) ->
           for p = 0 to 2 do
             let w = List.sort compare (List.map estr (want o (route_at !st (nat_of_int p)))) in
             match held c (nat_of_int p) !tr with
             | None -> Printf.printf "SPEC-VIOLATION case=%s sig=model-remove-of-path-not-held client=%d prefix=%d\n" id (int_of_nat c) p
             | Some h ->
               if List.sort compare (List.map estr h) <> w then
                 Printf.printf "SPEC-VIOLATION case=%s sig=model-held-differs-from-want client=%d prefix=%d\n" id (int_of_nat c) p
           done) !st.clients
       with
       | Bad m -> incr mism; Printf.printf "CORR-MISMATCH case=%s %s\n" id m
       | Failure m | Invalid_argument m -> incr mism; Printf.printf "CORR-MISMATCH case=%s unreadable trace (%s)\n" id m
       | Not_found -> incr mism; Printf.printf "CORR-MISMATCH case=%s unreadable trace\n" id)
    end);
  Printf.printf "STATS compared=%d mismatches=%d selections=%d\n" !compared !mism !selcalls
