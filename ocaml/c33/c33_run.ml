(* C33 modelrun: replay each case through the extracted Model.Ifa.step and compare, event by event,
   with what the harness observed on the implementation (outcome, per-interface state, number of
   hellos in the following hello interval, whether an adjacency could form on the first interface). *)
let b x = if x then 1 else 0

let state_tok (f : ifa) : string =
  Printf.sprintf "k%du%di%dd%de%dc%dn%ds%d" (b f.dev_known) (b f.oper_up) (b f.initialized) (b f.done_closed)
    (b (f.eth <> NoHandle)) (b (f.eth = Closed)) (int_of_nat f.handles) (b f.subscribed)

let panic_tok = function
  | CloseOfClosedChannel -> "panic:close-closed"
  | NilHandle -> "panic:nil-deref"
  | NilDevStatus -> "panic:nil-deref"

let () =
  let compared = ref 0 and mism = ref 0 in
  iter_trace Sys.argv.(1) (fun id inp obs ->
    match inp with
    | [] -> ()
    | ifs :: evs ->
      let kinds = String.sub ifs 4 (String.length ifs - 4) in
      let s = ref (init (List.init (String.length kinds) (fun i -> kinds.[i] = 'p'))) in
      let out = ref [] and stopped = ref false in
      List.iter (fun t ->
        if not !stopped then begin
          let up = t.[0] = 'U' in
          let i = Char.code t.[1] - Char.code '0' in
          let ev = if String.length t = 3 then
              DevDuring (nat_of_int i, up, (if t.[2] = 't' then TickDuring else FrameDuring))
            else Dev (nat_of_int i, up) in
          match step head_discipline !s ev with
          | Ok (s', (d, hs)) ->
            s := s';
            let h = List.fold_left (fun a x -> a + int_of_nat x) 0 hs in
            let a = match s' with f :: _ -> can_form_adjacency f | [] -> false in
            out := (String.concat "/" ("ok" :: List.map state_tok s')
                    ^ Printf.sprintf "/t%d/h%d/a%d/g1" (int_of_nat d) h (b a)) :: !out
          | Panic p -> out := panic_tok p :: !out; stopped := true
          | Blocked _ -> out := (if String.length t = 3 then "blocked:during-update" else "blocked:device-update") :: !out; stopped := true
        end) evs;
      let mo = List.rev !out in
      let mo = if mo = [] then ["-"] else mo in
      incr compared;
      let rec cmp k m i =
        match m, i with
        | [], [] -> ()
        | x :: m', y :: i' when x = y -> cmp (k + 1) m' i'
        | x :: _, y :: _ ->
          incr mism; Printf.printf "CORR-MISMATCH case=%s event=%d model=%s impl=%s\n" id k x y
        | x :: _, [] -> incr mism; Printf.printf "CORR-MISMATCH case=%s event=%d model=%s impl=<nothing>\n" id k x
        | [], y :: _ -> incr mism; Printf.printf "CORR-MISMATCH case=%s event=%d model=<nothing> impl=%s\n" id k y in
      cmp 0 mo obs);
  Printf.printf "STATS compared=%d mismatches=%d\n" !compared !mism
