(* C01 modelrun: replay each case through the extracted trie model (Model.Trie: bit-string
   instance; for T=rn cases the raw IPv4 instance of Model.TrieRaw) and compare every
   observation token with what the implementation answered.
   Token formats: see harness/cmd/c01/main.go. *)
let bits_of_string (s : string) : bool list =
  if s = "_" then [] else List.init (String.length s) (fun i -> s.[i] = '1')

let string_of_bits (b : bool list) : string =
  if b = [] then "_" else String.concat "" (List.map (fun x -> if x then "1" else "0") b)

let fmt_paths (ps : n list) : string =
  if ps = [] then "e" else
    String.concat "." (List.map string_of_int (List.sort compare (List.map int_of_n ps)))

let path (s : string) : n = n_of_int (int_of_string s)

(* one model instance: 'p prefixes, 't tables *)
type ('p, 't) inst = {
  parse : string -> 'p;
  show : 'p -> string;
  empty : 't;
  step : 't -> ('p, n) op -> 't;
  get : 't -> 'p -> ('p * n list) option;
  lpm : 't -> 'p -> ('p * n list) list;
  longer : 't -> 'p -> ('p * n list) list;
  dump : 't -> ('p * n list) list;
  count : 't -> z;
}

let canon : (bool list, n btable) inst = {
  parse = bits_of_string; show = string_of_bits; empty = x_empty; step = x_step;
  get = x_get; lpm = x_lpm; longer = x_longer; dump = x_dump; count = x_count }

let raw : (rpfx, n rtable) inst = {
  parse = (fun s ->
    match String.split_on_char '/' s with
    | [a; l] -> { raddr = bits_of_string a; rlen = nat_of_int (int_of_string l) }
    | _ -> failwith ("bad raw prefix " ^ s));
  show = (fun p -> string_of_bits p.raddr ^ "/" ^ string_of_int (int_of_nat p.rlen));
  empty = x_r_empty; step = x_r_step;
  get = x_r_get; lpm = x_r_lpm; longer = x_r_longer; dump = x_r_dump; count = x_r_count }

(* machine-word prefixes (Model/NetArith.v records) from bit strings *)
let z_of_bits (b : bool list) : z =
  let rec strip = function false :: r -> strip r | l -> l in
  match strip b with
  | [] -> Z0
  | _ :: rest -> Zpos (List.fold_left (fun acc x -> if x then XI acc else XO acc) XH rest)

let pad (w : int) (b : bool list) : bool list = b @ List.init (w - List.length b) (fun _ -> false)
let rec take n l = if n <= 0 then [] else match l with [] -> [] | x :: r -> x :: take (n - 1) r
let rec drop n l = if n <= 0 then l else match l with [] -> [] | _ :: r -> drop (n - 1) r

let word_pfx (w : int) (addrbits : bool list) (len : int) : pfx =
  let a = pad w addrbits in
  if w = 32 then { addr = { hi = Z0; lo = z_of_bits a; legacy = true }; plen = z_of_int len }
  else { addr = { hi = z_of_bits (take 64 a); lo = z_of_bits (drop 64 a); legacy = false }; plen = z_of_int len }

(* the trie over machine words with the prefix operations regenerated from the Go source *)
let word (w : int) : (pfx, (pfx, n) table) inst = {
  parse = (fun s ->
    match String.split_on_char '/' s with
    | [a; l] -> word_pfx w (bits_of_string a) (int_of_string l)          (* raw: all address bits + length *)
    | _ -> let b = bits_of_string s in word_pfx w b (List.length b));
  show = (fun p -> "w" ^ hex_of_z p.addr.hi ^ ":" ^ hex_of_z p.addr.lo ^ "/" ^ string_of_int (int_of_z p.plen));
  empty = x_g_empty; step = x_g_step;
  get = x_g_get; lpm = x_g_lpm; longer = x_g_longer; dump = x_g_dump; count = x_g_count }

let obs_n = ref 0

(* returns Some (token index, token, model, impl) for the first differing observation *)
let run_case (type p t) (m : (p, t) inst) (inp : string list) (obs : string list) =
  let pool = ref [||] in
  let t = ref m.empty in
  let rest = ref obs in
  let bad = ref None in
  let index_of (b : p) : int =
    let r = ref (-1) in
    Array.iteri (fun i x -> if !r < 0 && x = b then r := i) !pool; !r in
  let fmt_set rs =
    if rs = [] then "-" else
      String.concat ";" (List.sort compare (List.map (fun (b, ps) ->
        let i = index_of b in
        if i >= 0 then Printf.sprintf "%d:%s" i (fmt_paths ps)
        else Printf.sprintf "?%s:%s" (m.show b) (fmt_paths ps)) rs)) in
  let observe tokidx tok mo =
    incr obs_n;
    match !rest with
    | [] -> if !bad = None then bad := Some (tokidx, tok, mo, "<missing>")
    | io :: r -> rest := r; if !bad = None && io <> mo then bad := Some (tokidx, tok, mo, io) in
  List.iteri (fun i tok ->
    let body = String.sub tok 1 (String.length tok - 1) in
    let parts = String.split_on_char ':' body in
    let pfx () = (!pool).(int_of_string (List.hd parts)) in
    match tok.[0] with
    | 'T' | 'W' -> ()
    | 'P' ->
      pool := Array.of_list (List.map m.parse
                (String.split_on_char ',' (String.sub tok 2 (String.length tok - 2))))
    | 'a' -> t := m.step !t (Add (pfx (), path (List.nth parts 1)))
    | 'r' -> t := m.step !t (Remove (pfx (), path (List.nth parts 1)))
    | 'p' -> t := m.step !t (Replace (pfx (), path (List.nth parts 1)))
    | 'x' -> t := m.step !t (RemovePfx (pfx ()))
    | 's' -> t := m.step !t (Subst (pfx (), path (List.nth parts 1), path (List.nth parts 2)))
    | 'q' ->
      let q = pfx () in
      let g = match m.get !t q with
        | None -> "-"
        | Some (b, ps) -> if b = q then fmt_paths ps else "?" ^ m.show b ^ ":" ^ fmt_paths ps in
      observe i tok (Printf.sprintf "G%s|L%s|M%s" g (fmt_set (m.lpm !t q)) (fmt_set (m.longer !t q)))
    | 'd' ->
      observe i tok (Printf.sprintf "D%s|C%d" (fmt_set (m.dump !t)) (int_of_z (m.count !t)))
    | _ -> failwith ("bad token " ^ tok)) inp;
  !bad

let () =
  let compared = ref 0 and mism = ref 0 and nraw = ref 0 and rawmism = ref 0 and nword = ref 0 in
  iter_trace Sys.argv.(1) (fun id inp obs ->
    incr compared;
    let israw = List.mem "T=rn" inp in
    (* Behaviour on non-canonical prefixes is outside the property: a difference there is reported as a
       note (the companion statement C01_noncanonical_refuted no longer describes the code), never as a
       broken correspondence. *)
    let report fmt =
      if israw then (incr rawmism; Printf.printf ("RAW-NOTE " ^^ fmt)) else (incr mism; Printf.printf ("CORR-MISMATCH " ^^ fmt)) in
    if obs = ["PANIC"] then
      report "case=%s impl panicked, model does not\n" id
    else begin
      let bad = if israw then (incr nraw; run_case raw inp obs) else run_case canon inp obs in
      (match bad with
       | None -> ()
       | Some (i, tok, mo, io) -> report "case=%s token=%d(%s) model=%s impl=%s\n" id i tok mo io);
      (* second model: the machine-word instance (C01_refines_ipv4/6_gen are about it) *)
      let w = if List.mem "W=6" inp then 128 else 32 in
      incr nword;
      match run_case (word w) inp obs with
      | None -> ()
      | Some (i, tok, mo, io) -> report "case=%s word-model: token=%d(%s) model=%s impl=%s\n" id i tok mo io
    end);
  Printf.printf "STATS compared=%d mismatches=%d observations=%d raw_cases=%d raw_mismatches=%d word_model_cases=%d\n"
    !compared !mism !obs_n !nraw !rawmism !nword
