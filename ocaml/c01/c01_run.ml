(* C01 modelrun: replay each case through the extracted trie model (Model.Trie, bit-string
   instance) and compare every observation token with what the implementation answered.
   Token formats: see harness/cmd/c01/main.go. *)
let bits_of_string (s : string) : bool list =
  if s = "_" then [] else List.init (String.length s) (fun i -> s.[i] = '1')

let string_of_bits (b : bool list) : string =
  if b = [] then "_" else String.concat "" (List.map (fun x -> if x then "1" else "0") b)

let fmt_paths (ps : n list) : string =
  if ps = [] then "e" else
    String.concat "." (List.map string_of_int (List.sort compare (List.map int_of_n ps)))

let index_of (pool : bool list array) (b : bool list) : int =
  let r = ref (-1) in
  Array.iteri (fun i p -> if !r < 0 && p = b then r := i) pool; !r

let fmt_set (pool : bool list array) (rs : (bool list * n list) list) : string =
  if rs = [] then "-" else
    String.concat ";" (List.sort compare (List.map (fun (b, ps) ->
      let i = index_of pool b in
      if i >= 0 then Printf.sprintf "%d:%s" i (fmt_paths ps)
      else Printf.sprintf "?%s:%s" (string_of_bits b) (fmt_paths ps)) rs))

let path (s : string) : n = n_of_int (int_of_string s)

let () =
  let compared = ref 0 and mism = ref 0 and obs_n = ref 0 in
  iter_trace Sys.argv.(1) (fun id inp obs ->
    incr compared;
    if obs = ["PANIC"] then
      (incr mism; Printf.printf "CORR-MISMATCH case=%s impl panicked, model does not\n" id)
    else begin
      let pool = ref [||] in
      let t = ref x_empty in
      let rest = ref obs in
      let bad = ref None in
      let observe (tokidx : int) (tok : string) (mo : string) =
        incr obs_n;
        match !rest with
        | [] -> if !bad = None then bad := Some (tokidx, tok, mo, "<missing>")
        | io :: r -> rest := r; if !bad = None && io <> mo then bad := Some (tokidx, tok, mo, io) in
      List.iteri (fun i tok ->
        let body = String.sub tok 1 (String.length tok - 1) in
        let parts = String.split_on_char ':' body in
        let pfx () = (!pool).(int_of_string (List.hd parts)) in
        match tok.[0] with
        | 'T' | 'W' -> ()
        | 'P' ->
          pool := Array.of_list (List.map bits_of_string
                    (String.split_on_char ',' (String.sub tok 2 (String.length tok - 2))))
        | 'a' -> t := x_step !t (Add (pfx (), path (List.nth parts 1)))
        | 'r' -> t := x_step !t (Remove (pfx (), path (List.nth parts 1)))
        | 'p' -> t := x_step !t (Replace (pfx (), path (List.nth parts 1)))
        | 'x' -> t := x_step !t (RemovePfx (pfx ()))
        | 's' -> t := x_step !t (Subst (pfx (), path (List.nth parts 1), path (List.nth parts 2)))
        | 'q' ->
          let q = pfx () in
          let g = match x_get !t q with
            | None -> "-"
            | Some (b, ps) -> if b = q then fmt_paths ps else "?" ^ string_of_bits b ^ ":" ^ fmt_paths ps in
          observe i tok (Printf.sprintf "G%s|L%s|M%s" g (fmt_set !pool (x_lpm !t q)) (fmt_set !pool (x_longer !t q)))
        | 'd' ->
          observe i tok (Printf.sprintf "D%s|C%d" (fmt_set !pool (x_dump !t)) (int_of_z (x_count !t)))
        | _ -> failwith ("bad token " ^ tok)) inp;
      (match !bad with
       | None -> ()
       | Some (i, tok, mo, io) ->
         incr mism;
         Printf.printf "CORR-MISMATCH case=%s token=%d(%s) model=%s impl=%s\n" id i tok mo io)
    end);
  Printf.printf "STATS compared=%d mismatches=%d observations=%d\n" !compared !mism !obs_n
