(* C02/C03 modelrun: replays every case of the trace through the extracted model
   (Model.PathSel: path_select, path_ecmp, path_compare, path_equal, ecmp_count, run_exec) and
   compares with what the implementation did. Lists of paths are compared as lists of keys
   (Spec.PathSelSpec.pkey), i.e. modulo the order of Select-tied paths: sort.Slice is not stable. *)

let n_of_u64 (x : int64) : n =
  if x = 0L then N0 else
    let rec go x =
      if x = 1L then XH else
        let r = go (Int64.shift_right_logical x 1) in
        if Int64.logand x 1L = 1L then XI r else XO r in
    Npos (go x)
let n_of_dec (s : string) : n = n_of_u64 (Int64.of_string ("0u" ^ s))

let parse_ip (s : string) : ip =
  let s = if String.length s > 0 && s.[0] = 'L' then String.sub s 1 (String.length s - 1) else s in
  match String.split_on_char ':' s with
  | [h; l] -> { ip_hi = n_of_dec h; ip_lo = n_of_dec l }
  | _ -> failwith ("bad ip " ^ s)

let parse_path (t : string) : path =
  match String.split_on_char '/' t with
  | ["s"; nh; _] | ["s"; nh] -> { ptype = n_of_int 1; pstatic = Some (parse_ip nh); pbgp = None }
  | ["x"; ty] -> { ptype = n_of_int (int_of_string ty); pstatic = None; pbgp = None }
  | "b" :: lp :: aslen :: origin :: med :: ebgp :: bgpid :: origid :: cl :: src :: nh :: pathid :: other :: ign
    when List.length ign <= 1 ->   (* ign: attributes neither Select nor Compare may read - not in the model *)
    let cl = match cl with
      | "n" -> None
      | "e" -> Some []
      | s -> Some (List.map n_of_dec (String.split_on_char '.' s)) in
    let b = { lp = n_of_dec lp; aslen = n_of_dec aslen; origin = n_of_dec origin; med = n_of_dec med;
              ebgp = (ebgp = "1"); bgpid = n_of_dec bgpid; origid = n_of_dec origid; clist = cl;
              src = parse_ip src; nh = parse_ip nh; pathid = n_of_dec pathid; other = n_of_dec other } in
    { ptype = n_of_int 2; pstatic = None; pbgp = Some b }
  | _ -> failwith ("bad path token " ^ t)

let z_tok = function Ok z -> string_of_int (int_of_z z) | Panic -> "P"
let b_tok = function Ok true -> "1" | Ok false -> "0" | Panic -> "P"

let compared = ref 0 and mism = ref 0
let mismatch id fmt = Printf.ksprintf (fun s -> incr mism; Printf.printf "CORR-MISMATCH case=%s %s\n" id s) fmt

let rec split_on (sep : string) (l : string list) : string list list =
  match l with
  | [] -> [[]]
  | x :: r when x = sep -> [] :: split_on sep r
  | x :: r -> (match split_on sep r with h :: t -> (x :: h) :: t | [] -> [[x]])

let run_pair id a b obs =
  let a = parse_path a and b = parse_path b in
  let m = Printf.sprintf "sel=%s rev=%s ecmp=%s cmp=%s eq=%s"
      (z_tok (path_select a b)) (z_tok (path_select b a)) (b_tok (path_ecmp a b))
      (b_tok (path_compare a b)) (b_tok (path_equal a b)) in
  let i = String.concat " " obs in
  if m <> i then mismatch id "pair model=[%s] impl=[%s]" m i

let run_triple id a b c obs =
  let a = parse_path a and b = parse_path b and c = parse_path c in
  let m = String.concat "," (List.map z_tok
      [path_select a b; path_select b a; path_select b c; path_select c b; path_select a c; path_select c a]) in
  let i = String.concat " " obs in
  if m <> i then mismatch id "triple model=[%s] impl=[%s]" m i

let run_group id inp obs =
  match split_on "|" inp with
  | [ptoks; optoks] ->
    let paths = Array.of_list (List.map parse_path ptoks) in
    let hists = split_on ";" optoks and ohists = split_on ";" obs in
    if List.length hists <> List.length ohists then mismatch id "group: %d histories, %d observed" (List.length hists) (List.length ohists)
    else begin
      let bad = ref false in
      List.iteri (fun hi (ops, os) ->
        let st = ref (Ok []) in
        let os = ref os in
        List.iteri (fun oi o ->
          if not !bad then begin
            match !st, !os with
            | Panic, _ -> ()                      (* the model history ended in a panic *)
            | Ok _, [] -> ()                      (* the implementation's history ended (PANIC reported below) *)
            | Ok s, io :: rest ->
              os := rest;
              let k = int_of_string (String.sub o 1 (String.length o - 1)) in
              let op = if o.[0] = '+' then Add paths.(k) else Remove paths.(k) in
              st := run_exec s [op];
              (match !st with
               | Panic ->
                 if io <> "PANIC" then (bad := true; mismatch id "history %d op %d: model panics, impl=%s" hi oi io)
               | Ok s' ->
                 if io = "PANIC" then (bad := true; os := []; mismatch id "history %d op %d: impl panics, model does not" hi oi)
                 else begin
                   match String.split_on_char '/' io with
                   | [l; e] ->
                     let idx = if l = "-" then [] else List.map int_of_string (String.split_on_char ',' l) in
                     let ik = List.map (fun i -> if i < 0 then None else pkey paths.(i)) idx in
                     let mk = List.map pkey s' in
                     let me = (match ecmp_count s' with Ok n -> string_of_int (int_of_n n) | Panic -> "P") in
                     if ik <> mk then (bad := true; mismatch id "history %d op %d: key lists differ (impl %s, model has %d paths)" hi oi io (List.length s'))
                     else if me <> e then (bad := true; mismatch id "history %d op %d: ecmp count model=%s impl=%s" hi oi me e)
                   | _ -> bad := true; mismatch id "history %d op %d: bad observation %s" hi oi io
                 end)
          end) ops) (List.combine hists ohists)
    end
  | _ -> mismatch id "bad group input"

let () =
  iter_trace Sys.argv.(1) (fun id inp obs ->
    incr compared;
    try
      match inp with
      | ["P"; a; b] -> run_pair id a b obs
      | ["T"; a; b; c] -> run_triple id a b c obs
      | "G" :: rest -> run_group id rest obs
      | _ -> mismatch id "unknown case kind"
    with Failure m -> mismatch id "driver failure: %s" m | Invalid_argument m -> mismatch id "driver failure: %s" m);
  Printf.printf "STATS compared=%d mismatches=%d\n" !compared !mism
