(* C25 model driver.  The "model" of C25 is the set of tables extracted by tools/locktab and the
   checks of Spec/LockSpec.v evaluated on them.  The driver
   (1) re-runs the extracted acyclic_check on the evaluated lock-order graph and reports every
       table row that violates the discipline (known exception sites -> listed signatures, anything
       else -> a new violation),
   (2) ties the tables to the implementation: every deadlock witness the harness ran must hang
       exactly when the corresponding exception row is (still) in the tables, and every stress case
       over operations the tables declare deadlock-free must complete. *)
let str (cs : n list) : string = String.concat "" (List.map (fun c -> String.make 1 (Char.chr (int_of_n c))) cs)
let us (s : string) : string = String.map (fun c -> if c = ' ' then '_' else c) s

let has_row rows (want : string list) : bool =
  List.exists (fun (v, fs) -> (v = RowKnown || v = RowNew) && List.map str fs = want) rows

let () =
  let corr_only = Array.length Sys.argv > 2 && Sys.argv.(2) = "corr-only" in
  let rows = ref 0 in
  if not corr_only then begin
    (* lock order *)
    List.iter (fun (v, fs) ->
      incr rows;
      match v, List.map str fs with
      | RowKnown, [a; b; h] -> Printf.printf "SPEC-VIOLATION case=table sig=lock-order:%s->%s@%s acquired while held (table row)\n" a b h
      | RowBenign, [a; b; h] -> Printf.printf "NOTE benign lock-order exception %s->%s@%s\n" a b h
      | _ -> ()) x_edge_rows;
    if not (acyclic_check x_good_edges) then begin
      let c = match x_good_cycle with Some w -> String.concat "->" (List.map str w) | None -> "?" in
      Printf.printf "SPEC-VIOLATION case=table sig=lock-order-cycle:%s the lock-order graph without the listed exception sites has a cycle\n" c
    end;
    (match x_all_cycle with
     | Some w -> Printf.printf "NOTE full graph cycle: %s\n" (String.concat "->" (List.map str w))
     | None -> Printf.printf "NOTE full graph is acyclic\n");
    List.iter (fun (v, fs) ->
      incr rows;
      match v, List.map str fs with
      | (RowKnown | RowNew), [f; l] -> Printf.printf "SPEC-VIOLATION case=table sig=lock-leak:%s:%s function can return with the lock held\n" f l
      | RowBenign, [f; l] -> Printf.printf "NOTE benign leak exception %s:%s\n" f l
      | _ -> ()) x_leak_rows;
    List.iter (fun (v, fs) ->
      incr rows;
      match v, List.map str fs with
      | (RowKnown | RowNew), [f; op] -> Printf.printf "SPEC-VIOLATION case=table sig=rendezvous-under-lock:%s:%s blocking channel operation with a lock held\n" f (us op)
      | RowBenign, [f; op] -> Printf.printf "NOTE benign rendezvous exception %s:%s\n" f (us op)
      | _ -> ()) x_rdv_rows;
    List.iter (fun fs ->
      incr rows;
      match List.map str fs with
      | [f; d] -> Printf.printf "SPEC-VIOLATION case=table sig=dynamic-call-under-lock:%s:%s call through a function value with a lock held\n" f (us d)
      | _ -> ()) x_dyn_rows
  end;
  (* correspondence with the harness run *)
  let compared = ref 0 and mism = ref 0 in
  iter_trace Sys.argv.(1) (fun id inp obs ->
    let o = match obs with x :: _ -> x | [] -> "?" in
    let expect_deadlock =
      match inp with
      | ["witness"; "lockorder-locrib-adjribout"] ->
        Some (List.exists (fun (v, fs) -> v = RowKnown && (match List.map str fs with
              | [a; b; _] -> a = "adjRIBOut.AdjRIBOut.mu" && b = "locRIB.LocRIB.mu" | _ -> false)) x_edge_rows)
      | ["witness"; "leak-register-after-dispose"] ->
        Some (has_row x_leak_rows ["routingtable.ClientManager.RegisterWithOptions"; "routingtable.ClientManager.mu"])
      | ["witness"; "stop-after-cease"] ->
        Some (has_row x_rdv_rows ["server.peer.stop"; "send server.FSM.eventCh"])
      | ["witness"; "refresh-addpath-nonpropagated"] -> Some false (* regression: must complete *)
      | "stress" :: _ -> Some false
      | _ -> None in
    match expect_deadlock with
    | None -> ()
    | Some e ->
      incr compared;
      let got = (o = "DEADLOCK") in
      if o <> "OK" && o <> "DEADLOCK" then
        (incr mism; Printf.printf "CORR-MISMATCH case=%s implementation=%s (neither completion nor deadlock)\n" id (String.concat " " obs))
      else if e <> got then
        (incr mism; Printf.printf "CORR-MISMATCH case=%s tables predict %s, implementation: %s\n" id
           (if e then "a deadlock (exception row present)" else "completion") (String.concat " " obs)));
  Printf.printf "STATS compared=%d mismatches=%d rows=%d locks=%d functions=%d\n" !compared !mism !rows
    (int_of_n (List.nth x_counts 0)) (int_of_n (List.nth x_counts 4))
