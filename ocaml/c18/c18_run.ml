(* C18 modelrun: replay each case through the extracted packing model (Model.UpdateSender.pack,
   budget, msg_total, batch_wire) and compare with what the implementation did. *)
let parse_cfg (s : string) : cfg =
  match String.split_on_char '/' s with
  | [f; ap; a4; ib; rr] ->
    { c_fam = (match f with "v4" -> V4 | "v4mp" -> V4MP | "v6" -> V6MP | _ -> failwith ("bad family " ^ f));
      c_addpath = (ap = "1"); c_asn4 = (a4 = "1"); c_ibgp = (ib = "1"); c_rr = (rr = "1") }
  | _ -> failwith ("bad cfg " ^ s)

let parse_ints (s : string) : int list =
  if s = "-" || s = "" then [] else List.map int_of_string (String.split_on_char '.' s)

let parse_shape (tag : int) (pid : int) (s : string) : path =
  let kv = List.map (fun t -> match String.index_opt t '=' with
      | Some i -> (String.sub t 0 i, String.sub t (i + 1) (String.length t - i - 1))
      | None -> failwith ("bad shape " ^ s)) (String.split_on_char ',' s) in
  let get k = try List.assoc k kv with Not_found -> failwith ("shape lacks " ^ k) in
  let b k = get k = "1" and n k = n_of_int (int_of_string (get k)) in
  { p_tag = n_of_int tag; p_pid = n_of_int pid;
    p_segs = List.map n_of_int (parse_ints (get "s"));
    p_med = b "m"; p_atomic = b "t"; p_aggr = b "g"; p_orig = b "o"; p_otc = b "c";
    p_clist = n "cl"; p_comms = n "co"; p_lcomms = n "lc";
    p_unk = List.map n_of_int (parse_ints (get "u")) }

let max_idx (l : int) : int = if l >= 40 then 1 lsl 40 else 1 lsl l

(* the prefixes of a case: (idx, len) pairs in queue order, the i-th prefix of a length has index i *)
let prefixes (runs : string) : pfx list =
  let next = Hashtbl.create 8 in
  let out = ref [] in
  List.iter (fun r ->
      match String.split_on_char '*' r with
      | [l; n] ->
        let l = int_of_string l and n = int_of_string n in
        (try
           for _ = 1 to n do
             let idx = try Hashtbl.find next l with Not_found -> 0 in
             if idx >= max_idx l then raise Exit;
             Hashtbl.replace next l (idx + 1);
             out := { x_addr = n_of_int idx; x_len = n_of_int l } :: !out
           done
         with Exit -> ())
      | _ -> failwith ("bad run " ^ r)) (String.split_on_char ',' runs);
  List.rev !out

let hmod = 1000000007
let nlri_hash (xs : pfx list) : int =
  let h = ref 0 in
  List.iteri (fun j x ->
      h := (!h + (j + 1) * ((int_of_n x.x_addr * 131 + int_of_n x.x_len + 1) mod hmod)) mod hmod) xs;
  !h

let join sep = function [] -> "-" | l -> String.concat sep l

let model_obs (c : cfg) (p : path) (xs : pfx list) : string =
  let split = if xs = [] then [] else pack c p xs in
  let wire = if xs = [] then [] else batch_wire c p xs in
  let w = List.filter_map (function
      | MAnn (_, _, len, l) -> Some (Printf.sprintf "%d:%d:%d" (int_of_z len) (List.length l) (nlri_hash l))
      | _ -> None) wire in
  Printf.sprintf "budget=%d split=%s wire=%s attrs=ok pid=ok" (int_of_z (budget c p))
    (join "." (List.map (fun l -> string_of_int (List.length l)) split)) (join "/" w)

(* a case run on the real sender goroutine: replay q (AddPath), B (blocked in a Write: Dequeue if nothing is
   in flight), m (the Write completed: EmitOne) through the extracted transition function *)
let model_real (c : cfg) (p : path) (xs : pfx list) (obs : string list) : string option =
  let arr = Array.of_list xs in
  let s = ref init in
  let err = ref None in
  let fail m = if !err = None then err := Some m in
  let stepo l = match step c !s l with Some s' -> s := s' | None -> fail "label not enabled in the model" in
  List.iteri (fun i tok ->
      if !err = None then
        match tok.[0] with
        | 'q' ->
          (match String.split_on_char '-' (String.sub tok 1 (String.length tok - 1)) with
           | [a; b] -> for j = int_of_string a to int_of_string b - 1 do stepo (Add (arr.(j), p)) done
           | _ -> fail ("bad token " ^ tok))
        | 'B' -> if !s.inflight = None then stepo (Dequeue (pkey p))
        | 'm' ->
          let old = !s.wire in
          stepo EmitOne;
          let got = match !s.wire with
            | MAnn (_, _, len, l) :: r when r == old ->
              Printf.sprintf "m%d:%d:%d" (int_of_z len) (List.length l) (nlri_hash l)
            | _ -> "m<nothing written>" in
          if got <> tok then fail (Printf.sprintf "step=%d model=%s impl=%s" i got tok)
        | 'a' -> if tok <> "attrs=ok" then fail ("impl " ^ tok)
        | 'p' -> if tok <> "pid=ok" then fail ("impl " ^ tok)
        | 'S' -> fail "the implementation's sender goroutine stalled"
        | _ -> fail ("unknown token " ^ tok)) obs;
  if !err = None && not (quiescent !s) then
    fail "the implementation is quiescent, the model still has prefixes queued or in flight";
  !err

let () =
  let compared = ref 0 and mism = ref 0 in
  iter_trace Sys.argv.(1) (fun id inp obs ->
    incr compared;
    try
      match inp with
      | [cs; ss; ps; runs] ->
        let c = parse_cfg cs in
        let pid = int_of_string (String.sub ps 4 (String.length ps - 4)) in
        let p = parse_shape 7 pid ss in
        let xs = prefixes runs in
        let mo = split_ws (model_obs c p xs) in
        if mo <> obs then begin
          incr mism;
          let rec first a b = match a, b with
            | x :: a', y :: b' -> if x = y then first a' b' else (x, y)
            | x :: _, [] -> (x, "<missing>")
            | [], y :: _ -> ("<missing>", y)
            | [], [] -> ("", "") in
          let (m, i) = first mo obs in
          let cut s = if String.length s > 300 then String.sub s 0 300 ^ "..." else s in
          Printf.printf "CORR-MISMATCH case=%s model=%s impl=%s\n" id (cut m) (cut i)
        end
      | [cs; ss; ps; runs; _real] ->
        let c = parse_cfg cs in
        let pid = int_of_string (String.sub ps 4 (String.length ps - 4)) in
        let p = parse_shape 7 pid ss in
        (match model_real c p (prefixes runs) obs with
         | None -> ()
         | Some m -> incr mism; Printf.printf "CORR-MISMATCH case=%s real-goroutine %s\n" id m)
      | _ -> incr mism; Printf.printf "CORR-MISMATCH case=%s unparsable input\n" id
    with e -> incr mism; Printf.printf "MODEL-ERROR case=%s %s\n" id (Printexc.to_string e));
  Printf.printf "STATS compared=%d mismatches=%d\n" !compared !mism
