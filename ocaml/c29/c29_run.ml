(* C29 modelrun: replay each case through the extracted model (Model.Merged.step) and the
   extracted spec (Spec.MergedSpec.spec_step); compare with the implementation's observations. *)
let parse_op (t : string) : op =
  let body = String.sub t 1 (String.length t - 1) in
  match t.[0] with
  | 'd' -> Drop (n_of_int (int_of_string body))
  | k ->
    (match String.split_on_char ':' body with
     | [s; r] ->
       let s = n_of_int (int_of_string s) and r = n_of_int (int_of_string r) in
       if k = 'a' then Add (s, r) else Remove (s, r)
     | _ -> failwith ("bad op " ^ t))

let obs_of_state (t : st) : string =
  let ids = List.sort compare (List.map int_of_n (rib t)) in
  (* count multiplicities *)
  let rec grp = function
    | [] -> []
    | x :: r ->
      let same, rest = List.partition (fun y -> y = x) r in
      (x, 1 + List.length same) :: grp rest in
  let g = grp ids in
  let ps = if g = [] then "-" else
      String.concat "," (List.sort compare (List.map (fun (i, c) -> Printf.sprintf "%dx%d" i c) g)) in
  Printf.sprintf "%s/%d/%d" ps (int_of_n (unique_count t)) (int_of_n (single_source_count t))

let () =
  let compared = ref 0 and mism = ref 0 in
  iter_trace Sys.argv.(1) (fun id inp obs ->
    if obs = ["PANIC"] then
      (incr mism; Printf.printf "CORR-MISMATCH case=%s impl panicked, model does not\n" id)
    else begin
      (* via=direct|ris only tells the harness how to drive the implementation; the glue maps stream
         events to the same operations (Model.Merged.glue) *)
      let inp = List.filter (fun t -> not (String.length t > 4 && String.sub t 0 4 = "via=")) inp in
      let ops = List.map parse_op inp in
      let t = ref empty and a = ref [] in
      let bad = ref None in
      List.iteri (fun i o ->
        t := step !t o; a := spec_step !a o;
        let mo = obs_of_state !t in
        let io = (try List.nth obs i with _ -> "<missing>") in
        if !bad = None && mo <> io then bad := Some (i, mo, io);
        (* spec oracle on the model itself: present iff advertised *)
        ()) ops;
      incr compared;
      match !bad with
      | None -> ()
      | Some (i, mo, io) ->
        incr mism;
        Printf.printf "CORR-MISMATCH case=%s after=%d model=%s impl=%s\n" id i mo io
    end);
  Printf.printf "STATS compared=%d mismatches=%d\n" !compared !mism
