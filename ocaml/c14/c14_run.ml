(* C14 modelrun: replay each case through the extracted model (Model.Policy.process /
   chain_equal) and compare with the implementation's observations; on well-formed inputs also
   evaluate the extracted reference interpreter (Spec.PolicyRef.chain_ref) against the
   implementation.  Token grammar: see harness/cmd/c14/ast.go. *)

exception Bad of string

let toks = ref [||]
let pos = ref 0
let next () =
  if !pos >= Array.length !toks then raise (Bad "unexpected end of input");
  let s = !toks.(!pos) in incr pos; s
let expect s = let g = next () in if g <> s then raise (Bad (Printf.sprintf "expected %s got %s" s g))
let num () = let s = next () in try int_of_string s with _ -> raise (Bad ("bad number " ^ s))
let nn s = try n_of_int (int_of_string s) with _ -> raise (Bad ("bad number " ^ s))

let parse_ip (s : string) : ip =
  match String.split_on_char ':' s with
  | ["4"; lo] -> { ip_v4 = true; ip_hi = N0; ip_lo = n_of_hex lo }
  | ["6"; hi; lo] -> { ip_v4 = false; ip_hi = n_of_hex hi; ip_lo = n_of_hex lo }
  | _ -> raise (Bad ("bad ip " ^ s))

let parse_pfx (s : string) : prefix =
  match String.rindex_opt s '/' with
  | Some i -> { pf_addr = parse_ip (String.sub s 0 i); pf_len = nn (String.sub s (i + 1) (String.length s - i - 1)) }
  | None -> raise (Bad ("bad prefix " ^ s))

let parse_matcher (s : string) : matcher =
  match s with
  | "ex" -> MExact | "ol" -> MOrLonger | "lg" -> MLonger
  | _ ->
    (match String.split_on_char ':' s with
     | ["rg"; a; b] -> MRange (nn a, nn b)
     | _ -> raise (Bad ("bad matcher " ^ s)))

let parse_lc (s : string) : lcomm =
  match String.split_on_char '.' s with
  | [a; b; c] -> ((nn a, nn b), nn c)
  | _ -> raise (Bad ("bad large community " ^ s))

let starts s p = String.length s >= String.length p && String.sub s 0 (String.length p) = p
let after s k = String.sub s k (String.length s - k)

let parse_act (s : string) : action =
  if s = "acc" then AAccept else if s = "rej" then AReject
  else if starts s "lp:" then ASetLocalPref (nn (after s 3))
  else if starts s "med:" then ASetMED (nn (after s 4))
  else if starts s "nh:" then ASetNextHop (parse_ip (after s 3))
  else if starts s "pp:" then
    (match String.split_on_char ':' (after s 3) with
     | [a; t] -> APrepend (nn a, nn t)
     | _ -> raise (Bad ("bad action " ^ s)))
  else raise (Bad ("bad action " ^ s))

let rec times k f = if k <= 0 then [] else let x = f () in x :: times (k - 1) f

let parse_chain () : chain =
  expect "ch";
  let nf = num () in
  times nf (fun () ->
    expect "f";
    let nt = num () in
    times nt (fun () ->
      expect "t";
      let nc = num () in
      let na = num () in
      let from = times nc (fun () ->
        expect "c";
        let npl = num () in let nrf = num () in let ncf = num () in let nlcf = num () in let npr = num () in
        let pls = times npl (fun () ->
          expect "pl";
          let m = parse_matcher (next ()) in
          let n = num () in
          let allowed = times n (fun () -> parse_pfx (next ())) in
          { pl_allowed = allowed; pl_m = m }) in
        let rfs = times nrf (fun () ->
          expect "rf";
          let idx = num () in
          let m = parse_matcher (next ()) in
          { rf_pat = n_of_int idx; rf_m = m }) in
        let cfs = times ncf (fun () -> nn (next ())) in
        let lcfs = times nlcf (fun () -> parse_lc (next ())) in
        let prs = times npr (fun () -> nn (next ())) in
        { c_pls = pls; c_rfs = rfs; c_cfs = cfs; c_lcfs = lcfs; c_protos = prs }) in
      let acts = times na (fun () -> parse_act (next ())) in
      { t_from = from; t_then = acts }))

let split_list (s : string) : string list = if s = "" then [] else String.split_on_char ',' s

let parse_path () : path =
  expect "p";
  let ty = nn (next ()) in
  let bgp =
    match next () with
    | "nobgp" -> None
    | "b" ->
      let a = next () in
      let ba =
        if a = "noA" then None else
        (match String.split_on_char ',' a with
         | ["A"; lp; med; nh] ->
           Some { a_lp = nn lp; a_med = nn med; a_nh = (if nh = "-" then None else Some (parse_ip nh)) }
         | _ -> raise (Bad ("bad A " ^ a))) in
      expect "as";
      let asp =
        match next () with
        | "nil" -> None
        | k ->
          let k = (try int_of_string k with _ -> raise (Bad "bad segment count")) in
          Some (times k (fun () ->
            let s = next () in
            match String.index_opt s ':' with
            | Some j when String.length s >= 2 && s.[0] = 's' ->
              (nn (String.sub s 1 (j - 1)), List.map nn (split_list (after s (j + 1))))
            | _ -> raise (Bad ("bad segment " ^ s)))) in
      let l = next () in
      if not (starts l "l") then raise (Bad ("bad aspathlen " ^ l));
      let alen = nn (after l 1) in
      let c = next () in
      let comms = if c = "cnil" then None else if starts c "c:" then Some (List.map nn (split_list (after c 2)))
        else raise (Bad ("bad communities " ^ c)) in
      let c = next () in
      let lcomms = if c = "lcnil" then None else if starts c "lc:" then Some (List.map parse_lc (split_list (after c 3)))
        else raise (Bad ("bad large communities " ^ c)) in
      Some { b_a = ba; b_aspath = asp; b_aspathlen = alen; b_comms = comms; b_lcomms = lcomms }
    | s -> raise (Bad ("bad bgp part " ^ s)) in
  let st =
    match next () with
    | "snil" -> None
    | "s-" -> Some None
    | s when starts s "s:" -> Some (Some (parse_ip (after s 2)))
    | s -> raise (Bad ("bad static part " ^ s)) in
  { pa_type = ty; pa_bgp = bgp; pa_static = st }

(* ---- rendering, same format as the harness *)

let dec (x : n) : string = string_of_int (int_of_n x)
let fmt_ip (a : ip) : string =
  if a.ip_v4 then "4:" ^ hex_of_n a.ip_lo else "6:" ^ hex_of_n a.ip_hi ^ ":" ^ hex_of_n a.ip_lo

let render (p : path) : string =
  let b = Buffer.create 256 in
  let add s = if Buffer.length b > 0 then Buffer.add_char b ';'; Buffer.add_string b s in
  add "p"; add (dec p.pa_type);
  (match p.pa_bgp with
   | None -> add "nobgp"
   | Some g ->
     add "b";
     (match g.b_a with
      | None -> add "noA"
      | Some a ->
        add (Printf.sprintf "A,%s,%s,%s" (dec a.a_lp) (dec a.a_med) (match a.a_nh with None -> "-" | Some i -> fmt_ip i)));
     add "as";
     (match g.b_aspath with
      | None -> add "nil"
      | Some l ->
        add (string_of_int (List.length l));
        List.iter (fun (ty, asns) -> add (Printf.sprintf "s%s:%s" (dec ty) (String.concat "," (List.map dec asns)))) l);
     add ("l" ^ dec g.b_aspathlen);
     (match g.b_comms with None -> add "cnil" | Some l -> add ("c:" ^ String.concat "," (List.map dec l)));
     (match g.b_lcomms with
      | None -> add "lcnil"
      | Some l -> add ("lc:" ^ String.concat "," (List.map (fun ((x, y), z) -> Printf.sprintf "%s.%s.%s" (dec x) (dec y) (dec z)) l))));
  (match p.pa_static with
   | None -> add "snil"
   | Some None -> add "s-"
   | Some (Some i) -> add ("s:" ^ fmt_ip i));
  Buffer.contents b

let b2c b = if b then "1" else "0"

let model_out (env : penv) (c : chain) (p : prefix) (v : path) : string =
  match process env c p [v] O with
  | Panic -> "PANIC"
  | Ok ((st', r'), rej) ->
    let ri = int_of_nat r' in
    let res = (try List.nth st' ri with _ -> v) in
    let same = (match st' with x :: _ -> x = v | [] -> false) in
    b2c rej ^ b2c (ri <> 0) ^ b2c same ^ "1|" ^ render res

let spec_out (env : penv) (c : chain) (p : prefix) (v : path) : string =
  let (v', rej) = chain_ref env c p v in
  b2c rej ^ "111|" ^ render v'

(* ---- configuration cases *)

let parse_names tag : n list =
  expect tag;
  let k = num () in
  times k (fun () -> nn (next ()))

let parse_cfg () : cfg =
  expect "cfg";
  let ns = num () in
  let stmts = times ns (fun () ->
    expect "st";
    let name = nn (next ()) in
    let nt = num () in
    let terms = times nt (fun () ->
      expect "ct";
      let nr = num () in
      let rfs = times nr (fun () ->
        expect "crf";
        let idx = num () in
        let ok = (next () = "1") in
        let m = next () in
        { crf_pat = n_of_int idx; crf_ok = ok; crf_m = (if m = "bad" then None else Some (parse_matcher m)) }) in
      expect "th";
      let rej = (next () = "1") in
      let opt s = if s = "-" then None else Some (nn s) in
      let lp = opt (next ()) in
      let med = opt (next ()) in
      let pp = (match next () with
        | "-" -> None
        | s -> (match String.split_on_char ':' s with
                | [a; c] -> Some (nn a, nn c)
                | _ -> raise (Bad ("bad prepend " ^ s)))) in
      let nh = (match next () with
        | "-" -> None
        | "bad" -> Some None
        | s -> Some (Some (parse_ip s))) in
      let acc = (next () = "1") in
      { ct_rfs = rfs; ct_then = { th_reject = rej; th_lp = lp; th_med = med; th_pp = pp; th_nh = nh; th_accept = acc } }) in
    { cs_name = name; cs_terms = terms }) in
  let gi = parse_names "gi" in
  let ge = parse_names "ge" in
  let ni = parse_names "ni" in
  let ne = parse_names "ne" in
  { cfg_stmts = stmts; cfg_gimport = gi; cfg_gexport = ge; cfg_nimport = ni; cfg_nexport = ne }

let policy_out (env : penv) (cf : cfg) (names : n list) (p : prefix) (v : path) : string =
  let (v', rej) = policy_ref env cf.cfg_stmts names p v in
  b2c rej ^ "111|" ^ render v'

let () =
  let compared = ref 0 and mism = ref 0 and speceval = ref 0 and cfgcases = ref 0 in
  let cut s = if String.length s > 400 then String.sub s 0 400 ^ "..." else s in
  iter_trace Sys.argv.(1) (fun id inp obs ->
    try
      toks := Array.of_list inp; pos := 0;
      expect "pool";
      let n = num () in
      let pool = Array.of_list (times n (fun () -> parse_pfx (next ()))) in
      let dflt = { pf_addr = { ip_v4 = true; ip_hi = N0; ip_lo = N0 }; pf_len = N0 } in
      let env : penv = fun i -> let k = int_of_n i in if k < Array.length pool then pool.(k) else dflt in
      let is_cfg = (!pos < Array.length !toks && !toks.(!pos) = "cfg") in
      let cfo = if is_cfg then Some (parse_cfg ()) else None in
      let chains =
        match cfo with
        | Some cf -> incr cfgcases; load_cfg cf
        | None ->
          expect "C"; let c = parse_chain () in
          expect "D"; let d = parse_chain () in
          let _leaf = next () in
          Some (c, d) in
      expect "in";
      let k = num () in
      let inputs = times k (fun () -> let pf = parse_pfx (next ()) in let pa = parse_path () in (pf, pa)) in
      incr compared;
      let bad = ref None in
      let note what m i = if !bad = None && m <> i then bad := Some (what, m, i) in
      let obs = Array.of_list obs in
      let ob j = if j < Array.length obs then obs.(j) else "<missing>" in
      (match chains with
       | None -> note "config load" "LOADERR" (ob 0)
       | Some (c, d) ->
         note "Equal" ("eq=" ^ b2c (chain_equal c d) ^ b2c (chain_equal d c)) (ob 0);
         let wfc = chain_wfb env c and wfd = chain_wfb env d in
         List.iteri (fun i (pf, pa) ->
           let oc = ob (1 + 2 * i) and od = ob (2 + 2 * i) in
           note (Printf.sprintf "input %d chain C" i) (model_out env c pf pa) oc;
           note (Printf.sprintf "input %d chain D" i) (model_out env d pf pa) od;
           if prefix_wfb pf && path_wfb pa then begin
             List.iter (fun (which, wf, ch, o, imp) ->
               if wf then begin
                 incr speceval;
                 let s = (match cfo with
                   | Some cf -> policy_out env cf (if imp then import_names cf else export_names cf) pf pa
                   | None -> spec_out env ch pf pa) in
                 if s <> o then
                   Printf.printf "SPEC-VIOLATION case=%s sig=process-vs-reference:extracted-%s chain %s input %d: impl=%s spec=%s\n"
                     id (if cfo = None then "spec" else "config-spec") which i (cut o) (cut s)
               end) [("C", wfc, c, oc, true); ("D", wfd, d, od, false)]
           end) inputs);
      (match !bad with
       | None -> ()
       | Some (what, m, i) ->
         incr mism;
         Printf.printf "CORR-MISMATCH case=%s %s: model=%s impl=%s\n" id what (cut m) (cut i))
    with Bad msg -> Printf.printf "MODEL-ERROR case=%s cannot parse: %s\n" id msg);
  Printf.printf "STATS compared=%d mismatches=%d spec_evaluations=%d config_cases=%d\n" !compared !mism !speceval !cfgcases
