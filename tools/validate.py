#!/usr/bin/env python3-vt
"""Validate MANIFEST.json and evidence/*.json against the schemas in /root/.vp."""
import json, sys, os, glob
import jsonschema
V = os.path.dirname(os.path.dirname(os.path.abspath(__file__)))
ok = True
def check(path, schema):
    global ok
    try:
        jsonschema.validate(json.load(open(path)), json.load(open(schema)))
        print("valid  ", path)
    except Exception as e:
        ok = False
        print("INVALID", path, str(e)[:300])
check(os.path.join(V, "MANIFEST.json"), "/root/.vp/MANIFEST.schema.json")
for f in sorted(glob.glob(os.path.join(V, "evidence", "*.json"))):
    check(f, "/root/.vp/EVIDENCE.schema.json")
sys.exit(0 if ok else 1)
