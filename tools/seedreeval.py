#!/usr/bin/env python3
"""Re-run the checks against seeded changes that were missed at first and record the outcome after strengthening."""
import json, glob, os, subprocess, sys
only = set(sys.argv[1:])
for m in sorted(glob.glob('/verif/seeded/*/meta.json')):
    j = json.load(open(m)); sid = os.path.basename(os.path.dirname(m))
    if j.get('detected', True) and sid not in only: continue
    if only and sid not in only: continue
    props = j.get('checks_run') or [j['property']]
    env = dict(os.environ)
    if j['property'] == 'C26': env['RACE'] = '1'
    out = subprocess.run(['/verif/tools/seedtest.sh', os.path.join(os.path.dirname(m), 'patch.diff')] + props,
                         capture_output=True, text=True, env=env).stdout
    det = 'DETECTED' in out
    lines = [l for l in out.split('\n') if l.startswith('VIOLATION') or 'SPEC-VIOLATION' in l or 'correspondence:' in l or 'proof:' in l]
    j['detected_after_strengthening'] = det
    j['verdict_after_strengthening'] = [l[:400] for l in lines[:4]]
    json.dump(j, open(m, 'w'), indent=1)
    print(sid, 'DETECTED' if det else 'STILL MISSED')
