#!/usr/bin/env python3
"""Prepare a scratch worktree + PROMPT.md for an independent seeding agent.
usage: tools/mkseed.py Cnn [suffix]  -> /tmp/seed-cnn[suffix]/PROMPT.md"""
import json, os, subprocess, sys
pid = sys.argv[1]; suf = sys.argv[2] if len(sys.argv) > 2 else ""
wt = "/tmp/seed-%s%s" % (pid.lower(), suf)
p = [json.loads(l) for l in open("/verif/properties.jsonl") if json.loads(l)["id"] == pid][0]
subprocess.check_call(["git", "-C", "/repo", "worktree", "add", "-q", wt, "HEAD"])
pkgs = sorted({os.path.dirname(f) if f.endswith(".go") else f for f in p["anchors"]["files"]})
round2 = """This is a SECOND round: obvious single-site mutations of the central function (inverted comparison, dropped
guard, off-by-one in the main loop) have already been tried. Prefer: (i) a change in a helper, caller or sibling package
that the anchored code relies on (the glue: parsing, copying, hashing, option handling, constructors, cleanup paths);
(ii) breakage that only shows under a particular option / configuration / session-kind combination; (iii) state carried
across operations (caches, counters, reference counts, reconnects, re-registration, replaced policies); (iv) boundary
values of sizes, lengths, counts and identifiers; (v) two cooperating sites that each look fine alone.
""" if suf.startswith("r2") else ""
round3 = """This is a THIRD round. Mutations inside the central functions of the anchored files and in their direct helpers have
been tried. Now target the WIRING that makes the property hold in the running daemon: how sessions create, register, initialise,
replace and dispose their tables and senders (protocols/bgp/server/fsm_address_family.go init/dispose/bmpInit, fsm_established.go, bmp_receiver.go, bmp_router.go, protocols/isis/server/server.go + net_ifa_manager.go + the goroutine start/stop code,
peer.go, server.go, bgp_api.go, routingtable/vrf, routingtable/client_manager.go, cmd/bio-rd), the order of calls, which object
is passed where (the right VRF / RIB / chain / options for the right address family), what happens on the second establishment
of a session, with two address families, two VRFs, or two peers sharing state. The change must still break THIS property.
""" if suf.startswith("r3") else ""
prompt = f"""You are testing how well a Go project's verification catches regressions. Work ONLY inside the git
worktree {wt} (a checkout of bio-routing/bio-rd, a BGP / IS-IS / BMP routing daemon in Go). Do not look at or
touch /verif or /repo. Per shell call first run:
`export GOFLAGS=-mod=mod GOPROXY=off GOSUMDB=off GOTOOLCHAIN=local` (offline sandbox, Go 1.23; nothing can be downloaded).
Files named verif_hooks_*.go (build tag `verif`) are test instrumentation: ignore them, do not edit them.

Property of the software that must hold — "{p['title']}":
{p['statement']}
(Quantified over: {p['quantifier']['text']}.)
Code it is anchored in: {', '.join(p['anchors']['files'])}

Task: produce TWO different, realistic source changes (the kind of mistake a developer makes in a refactoring, an
optimisation or a bug fix gone wrong), each of which BREAKS this property while
 (a) the project still compiles (`go build ./...`),
 (b) the existing test suite still passes UNEDITED — at least `go test -vet=off -count=1` on the packages you touched and
     their direct users (run the whole suite `go test -vet=off -count=1 ./...` once per change if time permits, ~2 min), and
 (c) the breakage needs something specific to manifest — a particular interleaving, a fault at a particular point, a
     multi-step sequence of operations, an unusual input / boundary value, or two cooperating sites that each look fine
     alone — NOT something ordinary use would expose at once.
{round2}{round3}Do not change any test file or verif_hooks file. NEVER use `git stash` (the stash is shared with other worktrees of this repository and other people use them concurrently): use `git diff > file`, `git checkout -- <file>`, `git apply file` instead. Each change should be small (a few lines) and plausible. The two
changes should break the property in different ways (different clause, different code site).

For each change deliver in {wt}/out/<n>/ (n = 1, 2):
 - `patch.diff`: `git diff` of the source change only (must apply with `git apply` to a clean checkout of this worktree's HEAD);
 - `demo_test.go`: ONE Go test file (test names starting with `TestDemo`) to be dropped into exactly one package
   directory, that FAILS with the change and PASSES without it — verify both yourself;
 - `meta.json`: {{"what": one-sentence description, "needs": what specific sequence/condition is needed to manifest,
   "demo_pkg": the package directory (relative to the repo root) the demo test goes into,
   "suite": the go test package patterns you ran for (b), "ran": commands you ran and their outcome}}.
Restore the worktree to clean (git checkout of the modified files, remove the demo test) between the two changes and at
the end; leave only out/. Reply with a 10-line summary.
"""
open(os.path.join(wt, "PROMPT.md"), "w").write(prompt)
print(wt)
