#!/bin/bash
# Run the repository's pinned baseline (hooks OFF) and compare with /root/.vp/BASELINE.json stable_pass.
# usage: tools/baseline.sh [repo]   (default /repo)
REPO=${1:-/repo}
export GOFLAGS=-mod=mod GOPROXY=off GOSUMDB=off GOTOOLCHAIN=local
OUT=$(mktemp -d /root/.cache/verif-baseline.XXXX)
(cd "$REPO" && go test -mod=mod -json -vet=off -count=1 -timeout 25m ./... > "$OUT/run.json" 2>"$OUT/err.txt")
python3 - "$OUT/run.json" <<'PY'
import json,sys
passed=set(); failed=set()
for l in open(sys.argv[1]):
    try: e=json.loads(l)
    except Exception: continue
    if e.get("Test") and e.get("Action") in ("pass","fail"):
        k=e["Package"]+"::"+e["Test"]
        (passed if e["Action"]=="pass" else failed).add(k)
base=set(json.load(open("/root/.vp/BASELINE.json"))["stable_pass"])
missing=sorted(base-passed)
print("baseline stable_pass=%d, passed now=%d, failed now=%d, stable tests not passing now=%d"%(len(base),len(passed),len(failed),len(missing)))
for m in missing[:40]: print("  NOT-PASSING",m)
for f in sorted(failed)[:40]: print("  FAILED",f)
sys.exit(1 if missing else 0)
PY
rc=$?
rm -rf "$OUT"
exit $rc
