#!/usr/bin/env python3
"""Assemble MANIFEST.json from manifest.d/Cnn.json fragments (one per claimed property)
and manifest.d/_base.json; every property of properties.jsonl without a fragment is listed
under not_applicable with the reason given in manifest.d/_not_applicable.json."""
import json, os, sys
V = os.path.dirname(os.path.dirname(os.path.abspath(__file__)))
base = json.load(open(os.path.join(V, "manifest.d", "_base.json")))
na = json.load(open(os.path.join(V, "manifest.d", "_not_applicable.json")))
ids = [json.loads(l)["id"] for l in open(os.path.join(V, "properties.jsonl")) if l.strip()]
checks, notapp = [], []
for pid in ids:
    frag = os.path.join(V, "manifest.d", pid + ".json")
    if os.path.exists(frag):
        c = json.load(open(frag))
        c["property_id"] = pid
        c.setdefault("quick_cmd", "./check %s --tier quick" % pid)
        c.setdefault("thorough_cmd", "./check %s --tier thorough" % pid)
        c.setdefault("replay_cmd_template", "./check %s --replay {path}" % pid)
        c.setdefault("evidence_file", "evidence/%s.json" % pid)
        c.setdefault("engine", "rocq-proof+correspondence")
        checks.append(c)
    else:
        notapp.append({"property_id": pid, "reason": na.get(pid, na["_default"])})
import subprocess
try:
    log = subprocess.check_output(["git", "-C", "/repo", "log", "--format=%h %s"], text=True).split("\n")
    base["hooks"]["source_commits"] = [l.split()[0] for l in log if l[9:].lower().startswith("verif hook") or "verif hook" in l.lower()]
except Exception:
    pass
base["engines"][0]["serves_properties"] = [c["property_id"] for c in checks]
base["checks"] = checks
base["not_applicable"] = notapp
json.dump(base, open(os.path.join(V, "MANIFEST.json"), "w"), indent=1)
print("MANIFEST.json: %d checks, %d not claimed" % (len(checks), len(notapp)))
