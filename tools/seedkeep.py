#!/usr/bin/env python3
"""Confirm + evaluate + archive the seeded changes an independent agent left in /tmp/seed-cnn/out/<n>/.
usage: tools/seedkeep.py Cnn [check props to run, default Cnn] [--suffix s] """
import json, os, shutil, subprocess, sys
args = [a for a in sys.argv[1:] if not a.startswith("--")]
pid = args[0]; props = args[1:] or [pid]
suf = ""
for a in sys.argv[1:]:
    if a.startswith("--suffix="): suf = a.split("=",1)[1]
src = "/tmp/seed-%s%s/out" % (pid.lower(), suf)
V = "/verif"
for n in sorted(os.listdir(src)):
    d = os.path.join(src, n)
    if not os.path.exists(os.path.join(d, "patch.diff")): continue
    meta = json.load(open(os.path.join(d, "meta.json")))
    pkg = meta.get("demo_pkg", "").strip("./")
    suite = meta.get("suite") or ("./" + pkg + "/...")
    if isinstance(suite, list): suite = " ".join(suite)
    toks = [t.strip("();:.,'`\"") for t in suite.replace(",", " ").split()]
    toks = [t + ("..." if t.endswith("/") else "") for t in toks]
    toks = [t for t in toks if t.startswith("./") and "out" not in t]
    suite = "./..." if "./..." in toks or "./.." in toks else (" ".join(dict.fromkeys(toks)) or "./" + pkg + "/...")
    conf = subprocess.run([V + "/tools/seedconfirm.sh", d, pkg] + suite.split(), capture_output=True, text=True).stdout
    ok = ("demo without patch: PASS" in conf and "build with patch: OK" in conf and "existing suite with patch" in conf
          and "): PASS" in conf and "FAIL (as expected)" in conf)
    print("== %s-%s%s confirm: %s" % (pid, n, suf, "OK" if ok else "NOT CONFIRMED"))
    if not ok: print(conf)
    det = subprocess.run([V + "/tools/seedtest.sh", os.path.join(d, "patch.diff")] + props, capture_output=True, text=True).stdout
    detected = "DETECTED" in det
    lines = [l for l in det.split("\n") if l.startswith("VIOLATION") or "SPEC-VIOLATION" in l or "correspondence:" in l or "proof:" in l]
    print("   checks %s: %s" % (props, "DETECTED" if detected else "MISSED"))
    for l in lines[:4]: print("     " + l[:300])
    if not ok: continue
    out = os.path.join(V, "seeded", "%s-%s%s" % (pid, n, suf)); os.makedirs(out, exist_ok=True)
    shutil.copy(os.path.join(d, "patch.diff"), out)
    for f in os.listdir(d):
        if f.endswith(".go"): shutil.copy(os.path.join(d, f), os.path.join(out, "demo_test.go"))
    json.dump({"property": pid, "what": meta.get("what"), "needs": meta.get("needs"), "demo_pkg": pkg, "suite": suite,
               "author": "independent sub-agent given only the property text and a scratch worktree of /repo",
               "confirmed_by_lead": {"tool": "tools/seedconfirm.sh", "output": conf.strip().split("\n")},
               "checks_run": props, "detected": detected, "first_verdict_lines": [l[:400] for l in lines[:4]],
               "agent_ran": meta.get("ran")}, open(os.path.join(out, "meta.json"), "w"), indent=1)
