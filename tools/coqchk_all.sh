#!/bin/bash
# Independent re-check of every property module (and everything they depend on) with coqchk; prints the axiom summary.
cd /verif/coq || exit 2
mods=$(ls Properties/*.v | sed 's#/#.#; s#\.v$##; s#^#BioVerif.#' | tr '\n' ' ')
coqchk -silent -o -Q . BioVerif $mods
