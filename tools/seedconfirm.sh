#!/bin/bash
# Confirm a seeded change: usage tools/seedconfirm.sh <dir with patch.diff + demo_test.go> <pkg dir for demo, rel to repo> <go test pattern(s) for existing suite>
# 1) without patch: demo passes   2) with patch: builds, existing suite (no demo) passes, demo fails
set -u
D=$(readlink -f "$1"); PKG=$2; shift 2; SUITE="$@"
export GOFLAGS=-mod=mod GOPROXY=off GOSUMDB=off GOTOOLCHAIN=local
WT=/tmp/seedconfirm-$$
git -C /repo worktree add -q "$WT" HEAD || exit 2
cd "$WT"
DEMO=$(ls "$D" | grep -E '_test\.go$|\.go$' | head -1)
cp "$D/$DEMO" "$PKG/zz_seed_demo_test.go"
echo -n "demo without patch: "; CGO_ENABLED=${RACE:+1} go test ${RACE:+-race} -vet=off -count=1 -run 'Demo|Seed' ./$PKG/ >/tmp/sc-$$.log 2>&1 && echo PASS || { echo FAIL; tail -5 /tmp/sc-$$.log; }
rm "$PKG/zz_seed_demo_test.go"
git apply "$D/patch.diff" || { echo "patch does not apply"; cd /; git -C /repo worktree remove --force "$WT"; exit 2; }
echo -n "build with patch: "; go build ./... >/tmp/sc-$$.log 2>&1 && echo OK || { echo FAIL; tail -5 /tmp/sc-$$.log; }
echo -n "existing suite with patch ($SUITE): "
if go test -vet=off -count=1 $SUITE >/tmp/sc-$$.log 2>&1; then echo PASS
else
  # TestSender (protocols/bgp/server) is timing dependent and flaky on a loaded machine: retry failing packages once
  FAILED=$(grep '^FAIL\s' /tmp/sc-$$.log | awk '{print $2}' | sed 's#github.com/bio-routing/bio-rd#.#' | sort -u | tr '\n' ' ')
  if [ -n "$FAILED" ] && go test -vet=off -count=1 $FAILED >/tmp/sc-$$.log 2>&1; then echo "PASS (after retry of $FAILED)"; else echo FAIL; grep -v '^ok\|no test files' /tmp/sc-$$.log | tail -8; fi
fi
cp "$D/$DEMO" "$PKG/zz_seed_demo_test.go"
echo -n "demo with patch: "; CGO_ENABLED=${RACE:+1} go test ${RACE:+-race} -vet=off -count=1 -run 'Demo|Seed' ./$PKG/ >/tmp/sc-$$.log 2>&1 && echo "PASS (BAD: change not demonstrated)" || echo "FAIL (as expected)"
cd /; git -C /repo worktree remove --force "$WT"; rm -f /tmp/sc-$$.log
