#!/usr/bin/env python3
import json,glob,collections
rounds=collections.Counter(); det=collections.Counter(); after=collections.Counter(); still=[]
for m in sorted(glob.glob('/verif/seeded/*/meta.json')):
    j=json.load(open(m)); sid=m.split('/')[-2]
    r='r3' if 'r3' in sid else ('r2' if 'r2' in sid else 'r1')
    rounds[r]+=1
    if j.get('detected',True): det[r]+=1
    elif j.get('detected_after_strengthening'): after[r]+=1
    else: still.append(sid)
print("seeds per round",dict(rounds)); print("detected at first run",dict(det)); print("detected after strengthening",dict(after)); print("not detected",still)
