#!/usr/bin/env python3
"""Build (cached by source hash) and run locktab against $VERIF_REPO; registered in props/C25.py, C26.py
as PROP["gen"].  Writes coq/Gen/LockModel.v only when its content changed."""
import hashlib, os, subprocess, sys

here = os.path.dirname(os.path.abspath(__file__))
verif = os.path.dirname(os.path.dirname(here))
repo = os.path.abspath(os.environ.get("VERIF_REPO", "/repo"))
scr = os.path.join(os.environ.get("VERIF_SCRATCH", os.path.expanduser("~/.cache/verif")), "locktab")
os.makedirs(scr, exist_ok=True)
env = dict(os.environ, GOFLAGS="-mod=mod", GOPROXY="off", GOSUMDB="off", GOTOOLCHAIN="local", CGO_ENABLED="0")
h = hashlib.sha1()
for f in sorted(os.listdir(here)):
    if f.endswith(".go") or f in ("go.mod", "go.sum"):
        h.update(open(os.path.join(here, f), "rb").read())
exe = os.path.join(scr, "locktab-" + h.hexdigest()[:12])
if not os.path.exists(exe):
    r = subprocess.run(["go", "build", "-o", exe + ".tmp", "."], cwd=here, env=env,
                       stdout=subprocess.PIPE, stderr=subprocess.STDOUT, text=True)
    if r.returncode != 0:
        print("locktab: build failed\n" + r.stdout)
        sys.exit(2)
    os.replace(exe + ".tmp", exe)
tag = hashlib.sha1(repo.encode()).hexdigest()[:10]
r = subprocess.run([exe, "-repo", repo, "-out", os.path.join(verif, "coq", "Gen", "LockModel.v"),
                    "-sites", os.path.join(scr, "sites-%s.txt" % tag)], cwd=verif, env=env,
                   stdout=subprocess.PIPE, stderr=subprocess.STDOUT, text=True)
sys.stdout.write(r.stdout)
sys.exit(r.returncode)
