// locktab: lock / channel / shared-field table extractor for properties C25 and C26.
//
// It type-checks the anchored bio-rd packages of $VERIF_REPO (plain build, no tags, no tests) on
// every run and writes coq/Gen/LockModel.v.  See the header it generates for the rules; the
// analysis is described in notes/C25.md.
//
// usage: locktab -repo /repo -out coq/Gen/LockModel.v [-sites file] [-v]
package main

import (
	"flag"
	"fmt"
	"go/ast"
	"go/token"
	"go/types"
	"os"
	"sort"
	"strings"

	"golang.org/x/tools/go/cfg"
	"golang.org/x/tools/go/packages"
)

const modPath = "github.com/bio-routing/bio-rd"

// packages anchored by C25/C26
var rootPkgs = []string{
	"route", "routingtable", "routingtable/locRIB", "routingtable/adjRIBIn",
	"routingtable/adjRIBOut", "protocols/bgp/server",
}

// shared struct types named under C26 (package-name.Type)
var sharedTypes = []string{
	"routingtable.RoutingTable", "route.Route", "locRIB.LocRIB", "adjRIBIn.AdjRIBIn",
	"adjRIBOut.AdjRIBOut", "routingtable.ClientManager", "server.UpdateSender", "server.FSM",
	"server.peer", "server.fsmAddressFamily",
}

// the self-locking store inside the table types (rule T)
const storeType = "routingtable.RoutingTable"

var fatals []string

func fatal(pos token.Pos, format string, a ...interface{}) {
	p := ""
	if pos.IsValid() {
		p = fset.Position(pos).String() + ": "
	}
	fatals = append(fatals, p+fmt.Sprintf(format, a...))
}

var fset *token.FileSet

// ---------------------------------------------------------------- data

const (
	modeW = 0
	modeR = 1
)

type lockset map[int]int // lock id -> mode (modeW stronger than modeR)

func (l lockset) clone() lockset {
	r := lockset{}
	for k, v := range l {
		r[k] = v
	}
	return r
}

// union: locks of either, stronger mode
func lsUnion(a, b lockset) lockset {
	r := a.clone()
	for k, v := range b {
		if o, ok := r[k]; !ok || v < o {
			r[k] = v
		}
	}
	return r
}

// intersection: locks of both, weaker mode
func lsInter(a, b lockset) lockset {
	r := lockset{}
	for k, v := range a {
		if o, ok := b[k]; ok {
			if o > v {
				v = o
			}
			r[k] = v
		}
	}
	return r
}

func lsEq(a, b lockset) bool {
	if len(a) != len(b) {
		return false
	}
	for k, v := range a {
		if o, ok := b[k]; !ok || o != v {
			return false
		}
	}
	return true
}

type siteKind int

const (
	sAcquire siteKind = iota
	sCall
	sGo
	sChan
	sAccess
	sExit
	sDyn
	sSync // wg-done / wg-wait / close of a struct field (lifecycle rule J)
)

type site struct {
	kind    siteKind
	held    lockset
	lock    int   // sAcquire
	callees []*fn // sCall, sGo
	desc    string
	unbuf   bool // sChan: channel is unbuffered (or unknown)
	field   *types.Var
	write   bool
	pos     token.Pos
	// contents pseudo-access (rule T): callee decides read/write in summarize
	contentsOf  *fn
	contentsRcv *types.Named
	handsOut    bool
}

type fn struct {
	name      string
	obj       *types.Func
	pkg       *packages.Package
	body      *ast.BlockStmt
	ftype     *ast.FuncType
	recvNamed *types.Named
	parent    *fn // for function literals
	nlits     int
	sites     []site
	done      bool
	called    bool
	entry     lockset
	entryTop  bool
	// escape rule
	fresh   map[*types.Var]token.Pos // fresh local -> publication position (NoPos = never)
	freshOK bool
}

type analysis struct {
	pkgs       []*packages.Package
	inner      map[string]*packages.Package // analysed packages by path
	allNamed   []*types.Named               // named non-interface types of all loaded bio-rd packages
	fns        map[*types.Func]*fn
	lits       map[*ast.FuncLit]*fn
	order      []*fn
	fieldOwner map[*types.Var]*types.Named
	lockIDs    map[string]int
	lockNames  []string
	shared     map[*types.Named]bool
	fieldAsg   map[*types.Var][]asg // assignments to interface-typed fields
	registered map[*types.Named]map[*types.Named]bool
	regExt     map[*types.Named][]string // registrations of externally supplied clients
	rtClient   *types.Named
	ctorMemo   map[*fn]int // 0 unknown, 1 in progress, 2 yes, 3 no
	concBusy   map[interface{}]bool
	selectComm map[ast.Stmt]bool // comm statements of selects: value = select has default
	atomicFld  map[*types.Var]bool
	contents   map[*types.Named]*types.Var // pseudo-field <Type>.contents
	verbose    bool
}

type asg struct {
	rhs ast.Expr
	ctx *fn
}

// ---------------------------------------------------------------- loading

func load(repo string) (*analysis, error) {
	var roots []string
	for _, r := range rootPkgs {
		roots = append(roots, modPath+"/"+r)
	}
	env := append(os.Environ(), "GOFLAGS=-mod=mod", "GOPROXY=off", "GOSUMDB=off", "GOTOOLCHAIN=local", "CGO_ENABLED=0")
	c1 := &packages.Config{Mode: packages.NeedName | packages.NeedImports | packages.NeedDeps, Dir: repo, Env: env}
	p1, err := packages.Load(c1, roots...)
	if err != nil {
		return nil, err
	}
	// bio-rd packages in the import closure, and which of them reach a root ("inner")
	all := map[string]*packages.Package{}
	var visit func(p *packages.Package)
	visit = func(p *packages.Package) {
		if _, ok := all[p.PkgPath]; ok {
			return
		}
		all[p.PkgPath] = p
		for _, q := range p.Imports {
			visit(q)
		}
	}
	for _, p := range p1 {
		if len(p.Errors) > 0 {
			return nil, fmt.Errorf("package %s: %v", p.PkgPath, p.Errors)
		}
		visit(p)
	}
	isRoot := map[string]bool{}
	for _, r := range roots {
		isRoot[r] = true
	}
	reach := map[string]int{}
	var reaches func(p *packages.Package) bool
	reaches = func(p *packages.Package) bool {
		if v, ok := reach[p.PkgPath]; ok {
			return v == 1
		}
		reach[p.PkgPath] = 0
		r := isRoot[p.PkgPath]
		for _, q := range p.Imports {
			if reaches(q) {
				r = true
			}
		}
		if r {
			reach[p.PkgPath] = 1
		}
		return r
	}
	var want []string
	for path, p := range all {
		if strings.HasPrefix(path, modPath+"/") && reaches(p) {
			want = append(want, path)
		}
	}
	sort.Strings(want)
	c2 := &packages.Config{Mode: packages.NeedName | packages.NeedFiles | packages.NeedSyntax | packages.NeedTypes |
		packages.NeedTypesInfo | packages.NeedImports, Dir: repo, Env: env}
	p2, err := packages.Load(c2, want...)
	if err != nil {
		return nil, err
	}
	a := &analysis{inner: map[string]*packages.Package{}, fns: map[*types.Func]*fn{}, lits: map[*ast.FuncLit]*fn{},
		fieldOwner: map[*types.Var]*types.Named{}, lockIDs: map[string]int{}, shared: map[*types.Named]bool{},
		fieldAsg: map[*types.Var][]asg{}, registered: map[*types.Named]map[*types.Named]bool{},
		regExt: map[*types.Named][]string{}, ctorMemo: map[*fn]int{}, concBusy: map[interface{}]bool{},
		selectComm: map[ast.Stmt]bool{}, atomicFld: map[*types.Var]bool{}, contents: map[*types.Named]*types.Var{}}
	sort.Slice(p2, func(i, j int) bool { return p2[i].PkgPath < p2[j].PkgPath })
	for _, p := range p2 {
		if len(p.Errors) > 0 {
			return nil, fmt.Errorf("package %s: %v", p.PkgPath, p.Errors)
		}
		if p.Fset != nil {
			fset = p.Fset
		}
		a.pkgs = append(a.pkgs, p)
		a.inner[p.PkgPath] = p
	}
	return a, nil
}

func shortPkg(p *types.Package) string {
	if p == nil {
		return "_"
	}
	return p.Name()
}

func namedName(n *types.Named) string {
	return shortPkg(n.Obj().Pkg()) + "." + n.Obj().Name()
}

func deref(t types.Type) types.Type {
	if p, ok := t.Underlying().(*types.Pointer); ok {
		return p.Elem()
	}
	return t
}

func asNamed(t types.Type) *types.Named {
	if t == nil {
		return nil
	}
	t = types.Unalias(t)
	if p, ok := t.(*types.Pointer); ok {
		t = types.Unalias(p.Elem())
	}
	n, _ := t.(*types.Named)
	return n
}

func (a *analysis) index() {
	sharedSet := map[string]bool{}
	for _, s := range sharedTypes {
		sharedSet[s] = false
	}
	for _, p := range a.pkgs {
		sc := p.Types.Scope()
		for _, name := range sc.Names() {
			tn, ok := sc.Lookup(name).(*types.TypeName)
			if !ok || tn.IsAlias() {
				continue
			}
			n, ok := tn.Type().(*types.Named)
			if !ok {
				continue
			}
			if n.TypeParams().Len() > 0 {
				continue
			}
			if _, isI := n.Underlying().(*types.Interface); !isI {
				a.allNamed = append(a.allNamed, n)
			}
			if st, ok := n.Underlying().(*types.Struct); ok {
				for i := 0; i < st.NumFields(); i++ {
					a.fieldOwner[st.Field(i)] = n
				}
			}
			if _, ok := sharedSet[namedName(n)]; ok {
				sharedSet[namedName(n)] = true
				a.shared[n] = true
			}
			if namedName(n) == "routingtable.RouteTableClient" {
				a.rtClient = n
			}
		}
	}
	for s, found := range sharedSet {
		if !found {
			fatal(token.NoPos, "shared type %s not found in the analysed packages", s)
		}
	}
	if a.rtClient == nil {
		fatal(token.NoPos, "interface routingtable.RouteTableClient not found")
	}
	for _, p := range a.pkgs {
		for _, f := range p.Syntax {
			for _, d := range f.Decls {
				fd, ok := d.(*ast.FuncDecl)
				if !ok || fd.Body == nil {
					continue
				}
				obj, _ := p.TypesInfo.Defs[fd.Name].(*types.Func)
				if obj == nil {
					continue
				}
				x := &fn{obj: obj, pkg: p, body: fd.Body, ftype: fd.Type}
				x.name = shortPkg(obj.Pkg()) + "." + obj.Name()
				if sig := obj.Type().(*types.Signature); sig.Recv() != nil {
					if n := asNamed(sig.Recv().Type()); n != nil {
						x.recvNamed = n
						x.name = namedName(n) + "." + obj.Name()
					}
				}
				a.fns[obj] = x
				a.order = append(a.order, x)
			}
			ast.Inspect(f, func(n ast.Node) bool {
				if s, ok := n.(*ast.SelectStmt); ok {
					hasDefault := false
					for _, c := range s.Body.List {
						if c.(*ast.CommClause).Comm == nil {
							hasDefault = true
						}
					}
					for _, c := range s.Body.List {
						if cm := c.(*ast.CommClause).Comm; cm != nil {
							a.selectComm[cm] = hasDefault
						}
					}
				}
				return true
			})
		}
	}
	sort.Slice(a.order, func(i, j int) bool { return a.order[i].name < a.order[j].name })
	for i := 1; i < len(a.order); i++ {
		if a.order[i].name == a.order[i-1].name && a.order[i].name != "init" && !strings.HasSuffix(a.order[i].name, ".init") {
			fatal(a.order[i].body.Pos(), "duplicate function name %s", a.order[i].name)
		}
	}
}

// ---------------------------------------------------------------- locks

func (a *analysis) lockID(name string) int {
	if id, ok := a.lockIDs[name]; ok {
		return id
	}
	id := len(a.lockNames)
	a.lockIDs[name] = id
	a.lockNames = append(a.lockNames, name)
	return id
}

func isSyncType(t types.Type) bool {
	n := asNamed(t)
	if n == nil || n.Obj().Pkg() == nil {
		return false
	}
	p := n.Obj().Pkg().Path()
	return p == "sync" || p == "sync/atomic"
}

// lockOp recognises x.f.Lock() etc.; returns (lock id, op name)
func (a *analysis) lockOp(f *fn, call *ast.CallExpr) (int, string, bool) {
	sel, ok := call.Fun.(*ast.SelectorExpr)
	if !ok {
		return 0, "", false
	}
	m, ok := f.pkg.TypesInfo.Uses[sel.Sel].(*types.Func)
	if !ok || m.Pkg() == nil || m.Pkg().Path() != "sync" {
		return 0, "", false
	}
	sig := m.Type().(*types.Signature)
	if sig.Recv() == nil {
		return 0, "", false
	}
	rn := asNamed(sig.Recv().Type())
	if rn == nil || (rn.Obj().Name() != "Mutex" && rn.Obj().Name() != "RWMutex") {
		return 0, "", false
	}
	switch m.Name() {
	case "Lock", "Unlock", "RLock", "RUnlock":
	default:
		fatal(call.Pos(), "unsupported mutex operation %s in %s", m.Name(), f.name)
		return 0, "", false
	}
	// which mutex?
	var fld *types.Var
	if s := f.pkg.TypesInfo.Selections[sel]; s != nil && len(s.Index()) > 1 {
		// promoted through an embedded mutex field
		t := deref(s.Recv())
		for _, i := range s.Index()[:len(s.Index())-1] {
			st, ok := t.Underlying().(*types.Struct)
			if !ok {
				break
			}
			fld = st.Field(i)
			t = deref(fld.Type())
		}
	} else {
		x := ast.Unparen(sel.X)
		if u, ok := x.(*ast.UnaryExpr); ok && u.Op == token.AND {
			x = ast.Unparen(u.X)
		}
		switch x := x.(type) {
		case *ast.SelectorExpr:
			if v, ok := f.pkg.TypesInfo.Uses[x.Sel].(*types.Var); ok && v.IsField() {
				fld = v
			} else if ok && v.Parent() == v.Pkg().Scope() {
				return a.lockID(shortPkg(v.Pkg()) + "." + v.Name()), m.Name(), true
			}
		case *ast.Ident:
			if v, ok := f.pkg.TypesInfo.Uses[x].(*types.Var); ok && v.Pkg() != nil && v.Parent() == v.Pkg().Scope() {
				return a.lockID(shortPkg(v.Pkg()) + "." + v.Name()), m.Name(), true
			}
		}
	}
	if fld == nil {
		fatal(call.Pos(), "cannot identify the mutex of %s in %s (not a struct field or package variable)", m.Name(), f.name)
		return 0, "", false
	}
	owner := a.fieldOwner[fld]
	if owner == nil {
		fatal(call.Pos(), "mutex field %s has no named owner type (in %s)", fld.Name(), f.name)
		return 0, "", false
	}
	return a.lockID(namedName(owner) + "." + fld.Name()), m.Name(), true
}

// ---------------------------------------------------------------- call resolution

func (a *analysis) implementors(iface *types.Interface) []*types.Named {
	var out []*types.Named
	for _, n := range a.allNamed {
		if types.Implements(n, iface) || types.Implements(types.NewPointer(n), iface) {
			out = append(out, n)
		}
	}
	return out
}

func (a *analysis) litFn(parent *fn, l *ast.FuncLit) *fn {
	if x, ok := a.lits[l]; ok {
		return x
	}
	root := parent
	for root.parent != nil {
		root = root.parent
	}
	root.nlits++
	x := &fn{name: fmt.Sprintf("%s$%d", root.name, root.nlits), pkg: parent.pkg, body: l.Body, ftype: l.Type,
		recvNamed: parent.recvNamed, parent: parent}
	a.lits[l] = x
	a.order = append(a.order, x)
	return x
}

// concTypes: concrete named types an interface-typed expression may hold (rules in the generated header).
// paramCHA=false: an interface-typed parameter contributes nothing (externally supplied value).
func (a *analysis) concTypes(f *fn, e ast.Expr, paramCHA bool, ext *bool) map[*types.Named]bool {
	out := map[*types.Named]bool{}
	info := f.pkg.TypesInfo
	e = ast.Unparen(e)
	tv, ok := info.Types[e]
	if !ok || tv.Type == nil {
		return out
	}
	if tv.IsNil() {
		return out
	}
	it, isI := tv.Type.Underlying().(*types.Interface)
	if !isI {
		if n := asNamed(tv.Type); n != nil {
			out[n] = true
		}
		return out
	}
	cha := func() {
		for _, n := range a.implementors(it) {
			out[n] = true
		}
	}
	add := func(m map[*types.Named]bool) {
		for n := range m {
			out[n] = true
		}
	}
	switch x := e.(type) {
	case *ast.SelectorExpr:
		if v, ok := info.Uses[x.Sel].(*types.Var); ok && v.IsField() {
			add(a.fieldTypes(v, it, paramCHA, ext))
			return out
		}
	case *ast.CallExpr:
		if info.Types[x.Fun].IsType() { // conversion I(x)
			if len(x.Args) == 1 {
				add(a.concTypes(f, x.Args[0], paramCHA, ext))
				return out
			}
		}
		callees, _, isExt := a.resolve(f, x)
		if isExt {
			cha()
			return out
		}
		for _, g := range callees {
			add(a.returnTypes(g, it, paramCHA, ext))
		}
		return out
	case *ast.Ident:
		v, ok := info.Uses[x].(*types.Var)
		if !ok {
			break
		}
		if a.isParam(f, v) {
			if paramCHA {
				cha()
			} else if ext != nil {
				*ext = true
			}
			return out
		}
		key := interface{}(v)
		if a.concBusy[key] {
			return out
		}
		a.concBusy[key] = true
		defer delete(a.concBusy, key)
		found := false
		root := f
		for root.parent != nil {
			root = root.parent
		}
		ast.Inspect(root.body, func(n ast.Node) bool {
			switch s := n.(type) {
			case *ast.AssignStmt:
				if len(s.Lhs) == len(s.Rhs) {
					for i, l := range s.Lhs {
						if id, ok := ast.Unparen(l).(*ast.Ident); ok && (info.Defs[id] == v || info.Uses[id] == v) {
							found = true
							add(a.concTypes(f, s.Rhs[i], paramCHA, ext))
						}
					}
				} else {
					for _, l := range s.Lhs {
						if id, ok := ast.Unparen(l).(*ast.Ident); ok && (info.Defs[id] == v || info.Uses[id] == v) {
							found = true
							cha()
						}
					}
				}
			case *ast.ValueSpec:
				for i, id := range s.Names {
					if info.Defs[id] == v && i < len(s.Values) {
						found = true
						add(a.concTypes(f, s.Values[i], paramCHA, ext))
					}
				}
			case *ast.RangeStmt:
				for _, l := range []ast.Expr{s.Key, s.Value} {
					if id, ok := l.(*ast.Ident); ok && (info.Defs[id] == v || info.Uses[id] == v) {
						found = true
						cha()
					}
				}
			}
			return true
		})
		if !found {
			cha()
		}
		return out
	}
	cha()
	return out
}

func (a *analysis) isParam(f *fn, v *types.Var) bool {
	for g := f; g != nil; g = g.parent {
		if g.ftype == nil || g.ftype.Params == nil {
			continue
		}
		for _, fld := range g.ftype.Params.List {
			for _, id := range fld.Names {
				if g.pkg.TypesInfo.Defs[id] == v {
					return true
				}
			}
		}
	}
	return false
}

func (a *analysis) fieldTypes(v *types.Var, it *types.Interface, paramCHA bool, ext *bool) map[*types.Named]bool {
	out := map[*types.Named]bool{}
	key := interface{}(v)
	if a.concBusy[key] {
		return out
	}
	a.concBusy[key] = true
	defer delete(a.concBusy, key)
	asgs, ok := a.fieldAsg[v]
	if !ok && !paramCHA { // never assigned in the analysed code: an externally supplied value
		if ext != nil {
			*ext = true
		}
		return out
	}
	if !ok { // never assigned in the analysed code (e.g. declared in a leaf package): class hierarchy
		for _, n := range a.implementors(it) {
			out[n] = true
		}
		return out
	}
	for _, s := range asgs {
		for n := range a.concTypes(s.ctx, s.rhs, paramCHA, ext) {
			out[n] = true
		}
	}
	return out
}

func (a *analysis) returnTypes(g *fn, it *types.Interface, paramCHA bool, ext *bool) map[*types.Named]bool {
	out := map[*types.Named]bool{}
	key := interface{}(g)
	if a.concBusy[key] {
		return out
	}
	a.concBusy[key] = true
	defer delete(a.concBusy, key)
	ast.Inspect(g.body, func(n ast.Node) bool {
		switch s := n.(type) {
		case *ast.FuncLit:
			return false
		case *ast.ReturnStmt:
			if len(s.Results) == 0 {
				for _, n := range a.implementors(it) {
					out[n] = true
				}
			} else {
				for n := range a.concTypes(g, s.Results[0], paramCHA, ext) {
					out[n] = true
				}
			}
		}
		return true
	})
	return out
}

// collectFieldAssignments indexes every assignment to an interface-typed struct field.
func (a *analysis) collectFieldAssignments() {
	for _, f := range append([]*fn{}, a.order...) {
		info := f.pkg.TypesInfo
		ast.Inspect(f.body, func(n ast.Node) bool {
			switch s := n.(type) {
			case *ast.AssignStmt:
				for i, l := range s.Lhs {
					sel, ok := ast.Unparen(l).(*ast.SelectorExpr)
					if !ok {
						continue
					}
					v, ok := info.Uses[sel.Sel].(*types.Var)
					if !ok || !v.IsField() || !types.IsInterface(v.Type()) {
						continue
					}
					if len(s.Lhs) == len(s.Rhs) {
						a.fieldAsg[v] = append(a.fieldAsg[v], asg{s.Rhs[i], f})
					} else {
						fatal(s.Pos(), "multi-value assignment to interface field %s", v.Name())
					}
				}
			case *ast.CompositeLit:
				t := info.TypeOf(s)
				if t == nil {
					return true
				}
				st, ok := deref(t).Underlying().(*types.Struct)
				if !ok {
					return true
				}
				for i, el := range s.Elts {
					var v *types.Var
					var rhs ast.Expr
					if kv, ok := el.(*ast.KeyValueExpr); ok {
						if id, ok := kv.Key.(*ast.Ident); ok {
							v, _ = info.Uses[id].(*types.Var)
						}
						rhs = kv.Value
					} else if i < st.NumFields() {
						v, rhs = st.Field(i), el
					}
					if v != nil && v.IsField() && types.IsInterface(v.Type()) {
						a.fieldAsg[v] = append(a.fieldAsg[v], asg{rhs, f})
					}
				}
			}
			return true
		})
	}
}

// resolve returns the analysed callees of a call, a description, and whether (part of) the target is external/unknown.
func (a *analysis) resolve(f *fn, call *ast.CallExpr) (callees []*fn, desc string, external bool) {
	info := f.pkg.TypesInfo
	fun := ast.Unparen(call.Fun)
	if l, ok := fun.(*ast.FuncLit); ok {
		return []*fn{a.litFn(f, l)}, "func literal", false
	}
	var obj types.Object
	var recvExpr ast.Expr
	switch x := fun.(type) {
	case *ast.Ident:
		obj = info.Uses[x]
	case *ast.SelectorExpr:
		obj = info.Uses[x.Sel]
		if s := info.Selections[x]; s != nil {
			recvExpr = x.X
		}
	case *ast.IndexExpr, *ast.IndexListExpr:
		fatal(call.Pos(), "generic instantiation call in %s not supported", f.name)
		return nil, "generic", true
	}
	m, ok := obj.(*types.Func)
	if !ok {
		return nil, "dynamic:" + types.ExprString(call.Fun), true
	}
	m = m.Origin()
	sig := m.Type().(*types.Signature)
	if sig.Recv() != nil && types.IsInterface(sig.Recv().Type()) && recvExpr != nil {
		// dynamic dispatch
		var set map[*types.Named]bool
		rt := info.TypeOf(recvExpr)
		if a.isClientIface(rt) && f.recvNamed != nil && len(a.registered[f.recvNamed]) > 0 {
			set = a.registered[f.recvNamed] // rule R1
		} else {
			set = a.concTypes(f, recvExpr, true, nil)
		}
		var names []*types.Named
		for n := range set {
			names = append(names, n)
		}
		sort.Slice(names, func(i, j int) bool { return namedName(names[i]) < namedName(names[j]) })
		for _, n := range names {
			o, _, _ := types.LookupFieldOrMethod(types.NewPointer(n), true, m.Pkg(), m.Name())
			mf, ok := o.(*types.Func)
			if !ok {
				continue
			}
			if g, ok := a.fns[mf.Origin()]; ok {
				callees = append(callees, g)
			} else {
				external = true
			}
		}
		return callees, "iface:" + m.Name(), external
	}
	if g, ok := a.fns[m]; ok {
		return []*fn{g}, g.name, false
	}
	return nil, "ext:" + m.FullName(), true
}

func (a *analysis) isClientIface(t types.Type) bool {
	n := asNamed(t)
	return n != nil && a.rtClient != nil && n.Obj() == a.rtClient.Obj()
}

// collectRegistrations: which client types are registered on which table type (rule R1).
func (a *analysis) collectRegistrations() {
	for _, f := range append([]*fn{}, a.order...) {
		info := f.pkg.TypesInfo
		ast.Inspect(f.body, func(n ast.Node) bool {
			call, ok := n.(*ast.CallExpr)
			if !ok || len(call.Args) < 1 {
				return true
			}
			sel, ok := call.Fun.(*ast.SelectorExpr)
			if !ok || (sel.Sel.Name != "Register" && sel.Sel.Name != "RegisterWithOptions") {
				return true
			}
			m, ok := info.Uses[sel.Sel].(*types.Func)
			if !ok {
				return true
			}
			sig := m.Type().(*types.Signature)
			if sig.Recv() == nil || sig.Params().Len() < 1 || !a.isClientIface(sig.Params().At(0).Type()) {
				return true
			}
			recvs := a.concTypes(f, sel.X, true, nil)
			ext := false
			clients := a.concTypes(f, call.Args[0], false, &ext)
			for r := range recvs {
				if a.registered[r] == nil {
					a.registered[r] = map[*types.Named]bool{}
				}
				for c := range clients {
					a.registered[r][c] = true
				}
				if ext {
					a.regExt[r] = append(a.regExt[r], f.name)
				}
			}
			return true
		})
	}
}

// ---------------------------------------------------------------- escape rule (constructor-local accesses)

func (a *analysis) isCtor(g *fn) bool {
	switch a.ctorMemo[g] {
	case 1, 3:
		return false
	case 2:
		return true
	}
	a.ctorMemo[g] = 1
	a.computeFresh(g)
	ok := true
	nret := 0
	ast.Inspect(g.body, func(n ast.Node) bool {
		switch s := n.(type) {
		case *ast.FuncLit:
			return false
		case *ast.ReturnStmt:
			nret++
			if len(s.Results) == 0 || !a.freshExpr(g, s.Results[0], true) {
				ok = false
			}
		}
		return true
	})
	if nret == 0 {
		ok = false
	}
	if ok {
		a.ctorMemo[g] = 2
	} else {
		a.ctorMemo[g] = 3
	}
	return ok
}

// freshExpr: expression denotes a freshly allocated object (composite literal, new, constructor call, fresh local)
func (a *analysis) freshExpr(g *fn, e ast.Expr, allowNil bool) bool {
	info := g.pkg.TypesInfo
	e = ast.Unparen(e)
	if tv, ok := info.Types[e]; ok && tv.IsNil() {
		return allowNil
	}
	switch x := e.(type) {
	case *ast.CompositeLit:
		return true
	case *ast.UnaryExpr:
		if x.Op == token.AND {
			_, ok := ast.Unparen(x.X).(*ast.CompositeLit)
			return ok
		}
	case *ast.CallExpr:
		if id, ok := ast.Unparen(x.Fun).(*ast.Ident); ok {
			if b, ok := info.Uses[id].(*types.Builtin); ok && b.Name() == "new" {
				return true
			}
		}
		callees, _, ext := a.resolve(g, x)
		if ext || len(callees) != 1 {
			return false
		}
		return a.isCtor(callees[0])
	case *ast.Ident:
		if v, ok := info.Uses[x].(*types.Var); ok {
			_, isFresh := g.fresh[v]
			return isFresh
		}
	}
	return false
}

// computeFresh finds the fresh locals of g and their publication points.
func (a *analysis) computeFresh(g *fn) {
	if g.freshOK {
		return
	}
	g.freshOK = true
	g.fresh = map[*types.Var]token.Pos{}
	info := g.pkg.TypesInfo
	// 1. fresh locals
	ast.Inspect(g.body, func(n ast.Node) bool {
		switch s := n.(type) {
		case *ast.FuncLit:
			return false
		case *ast.AssignStmt:
			if s.Tok != token.DEFINE || len(s.Rhs) != 1 {
				return true
			}
			id, ok := s.Lhs[0].(*ast.Ident)
			if !ok {
				return true
			}
			v, ok := info.Defs[id].(*types.Var)
			if !ok {
				return true
			}
			if a.freshExpr(g, s.Rhs[0], false) {
				g.fresh[v] = token.NoPos
			}
		case *ast.ValueSpec:
			if len(s.Values) == 0 {
				for _, id := range s.Names {
					if v, ok := info.Defs[id].(*types.Var); ok {
						if _, isStruct := v.Type().Underlying().(*types.Struct); isStruct {
							g.fresh[v] = token.NoPos
						}
					}
				}
			}
		}
		return true
	})
	if len(g.fresh) == 0 {
		return
	}
	// 2. publication points: first occurrence that is not a plain field access / local construction
	var stack []ast.Node
	publish := func(v *types.Var, pos token.Pos) {
		if cur := g.fresh[v]; cur == token.NoPos || pos < cur {
			g.fresh[v] = pos
		}
	}
	rootIsFreshOrLocal := func(e ast.Expr) bool {
		for {
			switch x := ast.Unparen(e).(type) {
			case *ast.SelectorExpr:
				e = x.X
				continue
			case *ast.IndexExpr:
				e = x.X
				continue
			case *ast.StarExpr:
				e = x.X
				continue
			case *ast.Ident:
				if x.Name == "_" {
					return true
				}
				var v *types.Var
				if d, ok := info.Defs[x].(*types.Var); ok {
					v = d
				} else if u, ok := info.Uses[x].(*types.Var); ok {
					v = u
				}
				if v == nil {
					return false
				}
				_, isFresh := g.fresh[v]
				return isFresh
			default:
				return false
			}
		}
	}
	ast.Inspect(g.body, func(n ast.Node) bool {
		if n == nil {
			stack = stack[:len(stack)-1]
			return true
		}
		stack = append(stack, n)
		id, ok := n.(*ast.Ident)
		if !ok {
			return true
		}
		v, ok := info.Uses[id].(*types.Var)
		if !ok {
			return true
		}
		if _, isFresh := g.fresh[v]; !isFresh {
			return true
		}
		// classify the occurrence by its ancestors
		i := len(stack) - 2
		if i < 0 {
			return true
		}
		// (a) base of a field selector chain: an access, not a publication -- unless the chain is a method call receiver
		if sel, ok := stack[i].(*ast.SelectorExpr); ok && sel.X == id {
			if s := info.Selections[sel]; s != nil && s.Kind() == types.FieldVal {
				return true
			}
			publish(v, id.Pos()) // method value / method call on the object
			return true
		}
		// (b) operand of a construction that is stored into a fresh local
		j := i
		child := ast.Node(id)
		for j >= 0 {
			switch p := stack[j].(type) {
			case *ast.ParenExpr, *ast.KeyValueExpr, *ast.CompositeLit:
				child = p
				j--
				continue
			case *ast.UnaryExpr:
				if p.Op == token.AND {
					child = p
					j--
					continue
				}
			case *ast.CallExpr:
				isArg := false
				for _, arg := range p.Args {
					if arg == child {
						isArg = true
					}
				}
				if isArg {
					if bid, ok := ast.Unparen(p.Fun).(*ast.Ident); ok {
						if b, ok := info.Uses[bid].(*types.Builtin); ok && (b.Name() == "append" || b.Name() == "len" || b.Name() == "cap") {
							child = p
							j--
							continue
						}
					}
					callees, _, ext := a.resolve(g, p)
					if !ext && len(callees) == 1 && a.isCtor(callees[0]) {
						child = p
						j--
						continue
					}
				}
			case *ast.AssignStmt:
				isRhs := false
				for _, r := range p.Rhs {
					if r == child {
						isRhs = true
					}
				}
				if isRhs {
					allLocal := true
					for _, l := range p.Lhs {
						if !rootIsFreshOrLocal(l) {
							allLocal = false
						}
					}
					// plain alias "x := v" / "x = v" is a publication (we do not track aliases); a construction is not
					if allLocal && child != ast.Node(id) {
						return true
					}
					if allLocal {
						if sel, ok := ast.Unparen(p.Lhs[0]).(*ast.SelectorExpr); ok && len(p.Lhs) == 1 {
							_ = sel // storing v itself into a field of a fresh local: not a publication
							return true
						}
					}
				}
			case *ast.BinaryExpr:
				// comparisons (v == nil) do not publish
				if p.Op == token.EQL || p.Op == token.NEQ {
					return true
				}
			case *ast.ReturnStmt:
				// returning the object ends this path; the caller's accesses are judged in the caller
				return true
			}
			break
		}
		publish(v, id.Pos())
		return true
	})
}

// prePublication: is the selector chain rooted at a fresh local that has not been published before pos?
func (a *analysis) prePublication(f *fn, e ast.Expr) bool {
	root := f
	for root.parent != nil {
		return false // inside function literals nothing is considered constructor-local
	}
	a.computeFresh(root)
	if len(root.fresh) == 0 {
		return false
	}
	info := f.pkg.TypesInfo
	x := e
	for {
		switch y := ast.Unparen(x).(type) {
		case *ast.SelectorExpr:
			if s := info.Selections[y]; s == nil || s.Kind() != types.FieldVal {
				return false
			}
			x = y.X
			continue
		case *ast.Ident:
			v, ok := info.Uses[y].(*types.Var)
			if !ok {
				return false
			}
			pub, isFresh := root.fresh[v]
			if !isFresh {
				return false
			}
			return pub == token.NoPos || e.Pos() < pub
		default:
			return false
		}
	}
}

// ---------------------------------------------------------------- intraprocedural analysis

type state struct {
	held   lockset
	defers []*ast.CallExpr
}

func (s state) key() string {
	var ks []string
	for k, v := range s.held {
		ks = append(ks, fmt.Sprintf("%d:%d", k, v))
	}
	sort.Strings(ks)
	d := make([]string, len(s.defers))
	for i, c := range s.defers {
		d[i] = fmt.Sprint(c.Pos())
	}
	return strings.Join(ks, ",") + "|" + strings.Join(d, ",")
}

func (s state) clone() state {
	return state{held: s.held.clone(), defers: append([]*ast.CallExpr{}, s.defers...)}
}

type walker struct {
	a  *analysis
	f  *fn
	st *state
}

func (a *analysis) analyze(f *fn) {
	if f.done {
		return
	}
	f.done = true
	mayReturn := func(c *ast.CallExpr) bool {
		if id, ok := ast.Unparen(c.Fun).(*ast.Ident); ok {
			if b, ok := f.pkg.TypesInfo.Uses[id].(*types.Builtin); ok && b.Name() == "panic" {
				return false
			}
		}
		if sel, ok := c.Fun.(*ast.SelectorExpr); ok {
			if o, ok := f.pkg.TypesInfo.Uses[sel.Sel].(*types.Func); ok && o.Pkg() != nil {
				full := o.Pkg().Path() + "." + o.Name()
				if full == "os.Exit" || strings.HasSuffix(full, "log.Fatal") || strings.HasSuffix(full, "log.Fatalf") {
					return false
				}
			}
		}
		return true
	}
	g := cfg.New(f.body, mayReturn)
	if len(g.Blocks) == 0 {
		return
	}
	in := map[*cfg.Block]map[string]state{}
	type item struct {
		b *cfg.Block
		s state
	}
	start := state{held: lockset{}}
	work := []item{{g.Blocks[0], start}}
	in[g.Blocks[0]] = map[string]state{start.key(): start}
	seenSite := map[string]bool{}
	steps := 0
	for len(work) > 0 {
		it := work[len(work)-1]
		work = work[:len(work)-1]
		steps++
		if steps > 200000 {
			fatal(f.body.Pos(), "state explosion in %s", f.name)
			return
		}
		st := it.s.clone()
		w := &walker{a: a, f: f, st: &st}
		for _, n := range it.b.Nodes {
			w.node(n)
		}
		if len(it.b.Succs) == 0 {
			// function exit (return, end of body, panic): run the deferred calls
			isPanic := false
			if len(it.b.Nodes) > 0 {
				if es, ok := it.b.Nodes[len(it.b.Nodes)-1].(*ast.ExprStmt); ok {
					if c, ok := es.X.(*ast.CallExpr); ok && !mayReturn(c) {
						isPanic = true
					}
				}
			}
			for i := len(st.defers) - 1; i >= 0; i-- {
				w.call(st.defers[i], true)
			}
			st.defers = nil
			if !isPanic {
				pos := f.body.Rbrace
				if len(it.b.Nodes) > 0 {
					pos = it.b.Nodes[len(it.b.Nodes)-1].Pos()
				}
				w.record(site{kind: sExit, held: st.held.clone(), pos: pos})
			}
			continue
		}
		for _, succ := range it.b.Succs {
			k := st.key()
			if in[succ] == nil {
				in[succ] = map[string]state{}
			}
			if _, ok := in[succ][k]; ok {
				continue
			}
			if len(in[succ]) > 256 {
				fatal(f.body.Pos(), "too many lock states at one program point in %s", f.name)
				return
			}
			in[succ][k] = st
			work = append(work, item{succ, st})
		}
	}
	// dedupe sites
	var out []site
	for _, s := range f.sites {
		k := siteKey(s)
		if seenSite[k] {
			continue
		}
		seenSite[k] = true
		out = append(out, s)
	}
	f.sites = out
}

func siteKey(s site) string {
	var ks []string
	for k, v := range s.held {
		ks = append(ks, fmt.Sprintf("%d:%d", k, v))
	}
	sort.Strings(ks)
	var cs []string
	for _, c := range s.callees {
		cs = append(cs, c.name)
	}
	fld := ""
	if s.field != nil {
		fld = fmt.Sprintf("%p", s.field)
	}
	co := ""
	if s.contentsOf != nil {
		co = s.contentsOf.name
	}
	return fmt.Sprintf("%d|%s|%d|%s|%s|%s|%v|%d|%s", s.kind, strings.Join(ks, ","), s.lock, strings.Join(cs, ","), s.desc, fld, s.write, s.pos, co)
}

func (w *walker) record(s site) {
	w.f.sites = append(w.f.sites, s)
}

func (w *walker) node(n ast.Node) {
	switch s := n.(type) {
	case *ast.AssignStmt:
		for _, r := range s.Rhs {
			w.expr(r)
		}
		for _, l := range s.Lhs {
			if s.Tok == token.DEFINE {
				if _, ok := l.(*ast.Ident); ok {
					continue
				}
			}
			w.write(l)
			if s.Tok != token.ASSIGN && s.Tok != token.DEFINE { // x.f += ...
				w.expr(l)
			}
		}
	case *ast.IncDecStmt:
		w.expr(s.X)
		w.write(s.X)
	case *ast.ExprStmt:
		w.expr(s.X)
	case *ast.SendStmt:
		w.expr(s.Chan)
		w.expr(s.Value)
		w.chanOp("send", s.Chan, s, s.Pos())
	case *ast.GoStmt:
		w.goStmt(s)
	case *ast.DeferStmt:
		// receiver and arguments are evaluated now, the call runs at function exit
		w.callOperands(s.Call)
		w.st.defers = append(w.st.defers, s.Call)
	case *ast.ReturnStmt:
		for _, r := range s.Results {
			w.expr(r)
		}
	case *ast.DeclStmt:
		if gd, ok := s.Decl.(*ast.GenDecl); ok {
			for _, sp := range gd.Specs {
				if vs, ok := sp.(*ast.ValueSpec); ok {
					for _, v := range vs.Values {
						w.expr(v)
					}
				}
			}
		}
	case *ast.BranchStmt, *ast.EmptyStmt, *ast.LabeledStmt:
	case ast.Expr:
		w.expr(s)
	case *ast.ValueSpec:
		for _, v := range s.Values {
			w.expr(v)
		}
	default:
		fatal(n.Pos(), "unsupported CFG node %T in %s", n, w.f.name)
	}
}

func (w *walker) goStmt(s *ast.GoStmt) {
	w.callOperands(s.Call)
	callees, desc, _ := w.a.resolve(w.f, s.Call)
	w.record(site{kind: sGo, held: w.st.held.clone(), callees: callees, desc: desc, pos: s.Pos()})
}

// callOperands walks the receiver expression and the arguments of a call (not the call itself)
func (w *walker) callOperands(c *ast.CallExpr) {
	switch x := ast.Unparen(c.Fun).(type) {
	case *ast.SelectorExpr:
		if s := w.f.pkg.TypesInfo.Selections[x]; s != nil {
			if s.Kind() == types.FieldVal {
				w.expr(x) // call of a func-typed field: the field is read
			} else {
				w.expr(x.X)
			}
		}
	case *ast.FuncLit:
	case *ast.Ident:
	default:
		w.expr(x)
	}
	for _, arg := range c.Args {
		if _, ok := ast.Unparen(arg).(*ast.FuncLit); ok {
			continue
		}
		w.expr(arg)
	}
}

func (w *walker) expr(e ast.Expr) {
	if e == nil {
		return
	}
	info := w.f.pkg.TypesInfo
	switch x := e.(type) {
	case *ast.CallExpr:
		w.call(x, false)
	case *ast.FuncLit:
		fatal(x.Pos(), "function literal used as a value (not called, deferred, spawned or passed as an argument) in %s", w.f.name)
	case *ast.UnaryExpr:
		if x.Op == token.ARROW {
			w.expr(x.X)
			w.chanOp("recv", x.X, x, x.Pos())
			return
		}
		w.expr(x.X) // &x.f counts as a read of f (writes through the pointer are outside the model)
	case *ast.SelectorExpr:
		if s := info.Selections[x]; s != nil && s.Kind() == types.FieldVal {
			w.access(x, false)
			w.expr(x.X)
			return
		}
		if info.Selections[x] != nil { // method value
			if _, ok := info.Uses[x.Sel].(*types.Func); ok {
				w.record(site{kind: sDyn, held: w.st.held.clone(), desc: "method value " + types.ExprString(x), pos: x.Pos()})
			}
			w.expr(x.X)
		}
		// qualified identifier pkg.Name: nothing
	case *ast.Ident, *ast.BasicLit:
	case *ast.ParenExpr:
		w.expr(x.X)
	case *ast.StarExpr:
		w.expr(x.X)
	case *ast.BinaryExpr:
		w.expr(x.X)
		w.expr(x.Y)
	case *ast.IndexExpr:
		w.expr(x.X)
		w.expr(x.Index)
	case *ast.IndexListExpr:
		w.expr(x.X)
	case *ast.SliceExpr:
		w.expr(x.X)
		w.expr(x.Low)
		w.expr(x.High)
		w.expr(x.Max)
	case *ast.TypeAssertExpr:
		w.expr(x.X)
	case *ast.KeyValueExpr:
		if _, ok := x.Key.(*ast.Ident); !ok {
			w.expr(x.Key)
		}
		w.expr(x.Value)
	case *ast.CompositeLit:
		for _, el := range x.Elts {
			if kv, ok := el.(*ast.KeyValueExpr); ok {
				if _, isId := kv.Key.(*ast.Ident); !isId {
					w.expr(kv.Key)
				}
				w.expr(kv.Value)
			} else {
				w.expr(el)
			}
		}
	case *ast.ArrayType, *ast.MapType, *ast.ChanType, *ast.FuncType, *ast.StructType, *ast.InterfaceType, *ast.Ellipsis:
	default:
		fatal(e.Pos(), "unsupported expression %T in %s", e, w.f.name)
	}
}

// write: e is assigned to
func (w *walker) write(e ast.Expr) {
	info := w.f.pkg.TypesInfo
	switch x := ast.Unparen(e).(type) {
	case *ast.Ident:
	case *ast.IndexExpr:
		w.write(x.X) // element of a map/slice/array attributed to the field holding it
		w.expr(x.Index)
	case *ast.StarExpr:
		w.expr(x.X)
	case *ast.SelectorExpr:
		if s := info.Selections[x]; s != nil && s.Kind() == types.FieldVal {
			w.access(x, true)
			// a write to a field of a struct *value* field also modifies the enclosing field
			if bt := info.TypeOf(x.X); bt != nil {
				if _, isPtr := bt.Underlying().(*types.Pointer); !isPtr {
					if _, isSel := ast.Unparen(x.X).(*ast.SelectorExpr); isSel {
						w.write(x.X)
						return
					}
				}
			}
			w.expr(x.X)
		}
	default:
		w.expr(e)
	}
}

func (w *walker) access(sel *ast.SelectorExpr, write bool) {
	info := w.f.pkg.TypesInfo
	v, ok := info.Uses[sel.Sel].(*types.Var)
	if !ok || !v.IsField() {
		return
	}
	owner := w.a.fieldOwner[v]
	if owner == nil || !w.a.shared[owner] {
		return
	}
	if isSyncType(v.Type()) {
		return
	}
	if w.a.prePublication(w.f, sel) {
		return
	}
	w.record(site{kind: sAccess, held: w.st.held.clone(), field: v, write: write, pos: sel.Pos()})
}

func (w *walker) chanOp(kind string, ch ast.Expr, at ast.Node, pos token.Pos) {
	// select with a default clause never blocks
	if st, ok := at.(ast.Stmt); ok {
		if hasDefault, isComm := w.a.selectComm[st]; isComm && hasDefault {
			return
		}
	}
	inSelect := ""
	for cm, hasDefault := range w.a.selectComm {
		if cm.Pos() <= pos && pos < cm.End() {
			if hasDefault {
				return
			}
			inSelect = "select-"
		}
	}
	desc, unbuf := w.a.chanDesc(w.f, ch)
	w.record(site{kind: sChan, held: w.st.held.clone(), desc: inSelect + kind + " " + desc, unbuf: unbuf, pos: pos})
}

// chanDesc names the channel and decides whether it is unbuffered (true also when unknown).
func (a *analysis) chanDesc(f *fn, ch ast.Expr) (string, bool) {
	info := f.pkg.TypesInfo
	ch = ast.Unparen(ch)
	if sel, ok := ch.(*ast.SelectorExpr); ok {
		if v, ok := info.Uses[sel.Sel].(*types.Var); ok && v.IsField() {
			name := v.Name()
			if o := a.fieldOwner[v]; o != nil {
				name = namedName(o) + "." + v.Name()
			} else if v.Pkg() != nil {
				name = shortPkg(v.Pkg()) + ".?." + v.Name()
			}
			return name, !a.fieldChanBuffered(v)
		}
	}
	if c, ok := ch.(*ast.CallExpr); ok {
		return "result of " + types.ExprString(c.Fun), true
	}
	return "local " + types.ExprString(ch), true
}

// fieldChanBuffered: every make() stored into the field has a capacity argument
func (a *analysis) fieldChanBuffered(v *types.Var) bool {
	found, all := false, true
	for _, f := range a.order {
		info := f.pkg.TypesInfo
		check := func(rhs ast.Expr) {
			c, ok := ast.Unparen(rhs).(*ast.CallExpr)
			if !ok {
				all = false
				return
			}
			id, ok := c.Fun.(*ast.Ident)
			if !ok || id.Name != "make" {
				all = false
				return
			}
			found = true
			if len(c.Args) < 2 {
				all = false
				return
			}
			if tv, ok := info.Types[c.Args[1]]; ok && tv.Value != nil && tv.Value.String() == "0" {
				all = false
			}
		}
		ast.Inspect(f.body, func(n ast.Node) bool {
			switch s := n.(type) {
			case *ast.AssignStmt:
				if len(s.Lhs) == len(s.Rhs) {
					for i, l := range s.Lhs {
						if sel, ok := ast.Unparen(l).(*ast.SelectorExpr); ok && info.Uses[sel.Sel] == v {
							check(s.Rhs[i])
						}
					}
				}
			case *ast.KeyValueExpr:
				if id, ok := s.Key.(*ast.Ident); ok && info.Uses[id] == v {
					check(s.Value)
				}
			}
			return true
		})
	}
	return found && all
}

// call handles a call expression; deferred=true when run at function exit (operands already evaluated)
func (w *walker) call(c *ast.CallExpr, deferred bool) {
	info := w.f.pkg.TypesInfo
	a := w.a
	if tv, ok := info.Types[c.Fun]; ok && tv.IsType() { // conversion
		if !deferred {
			for _, arg := range c.Args {
				w.expr(arg)
			}
		}
		return
	}
	if id, ok := ast.Unparen(c.Fun).(*ast.Ident); ok {
		if b, ok := info.Uses[id].(*types.Builtin); ok {
			switch b.Name() {
			case "delete", "copy", "clear":
				if !deferred && len(c.Args) > 0 {
					w.write(c.Args[0])
					for _, arg := range c.Args[1:] {
						w.expr(arg)
					}
				}
			case "recover", "panic", "append", "len", "cap", "make", "new", "print", "println", "close", "min", "max", "complex", "real", "imag":
				if b.Name() == "close" && len(c.Args) == 1 {
					if fs, ok := ast.Unparen(c.Args[0]).(*ast.SelectorExpr); ok {
						if v, ok := info.Uses[fs.Sel].(*types.Var); ok && v.IsField() && a.fieldOwner[v] != nil {
							w.record(site{kind: sSync, held: w.st.held.clone(), desc: "close " + namedName(a.fieldOwner[v]) + "." + v.Name(), pos: c.Pos()})
						}
					}
				}
				if !deferred {
					for _, arg := range c.Args {
						w.expr(arg)
					}
				}
			default:
				fatal(c.Pos(), "unsupported builtin %s in %s", b.Name(), w.f.name)
			}
			return
		}
	}
	if l, op, ok := a.lockOp(w.f, c); ok {
		if !deferred {
			if sel, ok := c.Fun.(*ast.SelectorExpr); ok {
				if x, ok := ast.Unparen(sel.X).(*ast.SelectorExpr); ok {
					w.expr(x.X)
				}
			}
		}
		switch op {
		case "Lock", "RLock":
			w.record(site{kind: sAcquire, held: w.st.held.clone(), lock: l, pos: c.Pos()})
			mode := modeW
			if op == "RLock" {
				mode = modeR
			}
			if old, ok := w.st.held[l]; !ok || mode < old {
				w.st.held[l] = mode
			}
		case "Unlock", "RUnlock":
			if _, ok := w.st.held[l]; !ok {
				fatal(c.Pos(), "%s of %s which is not held on this path in %s (lock hand-over between functions is not supported)",
					op, a.lockNames[l], w.f.name)
			}
			delete(w.st.held, l)
		}
		return
	}
	// sync/atomic on a field: the field is accessed atomically
	if sel, ok := c.Fun.(*ast.SelectorExpr); ok {
		if o, ok := info.Uses[sel.Sel].(*types.Func); ok && o.Pkg() != nil && o.Pkg().Path() == "sync/atomic" {
			for _, arg := range c.Args {
				if u, ok := ast.Unparen(arg).(*ast.UnaryExpr); ok && u.Op == token.AND {
					if fs, ok := ast.Unparen(u.X).(*ast.SelectorExpr); ok {
						if v, ok := info.Uses[fs.Sel].(*types.Var); ok && v.IsField() {
							a.atomicFld[v] = true
							// a nested field (x.counters.n): the enclosing field is touched atomically too
							if inner, ok := ast.Unparen(fs.X).(*ast.SelectorExpr); ok {
								if iv, ok := info.Uses[inner.Sel].(*types.Var); ok && iv.IsField() {
									if _, isPtr := iv.Type().Underlying().(*types.Pointer); !isPtr {
										a.atomicFld[iv] = true
										if !deferred {
											w.expr(inner.X)
										}
										continue
									}
								}
							}
							if !deferred {
								w.expr(fs.X)
							}
							continue
						}
					}
				}
				if !deferred {
					w.expr(arg)
				}
			}
			return
		}
	}
	if !deferred {
		w.callOperands(c)
	}
	callees, desc, ext := a.resolve(w.f, c)
	// synchronous callbacks: function literals passed as arguments are called at this site
	for _, arg := range c.Args {
		if l, ok := ast.Unparen(arg).(*ast.FuncLit); ok {
			callees = append(callees, a.litFn(w.f, l))
		}
	}
	if strings.HasPrefix(desc, "dynamic:") {
		w.record(site{kind: sDyn, held: w.st.held.clone(), desc: desc, pos: c.Pos()})
	}
	if ext && (strings.HasPrefix(desc, "ext:(*sync.WaitGroup).Wait") || strings.HasPrefix(desc, "ext:(*sync.WaitGroup).Done")) {
		if sel, ok := c.Fun.(*ast.SelectorExpr); ok {
			if fs, ok := ast.Unparen(sel.X).(*ast.SelectorExpr); ok {
				if v, ok := info.Uses[fs.Sel].(*types.Var); ok && v.IsField() && a.fieldOwner[v] != nil {
					kind := "wg-wait "
					if strings.HasSuffix(desc, "Done") {
						kind = "wg-done "
					}
					w.record(site{kind: sSync, held: w.st.held.clone(), desc: kind + namedName(a.fieldOwner[v]) + "." + v.Name(), pos: c.Pos()})
				}
			}
		}
	}
	if ext && strings.HasPrefix(desc, "ext:(*sync.WaitGroup).Wait") {
		w.record(site{kind: sChan, held: w.st.held.clone(), desc: "wait sync.WaitGroup", unbuf: true, pos: c.Pos()})
	}
	if len(callees) > 0 {
		w.record(site{kind: sCall, held: w.st.held.clone(), callees: callees, desc: desc, pos: c.Pos()})
	}
	w.contentsAccess(c, callees)
}

// contentsAccess (rule T): a method call on a field that holds another shared, self-locking object
// (x.rt.Dump(), x.rt.AddPath(...)) is an access to the pseudo-field <Owner>.contents of the owner.
func (w *walker) contentsAccess(c *ast.CallExpr, callees []*fn) {
	if len(callees) != 1 || callees[0].recvNamed == nil || namedName(callees[0].recvNamed) != storeType {
		return
	}
	sel, ok := ast.Unparen(c.Fun).(*ast.SelectorExpr)
	if !ok {
		return
	}
	fs, ok := ast.Unparen(sel.X).(*ast.SelectorExpr)
	if !ok {
		return
	}
	info := w.f.pkg.TypesInfo
	v, ok := info.Uses[fs.Sel].(*types.Var)
	if !ok || !v.IsField() {
		return
	}
	owner := w.a.fieldOwner[v]
	if owner == nil || !w.a.shared[owner] || owner == callees[0].recvNamed {
		return
	}
	if w.a.prePublication(w.f, fs) {
		return
	}
	pf := w.a.contents[owner]
	if pf == nil {
		pf = types.NewField(token.NoPos, owner.Obj().Pkg(), "contents", types.Typ[types.Int], false)
		w.a.contents[owner] = pf
		w.a.fieldOwner[pf] = owner
	}
	handsOut := false
	if g := callees[0]; g.obj != nil {
		res := g.obj.Type().(*types.Signature).Results()
		for i := 0; i < res.Len(); i++ {
			if _, basic := res.At(i).Type().Underlying().(*types.Basic); !basic {
				if !types.Identical(res.At(i).Type(), types.Universe.Lookup("error").Type()) {
					handsOut = true
				}
			}
		}
	}
	w.record(site{kind: sAccess, held: w.st.held.clone(), field: pf, pos: c.Pos(),
		contentsOf: callees[0], contentsRcv: callees[0].recvNamed, handsOut: handsOut})
}

// ---------------------------------------------------------------- main

func main() {
	repo := flag.String("repo", os.Getenv("VERIF_REPO"), "bio-rd working tree")
	out := flag.String("out", "coq/Gen/LockModel.v", "output file")
	sites := flag.String("sites", "", "human-readable site report (with positions)")
	verbose := flag.Bool("v", false, "verbose")
	flag.Parse()
	if *repo == "" {
		*repo = "/repo"
	}
	a, err := load(*repo)
	if err != nil {
		fmt.Fprintln(os.Stderr, "locktab: load failed:", err)
		os.Exit(2)
	}
	a.verbose = *verbose
	a.index()
	a.collectFieldAssignments()
	a.collectRegistrations()
	for i := 0; i < len(a.order); i++ { // a.order grows while literals are discovered
		a.analyze(a.order[i])
	}
	res := a.summarize()
	res.sharedPaths = a.sharedPathSites()
	res.joins = a.goroutineJoins()
	if len(fatals) > 0 {
		sort.Strings(fatals)
		for _, f := range fatals {
			fmt.Fprintln(os.Stderr, "locktab: UNSUPPORTED:", f)
		}
		os.Exit(3)
	}
	text := a.emit(res)
	old, _ := os.ReadFile(*out)
	if string(old) != text {
		if err := os.MkdirAll(dirOf(*out), 0o755); err != nil {
			fmt.Fprintln(os.Stderr, err)
			os.Exit(2)
		}
		tmp := *out + ".tmp"
		if err := os.WriteFile(tmp, []byte(text), 0o644); err != nil {
			fmt.Fprintln(os.Stderr, err)
			os.Exit(2)
		}
		if err := os.Rename(tmp, *out); err != nil {
			fmt.Fprintln(os.Stderr, err)
			os.Exit(2)
		}
		fmt.Println("locktab: wrote", *out)
	} else {
		fmt.Println("locktab: unchanged", *out)
	}
	if *sites != "" {
		os.WriteFile(*sites, []byte(a.siteReport(res)), 0o644)
	}
}

func dirOf(p string) string {
	if i := strings.LastIndex(p, "/"); i >= 0 {
		return p[:i]
	}
	return "."
}
