package main

import (
	"go/ast"
	"go/token"
	"go/types"
	"sort"
	"strings"
)

// ---------------------------------------------------------------- rule P: ownership of inserted paths

type sharedPath struct {
	fn, kind, callee string
}

// tables that store the *route.Path pointer they are given
func (a *analysis) storesPath(t types.Type) bool {
	n := asNamed(t)
	if n == nil {
		return false
	}
	switch namedName(n) {
	case "locRIB.LocRIB", "adjRIBIn.AdjRIBIn", "routingtable.AdjRIBIn", "routingtable.AdjRIB":
		return true
	}
	return false
}

func isPathPtr(t types.Type) bool {
	n := asNamed(t)
	if n == nil {
		return false
	}
	_, isPtr := types.Unalias(t).(*types.Pointer)
	return isPtr && namedName(n) == "route.Path"
}

// sharedPathSites: insertions x.AddPath(pfx, v) into a storing table where the path object v may be inserted
// more than once (loop / twice) or is written by the caller after the insertion.
func (a *analysis) sharedPathSites() []sharedPath {
	var out []sharedPath
	seen := map[sharedPath]bool{}
	add := func(s sharedPath) {
		if !seen[s] {
			seen[s] = true
			out = append(out, s)
		}
	}
	for _, f := range a.order {
		if f.parent != nil {
			continue
		}
		info := f.pkg.TypesInfo
		type ins struct {
			call *ast.CallExpr
			v    *types.Var
			loop ast.Node
			name string
		}
		var inserts []ins
		var stack []ast.Node
		// assignments to path variables: position, variable, rhs
		type asgn struct {
			pos token.Pos
			v   *types.Var
			rhs ast.Expr
		}
		var asgns []asgn
		type wr struct {
			pos token.Pos
			v   *types.Var
		}
		var writes []wr
		rootVar := func(e ast.Expr) (*types.Var, bool) { // (root variable, went through a selector)
			through := false
			for {
				switch x := ast.Unparen(e).(type) {
				case *ast.SelectorExpr:
					through = true
					e = x.X
				case *ast.IndexExpr:
					e = x.X
				case *ast.StarExpr:
					e = x.X
				case *ast.Ident:
					if v, ok := info.Uses[x].(*types.Var); ok {
						return v, through
					}
					if v, ok := info.Defs[x].(*types.Var); ok {
						return v, through
					}
					return nil, false
				default:
					return nil, false
				}
			}
		}
		ast.Inspect(f.body, func(n ast.Node) bool {
			if n == nil {
				stack = stack[:len(stack)-1]
				return true
			}
			stack = append(stack, n)
			switch x := n.(type) {
			case *ast.AssignStmt:
				for i, l := range x.Lhs {
					v, through := rootVar(l)
					if v == nil {
						continue
					}
					if through {
						if isPathPtr(v.Type()) {
							writes = append(writes, wr{x.Pos(), v})
						}
					} else if isPathPtr(v.Type()) {
						var rhs ast.Expr
						if len(x.Lhs) == len(x.Rhs) {
							rhs = x.Rhs[i]
						}
						asgns = append(asgns, asgn{x.Pos(), v, rhs})
					}
				}
			case *ast.IncDecStmt:
				if v, through := rootVar(x.X); v != nil && through && isPathPtr(v.Type()) {
					writes = append(writes, wr{x.Pos(), v})
				}
			case *ast.CallExpr:
				sel, ok := x.Fun.(*ast.SelectorExpr)
				if !ok || (sel.Sel.Name != "AddPath" && sel.Sel.Name != "AddPathInitialDump") || len(x.Args) != 2 {
					return true
				}
				if !a.storesPath(info.TypeOf(sel.X)) {
					return true
				}
				id, ok := ast.Unparen(x.Args[1]).(*ast.Ident)
				if !ok {
					return true
				}
				v, ok := info.Uses[id].(*types.Var)
				if !ok || !isPathPtr(v.Type()) {
					return true
				}
				var loop ast.Node
				for i := len(stack) - 2; i >= 0; i-- {
					switch stack[i].(type) {
					case *ast.ForStmt, *ast.RangeStmt:
						loop = stack[i]
					case *ast.FuncLit:
						i = -1
					}
					if loop != nil {
						break
					}
				}
				tn := "?"
				if n := asNamed(info.TypeOf(sel.X)); n != nil {
					tn = namedName(n)
				}
				inserts = append(inserts, ins{x, v, loop, tn + "." + sel.Sel.Name})
			}
			return true
		})
		within := func(p token.Pos, n ast.Node) bool { return n != nil && n.Pos() <= p && p < n.End() }
		// mayOutlive: inside loop L the variable v may still denote an object created outside this iteration
		var mayShare func(v *types.Var, L ast.Node, before token.Pos, depth int) bool
		mayShare = func(v *types.Var, L ast.Node, before token.Pos, depth int) bool {
			if depth > 4 {
				return true
			}
			if !within(v.Pos(), L) {
				// declared outside the loop: shared unless every iteration reassigns it before the call ... we only accept
				// an unconditional fresh assignment as the FIRST statement-level definition, which we cannot see here: shared
				fresh := false
				for _, s := range asgns {
					if s.v == v && within(s.pos, L) && s.pos < before {
						fresh = true
					}
				}
				if !fresh {
					return true
				}
			}
			for _, s := range asgns {
				if s.v != v || !within(s.pos, L) || s.pos >= before {
					continue
				}
				if s.rhs == nil {
					continue
				}
				if id, ok := ast.Unparen(s.rhs).(*ast.Ident); ok { // alias of another variable
					if w, ok := info.Uses[id].(*types.Var); ok && isPathPtr(w.Type()) {
						if mayShare(w, L, s.pos, depth+1) {
							return true
						}
					}
				}
			}
			return false
		}
		for i, in := range inserts {
			if in.loop != nil && mayShare(in.v, in.loop, in.call.Pos(), 0) {
				add(sharedPath{f.name, "same path inserted by several iterations", in.name})
			}
			for j, other := range inserts {
				if j <= i || other.v != in.v {
					continue
				}
				re := false
				for _, s := range asgns {
					if s.v == in.v && s.pos > in.call.Pos() && s.pos < other.call.Pos() {
						re = true
					}
				}
				if !re {
					add(sharedPath{f.name, "same path inserted twice", in.name})
				}
			}
			for _, w := range writes {
				if w.v == in.v && (w.pos > in.call.End() || (in.loop != nil && within(w.pos, in.loop) && mayShare(in.v, in.loop, in.call.Pos(), 0))) {
					add(sharedPath{f.name, "path written after insertion", in.name})
				}
			}
		}
	}
	sort.Slice(out, func(i, j int) bool {
		if out[i].fn != out[j].fn {
			return out[i].fn < out[j].fn
		}
		return out[i].kind+out[i].callee < out[j].kind+out[j].callee
	})
	return out
}

// ---------------------------------------------------------------- rule J: goroutines joined on teardown

type join struct {
	typ, start, goroutine, teardown, kind string
}

// goroutineJoins: for every goroutine a type starts on itself (go x.m() inside a method of T) that listens on a
// channel field of T or signals a WaitGroup field of T: the functions that address that goroutine through this
// field, and how: "rendezvous" (blocking send on the unbuffered channel), "waitgroup" (wg.Wait), or merely
// "close-only" / "buffered-send" (a signal that does not wait for the goroutine).
func (a *analysis) goroutineJoins() []join {
	var out []join
	seen := map[join]bool{}
	for _, f := range a.order {
		for _, s := range f.sites {
			if s.kind != sGo {
				continue
			}
			for _, g := range s.callees {
				if g.recvNamed == nil {
					continue
				}
				tn := namedName(g.recvNamed)
				chans := map[string]bool{}
				wgs := map[string]bool{}
				for _, gs := range g.sites {
					if gs.kind == sChan && strings.Contains(gs.desc, "recv "+tn+".") {
						chans[gs.desc[strings.Index(gs.desc, "recv ")+5:]] = true
					}
					if gs.kind == sSync && strings.HasPrefix(gs.desc, "wg-done "+tn+".") {
						wgs[strings.TrimPrefix(gs.desc, "wg-done ")] = true
					}
				}
				if len(chans) == 0 && len(wgs) == 0 {
					continue
				}
				for _, h := range a.order {
					if h == g {
						continue
					}
					best := ""
					rank := map[string]int{"": 0, "buffered-send": 1, "close-only": 2, "rendezvous": 3, "waitgroup": 4}
					for _, hs := range h.sites {
						k := ""
						switch {
						case hs.kind == sChan && strings.HasPrefix(hs.desc, "send ") && chans[strings.TrimPrefix(hs.desc, "send ")]:
							k = "rendezvous"
							if !hs.unbuf {
								k = "buffered-send"
							}
						case hs.kind == sChan && strings.HasPrefix(hs.desc, "select-send ") && chans[strings.TrimPrefix(hs.desc, "select-send ")]:
							k = "buffered-send" // a send that has an alternative does not wait for the goroutine
						case hs.kind == sSync && strings.HasPrefix(hs.desc, "close ") && chans[strings.TrimPrefix(hs.desc, "close ")]:
							k = "close-only"
						case hs.kind == sSync && strings.HasPrefix(hs.desc, "wg-wait ") && wgs[strings.TrimPrefix(hs.desc, "wg-wait ")]:
							k = "waitgroup"
						}
						if rank[k] > rank[best] {
							best = k
						}
					}
					if best == "" {
						continue
					}
					j := join{tn, f.name, g.name, h.name, best}
					if !seen[j] {
						seen[j] = true
						out = append(out, j)
					}
				}
			}
		}
	}
	sort.Slice(out, func(i, j int) bool {
		x, y := out[i], out[j]
		return x.typ+x.start+x.goroutine+x.teardown+x.kind < y.typ+y.start+y.goroutine+y.teardown+y.kind
	})
	return out
}
