package main

import (
	"fmt"
	"go/types"
	"sort"
	"strings"
)

type edge struct {
	from, to int
	holder   string
	witness  string
}

type rdv struct {
	fn   string
	held []int
	op   string
}

type leak struct {
	fn   string
	lock int
}

type acc struct {
	field int
	write bool
	fn    string
	locks []int
}

type dyn struct {
	fn    string
	desc  string
	locks []int
}

type result struct {
	edges       []edge
	rdvs        []rdv
	bufUnder    []rdv
	leaks       []leak
	fields      []string
	fieldVar    map[*types.Var]int
	accs        []acc
	atomic      []string
	dyns        []dyn
	entry       map[string][]int
	funcsTotal  int
	sharedPaths []sharedPath
	joins       []join
}

func sortedLocks(l lockset) []int {
	var r []int
	for k := range l {
		r = append(r, k)
	}
	sort.Ints(r)
	return r
}

func (a *analysis) summarize() *result {
	res := &result{fieldVar: map[*types.Var]int{}, entry: map[string][]int{}}
	res.funcsTotal = len(a.order)
	// ---- transitive acquisitions and blocking channel operations
	acq := map[*fn]map[int]string{}
	rv := map[*fn]map[string]string{}
	rvBuf := map[*fn]map[string]string{}
	for _, f := range a.order {
		acq[f] = map[int]string{}
		rv[f] = map[string]string{}
		rvBuf[f] = map[string]string{}
		for _, s := range f.sites {
			switch s.kind {
			case sAcquire:
				if _, ok := acq[f][s.lock]; !ok {
					acq[f][s.lock] = f.name
				}
			case sChan:
				m := rv[f]
				if !s.unbuf {
					m = rvBuf[f]
				}
				if _, ok := m[s.desc]; !ok {
					m[s.desc] = f.name
				}
			}
		}
	}
	for changed := true; changed; {
		changed = false
		for _, f := range a.order {
			for _, s := range f.sites {
				if s.kind != sCall {
					continue
				}
				for _, g := range s.callees {
					for l, w := range acq[g] {
						nw := f.name + " > " + w
						if old, ok := acq[f][l]; !ok || (len(nw) < len(old)) || (len(nw) == len(old) && nw < old) {
							if !ok || strings.Count(nw, ">") < 12 {
								acq[f][l] = nw
								changed = true
							}
						}
					}
					for _, pair := range [][2]map[*fn]map[string]string{{rv, rv}, {rvBuf, rvBuf}} {
						for d, w := range pair[0][g] {
							nw := f.name + " > " + w
							if old, ok := pair[1][f][d]; !ok || (len(nw) < len(old)) || (len(nw) == len(old) && nw < old) {
								if !ok || strings.Count(nw, ">") < 12 {
									pair[1][f][d] = nw
									changed = true
								}
							}
						}
					}
				}
			}
		}
	}
	// ---- lock-order edges, rendezvous under lock, leaks
	em := map[string]edge{}
	addEdge := func(e edge) {
		k := fmt.Sprintf("%d>%d@%s", e.from, e.to, e.holder)
		if old, ok := em[k]; !ok || len(e.witness) < len(old.witness) || (len(e.witness) == len(old.witness) && e.witness < old.witness) {
			em[k] = e
		}
	}
	rm := map[string]rdv{}
	bm := map[string]rdv{}
	lm := map[string]leak{}
	for _, f := range a.order {
		for _, s := range f.sites {
			held := sortedLocks(s.held)
			switch s.kind {
			case sAcquire:
				for _, h := range held {
					addEdge(edge{h, s.lock, f.name, f.name})
				}
			case sCall:
				if len(held) == 0 {
					continue
				}
				for _, g := range s.callees {
					for l, w := range acq[g] {
						for _, h := range held {
							addEdge(edge{h, l, f.name, f.name + " > " + w})
						}
					}
					for d, w := range rv[g] {
						r := rdv{f.name, held, d + " via " + w}
						rm[f.name+"|"+fmt.Sprint(held)+"|"+d] = pickRdv(rm, f.name+"|"+fmt.Sprint(held)+"|"+d, r)
					}
					for d, w := range rvBuf[g] {
						r := rdv{f.name, held, d + " via " + w}
						bm[f.name+"|"+fmt.Sprint(held)+"|"+d] = pickRdv(bm, f.name+"|"+fmt.Sprint(held)+"|"+d, r)
					}
				}
			case sChan:
				if len(held) == 0 {
					continue
				}
				r := rdv{f.name, held, s.desc}
				k := f.name + "|" + fmt.Sprint(held) + "|" + s.desc
				if s.unbuf {
					rm[k] = r
				} else {
					bm[k] = r
				}
			case sExit:
				for _, h := range held {
					lm[fmt.Sprintf("%s|%d", f.name, h)] = leak{f.name, h}
				}
			}
		}
	}
	for _, e := range em {
		res.edges = append(res.edges, e)
	}
	sort.Slice(res.edges, func(i, j int) bool {
		x, y := res.edges[i], res.edges[j]
		if x.from != y.from {
			return a.lockNames[x.from] < a.lockNames[y.from]
		}
		if x.to != y.to {
			return a.lockNames[x.to] < a.lockNames[y.to]
		}
		return x.holder < y.holder
	})
	for _, r := range rm {
		res.rdvs = append(res.rdvs, r)
	}
	for _, r := range bm {
		res.bufUnder = append(res.bufUnder, r)
	}
	for _, rs := range []*[]rdv{&res.rdvs, &res.bufUnder} {
		x := *rs
		sort.Slice(x, func(i, j int) bool {
			if x[i].fn != x[j].fn {
				return x[i].fn < x[j].fn
			}
			if x[i].op != x[j].op {
				return x[i].op < x[j].op
			}
			return fmt.Sprint(x[i].held) < fmt.Sprint(x[j].held)
		})
	}
	for _, l := range lm {
		res.leaks = append(res.leaks, l)
	}
	sort.Slice(res.leaks, func(i, j int) bool {
		if res.leaks[i].fn != res.leaks[j].fn {
			return res.leaks[i].fn < res.leaks[j].fn
		}
		return res.leaks[i].lock < res.leaks[j].lock
	})
	// ---- entry lock sets: intersection over call sites (closed world over the analysed packages)
	for _, f := range a.order {
		f.entryTop = true
	}
	for _, f := range a.order {
		for _, s := range f.sites {
			if s.kind == sCall || s.kind == sGo {
				for _, g := range s.callees {
					g.called = true
				}
			}
		}
	}
	for _, f := range a.order {
		if !f.called {
			f.entryTop = false
			f.entry = lockset{}
		}
	}
	for changed := true; changed; {
		changed = false
		for _, f := range a.order {
			if f.entryTop {
				continue
			}
			for _, s := range f.sites {
				var val lockset
				switch s.kind {
				case sCall:
					val = lsUnion(f.entry, s.held)
				case sGo:
					val = lockset{}
				default:
					continue
				}
				for _, g := range s.callees {
					if g.entryTop {
						g.entryTop = false
						g.entry = val.clone()
						changed = true
					} else {
						n := lsInter(g.entry, val)
						if !lsEq(n, g.entry) {
							g.entry = n
							changed = true
						}
					}
				}
			}
		}
	}
	for _, f := range a.order {
		if f.entryTop { // only reachable from itself
			f.entryTop = false
			f.entry = lockset{}
		}
		if len(f.entry) > 0 {
			res.entry[f.name] = sortedLocks(f.entry)
		}
	}
	// ---- rule T: which functions write (transitively) a field of which shared type
	writes := map[*fn]map[*types.Named]bool{}
	for _, f := range a.order {
		writes[f] = map[*types.Named]bool{}
		for _, s := range f.sites {
			if s.kind == sAccess && s.write && s.contentsOf == nil {
				writes[f][a.fieldOwner[s.field]] = true
			}
		}
	}
	for changed := true; changed; {
		changed = false
		for _, f := range a.order {
			for _, s := range f.sites {
				if s.kind != sCall {
					continue
				}
				for _, g := range s.callees {
					for t := range writes[g] {
						if !writes[f][t] {
							writes[f][t] = true
							changed = true
						}
					}
				}
			}
		}
	}
	for _, f := range a.order {
		var keep []site
		for _, s := range f.sites {
			if s.kind == sAccess && s.contentsOf != nil {
				s.write = writes[s.contentsOf][s.contentsRcv]
				if !s.write && !s.handsOut {
					continue // e.g. a counter read: nothing of the contents is handed out
				}
			}
			keep = append(keep, s)
		}
		f.sites = keep
	}
	// ---- field accesses
	var fvars []*types.Var
	seenF := map[*types.Var]bool{}
	for _, f := range a.order {
		for _, s := range f.sites {
			if s.kind == sAccess && !seenF[s.field] {
				seenF[s.field] = true
				fvars = append(fvars, s.field)
			}
		}
	}
	fname := func(v *types.Var) string { return namedName(a.fieldOwner[v]) + "." + v.Name() }
	sort.Slice(fvars, func(i, j int) bool { return fname(fvars[i]) < fname(fvars[j]) })
	for i, v := range fvars {
		res.fieldVar[v] = i
		res.fields = append(res.fields, fname(v))
	}
	am := map[string]acc{}
	for _, f := range a.order {
		for _, s := range f.sites {
			if s.kind != sAccess {
				continue
			}
			ls := lsUnion(f.entry, s.held)
			var locks []int
			for _, l := range sortedLocks(ls) {
				if s.write && ls[l] != modeW {
					continue // a write needs the lock in write mode
				}
				locks = append(locks, l)
			}
			x := acc{res.fieldVar[s.field], s.write, f.name, locks}
			am[fmt.Sprintf("%d|%v|%s|%v", x.field, x.write, x.fn, x.locks)] = x
		}
	}
	for _, x := range am {
		res.accs = append(res.accs, x)
	}
	sort.Slice(res.accs, func(i, j int) bool {
		x, y := res.accs[i], res.accs[j]
		if x.field != y.field {
			return x.field < y.field
		}
		if x.fn != y.fn {
			return x.fn < y.fn
		}
		if x.write != y.write {
			return !x.write
		}
		return fmt.Sprint(x.locks) < fmt.Sprint(y.locks)
	})
	for v := range a.atomicFld {
		if o := a.fieldOwner[v]; o != nil && a.shared[o] {
			res.atomic = append(res.atomic, fname(v))
		}
	}
	sort.Strings(res.atomic)
	dm := map[string]dyn{}
	for _, f := range a.order {
		for _, s := range f.sites {
			if s.kind == sDyn {
				d := dyn{f.name, s.desc, sortedLocks(lsUnion(f.entry, s.held))}
				dm[d.fn+"|"+d.desc+"|"+fmt.Sprint(d.locks)] = d
			}
		}
	}
	for _, d := range dm {
		res.dyns = append(res.dyns, d)
	}
	sort.Slice(res.dyns, func(i, j int) bool {
		if res.dyns[i].fn != res.dyns[j].fn {
			return res.dyns[i].fn < res.dyns[j].fn
		}
		return res.dyns[i].desc+fmt.Sprint(res.dyns[i].locks) < res.dyns[j].desc+fmt.Sprint(res.dyns[j].locks)
	})
	return res
}

var oldNames []string

func pickRdv(m map[string]rdv, k string, r rdv) rdv {
	if old, ok := m[k]; ok && (len(old.op) < len(r.op) || (len(old.op) == len(r.op) && old.op <= r.op)) {
		return old
	}
	return r
}

func coqStr(s string) string {
	return "\"" + strings.ReplaceAll(s, "\"", "\"\"") + "\""
}

func coqNList(xs []int) string {
	var p []string
	for _, x := range xs {
		p = append(p, fmt.Sprintf("%d", x))
	}
	return "[" + strings.Join(p, "; ") + "]"
}

// renumber locks by name so that ids are stable under reordering of the analysis
func (a *analysis) renumber(res *result) {
	names := append([]string{}, a.lockNames...)
	oldNames = append([]string{}, a.lockNames...)
	sort.Strings(names)
	newID := map[string]int{}
	for i, n := range names {
		newID[n] = i
	}
	perm := make([]int, len(a.lockNames))
	for old, n := range a.lockNames {
		perm[old] = newID[n]
	}
	mapL := func(xs []int) []int {
		r := make([]int, len(xs))
		for i, x := range xs {
			r[i] = perm[x]
		}
		sort.Ints(r)
		return r
	}
	for i := range res.edges {
		res.edges[i].from, res.edges[i].to = perm[res.edges[i].from], perm[res.edges[i].to]
	}
	for i := range res.rdvs {
		res.rdvs[i].held = mapL(res.rdvs[i].held)
	}
	for i := range res.bufUnder {
		res.bufUnder[i].held = mapL(res.bufUnder[i].held)
	}
	for i := range res.leaks {
		res.leaks[i].lock = perm[res.leaks[i].lock]
	}
	for i := range res.accs {
		res.accs[i].locks = mapL(res.accs[i].locks)
	}
	for i := range res.dyns {
		res.dyns[i].locks = mapL(res.dyns[i].locks)
	}
	for k, v := range res.entry {
		res.entry[k] = mapL(v)
	}
	a.lockNames = names
}

func (a *analysis) emit(res *result) string {
	a.renumber(res)
	var b strings.Builder
	p := func(format string, x ...interface{}) { fmt.Fprintf(&b, format, x...) }
	p("(* GENERATED by tools/locktab from the bio-rd working tree -- do not edit.\n")
	p("   Regenerated on every run of ./check C25 / C26 (written only when the content changes).\n\n")
	p("   Analysed packages (anchored packages and every bio-rd package between them in the import graph;\n")
	p("   plain build: no build tags, no _test files):\n")
	for _, pk := range a.pkgs {
		p("     %s\n", strings.TrimPrefix(pk.PkgPath, modPath+"/"))
	}
	p("   Other bio-rd packages (net, util/..., ...) cannot import the analysed ones (Go's import graph is acyclic): their\n")
	p("   mutexes are leaves of the lock order and their functions are treated as lock-neutral, non-blocking calls.\n\n")
	p("   Rules.\n")
	p("   L  abstract lock = one per sync.Mutex/RWMutex struct field per declaring type (all instances merged);\n")
	p("      RLock and Lock both acquire it (a read lock is recorded as such only for the access tables).\n")
	p("   F  per function a forward data-flow over golang.org/x/tools/go/cfg: state = (locks held, deferred calls);\n")
	p("      deferred calls run at every exit (return, end of body, panic); all paths are followed (no path pruning).\n")
	p("   E  edge A->B at holder function f: B is acquired while A is held in f, directly or anywhere below a call made by f\n")
	p("      (transitive closure over resolved calls; `go` statements start a thread with no locks).\n")
	p("   R  interface calls: class hierarchy (every named type of the analysed packages whose method set implements the\n")
	p("      interface), narrowed (R1) for routingtable.RouteTableClient receivers inside methods of a table type T to the types\n")
	p("      registered on T by a Register/RegisterWithOptions call in the analysed code, and (R2) for struct fields / function\n")
	p("      results of interface type to the types of the values assigned / returned in the analysed code (parameters: class\n")
	p("      hierarchy; in a registration argument a parameter denotes an externally supplied client, assumed lock-neutral).\n")
	p("   C  blocking channel operation = send/receive outside a select with a default clause; `unbuffered` when some make()\n")
	p("      stored into the channel field has no capacity (or none is found).  WaitGroup.Wait counts as blocking.\n")
	p("   K  leak = a function exit reached with a lock acquired in that function still held.  Callers continue as if the\n")
	p("      callee were balanced (the leak is its own finding and does not pollute the order graph).\n")
	p("   A  access table: every read/write of a field of the listed shared struct types, with lock set = locks held at that point\n")
	p("      in the function + entry lock set of the function; entry lock set = intersection over all call sites in the analysed\n")
	p("      packages of (caller's entry set + locks held at the site); functions without call sites (API entry points, goroutine\n")
	p("      roots) start with the empty set (closed world).  For a write only locks held in write mode count.\n")
	p("      Element writes (m[k] = v, s[i] = v, delete, copy) count as writes of the field holding the map/slice; a write to a\n")
	p("      sub-field of a struct-valued field counts as a write of that field; &x.f counts as a read (except as an argument of\n")
	p("      sync/atomic, which makes the field `atomic`); fields whose type comes from sync or sync/atomic are not listed.\n")
	p("   T  contents of a table: a method call x.f.M() where f is a field of a listed shared type O holding the self-locking\n")
	p("      store routingtable.RoutingTable is an access to the pseudo-field O.contents: a write when M (transitively) writes a\n")
	p("      field of the store, a read when M returns anything but basic values / error, i.e. hands out references to stored\n")
	p("      routes and paths (Dump, Get, LPM, GetLonger); otherwise (GetRouteCount) not listed.  The store's own lock orders the\n")
	p("      trie; the owner's lock is what orders the completion of an insertion (path fields written after the insert) with readers.\n")
	p("   X  escape rule (constructor-local accesses are not listed): a local variable initialised by a composite literal,\n")
	p("      new(T), `var v T`, or a call of a constructor (a function all of whose returns yield such a local, a literal,\n")
	p("      another constructor call or nil) is unpublished until its first textual occurrence other than (i) as the base of a\n")
	p("      field selector, (ii) inside a literal / constructor call / append whose result is stored into an unpublished local\n")
	p("      or its fields, (iii) in a comparison or a return statement.  Accesses through it that textually precede that point are excluded.\n\n")
	p("   Registered clients (R1):\n")
	var regT []string
	for t := range a.registered {
		regT = append(regT, namedName(t))
	}
	sort.Strings(regT)
	for _, tn := range regT {
		for t, cl := range a.registered {
			if namedName(t) != tn {
				continue
			}
			var cs []string
			for c := range cl {
				cs = append(cs, namedName(c))
			}
			sort.Strings(cs)
			extNote := ""
			if len(a.regExt[t]) > 0 {
				e := append([]string{}, a.regExt[t]...)
				sort.Strings(e)
				extNote = "  + externally supplied clients at " + strings.Join(uniq(e), ", ")
			}
			p("     %s <- %s%s\n", tn, strings.Join(cs, ", "), extNote)
		}
	}
	p("*)\n")
	p("From Coq Require Import List NArith String.\nImport ListNotations.\nLocal Open Scope string_scope.\nLocal Open Scope N_scope.\n\n")
	p("Definition lock_names : list (N * string) := [\n")
	for i, n := range a.lockNames {
		sep := ";"
		if i == len(a.lockNames)-1 {
			sep = ""
		}
		p("  (%d, %s)%s\n", i, coqStr(n), sep)
	}
	p("].\n\n")
	p("(* (held lock, acquired lock, holder function); the witness call chains are in the site report *)\n")
	p("Definition lock_edges : list (N * N * string) := [\n")
	for i, e := range res.edges {
		sep := ";"
		if i == len(res.edges)-1 {
			sep = ""
		}
		p("  (%d, %d, %s)%s\n", e.from, e.to, coqStr(e.holder), sep)
	}
	p("].\n\n")
	emitRdv := func(name string, rs []rdv, comment string) {
		p("(* %s: (function holding the locks, locks held, operation) *)\n", comment)
		p("Definition %s : list (string * list N * string) := [\n", name)
		for i, r := range rs {
			sep := ";"
			if i == len(rs)-1 {
				sep = ""
			}
			op := r.op
			if i := strings.Index(op, " via "); i >= 0 {
				op = op[:i]
			}
			p("  (%s, %s, %s)%s\n", coqStr(r.fn), coqNList(r.held), coqStr(op), sep)
		}
		p("].\n\n")
	}
	emitRdv("rendezvous_under_lock", res.rdvs, "blocking operations on unbuffered channels while a lock is held")
	p("(* function exits with a lock still held: (function, lock) *)\n")
	p("Definition lock_leaks : list (string * N) := [\n")
	for i, l := range res.leaks {
		sep := ";"
		if i == len(res.leaks)-1 {
			sep = ""
		}
		p("  (%s, %d)%s\n", coqStr(l.fn), l.lock, sep)
	}
	p("].\n\n")
	p("Definition field_names : list (N * string) := [\n")
	for i, n := range res.fields {
		sep := ";"
		if i == len(res.fields)-1 {
			sep = ""
		}
		p("  (%d, %s)%s\n", i, coqStr(n), sep)
	}
	p("].\n\n")
	p("(* (field, is write, function, lock set) -- post-publication accesses only (rule X) *)\n")
	p("Definition accesses : list (N * bool * string * list N) := [\n")
	for i, x := range res.accs {
		sep := ";"
		if i == len(res.accs)-1 {
			sep = ""
		}
		w := "false"
		if x.write {
			w = "true"
		}
		p("  (%d, %s, %s, %s)%s\n", x.field, w, coqStr(x.fn), coqNList(x.locks), sep)
	}
	p("].\n\n")
	p("(* fields of the shared types touched through sync/atomic *)\n")
	p("Definition atomic_fields : list string := [")
	for i, n := range res.atomic {
		if i > 0 {
			p("; ")
		}
		p("%s", coqStr(n))
	}
	p("].\n\n")
	p("(* calls of function values / method values the analysis cannot resolve: (function, what, lock set there) *)\n")
	p("Definition dynamic_calls : list (string * string * list N) := [\n")
	for i, d := range res.dyns {
		sep := ";"
		if i == len(res.dyns)-1 {
			sep = ""
		}
		p("  (%s, %s, %s)%s\n", coqStr(d.fn), coqStr(d.desc), coqNList(d.locks), sep)
	}
	p("].\n\n")
	p("(* rule P: insertions of a *route.Path into a table that stores the pointer (LocRIB / AdjRIBIn AddPath) whose path\n")
	p("   object may be inserted again or is written by the caller afterwards: (function, kind, callee) *)\n")
	p("Definition shared_path_sites : list (string * string * string) := [\n")
	for i, x := range res.sharedPaths {
		sep := ";"
		if i == len(res.sharedPaths)-1 {
			sep = ""
		}
		p("  (%s, %s, %s)%s\n", coqStr(x.fn), coqStr(x.kind), coqStr(x.callee), sep)
	}
	p("].\n\n")
	p("(* rule J: goroutines a type starts on itself and the functions that address them through a channel / WaitGroup\n")
	p("   field of the type: (type, starting function, goroutine, addressing function, kind) with kind = rendezvous |\n")
	p("   waitgroup (the function waits for the goroutine) | close-only | buffered-send (it only signals) *)\n")
	p("Definition goroutine_joins : list (string * string * string * string * string) := [\n")
	for i, x := range res.joins {
		sep := ";"
		if i == len(res.joins)-1 {
			sep = ""
		}
		p("  (%s, %s, %s, %s, %s)%s\n", coqStr(x.typ), coqStr(x.start), coqStr(x.goroutine), coqStr(x.teardown), coqStr(x.kind), sep)
	}
	p("].\n\n")
	p("Definition analysed_functions : N := %d.\n", res.funcsTotal)
	return b.String()
}

func uniq(xs []string) []string {
	var out []string
	for i, x := range xs {
		if i == 0 || x != xs[i-1] {
			out = append(out, x)
		}
	}
	return out
}

// siteReport: the same facts with source positions, for humans
func (a *analysis) siteReport(res *result) string {
	var b strings.Builder
	fmt.Fprintf(&b, "== lock-order edges (held -> acquired @ holder: witness)\n")
	for _, e := range res.edges {
		fmt.Fprintf(&b, "%s -> %s @ %s: %s\n", a.lockNames[e.from], a.lockNames[e.to], e.holder, e.witness)
	}
	fmt.Fprintf(&b, "== blocking operations on unbuffered channels under a lock\n")
	for _, r := range res.rdvs {
		fmt.Fprintf(&b, "%s %v: %s\n", r.fn, r.held, r.op)
	}
	fmt.Fprintf(&b, "== operations on buffered channels under a lock (informational)\n")
	for _, r := range res.bufUnder {
		fmt.Fprintf(&b, "%s %v: %s\n", r.fn, r.held, r.op)
	}
	fmt.Fprintf(&b, "== per function\n")
	kinds := map[siteKind]string{sAcquire: "acquire", sCall: "call", sGo: "go", sChan: "chan", sAccess: "access", sExit: "exit", sDyn: "dyn"}
	for _, f := range a.order {
		if len(f.sites) == 0 {
			continue
		}
		fmt.Fprintf(&b, "%s  entry=%v\n", f.name, a.names(sortedLocks(f.entry)))
		for _, s := range f.sites {
			if s.kind == sCall && len(s.held) == 0 {
				continue
			}
			if s.kind == sExit && len(s.held) == 0 {
				continue
			}
			extra := s.desc
			switch s.kind {
			case sAcquire:
				extra = oldNames[s.lock]
			case sAccess:
				rw := "r"
				if s.write {
					rw = "w"
				}
				extra = rw + " " + res.fields[res.fieldVar[s.field]]
			case sCall, sGo:
				var cs []string
				for _, c := range s.callees {
					cs = append(cs, c.name)
				}
				extra = s.desc + " -> " + strings.Join(cs, ",")
			}
			fmt.Fprintf(&b, "  %-7s held=%v %s  @%s\n", kinds[s.kind], a.names(sortedLocks(s.held)), extra, fset.Position(s.pos))
		}
	}
	return b.String()
}

func (a *analysis) names(ids []int) []string {
	var r []string
	for _, i := range ids {
		r = append(r, oldNames[i])
	}
	return r
}
