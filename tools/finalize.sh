#!/bin/bash
# Final clean-tree pass: manifest, notes, all quick checks (evidence rewritten), schema validation.
cd /verif
python3 tools/mkmanifest.py
tools/mergenotes.py
fail=0
for p in $(python3 -c "import json;print(' '.join(c['property_id'] for c in json.load(open('MANIFEST.json'))['checks']))"); do
  s=$(date +%s); out=$(./check $p --tier quick --seed 1 2>&1); rc=$?; e=$(date +%s)
  echo "$p rc=$rc $((e-s))s viol=$(echo "$out" | grep -c '^VIOLATION') known=$(echo "$out" | grep -c 'KNOWN-FINDING')"
  [ $rc != 0 ] && { fail=1; echo "$out" | grep -E "VIOLATION|SPEC-VIOL|proof:|corresp" | head -3 | cut -c1-300; }
done
tools/validate.py | grep -v "^valid" || echo "all evidence + manifest valid"
exit $fail
