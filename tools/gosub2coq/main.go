// gosub2coq: translate a NAMED list of pure functions of bio-rd's package net (and util/math) from Go
// into Gallina (coq/Gen/NetGen.v), on every run of ./check C15.
//
// Supported subset: if/else, return, (tagged or tagless) switch without fallthrough, := / = / op= / ++ / --,
// var declarations, assignment to a field of a local struct value, integer and boolean expressions,
// comparisons, << >> & | + - * % / on uint8/16/32/64 (translated to the operators of Lib/Word.v: explicit wrap,
// Go's shift semantics), struct equality, conversions between unsigned types, untyped constants folded by go/types,
// field selection on net.IP / net.Prefix, calls to other listed functions, `for cond { }` loops (optionally with a dead
// counter in init/post) as fuelled fixpoints.  `int` appears only as int(<unsigned>) +/- small constants compared
// or converted back; a magnitude bound is tracked so that no int overflow is possible.
// Anything else: exit status 1 and "gosub2coq: cannot express <function>: <construct> (<file>)".
//
// Assumptions written into the output header: pointer receivers/arguments are non-nil; the functions are pure
// (no package-level variables are read or written: checked).
package main

import (
	"flag"
	"fmt"
	"go/ast"
	"go/constant"
	"go/token"
	"go/types"
	"math/big"
	"os"
	"path/filepath"
	"sort"
	"strings"

	"golang.org/x/tools/go/packages"
)

const modPath = "github.com/bio-routing/bio-rd"

type spec struct{ pkg, recv, name string }

// the named list
var wanted = []spec{
	{"util/math", "", "Min"}, {"util/math", "", "Max"},
	{"net", "IP", "copy"}, {"net", "", "IPv4"}, {"net", "", "IPv6"}, {"net", "", "NewPfx"},
	{"net", "IP", "ToUint32"}, {"net", "", "min"},
	{"net", "IP", "Equal"}, {"net", "IP", "Compare"},
	{"net", "IP", "bitAtPositionIPv4"}, {"net", "IP", "bitAtPositionIPv6"}, {"net", "IP", "BitAtPosition"},
	{"net", "IP", "maskLastNBitsIPv4"}, {"net", "IP", "maskLastNBitsIPv6"}, {"net", "IP", "MaskLastNBits"},
	{"net", "Prefix", "containsIPv4"}, {"net", "Prefix", "containsIPv6"}, {"net", "Prefix", "Contains"},
	{"net", "Prefix", "Equal"},
	{"net", "Prefix", "supernetIPv4"}, {"net", "Prefix", "supernetIPv6"}, {"net", "Prefix", "GetSupernet"},
	{"net", "", "checkLastNBitsUint32"}, {"net", "", "checkLastNBitsUint64"}, {"net", "Prefix", "Valid"},
	{"net", "Prefix", "baseAddr4"}, {"net", "Prefix", "baseAddr6"}, {"net", "Prefix", "BaseAddr"},
}

// fuel of the fixpoint that stands for the loop(s) of a function (justified by C15_supernet_total4/6)
var fuelOf = map[string]int{"supernetIPv4": 34, "supernetIPv6": 257}

// records of Model/NetArith.v
type recInfo struct {
	coqType, ctor string
	fields        []string // Go field names in declaration order
	acc           map[string]string
}

var records = map[string]*recInfo{
	"IP":     {"NetArith.ip", "mkip", []string{"higher", "lower", "isLegacy"}, map[string]string{"higher": "hi", "lower": "lo", "isLegacy": "legacy"}},
	"Prefix": {"NetArith.pfx", "mkpfx", []string{"addr", "len"}, map[string]string{"addr": "addr", "len": "plen"}},
}

type fnInfo struct {
	sp    spec
	obj   *types.Func
	decl  *ast.FuncDecl
	pkg   *packages.Package
	gname string
	opt   bool
	calls []*fnInfo
	text  string
}

type failure struct{ fn, what, where string }

var fset *token.FileSet

type tr struct {
	f      *fnInfo
	info   *types.Info
	byObj  map[*types.Func]*fnInfo
	inLoop bool
	loops  []string
	nloop  int
}

func (t *tr) fail(n ast.Node, format string, a ...interface{}) {
	where := ""
	if n != nil {
		p := fset.Position(n.Pos())
		where = filepath.Base(p.Filename)
	}
	panic(failure{t.f.sp.name, fmt.Sprintf(format, a...), where})
}

// ---------------------------------------------------------------- types

func (t *tr) recOf(ty types.Type) *recInfo {
	if p, ok := ty.(*types.Pointer); ok {
		ty = p.Elem()
	}
	n, ok := ty.(*types.Named)
	if !ok || n.Obj().Pkg() == nil || n.Obj().Pkg().Path() != modPath+"/net" {
		return nil
	}
	r := records[n.Obj().Name()]
	if r == nil {
		return nil
	}
	st, ok := n.Underlying().(*types.Struct)
	if !ok || st.NumFields() != len(r.fields) {
		return nil
	}
	for i := 0; i < st.NumFields(); i++ {
		if st.Field(i).Name() != r.fields[i] {
			return nil
		}
	}
	return r
}

// width of an unsigned integer type, 0 if it is not one; -1 for int
func width(ty types.Type) int {
	b, ok := ty.Underlying().(*types.Basic)
	if !ok {
		return 0
	}
	switch b.Kind() {
	case types.Uint8:
		return 8
	case types.Uint16:
		return 16
	case types.Uint32:
		return 32
	case types.Uint64:
		return 64
	case types.Int:
		return -1
	}
	return 0
}

func isBool(ty types.Type) bool {
	b, ok := ty.Underlying().(*types.Basic)
	return ok && b.Info()&types.IsBoolean != 0
}

func (t *tr) coqType(n ast.Node, ty types.Type) string {
	if r := t.recOf(ty); r != nil {
		return r.coqType
	}
	if isBool(ty) {
		return "bool"
	}
	if b, ok := ty.Underlying().(*types.Basic); ok && b.Info()&types.IsInteger != 0 {
		return "Z"
	}
	t.fail(n, "type %s", ty)
	return ""
}

func zero(t *tr, n ast.Node, ty types.Type) string {
	if r := t.recOf(ty); r != nil {
		if _, isPtr := ty.(*types.Pointer); isPtr {
			t.fail(n, "nil pointer value")
		}
		st := ty.(*types.Named).Underlying().(*types.Struct)
		var a []string
		for i := 0; i < st.NumFields(); i++ {
			a = append(a, zero(t, n, st.Field(i).Type()))
		}
		return "(" + r.ctor + " " + strings.Join(a, " ") + ")"
	}
	if isBool(ty) {
		return "false"
	}
	if width(ty) != 0 {
		return "0"
	}
	t.fail(n, "zero value of type %s", ty)
	return ""
}

// ---------------------------------------------------------------- names

func vname(o types.Object) string { return o.Name() + "_" }

func (t *tr) localVar(id *ast.Ident) *types.Var {
	o := t.info.Uses[id]
	if o == nil {
		o = t.info.Defs[id]
	}
	v, ok := o.(*types.Var)
	if !ok {
		return nil
	}
	if v.Parent() == v.Pkg().Scope() {
		t.fail(id, "package-level variable %s", id.Name)
	}
	if v.IsField() {
		return nil
	}
	return v
}

// ---------------------------------------------------------------- expressions

func lit(v *big.Int) string {
	if v.Sign() < 0 {
		return "(" + v.String() + ")"
	}
	return v.String()
}

func (t *tr) constant(e ast.Expr, tv types.TypeAndValue) (string, bool) {
	if tv.Value == nil {
		return "", false
	}
	switch tv.Value.Kind() {
	case constant.Bool:
		if constant.BoolVal(tv.Value) {
			return "true", true
		}
		return "false", true
	case constant.Int:
		if b, ok := tv.Type.Underlying().(*types.Basic); ok && b.Info()&types.IsUntyped != 0 && b.Kind() != types.UntypedInt && b.Kind() != types.UntypedRune {
			t.fail(e, "untyped non-integer constant")
		}
		v, ok := new(big.Int).SetString(tv.Value.ExactString(), 10)
		if !ok {
			t.fail(e, "constant %s", tv.Value)
		}
		return lit(v), true
	}
	t.fail(e, "constant of kind %v", tv.Value.Kind())
	return "", false
}

// bound on |value| of an expression of type int (no overflow possible below 2^62)
func (t *tr) intBound(e ast.Expr) *big.Int {
	tv := t.info.Types[e]
	if tv.Value != nil && tv.Value.Kind() == constant.Int {
		v, _ := new(big.Int).SetString(tv.Value.ExactString(), 10)
		return v.Abs(v)
	}
	switch e := e.(type) {
	case *ast.ParenExpr:
		return t.intBound(e.X)
	case *ast.CallExpr:
		if ftv := t.info.Types[e.Fun]; ftv.IsType() && len(e.Args) == 1 {
			w := width(t.info.Types[e.Args[0]].Type)
			if w > 0 && w <= 32 {
				return new(big.Int).Lsh(big.NewInt(1), uint(w))
			}
			t.fail(e, "int conversion of a %s", t.info.Types[e.Args[0]].Type)
		}
		if callee := t.callee(e); callee != nil && callee.sp.pkg == "util/math" {
			b := big.NewInt(0)
			for _, a := range e.Args {
				if x := t.intBound(a); x.Cmp(b) > 0 {
					b = x
				}
			}
			return b
		}
	case *ast.BinaryExpr:
		if e.Op == token.ADD || e.Op == token.SUB {
			return new(big.Int).Add(t.intBound(e.X), t.intBound(e.Y))
		}
	}
	t.fail(e, "int expression without a static bound (%T)", e)
	return nil
}

func (t *tr) checkIntBound(e ast.Expr) {
	if t.intBound(e).Cmp(new(big.Int).Lsh(big.NewInt(1), 62)) >= 0 {
		t.fail(e, "int expression may overflow")
	}
}

func (t *tr) callee(c *ast.CallExpr) *fnInfo {
	var id *ast.Ident
	switch f := c.Fun.(type) {
	case *ast.Ident:
		id = f
	case *ast.SelectorExpr:
		id = f.Sel
	default:
		return nil
	}
	fo, ok := t.info.Uses[id].(*types.Func)
	if !ok {
		return nil
	}
	return t.byObj[fo]
}

func (t *tr) call(c *ast.CallExpr, tail bool) string {
	if ftv := t.info.Types[c.Fun]; ftv.IsType() { // conversion
		if len(c.Args) != 1 {
			t.fail(c, "conversion with %d arguments", len(c.Args))
		}
		from, to := t.info.Types[c.Args[0]].Type, ftv.Type
		wf, wt := width(from), width(to)
		switch {
		case wf > 0 && wt > 0:
			if types.Identical(from.Underlying(), to.Underlying()) {
				return t.expr(c.Args[0])
			}
			return fmt.Sprintf("(wconv %d %s)", wt, t.expr(c.Args[0]))
		case wf > 0 && wt == -1: // int(unsigned): exact
			t.checkIntBound(c)
			return t.expr(c.Args[0])
		case wf == -1 && wt > 0: // uintN(int)
			t.checkIntBound(c.Args[0])
			return fmt.Sprintf("(wconv %d %s)", wt, t.expr(c.Args[0]))
		}
		t.fail(c, "conversion %s -> %s", from, to)
	}
	callee := t.callee(c)
	if callee == nil {
		t.fail(c, "call of %s (not in the translated list)", types.ExprString(c.Fun))
	}
	if callee.opt && !tail {
		t.fail(c, "call of the looping function %s outside a return statement", callee.sp.name)
	}
	var args []string
	if sel, ok := c.Fun.(*ast.SelectorExpr); ok && callee.sp.recv != "" {
		args = append(args, t.expr(sel.X))
	}
	for _, a := range c.Args {
		args = append(args, t.expr(a))
	}
	if len(args) == 0 {
		t.fail(c, "call without arguments")
	}
	return "(" + callee.gname + " " + strings.Join(args, " ") + ")"
}

func (t *tr) structEq(n ast.Node, ty types.Type, a, b string) string {
	r := t.recOf(ty)
	if r == nil {
		t.fail(n, "comparison of values of type %s", ty)
	}
	if p, ok := ty.(*types.Pointer); ok {
		_ = p
		t.fail(n, "pointer comparison")
	}
	st := ty.(*types.Named).Underlying().(*types.Struct)
	var parts []string
	for i := 0; i < st.NumFields(); i++ {
		f := st.Field(i)
		fa, fb := "("+r.acc[f.Name()]+" "+a+")", "("+r.acc[f.Name()]+" "+b+")"
		switch {
		case width(f.Type()) > 0:
			parts = append(parts, "("+fa+" =? "+fb+")")
		case isBool(f.Type()):
			parts = append(parts, "(Bool.eqb "+fa+" "+fb+")")
		default:
			parts = append(parts, t.structEq(n, f.Type(), fa, fb))
		}
	}
	return "(" + strings.Join(parts, " && ") + ")"
}

func (t *tr) binary(e *ast.BinaryExpr) string {
	tx, ty := t.info.Types[e.X].Type, t.info.Types[e.Y].Type
	switch e.Op {
	case token.LAND:
		return "(" + t.expr(e.X) + " && " + t.expr(e.Y) + ")"
	case token.LOR:
		return "(" + t.expr(e.X) + " || " + t.expr(e.Y) + ")"
	case token.SHL, token.SHR:
		w := width(tx)
		if w <= 0 {
			t.fail(e, "shift of a value of type %s", tx)
		}
		if wc := width(ty); wc <= 0 {
			if t.info.Types[e.Y].Value == nil {
				t.fail(e, "shift count of type %s", ty)
			}
		}
		op := "wshl"
		if e.Op == token.SHR {
			op = "wshr"
		}
		return fmt.Sprintf("(%s %d %s %s)", op, w, t.expr(e.X), t.expr(e.Y))
	case token.EQL, token.NEQ, token.LSS, token.GTR, token.LEQ, token.GEQ:
		x, y := t.expr(e.X), t.expr(e.Y)
		// comparisons are exact on every integer type (signed ones occur only as compared values,
		// e.g. the int8 result of Compare; arithmetic on them is rejected below)
		isInt := isInteger(tx) && isInteger(ty)
		var s string
		switch {
		case isInt && e.Op == token.EQL:
			s = "(" + x + " =? " + y + ")"
		case isInt && e.Op == token.NEQ:
			s = "(negb (" + x + " =? " + y + "))"
		case isInt && e.Op == token.LSS:
			s = "(" + x + " <? " + y + ")"
		case isInt && e.Op == token.GTR:
			s = "(" + y + " <? " + x + ")"
		case isInt && e.Op == token.LEQ:
			s = "(" + x + " <=? " + y + ")"
		case isInt && e.Op == token.GEQ:
			s = "(" + y + " <=? " + x + ")"
		case isBool(tx) && e.Op == token.EQL:
			s = "(Bool.eqb " + x + " " + y + ")"
		case isBool(tx) && e.Op == token.NEQ:
			s = "(negb (Bool.eqb " + x + " " + y + "))"
		case e.Op == token.EQL:
			s = t.structEq(e, tx, x, y)
		case e.Op == token.NEQ:
			s = "(negb " + t.structEq(e, tx, x, y) + ")"
		default:
			t.fail(e, "comparison %s on %s", e.Op, tx)
		}
		return s
	}
	w := width(tx)
	if w == -1 {
		if e.Op != token.ADD && e.Op != token.SUB {
			t.fail(e, "operator %s on int", e.Op)
		}
		t.checkIntBound(e)
		return "(" + t.expr(e.X) + " " + e.Op.String() + " " + t.expr(e.Y) + ")"
	}
	if w <= 0 {
		t.fail(e, "operator %s on type %s", e.Op, tx)
	}
	x, y := t.expr(e.X), t.expr(e.Y)
	switch e.Op {
	case token.ADD:
		return fmt.Sprintf("(wadd %d %s %s)", w, x, y)
	case token.SUB:
		return fmt.Sprintf("(wsub %d %s %s)", w, x, y)
	case token.MUL:
		return fmt.Sprintf("(wmul %d %s %s)", w, x, y)
	case token.AND:
		return "(wand " + x + " " + y + ")"
	case token.OR:
		return "(wor " + x + " " + y + ")"
	case token.REM, token.QUO:
		yv := t.info.Types[e.Y].Value
		if yv == nil || constant.Sign(yv) <= 0 {
			t.fail(e, "%s by a non-constant or non-positive divisor", e.Op)
		}
		if e.Op == token.REM {
			return "(" + x + " mod " + y + ")"
		}
		return "(" + x + " / " + y + ")"
	}
	t.fail(e, "operator %s", e.Op)
	return ""
}

func isInteger(ty types.Type) bool {
	b, ok := ty.Underlying().(*types.Basic)
	return ok && b.Info()&types.IsInteger != 0
}

func isUntypedInt(ty types.Type) bool {
	b, ok := ty.(*types.Basic)
	return ok && (b.Kind() == types.UntypedInt || b.Kind() == types.UntypedRune)
}

func (t *tr) expr(e ast.Expr) string {
	tv, ok := t.info.Types[e]
	if ok {
		if s, isConst := t.constant(e, tv); isConst {
			return s
		}
	}
	switch e := e.(type) {
	case *ast.ParenExpr:
		return t.expr(e.X)
	case *ast.Ident:
		if v := t.localVar(e); v != nil {
			return vname(v)
		}
		t.fail(e, "identifier %s", e.Name)
	case *ast.SelectorExpr:
		sel := t.info.Selections[e]
		if sel == nil || sel.Kind() != types.FieldVal {
			t.fail(e, "selector %s", types.ExprString(e))
		}
		r := t.recOf(sel.Recv())
		if r == nil || r.acc[sel.Obj().Name()] == "" {
			t.fail(e, "field %s of %s", sel.Obj().Name(), sel.Recv())
		}
		return "(" + r.acc[sel.Obj().Name()] + " " + t.expr(e.X) + ")"
	case *ast.StarExpr:
		if t.recOf(t.info.Types[e.X].Type) == nil {
			t.fail(e, "dereference of %s", t.info.Types[e.X].Type)
		}
		return t.expr(e.X)
	case *ast.UnaryExpr:
		if e.Op == token.NOT {
			return "(negb " + t.expr(e.X) + ")"
		}
		if e.Op == token.AND && t.recOf(t.info.Types[e.X].Type) != nil {
			// &v of a record value: pointers to records are the records (callees in the list do not
			// assign through pointers: checked in assign)
			return t.expr(e.X)
		}
		t.fail(e, "unary operator %s", e.Op)
	case *ast.BinaryExpr:
		return t.binary(e)
	case *ast.CallExpr:
		return t.call(e, false)
	case *ast.CompositeLit:
		r := t.recOf(tv.Type)
		if r == nil {
			t.fail(e, "composite literal of type %s", tv.Type)
		}
		st := tv.Type.(*types.Named).Underlying().(*types.Struct)
		vals := map[string]string{}
		for _, el := range e.Elts {
			kv, ok := el.(*ast.KeyValueExpr)
			if !ok {
				t.fail(e, "positional composite literal")
			}
			vals[kv.Key.(*ast.Ident).Name] = t.expr(kv.Value)
		}
		var a []string
		for i := 0; i < st.NumFields(); i++ {
			if v, ok := vals[st.Field(i).Name()]; ok {
				a = append(a, v)
			} else {
				a = append(a, zero(t, e, st.Field(i).Type()))
			}
		}
		return "(" + r.ctor + " " + strings.Join(a, " ") + ")"
	}
	t.fail(e, "expression %T", e)
	return ""
}

// ---------------------------------------------------------------- statements

func containsReturn(n ast.Node) bool {
	found := false
	ast.Inspect(n, func(x ast.Node) bool {
		if _, ok := x.(*ast.ReturnStmt); ok {
			found = true
		}
		return !found
	})
	return found
}

// variables declared outside [lo,hi) that are assigned inside n, in order of first assignment
func (t *tr) assignedOuter(n ast.Node, skip map[*types.Var]bool) []*types.Var {
	var out []*types.Var
	seen := map[*types.Var]bool{}
	add := func(e ast.Expr) {
		for {
			switch x := e.(type) {
			case *ast.ParenExpr:
				e = x.X
				continue
			case *ast.SelectorExpr:
				e = x.X
				continue
			}
			break
		}
		id, ok := e.(*ast.Ident)
		if !ok {
			t.fail(e, "assignment target %T", e)
		}
		v := t.localVar(id)
		if v == nil {
			t.fail(e, "assignment target %s", id.Name)
		}
		if v.Pos() >= n.Pos() && v.Pos() < n.End() {
			return // declared inside
		}
		if !seen[v] && !skip[v] {
			seen[v] = true
			out = append(out, v)
		}
	}
	ast.Inspect(n, func(x ast.Node) bool {
		switch s := x.(type) {
		case *ast.AssignStmt:
			if s.Tok != token.DEFINE {
				for _, l := range s.Lhs {
					add(l)
				}
			}
		case *ast.IncDecStmt:
			add(s.X)
		}
		return true
	})
	return out
}

func tuple(vs []*types.Var) string {
	var a []string
	for _, v := range vs {
		a = append(a, vname(v))
	}
	if len(a) == 1 {
		return a[0]
	}
	return "(" + strings.Join(a, ", ") + ")"
}

func bind(vs []*types.Var, val, rest string) string {
	if len(vs) == 1 {
		return "let " + vname(vs[0]) + " := " + val + " in\n" + rest
	}
	return "let '" + tuple(vs) + " := " + val + " in\n" + rest
}

var assignOps = map[token.Token]token.Token{token.ADD_ASSIGN: token.ADD, token.SUB_ASSIGN: token.SUB, token.MUL_ASSIGN: token.MUL,
	token.AND_ASSIGN: token.AND, token.OR_ASSIGN: token.OR, token.SHL_ASSIGN: token.SHL, token.SHR_ASSIGN: token.SHR,
	token.REM_ASSIGN: token.REM, token.QUO_ASSIGN: token.QUO}

// assign translates "lhs = val" (val already translated) followed by rest
func (t *tr) assign(lhs ast.Expr, val string, rest func() string) string {
	switch l := lhs.(type) {
	case *ast.Ident:
		if l.Name == "_" {
			t.fail(l, "assignment to _")
		}
		v := t.localVar(l)
		if v == nil {
			t.fail(l, "assignment to %s", l.Name)
		}
		return "let " + vname(v) + " := " + val + " in\n" + rest()
	case *ast.SelectorExpr:
		base, ok := l.X.(*ast.Ident)
		sel := t.info.Selections[l]
		if !ok || sel == nil || sel.Kind() != types.FieldVal {
			t.fail(l, "assignment to %s", types.ExprString(l))
		}
		v := t.localVar(base)
		r := t.recOf(sel.Recv())
		if v == nil || r == nil {
			t.fail(l, "assignment to %s", types.ExprString(l))
		}
		if _, isPtr := v.Type().(*types.Pointer); isPtr {
			t.fail(l, "assignment through pointer %s (side effect)", base.Name)
		}
		var a []string
		for _, f := range r.fields {
			if f == sel.Obj().Name() {
				a = append(a, val)
			} else {
				a = append(a, "("+r.acc[f]+" "+vname(v)+")")
			}
		}
		return "let " + vname(v) + " := (" + r.ctor + " " + strings.Join(a, " ") + ") in\n" + rest()
	}
	t.fail(lhs, "assignment target %T", lhs)
	return ""
}

func (t *tr) ret(s *ast.ReturnStmt) string {
	if t.inLoop {
		t.fail(s, "return inside a loop")
	}
	if len(s.Results) != 1 {
		t.fail(s, "return with %d results", len(s.Results))
	}
	if !t.f.opt {
		return t.expr(s.Results[0])
	}
	e := s.Results[0]
	for {
		p, ok := e.(*ast.ParenExpr)
		if !ok {
			break
		}
		e = p.X
	}
	if c, ok := e.(*ast.CallExpr); ok {
		if callee := t.callee(c); callee != nil && callee.opt {
			return t.call(c, true)
		}
	}
	return "Some " + t.expr(e)
}

func (t *tr) stmts(ss []ast.Stmt, k func() string) string {
	if len(ss) == 0 {
		return k()
	}
	rest := func() string { return t.stmts(ss[1:], k) }
	switch s := ss[0].(type) {
	case *ast.ReturnStmt:
		return t.ret(s)
	case *ast.BlockStmt:
		return t.stmts(s.List, rest)
	case *ast.EmptyStmt:
		return rest()
	case *ast.AssignStmt:
		if len(s.Lhs) != 1 || len(s.Rhs) != 1 {
			t.fail(s, "multiple assignment")
		}
		if s.Tok == token.DEFINE || s.Tok == token.ASSIGN {
			return t.assign(s.Lhs[0], t.expr(s.Rhs[0]), rest)
		}
		op, ok := assignOps[s.Tok]
		if !ok {
			t.fail(s, "assignment operator %s", s.Tok)
		}
		// x op= y  ==  x = x op y (types recorded for x and y)
		b := &ast.BinaryExpr{X: s.Lhs[0], Op: op, Y: s.Rhs[0], OpPos: s.TokPos}
		return t.assign(s.Lhs[0], t.binary(b), rest)
	case *ast.IncDecStmt:
		w := width(t.info.Types[s.X].Type)
		if w <= 0 {
			t.fail(s, "%s on type %s", s.Tok, t.info.Types[s.X].Type)
		}
		op := "wadd"
		if s.Tok == token.DEC {
			op = "wsub"
		}
		return t.assign(s.X, fmt.Sprintf("(%s %d %s 1)", op, w, t.expr(s.X)), rest)
	case *ast.DeclStmt:
		gd, ok := s.Decl.(*ast.GenDecl)
		if !ok || gd.Tok != token.VAR {
			t.fail(s, "declaration")
		}
		type pair struct {
			id  *ast.Ident
			val string
		}
		var ps []pair
		for _, sp := range gd.Specs {
			vs := sp.(*ast.ValueSpec)
			if len(vs.Values) != 0 && len(vs.Values) != len(vs.Names) {
				t.fail(s, "var declaration with a multi-valued initialiser")
			}
			for i, id := range vs.Names {
				if len(vs.Values) > 0 {
					ps = append(ps, pair{id, t.expr(vs.Values[i])})
				} else {
					ps = append(ps, pair{id, zero(t, id, t.info.Defs[id].Type())})
				}
			}
		}
		var gen func(i int) string
		gen = func(i int) string {
			if i == len(ps) {
				return rest()
			}
			return t.assign(ps[i].id, ps[i].val, func() string { return gen(i + 1) })
		}
		return gen(0)
	case *ast.IfStmt:
		if s.Init != nil {
			t.fail(s, "if with an init statement")
		}
		cond := t.expr(s.Cond)
		var els []ast.Stmt
		if s.Else != nil {
			els = []ast.Stmt{s.Else}
		}
		if containsReturn(s) {
			return "if " + cond + "\nthen (" + t.stmts(s.Body.List, rest) + ")\nelse (" + t.stmts(els, rest) + ")"
		}
		vs := t.assignedOuter(s, nil)
		if len(vs) == 0 {
			return rest()
		}
		tup := func() string { return tuple(vs) }
		val := "(if " + cond + " then (" + t.stmts(s.Body.List, tup) + ") else (" + t.stmts(els, tup) + "))"
		return bind(vs, val, rest())
	case *ast.SwitchStmt:
		return t.switchStmt(s, rest)
	case *ast.ForStmt:
		return t.forStmt(s, rest)
	}
	t.fail(ss[0], "statement %T", ss[0])
	return ""
}

func (t *tr) switchStmt(s *ast.SwitchStmt, rest func() string) string {
	if s.Init != nil {
		t.fail(s, "switch with an init statement")
	}
	pre, tag := "", ""
	if s.Tag != nil {
		tag = "switch_tag_"
		pre = "let " + tag + " := " + t.expr(s.Tag) + " in\n"
	}
	var def *ast.CaseClause
	var cases []*ast.CaseClause
	for _, c := range s.Body.List {
		cc := c.(*ast.CaseClause)
		for _, b := range cc.Body {
			if br, ok := b.(*ast.BranchStmt); ok {
				t.fail(br, "%s in a switch", br.Tok)
			}
		}
		if cc.List == nil {
			def = cc
		} else {
			cases = append(cases, cc)
		}
	}
	var gen func(i int) string
	gen = func(i int) string {
		if i == len(cases) {
			if def != nil {
				return t.stmts(def.Body, rest)
			}
			return rest()
		}
		var conds []string
		for _, e := range cases[i].List {
			if s.Tag == nil {
				conds = append(conds, t.expr(e))
				continue
			}
			ty := t.info.Types[s.Tag].Type
			switch {
			case width(ty) != 0:
				conds = append(conds, "("+tag+" =? "+t.expr(e)+")")
			case isBool(ty):
				conds = append(conds, "(Bool.eqb "+tag+" "+t.expr(e)+")")
			default:
				t.fail(s, "switch on a value of type %s", ty)
			}
		}
		c := conds[0]
		if len(conds) > 1 {
			c = "(" + strings.Join(conds, " || ") + ")"
		}
		return "if " + c + "\nthen (" + t.stmts(cases[i].Body, rest) + ")\nelse (" + gen(i+1) + ")"
	}
	return pre + gen(0)
}

func (t *tr) uses(n ast.Node, v *types.Var) bool {
	found := false
	ast.Inspect(n, func(x ast.Node) bool {
		if id, ok := x.(*ast.Ident); ok && (t.info.Uses[id] == v || t.info.Defs[id] == v) {
			found = true
		}
		return !found
	})
	return found
}

func (t *tr) forStmt(s *ast.ForStmt, rest func() string) string {
	if t.inLoop {
		t.fail(s, "nested loop")
	}
	fuel, ok := fuelOf[t.f.sp.name]
	if !ok {
		t.fail(s, "loop in a function without a registered fuel")
	}
	if s.Cond == nil {
		t.fail(s, "loop without a condition")
	}
	// optional dead counter: for i := c; cond; i++ with i unused in cond and body
	skip := map[*types.Var]bool{}
	if s.Init != nil || s.Post != nil {
		as, ok1 := s.Init.(*ast.AssignStmt)
		inc, ok2 := s.Post.(*ast.IncDecStmt)
		if !ok1 || !ok2 || as.Tok != token.DEFINE || len(as.Lhs) != 1 {
			t.fail(s, "loop init/post statements other than a counter")
		}
		id := as.Lhs[0].(*ast.Ident)
		v, _ := t.info.Defs[id].(*types.Var)
		pid, ok3 := inc.X.(*ast.Ident)
		if v == nil || !ok3 || t.info.Uses[pid] != v || t.info.Types[as.Rhs[0]].Value == nil {
			t.fail(s, "loop init/post statements other than a counter")
		}
		if t.uses(s.Cond, v) || t.uses(s.Body, v) {
			t.fail(s, "loop counter %s is used by the loop", id.Name)
		}
		skip[v] = true
	}
	for _, b := range s.Body.List {
		ast.Inspect(b, func(x ast.Node) bool {
			if br, ok := x.(*ast.BranchStmt); ok {
				t.fail(br, "%s in a loop", br.Tok)
			}
			return true
		})
	}
	state := t.assignedOuter(s.Body, skip)
	if len(state) == 0 {
		t.fail(s, "loop that assigns no variable")
	}
	inState := map[*types.Var]bool{}
	for _, v := range state {
		inState[v] = true
	}
	// free variables: locals declared outside the loop, read in cond/body, not assigned
	var free []*types.Var
	seen := map[*types.Var]bool{}
	visit := func(n ast.Node) {
		ast.Inspect(n, func(x ast.Node) bool {
			if id, ok := x.(*ast.Ident); ok {
				if v, ok := t.info.Uses[id].(*types.Var); ok && !v.IsField() && v.Parent() != v.Pkg().Scope() {
					if !(v.Pos() >= s.Pos() && v.Pos() < s.End()) && !inState[v] && !seen[v] && !skip[v] {
						seen[v] = true
						free = append(free, v)
					}
				}
			}
			return true
		})
	}
	visit(s.Cond)
	visit(s.Body)
	t.nloop++
	name := fmt.Sprintf("%s_loop%d", t.f.gname, t.nloop)
	var binders, args, tys []string
	for _, v := range free {
		binders = append(binders, fmt.Sprintf("(%s : %s)", vname(v), t.coqType(s, v.Type())))
		args = append(args, vname(v))
	}
	for _, v := range state {
		binders = append(binders, fmt.Sprintf("(%s : %s)", vname(v), t.coqType(s, v.Type())))
		args = append(args, vname(v))
		tys = append(tys, t.coqType(s, v.Type()))
	}
	cond := t.expr(s.Cond)
	t.inLoop = true
	body := t.stmts(s.Body.List, func() string { return name + " fuel' " + strings.Join(args, " ") })
	t.inLoop = false
	def := fmt.Sprintf("Fixpoint %s (fuel : nat) %s {struct fuel} : option (%s) :=\n  match fuel with\n  | O => None\n  | S fuel' =>\n    if %s\n    then (%s)\n    else Some %s\n  end.\n",
		name, strings.Join(binders, " "), strings.Join(tys, " * "), cond, body, tuple(state))
	t.loops = append(t.loops, def)
	return fmt.Sprintf("match %s %d %s with\n| None => None\n| Some %s => %s\nend", name, fuel, strings.Join(args, " "), tuple(state), rest())
}

// ---------------------------------------------------------------- functions

func (t *tr) function() string {
	d, sig := t.f.decl, t.f.obj.Type().(*types.Signature)
	if d.Body == nil {
		t.fail(d, "function without a body")
	}
	if sig.Results().Len() != 1 {
		t.fail(d, "%d results", sig.Results().Len())
	}
	var binders []string
	addParam := func(v *types.Var, n ast.Node) {
		if v.Name() == "" || v.Name() == "_" {
			t.fail(n, "unnamed parameter")
		}
		binders = append(binders, fmt.Sprintf("(%s : %s)", vname(v), t.coqType(n, v.Type())))
	}
	if sig.Recv() != nil {
		addParam(sig.Recv(), d)
	}
	for i := 0; i < sig.Params().Len(); i++ {
		addParam(sig.Params().At(i), d)
	}
	if sig.Variadic() || sig.TypeParams() != nil {
		t.fail(d, "variadic or generic function")
	}
	rt := t.coqType(d, sig.Results().At(0).Type())
	if t.f.opt {
		rt = "option " + rt
	}
	body := t.stmts(d.Body.List, func() string { t.fail(d, "control reaches the end of the function without return"); return "" })
	return fmt.Sprintf("(* %s%s, %s *)\n%sDefinition %s %s : %s :=\n%s.\n", recvPrefix(t.f.sp), t.f.sp.name,
		filepath.Base(fset.Position(d.Pos()).Filename), strings.Join(t.loops, ""), t.f.gname, strings.Join(binders, " "), rt, body)
}

func recvPrefix(s spec) string {
	if s.recv != "" {
		return "(" + s.recv + ")."
	}
	return ""
}

func gname(s spec) string {
	n := "g_"
	if s.pkg != "net" {
		n += strings.ReplaceAll(s.pkg, "/", "_") + "_"
	}
	if s.recv != "" {
		n += s.recv + "_"
	}
	return n + s.name
}

func run(repo, out string) error {
	env := append(os.Environ(), "GOFLAGS=-mod=mod", "GOPROXY=off", "GOSUMDB=off", "GOTOOLCHAIN=local", "CGO_ENABLED=0")
	cfg := &packages.Config{Mode: packages.NeedName | packages.NeedFiles | packages.NeedSyntax | packages.NeedTypes |
		packages.NeedTypesInfo | packages.NeedImports, Dir: repo, Env: env}
	pkgs, err := packages.Load(cfg, modPath+"/net", modPath+"/util/math")
	if err != nil {
		return err
	}
	byPath := map[string]*packages.Package{}
	for _, p := range pkgs {
		if len(p.Errors) > 0 {
			return fmt.Errorf("package %s does not type-check: %v", p.PkgPath, p.Errors[0])
		}
		byPath[strings.TrimPrefix(p.PkgPath, modPath+"/")] = p
		fset = p.Fset
	}
	// locate the listed functions
	var fns []*fnInfo
	byObj := map[*types.Func]*fnInfo{}
	for _, sp := range wanted {
		p := byPath[sp.pkg]
		if p == nil {
			return fmt.Errorf("package %s not loaded", sp.pkg)
		}
		var found *fnInfo
		for _, f := range p.Syntax {
			for _, d := range f.Decls {
				fd, ok := d.(*ast.FuncDecl)
				if !ok || fd.Name.Name != sp.name {
					continue
				}
				recv := ""
				if fd.Recv != nil && len(fd.Recv.List) == 1 {
					ty := fd.Recv.List[0].Type
					if st, ok := ty.(*ast.StarExpr); ok {
						ty = st.X
					}
					if id, ok := ty.(*ast.Ident); ok {
						recv = id.Name
					}
				}
				if recv != sp.recv {
					continue
				}
				found = &fnInfo{sp: sp, obj: p.TypesInfo.Defs[fd.Name].(*types.Func), decl: fd, pkg: p, gname: gname(sp)}
			}
		}
		if found == nil {
			return fmt.Errorf("cannot express %s%s: function not found in package %s", recvPrefix(sp), sp.name, sp.pkg)
		}
		fns = append(fns, found)
		byObj[found.obj] = found
	}
	// call graph among listed functions, looping functions
	for _, f := range fns {
		f := f
		ast.Inspect(f.decl, func(x ast.Node) bool {
			switch n := x.(type) {
			case *ast.ForStmt, *ast.RangeStmt:
				f.opt = true
			case *ast.CallExpr:
				tt := &tr{f: f, info: f.pkg.TypesInfo, byObj: byObj}
				if c := tt.callee(n); c != nil {
					f.calls = append(f.calls, c)
				}
			}
			return true
		})
	}
	for changed := true; changed; {
		changed = false
		for _, f := range fns {
			for _, c := range f.calls {
				if c.opt && !f.opt {
					f.opt, changed = true, true
				}
			}
		}
	}
	// translate, callees first
	var order []*fnInfo
	state := map[*fnInfo]int{}
	var visit func(f *fnInfo) error
	visit = func(f *fnInfo) error {
		switch state[f] {
		case 1:
			return fmt.Errorf("cannot express %s: recursion", f.sp.name)
		case 2:
			return nil
		}
		state[f] = 1
		for _, c := range f.calls {
			if err := visit(c); err != nil {
				return err
			}
		}
		state[f] = 2
		order = append(order, f)
		return nil
	}
	for _, f := range fns {
		if err := visit(f); err != nil {
			return err
		}
	}
	var b strings.Builder
	b.WriteString("(* GENERATED by tools/gosub2coq from net/prefix.go, net/ip.go, util/math of the repository under check.\n" +
		"   Do not edit: regenerated by every run of ./check C15 (written only when the content changes).\n" +
		"   Conventions: uintN values are Z in [0, 2^N), operators of Lib/Word.v wrap explicitly; records and field\n" +
		"   accessors are those of Model/NetArith.v; Go variable v is v_; a function with a loop returns option\n" +
		"   (None = the fuel of the loop fixpoint ran out).\n" +
		"   Assumptions: pointer receivers and arguments are non-nil; no package-level state is touched (checked). *)\n" +
		"From Coq Require Import ZArith Bool List.\nFrom BioVerif Require Import Lib.Word Model.NetArith.\nOpen Scope Z_scope.\nOpen Scope bool_scope.\n\n")
	for _, f := range order {
		txt, err := translate(f, byObj)
		if err != nil {
			return err
		}
		b.WriteString(txt + "\n")
	}
	var names []string
	for _, f := range order {
		names = append(names, f.gname)
	}
	sort.Strings(names)
	b.WriteString("(* translated: " + strings.Join(names, " ") + " *)\n")
	content := b.String()
	if old, err := os.ReadFile(out); err == nil && string(old) == content {
		fmt.Printf("gosub2coq: %d functions translated, %s unchanged\n", len(order), filepath.Base(out))
		return nil
	}
	if err := os.MkdirAll(filepath.Dir(out), 0o755); err != nil {
		return err
	}
	if err := os.WriteFile(out, []byte(content), 0o644); err != nil {
		return err
	}
	fmt.Printf("gosub2coq: %d functions translated, %s rewritten\n", len(order), filepath.Base(out))
	return nil
}

func translate(f *fnInfo, byObj map[*types.Func]*fnInfo) (txt string, err error) {
	defer func() {
		if r := recover(); r != nil {
			fl, ok := r.(failure)
			if !ok {
				panic(r)
			}
			err = fmt.Errorf("cannot express %s%s: %s (%s)", recvPrefix(f.sp), fl.fn, fl.what, fl.where)
		}
	}()
	t := &tr{f: f, info: f.pkg.TypesInfo, byObj: byObj}
	return t.function(), nil
}

func main() {
	repo := flag.String("repo", "/repo", "repository under check")
	out := flag.String("out", "coq/Gen/NetGen.v", "output file")
	flag.Parse()
	if err := run(*repo, *out); err != nil {
		fmt.Println("gosub2coq:", err)
		os.Exit(1)
	}
}
