module gosub2coq

go 1.23

require golang.org/x/tools v0.29.0

require (
	golang.org/x/mod v0.22.0 // indirect
	golang.org/x/sync v0.10.0 // indirect
)
