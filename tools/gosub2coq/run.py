#!/usr/bin/env python3
"""Build (cached by source hash) and run gosub2coq against $VERIF_REPO; registered in props/C15.py as
PROP["gen"].  Writes coq/Gen/NetGen.v only when its content changed.  Exit status != 0 (and a line
"gosub2coq: cannot express <function>: <construct>") when a listed function leaves the supported subset."""
import hashlib, os, subprocess, sys

here = os.path.dirname(os.path.abspath(__file__))
verif = os.path.dirname(os.path.dirname(here))
repo = os.path.abspath(os.environ.get("VERIF_REPO", "/repo"))
scr = os.path.join(os.environ.get("VERIF_SCRATCH", os.path.expanduser("~/.cache/verif")), "gosub2coq")
os.makedirs(scr, exist_ok=True)
env = dict(os.environ, GOFLAGS="-mod=mod", GOPROXY="off", GOSUMDB="off", GOTOOLCHAIN="local", CGO_ENABLED="0")
h = hashlib.sha1()
for f in sorted(os.listdir(here)):
    if f.endswith(".go") or f in ("go.mod", "go.sum"):
        h.update(open(os.path.join(here, f), "rb").read())
exe = os.path.join(scr, "gosub2coq-" + h.hexdigest()[:12])
if not os.path.exists(exe):
    r = subprocess.run(["go", "build", "-o", exe + ".tmp", "."], cwd=here, env=env,
                       stdout=subprocess.PIPE, stderr=subprocess.STDOUT, text=True)
    if r.returncode != 0:
        print("gosub2coq: build failed\n" + r.stdout)
        sys.exit(2)
    os.replace(exe + ".tmp", exe)
# skip the (slow: go list -export of the dependencies) run when neither the inputs nor the output changed
out = os.path.join(verif, "coq", "Gen", "NetGen.v")
hi = hashlib.sha1(exe.encode())
for d in ("net", os.path.join("util", "math")):
    for f in sorted(os.listdir(os.path.join(repo, d))):
        if f.endswith(".go") and not f.endswith("_test.go"):
            hi.update(f.encode() + b"\0" + open(os.path.join(repo, d, f), "rb").read())
stamp = os.path.join(scr, "stamp-" + hashlib.sha1(repo.encode()).hexdigest()[:10])
def outhash():
    return hashlib.sha1(open(out, "rb").read()).hexdigest() if os.path.exists(out) else "-"
if os.path.exists(stamp) and open(stamp).read() == hi.hexdigest() + " " + outhash():
    print("gosub2coq: sources and NetGen.v unchanged since the last translation")
    sys.exit(0)
r = subprocess.run([exe, "-repo", repo, "-out", os.path.join(verif, "coq", "Gen", "NetGen.v")], cwd=verif, env=env,
                   stdout=subprocess.PIPE, stderr=subprocess.STDOUT, text=True)
sys.stdout.write(r.stdout)
if r.returncode == 0:
    open(stamp, "w").write(hi.hexdigest() + " " + outhash())
elif os.path.exists(stamp):
    os.remove(stamp)
sys.exit(r.returncode)
