#!/usr/bin/env python3
"""Build (cached by source hash) and run gosub2coq against $VERIF_REPO.
usage: run.py [net|route]    (PROP["gen"] of props/C15.py: net -> coq/Gen/NetGen.v;
                              props/C02.py, C03.py: route -> coq/Gen/SelectGen.v)
The output is written only when its content changed.  Exit status != 0 (and a line
"gosub2coq: cannot express <function>: <construct>") when a listed function leaves the supported subset."""
import hashlib, os, subprocess, sys

profile = sys.argv[1] if len(sys.argv) > 1 else "net"
OUT = {"net": "NetGen.v", "route": "SelectGen.v"}[profile]
DIRS = {"net": ["net", os.path.join("util", "math")], "route": ["route", "net"]}[profile]

here = os.path.dirname(os.path.abspath(__file__))
verif = os.path.dirname(os.path.dirname(here))
repo = os.path.abspath(os.environ.get("VERIF_REPO", "/repo"))
scr = os.path.join(os.environ.get("VERIF_SCRATCH", os.path.expanduser("~/.cache/verif")), "gosub2coq")
os.makedirs(scr, exist_ok=True)
env = dict(os.environ, GOFLAGS="-mod=mod", GOPROXY="off", GOSUMDB="off", GOTOOLCHAIN="local", CGO_ENABLED="0")
h = hashlib.sha1()
for f in sorted(os.listdir(here)):
    if f.endswith(".go") or f in ("go.mod", "go.sum"):
        h.update(open(os.path.join(here, f), "rb").read())
exe = os.path.join(scr, "gosub2coq-" + h.hexdigest()[:12])
if not os.path.exists(exe):
    r = subprocess.run(["go", "build", "-o", exe + ".tmp", "."], cwd=here, env=env,
                       stdout=subprocess.PIPE, stderr=subprocess.STDOUT, text=True)
    if r.returncode != 0:
        print("gosub2coq: build failed\n" + r.stdout)
        sys.exit(2)
    os.replace(exe + ".tmp", exe)
# skip the (slow: go list -export of the dependencies) run when neither the inputs nor the output changed
out = os.path.join(verif, "coq", "Gen", OUT)
hi = hashlib.sha1((exe + profile).encode())
for d in DIRS:
    for f in sorted(os.listdir(os.path.join(repo, d))):
        if f.endswith(".go") and not f.endswith("_test.go"):
            hi.update(f.encode() + b"\0" + open(os.path.join(repo, d, f), "rb").read())
stamp = os.path.join(scr, "stamp-%s-%s" % (profile, hashlib.sha1(repo.encode()).hexdigest()[:10]))


def outhash():
    return hashlib.sha1(open(out, "rb").read()).hexdigest() if os.path.exists(out) else "-"


if os.path.exists(stamp) and open(stamp).read() == hi.hexdigest() + " " + outhash():
    print("gosub2coq[%s]: sources and %s unchanged since the last translation" % (profile, OUT))
    sys.exit(0)
r = subprocess.run([exe, "-repo", repo, "-profile", profile, "-out", out], cwd=verif, env=env,
                   stdout=subprocess.PIPE, stderr=subprocess.STDOUT, text=True)
sys.stdout.write(r.stdout)
if r.returncode == 0:
    open(stamp, "w").write(hi.hexdigest() + " " + outhash())
elif os.path.exists(stamp):
    os.remove(stamp)
sys.exit(r.returncode)
