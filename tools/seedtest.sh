#!/bin/bash
# Run checks against a scratch worktree of /repo with a patch applied (never touches /repo's tree).
# usage: tools/seedtest.sh <patch.diff> Cnn [Cmm ...]       env: TIER=quick|thorough SEED=n
set -u
PATCH=$(readlink -f "$1"); shift
WT=/tmp/seedtest-$$
git -C /repo worktree add -q "$WT" HEAD || exit 2
# carry over untracked verif hook files (builders may not have committed them yet)
(cd /repo && git ls-files --others --exclude-standard | grep 'verif_hooks' | while read f; do mkdir -p "$WT/$(dirname $f)"; cp "$f" "$WT/$f"; done)
if ! git -C "$WT" apply "$PATCH"; then echo "PATCH DOES NOT APPLY"; git -C /repo worktree remove --force "$WT"; exit 2; fi
rc=0
for p in "$@"; do
  echo "== $p on patched tree"
  (cd /verif && VERIF_REPO="$WT" ./check "$p" --tier "${TIER:-quick}" --seed "${SEED:-1}") | tail -8
  r=${PIPESTATUS[0]}; echo "   exit=$r"; [ "$r" != 0 ] && rc=1
done
git -C /repo worktree remove --force "$WT"
rm -rf "/root/.cache/verif/$(python3 -c "import hashlib;print(hashlib.sha1(b'$WT').hexdigest()[:10])")"
[ $rc = 1 ] && echo "DETECTED" || echo "MISSED"
exit 0
