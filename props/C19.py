PROP = {
    "id": "C19",
    "coq_targets": ["Properties/C19.vo", "Extract/C19Extract.vo"],
    "properties_file": "Properties/C19.v",
    "theorems": ["C19_accepted_update_wellformed", "C19_lengths_add_up_refuted", "C19_lengths_add_up_partial",
                 "C19_installed_wellformed"],
    "allowed_axioms": [],
    "harness": "c19",
    "modelrun": {"name": "c19", "extracted": ["c19_model"], "driver": "ocaml/c19/c19_run.ml"},
    "tiers": {"quick": {"cases": 12000}, "thorough": {"cases": 150000}},
    "search_cases": 40000,
    "rule": "UPDATE messages from the grammar (withdrawn routes, every attribute type, MP_REACH/MP_UNREACH, add-path, "
            "labels) with mutated length fields / prefix lengths / attribute lengths / counts / flags and attribute "
            "sets with missing mandatory attributes, header length = message size, x 16 option combinations, decoded "
            "from the zero-padded 4096-byte receive buffer and applied by processUpdate to an IPv4 and an IPv6 "
            "Adj-RIB-In; a case is non-trivial when the reference walk calls the message malformed or when it "
            "installs something; distinct = distinct (options, bytes)",
    "trusted_base": [
        "extraction (ExtrOcamlBasic only) + ocaml/common/conv.ml + ocaml/c19/c19_run.ml",
        "Go harness harness/cmd/c19 + harness/bgpx: generator, reference TLV walk (the oracle deciding 'malformed'), "
        "install observation through the add-only hook protocols/bgp/server/verif_hooks_c20.go",
        "modelled, not verified: Adj-RIB-In AddPath/RemovePath keyed by prefix (+ path id with add-path); recvMsg hands "
        "Decode the message zero-padded to 4096 bytes (the theorems hold for any trailing bytes)",
    ],
    "assumptions": ["session policy is irrelevant: an entry counts as installed when it is in the Adj-RIB-In (hidden or not)"],
}
