PROP = {
    "id": "C06",
    "coq_targets": ["Properties/C06.vo", "Extract/C05Extract.vo"],
    "properties_file": "Properties/C06.v",
    "theorems": ["C06_never_installed", "C06_ineligible_never", "C06_hidden_iff_ineligible", "C06_otc_matrix"],
    "allowed_axioms": [],
    "harness": "c06",
    "modelrun": {"name": "c06", "extracted": ["c05_model"], "driver": "ocaml/c05/c05_run.ml"},
    "tiers": {"quick": {"cases": 6000}, "thorough": {"cases": 200000}},
    "search_cases": 30000,
    "rule": "histories of 4-28 operations on one Adj-RIB-In with two recording Loc-RIB clients; more than half of the "
            "announcements are ineligible (own ASN anywhere in the AS_PATH, router id as ORIGINATOR_ID, contributing "
            "cluster id in the CLUSTER_LIST, OTC attribute against the 5 neighbour roles x local roles, empty AS_PATH on eBGP, "
            "ASN that becomes contributing later); accept-all/reject-all policy flips and rewriting policies; late and "
            "repeated registrations; a case is non-trivial when a Register or ReplaceFilterChain happens while an "
            "ineligible path is stored; distinct = distinct configuration + operation sequences",
    "trusted_base": [
        "extraction (ExtrOcamlBasic only) + ocaml/common/conv.ml + ocaml/c05/c05_run.ml (shared with C05)",
        "Go harness harness/adjribin + harness/cmd/c06 (generator, recording clients around real locRIB.LocRIB; the "
        "spec oracle tags every announcement with a unique community, evaluates the five clauses itself when the "
        "announcement is made and checks every delivered / installed path's tag)",
        "modelled, not verified: filter.Chain.Process is a pure function of (prefix, path value) - universally quantified, "
        "also over the policies put in place by ReplaceFilterChain; util/refcounter is modelled item by item and proved "
        "equivalent to a multiset (counts below 2^32); single-threaded histories",
    ],
    "assumptions": ["eligibility is judged when a path is received (the VRF's ASNs / cluster ids at that moment), as the "
                    "code does; a path that becomes ineligible later because another session comes up is not re-evaluated"],
}
