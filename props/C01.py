PROP = {
    "id": "C01",
    "coq_targets": ["Properties/C01.vo", "Extract/C01Extract.vo"],
    "properties_file": "Properties/C01.v",
    "theorems": ["C01_get", "C01_lpm", "C01_getLonger", "C01_dump", "C01_count",
                 "C01_spec_is_a_map", "C01_refines", "C01_noncanonical_refuted",
                 "C01_refines_ipv4", "C01_refines_ipv6", "C01_refines_ipv4_gen", "C01_refines_ipv6_gen",
                 "C01_noncanonical_refuted_words"],
    "allowed_axioms": [],
    # the word-level theorems are also stated on the prefix operations REGENERATED from $VERIF_REPO/net (coq/Gen/NetGen.v)
    "gen": [{"name": "gosub2coq", "cmd": ["python3", "tools/gosub2coq/run.py"], "timeout": 600}],
    "harness": "c01",
    "modelrun": {"name": "c01", "extracted": ["c01_model"], "driver": "ocaml/c01/c01_run.ml"},
    "tiers": {"quick": {"cases": 3000}, "thorough": {"cases": 40000}},
    "search_cases": 6000,
    "rule": "histories of 5-40 add/remove/replace/removePfx (RoutingTable) or add/remove/replace-one (LocRIB, with and "
            "without a registered client) ops over a pool of 6-10 IPv4 or IPv6 prefixes that share a long stem "
            "(stem lengths just below /8,/16,/24,/32,/64,/96,/128; /0, siblings, host routes), with Get/LPM/GetLonger "
            "queries of pool prefixes interleaved and Dump+count; a case is non-trivial when some operation removed a "
            "stored prefix (leaving a dummy node) and some query asked for a prefix that is not stored while prefixes "
            "covering it or inside it are; distinct = distinct token sequences. About 8% of the cases (T=rn) feed the "
            "RoutingTable with IPv4 prefixes whose host bits are set and are compared with the raw model only "
            "(never counted as non-trivial, no map oracle: the property is about prefixes)",
    "trusted_base": [
        "extraction (ExtrOcamlBasic only) + ocaml/common/conv.ml + ocaml/c01/c01_run.ml (token parser, set printer)",
        "Go harness harness/cmd/c01: generator, conversion bit string <-> net.Prefix by explicit shifts (no net.Prefix "
        "arithmetic), canonical printing of routes as sorted sets, the map oracle with its own bit-string containment",
        "modelled, not verified: a prefix is its significant bits (canonical prefixes only: host bits are zero); "
        "net.Prefix.Equal/Contains/GetSupernet/BitAtPosition = beq/bcontains/lcp/bitAt of Lib/BitPfx.v is decided by "
        "this correspondence check on both families (and proved independently by C15); route.Path.Compare/Equal is an "
        "equivalence 'same path' (static paths with distinct next hops in the harness); LocRIB's PathSelection only "
        "reorders a route's path list (observables are compared as sorted multisets); sync.RWMutex as mutual exclusion "
        "(single-threaded histories); node.skip is not modelled (no lookup reads it)",
    ],
    "assumptions": ["paths are non-nil (AddPath(pfx, nil) occurs only in unit tests and creates a route without paths)",
                    "prefixes are canonical (no host bits) and of one address family per table"],
}
