PROP = {
    "id": "C31",
    "coq_targets": ["Properties/C31.vo", "Extract/C31Extract.vo"],
    "properties_file": "Properties/C31.v",
    "theorems": ["C31_up_only_after_threeway", "C31_handshake", "C31_down_on_mismatch", "C31_down_on_timeout",
                 "C31_eventually_removed", "C31_removed_after_last_hello", "C31_lsp_lists_up", "C31_lsp_lists_exactly_up",
                 "C31_lsp_lists_exactly_up_change_during_build", "C31_drain_after_build_loses_change"],
    "allowed_axioms": [],
    "harness": "c31",
    "modelrun": {"name": "c31", "extracted": ["c31_model"], "driver": "ocaml/c31/c31_run.ml"},
    "tiers": {"quick": {"cases": 2500}, "thorough": {"cases": 40000}},
    "search_cases": 6000,
    "rule": "histories of 4-30 events: hello frames from 1-2 neighbors (holding time 0-9 s; three-way TLV listing us / other "
            "system / other circuit / no neighbor fields, every TLV adjacency state; 12% invalid or level-1-only hellos), clock "
            "advances (1 s runs, 2-10 s, around 120 s) each followed by one run of every adjacency checker, pending and forced "
            "LSP regenerations; 75% end with silence long enough for removal; a case is non-trivial when an existing neighbor "
            "receives a hello listing us or a neighbor is removed; distinct = distinct inputs",
    "trusted_base": [
        "extraction (ExtrOcamlBasic only) + ocaml/common/conv.ml + ocaml/c31/c31_run.ml",
        "Go harness harness/cmd/c31 + harness/isisx (injected clock, exact 'checker processed the tick' barrier from "
        "runtime.Stack, hello frames built byte by byte and fed through netIfa.processPkt, spec oracle)",
        "hook protocols/isis/server/verif_hooks_isis.go (VerifProcessPkt, VerifNeighbors, VerifLSDB, "
        "VerifRunPendingLSPUpdate/VerifUpdateL2LSP/VerifLSPUpdatePending)",
        "modelled, not verified: time in whole seconds; the hello decoder/validation reduced to a verdict "
        "(lists us / does not / rejected / ignored) chosen by the harness' frame kinds; the LSP updater routine "
        "played by explicit Regen events; one interface, level 2",
    ],
    "assumptions": ["clock advances are whole seconds", "neighbors are identified by source MAC as the code does"],
}
