PROP = {
    "id": "C27",
    "coq_targets": ["Properties/C27.vo", "Properties/BMPStack.vo", "Extract/C27Extract.vo"],
    "properties_file": "Properties/C27.v",
    "more_properties_files": ["Properties/BMPStack.v"],
    "theorems": ["C27_no_panic", "C27_serve_returns", "C27_fuel", "C27_alloc_proportional",
                 "BMPStack_no_panic", "BMPStack_alloc_proportional", "BMPStack_mirror"],
    "allowed_axioms": [],
    "harness": "c27",
    "modelrun": {"name": "c27", "extracted": ["c27_model"], "driver": "ocaml/c27/c27_run.ml"},
    "tiers": {"quick": {"cases": 2500}, "thorough": {"cases": 60000}},
    "search_cases": 8000,
    "rule": "byte streams served by one Router session: BMP conversations from a grammar (initiation, peer up incl. OPENs that "
            "disagree with the per-peer header, route monitoring with UPDATE / OPEN / NOTIFICATION / KEEPALIVE / garbage, "
            "statistics, mirroring, peer down, termination, frames around the 4096/8192 buffer boundaries), the same with 1-2 "
            "structured mutations (message length 0..5 / +-1 / 2^31 / 2^32-1, TLV lengths, statistics counts, OPEN parameter "
            "length, AS numbers, flags, reason codes, inner BGP length/type), truncations (every offset of one conversation), "
            "raw random bytes; a case is non-trivial when at least one message reaches processMsg or the framing rejects the "
            "stream; distinct = distinct (configuration, stream)",
    "trusted_base": [
        "extraction (ExtrOcamlBasic only) + ocaml/common/conv.ml + ocaml/c27/c27_run.ml (steps the extracted recv/process, "
        "also runs the extracted serve and checks the extracted cost against the proven bound)",
        "Go harness harness/cmd/c27 + harness/bmpx (generator, wire builders, worker process with RLIMIT_AS and watchdog, "
        "state digest, runtime.MemStats.TotalAlloc measurement) and the hook protocols/bgp/server/verif_hooks_bmp.go",
        "abstract BGP layer: decoding of an OPEN and decode+application of the BGP message inside a route monitoring message "
        "are arbitrary total functions in the theorems; in the correspondence run they are tabulated from the real code "
        "(packet.DecodeOpenMsg; packet.Decode + establishedState.update on a scratch monitored peer) - their own totality "
        "and cost are C16/C19/C21's subject; a panic in them is reported by this check's oracle as panic-bgp-layer",
        "cost model: counts every make/append of the BMP layer whose size derives from the input and binary.Read's scratch "
        "slices, not fixed-size structs, logging, or what the BGP layer and the RIBs allocate; the oracle compares the "
        "measured total allocation with 48x the proven bound + 1 MiB",
        "modelled, not verified: io.ReadFull / bytes.Buffer / encoding/binary.Read semantics; net.Conn as a byte pipe",
    ],
    "assumptions": ["the BGP layer below BMP returns (C16/C19/C21)",
                    "bytes are numbers below 256"],
}
