PROP = {
    "id": "C18",
    "coq_targets": ["Properties/C18.vo", "Extract/C18Extract.vo"],
    "properties_file": "Properties/C18.v",
    "theorems": ["C18_pack_partition", "C18_size", "C18_lossless", "C18_wire_bounded",
                 "C18_length_underestimates", "C18_reserved_covers"],
    "allowed_axioms": [],
    "harness": "c18",
    "modelrun": {"name": "c18", "extracted": ["c18_model"], "driver": "ocaml/c18/c18_run.ml"},
    "tiers": {"quick": {"cases": 300}, "thorough": {"cases": 5000}},
    "search_cases": 600,
    "search_rounds": 2,
    "rule": "one path with generated attribute sizes (AS paths up to several hundred ASNs in up to 6 segments, up to 300 "
            "communities / 80 large communities, unknown attributes; the attributes BGPPath.Length() under-counts in 30% of "
            "the cases) x 1-3000 prefixes in 1-5 runs of one prefix length each x session kind (IPv4, IPv4 multiprotocol, "
            "IPv6 multiprotocol; add-path, 2/4-octet ASN, iBGP/eBGP, RR client); a case is non-trivial when the prefixes "
            "were split into at least two UPDATEs; every fourth case runs the REAL sender goroutine against a connection whose Write blocks until released and queues further prefixes of the path while it is blocked (non-trivial when it did); distinct = distinct inputs",
    "trusted_base": [
        "extraction (ExtrOcamlBasic only) + ocaml/common/conv.ml + ocaml/c18/c18_run.ml",
        "Go harness harness/cmd/c18 + harness/usx (generator, capture writer, reference UPDATE decoder written from "
        "RFC 4271/4760/7911, hand-computed expected attribute values, spec oracle) and the hook "
        "protocols/bgp/server/verif_hooks_c10.go (constructs the UpdateSender through newUpdateSender; Dequeue repeats the "
        "locked part of one iteration of sender(): _getUpdateInformation + delete; the real loop is covered by the real-goroutine stream, harness/usx/real.go)",
        "modelled, not verified: the byte counts of the attribute/NLRI/UPDATE serializers are transcribed into "
        "Model.UpdateSender (enc_attrs, mp_attr, msg_total) and tied to the code by comparing the length of every written "
        "message; sha256 as identity on the hashed tuple",
    ],
    "assumptions": ["a single NLRI fits into an UPDATE next to the path's attributes (all_fit_list); otherwise BGP cannot "
                    "carry the route in 4096 bytes and every UPDATE is refused",
                    "no uint8/uint16 wrap in the length fields (AS path segments <= 255 ASNs, attributes < 4096 bytes)"],
}
