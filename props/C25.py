PROP = {
    "id": "C25",
    "coq_targets": ["Properties/C25.vo", "Extract/C25Extract.vo"],
    "properties_file": "Properties/C25.v",
    "theorems": ["C25_ranked_lock_order_no_deadlock", "C25_ranked_lock_order_progress",
                 "C25_no_return_holding_lock_progress", "C25_lock_order_ranked", "C25_lock_order_refuted",
                 "C25_no_lock_leak", "C25_no_rendezvous_under_lock", "C25_no_dynamic_call_under_lock",
                 "C25_no_lock_deadlock_partial"],
    "allowed_axioms": [],
    # translator: regenerates coq/Gen/LockModel.v from $VERIF_REPO on every run (written only when changed)
    "gen": [{"name": "locktab", "cmd": ["python3", "tools/locktab/run.py"], "timeout": 600}],
    "harness": "c25",
    "modelrun": {"name": "c25", "extracted": ["c25_model"], "driver": "ocaml/c25/c25_run.ml"},
    "tiers": {"quick": {"cases": 40, "harness_timeout": 900}, "thorough": {"cases": 1200, "harness_timeout": 3000}},
    "search_cases": 40,
    "search_rounds": 2,
    "rule": "one case = one child process: a fixed deadlock witness (corpus/C25) or a seeded concurrent stress of "
            "the public table operations (AddPath/RemovePath/Register/Unregister/ReplaceFilterChain/Flush/Dispose on "
            "AdjRIBIn->LocRIB->AdjRIBOut chains) or of a BGP server with established sessions (UPDATE processing, "
            "import policy replacement, metrics, DisposePeer) with GOMAXPROCS in 1..16, 2-8 goroutines, 150-400 "
            "operations each, under a watchdog; every case is non-trivial; distinct = distinct (mix, GOMAXPROCS, "
            "goroutines, operations, seed)",
    "explanation": "PARTIAL by design (DESIGN.md 3.3/6/8): the Coq theorems are about the lock/channel tables that "
                   "tools/locktab regenerates from the Go source on every run and about an abstract mutex/rendezvous "
                   "semantics; model-compared = harness cases whose outcome (deadlock witness hangs / stress completes) "
                   "was checked against the tables' exception rows; real interleavings are only sampled by the stress",
    "trusted_base": [
        "tools/locktab (go/packages, go/types, x/tools/go/cfg): that the extracted tables over-approximate the lock "
        "acquisitions, blocking channel operations and returns of the analysed packages is ASSUMED (rules in the "
        "header of coq/Gen/LockModel.v: class-hierarchy call resolution narrowed by registrations, closed world, "
        "path-insensitive)",
        "modelled, not verified: sync.Mutex/RWMutex as exclusive abstract locks (one per struct field, all instances "
        "merged), unbuffered channels as rendezvous; not modelled: buffered channels, sync.WaitGroup/atomic, blocking "
        "I/O under a lock, timers, goroutine scheduling fairness",
        "extraction (ExtrOcamlBasic) + ocaml/c25/c25_run.ml; Go harness harness/lockstress (child processes, watchdog, "
        "goroutine-dump canonicalisation) and the verif hook protocols/bgp/server/verif_hooks_c25.go",
    ],
    "assumptions": ["extraction soundness of locktab (see trusted base)",
                    "a thread = one path through one public operation; operations that conform to the non-excepted "
                    "part of the tables are the ones the theorem speaks about"],
}
