import os, sys
sys.path.insert(0, os.path.dirname(os.path.abspath(__file__)))
import aro_props

PROP = {
    "id": "C08",
    "coq_targets": ["Properties/C08.vo", "Extract/AroExtract.vo"],
    "properties_file": "Properties/C08.v",
    "theorems": ["C08_ribout_is_export_view_partial", "C08_guard_transparent_ibgp", "C08_guard_transparent_rs_client",
                 "C08_guard_policy_language", "C08_ribout_is_export_view_refuted_rewriting",
                 "C08_ribout_is_export_view_refuted_redistributed", "C08_ribout_is_export_view_refuted_wipe",
                 "C08_ribout_is_export_view_refuted_sibling"],
    "allowed_axioms": [],
    "harness": "c08",
    "modelrun": {"name": "c08", "extracted": ["aro_model"], "driver": aro_props.driver("c08")},
    "tiers": {"quick": {"cases": 2500}, "thorough": {"cases": 60000}},
    "search_cases": 10000,
    "rule": "Loc-RIB histories of 4-19 AddPath/RemovePath calls over 3 prefixes (BGP paths from colliding attribute pools or "
            "one-attribute mutants, 12% static) on {eBGP, RS client, iBGP, RR client} x {best only, 2-3 paths} x export chains "
            "(45% accept-all, otherwise drawn from the bounded language); after every call the Adj-RIB-Out is compared with the "
            "export view of the Loc-RIB's first-n paths. Non-trivial = the Loc-RIB withdrew at least one path from the session; "
            "distinct = distinct inputs",
    "trusted_base": [
        "extraction (ExtrOcamlBasic only) + ocaml/common/conv.ml + ocaml/aro/aro_common.ml + ocaml/c08/c08_run.ml",
        "Go harness harness/cmd/c08 + harness/aro (generators, spy client, spec oracle: export of one path = a fresh "
        "Adj-RIB-Out of the same session given just that path)",
        "modelled, not verified: the Loc-RIB is its first-n view per prefix; LocRIB.propagateChanges = removes then adds of the "
        "view difference (checked against a spy client on every op)",
    ],
    "assumptions": ["BGP-typed paths carry non-nil BGPPath/BGPPathA/ASPath/NextHop/Source",
                    "the Loc-RIB holds no two indistinguishable path objects for one prefix", "IPv4"],
}
