import os, sys
sys.path.insert(0, os.path.dirname(os.path.abspath(__file__)))
import aro_props


def _stage(ctx, name, corpus_id, n, extracted, driver):
    """One end-to-end stream: Go harness (real code + spec oracle) and the extracted model replaying its trace."""
    vlib = ctx["vlib"]
    lines, stats = [], {}
    ok, exe, log = vlib.build_harness(name)
    if not ok:
        return ["HARNESS-ERROR %s harness does not build: %s" % (name, log.strip()[-600:])], stats
    outdir = os.path.join(ctx["outdir"], name)
    rc, out, trace, hstats = vlib.run_harness_once(exe, {"id": corpus_id}, ctx["tier"], ctx["seed"], "check", n, outdir, timeout=1500)
    hl = out.split("\n")
    lines += [l for l in hl if l.startswith("SPEC-VIOLATION") or l.startswith("HARNESS-ERROR")]
    if rc != 0 and not lines:
        lines.append("HARNESS-ERROR %s harness exit=%d %s" % (name, rc, out.strip()[-400:]))
    ncases, distinct, samples = vlib.trace_stats(trace)
    stats.update({name + "_cases": ncases, name + "_distinct_nontrivial": distinct,
                  name + "_distribution": hstats.get("distribution", {}), name + "_samples": [s[:600] for s in samples[:1]]})
    mprop = {"modelrun": {"name": name, "extracted": [extracted], "driver": driver}}
    mok, mexe, mlog = vlib.build_modelrun(mprop)
    if not mok:
        lines.append("MODEL-ERROR %s modelrun does not build: %s" % (name, (mlog or "")[-400:]))
        return lines, stats
    rc, mout = vlib.run_modelrun(mexe, trace)
    for l in mout.split("\n"):
        if l.startswith("CORR-MISMATCH") or l.startswith("MODEL-ERROR"):
            lines.append(l)
        if l.startswith("STATS "):
            stats[name + "_model_stats"] = l
    if rc != 0 and not any(l.startswith("CORR-MISMATCH") for l in lines):
        lines.append("MODEL-ERROR %s modelrun exit=%d %s" % (name, rc, mout.strip()[-300:]))
    return lines, stats


def extra(ctx):
    """End-to-end stages (notes/Pipeline.md).
    pipeline: harness/cmd/pipeline wires the real AdjRIBIn -> LocRIB -> AdjRIBOut -> UpdateSender objects as
    fsm_address_family.go does and drives multi-session histories; its spec oracle states 'peer view after drain =
    export of the selection over the union of the current announcements' directly; ocaml/pipeline/pipeline_run.ml
    replays the same histories through the extracted composed model (Model/Pipeline.v).
    speaker: harness/cmd/speaker steps several real session FSMs in Established on one VRF / Loc-RIB, feeds them BYTES
    and captures the BYTES they write; the oracle works from the input bytes (independent reference decoder);
    ocaml/speaker/speaker_run.ml replays the same bytes through the extracted wire-to-wire model (Model/Speaker.v)."""
    lines, stats = _stage(ctx, "pipeline", "Pipeline", {"quick": 500, "thorough": 6000}[ctx["tier"]],
                          "pipeline_model", "ocaml/pipeline/pipeline_run.ml")
    stats["evaluations"] = stats.get("pipeline_cases", 0)
    l2, s2 = _stage(ctx, "speaker", "Speaker", {"quick": 600, "thorough": 8000}[ctx["tier"]],
                    "speaker_model", "ocaml/speaker/speaker_run.ml")
    stats.update(s2)
    stats["evaluations"] += s2.get("speaker_cases", 0)
    return {"lines": lines + l2, "stats": stats}


PROP = {
    "id": "C08",
    "coq_targets": ["Properties/C08.vo", "Extract/AroExtract.vo", "Properties/Pipeline.vo", "Extract/PipelineExtract.vo",
                    "Properties/Speaker.vo", "Extract/SpeakerExtract.vo"],
    "more_properties_files": ["Properties/Pipeline.v", "Properties/Speaker.v"],
    "extra": extra,
    "properties_file": "Properties/C08.v",
    "theorems": ["C08_ribout_is_export_view_partial", "C08_guard_transparent_ibgp", "C08_guard_transparent_rs_client",
                 "C08_guard_policy_language", "C08_ribout_is_export_view_refuted_rewriting",
                 "C08_ribout_is_export_view_refuted_redistributed", "C08_ribout_is_export_view_refuted_wipe",
                 "C08_ribout_is_export_view_refuted_sibling",
                 # end-to-end theorems about the composed RIB pipeline (Properties/Pipeline.v, notes/Pipeline.md)
                 "Pipeline_locrib_is_union_of_contributions", "Pipeline_ribout_is_export_of_selection",
                 "Pipeline_peer_view_is_announced", "Pipeline_peer_view_converges",
                 "Pipeline_session_down_removes_contribution", "Pipeline_noninterference",
                 "Pipeline_selection_order_independent", "Pipeline_peer_view_converges_refuted_duplicate",
                 # wire-to-wire theorems about the composed speaker (Properties/Speaker.v, notes/Pipeline.md "Speaker")
                 "Speaker_installs_what_was_decoded", "Speaker_output_decodes_to_export_view", "Speaker_wire_to_wire",
                 "Speaker_run_is_pipeline_run"],
    "allowed_axioms": [],
    "harness": "c08",
    "modelrun": {"name": "c08", "extracted": ["aro_model"], "driver": aro_props.driver("c08")},
    "tiers": {"quick": {"cases": 2500}, "thorough": {"cases": 60000}},
    "search_cases": 10000,
    "rule": "Loc-RIB histories of 4-19 AddPath/RemovePath calls over 3 prefixes (BGP paths from colliding attribute pools or "
            "one-attribute mutants, 12% static) on {eBGP, RS client, iBGP, RR client} x {best only, 2-3 paths} x export chains "
            "(45% accept-all, otherwise drawn from the bounded language); after every call the Adj-RIB-Out is compared with the "
            "export view of the Loc-RIB's first-n paths. Non-trivial = the Loc-RIB withdrew at least one path from the session; "
            "distinct = distinct inputs",
    "trusted_base": [
        "extraction (ExtrOcamlBasic only) + ocaml/common/conv.ml + ocaml/aro/aro_common.ml + ocaml/c08/c08_run.ml",
        "Go harness harness/cmd/c08 + harness/aro (generators, spy client, spec oracle: export of one path = a fresh "
        "Adj-RIB-Out of the same session given just that path)",
        "modelled, not verified: the Loc-RIB is its first-n view per prefix; LocRIB.propagateChanges = removes then adds of the "
        "view difference (checked against a spy client on every op)",
    ],
    "assumptions": ["BGP-typed paths carry non-nil BGPPath/BGPPathA/ASPath/NextHop/Source",
                    "the Loc-RIB holds no two indistinguishable path objects for one prefix", "IPv4"],
}
