PROP = {
    "id": "C21",
    "coq_targets": ["Properties/C21.vo", "Extract/C23Extract.vo"],
    "properties_file": "Properties/C21.v",
    "theorems": ["C21_no_panic", "C21_unguarded_panicked", "C21_no_crash", "C21_other_sessions_untouched",
                 "C21_error_codes_sound", "C21_notification", "C21_malformed_notified_partial",
                 "C21_malformed_notified_refuted"],
    "allowed_axioms": [],
    "harness": "c21",
    "modelrun": {"name": "c21", "extracted": ["c23_model"], "driver": "ocaml/c23/c23_run.ml"},
    "tiers": {"quick": {"cases": 2000}, "thorough": {"cases": 30000}},
    "search_cases": 6000,
    "rule": "deterministic sweep: raw headers with length 0..64, 4080..4110 and 8 further values (thorough: every length "
            "0..65535), types KEEPALIVE/UPDATE (thorough: all four), as many body octets as announced, delivered in "
            "OpenSent, OpenConfirm and Established, followed by a restart; plus generated cases as for C23 (mutated valid "
            "conversations, raw headers from all marker/length/type classes with complete or short bodies, truncated "
            "headers, undecodable OPEN/UPDATE/NOTIFICATION bodies, invalid OPENs; a second established session in a third "
            "of the cases); a case is non-trivial when a malformed transmission reaches session 0 in OpenSent, OpenConfirm "
            "or Established; distinct = distinct inputs",
    "trusted_base": [
        "extraction (ExtrOcamlBasic only) + ocaml/common/conv.ml + ocaml/c23/c23_run.ml",
        "Go harness harness/fsmx + harness/cmd/c21: generator, sweep, independent serialiser and reference parser of the "
        "speaker's output (fsmx/wire.go), oracle 'owed' written from RFC 4271 section 6",
        "hook protocols/bgp/server/verif_hooks_fsm.go: every transmission is framed by the real recvMsg on a stream that "
        "holds exactly the transmitted octets (EOF after them = the peer stalls), under recover, before it is handed to "
        "the state on msgRecvCh; a panic anywhere in the handler is recorded, not swallowed",
        "modelled, not verified: bodies of well-formed messages decode to what was sent (the codec properties C16/C19 own "
        "packet.Decode's bodies); raw UPDATE headers longer than 23 octets are outside the domain for the same reason",
    ],
    "assumptions": ["one FSM per peer", "io.ReadFull semantics (short read = error) as documented"],
}
