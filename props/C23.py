PROP = {
    "id": "C23",
    "coq_targets": ["Properties/C23.vo", "Extract/C23Extract.vo"],
    "properties_file": "Properties/C23.v",
    "theorems": ["C23_refines", "C23_attached_iff_established", "C23_updates_only_in_established",
                 "C23_down_closes", "C23_no_crash", "C23_policy_replacement_reattaches"],
    "allowed_axioms": [],
    "harness": "c23",
    "modelrun": {"name": "c23", "extracted": ["c23_model"], "driver": "ocaml/c23/c23_run.ml"},
    "tiers": {"quick": {"cases": 2500}, "thorough": {"cases": 60000}},
    "search_cases": 8000,
    "rule": "deterministic part first: ExitProduct = 4 configurations x {OpenSent, OpenConfirm, Established} x connection {healthy, writes fail, peer closed} x 42 events (every admin code, connection event, timer, message class), each followed by a restart; then cases = 1-2 session configurations (iBGP/eBGP, 2- and 4-octet AS, hold times 0/3/30/90/180, families, add-path, "
            "roles, route reflection, import policy accept/reject/rewrite, outgoing or accepted-connection FSM) + up to ~40 "
            "events (admin start/stop/cease, TCP up with working or broken connection, hold poll expired/not, keepalive and "
            "connect-retry timer, write failure, peer transmissions: KEEPALIVE, valid and mutated OPEN, UPDATE, valid and "
            "invalid NOTIFICATION, raw headers from all length/type/marker classes, truncated headers, undecodable bodies); "
            "shapes: mutated valid conversation / valid up to OpenSent / free; a case is non-trivial when the session "
            "reaches OpenSent, OpenConfirm or Established and leaves it again; distinct = distinct inputs",
    "trusted_base": [
        "extraction (ExtrOcamlBasic only) + ocaml/common/conv.ml + ocaml/c23/c23_run.ml (trace parser, observation printer)",
        "Go harness harness/fsmx + harness/cmd/c23: generator, independent wire serialiser/parser (fsmx/wire.go), spec oracle, "
        "observation of FSM state, ribsInitialized, connection, bytes written, negotiated options, Loc-RIB dump, VRF refcounts",
        "hook protocols/bgp/server/verif_hooks_fsm.go: one event at a time is delivered through the channel/timer the state "
        "selects on; the 1-second hold poll is injected by calling checkHoldtimer() on the state (what run() does when "
        "time.After fires); messages are framed by the real recvMsg on a scratch reader and handed over on msgRecvCh",
        "modelled, not verified: goroutine scheduling between receiver and FSM (channels as rendezvous), timers as injected "
        "events, TCP as a reliable byte pipe whose writes either succeed or fail; packet.Decode only as far as the harness's "
        "message classes go (header checks, validateOpen, NOTIFICATION code table; well-formed bodies decode to what was sent)",
    ],
    "assumptions": [
        "one FSM per peer in the generated cases (connection collisions are C24)",
        "tcpConnector / msgReceiver goroutines behave as their source says (connect requests are consumed; read errors are dropped)",
    ],
}
