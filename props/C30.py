PROP = {
    "id": "C30",
    "coq_targets": ["Properties/C30.vo", "Extract/C30Extract.vo"],
    "properties_file": "Properties/C30.v",
    "theorems": [],
    "allowed_axioms": [],
    "harness": "c30",
    "modelrun": {"name": "c30", "extracted": ["c30_model"], "driver": "ocaml/c30/c30_run.ml"},
    "tiers": {"quick": {"cases": 4000}, "thorough": {"cases": 120000}},
    "search_cases": 20000,
    "rule": "",
    "trusted_base": [],
    "assumptions": [],
}
