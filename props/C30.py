PROP = {
    "id": "C30",
    "coq_targets": ["Properties/C30.vo", "Extract/C30Extract.vo"],
    "properties_file": "Properties/C30.v",
    "theorems": ["C30_fuel_suffices", "C30_no_panic", "C30_no_panic_l2hello",
                 "C30_roundtrip_hello", "C30_roundtrip_lsp", "C30_roundtrip_csnp", "C30_roundtrip_psnp",
                 "C30_new_csnps", "C30_new_psnps", "C30_constructors_wf"],
    "allowed_axioms": [],
    "harness": "c30",
    "modelrun": {"name": "c30", "extracted": ["c30_model"], "driver": "ocaml/c30/c30_run.ml"},
    "tiers": {"quick": {"cases": 6000}, "thorough": {"cases": 150000}},
    "search_cases": 30000,
    "rule": "streams: D = packet.Decode on valid PDUs of every kind from a TLV grammar, mutated (TLV length/type bytes, "
            "PDU type, truncation at every offset for some PDUs, random bytes, appended junk), raw random bytes and the "
            "repository's fuzzing seeds; L = DecodeL2Hello; E = generated PDU values (every TLV struct that is a packet.TLV, "
            "well-formed and deliberately inconsistent ones) serialized and decoded; K = LSPDU.UpdateLength+SetChecksum; "
            "T = the TLV constructors (New*TLV, AddNeighbor/AddSubTLV, AddExtendedIPReachability) around the 255 byte limit, "
            "the TLV then serialized inside an LSP and decoded; C/P = NewCSNPs/NewPSNPs over 0..200 LSP entries x maxPDULen -5..9000 (grid around 15/16 entries per TLV and the "
            "per-PDU capacity). Non-trivial: D reaches a PDU body decoder (known PDU type, more than 11 bytes); L more than 19 "
            "bytes; E/K the PDU has at least one TLV; T always; C/P more than one PDU or more than 15 entries. distinct = distinct inputs",
    "trusted_base": [
        "extraction (ExtrOcamlBasic only) + ocaml/common/conv.ml + ocaml/c30/c30_run.ml (parser/printer of the canonical PDU text)",
        "Go harness harness/cmd/c30 (grammar, mutators, canonical rendering of decoded structs, reference encoder of the "
        "TLVs without a decoder, spec oracle)",
        "modelled, not verified: bytes.Buffer.Read/ReadByte and encoding/binary.Read (io.ReadFull) semantics as described in "
        "Model/ISISCodec.v; convert.Uint32Byte returns 4 bytes of a 64 byte zeroed array; sort.Slice as a stable insertion "
        "sort (exact for fewer than 13 elements; for longer inputs the harness generates pairwise distinct sort keys); "
        "int(math.Ceil(float64(a)/float64(b))) as integer ceiling division; Go int as unbounded; slices passed to "
        "NewCSNPs/NewPSNPs have len == cap; no nil pointers inside PDU values",
    ],
    "assumptions": ["Go errors are one outcome (their texts are not compared)",
                    "PDU values contain no nil TLV / nil LSP entry pointers"],
    "explanation": "Decode totality and the round trips are Coq theorems about the byte-level model; the model is tied to "
                   "protocols/isis/packet by running both on the same inputs and comparing the canonical rendering of every "
                   "decoded PDU, the serialized bytes and the PDUs NewCSNPs/NewPSNPs build.",
}
