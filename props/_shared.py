# Cross-property stages (lib/vlib.py: shared_stages_for / run_shared_stage): one harness run per (tree, seed, tier),
# cached under $VERIF_SCRATCH/<repo>/shared; every listed property's check gets the lines tagged prop=<its id>.
#
# serverwiring: harness/cmd/serverwiring drives the real bgpServer (AddPeer / DisposePeer / Replace*FilterChain,
# inbound connections through a listener manager of the harness, FSM goroutines as in production) through generated
# server-level histories and evaluates the property clauses on the real objects after every event
# (notes/ServerWiring.md).
#
# isisreload: the C36 harness (harness/cmd/c36, notes/C36.md) with -isisprop C32: daemon lives of 2-3 configuration
# files that all carry an isis section, replayed through the real bio-rd binary (config.GetConfig + loadConfig);
# after every load the number of LSDB routine sets started on the IS-IS server must be 1 (every further set ages
# all LSPs once more per second: C32 "keeps ... until it ages out"). C36 itself sees the same oracle in its own run.
SHARED = [
    {
        "name": "serverwiring",
        "harness": "serverwiring",
        "props": ["C04", "C06", "C07", "C08", "C09", "C10", "C11", "C12"],
        "tiers": {"quick": {"cases": 800}, "thorough": {"cases": 6000}},
        "harness_args": ["-corpus", "/verif/corpus/serverwiring"],
        "timeout": 600,
    },
    {
        "name": "isisreload",
        "harness": "c36",
        "props": ["C32"],
        "tiers": {"quick": {"cases": 60}, "thorough": {"cases": 600}},
        "harness_args": ["-isisprop", "C32"],
        "timeout": 600,
    },
]
