# Cross-property stages (lib/vlib.py: shared_stages_for / run_shared_stage): one harness run per (tree, seed, tier),
# cached under $VERIF_SCRATCH/<repo>/shared; every listed property's check gets the lines tagged prop=<its id>.
#
# serverwiring: harness/cmd/serverwiring drives the real bgpServer (AddPeer / DisposePeer / Replace*FilterChain,
# inbound connections through a listener manager of the harness, FSM goroutines as in production) through generated
# server-level histories and evaluates the property clauses on the real objects after every event
# (notes/ServerWiring.md).
SHARED = [
    {
        "name": "serverwiring",
        "harness": "serverwiring",
        "props": ["C04", "C06", "C07", "C08", "C09", "C10", "C11", "C12"],
        "tiers": {"quick": {"cases": 800}, "thorough": {"cases": 6000}},
        "harness_args": ["-corpus", "/verif/corpus/serverwiring"],
        "timeout": 600,
    },
]
