PROP = {
    "id": "C32",
    "coq_targets": ["Properties/C32.vo", "Extract/C32Extract.vo"],
    "properties_file": "Properties/C32.v",
    "theorems": ["C32_highest_seq_kept", "C32_kept_until_aged_out", "C32_highest_seq_history", "C32_flag_rules",
                 "C32_flags_invariant", "C32_refresh_before_expiry", "C32_own_seq_dominates", "C32_ids_are_full"],
    "allowed_axioms": [],
    "harness": "c32",
    "modelrun": {"name": "c32", "extracted": ["c32_model"], "driver": "ocaml/c32/c32_run.ml"},
    "tiers": {"quick": {"cases": 6000}, "thorough": {"cases": 120000}},
    "search_cases": 20000,
    "rule": "histories of 4-20 events on a server with three interfaces (8 mixes of: active with Up neighbor / active "
            "without neighbor / passive): LSPs (10 full ids <system, pseudonode, LSP number> incl. siblings differing only "
            "in the LSP number or only in the pseudonode, the own LSP, another fragment and a pseudonode LSP of the own system; sequence "
            "numbers 1-4, rarely 0 / 2^32-2 / 2^32-1, lifetimes 1-6 or 1200), CSNPs with full or partial range (boundaries drawn from the id pool, so they fall "
            "between siblings) and 0-4 entries spread over 1-4 LSP entries TLVs, PSNPs with 0-3 entries, aging ticks (1-3, or 1-1810 with the updater running after each), updater runs, "
            "forced regenerations, LSP, PSNP and CSNP sender runs; a case is non-trivial when it contains an SNP, a sender run or an "
            "LSP received into a non-empty database; distinct = distinct inputs",
    "trusted_base": [
        "extraction (ExtrOcamlBasic only) + ocaml/common/conv.ml + ocaml/c32/c32_run.ml",
        "Go harness harness/cmd/c32 + harness/isisx (real Server, interfaces, neighbors; PDUs handed to the LSDB as decoded "
        "structs; LSDB routine bodies run synchronously; transmitted LSPs/PSNPs parsed from the bytes on the recording "
        "ethernet handles; spec oracle written from ISO 10589 7.3.15.2 / 7.3.16)",
        "hook protocols/isis/server/verif_hooks_isis.go (VerifProcessLSP/CSNP/PSNP, VerifLSDB incl. SRM/SSN flags, "
        "VerifDecrementRemainingLifetimes, VerifSendLSPDUs/PSNPs, VerifRunPendingLSPUpdate, VerifUpdateL2LSP, VerifSequenceNumberL2)",
        "modelled, not verified: LSP = (id, sequence number, remaining lifetime) - TLV contents, checksums, purges "
        "(zero lifetime) and LSP numbers other than 0 are outside the model; the ticker driven routines as explicit "
        "events in any order; the PDU codec is C30's",
    ],
    "assumptions": ["sequence numbers < 2^32, lifetimes < 2^16 (wire format)",
                    "C32_own_seq_dominates holds while the 32 bit sequence counter has not reached 2^32-1 "
                    "(ISO 10589 handles exhaustion by waiting MaxAge+ZeroAgeLifetime, which the code does not implement)"],
}
