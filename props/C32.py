import os


def extra(ctx):
    """Wire-level stage (notes/ISISSpeaker.md): harness/cmd/isisspeaker feeds generated PDU BYTES to the receiver of a real
    Server (hello sender, LSDB routines, LSP updater, adjacency checkers all real, injected clock), captures every frame
    written, decodes them with packet.Decode and evaluates a spec oracle; incl. two real servers back to back.
    ocaml/isisspeaker/isisspeaker_run.ml replays the same bytes through the extracted Model/ISISSpeaker.v (composition
    of the C30 codec, C31 adjacency and C32 LSDB models) and compares state and frames byte for byte."""
    vlib = ctx["vlib"]
    lines, stats = [], {}
    ok, exe, log = vlib.build_harness("isisspeaker")
    if not ok:
        return {"lines": ["HARNESS-ERROR isisspeaker harness does not build: " + log.strip()[-600:]], "stats": stats}
    n = {"quick": 450, "thorough": 6000}[ctx["tier"]]
    outdir = os.path.join(ctx["outdir"], "isisspeaker")
    rc, out, trace, hstats = vlib.run_harness_once(exe, {"id": "ISISSpeaker"}, ctx["tier"], ctx["seed"], "check", n, outdir, timeout=1500)
    hl = out.split("\n")
    lines += [l for l in hl if l.startswith("SPEC-VIOLATION") or l.startswith("HARNESS-ERROR")]
    if rc != 0 and not lines:
        lines.append("HARNESS-ERROR isisspeaker harness exit=%d %s" % (rc, out.strip()[-400:]))
    ncases, distinct, samples = vlib.trace_stats(trace)
    stats.update({"evaluations": ncases, "speaker_cases": ncases, "speaker_distinct_nontrivial": distinct,
                  "speaker_distribution": hstats.get("distribution", {}), "speaker_samples": [x[:600] for x in samples[:1]]})
    mprop = {"modelrun": {"name": "isisspeaker", "extracted": ["isisspeaker_model"], "driver": "ocaml/isisspeaker/isisspeaker_run.ml"}}
    mok, mexe, mlog = vlib.build_modelrun(mprop)
    if not mok:
        lines.append("MODEL-ERROR isisspeaker modelrun does not build: " + (mlog or "")[-400:])
        return {"lines": lines, "stats": stats}
    rc, mout = vlib.run_modelrun(mexe, trace)
    for l in mout.split("\n"):
        if l.startswith("CORR-MISMATCH") or l.startswith("MODEL-ERROR"):
            lines.append(l[:900])
        if l.startswith("STATS "):
            stats["speaker_model_stats"] = l
    if rc != 0 and not any(l.startswith("CORR-MISMATCH") for l in lines):
        lines.append("MODEL-ERROR isisspeaker modelrun exit=%d %s" % (rc, mout.strip()[-300:]))
    return {"lines": lines, "stats": stats}


PROP = {
    "id": "C32",
    "coq_targets": ["Properties/C32.vo", "Extract/C32Extract.vo", "Properties/ISISSpeaker.vo", "Extract/ISISSpeakerExtract.vo"],
    "more_properties_files": ["Properties/ISISSpeaker.v"],
    "extra": extra,
    "properties_file": "Properties/C32.v",
    "theorems": ["C32_highest_seq_kept", "C32_kept_until_aged_out", "C32_highest_seq_history", "C32_flag_rules",
                 "C32_flags_invariant", "C32_refresh_before_expiry", "C32_own_seq_dominates", "C32_ids_are_full",
                 # wire-level speaker: composition of the C30/C31/C32/C33 models (Properties/ISISSpeaker.v, notes/ISISSpeaker.md)
                 "ISISSpeaker_garbage_changes_nothing", "ISISSpeaker_other_pdu_types_change_nothing",
                 "ISISSpeaker_ack_roundtrips", "ISISSpeaker_hello_reflects_adjacency",
                 "ISISSpeaker_verdict_of_emitted", "ISISSpeaker_two_speaker_closure",
                 "ISISSpeaker_lsp_roundtrip_lists_up", "ISISSpeaker_service_installs_own_lsp"],
    "allowed_axioms": [],
    "harness": "c32",
    "modelrun": {"name": "c32", "extracted": ["c32_model"], "driver": "ocaml/c32/c32_run.ml"},
    "tiers": {"quick": {"cases": 6000}, "thorough": {"cases": 120000}},
    "search_cases": 20000,
    "rule": "histories of 4-20 events on a server with three interfaces (8 mixes of: active with Up neighbor / active "
            "without neighbor / passive): LSPs (10 full ids <system, pseudonode, LSP number> incl. siblings differing only "
            "in the LSP number or only in the pseudonode, the own LSP, another fragment and a pseudonode LSP of the own system; sequence "
            "numbers 1-4, rarely 0 / 2^32-2 / 2^32-1, lifetimes 1-6 or 1200), CSNPs with full or partial range (boundaries drawn from the id pool, so they fall "
            "between siblings) and 0-4 entries spread over 1-4 LSP entries TLVs, PSNPs with 0-3 entries, aging ticks (1-3, or 1-1810 with the updater running after each), updater runs, "
            "forced regenerations, LSP, PSNP and CSNP sender runs; a case is non-trivial when it contains an SNP, a sender run or an "
            "LSP received into a non-empty database; distinct = distinct inputs",
    "trusted_base": [
        "extraction (ExtrOcamlBasic only) + ocaml/common/conv.ml + ocaml/c32/c32_run.ml",
        "Go harness harness/cmd/c32 + harness/isisx (real Server, interfaces, neighbors; PDUs handed to the LSDB as decoded "
        "structs; LSDB routine bodies run synchronously; transmitted LSPs/PSNPs parsed from the bytes on the recording "
        "ethernet handles; spec oracle written from ISO 10589 7.3.15.2 / 7.3.16)",
        "hook protocols/isis/server/verif_hooks_isis.go (VerifProcessLSP/CSNP/PSNP, VerifLSDB incl. SRM/SSN flags, "
        "VerifDecrementRemainingLifetimes, VerifSendLSPDUs/PSNPs, VerifRunPendingLSPUpdate, VerifUpdateL2LSP, VerifSequenceNumberL2)",
        "modelled, not verified: LSP = (id, sequence number, remaining lifetime) - TLV contents, checksums, purges "
        "(zero lifetime) and LSP numbers other than 0 are outside the model; the ticker driven routines as explicit "
        "events in any order; the PDU codec is C30's",
    ],
    "assumptions": ["sequence numbers < 2^32, lifetimes < 2^16 (wire format)",
                    "C32_own_seq_dominates holds while the 32 bit sequence counter has not reached 2^32-1 "
                    "(ISO 10589 handles exhaustion by waiting MaxAge+ZeroAgeLifetime, which the code does not implement)"],
}
