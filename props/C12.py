import os, sys
sys.path.insert(0, os.path.dirname(os.path.abspath(__file__)))
import aro_props

PROP = {
    "id": "C12",
    "coq_targets": ["Properties/C12.vo", "Extract/AroExtract.vo"],
    "properties_file": "Properties/C12.v",
    "theorems": ["C12_replace_converges_export", "C12_replace_converges", "C12_replace_converges_import",
                 "C12_never_skipped", "C12_never_skipped_contrapositive", "C12_family_export_converges",
                 "C12_family_import_converges", "C12_family_replace_stores", "C12_family_init_converges",
                 "C12_family_down_replace_then_init", "C12_never_skipped_family"],
    "allowed_axioms": [],
    "harness": "c12",
    "modelrun": {"name": "c12", "extracted": ["aro_model"], "driver": aro_props.driver("c12")},
    "tiers": {"quick": {"cases": 2500}, "thorough": {"cases": 60000}},
    "search_cases": 10000,
    "rule": "four kinds of cases, 2:1:2:1 (K:E, K:I, K:F = the session's entry points fsmAddressFamily.replace{Import,Export}FilterChain incl. their skip test, driven through a verif hook with import and export chains drawn independently from a 5-chain pool, K:Q) - K:E a session's Adj-RIB-Out behind a real Loc-RIB, Loc-RIB changes interleaved "
            "with repeated export-chain replacements; K:I a real Adj-RIB-In (add-path RX) feeding a real Loc-RIB that also holds "
            "paths of another source, repeated import-chain replacements; K:Q pairs of chains for filter.Chain.Equal. Chains from "
            "the bounded language (exact-match route filters; LOCAL_PREF/MED/next-hop/prepend; accept/reject), half of the new "
            "chains differ from the old one in ONE place (an action's value, an action, a condition). Non-trivial = a "
            "replacement happened on a state that met the theorem's precondition (K:E), any replacement (K:I), a pair of "
            "different chains (K:Q); distinct = distinct inputs",
    "trusted_base": [
        "extraction (ExtrOcamlBasic only) + ocaml/common/conv.ml + ocaml/aro/aro_common.ml + ocaml/c12/c12_run.ml",
        "Go harness harness/cmd/c12 + harness/aro; oracle = the property text: a second, freshly built session with the new "
        "policy fed the same history (import side) / the export view under the new policy computed path by path (export side)",
        "hook protocols/bgp/server/verif_hooks_c12.go (an fsmAddressFamily with real Adj-RIB-In/Out around a Loc-RIB, no update "
        "sender): replaceImportFilterChain / replaceExportFilterChain are executed, skip test included",
    ],
    "assumptions": ["BGP-typed paths carry non-nil BGPPath/BGPPathA/ASPath/NextHop/Source",
                    "route filter patterns and next-hop addresses are deduplicated objects (Chain.Equal compares them by pointer)"],
}
