PROP = {
    "id": "C34",
    "coq_targets": ["Properties/C34.vo", "Extract/C34Extract.vo"],
    "properties_file": "Properties/C34.v",
    "theorems": ["C34_roundtrip", "C34_hidden_stays_hidden_refuted", "C34_hidden_stays_hidden_partial",
                 "C34_unnamed_reason_reported_visible", "C34_api_hidden_comes_back_hidden", "C34_visible_stays_visible",
                 "C34_history_independent", "C34_roundtrip_history"],
    "allowed_axioms": [],
    "harness": "c34",
    "modelrun": {"name": "c34", "extracted": ["c34_model"], "driver": "ocaml/c34/c34_run.ml"},
    "tiers": {"quick": {"cases": 6000}, "thorough": {"cases": 40000}},
    "search_cases": 12000,
    "rule": "a case is a sequence of conversions (ToProto, RouteFromProtoRoute with the case's dedup flag) made one after the other in the harness process: 4 of 5 cases one route, 1 of 5 a base route followed by one variant per attribute of the property (MED, LOCAL_PREF, ORIGIN, next hop, source, communities, large communities, CLUSTER_LIST, unknown attributes, AS_PATH, BGP identifier, ORIGINATOR_ID, eBGP, OTC, path id, post-policy, hidden reason, prefix, unchanged) differing from the base in exactly that attribute, dedup on in 70% of the sequences, off in 10%, mixed in 20%; every conversion is judged by the spec oracle and compared with the model whose cache state is threaded through the whole run; routes: routes with 0-3 paths (static / BGP), IPv4 and IPv6 prefixes, next hops and sources, every BGP field drawn from "
            "boundary values and random 32-bit values, every list attribute nil / empty / 1-4 elements, AS paths of 0-3 segments "
            "(sets, sequences, empty segments), 0-3 unknown attributes, hidden reasons 0-8 and 255, dedup on/off; 8% malformed routes "
            "(missing prefix / attribute block / next hop / source, foreign path or segment types) only for the model tie; "
            "a case is non-trivial when it is well-formed and a BGP path carries a non-empty CLUSTER_LIST, communities or unknown "
            "attributes or is hidden; distinct = distinct route texts",
    "trusted_base": [
        "extraction (ExtrOcamlBasic only) + ocaml/common/conv.ml + ocaml/c34/c34_run.ml (parser and printers of the trace notation)",
        "Go harness harness/cmd/c34 (generator, construction of route.Route through the public API, dump of the API message and "
        "of the returned route, field-by-field spec oracle)",
        "modelled, not verified: protobuf Go structs as records (no wire encoding involved: ToProto/RouteFromProtoRoute work on the "
        "in-memory messages); IP.Ptr()/Dedup()/the BGPPathA cache return equal values; IPv4 addresses built with net.IPv4 (higher half 0)",
    ],
    "assumptions": [
        "domain of the property: prefix present; every path is static with its next hop or BGP with attribute block, next hop and "
        "source; AS path segments are AS_SET or AS_SEQUENCE (the API has one bool for the type)",
        "nil and empty lists are the same attribute value",
    ],
}
