PROP = {
    "id": "C28",
    "coq_targets": ["Properties/C28.vo", "Extract/C28Extract.vo"],
    "properties_file": "Properties/C28.v",
    "theorems": ["C28_mirror_partial", "C28_mirror_refuted", "C28_mirror_hidden_refuted", "C28_nothing_remains", "C28_observers_follow", "C28_observers_disposed"],
    "allowed_axioms": [],
    "harness": "c28",
    "modelrun": {"name": "c28", "extracted": ["c28_model"], "driver": "ocaml/c27/c27_run.ml"},
    "tiers": {"quick": {"cases": 1200}, "thorough": {"cases": 40000}},
    "search_cases": 6000,
    "rule": "well-formed BMP histories of 5-25 actions over 3 peers (IPv4/IPv6 peer addresses, eBGP/iBGP, 2/4 octet AS, "
            "add-path per family, the same address in both VRFs) and 2 VRFs: initiation, peer up, route monitoring "
            "(pre/post policy, IPv4 and IPv6 unicast, announce/withdraw, path ids; attribute patterns: own AS / peer AS in AS_PATH, CLUSTER_LIST, ORIGINATOR_ID, OTC, well-known communities, odd next hops, empty AS_PATH), statistics, peer down, termination, loss "
            "of the connection and reconnect, observers registering on the VRFs' Loc-RIBs; configurations with "
            "IgnorePrePolicy / IgnorePostPolicy / IgnorePeerASNs; a case is non-trivial when routes are installed and later "
            "flushed by a peer down, a termination or a connection loss; distinct = distinct action sequences",
    "trusted_base": [
        "extraction (ExtrOcamlBasic only) + ocaml/common/conv.ml + ocaml/c27/c27_run.ml (shared C27/C28 driver)",
        "Go harness harness/cmd/c28 + harness/bmpx (generator, wire builders and reference parsers written from the RFCs, "
        "oracle that evaluates the property text from what the generator sent, recording observers) and the hook "
        "protocols/bgp/server/verif_hooks_bmp.go",
        "abstract BGP layer as in C27 (tabulated from the real code in the correspondence run); its per-NLRI behaviour "
        "is C20's subject: generated UPDATEs carry each prefix once (path identifiers may differ between the NLRIs of one UPDATE)",
        "modelled, not verified: routingtable.RoutingTable / route.Path identity (a path is identified by source address, "
        "prefix and path identifier), Loc-RIB clients with MaxPaths >= number of paths per prefix (the RIS server uses 100), "
        "single-threaded histories (serve processes one message at a time)",
    ],
    "assumptions": ["well-formed histories as defined by Spec/BMPMirrorSpec.v: wf", "no IgnorePeerASNs in the theorems (exercised by the harness)",
                    "theorem guard: announcements are not hidden by AdjRIBIn.validatePath on a BMP VRF (no eBGP path without AS_PATH, ORIGINATOR_ID != router id); the harness generates those too (known findings)"],
}
