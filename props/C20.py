PROP = {
    "id": "C20",
    "coq_targets": ["Properties/C20.vo", "Extract/C20Extract.vo"],
    "properties_file": "Properties/C20.v",
    "theorems": ["C20_per_nlri", "C20_per_nlri_session", "C20_announce_installs_one", "C20_withdraw_removes_one",
                 "C20_no_panic"],
    "allowed_axioms": [],
    "harness": "c20",
    "modelrun": {"name": "c20", "extracted": ["c20_model"], "driver": "ocaml/c20/c20_run.ml"},
    "tiers": {"quick": {"cases": 8000}, "thorough": {"cases": 200000}},
    "search_cases": 40000,
    "rule": "an IPv4 or IPv6 unicast address family (add-path RX on/off, iBGP/eBGP) processes 1-4 decoded UPDATE messages "
            "with 0-5 NLRI per field (withdrawn routes, NLRI, MP_REACH_NLRI, MP_UNREACH_NLRI; path identifiers from {0,1,7,9}; "
            "4 prefixes so that prefixes repeat inside a message), MP attributes for this or the other family / SAFI, "
            "MP_REACH_NLRI without NLRI, duplicated attributes, attribute order shuffled, a small stream of attribute values "
            "with the wrong Go type; a case is non-trivial when some field of some message carries NLRI with different "
            "path identifiers; distinct = distinct family + message sequences",
    "trusted_base": [
        "extraction (ExtrOcamlBasic only) + ocaml/common/conv.ml + ocaml/c20/c20_run.ml",
        "Go harness harness/cmd/c20 (generator, construction of packet.BGPUpdate values, observation of the Adj-RIB-In "
        "and Loc-RIB dumps, spec oracle keeping the expected per-(prefix, path id) table) and the hook "
        "protocols/bgp/server/verif_hooks_c20.go (builds the fsmAddressFamily with adjRIBInFactory, registers the Loc-RIB, "
        "calls processUpdate)",
        "modelled, not verified: the input is the decoded message (the codec is C16/C19); Go type assertions on attribute "
        "values are a per-attribute 'typed' flag with outcome Panic; the Adj-RIB-In below is Model/AdjRIBIn.v (C05/C06); "
        "attributes outside the model's path (ORIGIN, communities, aggregator, unknown attributes) are carried but not compared",
    ],
    "assumptions": ["the OTC attribute (35) is decoded as an unknown attribute by packet.decodePathAttrs, so a received OTC "
                    "value never reaches BGPPathA.OnlyToCustomer through processAttributes (feature gap outside C20's text)"],
}
