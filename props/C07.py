PROP = {
    "id": "C07",
    "coq_targets": ["Properties/C07.vo", "Properties/ServerWiring.vo", "Extract/C23Extract.vo"],
    "more_properties_files": ["Properties/ServerWiring.v"],
    "properties_file": "Properties/C07.v",
    "theorems": ["C07_withdraws_everything", "C07_refcounts_exact", "C07_every_exit_uninits",
                 "C07_reestablish_starts_empty", "C07_loop_detection_intact",
                 "Wiring_dispose_removes_everything", "Wiring_later_fsm_uses_current_chains",
                 "Wiring_default_cluster_id_is_router_id", "Wiring_all_families_disposed"],
    "allowed_axioms": [],
    "harness": "c07",
    "modelrun": {"name": "c07", "extracted": ["c23_model"], "driver": "ocaml/c23/c23_run.ml"},
    "tiers": {"quick": {"cases": 2500}, "thorough": {"cases": 60000}},
    "search_cases": 8000,
    "rule": "deterministic part first: ExitProduct for Established (routes installed, second established session) x connection {healthy, writes fail, peer closed} x 42 events x 4 configurations; then cases as for C23 (same generator, profile c07: IPv4 always configured, two sessions in half of the cases, "
            "80% mutated valid conversations with UPDATEs, frequent re-establishment); import policy accept / reject / "
            "rewrite (set local-pref 200); exits by NOTIFICATION, hold poll, keepalive timer on a broken connection, raw "
            "headers of all classes, undecodable bodies, unexpected OPEN, ManualStop/AutomaticStop/Cease; a case is "
            "non-trivial when a session whose Adj-RIB-In holds routes leaves Established; distinct = distinct inputs",
    "trusted_base": [
        "extraction (ExtrOcamlBasic only) + ocaml/common/conv.ml + ocaml/c23/c23_run.ml",
        "Go harness harness/fsmx + harness/cmd/c07 (generator, wire serialiser, oracle; observes LocRIB.Dump, "
        "LocRIB.ClientCount, VRF.IsContributingASN/ClusterID, the session's Adj-RIB-In through the hook)",
        "hook protocols/bgp/server/verif_hooks_fsm.go (see C23)",
        "modelled, not verified: the RIB pipeline below the FSM is abstracted to 'an accepted announcement of route r by "
        "session s puts (s, r) into the Loc-RIB, Unregister/dispose removes exactly the session's entries' - checked "
        "against the real adjRIBIn/locRIB on every run, proved about the real tables by C04/C05; the refcounter is read "
        "through IsContributing* only (presence, not the count)",
    ],
    "assumptions": [
        "all sessions of a case use the same local AS (a speaker has one) and route reflection only on iBGP sessions",
        "harness routes are eligible (AS path / originator / cluster list do not trigger loop detection)",
    ],
}
