import os, sys
sys.path.insert(0, os.path.dirname(os.path.abspath(__file__)))
import aro_props

PROP = {
    "id": "C09",
    "coq_targets": ["Properties/C09.vo", "Extract/AroExtract.vo"],
    "properties_file": "Properties/C09.v",
    "theorems": ["C09_never_no_advertise", "C09_never_no_export_to_ebgp", "C09_never_back_to_source",
                 "C09_never_ibgp_to_nonclient_ibgp", "C09_never_otc_to_provider_peer_rs", "C09_eligible_is_exported",
                 "C09_rewrites_ebgp", "C09_rewrites_rs_client_transparent", "C09_rewrites_rr_client",
                 "C09_rewrites_otc_added", "C09_rewrites_otc_kept", "C09_localpref_only_ibgp",
                 "C09_rewrites_otc_on_wire_refuted", "C09_role_matrix"],
    "allowed_axioms": [],
    "harness": "c09",
    "modelrun": {"name": "c09", "extracted": ["aro_model"], "driver": aro_props.driver("c09")},
    "tiers": {"quick": {"cases": 4000}, "thorough": {"cases": 120000}},
    "search_cases": 20000,
    "rule": "every case = one session (kind x peer role x add-path) + export chain + 2-34 paths, each added to a fresh "
            "Adj-RIB-Out; the stored path and the serialized attributes are observed. The full matrix "
            "{eBGP, RS client, iBGP, RR client} x {no role, provider, RS, RS client, customer, peer} x {best, add-path} is "
            "swept against a 34-path pool ({iBGP,eBGP learned} x {OTC 0/set} x {no, plain, NO_EXPORT, NO_ADVERTISE community} "
            "x {other source, own source} + 2 static) on every run; generated cases add random attributes and policies. "
            "Non-trivial = at least one path was exported; distinct = distinct inputs",
    "trusted_base": [
        "extraction (ExtrOcamlBasic only) + ocaml/common/conv.ml + ocaml/aro/aro_common.ml + ocaml/c09/c09_run.ml",
        "Go harness harness/cmd/c09 + harness/aro (generators, spec oracle, 60-line TLV reader for the serialized attributes)",
        "modelled, not verified: attribute flags/length octets (codec, C16/C17); PathAttributes is called with the session's "
        "iBGP / RR-client flags as the update sender does",
    ],
    "assumptions": ["BGP-typed paths carry non-nil BGPPath/BGPPathA/ASPath/NextHop/Source", "IPv4 unicast (NEXT_HOP attribute, no MP_REACH)"],
}
