PROP = {
    "id": "C10",
    "coq_targets": ["Properties/C10.vo", "Extract/C10Extract.vo"],
    "properties_file": "Properties/C10.v",
    "theorems": ["C10_converges_partial", "C10_converges_refuted"],
    "allowed_axioms": [],
    "harness": "c10",
    "modelrun": {"name": "c10", "extracted": ["c10_model"], "driver": "ocaml/c10/c10_run.ml"},
    "tiers": {"quick": {"cases": 700}, "thorough": {"cases": 20000}},
    "search_cases": 3000,
    "search_rounds": 2,
    "rule": "histories of 3-14 scheduled ops (route changes through a real adjRIBOut.AdjRIBOut or directly per its client "
            "protocol, optionally with sender steps between the withdraw and the announcement of one replacement; "
            "Dequeue of a chosen pending key; EmitOne; EndOfRIB; a bulk change of 900-2300 prefixes that makes multi-message "
            "batches) over 2-4 prefixes and 3-4 paths (two differ in ATOMIC_AGGREGATE only), then a drain that flushes the "
            "pending keys in every order when there are <= 3 of them; every fourth history runs the REAL sender goroutine (UpdateSender.Start) against a connection whose Write blocks until released, route changes are made while it is blocked; session kinds IPv4/IPv4-MP/IPv6-MP x add-path x "
            "iBGP/eBGP x RR client; a case is non-trivial when a withdrawal met an announcement of the same prefix/path id "
            "that was still queued or in flight, or (real goroutine) a route change was made while the goroutine was blocked in a Write; distinct = distinct inputs",
    "trusted_base": [
        "extraction (ExtrOcamlBasic only) + ocaml/common/conv.ml + ocaml/c10/c10_run.ml",
        "Go harness harness/cmd/c10 + harness/usx (controlled scheduler, capture writer in place of the connection, "
        "reference UPDATE decoder written from RFC 4271/4760/7911, replay into the peer's view, spec oracle against "
        "AdjRIBOut.Dump) and the hook protocols/bgp/server/verif_hooks_c10.go: Dequeue/EmitOne repeat the two halves of one "
        "iteration of the loop in sender() (the goroutine itself is not started); the key an iteration visits is chosen "
        "by the harness, the order EndOfRIB's _flush visits the entries in is observed from the wire; the real loop of sender() is covered by the real-goroutine stream (harness/usx/real.go: gated connection, Start/Stop through the hook)",
        "modelled, not verified: sync.Mutex as mutual exclusion, one Write per UPDATE as atomic, Go map iteration order as "
        "an arbitrary input, sha256 as identity on the hashed tuple, TCP as a reliable ordered byte pipe",
    ],
    "assumptions": ["client protocol of the Adj-RIB-Out: a path is added at a vacant (prefix, path id) or re-added with the "
                    "same attributes (adjRIBOut.addPath withdraws the old path first on best-only sessions)",
                    "every queued prefix fits into an UPDATE next to its attributes (C18)"],
}
