PROP = {
    "id": "C22",
    "coq_targets": ["Properties/C22.vo", "Extract/C23Extract.vo"],
    "properties_file": "Properties/C22.v",
    "theorems": ["C22_admits_only_valid", "C22_only_valid_opens_reach_openconfirm",
                 "C22_established_only_from_openconfirm", "C22_negotiates", "C22_role_matrix"],
    "allowed_axioms": [],
    "harness": "c22",
    "modelrun": {"name": "c22", "extracted": ["c23_model"], "driver": "ocaml/c23/c23_run.ml"},
    "tiers": {"quick": {"cases": 2500}, "thorough": {"cases": 60000}},
    "search_cases": 8000,
    "rule": "deterministic: 6 local roles x strict x 10 peer role lists, 3 configured x 10 offered hold times; generated "
            "(75%): one session, configuration from {iBGP/eBGP, local AS 65001/200000, peer AS 65002/65003/300000, hold "
            "0/3/4/5/30/90/65535, families, add-path recv/send per family, IPv4 MP, roles x strict, RR}, 1-3 connections "
            "over the same FSM each with an OPEN = a well-configured neighbour's OPEN with hold from {0..5,90,65535} and 0-2 "
            "mutations (version, identifier 0/ours, hold, 2-octet AS, 4-octet AS capability wrong/missing/duplicated, role "
            "lists, extra add-path/multiprotocol tuples incl. foreign AFI/SAFI, no capabilities, reordering) followed by "
            "KEEPALIVE/UPDATE/hold poll; (25%) cases as for C23; non-trivial = an OPEN is processed in OpenSent",
    "trusted_base": [
        "extraction (ExtrOcamlBasic only) + ocaml/common/conv.ml + ocaml/c23/c23_run.ml",
        "Go harness harness/fsmx + harness/cmd/c22 (generator, OPEN serialiser, reference parser of the OPEN the speaker "
        "sends, oracle openClauses/expectedNeg/expectedSentOpen written from the property text)",
        "hook protocols/bgp/server/verif_hooks_fsm.go (see C23); negotiated options are read from FSM.holdTime, "
        "keepaliveTime, keepaliveTimer != nil, supports4OctetASN, fsmAddressFamily.addPathRX/addPathTX/multiProtocol, "
        "peer.peerRoleAdvByPeer/peerRoleRemote",
        "modelled, not verified: decoding of the OPEN's optional parameters (well-formed OPENs decode to the capability "
        "list that was sent: codec properties); 'subsequent UPDATE encoding' is observed only through the options the "
        "update sender and decoder read",
    ],
    "assumptions": ["one FSM per peer (no collision handling between receiving the OPEN and answering it)",
                    "extended next hop capability not configured"],
}
