PROP = {
    "id": "C15",
    "coq_targets": ["Properties/C15.vo", "Extract/C15Extract.vo"],
    "properties_file": "Properties/C15.v",
    "theorems": [
        "C15_contains", "C15_equal", "C15_valid", "C15_valid_iff_base", "C15_baseaddr", "C15_bitat",
        "C15_compare", "C15_masklast", "C15_bytesinaddr",
        "C15_supernet_trie", "C15_trie_precondition", "C15_supernet4", "C15_supernet6",
        "C15_supernet4_len0_wraps", "C15_supernet6_at128", "C15_supernet_total4", "C15_supernet_total6",
        "C15_parse_format4", "C15_parse_format6_partial", "C15_parse_format6_v4mapped",
        "C15_parse_format6_refuted", "C15_parse_format_pfx", "C15_string_total",
        "C15_generated_model_agrees", "C15_contains_gen", "C15_supernet_trie_gen",
    ],
    "allowed_axioms": [],
    # translator: regenerates coq/Gen/NetGen.v from $VERIF_REPO/net on every run (written only when changed)
    "gen": [{"name": "gosub2coq", "cmd": ["python3", "tools/gosub2coq/run.py"], "timeout": 600}],
    "harness": "c15",
    "modelrun": {"name": "c15", "extracted": ["c15_model"], "driver": "ocaml/c15/c15_run.ml"},
    "tiers": {"quick": {"cases": 6000}, "thorough": {"cases": 250000}},
    "search_cases": 40000,
    "rule": "pp: every (len_p, len_x) pair of both families x address pairs that differ in exactly one chosen bit "
            "(at, just below, just above the shorter length, at word boundaries, random), canonicalised or raw, plus random "
            "and boundary words and mixed families; a pp case is non-trivial when the common prefix of the two addresses "
            "ends within one bit of the shorter length or of a 32/64/96 boundary, or the families differ; ab: every "
            "position/mask count 0..255; tx: String/parse round trip (all non-trivial); ps: alternative and malformed "
            "spellings (non-trivial when one parser accepts); by/bl/cl: byte-slice conversion, BytesInAddr, checkLastNBits",
    "trusted_base": [
        "tools/gosub2coq (go/packages, go/types): the translation of the listed functions of net/prefix.go, net/ip.go and "
        "util/math into coq/Gen/NetGen.v (subset and conventions in the header of tools/gosub2coq/main.go; non-nil pointer "
        "arguments assumed; loops as fixpoints with fuel 34 / 257); cross-checked on every run: the generated definitions "
        "are extracted and compared with the Go code like the hand-written model",
        "extraction (ExtrOcamlBasic only) + ocaml/common/conv.ml + ocaml/c15/c15_run.ml",
        "Go harness harness/cmd/c15 (generator, math/big bit-list spec oracle) and /repo/net/verif_hooks_c15.go "
        "(thin wrappers of unexported helpers)",
        "modelled, not verified: Go's net.ParseIP (netip.parseIPv4Fields / parseIPv6 without zones and without the "
        "embedded dotted-quad tail), net.IP.To4, strconv.Atoi, strings.Split, fmt %d, float64 Ceil on k/8 (k<256)",
    ],
    "assumptions": [
        "addresses are well formed (an IPv4 address lives in the low 32 bits, as every constructor of package net produces)",
        "net.ParseIP behaves as the transcription in Model/IPText.v on the text that String() emits "
        "(checked on every run against the real parser, not proved)",
    ],
}
