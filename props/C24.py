PROP = {
    "id": "C24",
    "coq_targets": ["Properties/C24.vo", "Extract/C24Extract.vo"],
    "properties_file": "Properties/C24.v",
    "theorems": ["C24_at_most_one_partial", "C24_at_most_one_refuted", "C24_cease_race_refuted",
                 "C24_survivor_is_rfc_choice_partial", "C24_loser_sent_cease_partial", "C24_only_one_ever_partial",
                 "C24_refines_rfc_partial", "C24_rfc_at_most_one", "C24_should_cease_is_rfc_comparison"],
    "allowed_axioms": [],
    "harness": "c24",
    "modelrun": {"name": "c24", "extracted": ["c24_model"], "driver": "ocaml/c24/c24_run.ml"},
    "tiers": {"quick": {"cases": 3500}, "thorough": {"cases": 40000}},
    "search_cases": 6000,
    "search_rounds": 1,
    "rule": "schedules of the steps U(p) A(ccept) O(pen received) P(ublish) K(eepalive received) T(ake Cease) H(andle Cease) of "
            "two FSMs of one peer: ALL sequences of enabled steps with at most 1 (quick) / 2 (thorough) KEEPALIVEs per "
            "connection, for 11 identifier configurations (local < / > remote, equal identifiers with both AS orderings, "
            "iBGP, iBGP announcing our identifier, different identifiers on the two connections, adjacent values; values "
            "drawn from the seed), plus random walks of up to 24 steps (60% of them restricted to serialised schedules); a case is non-trivial when both connections got "
            "their OPEN processed; distinct = distinct inputs",
    "trusted_base": [
        "extraction (ExtrOcamlBasic only) + ocaml/common/conv.ml + ocaml/c24/c24_run.ml (rendering of the model state "
        "in the harness's token format, enabled steps = labels on which the extracted step is defined)",
        "Go harness harness/cmd/c24 (enumeration of schedules from the enabled sets the implementation reports, hand-built "
        "OPEN/KEEPALIVE/UPDATE frames, reference machine of RFC 4271 6.8 + RFC 6286 with atomic message processing as spec oracle, "
        "Loc-RIB client count and a probe UPDATE per Established session as 'contributes routes')",
        "hook protocols/bgp/server/verif_hooks_c24.go: runs the real state handlers (run() of idle/connect/active/openSent/"
        "openConfirm/established) in goroutines under a single-threaded scheduler; a state's run() is executed only while an "
        "event is delivered (Established's is started at publication for its attaching prologue); the send in FSM.cease() is "
        "received by the scheduler and forwarded at CeaseTake, the caller is held at a write gate of the in-memory connection "
        "before its KEEPALIVE (stands for 'blocked in cease()'), the target at the gate before its NOTIFICATION",
        "modelled, not verified: a handler between its select and its return as one atomic step (it touches only its own FSM "
        "besides the published state of the other one read under fsmsMu/stateMu); Up/Accept include the publication of OpenSent; "
        "writes on the connections succeed; hold and keepalive timers do not fire; exactly two FSMs per peer (an FSM that ended "
        "stays in peer.fsms with its last published state: a third connection is out of scope, see notes/C24.md)",
    ],
    "assumptions": ["the peer's OPEN carries the configured peer AS and an acceptable hold time",
                    "at most two connections per peer during the collision"],
}
