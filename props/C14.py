PROP = {
    "id": "C14",
    "coq_targets": ["Properties/C14.vo", "Extract/C14Extract.vo"],
    "properties_file": "Properties/C14.v",
    "theorems": ["C14_process_ref", "C14_no_panic", "C14_equal_sound", "C14_equal_exact", "C14_matchers_on_bits",
                 "C14_net_link", "C14_process_ref_on_generated_net",
                 "C14_config_chain_semantics", "C14_config_chain_ref"],
    "allowed_axioms": [],
    # translator (shared with C15): regenerates coq/Gen/NetGen.v from $VERIF_REPO/net on every run (written only when
    # changed); Proofs/PolicyNetLink.v proves the matchers of the policy model equal to the generated
    # Prefix.Equal / Prefix.Contains, so a source change of those functions breaks a C14 obligation
    "gen": [{"name": "gosub2coq", "cmd": ["python3", "tools/gosub2coq/run.py"], "timeout": 600}],
    "harness": "c14",
    "modelrun": {"name": "c14", "extracted": ["c14_model"], "driver": "ocaml/c14/c14_run.ml"},
    "tiers": {"quick": {"cases": 3200}, "thorough": {"cases": 60000}},
    "search_cases": 12000,
    "rule": "a case = pool of 2-5 pattern pointers, a chain C (0-3 filters x 0-3 terms x 0-2 conditions with prefix lists / "
            "route filters exact|orlonger|longer|range / community / large-community / protocol parts x 0-3 actions), a chain D "
            "(identical rebuild, one-leaf mutant, or random) and 4-8 (prefix, path) inputs aimed at the chains' leaves "
            "(both families, lengths around matcher and 32/64/96-bit boundaries, flipped bits inside/just outside the pattern, "
            "cross-family twins; BGP/static/other paths, nil BGP part, nil/empty communities and AS paths, full segments); "
            "every fourth case is a CONFIG case: 1-4 policy statements x 0-3 terms (0-3 route filters, then-block with "
            "reject/local_pref/med/as_path_prepend/next_hop/accept), group and neighbor import/export lists (inheritance, "
            "duplicate names, rarely undefined names / unparsable prefix, matcher, next hop), rendered as YAML, loaded with "
            "config.GetConfig, the neighbor's import and export chains observed like C and D; "
            "a case is non-trivial when for some input a term WITH conditions applies and some input is rewritten or terminated; "
            "distinct = distinct case inputs",
    "trusted_base": [
        "extraction (ExtrOcamlBasic only) + ocaml/common/conv.ml + ocaml/c14/c14_run.ml (parser of the case encoding, rendering)",
        "Go harness harness/cmd/c14 (generator, construction through filter.New*/actions.New* and the verif hook "
        "routingtable/filter/verif_hooks_c14.go for community filters, observation, independent reference interpreter ref.go)",
        "tools/gosub2coq (C15's translator) for Gen/NetGen.v; YAML rendering of the configuration in harness/cmd/c14/cfg.go and "
        "gopkg.in/yaml.v3; the parse results of prefix / matcher / address strings are inputs of the config model "
        "(crf_ok, crf_m, th_nh), net.PrefixFromString / IPFromString themselves belong to C15",
        "modelled, not verified: route.Path.Copy is deep for every part an action writes (checked on every case: input unchanged, "
        "result shares no object with the input); net.IP.Dedup is canonical (pointer equality of next hops = value equality); "
        "net.Prefix.Equal/Contains as transcribed in Model/Policy.v (tied by the correspondence run, proved equal to the bit-level "
        "definitions in Proofs/PolicyBits.v)",
    ],
    "assumptions": [
        "prefixes and patterns are valid (length within the family's width, no host bits: BGP NLRI are checked by the decoder; "
        "config patterns are not validated by the loader)",
        "a non-nil BGPPath has a non-nil BGPPathA (every constructor in the code base sets it)",
        "the path pointer passed to Chain.Process is not nil",
    ],
}
