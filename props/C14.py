PROP = {
    "id": "C14",
    "coq_targets": ["Properties/C14.vo", "Extract/C14Extract.vo"],
    "properties_file": "Properties/C14.v",
    "theorems": ["C14_process_ref", "C14_no_panic", "C14_equal_sound", "C14_equal_exact", "C14_matchers_on_bits"],
    "allowed_axioms": [],
    "harness": "c14",
    "modelrun": {"name": "c14", "extracted": ["c14_model"], "driver": "ocaml/c14/c14_run.ml"},
    "tiers": {"quick": {"cases": 4000}, "thorough": {"cases": 60000}},
    "search_cases": 12000,
    "rule": "a case = pool of 2-5 pattern pointers, a chain C (0-3 filters x 0-3 terms x 0-2 conditions with prefix lists / "
            "route filters exact|orlonger|longer|range / community / large-community / protocol parts x 0-3 actions), a chain D "
            "(identical rebuild, one-leaf mutant, or random) and 4-8 (prefix, path) inputs aimed at the chains' leaves "
            "(both families, lengths around matcher and 32/64/96-bit boundaries, flipped bits inside/just outside the pattern, "
            "cross-family twins; BGP/static/other paths, nil BGP part, nil/empty communities and AS paths, full segments); "
            "a case is non-trivial when for some input a term WITH conditions applies and some input is rewritten or terminated; "
            "distinct = distinct case inputs",
    "trusted_base": [
        "extraction (ExtrOcamlBasic only) + ocaml/common/conv.ml + ocaml/c14/c14_run.ml (parser of the case encoding, rendering)",
        "Go harness harness/cmd/c14 (generator, construction through filter.New*/actions.New* and the verif hook "
        "routingtable/filter/verif_hooks_c14.go for community filters, observation, independent reference interpreter ref.go)",
        "modelled, not verified: route.Path.Copy is deep for every part an action writes (checked on every case: input unchanged, "
        "result shares no object with the input); net.IP.Dedup is canonical (pointer equality of next hops = value equality); "
        "net.Prefix.Equal/Contains as transcribed in Model/Policy.v (tied by the correspondence run, proved equal to the bit-level "
        "definitions in Proofs/PolicyBits.v)",
    ],
    "assumptions": [
        "prefixes and patterns are valid (length within the family's width, no host bits: BGP NLRI are checked by the decoder; "
        "config patterns are not validated by the loader)",
        "a non-nil BGPPath has a non-nil BGPPathA (every constructor in the code base sets it)",
        "the path pointer passed to Chain.Process is not nil",
    ],
}
