import os, sys
sys.path.insert(0, os.path.dirname(os.path.abspath(__file__)))
import aro_props

PROP = {
    "id": "C11",
    "coq_targets": ["Properties/C11.vo", "Extract/AroExtract.vo"],
    "properties_file": "Properties/C11.v",
    "theorems": ["C11_ids_unique", "C11_table_is_announced", "C11_withdraw_id", "C11_withdraw_is_of_requested_path",
                 "C11_no_spurious_exhaustion"],
    "allowed_axioms": [],
    "harness": "c11",
    "modelrun": {"name": "c11", "extracted": ["aro_model"], "driver": aro_props.driver("c11")},
    "tiers": {"quick": {"cases": 2500}, "thorough": {"cases": 60000}},
    "search_cases": 10000,
    "rule": "histories of 4-21 ops (Loc-RIB add/remove heard by the Adj-RIB-Out as a client, direct AddPath/RemovePath, "
            "export chain replacement, id cursor placed next to the uint32 wrap) over 3 prefixes on the four session kinds, "
            "85% add-path; paths drawn from colliding attribute pools or mutated in ONE attribute (OTC, unknown attribute, "
            "atomic aggregate, aggregator, nil/empty communities, AS path segmentation, ...). Non-trivial = add-path session in "
            "which an identifier is shared by two prefixes or released; distinct = distinct inputs",
    "trusted_base": [
        "extraction (ExtrOcamlBasic only) + ocaml/common/conv.ml + ocaml/aro/aro_common.ml + ocaml/c11/c11_run.ml",
        "Go harness harness/cmd/c11 + harness/aro (generators, value-level rendering of paths, recording clients, spec oracle); "
        "hook routingtable/adjRIBOut/verif_hooks_c11.go (set the id cursor, read the in-use counter)",
        "modelled, not verified: sha256 over the formatted attributes is injective (the hash is the tuple of exactly the attributes "
        "ComputeHash formats); Go maps; the uint64 reference count does not overflow",
    ],
    "assumptions": ["sha256 collision freedom", "BGP-typed paths carry non-nil BGPPath/BGPPathA/ASPath/NextHop/Source",
                    "AS path segments are AS_SET or AS_SEQUENCE", "IPv4 next hops and sources"],
}
