PROP = {
    "id": "C17",
    "coq_targets": ["Properties/C17.vo", "Extract/C17Extract.vo"],
    "properties_file": "Properties/C17.v",
    "theorems": [],
    "allowed_axioms": [],
    "harness": "c17",
    "modelrun": {"name": "c17", "extracted": ["c17_model"], "driver": "ocaml/c17/c17_run.ml"},
    "tiers": {"quick": {"cases": 12000}, "thorough": {"cases": 200000}},
    "search_cases": 40000,
    "rule": "",
    "trusted_base": [],
    "assumptions": [],
}
