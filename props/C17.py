PROP = {
    "id": "C17",
    "coq_targets": ["Properties/C17.vo", "Extract/C17Extract.vo"],
    "properties_file": "Properties/C17.v",
    "theorems": ["C17_update_size", "C17_update_roundtrip", "C17_attr_roundtrip", "C17_open_roundtrip",
                 "C17_notification_roundtrip", "C17_keepalive_roundtrip",
                 "C17_roundtrip_refuted_asn_truncated", "C17_roundtrip_refuted_long_segment"],
    "allowed_axioms": [],
    "harness": "c17",
    "modelrun": {"name": "c17", "extracted": ["c17_model"], "driver": "ocaml/c17/c17_run.ml"},
    "tiers": {"quick": {"cases": 10000}, "thorough": {"cases": 100000}},
    "search_cases": 40000,
    "rule": "message structures built the way the update sender / FSM build them: packet.PathAttributes on generated "
            "paths (AS paths up to 600 ASNs per segment and several segments, empty segments, 4-byte ASNs, up to 300 "
            "communities, 22 large communities, 80 cluster IDs, unknown attributes up to 300 bytes with Optional/Partial "
            "flags), IPv4 NLRI field or MP_REACH/MP_UNREACH with IPv6 NLRI, up to 1200 prefixes (beyond one message), "
            "withdrawals, OPEN with the capabilities bio-rd announces, NOTIFICATIONs bio-rd sends, KEEPALIVE, x add-path "
            "x 2/4-byte ASN; a case is non-trivial when it touches a representability limit (segment > 255, ASN > 65535 "
            "on a 2-byte session, cluster list > 63, unknown attribute > 255 bytes, Partial flag) or the message is longer "
            "than 300 bytes; distinct = distinct (options, structure)",
    "trusted_base": [
        "extraction (ExtrOcamlBasic only) + ocaml/common/conv.ml + ocaml/c17/c17_run.ml (token parser for the structures)",
        "Go harness harness/cmd/c17 + harness/bgpx (generator, rendering/parsing of structures, round-trip oracle using packet.Decode)",
        "modelled, not verified: convert.Uint16Byte/Uint32Byte big-endian, bytes.Buffer writes",
    ],
    "assumptions": ["structures carry values of the Go types the serializers assert (as PathAttributes() builds them)"],
}
