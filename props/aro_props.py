"""Shared by props/C08.py, C09.py, C11.py, C12.py, C13.py: the OCaml drivers of the Adj-RIB-Out
properties share their token parsers (ocaml/aro/aro_common.ml); the driver file handed to vlib is the
concatenation common + property-specific part, regenerated whenever the plugin is loaded."""
import os

VERIF = os.path.dirname(os.path.dirname(os.path.abspath(__file__)))


def driver(name):
    """Write ocaml/_build/gen/<name>_run.ml and return its path relative to /verif."""
    common = open(os.path.join(VERIF, "ocaml", "aro", "aro_common.ml")).read()
    spec = open(os.path.join(VERIF, "ocaml", name, name + "_run.ml")).read()
    rel = os.path.join("ocaml", "_build", "gen", name + "_run.ml")
    out = os.path.join(VERIF, rel)
    os.makedirs(os.path.dirname(out), exist_ok=True)
    content = common + "\n" + spec
    old = open(out).read() if os.path.exists(out) else None
    if old != content:
        tmp = out + ".tmp%d" % os.getpid()
        with open(tmp, "w") as f:
            f.write(content)
        os.replace(tmp, out)
    return rel
