PROP = {
    "id": "C16",
    "coq_targets": ["Properties/C16.vo", "Extract/C16Extract.vo"],
    "properties_file": "Properties/C16.v",
    "theorems": ["C16_fuel_suffices", "C16_no_panic", "C16_alloc_bounded", "C16_total_bounded"],
    "allowed_axioms": [],
    "harness": "c16",
    "modelrun": {"name": "c16", "extracted": ["c16_model"], "driver": "ocaml/c16/c16_run.ml"},
    "tiers": {"quick": {"cases": 24000}, "thorough": {"cases": 250000}},
    "search_cases": 60000,
    "rule": "byte strings from a BGP message grammar (OPEN with capabilities, UPDATE with every attribute type, "
            "MP_REACH/MP_UNREACH, add-path, labels, NOTIFICATION, KEEPALIVE), mutated length fields / prefix lengths / "
            "flags, truncations, trailing bytes, the repo's fuzz corpus and raw random bytes, each with one of the 16 "
            "option combinations; a case is non-trivial when its first 19 bytes are a valid BGP header and a body "
            "follows (so the body decoders run); distinct = distinct (options, bytes)",
    "trusted_base": [
        "extraction (ExtrOcamlBasic only) + ocaml/common/conv.ml + ocaml/c16/c16_run.ml",
        "Go harness harness/cmd/c16 + harness/bgpx (generator, canonical rendering of the decoded structures, panic guard, watchdog)",
        "modelled, not verified: bytes.Buffer.Read/ReadByte, encoding/binary.Read, net.IP.To4 (documented semantics, checked by the correspondence); "
        "the allocation count covers make() calls sized by a length/count field of the message, not constant-size objects",
    ],
    "assumptions": ["Go runtime: append/struct allocations are O(1) per loop iteration"],
}
