PROP = {
    "id": "C33",
    "coq_targets": ["Properties/C33.vo", "Extract/C33Extract.vo"],
    "properties_file": "Properties/C33.v",
    "theorems": ["C33_no_panic", "C33_hellos_after_up", "C33_quiet_otherwise", "C33_hello_output",
                 "C33_sender_lock_under_update_blocks", "C33_stays_subscribed", "C33_unsubscribe_in_stop_loses_link_up"],
    "allowed_axioms": [],
    "harness": "c33",
    "modelrun": {"name": "c33", "extracted": ["c33_model"], "driver": "ocaml/c33/c33_run.ml"},
    "tiers": {"quick": {"cases": 400}, "thorough": {"cases": 6000}},
    "search_cases": 1500,
    "rule": "every run sweeps ALL up/down sequences of length <= 6 on one active and on one passive interface "
            "(2 x 127) and all sequences of length <= 4 (quick) / <= 6 (thorough) over {up,down} x {active if, passive if} "
            "on a server with both, all sequences of length <= 4 (thorough: 5) in which the hello ticker fires / a neighbor frame arrives WHILE an update is "
            "being processed (device double whose GetOperState callback runs under the interface lock), then random sequences (length <= 12, 20% of the events with such a concurrent tick/frame, all seven oper states, 1-2 interfaces of "
            "either kind); a case is non-trivial when some link comes back up after having been up and down; "
            "distinct = distinct inputs",
    "trusted_base": [
        "extraction (ExtrOcamlBasic only) + ocaml/common/conv.ml + ocaml/c33/c33_run.ml",
        "Go harness harness/cmd/c33 + harness/isisx (injected clock whose tickers fire only when told, recording "
        "ethernet handle/factory, synchronous device updater, quiescence detection from runtime.Stack, worker "
        "process isolation so that a panic on a server goroutine becomes an observation)",
        "hook protocols/isis/server/verif_hooks_isis.go (reads netIfa fields)",
        "modelled, not verified: goroutines as routines that leave when their exit condition holds (hello sender: "
        "done closed; receiver: done closed and handle closed); sync.WaitGroup.Wait blocks iff a routine cannot leave; "
        "the ethernet factory and the multicast join succeed; neighbors/LSDB content are outside this model",
    ],
    "assumptions": ["ethernet factory and multicast join succeed", "Level2 is configured on every interface (L1 is unsupported by the code)"],
}
