import os, sys
sys.path.insert(0, os.path.dirname(os.path.abspath(__file__)))
import aro_props

PROP = {
    "id": "C13",
    "coq_targets": ["Properties/C13.vo", "Extract/AroExtract.vo"],
    "properties_file": "Properties/C13.v",
    "theorems": ["C13_isolation", "C13_isolation_history", "C13_store_wellformed"],
    "allowed_axioms": [],
    "harness": "c13",
    "modelrun": {"name": "c13", "extracted": ["aro_model"], "driver": aro_props.driver("c13")},
    "tiers": {"quick": {"cases": 2500}, "thorough": {"cases": 50000}},
    "search_cases": 10000,
    "rule": "two sessions (any kinds, add-path or not, any export chains) on one Loc-RIB plus an Adj-RIB-In holding the same "
            "routes; 4-15 ops: new path object (70% deduplicated, i.e. sharing its BGPPathA block through the cache), "
            "withdrawal, export-chain replacement on A or B, re-advertisement of a Loc-RIB object on A or B. Around every op "
            "every path object and BGPPathA block reachable from any table is rendered deep and compared. Non-trivial = the "
            "case contains a purely export-side op (chain replacement / re-advertisement); distinct = distinct inputs",
    "trusted_base": [
        "extraction (ExtrOcamlBasic only) + ocaml/common/conv.ml + ocaml/aro/aro_common.ml + ocaml/c13/c13_run.ml",
        "Go harness harness/cmd/c13 + harness/aro (generators, spies recording object identities, deep snapshots, oracle)",
        "modelled, not verified: Go pointers as ids handed out in increasing order; bgpC as a content-keyed map; the filter "
        "chain's intermediate copies (Chain.Process copies once, value-modifying actions copy again) are collapsed into one copy",
    ],
    "assumptions": ["BGP-typed paths carry non-nil BGPPath/BGPPathA/ASPath/NextHop/Source",
                    "clients of the Adj-RIB-Out (update sender) do not write to the paths they are handed"],
}
