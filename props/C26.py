import os


def extra(ctx):
    """Race-detector stage: build harness/cmd/c26 with -race, run it (witnesses + seeded stress), parse the reports
    into SPEC-VIOLATION sig=race:<funcA>+<funcB> lines, and check the outcomes against the access table."""
    vlib = ctx["vlib"]
    lines, stats = [], {}
    ok, exe, log = vlib.build_harness("c26", race=True)
    if not ok:
        return {"lines": ["HARNESS-ERROR race harness does not build: " + log.strip()[-600:]], "stats": stats}
    n = {"quick": 14, "thorough": 210}[ctx["tier"]]
    outdir = os.path.join(ctx["outdir"], "race")
    prop = {"id": "C26"}
    rc, out, trace, hstats = vlib.run_harness_once(exe, prop, ctx["tier"], ctx["seed"], "check", n, outdir, timeout=3000)
    hl = out.split("\n")
    lines += [l for l in hl if l.startswith("SPEC-VIOLATION") or l.startswith("HARNESS-ERROR")]
    if rc != 0 and not lines:
        lines.append("HARNESS-ERROR race harness exit=%d %s" % (rc, out.strip()[-400:]))
    ncases, distinct, samples = vlib.trace_stats(trace)
    stats.update({"evaluations": ncases, "race_cases": ncases, "race_distinct": distinct,
                  "race_distribution": hstats.get("distribution", {}), "race_samples": samples})
    mexe = os.path.join(ctx["verif"], "ocaml", "_build", "c26", "run")
    if os.path.exists(mexe):
        rc, mout = vlib.run_modelrun(mexe, trace, extra=["corr-only"])
        for l in mout.split("\n"):
            if l.startswith("CORR-MISMATCH") or l.startswith("MODEL-ERROR"):
                lines.append(l)
            if l.startswith("STATS "):
                stats["race_model_stats"] = l
        if rc != 0:
            lines.append("MODEL-ERROR race correspondence exit=%d %s" % (rc, mout.strip()[-300:]))
    else:
        lines.append("MODEL-ERROR modelrun for C26 not built")
    return {"lines": lines, "stats": stats}


PROP = {
    "id": "C26",
    "coq_targets": ["Properties/C26.vo", "Extract/C25Extract.vo"],
    "properties_file": "Properties/C26.v",
    "theorems": ["C26_lockset_discipline_orders_conflicts", "C26_lockset_consistent", "C26_fields_classified",
                 "C26_guards_resolve", "C26_row_holds_guard", "C26_no_shared_path_insertions",
                 "C26_goroutines_joined_on_teardown", "C26_guarded_accesses_ordered_partial"],
    "allowed_axioms": [],
    "gen": [{"name": "locktab", "cmd": ["python3", "tools/locktab/run.py"], "timeout": 600}],
    "harness": "c26",
    "race_harness": True,
    "modelrun": {"name": "c26", "extracted": ["c25_model"], "driver": "ocaml/c26/c26_run.ml"},
    "tiers": {"quick": {"cases": 4}, "thorough": {"cases": 40}},
    "search_cases": 0,
    "search_rounds": 0,
    "extra": extra,
    "rule": "the race-detector stage (props/C26.py: extra) runs harness/cmd/c26 built with -race: one case = one child "
            "process, a fixed race witness (corpus/C26) or a seeded concurrent stress of table-respecting operations "
            "(route changes from several Adj-RIB-Ins and the Loc-RIB, client registration, import/export policy "
            "replacement in quiet phases, UPDATE processing on established sessions), GOMAXPROCS 1..16; the plain "
            "build run by the generic stage runs a few of the same stress cases for completion only (these are the "
            "cases counted here; every case is non-trivial); the race-detector counts are in coverage.extra_stage",
    "explanation": "PARTIAL by design (DESIGN.md 3.3/6/8): lock-set discipline over the access table regenerated from "
                   "the source on every run, for the mutex-guarded fields listed in Spec/LockSpec.v; goroutine-confined "
                   "session fields are not claimed; the race detector's happens-before is only sampled by the stress",
    "trusted_base": [
        "tools/locktab (go/packages, go/types, x/tools/go/cfg): that the access table lists every post-publication read "
        "and write of the shared fields with a lock set that is a subset of the locks really held is ASSUMED (rules A and X "
        "in the header of coq/Gen/LockModel.v: closed world for entry lock sets, syntactic escape rule, field granularity, "
        "&x.f counted as a read)",
        "modelled, not verified: the Go memory model as 'a mutex release happens before the next acquire of the same mutex'; "
        "sync.RWMutex read locks count for reads only; not modelled: sync/atomic, channels as synchronisation, "
        "goroutine confinement, sync.WaitGroup",
        "extraction (ExtrOcamlBasic) + ocaml/c26/c26_run.ml; Go harness harness/lockstress built with -race (GORACE log "
        "parsing, function-pair canonicalisation) and the verif hook protocols/bgp/server/verif_hooks_c25.go",
    ],
    "assumptions": ["extraction soundness of locktab (see trusted base)",
                    "fields listed in confined_fields (FSM session state) are outside the claim"],
}
