PROP = {
    "id": "C35",
    "coq_targets": ["Properties/C35.vo", "Extract/C35Extract.vo"],
    "properties_file": "Properties/C35.v",
    "theorems": ["C35_correct", "C35_no_panic", "C35_spt_pure", "C35_correct_sequence", "C35_reachable_minimal_unreachable_marked",
                 "C35_code_as_found_panics_iff_unreachable", "C35_path_check_sound"],
    "allowed_axioms": [],
    "harness": "c35",
    "modelrun": {"name": "c35", "extracted": ["c35_model"], "driver": "ocaml/c35/c35_run.ml"},
    "tiers": {"quick": {"cases": 12000}, "thorough": {"cases": 300000}},
    "search_cases": 60000,
    "rule": "a case = one Topology and a sequence of SPT calls on it (exhaustive graphs: every source in turn and the first again; random: 1-4 calls, sources may repeat), every call judged and compared; exhaustive: every digraph on <=3 nodes with weights 0..2 and every source (thorough: weights 0..3, "
            "3 nodes with self-loops and weights 0..1, all 3^12 digraphs on 4 nodes with weights 0..1); random: 4-24 nodes, "
            "weights 0..3 / 0..49 / multiples of 2^54..2^56, self-loops, duplicate nodes, duplicate edges (last wins); "
            "a case is non-trivial when some node other than the source is reachable and either some node is "
            "unreachable or some shortest path needs >= 2 edges; distinct = distinct (source, node list, edge list)",
    "trusted_base": [
        "extraction (ExtrOcamlBasic only) + ocaml/common/conv.ml + ocaml/c35/c35_run.ml (oracles: identity, reverse, two shuffles)",
        "Go harness harness/cmd/c35 (generator, observation of the returned SPT, Bellman-Ford spec oracle)",
        "modelled, not verified: Go maps as association lists with unique keys and an arbitrary-permutation iteration oracle; "
        "node names as numbers (dijkstra.Node{Name} compared with ==); int64 addition with wrap-around",
    ],
    "assumptions": [
        "domain of the property: the source is a listed node, every edge joins listed nodes, weights are >= 0 and "
        "|nodes| * max weight < 2^63 (no int64 overflow)",
        "which of several shortest paths is returned depends on Go's map order: edge lists of the implementation are "
        "checked with the verified path test and the tree condition, not compared literally with one model run",
    ],
}
