PROP = {
    "id": "C04",
    "coq_targets": ["Properties/C04.vo", "Extract/C04Extract.vo"],
    "properties_file": "Properties/C04.v",
    "theorems": ["C04_clients_hold_selection", "C04_clients_hold_selection_values",
                 "C04_silent_after_unregister", "C04_refresh_resends_selection"],
    "allowed_axioms": [],
    "harness": "c04",
    "modelrun": {"name": "c04", "extracted": ["c04_model"], "driver": "ocaml/c04/c04_run.ml"},
    "tiers": {"quick": {"cases": 8000}, "thorough": {"cases": 300000}},
    "search_cases": 20000,
    "rule": "histories of 10-60 operations (add/remove/replace path, register with BestOnly/EcmpOnly/MaxPaths 0..7, "
            "unregister, refresh) over <=3 prefixes and <=5 clients, paths ranked by LOCAL_PREF with equal-LOCAL_PREF "
            "ECMP candidates and frequent duplicates of the same value; a case is non-trivial when some registered client "
            "held two or more paths of one prefix, a removal callback was delivered and an initial dump carried a path; "
            "distinct = distinct op sequences",
    "trusted_base": [
        "extraction (ExtrOcamlBasic only) + ocaml/common/conv.ml + ocaml/c04/c04_run.ml (answers the model's "
        "path-selection parameter with the order/ECMP count the implementation reported, after checking it is a "
        "permutation of the model's stored paths with count <= length, the two hypotheses of the theorems)",
        "Go harness harness/cmd/c04 (generator, recording RouteTableClients, spec oracle on LocRIB.Get)",
        "modelled, not verified: the trie (routingtable.RoutingTable, C01) as a finite prefix map; Path.Select/ECMP "
        "(C02/C03) as an arbitrary permutation with an ECMP count; Go pointer identity of path objects as object ids, "
        "every AddPath/ReplacePath bringing a new object; sync.RWMutex as mutual exclusion (single-threaded histories)",
    ],
    "assumptions": ["callers never pass the same *route.Path object twice to AddPath/ReplacePath of one prefix "
                    "(AdjRIBIn creates a new object per announcement)",
                    "clients do not mutate the paths they are handed",
                    "PathSelection returns a permutation of the stored paths and an ECMP count <= their number"],
}
