PROP = {
    "id": "C29",
    "coq_targets": ["Properties/C29.vo", "Extract/C29Extract.vo"],
    "properties_file": "Properties/C29.v",
    "theorems": ["C29_present_iff_advertised", "C29_present_once", "C29_sources_exact",
                 "C29_presence_per_route_identity", "C29_client_events_map_consistently"],
    "allowed_axioms": [],
    "harness": "c29",
    "modelrun": {"name": "c29", "extracted": ["c29_model"], "driver": "ocaml/c29/c29_run.ml"},
    "tiers": {"quick": {"cases": 3000}, "thorough": {"cases": 150000}},
    "search_cases": 20000,
    "rule": "histories of 3-24 add/remove/drop ops over <=3 sources and 2-5 routes drawn from a pool of 16 (static IPv4/IPv6; six BGP routes "
            "for ONE prefix that differ in exactly one attribute best-path selection ignores - hash-distinct, Path.Equal; selection-distinct BGP "
            "routes for the same prefix; IPv6 BGP), 60% driven directly on MergedLocRIB, 40% through the real risclient service loops on scripted "
            "ObserveRIB streams (update / stream failure = source lost / reconnect); the observation counts for every pool route the Loc-RIB paths "
            "that are exactly (Path.Compare) its path; a case is non-trivial when it contains a repeated advertisement, an advertisement while a "
            "selection-equal other route of the prefix is installed, a withdrawal of a multi-source route, or a drop that removes something; "
            "distinct = distinct (driver, op sequence)",
    "trusted_base": [
        "extraction (ExtrOcamlBasic only; no Extract Constant/Inductive of our own) + ocaml/common/conv.ml + ocaml/c29/c29_run.ml",
        "Go harness harness/cmd/c29 (generator, scripted ObserveRIB streams + hook risclient/verif_hooks_c29.go exposing serviceLoop, "
        "observation of LocRIB.Get and Metrics, spec oracle)",
        "modelled, not verified: sha1(proto.Marshal(route)) is injective on the generated routes (hash = identity on route ids); "
        "the Loc-RIB below is the list of installed route ids; sync.RWMutex as mutual exclusion (single-threaded histories)",
    ],
    "assumptions": ["sha1 collision freedom", "each API route carries one path (as the RIS observer produces)"],
}
