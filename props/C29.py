PROP = {
    "id": "C29",
    "coq_targets": ["Properties/C29.vo", "Extract/C29Extract.vo"],
    "properties_file": "Properties/C29.v",
    "theorems": ["C29_present_iff_advertised", "C29_present_once", "C29_sources_exact"],
    "allowed_axioms": [],
    "harness": "c29",
    "modelrun": {"name": "c29", "extracted": ["c29_model"], "driver": "ocaml/c29/c29_run.ml"},
    "tiers": {"quick": {"cases": 3000}, "thorough": {"cases": 150000}},
    "search_cases": 20000,
    "rule": "histories of 3-24 add/remove/drop ops over <=3 sources and <=6 routes (pairs of routes share a prefix); "
            "a case is non-trivial when it contains a repeated advertisement, a withdrawal of a multi-source route, "
            "or a drop that removes something; distinct = distinct op sequences",
    "trusted_base": [
        "extraction (ExtrOcamlBasic only; no Extract Constant/Inductive of our own) + ocaml/common/conv.ml + ocaml/c29/c29_run.ml",
        "Go harness harness/cmd/c29 (generator, observation of LocRIB.Get and Metrics, spec oracle)",
        "modelled, not verified: sha1(proto.Marshal(route)) is injective on the generated routes (hash = identity on route ids); "
        "the Loc-RIB below is the list of installed route ids; sync.RWMutex as mutual exclusion (single-threaded histories)",
    ],
    "assumptions": ["sha1 collision freedom", "each API route carries one path (as the RIS observer produces)"],
}
