PROP = {
    "id": "C05",
    "coq_targets": ["Properties/C05.vo", "Extract/C05Extract.vo"],
    "properties_file": "Properties/C05.v",
    "theorems": ["C05_mirror", "C05_mirror_replace", "C05_announce_replaces", "C05_unregister_exact", "C05_flush_exact"],
    "allowed_axioms": [],
    "harness": "c05",
    "modelrun": {"name": "c05", "extracted": ["c05_model"], "driver": "ocaml/c05/c05_run.ml"},
    "tiers": {"quick": {"cases": 6000}, "thorough": {"cases": 200000}},
    "search_cases": 30000,
    "rule": "histories of 4-28 operations (announce / withdraw id / withdraw all / flush / register / unregister / "
            "ReplaceFilterChain / VRF ASN and cluster-id changes) on one Adj-RIB-In with two Loc-RIB clients, 4 prefixes, "
            "path ids 0-2, iBGP and eBGP, add-path RX on/off, peer-role matrix, import policies {accept, reject, reject odd "
            "prefixes, set LOCAL_PREF, set MED, prepend, set next hop, reject-odd+set LOCAL_PREF}; a case is non-trivial when "
            "some client received at least one RemovePath (a contributed path was withdrawn, replaced, flushed or "
            "unregistered); distinct = distinct configuration + operation sequences",
    "trusted_base": [
        "extraction (ExtrOcamlBasic only) + ocaml/common/conv.ml + ocaml/c05/c05_run.ml",
        "Go harness harness/adjribin + harness/cmd/c05 (generator, recording clients around real locRIB.LocRIB, "
        "observation of AdjRIBIn.Dump / LocRIB.Dump / delivered calls, spec oracle using a unique community tag per announcement)",
        "modelled, not verified: filter.Chain.Process is a deterministic function of (prefix, path value) that does not "
        "modify its argument (it copies on entry) - universally quantified in the theorems; the routing table of the "
        "Adj-RIB-In and of the Loc-RIB is a prefix map (C01) whose per-prefix removal drops the first path that "
        "Path.Compare-s equal; Path.Compare ignores OnlyToCustomer/HiddenReason, so Loc-RIB contents are stated up to those "
        "two fields (ekey); attributes constant on a session (Origin, Source, EBGP flag, communities) are not in the model; "
        "refcounter counts stay below 2^32; single-threaded histories (locking is C25/C26)",
    ],
    "assumptions": [
        "Register is not called for a client that is already registered (reg_once); ReplaceFilterChain only between "
        "policies that keep path identifiers (replace_ok; no filter action rewrites the identifier)",
        "one session per Loc-RIB in the model: isolation between sessions rests on Path.Compare comparing Source",
    ],
}
