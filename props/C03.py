PROP = {
    "id": "C03",
    "coq_targets": ["Properties/C03.vo", "Extract/C03Extract.vo"],
    "properties_file": "Properties/C03.v",
    "theorems": ["C03_bgp_select_is_rfc", "C03_select_is_rfc", "C03_higher_local_pref", "C03_shorter_as_path",
                 "C03_lower_origin", "C03_lower_med", "C03_ebgp_over_ibgp", "C03_lowest_identifier",
                 "C03_shorter_cluster_list", "C03_lowest_peer_address", "C03_other_ordering",
                 "C03_generated_select_agrees", "C03_select_is_rfc_gen"],
    "allowed_axioms": [],
    # translator: regenerates coq/Gen/SelectGen.v from $VERIF_REPO/route, net on every run (written only when changed)
    "gen": [{"name": "gosub2coq", "cmd": ["python3", "tools/gosub2coq/run.py", "route"], "timeout": 600}],
    "harness": "c03",
    "modelrun": {"name": "c03", "extracted": ["c03_model"], "driver": "ocaml/c02/c02_run.ml"},
    "tiers": {"quick": {"cases": 30000}, "thorough": {"cases": 600000}},
    "search_cases": 60000,
    "rule": "pairs of paths: every ordered pair of a 96-path domain varying the attributes read after the eBGP step "
            "(BGP identifier, ORIGINATOR_ID {0,a,b}, CLUSTER_LIST {absent, empty, [x], [x,y]}, peer address, next hop) and of a "
            "64-path domain varying LOCAL_PREF, AS_PATH length, ORIGIN, MED, eBGP, identifier; random pairs (a path and a "
            "1-3 attribute mutation of it, boundary values of the field widths, IPv4/IPv6 forms, static and malformed "
            "paths for the dispatch); Loc-RIB groups of 3-5 candidates in several insertion orders (best path). "
            "Non-trivial: the pair is still tied after the eBGP step (steps f, g decide) or mixes protocols; a group is "
            "non-trivial when it has equal-cost candidates or mixes CLUSTER_LIST presence / protocols; distinct = distinct inputs. Every generator also varies what the decision process must NOT read: AS_PATH contents at equal length (first ASN / leading AS_SET / nil, empty, segment-less AS_PATH), communities, large communities, unknown attributes, ATOMIC_AGGREGATE, AGGREGATOR, path id, OTC, BMPPostPolicy, LTime, HiddenReason, RedistributedFrom; C03 additionally sweeps every ordered pair of a 76-path domain MED x AS_PATH variant x eBGP x identifier x peer address",
    "trusted_base": [
        "tools/gosub2coq (profile route; go/packages, go/types): the translation of BGPPath.Select / ECMP / clusterListLen, "
        "StaticPath.Select / ECMP and IP.Compare into coq/Gen/SelectGen.v over the records of Model/PathSel.v (field map, "
        "subset and non-nil assumptions in tools/gosub2coq/main.go and the header of SelectGen.v); the dispatching "
        "Path.Select / Path.ECMP stay hand-modelled",
        "extraction (ExtrOcamlBasic only) + ocaml/common/conv.ml + ocaml/c02/c02_run.ml",
        "Go harness harness/pathsel + harness/cmd/c03 (path construction from descriptions, observation of "
        "Path.Select/ECMP/Compare/Equal and of LocRIB.Get after AddPath/RemovePath, RFC oracle written independently of Select)",
        "the reading of RFC 4271 9.1.2.2 / RFC 4456 9 written down as Spec/PathSelSpec.v: rfc_cmp_bgp (and again, independently, in the Go oracle)",
        "modelled, not verified: ASPathLen is ASPath.Length() (as the decoder sets it); attributes that only Compare reads "
        "(AS_PATH contents, communities, ...) are abstracted to one number",
    ],
    "assumptions": ["paths are well formed: Type static or BGP with the pointer of that protocol set (FIB paths are out of scope)",
                    "step e) (interior cost) is not implemented by bio-rd and not part of the property",
                    "beyond the RFCs the implementation breaks remaining ties by the higher next hop; between protocols the higher Type value (BGP over static) wins"],
}
