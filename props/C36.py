PROP = {
    "id": "C36",
    "coq_targets": ["Properties/C36.vo", "Extract/C36Extract.vo"],
    "properties_file": "Properties/C36.v",
    "theorems": ["C36_reload_converges_refuted", "C36_reload_converges_partial",
                 "C36_reload_same_session_set_partial", "C36_reload_takes_effect"],
    "allowed_axioms": [],
    "harness": "c36",
    "modelrun": {"name": "c36", "extracted": ["c36_model"], "driver": "ocaml/c36/c36_run.ml"},
    "tiers": {"quick": {"cases": 1000}, "thorough": {"cases": 40000}},
    "search_cases": 4000,
    "rule": "daemon lives of 2-3 configuration files (YAML rendered from a bounded grammar: 0-3 groups x 0-3 "
            "neighbors out of 5 addresses, group/neighbor settings incl. address families, add-path, TTL, "
            "policies, routing instances); later files are mutations of the previous one (78%) or unrelated; "
            "a case is non-trivial when a fresh start with the last file works and the last reload had to "
            "change the server's sessions; distinct = distinct token sequences",
    "trusted_base": [
        "extraction (ExtrOcamlBasic only) + ocaml/common/conv.ml + ocaml/c36/c36_run.ml (token parser, "
        "rendering of the model state in the format of the hook)",
        "Go harness harness/cmd/c36 (generator, YAML rendering, canonicalisation of policy contents, spec oracle)",
        "hooks cmd/bio-rd/verif_hooks_c36.go (replay mode of the real binary: config.GetConfig + loadConfig on the "
        "real bgpserver, peers added with ReconnectInterval 0 so sessions never connect) and "
        "protocols/bgp/server/verif_hooks_c36.go (dump of peer map, stored PeerConfig, derived peer settings, "
        "capabilities, chains of peer and FSMs; detection of FSMs outliving a disposed peer)",
        "modelled, not verified: VRF object identity = (name, route distinguisher); filter identity = content of "
        "the policy statement (filter.Chain.Equal compares contents); established sessions (Adj-RIB filter "
        "replacement) are not exercised - sessions never connect",
    ],
    "assumptions": ["the router id of the new file equals the one the daemon was started with (known finding otherwise)",
                    "every neighbor has a local address (AddPeer dereferences a nil local address - modelled as a crash)"],
}
