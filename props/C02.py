PROP = {
    "id": "C02",
    "coq_targets": ["Properties/C02.vo", "Extract/C02Extract.vo"],
    "properties_file": "Properties/C02.v",
    "theorems": ["C02_antisym", "C02_trans", "C02_total_preorder", "C02_tie_iff_key_eq", "C02_less_strict_weak_order",
                 "C02_order_independent", "C02_history_independent", "C02_history_state", "C02_ecmp_is_key",
                 "C02_ecmp_total", "C02_ecmp_set_exact", "C02_sort_hypothesis_satisfiable", "C02_every_history_runs",
                 "C02_total_preorder_gen"],
    "allowed_axioms": [],
    # translator: regenerates coq/Gen/SelectGen.v from $VERIF_REPO/route, net on every run (written only when changed)
    "gen": [{"name": "gosub2coq", "cmd": ["python3", "tools/gosub2coq/run.py", "route"], "timeout": 600}],
    "harness": "c02",
    "modelrun": {"name": "c02", "extracted": ["c02_model"], "driver": "ocaml/c02/c02_run.ml"},
    "tiers": {"quick": {"cases": 30000}, "thorough": {"cases": 300000}},
    "search_cases": 60000,
    "rule": "triples: every ordered triple over a domain of 26 (quick) / 50 (thorough) paths where CLUSTER_LIST presence "
            "{absent, empty, [x], [x,y]}, identifier, ORIGINATOR_ID and peer address collide, plus two static paths; random "
            "triples and pairs (mutations of one path, boundary values, static, malformed); groups: 3-5 candidates (+1 "
            "transient path) inserted into a real LocRIB in all k! orders (30 sampled orders for k=5) plus 6 histories with "
            "interleaved removals / duplicates / re-announcements, observed after every operation. Non-trivial: a triple in which "
            "at least two pairs are still tied after the eBGP step or that mixes protocols; a pair likewise; a group with "
            "equal-cost candidates or mixed CLUSTER_LIST presence / protocols; distinct = distinct inputs. Every generator also varies what the decision process must NOT read: AS_PATH contents at equal length (first ASN / leading AS_SET / nil, empty, segment-less AS_PATH), communities, large communities, unknown attributes, ATOMIC_AGGREGATE, AGGREGATOR, path id, OTC, BMPPostPolicy, LTime, HiddenReason, RedistributedFrom; C03 additionally sweeps every ordered pair of a 76-path domain MED x AS_PATH variant x eBGP x identifier x peer address",
    "trusted_base": [
        "tools/gosub2coq (profile route; go/packages, go/types): the translation of BGPPath.Select / ECMP / clusterListLen, "
        "StaticPath.Select / ECMP and IP.Compare into coq/Gen/SelectGen.v over the records of Model/PathSel.v (field map, "
        "subset and non-nil assumptions in tools/gosub2coq/main.go and the header of SelectGen.v); the dispatching "
        "Path.Select / Path.ECMP stay hand-modelled",
        "extraction (ExtrOcamlBasic only) + ocaml/common/conv.ml + ocaml/c02/c02_run.ml",
        "Go harness harness/pathsel + harness/cmd/c02 (path construction, observation of Select on triples and of "
        "LocRIB.Get(pfx).Paths()/ECMPPathCount/BestPath/ECMPPaths after every AddPath/RemovePath, oracle: antisymmetry, "
        "transitivity, ties only between indistinguishable paths, equal final candidates => equal key list / best / ECMP set)",
        "modelled, not verified: sort.Slice returns a permutation of its input in which no element is `less` than its "
        "predecessor (Spec/PathSelSpec.v: sort_admits; nothing else is assumed, in particular not stability); "
        "ASPathLen is ASPath.Length(); attributes only Compare reads are abstracted to one number",
    ],
    "assumptions": ["paths are well formed: Type static or BGP with the pointer of that protocol set (FIB paths are out of scope)",
                    "one prefix of one Loc-RIB, sequential AddPath/RemovePath (the Loc-RIB serialises them under its mutex)"],
}
