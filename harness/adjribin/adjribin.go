// Package adjribin: shared driver of the C05 / C06 harnesses.
// It runs histories against the real adjRIBIn.AdjRIBIn with real locRIB.LocRIB clients wrapped by a
// recorder, prints canonical observations after every operation and evaluates the two properties'
// own statements on the implementation (spec oracles, independent of the Coq model).
//
// Input tokens of a case:
//   cfg:<ibgp>,<addpath>,<rid>,<peerasn>,<deflp>,<roleon>,<roleadv>,<remote>,<local>,<polcode>,<polarg>
//   A<pfx>:<id>.<lp>.<med>.<nh>.<aspath>.<orig>.<clist>.<otc>   announce (lists '-'-separated, '_' = empty)
//   W<pfx>:<id>  withdraw path id    X<pfx>  RemovePath(pfx,nil)    F  flush
//   R<c> register client c   U<c> unregister   P<code>:<arg> ReplaceFilterChain
//   a<asn> / d<asn>  vrf.Add/RemoveContributingASN      c<id> / e<id>  Add/RemoveContributingClusterID
// Observation, one token per op:
//   T=<adj-rib-in>|n=<clientcount>|C0=<locrib 0>|E0=<calls to 0 during the op>|C1=...|E1=...
// path = id.lp.med.nh.aspath.orig.clist.otc.hid ; entries sorted.
package adjribin

import (
	"fmt"
	"sort"
	"strconv"
	"strings"

	bnet "github.com/bio-routing/bio-rd/net"
	"github.com/bio-routing/bio-rd/protocols/bgp/types"
	"github.com/bio-routing/bio-rd/route"
	"github.com/bio-routing/bio-rd/routingtable"
	"github.com/bio-routing/bio-rd/routingtable/adjRIBIn"
	"github.com/bio-routing/bio-rd/routingtable/filter"
	"github.com/bio-routing/bio-rd/routingtable/filter/actions"
	"github.com/bio-routing/bio-rd/routingtable/locRIB"
	"github.com/bio-routing/bio-rd/routingtable/vrf"

	"verifharness/hx"
)

const NPfx = 4
const NClients = 2
const LocalASN = 65000

// packet.PeerRoleRole* values
const (
	RoleProvider = 0
	RoleRS       = 1
	RoleRSClient = 2
	RoleCustomer = 3
	RolePeer     = 4
)

type Cfg struct {
	IBGP, AddPath    bool
	RID, PeerASN     uint32
	DefLP            uint32
	RoleOn, RoleAdv  bool
	Remote, Local    uint8
	PolCode, PolArg  uint32
}

type Attrs struct {
	ID, LP, MED, NH uint32
	ASP             []uint32
	Orig            uint32
	CL              []uint32
	OTC             uint32
}

type Op struct {
	Kind byte // A W X F R U P a d c e
	Pfx  int
	N    uint32 // id / client / asn / cid / policy code
	Arg  uint32 // policy arg
	At   Attrs
}

// ---------------------------------------------------------------- formatting / parsing

func b2i(b bool) int {
	if b {
		return 1
	}
	return 0
}

func fmtList(l []uint32) string {
	if len(l) == 0 {
		return "_"
	}
	s := make([]string, len(l))
	for i, v := range l {
		s[i] = strconv.FormatUint(uint64(v), 10)
	}
	return strings.Join(s, "-")
}

func parseList(s string) ([]uint32, error) {
	if s == "_" || s == "" {
		return nil, nil
	}
	var out []uint32
	for _, x := range strings.Split(s, "-") {
		v, err := strconv.ParseUint(x, 10, 32)
		if err != nil {
			return nil, err
		}
		out = append(out, uint32(v))
	}
	return out, nil
}

func (c Cfg) String() string {
	return fmt.Sprintf("cfg:%d,%d,%d,%d,%d,%d,%d,%d,%d,%d,%d", b2i(c.IBGP), b2i(c.AddPath), c.RID, c.PeerASN, c.DefLP,
		b2i(c.RoleOn), b2i(c.RoleAdv), c.Remote, c.Local, c.PolCode, c.PolArg)
}

func (a Attrs) String() string {
	return fmt.Sprintf("%d.%d.%d.%d.%s.%d.%s.%d", a.ID, a.LP, a.MED, a.NH, fmtList(a.ASP), a.Orig, fmtList(a.CL), a.OTC)
}

func (o Op) String() string {
	switch o.Kind {
	case 'A':
		return fmt.Sprintf("A%d:%s", o.Pfx, o.At)
	case 'W':
		return fmt.Sprintf("W%d:%d", o.Pfx, o.N)
	case 'X':
		return fmt.Sprintf("X%d", o.Pfx)
	case 'F':
		return "F"
	case 'P':
		return fmt.Sprintf("P%d:%d", o.N, o.Arg)
	default: // R U a d c e
		return fmt.Sprintf("%c%d", o.Kind, o.N)
	}
}

func FmtCase(c Cfg, ops []Op) string {
	s := []string{c.String()}
	for _, o := range ops {
		s = append(s, o.String())
	}
	return strings.Join(s, " ")
}

func u32(s string) (uint32, error) {
	v, err := strconv.ParseUint(s, 10, 32)
	return uint32(v), err
}

func ParseCase(in string) (Cfg, []Op, error) {
	var c Cfg
	var ops []Op
	toks := strings.Fields(in)
	if len(toks) == 0 || !strings.HasPrefix(toks[0], "cfg:") {
		return c, nil, fmt.Errorf("missing cfg token")
	}
	f := strings.Split(toks[0][4:], ",")
	if len(f) != 11 {
		return c, nil, fmt.Errorf("bad cfg token %q", toks[0])
	}
	var v [11]uint32
	for i := range f {
		x, err := u32(f[i])
		if err != nil {
			return c, nil, err
		}
		v[i] = x
	}
	c = Cfg{IBGP: v[0] == 1, AddPath: v[1] == 1, RID: v[2], PeerASN: v[3], DefLP: v[4], RoleOn: v[5] == 1, RoleAdv: v[6] == 1,
		Remote: uint8(v[7]), Local: uint8(v[8]), PolCode: v[9], PolArg: v[10]}
	for _, t := range toks[1:] {
		o := Op{Kind: t[0]}
		body := t[1:]
		var err error
		switch o.Kind {
		case 'A':
			pp := strings.SplitN(body, ":", 2)
			if len(pp) != 2 {
				return c, nil, fmt.Errorf("bad token %q", t)
			}
			o.Pfx, err = strconv.Atoi(pp[0])
			if err != nil {
				return c, nil, err
			}
			af := strings.Split(pp[1], ".")
			if len(af) != 8 {
				return c, nil, fmt.Errorf("bad attrs in %q", t)
			}
			a := Attrs{}
			if a.ID, err = u32(af[0]); err != nil {
				return c, nil, err
			}
			if a.LP, err = u32(af[1]); err != nil {
				return c, nil, err
			}
			if a.MED, err = u32(af[2]); err != nil {
				return c, nil, err
			}
			if a.NH, err = u32(af[3]); err != nil {
				return c, nil, err
			}
			if a.ASP, err = parseList(af[4]); err != nil {
				return c, nil, err
			}
			if a.Orig, err = u32(af[5]); err != nil {
				return c, nil, err
			}
			if a.CL, err = parseList(af[6]); err != nil {
				return c, nil, err
			}
			if a.OTC, err = u32(af[7]); err != nil {
				return c, nil, err
			}
			o.At = a
		case 'W', 'P':
			pp := strings.SplitN(body, ":", 2)
			if len(pp) != 2 {
				return c, nil, fmt.Errorf("bad token %q", t)
			}
			var x, y uint32
			if x, err = u32(pp[0]); err != nil {
				return c, nil, err
			}
			if y, err = u32(pp[1]); err != nil {
				return c, nil, err
			}
			if o.Kind == 'W' {
				o.Pfx, o.N = int(x), y
			} else {
				o.N, o.Arg = x, y
			}
		case 'X':
			o.Pfx, err = strconv.Atoi(body)
			if err != nil {
				return c, nil, err
			}
		case 'F':
		case 'R', 'U', 'a', 'd', 'c', 'e':
			if o.N, err = u32(body); err != nil {
				return c, nil, err
			}
		default:
			return c, nil, fmt.Errorf("unknown token %q", t)
		}
		if o.Pfx < 0 || o.Pfx >= NPfx || ((o.Kind == 'R' || o.Kind == 'U') && o.N >= NClients) {
			return c, nil, fmt.Errorf("out of range in %q", t)
		}
		ops = append(ops, o)
	}
	return c, ops, nil
}

// ---------------------------------------------------------------- building implementation objects

func Prefix(i int) *bnet.Prefix { return bnet.NewPfx(bnet.IPv4FromOctets(10, 0, byte(i), 0), 24).Ptr() }

func pfxIndex(p *bnet.Prefix) int { return int(p.Addr().Bytes()[2]) }

var peerIP = bnet.IPv4FromOctets(192, 0, 2, 1)

// AS_PATH segmentation is a function of the flat list: paths of three or more ASNs get a second segment.
func mkASPath(l []uint32) *types.ASPath {
	if len(l) == 0 {
		return &types.ASPath{}
	}
	if len(l) < 3 {
		return &types.ASPath{{Type: types.ASSequence, ASNs: append([]uint32{}, l...)}}
	}
	return &types.ASPath{
		{Type: types.ASSequence, ASNs: append([]uint32{}, l[:len(l)-1]...)},
		{Type: types.ASSequence, ASNs: []uint32{l[len(l)-1]}},
	}
}

func MkPath(c Cfg, a Attrs, tag uint32) *route.Path {
	asp := mkASPath(a.ASP)
	p := &route.Path{
		Type: route.BGPPathType,
		BGPPath: &route.BGPPath{
			PathIdentifier: a.ID,
			ASPath:         asp,
			ASPathLen:      asp.Length(),
			Communities:    &types.Communities{tag},
			BGPPathA: &route.BGPPathA{
				NextHop:        bnet.IPv4FromOctets(1, 1, 1, byte(a.NH)).Ptr(),
				Source:         peerIP.Ptr(),
				LocalPref:      a.LP,
				MED:            a.MED,
				OriginatorID:   a.Orig,
				OnlyToCustomer: a.OTC,
				EBGP:           !c.IBGP,
			},
		},
	}
	if len(a.CL) > 0 {
		cl := types.ClusterList(append([]uint32{}, a.CL...))
		p.BGPPath.ClusterList = &cl
	}
	return p
}

func pathTag(p *route.Path) (uint32, bool) {
	if p == nil || p.BGPPath == nil || p.BGPPath.Communities == nil || len(*p.BGPPath.Communities) != 1 {
		return 0, false
	}
	return (*p.BGPPath.Communities)[0], true
}

// canonical rendering of a path: id.lp.med.nh.aspath.orig.clist.otc.hid
func PathStr(p *route.Path) string {
	if p == nil || p.BGPPath == nil || p.BGPPath.BGPPathA == nil {
		return "nil"
	}
	b := p.BGPPath
	var asp []uint32
	if b.ASPath != nil {
		for _, seg := range *b.ASPath {
			asp = append(asp, seg.ASNs...)
		}
	}
	var cl []uint32
	if b.ClusterList != nil {
		cl = append(cl, *b.ClusterList...)
	}
	nh := uint32(0)
	if b.BGPPathA.NextHop != nil {
		nh = uint32(b.BGPPathA.NextHop.Bytes()[3])
	}
	return fmt.Sprintf("%d.%d.%d.%d.%s.%d.%s.%d.%d", b.PathIdentifier, b.BGPPathA.LocalPref, b.BGPPathA.MED, nh, fmtList(asp),
		b.BGPPathA.OriginatorID, fmtList(cl), b.BGPPathA.OnlyToCustomer, p.HiddenReason)
}

func oddPfxCondition() []*filter.TermCondition {
	var odd []*bnet.Prefix
	for i := 1; i < NPfx; i += 2 {
		odd = append(odd, Prefix(i))
	}
	return []*filter.TermCondition{filter.NewTermConditionWithPrefixLists(filter.NewPrefixList(odd...))}
}

// MkChain builds the filter chain for a policy code (see sample_policy in coq/Model/AdjRIBIn.v)
func MkChain(code, arg uint32) filter.Chain {
	acc := actions.NewAcceptAction()
	rejectOdd := filter.NewTerm("reject-odd", oddPfxCondition(), []actions.Action{actions.NewRejectAction()})
	one := func(terms ...*filter.Term) filter.Chain { return filter.Chain{filter.NewFilter("f", terms)} }
	switch code {
	case 0:
		return filter.NewAcceptAllFilterChain()
	case 1:
		return filter.NewDrainFilterChain()
	case 2:
		return one(rejectOdd, filter.NewTerm("accept", nil, []actions.Action{acc}))
	case 3:
		return one(filter.NewTerm("lp", nil, []actions.Action{actions.NewSetLocalPrefAction(arg), acc}))
	case 4:
		return one(filter.NewTerm("med", nil, []actions.Action{actions.NewSetMEDAction(arg), acc}))
	case 5:
		return one(filter.NewTerm("prepend", nil, []actions.Action{actions.NewASPathPrependAction(arg, 1), acc}))
	case 6:
		return one(filter.NewTerm("nh", nil, []actions.Action{actions.NewSetNextHopAction(bnet.IPv4FromOctets(1, 1, 1, byte(arg)).Ptr()), acc}))
	default:
		// two filters in the chain: the first one only rejects, the second one rewrites
		return filter.Chain{
			filter.NewFilter("f1", []*filter.Term{rejectOdd}),
			filter.NewFilter("f2", []*filter.Term{filter.NewTerm("lp", nil, []actions.Action{actions.NewSetLocalPrefAction(arg), acc})}),
		}
	}
}

// ---------------------------------------------------------------- recording client around a real Loc-RIB

type client struct {
	id     int
	rib    *locRIB.LocRIB
	events []string
	// paths handed over by AddPath / AddPathInitialDump / ReplacePath(new) during the current op
	delivered []*route.Path
}

func entry(pfx *bnet.Prefix, p *route.Path) string { return fmt.Sprintf("%d/%s", pfxIndex(pfx), PathStr(p)) }

func (c *client) AddPath(pfx *bnet.Prefix, p *route.Path) error {
	c.events = append(c.events, "+"+entry(pfx, p))
	c.delivered = append(c.delivered, p.Copy())
	return c.rib.AddPath(pfx, p)
}
func (c *client) AddPathInitialDump(pfx *bnet.Prefix, p *route.Path) error {
	c.events = append(c.events, "i"+entry(pfx, p))
	c.delivered = append(c.delivered, p.Copy())
	return c.rib.AddPathInitialDump(pfx, p)
}
func (c *client) EndOfRIB() {
	c.events = append(c.events, "e")
	c.rib.EndOfRIB()
}
func (c *client) RemovePath(pfx *bnet.Prefix, p *route.Path) bool {
	c.events = append(c.events, "-"+entry(pfx, p))
	return c.rib.RemovePath(pfx, p)
}
func (c *client) ReplacePath(pfx *bnet.Prefix, o *route.Path, n *route.Path) {
	c.events = append(c.events, "r"+entry(pfx, o)+">"+PathStr(n))
	c.delivered = append(c.delivered, n.Copy())
	c.rib.ReplacePath(pfx, o, n)
}
func (c *client) RefreshRoute(pfx *bnet.Prefix, ps []*route.Path) {
	c.events = append(c.events, "refresh")
}
func (c *client) Dispose() { c.events = append(c.events, "dispose") }

func sortedJoin(l []string) string {
	if len(l) == 0 {
		return "-"
	}
	s := append([]string{}, l...)
	sort.Strings(s)
	return strings.Join(s, ",")
}

func dumpStr(routes []*route.Route) string {
	var l []string
	for _, r := range routes {
		for _, p := range r.Paths() {
			l = append(l, entry(r.Prefix(), p))
		}
	}
	return sortedJoin(l)
}

// ---------------------------------------------------------------- the spec oracles' own bookkeeping

type annKey struct {
	pfx int
	id  uint32
}

type ann struct {
	tag      uint32
	pfx      int
	raw      Attrs
	eligible bool  // by the five clauses, evaluated when the announcement was received
	norm     Attrs // what the session stores for an eligible announcement (OTC stamped, default LOCAL_PREF)
	seq      int
}

type oracle struct {
	c        Cfg
	asns     map[uint32]int
	cids     map[uint32]int
	anns     map[annKey]*ann
	byTag    map[uint32]*ann
	polCode  uint32
	polArg   uint32
	reg      [NClients]bool
	nextTag  uint32
	nextSeq  int
}

func (o *oracle) key(pfx int, id uint32) annKey {
	if o.c.AddPath {
		return annKey{pfx, id}
	}
	return annKey{pfx, 0}
}

// the five clauses of C06 / the eligibility condition of C05, from the property text
func (o *oracle) ineligible(a Attrs) (bool, string) {
	for _, asn := range a.ASP {
		if o.asns[asn] > 0 {
			return true, "own-asn"
		}
	}
	if a.Orig == o.c.RID {
		return true, "originator"
	}
	for _, cid := range a.CL {
		if o.cids[cid] > 0 {
			return true, "cluster"
		}
	}
	if o.c.RoleOn && o.c.RoleAdv && a.OTC != 0 {
		if o.c.Remote == RoleCustomer || o.c.Remote == RoleRSClient {
			return true, "otc"
		}
		if o.c.Remote == RolePeer && a.OTC != o.c.PeerASN {
			return true, "otc"
		}
	}
	if !o.c.IBGP && len(a.ASP) == 0 {
		return true, "empty-aspath"
	}
	return false, ""
}

func (o *oracle) normalize(a Attrs) Attrs {
	n := a
	if o.c.RoleOn && o.c.RoleAdv && a.OTC == 0 && (o.c.Remote == RoleProvider || o.c.Remote == RolePeer || o.c.Remote == RoleRS) {
		n.OTC = o.c.PeerASN
	}
	if !o.c.IBGP && n.LP == 0 {
		n.LP = o.c.DefLP
	}
	return n
}

// expected contribution of the session under the current policy: tagged canonical entries
func (o *oracle) contribution() []string {
	chain := MkChain(o.polCode, o.polArg)
	var l []string
	for _, a := range o.anns {
		if !a.eligible {
			continue
		}
		p, reject := chain.Process(Prefix(a.pfx), MkPath(o.c, a.norm, a.tag))
		if reject {
			continue
		}
		l = append(l, fmt.Sprintf("%d/%s#%d", a.pfx, PathStr(p), a.tag))
	}
	sort.Strings(l)
	return l
}

// ---------------------------------------------------------------- running a case

type Result struct {
	Obs        string
	C05Sig     string
	C05Detail  string
	C06Sig     string
	C06Detail  string
	NT05, NT06 bool
	Stats      map[string]int
}

func taggedDump(rib *locRIB.LocRIB) []string {
	var l []string
	for _, r := range rib.Dump() {
		for _, p := range r.Paths() {
			t, _ := pathTag(p)
			l = append(l, fmt.Sprintf("%s#%d", entry(r.Prefix(), p), t))
		}
	}
	sort.Strings(l)
	return l
}

func RunCase(c Cfg, ops []Op) Result {
	res := Result{Stats: map[string]int{}}
	v := vrf.NewUntrackedVRF("verif", 0)
	sa := routingtable.SessionAttrs{
		RouterID:               c.RID,
		DefaultLocalPreference: c.DefLP,
		PeerIP:                 peerIP.Ptr(),
		LocalIP:                bnet.IPv4FromOctets(192, 0, 2, 2).Ptr(),
		Type:                   route.BGPPathType,
		IBGP:                   c.IBGP,
		LocalASN:               LocalASN,
		PeerASN:                c.PeerASN,
		AddPathRX:              c.AddPath,
		PeerRoleEnabled:        c.RoleOn,
		PeerRoleAdvByPeer:      c.RoleAdv,
		PeerRoleRemote:         c.Remote,
		PeerRoleLocal:          c.Local,
	}
	a := adjRIBIn.New(MkChain(c.PolCode, c.PolArg), v, sa)
	var cl [NClients]*client
	for i := range cl {
		cl[i] = &client{id: i, rib: locRIB.New(fmt.Sprintf("c%d", i))}
	}
	o := &oracle{c: c, asns: map[uint32]int{}, cids: map[uint32]int{}, anns: map[annKey]*ann{}, byTag: map[uint32]*ann{},
		polCode: c.PolCode, polArg: c.PolArg, nextTag: 1}

	var out []string
	hiddenStored := func() bool {
		for _, x := range o.anns {
			if !x.eligible {
				return true
			}
		}
		return false
	}
	for i, op := range ops {
		for _, k := range cl {
			k.events, k.delivered = nil, nil
		}
		switch op.Kind {
		case 'A':
			tag := o.nextTag
			o.nextTag++
			inel, why := o.ineligible(op.At)
			if inel {
				res.Stats["ineligible_"+why]++
			} else {
				res.Stats["eligible"]++
			}
			an := &ann{tag: tag, pfx: op.Pfx, raw: op.At, eligible: !inel, norm: o.normalize(op.At), seq: o.nextSeq}
			o.nextSeq++
			o.anns[o.key(op.Pfx, op.At.ID)] = an
			o.byTag[tag] = an
			a.AddPath(Prefix(op.Pfx), MkPath(c, op.At, tag))
		case 'W':
			delete(o.anns, o.key(op.Pfx, op.N))
			a.RemovePath(Prefix(op.Pfx), &route.Path{BGPPath: &route.BGPPath{PathIdentifier: op.N}})
		case 'X':
			for k := range o.anns {
				if k.pfx == op.Pfx {
					delete(o.anns, k)
				}
			}
			a.RemovePath(Prefix(op.Pfx), nil)
		case 'F':
			o.anns = map[annKey]*ann{}
			a.Flush()
		case 'R':
			if hiddenStored() {
				res.NT06 = true
			}
			o.reg[op.N] = true
			a.Register(cl[op.N])
		case 'U':
			o.reg[op.N] = false
			a.Unregister(cl[op.N])
		case 'P':
			if hiddenStored() {
				res.NT06 = true
			}
			o.polCode, o.polArg = op.N, op.Arg
			a.ReplaceFilterChain(MkChain(op.N, op.Arg))
		case 'a':
			o.asns[op.N]++
			v.AddContributingASN(op.N)
		case 'd':
			if o.asns[op.N] > 0 {
				o.asns[op.N]--
			}
			v.RemoveContributingASN(op.N)
		case 'c':
			o.cids[op.N]++
			v.AddContributingClusterID(op.N)
		case 'e':
			if o.cids[op.N] > 0 {
				o.cids[op.N]--
			}
			v.RemoveContributingClusterID(op.N)
		}

		// observation
		tok := []string{"T=" + dumpStr(a.Dump()), fmt.Sprintf("n=%d", a.ClientCount())}
		for _, k := range cl {
			tok = append(tok, fmt.Sprintf("C%d=%s", k.id, dumpStr(k.rib.Dump())), fmt.Sprintf("E%d=%s", k.id, sortedJoin(k.events)))
		}
		out = append(out, strings.Join(tok, "|"))

		// C05 oracle: a registered client holds exactly the session's contribution; an unregistered one nothing
		want := o.contribution()
		for _, k := range cl {
			got := taggedDump(k.rib)
			exp := want
			if !o.reg[k.id] {
				exp = nil
			}
			for _, e := range k.events {
				if e[0] == '-' {
					res.NT05 = true
				}
			}
			if res.C05Sig == "" && strings.Join(got, ",") != strings.Join(exp, ",") {
				res.C05Sig = c05Signature(op, got, exp)
				res.C05Detail = fmt.Sprintf("after op %d (%s) client %d registered=%v: loc-rib=[%s] contribution=[%s]", i, op, k.id, o.reg[k.id],
					strings.Join(got, ","), strings.Join(exp, ","))
			}
		}

		// C06 oracle: nothing that stems from an announcement that was ineligible when received is ever
		// handed to a client or present in a Loc-RIB
		for _, k := range cl {
			check := func(p *route.Path, where string) {
				t, ok := pathTag(p)
				an := o.byTag[t]
				if !ok || an == nil {
					if res.C06Sig == "" {
						res.C06Sig = "untagged-path-" + where
						res.C06Detail = fmt.Sprintf("after op %d (%s) client %d: %s", i, op, k.id, PathStr(p))
					}
					return
				}
				if !an.eligible && res.C06Sig == "" {
					_, why := (&oracle{c: o.c, asns: o.asns, cids: o.cids}).ineligible(an.raw)
					if why == "" {
						why = "at-receipt"
					}
					res.C06Sig = fmt.Sprintf("ineligible-path-%s-by-%s", where, opClass(op))
					res.C06Detail = fmt.Sprintf("after op %d (%s) client %d: path %s stems from announcement #%d %s which was ineligible when received (%s now)",
						i, op, k.id, PathStr(p), an.tag, an.raw, why)
				}
			}
			for _, p := range k.delivered {
				check(p, "handed-to-client")
			}
			for _, r := range k.rib.Dump() {
				for _, p := range r.Paths() {
					check(p, "in-loc-rib")
				}
			}
		}
	}
	res.Obs = strings.Join(out, " ")
	return res
}

func opClass(op Op) string {
	switch op.Kind {
	case 'A':
		return "announce"
	case 'W', 'X':
		return "withdraw"
	case 'F':
		return "flush"
	case 'R':
		return "register"
	case 'U':
		return "unregister"
	case 'P':
		return "replace-policy"
	default:
		return "vrf-change"
	}
}

func c05Signature(op Op, got, exp []string) string {
	kind := "differs"
	if len(got) > len(exp) {
		kind = "stale-or-extra-path"
	} else if len(got) < len(exp) {
		kind = "missing-path"
	}
	return fmt.Sprintf("loc-rib-%s-after-%s", kind, opClass(op))
}

// ---------------------------------------------------------------- generator

// Gen produces one history. focus: 5 = C05 mix, 6 = C06 mix (more ineligible paths, policy replacements, late registrations).
func Gen(r *hx.RNG, focus int, count func(string)) (Cfg, []Op) {
	c := Cfg{IBGP: r.Bool(), AddPath: r.Bool(), RID: 9, DefLP: 100, RoleOn: r.Chance(60), RoleAdv: r.Chance(80),
		Remote: uint8(r.Intn(5)), Local: uint8(r.Intn(5))}
	if c.IBGP {
		c.PeerASN = LocalASN
	} else {
		c.PeerASN = 65001
	}
	pol := func() (uint32, uint32) {
		code := uint32(r.Intn(8))
		if focus == 6 && r.Chance(40) {
			code = uint32(r.Intn(2)) // accept-all / reject-all flips
		}
		var arg uint32
		switch code {
		case 3, 7:
			arg = uint32(r.Pick([]int{50, 200}))
		case 4:
			arg = uint32(r.Pick([]int{5, 7}))
		case 5:
			arg = uint32(r.Pick([]int{65010, 65011, LocalASN}))
		case 6:
			arg = uint32(r.Pick([]int{7, 8}))
		}
		return code, arg
	}
	c.PolCode, c.PolArg = pol()
	count(fmt.Sprintf("cfg_ibgp%d_addpath%d", b2i(c.IBGP), b2i(c.AddPath)))
	count(fmt.Sprintf("cfg_roles_on%d_adv%d_remote%d", b2i(c.RoleOn), b2i(c.RoleAdv), c.Remote))
	count(fmt.Sprintf("policy_%d", c.PolCode))

	var ops []Op
	reg := [NClients]bool{}
	if r.Chance(80) {
		ops = append(ops, Op{Kind: 'a', N: LocalASN})
	}
	if r.Chance(30) {
		ops = append(ops, Op{Kind: 'c', N: 1})
	}
	early := 70
	if focus == 6 {
		early = 40
	}
	if r.Chance(early) {
		ops = append(ops, Op{Kind: 'R', N: 0})
		reg[0] = true
	}
	n := 4 + r.Intn(22)
	pInel := 30
	if focus == 6 {
		pInel = 55
	}
	for i := 0; i < n; i++ {
		x := r.Intn(100)
		switch {
		case x < 42:
			a := Attrs{NH: uint32(1 + r.Intn(2)), MED: uint32(r.Pick([]int{0, 0, 5}))}
			if c.AddPath {
				a.ID = uint32(r.Intn(3))
			} else if r.Chance(25) {
				a.ID = uint32(r.Intn(3))
			}
			if c.IBGP {
				a.LP = uint32(r.Pick([]int{0, 100, 150}))
				switch r.Intn(4) {
				case 0:
				case 1:
					a.ASP = []uint32{65002}
				case 2:
					a.ASP = []uint32{65002, 65003}
				default:
					a.ASP = []uint32{65004, 65002, 65005}
				}
			} else {
				a.LP = uint32(r.Pick([]int{0, 0, 0, 150}))
				switch r.Intn(4) {
				case 0:
					a.ASP = []uint32{65001}
				case 1:
					a.ASP = []uint32{65001, 65002}
				case 2:
					a.ASP = []uint32{65001, 65003}
				default:
					a.ASP = []uint32{65001, 65002, 65005, 65004}
				}
			}
			if r.Chance(pInel) {
				switch r.Intn(6) {
				case 0: // own ASN somewhere in the path (possibly in the last segment)
					pos := r.Intn(len(a.ASP) + 1)
					a.ASP = append(append(append([]uint32{}, a.ASP[:pos]...), LocalASN), a.ASP[pos:]...)
				case 1:
					a.Orig = c.RID
				case 2:
					a.CL = [][]uint32{{1}, {2, 1}, {3, 2}, {2}}[r.Intn(4)]
				case 3:
					a.OTC = uint32(r.Pick([]int{int(c.PeerASN), 65002}))
				case 4:
					a.ASP = nil
				default:
					a.ASP = append(a.ASP, 65003) // 65003 is a contributing ASN only after "a65003"
				}
			} else {
				if r.Chance(20) {
					a.Orig = 5
				}
				if r.Chance(20) {
					a.CL = []uint32{3}
				}
				if r.Chance(15) {
					a.OTC = c.PeerASN
				}
			}
			ops = append(ops, Op{Kind: 'A', Pfx: r.Intn(NPfx), At: a})
			count("op_announce")
		case x < 56:
			ops = append(ops, Op{Kind: 'W', Pfx: r.Intn(NPfx), N: uint32(r.Intn(3))})
			count("op_withdraw")
		case x < 58:
			ops = append(ops, Op{Kind: 'X', Pfx: r.Intn(NPfx)})
			count("op_withdraw_all")
		case x < 62:
			ops = append(ops, Op{Kind: 'F'})
			count("op_flush")
		case x < 72:
			k := r.Intn(NClients)
			if !reg[k] {
				ops = append(ops, Op{Kind: 'R', N: uint32(k)})
				reg[k] = true
				count("op_register")
			}
		case x < 80:
			k := r.Intn(NClients)
			ops = append(ops, Op{Kind: 'U', N: uint32(k)})
			reg[k] = false
			count("op_unregister")
		case x < 90:
			code, arg := pol()
			ops = append(ops, Op{Kind: 'P', N: code, Arg: arg})
			count("op_replace_policy")
		default:
			kinds := []byte{'a', 'd', 'c', 'e'}
			k := kinds[r.Intn(4)]
			var val uint32
			if k == 'a' || k == 'd' {
				val = uint32(r.Pick([]int{LocalASN, 65003, 65003}))
			} else {
				val = uint32(1 + r.Intn(2))
			}
			ops = append(ops, Op{Kind: k, N: val})
			count("op_vrf")
		}
	}
	count(fmt.Sprintf("len_%02d-%02d", len(ops)/5*5, len(ops)/5*5+4))
	return c, ops
}

// Main is the body shared by cmd/c05 and cmd/c06 (prop = 5 or 6).
func Main(prop int) {
	cfg := hx.Parse()
	tr := hx.NewTrace(cfg.Out)
	nviol := 0
	do := func(id string, c Cfg, ops []Op) {
		var res Result
		panicked, val := hx.Guard(func() { res = RunCase(c, ops) })
		if panicked {
			res.Obs = "PANIC"
			res.C05Sig, res.C05Detail = "panic", fmt.Sprint(val)
			res.C06Sig, res.C06Detail = "panic", fmt.Sprint(val)
		}
		nt, sig, detail := res.NT05, res.C05Sig, res.C05Detail
		if prop == 6 {
			nt, sig, detail = res.NT06, res.C06Sig, res.C06Detail
		}
		tr.Case(id, nt, FmtCase(c, ops), res.Obs)
		for k, n := range res.Stats {
			for j := 0; j < n; j++ {
				tr.Count(k)
			}
		}
		if sig != "" {
			hx.Violation(id, sig, detail)
			nviol++
		}
	}
	if cfg.Mode == "replay" {
		for _, cs := range hx.InputsFrom(cfg.Replay) {
			c, ops, err := ParseCase(cs[1])
			if err != nil {
				fmt.Println("HARNESS-ERROR bad replay input:", err)
				return
			}
			do(cs[0], c, ops)
		}
	} else {
		for _, cs := range hx.InputsFrom(hx.CorpusFiles(cfg.Corpus)...) {
			if c, ops, err := ParseCase(cs[1]); err == nil {
				do("corpus-"+cs[0], c, ops)
				tr.Count("corpus")
			} else {
				fmt.Println("HARNESS-ERROR bad corpus case", cs[0], err)
			}
		}
		rng := hx.NewRNG(cfg.Seed)
		for i := 0; i < cfg.N; i++ {
			c, ops := Gen(rng.Fork(uint64(i)), prop, tr.Count)
			do(fmt.Sprintf("g%d", i), c, ops)
		}
	}
	tr.Close(cfg.Stats, map[string]interface{}{"spec_violations": nviol, "prefixes": NPfx, "clients": NClients})
}
