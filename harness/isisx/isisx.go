// Package isisx: deterministic test doubles for the IS-IS server harnesses (C31, C32, C33).
//
//   - Clock: a bbclock.Clock whose time only moves when the harness says so and whose tickers
//     never fire by themselves: the harness delivers each tick explicitly (TryTick) to a goroutine
//     that is parked on the ticker's channel.
//   - Eth / Factory: an ethernet.EthernetInterfaceI that records what was sent, counts Close calls
//     and hands injected frames to the interface's receiver routine one at a time.
//   - Devs: a device.Updater that delivers device updates synchronously on the caller's goroutine.
//   - Quiesce: waits until every goroutine of the IS-IS server package is parked in the select of
//     its service loop (decided from runtime.Stack, no sleeping on guesses), so that "the routine
//     processed tick N" is an exact barrier and nothing in a harness depends on wall-clock time
//     (wall-clock only bounds how long we wait before declaring something blocked).
//   - Watchdog: run a call on its own goroutine, report normal return / panic value / blocked.
//   - Isolate: run the cases in a worker process so that a panic on a goroutine of the server
//     (which no recover() of the harness can catch) is recorded as the case's observation.
package isisx

import (
	"bufio"
	"context"
	"fmt"
	"io"
	"os"
	"os/exec"
	"runtime"
	"strings"
	"sync"
	"sync/atomic"
	"time"

	bbclock "github.com/benbjohnson/clock"
	bnet "github.com/bio-routing/bio-rd/net"
	"github.com/bio-routing/bio-rd/net/ethernet"
	"github.com/bio-routing/bio-rd/protocols/device"
	"github.com/bio-routing/bio-rd/util/log"
)

// ---------------------------------------------------------------- clock

// Tk is one ticker handed to the code under test.
type Tk struct {
	Label string // Clock.Label at creation (which server the harness was driving)
	Seq   int    // creation order, 0-based
	D     time.Duration
	Ch    chan time.Time // unbuffered: a send succeeds only while a goroutine is parked on it
	T     *bbclock.Ticker
}

// TryTick delivers one tick if (and only if) some goroutine currently waits on the ticker.
func (t *Tk) TryTick(now time.Time) bool {
	select {
	case t.Ch <- now:
		return true
	default:
		return false
	}
}

// Clock implements bbclock.Clock. Only Now and Ticker are used by the IS-IS server.
type Clock struct {
	Label   string // copied into the tickers created from now on
	mu      sync.Mutex
	now     time.Time
	dummy   *bbclock.Mock // provides *bbclock.Ticker values whose Stop() works
	tickers []*Tk
}

// Epoch is the time every case starts at.
var Epoch = time.Unix(1_000_000, 0).UTC()

func NewClock() *Clock {
	return &Clock{now: Epoch, dummy: bbclock.NewMock()}
}

// SetLabel names the server the harness drives from now on (tickers created meanwhile carry it).
func (c *Clock) SetLabel(l string) {
	c.mu.Lock()
	c.Label = l
	c.mu.Unlock()
}

func (c *Clock) Now() time.Time {
	c.mu.Lock()
	defer c.mu.Unlock()
	return c.now
}

// Sec returns the seconds since Epoch.
func (c *Clock) Sec() int64 { return int64(c.Now().Sub(Epoch) / time.Second) }

func (c *Clock) Advance(d time.Duration) {
	c.mu.Lock()
	c.now = c.now.Add(d)
	c.mu.Unlock()
}

func (c *Clock) Ticker(d time.Duration) *bbclock.Ticker {
	c.mu.Lock()
	defer c.mu.Unlock()
	t := c.dummy.Ticker(d)
	ch := make(chan time.Time)
	t.C = ch
	c.tickers = append(c.tickers, &Tk{Label: c.Label, Seq: len(c.tickers), D: d, Ch: ch, T: t})
	return t
}

// Tickers returns the tickers created so far (creation order).
func (c *Clock) Tickers() []*Tk {
	c.mu.Lock()
	defer c.mu.Unlock()
	return append([]*Tk(nil), c.tickers...)
}

func (c *Clock) Since(t time.Time) time.Duration { return c.Now().Sub(t) }
func (c *Clock) Until(t time.Time) time.Duration { return t.Sub(c.Now()) }

func (c *Clock) After(d time.Duration) <-chan time.Time { panic("isisx.Clock: After not supported") }
func (c *Clock) AfterFunc(d time.Duration, f func()) *bbclock.Timer {
	panic("isisx.Clock: AfterFunc not supported")
}
func (c *Clock) Sleep(d time.Duration)                 { panic("isisx.Clock: Sleep not supported") }
func (c *Clock) Tick(d time.Duration) <-chan time.Time { return c.Ticker(d).C }
func (c *Clock) Timer(d time.Duration) *bbclock.Timer  { panic("isisx.Clock: Timer not supported") }
func (c *Clock) WithDeadline(parent context.Context, d time.Time) (context.Context, context.CancelFunc) {
	panic("isisx.Clock: WithDeadline not supported")
}
func (c *Clock) WithTimeout(parent context.Context, t time.Duration) (context.Context, context.CancelFunc) {
	panic("isisx.Clock: WithTimeout not supported")
}

var _ bbclock.Clock = (*Clock)(nil)

// ---------------------------------------------------------------- ethernet

type frame struct {
	src ethernet.MACAddr
	pkt []byte
}

// Eth is one ethernet handle created by Factory.New.
type Eth struct {
	Name   string
	Seq    int
	mu     sync.Mutex
	sent   [][]byte
	closes int
	joined int
	closed chan struct{}
	in     chan frame // unbuffered
	recvs  int64      // number of times RecvPacket was entered
}

func (e *Eth) RecvPacket() ([]byte, ethernet.MACAddr, error) {
	atomic.AddInt64(&e.recvs, 1)
	select {
	case <-e.closed:
		return nil, ethernet.MACAddr{}, fmt.Errorf("socket closed")
	case f := <-e.in:
		return f.pkt, f.src, nil
	}
}

func (e *Eth) SendPacket(dst ethernet.MACAddr, pkt []byte) error {
	e.mu.Lock()
	defer e.mu.Unlock()
	if e.closes > 0 {
		return fmt.Errorf("socket closed")
	}
	e.sent = append(e.sent, append([]byte(nil), pkt...))
	return nil
}

func (e *Eth) MCastJoin(addr ethernet.MACAddr) error {
	e.mu.Lock()
	e.joined++
	e.mu.Unlock()
	return nil
}

func (e *Eth) GetMTU() int { return 1500 }

func (e *Eth) Close() {
	e.mu.Lock()
	defer e.mu.Unlock()
	e.closes++
	if e.closes == 1 {
		close(e.closed)
	}
}

// Closes returns how often Close was called.
func (e *Eth) Closes() int {
	e.mu.Lock()
	defer e.mu.Unlock()
	return e.closes
}

// TakeSent returns and forgets the frames sent so far.
func (e *Eth) TakeSent() [][]byte {
	e.mu.Lock()
	defer e.mu.Unlock()
	s := e.sent
	e.sent = nil
	return s
}

// Inject hands one frame to a receiver parked in RecvPacket; false if nobody is receiving
// (call after Quiesce).
func (e *Eth) Inject(src ethernet.MACAddr, pkt []byte) bool {
	select {
	case e.in <- frame{src, pkt}:
		return true
	default:
		return false
	}
}

// Factory implements ethernet.EthernetInterfaceFactoryI.
type Factory struct {
	mu      sync.Mutex
	Handles []*Eth
}

func (f *Factory) New(name string, bpf *ethernet.BPF, llc ethernet.LLC) (ethernet.EthernetInterfaceI, error) {
	f.mu.Lock()
	defer f.mu.Unlock()
	e := &Eth{Name: name, Seq: len(f.Handles), closed: make(chan struct{}), in: make(chan frame)}
	f.Handles = append(f.Handles, e)
	return e, nil
}

// All returns the handles created so far.
func (f *Factory) All() []*Eth {
	f.mu.Lock()
	defer f.mu.Unlock()
	return append([]*Eth(nil), f.Handles...)
}

// ---------------------------------------------------------------- devices

// Dev implements device.DeviceInterface. During (optional) runs once, inside the first
// GetOperState call: netIfa.DeviceUpdate makes that call after it has taken the interface lock, so
// During is the place to let something happen WHILE a device update is being processed.
type Dev struct {
	Index  uint64
	Oper   uint8
	Addrs  []*bnet.Prefix
	During func()
	once   sync.Once
}

func (d *Dev) GetIndex() uint64 { return d.Index }
func (d *Dev) GetOperState() uint8 {
	if d.During != nil {
		d.once.Do(d.During)
	}
	return d.Oper
}
func (d *Dev) GetAddrs() []*bnet.Prefix { return d.Addrs }

// Devs implements device.Updater like protocols/device.Server does: Subscribe / Unsubscribe keep
// the list of clients per device name, Update (= Server.notify) calls DeviceUpdate of the CURRENT
// subscribers only, on the caller's goroutine and - as notify does - while holding the read lock
// of the client table; Unsubscribe takes the write lock, so an Unsubscribe made from inside a
// DeviceUpdate callback waits for itself (reported by the harness' watchdog as blocked).
type Devs struct {
	mu      sync.RWMutex
	clients map[string][]device.Client
}

func NewDevs() *Devs { return &Devs{clients: map[string][]device.Client{}} }

func (d *Devs) Subscribe(c device.Client, name string) {
	d.mu.Lock()
	defer d.mu.Unlock()
	d.clients[name] = append(d.clients[name], c)
}

func (d *Devs) Unsubscribe(c device.Client, name string) {
	d.mu.Lock()
	defer d.mu.Unlock()
	cs := d.clients[name]
	for i := range cs {
		if cs[i] == c {
			d.clients[name] = append(cs[:i:i], cs[i+1:]...)
			return
		}
	}
}

func (d *Devs) Start() error { return nil }

// Subscribed returns the number of clients registered for the device.
func (d *Devs) Subscribed(name string) int {
	d.mu.RLock()
	defer d.mu.RUnlock()
	return len(d.clients[name])
}

func (d *Devs) Update(name string, dev *Dev) {
	d.mu.RLock()
	defer d.mu.RUnlock()
	for _, c := range d.clients[name] {
		c.DeviceUpdate(dev)
	}
}

// ---------------------------------------------------------------- logging

type nopLogger struct{}

func (nopLogger) Errorf(string, ...interface{})               {}
func (nopLogger) Infof(string, ...interface{})                {}
func (nopLogger) Debugf(string, ...interface{})               {}
func (nopLogger) Error(string)                                {}
func (nopLogger) Info(string)                                 {}
func (nopLogger) Debug(string)                                {}
func (n nopLogger) WithFields(log.Fields) log.LoggerInterface { return n }
func (n nopLogger) WithError(error) log.LoggerInterface       { return n }

// Silence makes bio-rd's logger discard everything.
func Silence() { log.SetLogger(nopLogger{}) }

// ---------------------------------------------------------------- quiescence

const serverPkg = "github.com/bio-routing/bio-rd/protocols/isis/server."
const selfPkg = "verifharness/isisx."

// MaxWait bounds every wait of the harness (only reached when something is blocked or spinning).
var MaxWait = 3 * time.Second

var stackBuf = make([]byte, 1<<20)

// busyServerGoroutine returns the header of a goroutine that has frames of the IS-IS server
// package on its stack and is not parked in a channel operation performed directly by a
// function of that package (the select of a service loop) or by Eth.RecvPacket; "" if none.
// Goroutines whose stack contains the marker are ignored (the harness' own callers).
func busyServerGoroutine() string { return busyServerGoroutineOpt(false) }

// allowBlocked: a goroutine waiting for a mutex, a read/write lock or a wait group also counts as
// settled (it will not move until somebody else does)
func busyServerGoroutineOpt(allowBlocked bool) string {
	var n int
	for {
		n = runtime.Stack(stackBuf, true)
		if n < len(stackBuf) {
			break
		}
		stackBuf = make([]byte, 2*len(stackBuf))
	}
	for _, blk := range strings.Split(string(stackBuf[:n]), "\n\n") {
		if strings.Contains(blk, "stack unavailable") {
			// "goroutine running on other thread; stack unavailable": it could be a server goroutine
			// in the middle of a step - not settled, look again
			return strings.SplitN(blk, "\n", 2)[0] + " (stack unavailable)"
		}
		if !strings.Contains(blk, serverPkg) {
			continue
		}
		if strings.Contains(blk, "verifharness/isisx.busyServerGoroutineOpt") {
			continue // the goroutine taking the dump (harness calling into the server synchronously)
		}
		lines := strings.SplitN(blk, "\n", 3)
		if len(lines) < 2 {
			continue
		}
		hdr := lines[0]
		st := ""
		if i := strings.Index(hdr, "["); i >= 0 {
			st = hdr[i+1:]
			if j := strings.IndexAny(st, ",]"); j >= 0 {
				st = st[:j]
			}
		}
		top := lines[1]
		parked := st == "select" || st == "chan receive"
		direct := strings.HasPrefix(top, serverPkg) || strings.HasPrefix(top, selfPkg+"(*Eth).RecvPacket")
		if allowBlocked && (strings.HasPrefix(st, "sync.") || st == "semacquire") && !strings.Contains(blk, "runtime.gc") &&
			(strings.Contains(blk, "sync.(*Mutex).Lock") || strings.Contains(blk, "sync.(*RWMutex).RLock") ||
				strings.Contains(blk, "sync.(*RWMutex).Lock") || strings.Contains(blk, "sync.(*WaitGroup).Wait")) {
			// really waiting for a lock / wait group of the program. (A goroutine that is about to start
			// a GC cycle also shows "semacquire" - it waits for the world semaphore this very stack dump
			// holds - and will go on at once: that one is not settled.)
			continue
		}
		if !(parked && direct) {
			return hdr + " " + top
		}
	}
	return ""
}

// Quiesce waits until all goroutines of the IS-IS server are parked in their service loops.
// It returns "" on success, otherwise a description of a goroutine that stayed busy for MaxWait.
func Quiesce() string {
	deadline := time.Now().Add(MaxWait)
	spins := 0
	for {
		b := busyServerGoroutine()
		if b == "" {
			return ""
		}
		if time.Now().After(deadline) {
			return b
		}
		spins++
		if spins < 50 {
			runtime.Gosched()
		} else {
			time.Sleep(50 * time.Microsecond)
		}
	}
}

// Settle waits until no goroutine of the IS-IS server (other than the caller's own) can make a step by
// itself: each is parked in its service loop or waits for a lock / wait group. For use inside a
// callback that runs while the server holds a lock. Returns "" or the goroutine that kept running.
func Settle() string {
	deadline := time.Now().Add(MaxWait)
	spins := 0
	for {
		b := busyServerGoroutineOpt(true)
		if b == "" {
			return ""
		}
		if time.Now().After(deadline) {
			return b
		}
		spins++
		if spins < 50 {
			runtime.Gosched()
		} else {
			time.Sleep(50 * time.Microsecond)
		}
	}
}

// Watchdog runs f on a new goroutine. Result: "ok", "panic" (val = recovered value) or "blocked"
// (f did not return within MaxWait; its goroutine is abandoned).
func Watchdog(f func()) (res string, val interface{}) {
	type r struct {
		p bool
		v interface{}
	}
	ch := make(chan r, 1)
	go func() {
		defer func() {
			if v := recover(); v != nil {
				ch <- r{true, v}
			}
		}()
		f()
		ch <- r{false, nil}
	}()
	select {
	case x := <-ch:
		if x.p {
			return "panic", x.v
		}
		return "ok", nil
	case <-time.After(MaxWait):
		return "blocked", nil
	}
}

// PanicKind maps a recovered value to a small stable enum.
func PanicKind(v interface{}) string {
	s := fmt.Sprint(v)
	switch {
	case strings.Contains(s, "close of closed channel"):
		return "close-closed"
	case strings.Contains(s, "nil pointer dereference"):
		return "nil-deref"
	case strings.Contains(s, "close of nil channel"):
		return "close-nil"
	case strings.Contains(s, "index out of range"), strings.Contains(s, "slice bounds out of range"):
		return "bounds"
	default:
		return "other"
	}
}

// ---------------------------------------------------------------- process isolation

// Result of one case as produced by a worker.
type Result struct {
	ID, Input, Obs string
	NT             bool
	Sig, Detail    string
	Abnormal       bool // the worker must not be reused after this case (leaked/blocked goroutines)
}

// CaseFn runs one case in the worker.
type CaseFn func(id, input string) Result

// IsWorker reports whether this process was started by Isolate as a worker.
func IsWorker() bool { return os.Getenv("ISISX_WORKER") == "1" }

// ServeWorker reads "id<TAB>input" lines from stdin and answers one line per case.
func ServeWorker(fn CaseFn) {
	in := bufio.NewReaderSize(os.Stdin, 1<<20)
	out := bufio.NewWriter(os.Stdout)
	for {
		line, err := in.ReadString('\n')
		line = strings.TrimRight(line, "\n")
		if line != "" {
			p := strings.SplitN(line, "\t", 2)
			if len(p) == 2 {
				r := fn(p[0], p[1])
				nt, ab := "0", "0"
				if r.NT {
					nt = "1"
				}
				if r.Abnormal {
					ab = "1"
				}
				clean := func(s string) string {
					return strings.NewReplacer("\t", " ", "\n", " ").Replace(s)
				}
				fmt.Fprintf(out, "R\t%s\t%s\t%s\t%s\t%s\t%s\n", clean(r.ID), nt, ab, clean(r.Obs), clean(r.Sig), clean(r.Detail))
				out.Flush()
				if r.Abnormal {
					os.Exit(0)
				}
			}
		}
		if err != nil {
			return
		}
	}
}

// Isolate runs the cases (id, input) through worker processes (this executable with
// ISISX_WORKER=1 and the given extra args) and calls emit for each result in order. A worker that
// dies during a case yields Obs "CRASH:<kind>" with sig "server-goroutine-crash".
// recycle: maximum number of cases per worker process. emit returns false to stop early (a tree
// on which most cases fail is decided after a few of them).
func Isolate(cases [][2]string, args []string, recycle int, emit func(Result) bool) {
	exe, err := os.Executable()
	if err != nil {
		fmt.Println("HARNESS-ERROR cannot find own executable:", err)
		os.Exit(2)
	}
	i := 0
	stop := false
	for i < len(cases) && !stop {
		cmd := exec.Command(exe, args...)
		cmd.Env = append(os.Environ(), "ISISX_WORKER=1")
		stdin, _ := cmd.StdinPipe()
		stdout, _ := cmd.StdoutPipe()
		stderr, _ := cmd.StderrPipe()
		if err := cmd.Start(); err != nil {
			fmt.Println("HARNESS-ERROR cannot start worker:", err)
			os.Exit(2)
		}
		var errTail []string
		var errMu sync.Mutex
		errDone := make(chan struct{})
		go func() {
			sc := bufio.NewScanner(stderr)
			sc.Buffer(make([]byte, 1<<16), 1<<22)
			for sc.Scan() {
				errMu.Lock()
				if len(errTail) < 40 {
					errTail = append(errTail, sc.Text())
				}
				errMu.Unlock()
			}
			close(errDone)
		}()
		rd := bufio.NewReaderSize(stdout, 1<<20)
		served := 0
		for i < len(cases) && served < recycle {
			c := cases[i]
			fmt.Fprintf(stdin, "%s\t%s\n", c[0], c[1])
			line, err := rd.ReadString('\n')
			if err != nil || !strings.HasPrefix(line, "R\t") {
				// the worker died while running this case
				stdin.Close()
				io.Copy(io.Discard, rd)
				<-errDone
				cmd.Wait()
				errMu.Lock()
				txt := strings.Join(errTail, " | ")
				errMu.Unlock()
				kind := PanicKind(txt)
				where := ""
				for k, l := range errTail {
					if strings.HasPrefix(l, "goroutine ") && k+1 < len(errTail) {
						where = errTail[k+1]
						break
					}
				}
				if !emit(Result{ID: c[0], Input: c[1], NT: true, Obs: "CRASH:" + kind, Sig: "server-goroutine-crash",
					Detail: "a goroutine of the server panicked (" + kind + ") in " + where}) {
					stop = true
				}
				i++
				served = -1
				break
			}
			p := strings.Split(strings.TrimRight(line, "\n"), "\t")
			for len(p) < 7 {
				p = append(p, "")
			}
			if !emit(Result{ID: p[1], Input: c[1], NT: p[2] == "1", Abnormal: p[3] == "1", Obs: p[4], Sig: p[5], Detail: p[6]}) {
				stop = true
			}
			i++
			served++
			if p[3] == "1" || stop {
				break
			}
		}
		if served >= 0 {
			stdin.Close()
			io.Copy(io.Discard, rd)
			<-errDone
			cmd.Wait()
		}
	}
}
