// Package lockstress: concurrent stress of bio-rd's RIB pipeline and BGP session layer for
// C25 (deadlock: watchdog + goroutine dump) and C26 (data race: Go race detector).
//
// The parent process runs every case in a child process (same binary, -child <spec>): a child
// that deadlocks dumps its goroutines and exits; under -race the child's reports go to a log file
// (GORACE=log_path) that the parent parses.  One trace line per case:
//
//	<id> <nt> <spec> => OK | DEADLOCK <frames> | RACE <pairs> | PANIC <text> | ERROR <text>
//
// spec:  witness <name>                               a fixed schedule for one known finding
//
//	stress <scenario> <mix> p=<GOMAXPROCS> g=<goroutines> n=<ops per goroutine> s=<seed>
//
// Only operation mixes that are deadlock-/race-free by the lock tables are stressed; the
// combinations that the tables flag (export-policy change against route changes, ...) run as
// witnesses, so that the run is silent apart from the listed known findings.
package lockstress

import (
	"bufio"
	"bytes"
	"flag"
	"fmt"
	"os"
	"os/exec"
	"path/filepath"
	"regexp"
	"runtime"
	"sort"
	"strconv"
	"strings"
	"time"

	"verifharness/hx"
)

type caseFn func(a args) string // returns "" or an error text

type args struct {
	p, g, n int
	seed    uint64
	mix     string
}

var child = flag.String("child", "", "internal: run one case in this process")
var childTimeout = flag.Duration("child-timeout", 20*time.Second, "internal: watchdog of a child")

// Main is the entry point of cmd/c25 (kind "c25") and cmd/c26 (kind "c26").
func Main(kind string) {
	cfg := hx.Parse()
	if *child != "" {
		runChild(kind, *child, *childTimeout)
		return
	}
	tr := hx.NewTrace(cfg.Out)
	var specs [][2]string // id, spec
	if cfg.Mode == "replay" {
		for _, in := range hx.InputsFrom(cfg.Replay) {
			specs = append(specs, in)
		}
	} else {
		for _, f := range hx.CorpusFiles(cfg.Corpus) {
			for _, in := range hx.InputsFrom(f) {
				if kind == "c26" && !RaceEnabled && strings.HasPrefix(in[1], "witness race-") {
					continue // race witnesses need the -race build (props/C26.py runs it)
				}
				specs = append(specs, in)
			}
		}
		specs = append(specs, genStress(kind, cfg)...) // the plain build of c26 checks completion only
	}
	exe, err := os.Executable()
	if err != nil {
		fmt.Println("HARNESS-ERROR cannot find own executable:", err)
		os.Exit(2)
	}
	if kind == "c26" && !RaceEnabled && cfg.Mode == "replay" {
		// ./check C26 --replay builds the plain binary; a race can only be replayed by the -race build next to it
		if _, e := os.Stat(exe + "-race"); e == nil {
			exe = exe + "-race"
		}
	}
	// pseudo case: the generated tables themselves (violating rows are reported by the model driver as
	// case=table; replaying it re-evaluates the tables of the current tree)
	tr.Case("table", false, "tables", "-")
	tmp, _ := os.MkdirTemp("", "lockstress-")
	defer os.RemoveAll(tmp)
	nviol := 0
	for _, sp := range specs {
		id, spec := sp[0], sp[1]
		if spec == "tables" {
			continue
		}
		obs := runCaseInChild(exe, kind, id, spec, tmp)
		tr.Count(strings.Fields(spec)[0] + ":" + strings.Fields(obs)[0])
		tr.Case(id, true, spec, obs)
		f := strings.Fields(obs)
		switch f[0] {
		case "OK":
		case "DEADLOCK":
			nviol++
			hx.Violation(id, "deadlock:"+f[1], "watchdog expired; blocked in "+f[1]+" ["+spec+"]")
		case "RACE":
			for _, pair := range f[1:] {
				nviol++
				hx.Violation(id, "race:"+pair, "race detector report ["+spec+"]")
			}
		case "PANIC":
			nviol++
			hx.Violation(id, "panic:"+strings.Join(f[1:], "_"), "["+spec+"]")
		default:
			fmt.Printf("HARNESS-ERROR case=%s %s [%s]\n", id, obs, spec)
		}
	}
	tr.Close(cfg.Stats, map[string]interface{}{"race_build": RaceEnabled, "violations": nviol})
}

// genStress: the seeded stress cases of a tier
func genStress(kind string, cfg *hx.Cfg) [][2]string {
	rng := hx.NewRNG(cfg.Seed)
	var out [][2]string
	procs := []int{1, 2, 3, 4, 6, 8, 12, 16}
	mixes := stressMixes(kind)
	for i := 0; i < cfg.N; i++ {
		m := mixes[i%len(mixes)]
		p := procs[(i/len(mixes)+rng.Intn(len(procs)))%len(procs)]
		g := 2 + rng.Intn(7)
		n := 150 + rng.Intn(250)
		if kind == "c26" {
			n = 60 + rng.Intn(80) // the race detector slows everything down
		}
		if m == "tables readers" || m == "server api" {
			n = n/3 + 20 // every read touches every field of a dump
		}
		spec := fmt.Sprintf("stress %s p=%d g=%d n=%d s=%d", m, p, g, n, rng.U64()%1000000)
		out = append(out, [2]string{fmt.Sprintf("s%d", i), spec})
	}
	return out
}

func parseSpec(spec string) (name string, a args, err error) {
	f := strings.Fields(spec)
	if len(f) < 2 {
		return "", a, fmt.Errorf("short spec")
	}
	if f[0] == "witness" {
		return "witness/" + f[1], args{p: 4}, nil
	}
	if f[0] != "stress" || len(f) < 3 {
		return "", a, fmt.Errorf("bad spec")
	}
	a = args{p: 4, g: 4, n: 100, seed: 1, mix: f[2]}
	for _, kv := range f[3:] {
		p := strings.SplitN(kv, "=", 2)
		if len(p) != 2 {
			return "", a, fmt.Errorf("bad token %q", kv)
		}
		v, e := strconv.ParseUint(p[1], 10, 64)
		if e != nil {
			return "", a, e
		}
		switch p[0] {
		case "p":
			a.p = int(v)
		case "g":
			a.g = int(v)
		case "n":
			a.n = int(v)
		case "s":
			a.seed = v
		}
	}
	return "stress/" + f[1], a, nil
}

// ---------------------------------------------------------------- parent side

func runCaseInChild(exe, kind, id, spec, tmp string) string {
	logBase := filepath.Join(tmp, "race-"+id)
	cmd := exec.Command(exe, "-child", spec)
	cmd.Env = append(os.Environ(), "GORACE=log_path="+logBase+" halt_on_error=0 history_size=3")
	var out bytes.Buffer
	cmd.Stdout = &out
	cmd.Stderr = &out
	done := make(chan error, 1)
	if err := cmd.Start(); err != nil {
		return "ERROR cannot start child: " + err.Error()
	}
	go func() { done <- cmd.Wait() }()
	select {
	case <-done:
	case <-time.After(10**childTimeout + 20*time.Second):
		cmd.Process.Kill()
		<-done
		return "ERROR child did not finish (hard timeout)"
	}
	res := ""
	sc := bufio.NewScanner(&out)
	sc.Buffer(make([]byte, 1<<20), 1<<24)
	for sc.Scan() {
		if strings.HasPrefix(sc.Text(), "RESULT ") {
			res = strings.TrimPrefix(sc.Text(), "RESULT ")
		}
	}
	if res == "" {
		tail := out.String()
		if len(tail) > 300 {
			tail = tail[len(tail)-300:]
		}
		return "ERROR child gave no result: " + strings.ReplaceAll(tail, "\n", " | ")
	}
	// race reports of the child
	logs, _ := filepath.Glob(logBase + ".*")
	var pairs []string
	for _, l := range logs {
		b, _ := os.ReadFile(l)
		pairs = append(pairs, ParseRaceLog(string(b))...)
	}
	if len(pairs) > 0 && strings.HasPrefix(res, "OK") {
		sort.Strings(pairs)
		pairs = uniq(pairs)
		return "RACE " + strings.Join(pairs, " ")
	}
	return res
}

func uniq(xs []string) []string {
	var out []string
	for i, x := range xs {
		if i == 0 || x != xs[i-1] {
			out = append(out, x)
		}
	}
	return out
}

// ---------------------------------------------------------------- child side

func runChild(kind, spec string, timeout time.Duration) {
	name, a, err := parseSpec(spec)
	if err != nil {
		fmt.Println("RESULT ERROR " + err.Error())
		return
	}
	fn := lookupCase(name)
	if fn == nil {
		fmt.Println("RESULT ERROR unknown case " + name)
		return
	}
	runtime.GOMAXPROCS(a.p)
	base := maxGoroutineID()
	done := make(chan string, 1)
	go func() {
		defer func() {
			if r := recover(); r != nil {
				done <- "PANIC " + canonPanic(fmt.Sprint(r))
			}
		}()
		if e := fn(a); e != "" {
			done <- "ERROR " + e
			return
		}
		done <- "OK"
	}()
	if strings.HasPrefix(name, "witness/") && !strings.HasPrefix(name, "witness/race-") && !strings.HasPrefix(name, "witness/refresh-") {
		timeout = 2 * time.Second // a deadlock witness is expected to hang
	}
	// A watchdog expiry is a deadlock only if nothing of the case can run any more: as long as one of its
	// goroutines is running or runnable the case is merely slow (loaded machine, race detector) and gets more time.
	for round := 0; ; round++ {
		select {
		case r := <-done:
			fmt.Println("RESULT " + r)
			os.Stdout.Sync()
			os.Exit(0)
		case <-time.After(timeout):
		}
		buf := make([]byte, 1<<22)
		buf = buf[:runtime.Stack(buf, true)]
		if Progressing(string(buf), base) && round < 8 {
			continue
		}
		if Progressing(string(buf), base) {
			fmt.Println("RESULT ERROR case still running after 9 watchdog periods (slow, not blocked)")
		} else {
			fmt.Println("RESULT DEADLOCK " + DeadlockSignature(string(buf), base))
		}
		if os.Getenv("LOCKSTRESS_DUMP") != "" {
			fmt.Println(string(buf))
		}
		break
	}
	os.Stdout.Sync()
	os.Exit(0)
}

func canonPanic(s string) string {
	s = regexp.MustCompile(`0x[0-9a-f]+`).ReplaceAllString(s, "0x")
	s = strings.Join(strings.Fields(s), "_")
	if len(s) > 80 {
		s = s[:80]
	}
	return s
}

var goroutineHdr = regexp.MustCompile(`^goroutine (\d+) \[([^\]]+)\]:`)

func maxGoroutineID() int {
	buf := make([]byte, 1<<20)
	buf = buf[:runtime.Stack(buf, true)]
	m := 0
	for _, l := range strings.Split(string(buf), "\n") {
		if h := goroutineHdr.FindStringSubmatch(l); h != nil {
			if v, _ := strconv.Atoi(h[1]); v > m {
				m = v
			}
		}
	}
	return m
}

const modPrefix = "github.com/bio-routing/bio-rd/"

// canonFunc turns "github.com/bio-routing/bio-rd/routingtable/locRIB.(*LocRIB).RefreshClient(...)" into
// "locRIB.LocRIB.RefreshClient"
func canonFunc(frame string) string {
	f := strings.TrimSpace(frame)
	if i := strings.LastIndex(f, "("); i > 0 && strings.HasSuffix(f, ")") {
		// strip the argument list (the last parenthesised group)
		depth := 0
		for j := len(f) - 1; j >= 0; j-- {
			if f[j] == ')' {
				depth++
			} else if f[j] == '(' {
				depth--
				if depth == 0 {
					f = f[:j]
					break
				}
			}
		}
	}
	f = strings.TrimPrefix(f, modPrefix)
	if i := strings.LastIndex(f, "/"); i >= 0 {
		f = f[i+1:]
	}
	f = strings.ReplaceAll(f, "(*", "")
	f = strings.ReplaceAll(f, ")", "")
	f = strings.ReplaceAll(f, "(", "")
	f = regexp.MustCompile(`\.func\d+(\.\d+)*$`).ReplaceAllString(f, "")
	f = regexp.MustCompile(`\[\.\.\.\]`).ReplaceAllString(f, "")
	return f
}

// Progressing: some goroutine created after `base` (other than the watchdog, which is the one taking the dump and
// has no bio-rd or harness case frame) is running or runnable inside bio-rd or harness code.
func Progressing(dump string, base int) bool {
	for _, g := range strings.Split(dump, "\n\n") {
		lines := strings.Split(strings.TrimSpace(g), "\n")
		h := goroutineHdr.FindStringSubmatch(lines[0])
		if h == nil {
			continue
		}
		id, _ := strconv.Atoi(h[1])
		if id <= base {
			continue
		}
		st := h[2]
		if strings.HasPrefix(st, "running") || strings.HasPrefix(st, "runnable") || strings.HasPrefix(st, "sleep") || strings.HasPrefix(st, "syscall") {
			return true
		}
	}
	return false
}

// DeadlockSignature: for every goroutine created after `base` that is blocked on a mutex or on a
// channel send, the innermost bio-rd function; sorted, joined by "+".
func DeadlockSignature(dump string, base int) string {
	var sigs []string
	for _, g := range strings.Split(dump, "\n\n") {
		lines := strings.Split(strings.TrimSpace(g), "\n")
		if len(lines) == 0 {
			continue
		}
		h := goroutineHdr.FindStringSubmatch(lines[0])
		if h == nil {
			continue
		}
		id, _ := strconv.Atoi(h[1])
		if id <= base {
			continue
		}
		st := h[2]
		blocked := strings.Contains(st, "semacquire") || strings.Contains(st, "sync.Mutex") ||
			strings.Contains(st, "sync.RWMutex") || strings.Contains(st, "chan send")
		if !blocked {
			continue
		}
		for _, l := range lines[1:] {
			if strings.HasPrefix(l, "\t") || strings.HasPrefix(l, "created by") {
				continue
			}
			if strings.HasPrefix(l, modPrefix) && !strings.Contains(l, ".Verif") {
				sigs = append(sigs, canonFunc(l))
				break
			}
		}
	}
	sort.Strings(sigs)
	sigs = uniq(sigs)
	if len(sigs) == 0 {
		return "no-bio-rd-frame"
	}
	return strings.Join(sigs, "+")
}

// ParseRaceLog: one "<funcA>+<funcB>" (sorted) per report, the innermost bio-rd function of each of
// the two conflicting accesses.
func ParseRaceLog(log string) []string {
	var out []string
	for _, rep := range strings.Split(log, "WARNING: DATA RACE")[1:] {
		if i := strings.Index(rep, "=================="); i >= 0 {
			rep = rep[:i]
		}
		var tops []string
		inAccess := false
		found := false
		for _, l := range strings.Split(rep, "\n") {
			t := strings.TrimSpace(l)
			switch {
			case strings.HasPrefix(t, "Read at") || strings.HasPrefix(t, "Write at") ||
				strings.HasPrefix(t, "Previous read at") || strings.HasPrefix(t, "Previous write at") ||
				strings.HasPrefix(t, "Atomic") || strings.HasPrefix(t, "Previous atomic"):
				inAccess, found = true, false
			case strings.HasPrefix(t, "Goroutine ") || t == "":
				if t != "" {
					inAccess = false
				}
				if t == "" && inAccess && !found && len(tops) < 2 {
					// end of an access stack without a bio-rd frame
					tops = append(tops, "outside-bio-rd")
					found = true
				}
				if t == "" {
					inAccess = false
				}
			default:
				if inAccess && !found && strings.HasPrefix(t, modPrefix) && !strings.Contains(t, ".Verif") {
					tops = append(tops, canonFunc(t))
					found = true
				}
			}
		}
		if len(tops) >= 2 {
			p := []string{tops[0], tops[1]}
			sort.Strings(p)
			out = append(out, p[0]+"+"+p[1])
		} else if len(tops) == 1 {
			out = append(out, tops[0]+"+?")
		} else {
			out = append(out, "unparsed-report")
		}
	}
	return out
}
