//go:build race

package lockstress

// RaceEnabled: the binary was built with -race
const RaceEnabled = true
