package lockstress

import (
	"fmt"
	"net"
	"runtime"
	"strings"
	"sync"
	"sync/atomic"
	"time"

	bnet "github.com/bio-routing/bio-rd/net"
	"github.com/bio-routing/bio-rd/protocols/bgp/packet"
	"github.com/bio-routing/bio-rd/protocols/bgp/server"
	"github.com/bio-routing/bio-rd/protocols/bgp/types"
	"github.com/bio-routing/bio-rd/route"
	"github.com/bio-routing/bio-rd/routingtable"
	"github.com/bio-routing/bio-rd/routingtable/adjRIBIn"
	"github.com/bio-routing/bio-rd/routingtable/adjRIBOut"
	"github.com/bio-routing/bio-rd/routingtable/filter"
	"github.com/bio-routing/bio-rd/routingtable/filter/actions"
	"github.com/bio-routing/bio-rd/routingtable/locRIB"
	"github.com/bio-routing/bio-rd/routingtable/vrf"

	"verifharness/hx"
)

func lookupCase(name string) caseFn {
	switch name {
	case "stress/tables":
		return stressTables
	case "stress/server":
		return stressServer
	case "witness/lockorder-locrib-adjribout":
		return witnessLockOrder
	case "witness/leak-register-after-dispose":
		return witnessLeak
	case "witness/stop-after-cease":
		return witnessStopAfterCease
	case "witness/refresh-addpath-nonpropagated":
		return regressRefreshNonPropagated
	case "witness/race-route-paths":
		return witnessRaceRoutePaths
	case "witness/race-adjribin-unregister":
		return witnessRaceUnregister
	case "witness/race-adjribout-filterchain":
		return witnessRaceExportChain
	case "witness/race-metrics-fsm-state":
		return witnessRaceMetrics
	}
	return nil
}

// mixes that the lock tables say are free of deadlocks (c25) / of unordered conflicting accesses (c26)
func stressMixes(kind string) []string {
	if kind == "c26" {
		return []string{"server api", "tables readers", "server teardown", "tables routes", "tables clients", "server updates", "tables policy-quiet"}
	}
	return []string{"tables routes", "tables readers", "tables clients", "tables policy-quiet", "tables teardown", "server updates", "server api", "server control", "server teardown"}
}

// ---------------------------------------------------------------- a counting client

type countClient struct {
	adds, removes, refreshes atomic.Int64
}

func (c *countClient) AddPath(*bnet.Prefix, *route.Path) error            { c.adds.Add(1); return nil }
func (c *countClient) AddPathInitialDump(*bnet.Prefix, *route.Path) error { c.adds.Add(1); return nil }
func (c *countClient) EndOfRIB()                                          {}
func (c *countClient) RemovePath(*bnet.Prefix, *route.Path) bool          { c.removes.Add(1); return true }
func (c *countClient) ReplacePath(*bnet.Prefix, *route.Path, *route.Path) {}
func (c *countClient) RefreshRoute(*bnet.Prefix, []*route.Path)           { c.refreshes.Add(1) }
func (c *countClient) Dispose()                                           {}

// ---------------------------------------------------------------- the table pipeline

const nPfx = 12

func pfx(i int) *bnet.Prefix {
	return bnet.NewPfx(bnet.IPv4FromOctets(10, byte(i%nPfx), 0, 0), 16).Dedup()
}

func bgpPath(peer int, variant int) *route.Path {
	asp := types.ASPath{{Type: types.ASSequence, ASNs: []uint32{uint32(65100 + peer), uint32(65200 + variant%3)}}}
	return &route.Path{
		Type: route.BGPPathType,
		BGPPath: &route.BGPPath{
			ASPath:    &asp,
			ASPathLen: 2,
			BGPPathA: &route.BGPPathA{
				Source:    bnet.IPv4FromOctets(192, 0, 2, byte(10+peer)).Dedup(),
				NextHop:   bnet.IPv4FromOctets(192, 0, 2, byte(10+peer)).Dedup(),
				LocalPref: uint32(100 + variant%2),
				EBGP:      true,
			},
		},
	}
}

func staticPath(i int) *route.Path {
	return &route.Path{Type: route.StaticPathType, StaticPath: &route.StaticPath{NextHop: bnet.IPv4FromOctets(10, 255, 0, byte(1+i%3)).Dedup()}}
}

func chainVariant(i int) filter.Chain {
	switch i % 3 {
	case 0:
		return filter.NewAcceptAllFilterChain()
	case 1:
		// accept, but rewrite local-pref: a different chain with a different result
		return filter.Chain{filter.NewFilter("lp", []*filter.Term{filter.NewTerm("t", nil,
			[]actions.Action{actions.NewSetLocalPrefAction(uint32(150 + i%2)), actions.NewAcceptAction()})})}
	default:
		// reject the upper half of the prefixes
		return filter.Chain{filter.NewFilter("half", []*filter.Term{
			filter.NewTerm("rej", []*filter.TermCondition{filter.NewTermConditionWithRouteFilters(
				filter.NewRouteFilter(bnet.NewPfx(bnet.IPv4FromOctets(10, 8, 0, 0), 13).Dedup(), filter.NewOrLongerMatcher()))},
				[]actions.Action{actions.NewRejectAction()}),
			filter.NewTerm("acc", nil, []actions.Action{actions.NewAcceptAction()})})}
	}
}

type pipeline struct {
	v     *vrf.VRF
	lr    *locRIB.LocRIB
	ins   []*adjRIBIn.AdjRIBIn
	outs  []*adjRIBOut.AdjRIBOut
	sinks []*countClient
}

var vrfSeq atomic.Uint64

func sessionAttrs(peer int, addPath bool) routingtable.SessionAttrs {
	return routingtable.SessionAttrs{
		RouterID: 0x0a000001, PeerIP: bnet.IPv4FromOctets(192, 0, 2, byte(10+peer)).Dedup(),
		LocalIP: bnet.IPv4FromOctets(192, 0, 2, 1).Dedup(), Type: route.BGPPathType,
		LocalASN: 65000, PeerASN: uint32(65100 + peer), AddPathTX: addPath, DefaultLocalPreference: 100,
	}
}

func newPipeline(nIn, nOut int) (*pipeline, error) {
	id := vrfSeq.Add(1)
	v, err := vrf.New(fmt.Sprintf("stress-%d", id), 1000+id)
	if err != nil {
		return nil, err
	}
	lr := v.IPv4UnicastRIB()
	p := &pipeline{v: v, lr: lr}
	for i := 0; i < nIn; i++ {
		in := adjRIBIn.New(filter.NewAcceptAllFilterChain(), v, sessionAttrs(i, false))
		in.Register(lr)
		p.ins = append(p.ins, in)
	}
	for i := 0; i < nOut; i++ {
		addPath := i%2 == 1
		out := adjRIBOut.New(lr, sessionAttrs(20+i, addPath), filter.NewAcceptAllFilterChain())
		sink := &countClient{}
		out.Register(sink)
		opts := routingtable.ClientOptions{BestOnly: true}
		if addPath {
			opts = routingtable.ClientOptions{MaxPaths: 3}
		}
		lr.RegisterWithOptions(out, opts)
		p.outs = append(p.outs, out)
		p.sinks = append(p.sinks, sink)
	}
	return p, nil
}

func (p *pipeline) preload() {
	for i := 0; i < nPfx; i++ {
		for k, in := range p.ins {
			in.AddPath(pfx(i), bgpPath(k, i))
		}
	}
}

// workers runs g goroutines of n random operations each
func workers(a args, op func(r *hx.RNG, w int)) {
	var wg sync.WaitGroup
	var first atomic.Value // a panic of the code under test in a worker is reported as the outcome of the case
	root := hx.NewRNG(a.seed)
	for w := 0; w < a.g; w++ {
		wg.Add(1)
		r := root.Fork(uint64(w))
		go func(w int) {
			defer wg.Done()
			defer func() {
				if p := recover(); p != nil {
					buf := make([]byte, 1<<14)
					buf = buf[:runtime.Stack(buf, false)]
					first.CompareAndSwap(nil, fmt.Sprintf("%v in %s", p, panicFrame(string(buf))))
				}
			}()
			for i := 0; i < a.n; i++ {
				op(r, w)
			}
		}(w)
	}
	wg.Wait()
	if p := first.Load(); p != nil {
		panic(p)
	}
}

// panicFrame: the innermost bio-rd function on the stack of a panic
func panicFrame(stack string) string {
	for _, l := range strings.Split(stack, "\n") {
		if strings.HasPrefix(l, modPrefix) && !strings.Contains(l, ".Verif") {
			return canonFunc(l)
		}
	}
	return "?"
}

func (p *pipeline) readOp(r *hx.RNG) {
	switch r.Intn(10) {
	case 0:
		_ = len(p.lr.Dump())
	case 1:
		_ = p.lr.Count()
	case 2:
		_ = p.lr.ClientCount()
	case 3:
		_ = p.lr.ContainsPfxPath(pfx(r.Intn(nPfx)), bgpPath(0, 0))
	case 4:
		_ = len(p.outs[r.Intn(len(p.outs))].Dump())
	case 5:
		_ = len(p.ins[r.Intn(len(p.ins))].Dump())
	case 6:
		_ = p.lr.Get(pfx(r.Intn(nPfx))) != nil
	case 7:
		_ = len(p.lr.Print())
	case 8:
		_ = p.outs[r.Intn(len(p.outs))].RouteCount() + p.ins[r.Intn(len(p.ins))].RouteCount()
	case 9:
		_ = len(p.lr.LPM(pfx(r.Intn(nPfx)))) + len(p.lr.GetLonger(bnet.NewPfx(bnet.IPv4FromOctets(10, 0, 0, 0), 8).Dedup()))
	}
}

// readAll does what the API server, the RIS and the CLI do with a dump: read every field of every route and path
func readAll(rs []*route.Route) int {
	n := 0
	for i, r := range rs {
		if r == nil {
			continue
		}
		n += len(r.ToProto().Paths)
		for _, p := range r.Paths() {
			n += int(p.HiddenReason)
			if i < 2 { // the textual forms are expensive; two routes per dump are enough to touch every field
				n += len(p.String())
			}
		}
		if i < 2 {
			n += len(r.Print())
		}
	}
	return n
}

// deepReadOp: dumps and lookups of all three table kinds followed by reading everything they returned
func (p *pipeline) deepReadOp(r *hx.RNG) {
	switch r.Intn(8) {
	case 0:
		readAll(p.lr.Dump())
	case 1:
		readAll(p.ins[r.Intn(len(p.ins))].Dump())
	case 2:
		readAll(p.outs[r.Intn(len(p.outs))].Dump())
	case 3:
		readAll([]*route.Route{p.lr.Get(pfx(r.Intn(nPfx)))})
	case 4:
		readAll(p.lr.LPM(pfx(r.Intn(nPfx))))
	case 5:
		readAll(p.ins[r.Intn(len(p.ins))].GetLonger(bnet.NewPfx(bnet.IPv4FromOctets(10, 0, 0, 0), 8).Dedup()))
	case 6:
		readAll([]*route.Route{p.outs[r.Intn(len(p.outs))].Get(pfx(r.Intn(nPfx)))})
	case 7:
		_ = len(p.outs[r.Intn(len(p.outs))].Print()) + len(p.lr.Print()) + len(p.lr.String())
	}
}

func (p *pipeline) routeOp(r *hx.RNG) {
	k := r.Intn(len(p.ins))
	switch r.Intn(6) {
	case 0, 1, 2:
		p.ins[k].AddPath(pfx(r.Intn(nPfx)), bgpPath(k, r.Intn(6)))
	case 3:
		p.ins[k].RemovePath(pfx(r.Intn(nPfx)), bgpPath(k, r.Intn(6)))
	case 4:
		i := r.Intn(nPfx)
		p.lr.AddPath(pfx(i), staticPath(i))
	case 5:
		i := r.Intn(nPfx)
		p.lr.RemovePath(pfx(i), staticPath(i))
	}
}

func stressTables(a args) string {
	p, err := newPipeline(3, 3)
	if err != nil {
		return err.Error()
	}
	p.preload()
	var extraMu sync.Mutex
	var extra []*countClient
	switch a.mix {
	case "routes":
		// concurrent route changes from every source, import policy replacement, readers
		workers(a, func(r *hx.RNG, w int) {
			switch x := r.Intn(10); {
			case x < 6:
				p.routeOp(r)
			case x < 7:
				p.ins[r.Intn(len(p.ins))].ReplaceFilterChain(chainVariant(r.Intn(3)))
			default:
				p.readOp(r)
			}
		})
	case "readers":
		// API / CLI style readers (dump or lookup, then read every field) against route changes, import policy
		// replacement and client registrations
		workers(a, func(r *hx.RNG, w int) {
			switch x := r.Intn(20); {
			case x < 9:
				p.routeOp(r)
			case x < 10:
				p.ins[r.Intn(len(p.ins))].ReplaceFilterChain(chainVariant(r.Intn(3)))
			case x < 11:
				c := &countClient{}
				p.lr.RegisterWithOptions(c, routingtable.ClientOptions{MaxPaths: 2})
				p.lr.Unregister(c)
			default:
				p.deepReadOp(r)
			}
		})
	case "clients":
		// registrations / unregistrations of clients while routes change
		workers(a, func(r *hx.RNG, w int) {
			switch x := r.Intn(10); {
			case x < 4:
				p.routeOp(r)
			case x < 6:
				c := &countClient{}
				if r.Bool() {
					p.lr.RegisterWithOptions(c, routingtable.ClientOptions{MaxPaths: 2})
				} else {
					p.lr.Register(c)
				}
				extraMu.Lock()
				extra = append(extra, c)
				extraMu.Unlock()
			case x < 8:
				extraMu.Lock()
				var c *countClient
				if len(extra) > 0 {
					c = extra[len(extra)-1]
					extra = extra[:len(extra)-1]
				}
				extraMu.Unlock()
				if c != nil {
					p.lr.Unregister(c)
				}
			case x < 9:
				// a new Adj-RIB-Out joins and leaves
				out := adjRIBOut.New(p.lr, sessionAttrs(40+w, false), filter.NewAcceptAllFilterChain())
				out.Register(&countClient{})
				p.lr.RegisterWithOptions(out, routingtable.ClientOptions{BestOnly: true})
				p.lr.Unregister(out)
			default:
				p.readOp(r)
			}
		})
	case "policy-quiet":
		// export policy replacement, registrations and readers while no route changes
		workers(a, func(r *hx.RNG, w int) {
			switch x := r.Intn(10); {
			case x < 4:
				p.outs[w%len(p.outs)].ReplaceFilterChain(chainVariant(r.Intn(3)))
			case x < 6:
				c := &countClient{}
				p.lr.Register(c)
				p.lr.Unregister(c)
			default:
				p.readOp(r)
			}
		})
	case "teardown":
		// sources are flushed / unregistered and the table is disposed while routes still change
		var once [3]sync.Once
		var disposed sync.Once
		workers(a, func(r *hx.RNG, w int) {
			switch x := r.Intn(40); {
			case x < 30:
				p.routeOp(r)
			case x < 33:
				k := r.Intn(len(p.ins))
				p.ins[k].Flush()
			case x < 35:
				k := r.Intn(len(p.ins))
				once[k].Do(func() { p.ins[k].Unregister(p.lr) })
			case x < 36:
				disposed.Do(func() { p.lr.Dispose() })
			default:
				p.readOp(r)
			}
		})
	default:
		return "unknown mix " + a.mix
	}
	return ""
}

// ---------------------------------------------------------------- the server scenario

type sinkConn struct {
	closed chan struct{}
	once   sync.Once
	n      atomic.Int64
	delay  atomic.Int64 // nanoseconds per write: a peer that reads slowly
}

func newSinkConn() *sinkConn { return &sinkConn{closed: make(chan struct{})} }

type addr string

func (a addr) Network() string { return "tcp" }
func (a addr) String() string  { return string(a) }

func (c *sinkConn) Read(b []byte) (int, error)       { <-c.closed; return 0, net.ErrClosed }
func (c *sinkConn) Write(b []byte) (int, error) {
	if d := c.delay.Load(); d > 0 {
		time.Sleep(time.Duration(d))
	}
	c.n.Add(int64(len(b)))
	return len(b), nil
}
func (c *sinkConn) Close() error                     { c.once.Do(func() { close(c.closed) }); return nil }
func (c *sinkConn) LocalAddr() net.Addr              { return addr("192.0.2.1:179") }
func (c *sinkConn) RemoteAddr() net.Addr             { return addr("192.0.2.2:179") }
func (c *sinkConn) SetDeadline(time.Time) error      { return nil }
func (c *sinkConn) SetReadDeadline(time.Time) error  { return nil }
func (c *sinkConn) SetWriteDeadline(time.Time) error { return nil }

type srvEnv struct {
	b     server.BGPServer
	v     *vrf.VRF
	lr    *locRIB.LocRIB
	peers []*bnet.IP
	conns []*sinkConn
}

func (e *srvEnv) setDelay(k int, d time.Duration) { e.conns[k].delay.Store(int64(d)) }

func peerConfig(v *vrf.VRF, i int, reconnect time.Duration) server.PeerConfig {
	return server.PeerConfig{
		AdminEnabled: true, ReconnectInterval: reconnect, KeepAlive: 30 * time.Second, HoldTime: 90 * time.Second,
		LocalAddress: bnet.IPv4FromOctets(127, 0, 0, 1).Dedup(), PeerAddress: bnet.IPv4FromOctets(127, 0, 1, byte(1+i)).Dedup(),
		LocalAS: 65000, PeerAS: uint32(65100 + i), RouterID: 0x0a000001, VRF: v,
		IPv4: &server.AddressFamilyConfig{
			ImportFilterChain: filter.NewAcceptAllFilterChain(), ExportFilterChain: filter.NewAcceptAllFilterChain(),
			AddPathSend: routingtable.ClientOptions{BestOnly: true}, AddPathRecv: addPathRX(i),
		},
		IPv6: &server.AddressFamilyConfig{
			ImportFilterChain: filter.NewAcceptAllFilterChain(), ExportFilterChain: filter.NewAcceptAllFilterChain(),
			AddPathSend: routingtable.ClientOptions{BestOnly: true}, AddPathRecv: addPathRX(i),
		},
	}
}

// sessions with an odd index have negotiated add-path receive
func addPathRX(i int) bool { return i%2 == 1 }

func pfx6(i int) *bnet.Prefix {
	return bnet.NewPfx(bnet.IPv6FromBlocks(0x2001, 0xdb8, uint16(i%nPfx), 0, 0, 0, 0, 0), 48).Dedup()
}

func newServer(nPeers int) (*srvEnv, error) { return newServerSlow(nPeers, 0) }

func newServerSlow(nPeers int, delay time.Duration) (*srvEnv, error) {
	id := vrfSeq.Add(1)
	v, err := vrf.New(fmt.Sprintf("srv-%d", id), 2000+id)
	if err != nil {
		return nil, err
	}
	lr := v.IPv4UnicastRIB()
	b := server.NewBGPServer(server.BGPServerConfig{RouterID: 0x0a000001, DefaultVRF: v, ListenAddrsByVRF: map[string][]string{}})
	e := &srvEnv{b: b, v: v, lr: lr}
	for i := 0; i < nPeers; i++ {
		c := peerConfig(v, i, 0)
		con := newSinkConn()
		con.delay.Store(int64(delay))
		if err := server.VerifC25AddEstablishedPeer(b, c, con); err != nil {
			return nil, err
		}
		e.peers = append(e.peers, c.PeerAddress)
		e.conns = append(e.conns, con)
	}
	// one message per session: the FSM goroutine takes it only after it has set up its RIBs, so everything
	// the harness does from here on is ordered after the session initialisation
	for k := range e.peers {
		if !server.VerifC25Inject(b, v, e.peers[k], updateMsg(k, []int{0}, false, 0), 10*time.Second) {
			return nil, fmt.Errorf("session %d did not come up", k)
		}
	}
	return e, nil
}

// updateMsg builds an UPDATE as the peer would send it.  kind: 0 classic IPv4 NLRI / withdrawn routes,
// 1 MP_REACH / MP_UNREACH for IPv4 unicast, 2 MP_REACH / MP_UNREACH for IPv6 unicast.
func updateMsg(peer int, pfxs []int, withdraw bool, variant int) []byte {
	return updateMsgKind(peer, pfxs, withdraw, variant, 0)
}

func updateMsgKind(peer int, pfxs []int, withdraw bool, variant int, kind int) []byte {
	u := &packet.BGPUpdate{}
	var nl *packet.NLRI
	for j, i := range pfxs {
		p := pfx(i)
		if kind == 2 {
			p = pfx6(i)
		}
		nl = &packet.NLRI{Prefix: p, Next: nl, PathIdentifier: uint32(1 + (variant+j)%2)}
	}
	asp := types.ASPath{{Type: types.ASSequence, ASNs: []uint32{uint32(65100 + peer), uint32(65200 + variant%3)}}}
	attrs := func(next *packet.PathAttribute) *packet.PathAttribute {
		return &packet.PathAttribute{TypeCode: packet.OriginAttr, Value: uint8(0),
			Next: &packet.PathAttribute{TypeCode: packet.ASPathAttr, Value: &asp, Next: next}}
	}
	nh4 := bnet.IPv4FromOctets(127, 0, 1, byte(1+peer)).Dedup()
	nh6 := bnet.IPv6FromBlocks(0x2001, 0xdb8, 0xffff, 0, 0, 0, 0, uint16(1+peer)).Dedup()
	switch {
	case kind == 0 && withdraw:
		u.WithdrawnRoutes = nl
	case kind == 0:
		u.NLRI = nl
		u.PathAttributes = attrs(&packet.PathAttribute{TypeCode: packet.NextHopAttr, Value: nh4})
	case withdraw:
		afi := uint16(packet.AFIIPv4)
		if kind == 2 {
			afi = packet.AFIIPv6
		}
		u.PathAttributes = &packet.PathAttribute{TypeCode: packet.MultiProtocolUnreachNLRIAttr, Optional: true,
			Value: packet.MultiProtocolUnreachNLRI{AFI: afi, SAFI: packet.SAFIUnicast, NLRI: nl}}
	default:
		afi, nh := uint16(packet.AFIIPv4), nh4
		if kind == 2 {
			afi, nh = packet.AFIIPv6, nh6
		}
		u.PathAttributes = attrs(&packet.PathAttribute{TypeCode: packet.MultiProtocolReachNLRIAttr, Optional: true,
			Value: packet.MultiProtocolReachNLRI{AFI: afi, SAFI: packet.SAFIUnicast, NextHop: nh, NLRI: nl}})
	}
	b, err := u.SerializeUpdate(&packet.EncodeOptions{UseAddPath: addPathRX(peer)})
	if err != nil {
		panic("cannot serialize update: " + err.Error())
	}
	return b
}

func (e *srvEnv) inject(r *hx.RNG, k int) bool { return e.injectT(r, k, 10*time.Second) }

func (e *srvEnv) injectT(r *hx.RNG, k int, timeout time.Duration) bool {
	n := 1 + r.Intn(4)
	kind := r.Intn(3)
	if kind != 0 && n < 2 {
		n = 2 // several prefixes in one MP_REACH_NLRI: they share the attributes of the UPDATE
	}
	var ps []int
	for i := 0; i < n; i++ {
		ps = append(ps, r.Intn(nPfx))
	}
	return server.VerifC25Inject(e.b, e.v, e.peers[k], updateMsgKind(k, ps, r.Chance(30), r.Intn(6), kind), timeout)
}

func stressServer(a args) string {
	e, err := newServer(3)
	if err != nil {
		return err.Error()
	}
	var failed atomic.Int64
	switch a.mix {
	case "updates":
		// UPDATEs arrive on every session (each FSM goroutine feeds its Adj-RIB-In, the Loc-RIB, the other
		// sessions' Adj-RIB-Outs and update senders), import policies are replaced
		workers(a, func(r *hx.RNG, w int) {
			k := w % len(e.peers)
			switch x := r.Intn(10); {
			case x < 8:
				if !e.inject(r, k) {
					failed.Add(1)
				}
			case x < 9:
				e.b.ReplaceImportFilterChain(e.v, e.peers[r.Intn(len(e.peers))], chainVariant(r.Intn(3)))
			default:
				_ = len(e.b.GetPeers())
			}
		})
	case "api":
		// what the BGP API server, the metrics service and the CLI do while UPDATEs are processed: DumpRIBIn /
		// DumpRIBOut (GetRIBIn/GetRIBOut + Dump + ToProto), GetPeers, GetPeerConfig, metrics, Loc-RIB dumps
		workers(a, func(r *hx.RNG, w int) {
			k := r.Intn(len(e.peers))
			switch x := r.Intn(20); {
			case x < 9:
				if !e.inject(r, w%len(e.peers)) {
					failed.Add(1)
				}
			case x < 10:
				e.b.ReplaceImportFilterChain(e.v, e.peers[k], chainVariant(r.Intn(3)))
			case x < 12:
				if rib := safeRIBIn(e, k); rib != nil {
					readAll(rib.Dump())
				}
			case x < 13:
				if rib := e.b.GetRIBIn(e.v, e.peers[k], packet.AFIIPv6, packet.SAFIUnicast); rib != nil {
					readAll(rib.Dump())
				}
				readAll(e.v.IPv6UnicastRIB().Dump())
			case x < 15:
				if rib := e.b.GetRIBOut(e.v, e.peers[k], packet.AFIIPv4, packet.SAFIUnicast); rib != nil {
					readAll(rib.Dump())
				}
			case x < 17:
				readAll(e.lr.Dump())
			case x < 18:
				e.b.Metrics()
			case x < 19:
				_ = len(e.b.GetPeers())
			default:
				_ = e.b.GetPeerConfig(e.v, e.peers[k]) != nil
			}
		})
	case "teardown":
		// a session goes down (Cease -> uninit -> dispose -> sender teardown) while its update sender is busy flushing to a
		// peer that reads slowly, then comes up again (new FSM, new RIBs, new sender) and goes down once more; the other
		// sessions keep receiving UPDATEs; readers dump the Loc-RIB and the RIBs of the sessions that stay up
		e.setDelay(2, time.Millisecond) // session 2 is the slow reader whose sender is always busy
		var injected atomic.Int64
		stop := make(chan struct{})
		var ctl sync.WaitGroup
		ctl.Add(1)
		go func() { // controller: every ~30 received UPDATEs session 2 goes down and comes up again
			defer ctl.Done()
			next := int64(30)
			up := true
			for {
				select {
				case <-stop:
					return
				default:
				}
				if injected.Load() < next {
					time.Sleep(500 * time.Microsecond)
					continue
				}
				next += 30
				if up {
					e.b.DisposePeer(e.v, e.peers[2])
				} else {
					con := newSinkConn()
					con.delay.Store(int64(time.Millisecond))
					if err := server.VerifC25AddEstablishedPeer(e.b, peerConfig(e.v, 2, 0), con); err != nil {
						failed.Add(1)
					}
				}
				up = !up
			}
		}()
		workers(a, func(r *hx.RNG, w int) {
			switch x := r.Intn(20); {
			case x < 14:
				if e.injectT(r, r.Intn(2), 5*time.Second) { // sessions 0 and 1 stay up
					injected.Add(1)
				}
			case x < 17:
				readAll(e.lr.Dump())
			default:
				if rib := e.b.GetRIBIn(e.v, e.peers[r.Intn(2)], packet.AFIIPv4, packet.SAFIUnicast); rib != nil {
					readAll(rib.Dump())
				}
			}
		})
		close(stop)
		ctl.Wait()
	case "control":
		// session control against traffic: metrics, RIB dumps, import policy, and finally disposal of every peer
		var disposed [3]sync.Once
		var gone [3]atomic.Bool
		workers(a, func(r *hx.RNG, w int) {
			k := r.Intn(len(e.peers))
			switch x := r.Intn(40); {
			case x < 24:
				if !gone[k].Load() {
					e.injectT(r, k, 300*time.Millisecond) // may time out when the peer is being disposed
				}
			case x < 28:
				e.b.ReplaceImportFilterChain(e.v, e.peers[k], chainVariant(r.Intn(3)))
			case x < 32:
				e.b.Metrics()
			case x < 35:
				if rib := safeRIBIn(e, k); rib != nil {
					_ = rib.RouteCount()
				}
			case x < 36:
				disposed[k].Do(func() { gone[k].Store(true); e.b.DisposePeer(e.v, e.peers[k]) })
			default:
				_ = len(e.b.GetPeers())
			}
		})
		for k := range e.peers {
			disposed[k].Do(func() { e.b.DisposePeer(e.v, e.peers[k]) })
		}
	default:
		return "unknown mix " + a.mix
	}
	if failed.Load() > 0 {
		return fmt.Sprintf("%d injected messages were not taken by the FSM within 10s", failed.Load())
	}
	return ""
}

func safeRIBIn(e *srvEnv, k int) (rib *adjRIBIn.AdjRIBIn) {
	defer func() { recover() }() // GetRIBIn type-asserts a nil interface after the session is gone
	return e.b.GetRIBIn(e.v, e.peers[k], packet.AFIIPv4, packet.SAFIUnicast)
}

// ---------------------------------------------------------------- witnesses: deadlocks

// gate: a filter action that parks the calling goroutine until released
type gateAction struct {
	armed   atomic.Bool
	entered chan struct{}
	release chan struct{}
}

func (g *gateAction) Do(p *bnet.Prefix, pa *route.Path) actions.Result {
	if g.armed.CompareAndSwap(true, false) {
		close(g.entered)
		<-g.release
	}
	return actions.Result{Path: pa}
}
func (g *gateAction) Equal(x actions.Action) bool { return x == actions.Action(g) }

// Loc-RIB <-> Adj-RIB-Out lock order inversion:
//
//	T1  LocRIB.AddPath        holds LocRIB.mu,    then AdjRIBOut.AddPath wants AdjRIBOut.mu
//	T2  AdjRIBOut.ReplaceFilterChain holds AdjRIBOut.mu, then LocRIB.RefreshClient wants LocRIB.mu
//
// T1 is parked inside the export filter (evaluated by AdjRIBOut.AddPath before it locks) until T2 holds its lock.
func witnessLockOrder(a args) string {
	v, err := vrf.New(fmt.Sprintf("w-%d", vrfSeq.Add(1)), 3000+vrfSeq.Add(1))
	if err != nil {
		return err.Error()
	}
	lr := v.IPv4UnicastRIB()
	g := &gateAction{entered: make(chan struct{}), release: make(chan struct{})}
	chain := filter.Chain{filter.NewFilter("gate", []*filter.Term{filter.NewTerm("t", nil, []actions.Action{g, actions.NewAcceptAction()})})}
	out := adjRIBOut.New(lr, sessionAttrs(1, false), chain)
	out.Register(&countClient{})
	lr.RegisterWithOptions(out, routingtable.ClientOptions{BestOnly: true})
	lr.AddPath(pfx(0), bgpPath(0, 0)) // something to refresh
	g.armed.Store(true)
	var wg sync.WaitGroup
	wg.Add(2)
	go func() { defer wg.Done(); lr.AddPath(pfx(1), bgpPath(0, 1)) }() // T1
	<-g.entered                                                        // T1 holds LocRIB.mu, is inside AdjRIBOut.AddPath before a.mu.Lock()
	go func() { defer wg.Done(); out.ReplaceFilterChain(filter.NewAcceptAllFilterChain()) }()
	time.Sleep(300 * time.Millisecond) // T2 holds AdjRIBOut.mu and waits for LocRIB.mu
	close(g.release)
	wg.Wait()
	return ""
}

// Regression (must complete): an export policy replacement on add-path sessions whose Loc-RIB holds paths that are
// never propagated to them (iBGP-learned path towards an iBGP non-client; OTC route towards a provider).  Every such
// outcome of checkPropagateUpdate that withdrew the prefix (removePathsForPrefix locks a.mu) from inside RefreshRoute
// would block ReplaceFilterChain on its own mutex -- the path the lock table lists as the (infeasible) self edge.
func regressRefreshNonPropagated(a args) string {
	v, err := vrf.New(fmt.Sprintf("w-%d", vrfSeq.Add(1)), 3000+vrfSeq.Add(1))
	if err != nil {
		return err.Error()
	}
	lr := v.IPv4UnicastRIB()
	ibgp := sessionAttrs(1, true)
	ibgp.IBGP, ibgp.PeerASN = true, ibgp.LocalASN
	prov := sessionAttrs(2, true)
	prov.PeerRoleEnabled, prov.PeerRoleAdvByPeer, prov.PeerRoleRemote = true, true, packet.PeerRoleRoleProvider
	var outs []*adjRIBOut.AdjRIBOut
	for _, sa := range []routingtable.SessionAttrs{ibgp, prov} {
		out := adjRIBOut.New(lr, sa, filter.NewAcceptAllFilterChain())
		out.Register(&countClient{})
		lr.RegisterWithOptions(out, routingtable.ClientOptions{MaxPaths: 4})
		outs = append(outs, out)
	}
	for i := 0; i < 4; i++ {
		p := bgpPath(0, i)
		p.BGPPath.BGPPathA.EBGP = i%2 == 0 // every second path was learned over iBGP
		if i >= 2 {
			p.BGPPath.BGPPathA.OnlyToCustomer = 65300 // must not go to a provider
		}
		lr.AddPath(pfx(i%2), p)
	}
	for round := 0; round < 3; round++ {
		for _, out := range outs {
			out.ReplaceFilterChain(chainVariant(round + 1))
		}
	}
	return ""
}

// ClientManager.RegisterWithOptions returns with the lock held once the manager is at its end of life.
func witnessLeak(a args) string {
	lr := locRIB.New("leak")
	cm := routingtable.NewClientManager(lr)
	cm.Dispose()
	cm.RegisterWithOptions(&countClient{}, routingtable.ClientOptions{BestOnly: true})
	_ = cm.ClientCount() // never returns
	return ""
}

// peer.stop sends on the unbuffered event channel of every FSM while holding fsmsMu: the second stop of a
// peer (two DisposePeer calls that both looked the peer up before either removed it) finds the FSM goroutine
// gone and blocks for ever, with the lock held.
func witnessStopAfterCease(a args) string {
	e, err := newServer(1)
	if err != nil {
		return err.Error()
	}
	if !server.VerifC25PeerStop(e.b, e.v, e.peers[0]) {
		return "peer not found"
	}
	time.Sleep(200 * time.Millisecond) // the FSM goroutine handles Cease and ends
	server.VerifC25PeerStop(e.b, e.v, e.peers[0])
	return ""
}

// ---------------------------------------------------------------- witnesses: races
//
// The two conflicting operations run one after the other (second one after a sleep, which creates no
// happens-before edge), so the detector sees the unordered accesses without any real contention.

func unordered(first, second func()) {
	var wg sync.WaitGroup
	wg.Add(2)
	go func() { defer wg.Done(); first() }()
	go func() { defer wg.Done(); time.Sleep(150 * time.Millisecond); second() }()
	wg.Wait()
}

// a route handed out by LocRIB.Get is read (Route.Paths takes no lock) while AddPath changes it
func witnessRaceRoutePaths(a args) string {
	p, err := newPipeline(1, 1)
	if err != nil {
		return err.Error()
	}
	p.ins[0].AddPath(pfx(0), bgpPath(0, 0))
	r := p.lr.Get(pfx(0))
	unordered(
		func() { p.lr.AddPath(pfx(0), staticPath(0)) },
		func() { _ = len(r.Paths()) })
	return ""
}

// AdjRIBIn.Unregister walks the table without the Adj-RIB-In lock while AddPath changes it.  The client being
// unregistered pauses in its first RemovePath callback; meanwhile a route that Unregister has not visited yet
// is changed, then Unregister reads it.
type pausingClient struct {
	countClient
	once    sync.Once
	entered chan struct{}
}

func (c *pausingClient) RemovePath(*bnet.Prefix, *route.Path) bool {
	c.once.Do(func() { close(c.entered); time.Sleep(200 * time.Millisecond) }) // no edge back from the writer
	return true
}

func witnessRaceUnregister(a args) string {
	p, err := newPipeline(1, 1)
	if err != nil {
		return err.Error()
	}
	for i := 0; i < 4; i++ {
		p.ins[0].AddPath(pfx(i), bgpPath(0, 0))
	}
	c := &pausingClient{entered: make(chan struct{})}
	p.ins[0].Register(c)
	var fresh [4]*route.Path
	for i := range fresh {
		fresh[i] = bgpPath(0, 1)
	}
	var wg sync.WaitGroup
	wg.Add(2)
	go func() { defer wg.Done(); p.ins[0].Unregister(c) }()
	go func() {
		defer wg.Done()
		<-c.entered
		for i := 0; i < 4; i++ {
			p.ins[0].AddPath(pfx(i), fresh[i])
		}
	}()
	wg.Wait()
	return ""
}

// AdjRIBOut.AddPath evaluates exportFilterChain before taking the lock; ReplaceFilterChain writes it
func witnessRaceExportChain(a args) string {
	p, err := newPipeline(1, 1)
	if err != nil {
		return err.Error()
	}
	c := chainVariant(1)
	unordered(
		func() { p.outs[0].ReplaceFilterChain(c) },
		func() { p.outs[0].AddPath(pfx(0), bgpPath(0, 0)) })
	return ""
}

// the metrics service reads FSM.state / establishedTime without stateMu while the FSM goroutine moves on
func witnessRaceMetrics(a args) string {
	e, err := newServer(1)
	if err != nil {
		return err.Error()
	}
	r := hx.NewRNG(1)
	unordered(
		func() { e.inject(r, 0); e.inject(r, 0) },
		func() { e.b.Metrics() })
	return ""
}
