package bmpx

import (
	"encoding/hex"
	"fmt"
	"math/big"
	"net/netip"
	"sort"
	"strconv"
	"strings"

	"github.com/bio-routing/bio-rd/protocols/bgp/server"
	bmppkt "github.com/bio-routing/bio-rd/protocols/bmp/packet"
)

// Cfg is the router configuration of a case.
type Cfg struct {
	IgnoreASNs            []uint32
	IgnorePre, IgnorePost bool
}

func (c Cfg) Token() string {
	as := "-"
	if len(c.IgnoreASNs) > 0 {
		var p []string
		for _, a := range c.IgnoreASNs {
			p = append(p, strconv.FormatUint(uint64(a), 10))
		}
		as = strings.Join(p, ",")
	}
	return fmt.Sprintf("cfg=%s/%d%d", as, b2i(c.IgnorePre), b2i(c.IgnorePost))
}

func ParseCfg(tok string) (Cfg, error) {
	var c Cfg
	if !strings.HasPrefix(tok, "cfg=") {
		return c, fmt.Errorf("bad cfg token %q", tok)
	}
	p := strings.SplitN(tok[4:], "/", 2)
	if len(p) != 2 || len(p[1]) != 2 {
		return c, fmt.Errorf("bad cfg token %q", tok)
	}
	if p[0] != "-" {
		for _, a := range strings.Split(p[0], ",") {
			v, err := strconv.ParseUint(a, 10, 32)
			if err != nil {
				return c, err
			}
			c.IgnoreASNs = append(c.IgnoreASNs, uint32(v))
		}
	}
	c.IgnorePre, c.IgnorePost = p[1][0] == '1', p[1][1] == '1'
	return c, nil
}

func (c Cfg) Router() server.RouterConfig {
	return server.RouterConfig{Passive: true, IgnorePeerASNs: c.IgnoreASNs, IgnorePrePolicy: c.IgnorePre, IgnorePostPolicy: c.IgnorePost}
}

func b2i(b bool) int {
	if b {
		return 1
	}
	return 0
}

func u32list(xs []uint32) string {
	if len(xs) == 0 {
		return "-"
	}
	var p []string
	for _, x := range xs {
		p = append(p, strconv.FormatUint(uint64(x), 10))
	}
	return strings.Join(p, ".")
}

func hexN(b []byte) string { return new(big.Int).SetBytes(b).Text(16) }

// SrcTok renders an address string as "4.<hex>" / "6.<hex>".
func SrcTok(s string) string {
	a, err := netip.ParseAddr(s)
	if err != nil {
		return "?" + s
	}
	if a.Is4() {
		x := a.As4()
		return "4." + hexN(x[:])
	}
	x := a.As16()
	return "6." + hexN(x[:])
}

// PfxTok renders a prefix string as "<hexaddr>/<len>".
func PfxTok(s string) string {
	p, err := netip.ParsePrefix(s)
	if err != nil {
		return "?" + s
	}
	if p.Addr().Is4() {
		x := p.Addr().As4()
		return fmt.Sprintf("%s/%d", hexN(x[:]), p.Bits())
	}
	x := p.Addr().As16()
	return fmt.Sprintf("%s/%d", hexN(x[:]), p.Bits())
}

func pathTok(p server.VerifBMPPath) string {
	return fmt.Sprintf("%s~%s~%d", SrcTok(p.Source), PfxTok(p.Prefix), p.PathID)
}

func tableTok(v *server.VerifBMP, rd uint64, v6 bool) string {
	ps, _ := v.Dump(rd, v6)
	var out []string
	for _, p := range ps {
		out = append(out, pathTok(p))
	}
	sort.Strings(out)
	return strings.Join(out, ",")
}

// Digest is the canonical rendering of the router state compared with the model.
func Digest(v *server.VerifBMP) string {
	var sb strings.Builder
	c := v.Counters()
	sb.WriteString("c=")
	for i, x := range c {
		if i > 0 {
			sb.WriteByte('.')
		}
		sb.WriteString(strconv.FormatUint(x, 10))
	}
	sb.WriteString("|n=")
	rids := v.NeighborRouterIDs()
	for i, n := range v.Neighbors() {
		if i > 0 {
			sb.WriteByte(',')
		}
		rid := uint32(0)
		if i < len(rids) {
			rid = rids[i]
		}
		// k: the session's local AS is a contributing ASN of the VRF, c: the router id a contributing cluster id
		fmt.Fprintf(&sb, "%x:%s:%s:%d:%d:o%d%dr%d%da%de%d:rid%d:k%dc%d", n.VRF, hexN(n.Addr[:]), SrcTok(n.PeerIP), n.PeerAS, n.LocalAS,
			b2i(n.OptAddPath4), b2i(n.OptAddPath6), b2i(n.RIBAddPath4), b2i(n.RIBAddPath6), b2i(n.Supports4OctetASN), b2i(n.Established),
			rid, b2i(v.ContributingASN(n.VRF, n.LocalAS)), b2i(v.ContributingClusterID(n.VRF, rid)))
	}
	sb.WriteString("|i=")
	var ig []string
	for _, s := range v.IgnoredPeers() {
		ig = append(ig, SrcTok(s))
	}
	sort.Strings(ig)
	sb.WriteString(strings.Join(ig, ","))
	sb.WriteString("|v=")
	for _, rd := range v.VRFs() {
		fmt.Fprintf(&sb, "%x[%s][%s]", rd, tableTok(v, rd, false), tableTok(v, rd, true))
	}
	fmt.Fprintf(&sb, "|x=%d|nm=%s", b2i(v.Conn.IsClosed()), hex.EncodeToString([]byte(v.R.Name())))
	return sb.String()
}

// ---------------------------------------------------------------- annotations (abstract BGP layer)

// Ann collects what the model driver needs to instantiate the abstract BGP layer: the result of
// decoding every OPEN and of applying every BGP message found in the frames of a case, computed
// with the real code on a scratch router.
type Ann struct {
	seen map[string]bool
	Toks []string
	// Opts: the add-path decode option pairs (bit 0: IPv4, bit 1: IPv6) to evaluate BGP messages for
	Opts [4]bool
	// InnerPanic is set when the scratch evaluation of a BGP message panicked (a defect of the BGP
	// layer below BMP, outside the model)
	InnerPanic string
}

func NewAnn() *Ann { return &Ann{seen: map[string]bool{}} }

func (a *Ann) add(tok string) {
	if !a.seen[tok] {
		a.seen[tok] = true
		a.Toks = append(a.Toks, tok)
	}
}

func openTok(msg []byte) string {
	info := server.VerifBMPDecodeOpen(msg)
	if !info.OK {
		return "O:" + hex.EncodeToString(msg) + "=E"
	}
	a4, ap := "-", "-"
	if len(info.ASN4) > 0 {
		var p []string
		for _, x := range info.ASN4 {
			p = append(p, strconv.FormatUint(uint64(x), 10))
		}
		a4 = strings.Join(p, ",")
	}
	if len(info.AddPath) > 0 {
		var p []string
		for _, t := range info.AddPath {
			p = append(p, fmt.Sprintf("%d.%d.%d", t[0], t[1], t[2]))
		}
		ap = strings.Join(p, ",")
	}
	return fmt.Sprintf("O:%s=%d;%d;%s;%s", hex.EncodeToString(msg), info.ASN, info.BGPID, a4, ap)
}

func guard(f func()) (panicked bool, val interface{}) {
	defer func() {
		if r := recover(); r != nil {
			panicked, val = true, r
		}
	}()
	f()
	return
}

var applyCache = map[string]string{}

// ApplyUpdate runs one BGP message through the update processing of a monitored peer's pseudo FSM
// (decode options ap4/ap6/asn32) on a scratch router and returns the Adj-RIB-In calls it made.
func ApplyUpdate(ap4, ap6, asn32 bool, bgp []byte) (evs string, panicked bool) {
	key := fmt.Sprintf("%d%d%d:%s", b2i(ap4), b2i(ap6), b2i(asn32), hex.EncodeToString(bgp))
	if r, ok := applyCache[key]; ok {
		return strings.TrimPrefix(r, "!"), strings.HasPrefix(r, "!")
	}
	v := server.VerifBMPNew(server.RouterConfig{Passive: true})
	var sc, rc []Cap
	var st, rt [][3]int
	if ap4 {
		st, rt = append(st, [3]int{1, 1, 1}), append(rt, [3]int{1, 1, 2})
	}
	if ap6 {
		st, rt = append(st, [3]int{2, 1, 1}), append(rt, [3]int{2, 1, 2})
	}
	if len(st) > 0 {
		sc, rc = []Cap{CapAddPath(st...)}, []Cap{CapAddPath(rt...)}
	}
	p := PPH{RD: 0, Addr: Addr4(10, 9, 9, 9), AS: 65009, BGPID: 0x0a090909}
	v.Process(PeerUp(p, Addr4(10, 9, 9, 1), Open(65001, 180, 0x0a090901, sc, false), Open(65009, 180, 0x0a090909, rc, false), nil))
	ns := v.Neighbors()
	if len(ns) != 1 || ns[0].OptAddPath4 != ap4 || ns[0].OptAddPath6 != ap6 {
		// the scratch session could not be set up as asked: leave the annotation out
		applyCache[key] = "?"
		return "?", false
	}
	v.TakeAdjEvents()
	if !asn32 {
		p.Flags |= 0x20
	}
	pk, _ := guard(func() { v.Process(RouteMon(p, bgp)) })
	var out []string
	attrs := v.TakeAdjEventAttrs()
	for i, e := range v.TakeAdjEvents() {
		f := "4"
		if e.IPv6 {
			f = "6"
		}
		t := fmt.Sprintf("%c%s~%s~%d", e.Kind, f, PfxTok(e.Prefix), e.PathID)
		if e.Kind == 'A' {
			var a server.VerifBMPPathAttrs
			if i < len(attrs) {
				a = attrs[i]
			}
			t += fmt.Sprintf("~e%d;%s;%d;%s", b2i(a.ASPathEmpty), u32list(a.ASNs), a.OriginatorID, u32list(a.ClusterList))
		}
		out = append(out, t)
	}
	evs = "-"
	if len(out) > 0 {
		evs = strings.Join(out, ",")
	}
	if pk {
		applyCache[key] = "!" + evs
	} else {
		applyCache[key] = evs
	}
	return evs, pk
}

// Frame records the annotations for one framed message (as handed to processMsg).
func (a *Ann) Frame(msg []byte) {
	var m bmppkt.Msg
	var err error
	if pk, _ := guard(func() { m, err = bmppkt.Decode(msg) }); pk || err != nil || m == nil {
		return
	}
	switch x := m.(type) {
	case *bmppkt.PeerUpNotification:
		a.add(openTok(x.SentOpenMsg))
		a.add(openTok(x.ReceivedOpenMsg))
	case *bmppkt.RouteMonitoringMsg:
		asn32 := !x.PerPeerHeader.GetAFlag()
		for k := 0; k < 4; k++ {
			ap4, ap6 := k&1 == 1, k&2 == 2
			if !a.Opts[k] {
				continue
			}
			evs, pk := ApplyUpdate(ap4, ap6, asn32, x.BGPUpdate)
			if pk && a.InnerPanic == "" {
				a.InnerPanic = fmt.Sprintf("ap4=%v ap6=%v asn32=%v bgp=%s", ap4, ap6, asn32, hex.EncodeToString(x.BGPUpdate))
			}
			if evs == "?" {
				continue
			}
			a.add(fmt.Sprintf("U:%d%d%d:%s=%s", b2i(ap4), b2i(ap6), b2i(asn32), hex.EncodeToString(x.BGPUpdate), evs))
		}
	}
}

// ---------------------------------------------------------------- stepping a session

// Session drives one router as Router.serve does, one message at a time.
type Session struct {
	V      *server.VerifBMP
	Ann    *Ann
	Frames int
}

func NewSession(c Cfg) *Session {
	return &Session{V: server.VerifBMPNew(c.Router()), Ann: NewAnn()}
}

// Pump processes everything that is pending on the connection, like the serve loop. It returns
// "" when all pending bytes were consumed, "end" when serve would have returned (read error,
// invalid length, closed connection; cleanup was run), or "PANIC:<where>".
// after is called after every processed message.
func (s *Session) Pump(final bool, after func()) string {
	for {
		if s.V.Conn.IsClosed() {
			s.V.Cleanup()
			return "end"
		}
		if !final && s.V.Conn.Pending() == 0 {
			return ""
		}
		var msg []byte
		var err error
		if pk, val := guard(func() { msg, err = s.V.Recv() }); pk {
			return "PANIC:recv:" + short(val)
		}
		if err != nil {
			s.V.Cleanup()
			return "end"
		}
		s.Ann.Opts = [4]bool{}
		for _, n := range s.V.Neighbors() {
			s.Ann.Opts[b2i(n.OptAddPath4)+2*b2i(n.OptAddPath6)] = true
		}
		s.Ann.Frame(msg)
		if pk, val := guard(func() { s.V.Process(msg) }); pk {
			return "PANIC:process:" + short(val)
		}
		s.Frames++
		if after != nil {
			after()
		}
	}
}

func short(v interface{}) string {
	s := fmt.Sprint(v)
	s = strings.Map(func(r rune) rune {
		if r == ' ' || r == '\n' || r == '\t' {
			return '_'
		}
		return r
	}, s)
	if len(s) > 80 {
		s = s[:80]
	}
	return s
}
