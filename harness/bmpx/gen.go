package bmpx

import (
	"verifharness/hx"
)

// Spot marks a field of a generated stream that the mutators like to change.
type Spot struct {
	Off, Width int
	Kind       string // msglen version msgtype tlvlen tlvtype count optlen openas openid pphas pphflags pphaddr pphrd reason bgplen bgptype
}

// Conv is a BMP conversation under construction.
type Conv struct {
	B     []byte
	Spots []Spot
	Ends  []int // offsets just after each frame
}

func (c *Conv) spot(off, width int, kind string) {
	c.Spots = append(c.Spots, Spot{len(c.B) + off, width, kind})
}

func (c *Conv) frame(f []byte) {
	c.spot(0, 1, "version")
	c.spot(1, 4, "msglen")
	c.spot(5, 1, "msgtype")
	c.B = append(c.B, f...)
	c.Ends = append(c.Ends, len(c.B))
}

func (c *Conv) pphSpots(base int) {
	c.spot(base+1, 1, "pphflags")
	c.spot(base+2, 8, "pphrd")
	c.spot(base+10, 16, "pphaddr")
	c.spot(base+26, 4, "pphas")
}

// Peer is a monitored BGP peer of the generated conversations.
type Peer struct {
	RD       uint64
	V6       bool
	Addr     [16]byte
	AS       uint32
	LocalAS  uint32
	AP4, AP6 bool
	ASN4     bool
	BGPID    uint32
}

func (p Peer) PPH(flags byte) PPH {
	f := flags
	if p.V6 {
		f |= 0x80
	}
	if !p.ASN4 {
		f |= 0x20
	}
	return PPH{Type: 0, Flags: f, RD: p.RD, Addr: p.Addr, AS: p.AS, BGPID: p.BGPID, TS: 1000}
}

// Opens builds the sent and the received OPEN of the session.
func (p Peer) Opens(split bool) (sent, rcvd []byte) {
	var sc, rc []Cap
	var st, rt [][3]int
	if p.AP4 {
		st, rt = append(st, [3]int{1, 1, 3}), append(rt, [3]int{1, 1, 3})
	}
	if p.AP6 {
		st, rt = append(st, [3]int{2, 1, 1}), append(rt, [3]int{2, 1, 2})
	}
	sc, rc = append(sc, CapMP(1, 1), CapMP(2, 1)), append(rc, CapMP(1, 1), CapMP(2, 1))
	if len(st) > 0 {
		sc, rc = append(sc, CapAddPath(st...)), append(rc, CapAddPath(rt...))
	}
	las16, pas16 := int(p.LocalAS), int(p.AS)
	if p.ASN4 {
		sc, rc = append(sc, CapASN4(p.LocalAS)), append(rc, CapASN4(p.AS))
		if p.LocalAS > 65535 {
			las16 = 23456
		}
		if p.AS > 65535 {
			pas16 = 23456
		}
	}
	return Open(las16, 180, 0x0a000001, sc, split), Open(pas16, 90, p.BGPID, rc, split)
}

func (c *Conv) PeerUp(p Peer, split bool, info []byte) {
	sent, rcvd := p.Opens(split)
	c.PeerUpRaw(p, sent, rcvd, info)
}

// PeerUpRaw: a peer up notification of p carrying the given OPEN messages.
func (c *Conv) PeerUpRaw(p Peer, sent, rcvd, info []byte) {
	f := PeerUp(p.PPH(0), Addr4(10, 0, 0, 1), sent, rcvd, info)
	c.pphSpots(6)
	so := 6 + 42 + 20
	c.spot(so+16, 2, "bgplen")
	c.spot(so+20, 2, "openas")
	c.spot(so+24, 4, "openid")
	c.spot(so+28, 1, "optlen")
	ro := so + len(sent)
	c.spot(ro+16, 2, "bgplen")
	c.spot(ro+20, 2, "openas")
	c.spot(ro+24, 4, "openid")
	c.spot(ro+28, 1, "optlen")
	c.frame(f)
}

func (c *Conv) PeerDown(p Peer, reason byte, data []byte) {
	c.pphSpots(6)
	c.spot(6+42, 1, "reason")
	c.frame(PeerDown(p.PPH(0), reason, data))
}

func (c *Conv) RouteMon(p Peer, post bool, bgp []byte) {
	fl := byte(0)
	if post {
		fl = 0x40
	}
	c.pphSpots(6)
	if len(bgp) >= 19 {
		c.spot(6+42+16, 2, "bgplen")
		c.spot(6+42+18, 1, "bgptype")
	}
	c.frame(RouteMon(p.PPH(fl), bgp))
}

func (c *Conv) tlvSpots(base int, ts []TLV) {
	off := base
	for _, t := range ts {
		c.spot(off, 2, "tlvtype")
		c.spot(off+2, 2, "tlvlen")
		off += 4 + len(t.Info)
	}
}

func (c *Conv) Initiation(ts []TLV)  { c.tlvSpots(6, ts); c.frame(Initiation(ts)) }
func (c *Conv) Termination(ts []TLV) { c.tlvSpots(6, ts); c.frame(Termination(ts)) }
func (c *Conv) Stats(p Peer, count uint32, ts []TLV) {
	c.pphSpots(6)
	c.spot(6+42, 4, "count")
	c.tlvSpots(6+42+4, ts)
	c.frame(Stats(p.PPH(0), count, ts))
}
func (c *Conv) Mirror(p Peer, ts []TLV) {
	c.pphSpots(6)
	c.tlvSpots(6+42, ts)
	c.frame(Mirror(p.PPH(0), ts))
}

// PeerPool returns the small, colliding set of peers the generators draw from.
func PeerPool(r *hx.RNG) []Peer {
	rds := []uint64{0, 65000<<32 | 1}
	var ps []Peer
	for i := 0; i < 3; i++ {
		p := Peer{RD: rds[r.Intn(2)], AS: uint32(65010 + i), LocalAS: 65001, BGPID: uint32(0x0a000002 + i)}
		switch r.Intn(6) {
		case 0:
			p.V6 = true
			p.Addr = Addr6(0x20010db800000000, uint64(2+i))
		default:
			p.Addr = Addr4(10, 0, 0, byte(2+i))
		}
		p.AP4, p.AP6 = r.Chance(40), r.Chance(30)
		p.ASN4 = r.Chance(70)
		if p.ASN4 && r.Chance(30) {
			p.AS = uint32(4200000000 + i)
		}
		if r.Chance(15) {
			p.AS = p.LocalAS // iBGP
		}
		ps = append(ps, p)
	}
	if r.Chance(30) {
		// same address in both VRFs
		ps[1].Addr, ps[1].V6 = ps[0].Addr, ps[0].V6
		ps[1].RD = rds[0]
		ps[0].RD = rds[1]
	}
	return ps
}

// Pfx4 / Pfx6: a handful of prefixes.
func Pfx4(i int, id uint32) NLRI {
	var n NLRI
	n.Addr[0], n.Addr[1], n.Addr[2] = 10, byte(1+i/2), byte(i%2)
	n.Len = 24
	if i%3 == 2 {
		n.Len = 16
		n.Addr[2] = 0
	}
	n.ID = id
	return n
}
func Pfx6(i int, id uint32) NLRI {
	n := NLRI{V6: true, Len: 48, ID: id}
	n.Addr[0], n.Addr[1], n.Addr[2], n.Addr[3], n.Addr[5] = 0x20, 0x01, 0x0d, 0xb8, byte(1+i)
	return n
}

// RouterID is the BGP identifier of the monitored router in every generated sent OPEN.
const RouterID = 0x0a000001

// Variants of the path attributes of a generated UPDATE: patterns a real session's Adj-RIB-In treats
// specially (loops, reflection attributes, roles, well-known communities, odd next hops). A BMP mirror
// stores what was reported regardless.
var Variants = []string{"plain", "nexthop6-linklocal", "aspath-local-as", "aspath-peer-twice", "cluster-list", "originator-other", "otc",
	"communities", "nexthop-local", "nexthop-far", "originator-router-id", "empty-aspath"}

// PickVariant draws a variant: mostly plain, the two the pseudo session hides (known findings) rarely.
func PickVariant(r *hx.RNG) string {
	k := r.Intn(100)
	switch {
	case k < 42:
		return "plain"
	case k < 50:
		return "nexthop6-linklocal"
	case k < 64:
		return "aspath-local-as"
	case k < 68:
		return "aspath-peer-twice"
	case k < 75:
		return "cluster-list"
	case k < 79:
		return "originator-other"
	case k < 84:
		return "otc"
	case k < 90:
		return "communities"
	case k < 93:
		return "nexthop-local"
	case k < 96:
		return "nexthop-far"
	case k < 98:
		return "originator-router-id"
	default:
		return "empty-aspath"
	}
}

// UpdateFor builds a well-formed UPDATE of peer p.
func UpdateFor(p Peer, withdraw, announce []NLRI) []byte {
	return UpdateForV(p, withdraw, announce, "plain")
}

// UpdateForV builds a well-formed UPDATE of peer p with the given attribute variant.
func UpdateForV(p Peer, withdraw, announce []NLRI, variant string) []byte {
	u := Update{AddPath4: p.AP4, AddPath6: p.AP6, ASN4: p.ASN4, LocalPref: -1,
		NextHop4: [4]byte{p.Addr[12], p.Addr[13], p.Addr[14], p.Addr[15]}, Withdraw: withdraw, Announce: announce}
	u.NextHop6 = Addr6(0x20010db800000000, 0xffff)
	if p.AS != p.LocalAS {
		u.ASPath = []uint32{p.AS, 65100}
		if !p.ASN4 && p.AS > 65535 {
			u.ASPath = []uint32{23456, 65100}
		}
	} else {
		u.ASPath = []uint32{65100}
		u.LocalPref = 100
	}
	las := p.LocalAS
	if !p.ASN4 && las > 65535 {
		las = 23456
	}
	switch variant {
	case "aspath-local-as":
		u.ASPath = append(u.ASPath, las, 65101) // the monitored router's own AS: an AS loop on a real session
	case "aspath-peer-twice":
		u.ASPath = append([]uint32{u.ASPath[0]}, u.ASPath...)
	case "cluster-list":
		u.ClusterList = []uint32{RouterID, las, 7}
		u.Originator = 0x0a0000fe
	case "originator-other":
		u.Originator = 0x0a0000fd
	case "originator-router-id":
		u.Originator = RouterID
	case "otc":
		u.OTC = p.AS
	case "communities":
		u.Communities = []uint32{0xffffff01, 0xffffff02, 0xffffff03, 65001<<16 | 1}
	case "nexthop-local":
		u.NextHop4 = [4]byte{10, 0, 0, 1}
		u.NextHop6 = Addr6(0x20010db800000000, 1)
	case "nexthop-far":
		u.NextHop4 = [4]byte{192, 0, 2, 1}
		u.NextHop6 = Addr6(0x20010db8ffff0000, 0x99)
	case "empty-aspath":
		u.EmptyASPath = true
	case "nexthop6-linklocal":
		u.NextHop6LL = true
	}
	return u.Bytes()
}

// ids returns the path identifier to use for a peer/family (0 without add-path).
func PathID(p Peer, v6 bool, r *hx.RNG) uint32 {
	if (v6 && p.AP6) || (!v6 && p.AP4) {
		return uint32(1 + r.Intn(2))
	}
	return 0
}

// AttrLenOffsets returns the offsets of the (one byte) length fields of the path attributes of a
// generated UPDATE (attributes with extended length are skipped).
func AttrLenOffsets(m []byte) []int {
	if len(m) < 23 || m[18] != 2 {
		return nil
	}
	off := 19
	wl := int(m[off])<<8 | int(m[off+1])
	off += 2 + wl
	if len(m) < off+2 {
		return nil
	}
	al := int(m[off])<<8 | int(m[off+1])
	off += 2
	end := off + al
	if end > len(m) {
		end = len(m)
	}
	var out []int
	for off+3 <= end {
		fl := m[off]
		if fl&0x10 != 0 {
			if off+4 > end {
				break
			}
			off += 4 + (int(m[off+2])<<8 | int(m[off+3]))
			continue
		}
		out = append(out, off+2)
		off += 3 + int(m[off+2])
	}
	return out
}
