// Package bmpx: shared pieces of the C27/C28 harnesses: BMP/BGP wire builders written from
// RFC 7854 / 4271 / 4760 / 7911 (independent of bio-rd's serialisers), the session runner on the
// verif hook, canonical state digests and the annotations the model driver needs for the
// abstract BGP layer (OPEN decoding, update application).
package bmpx

import (
	"encoding/binary"
)

func u16(v int) []byte    { return []byte{byte(v >> 8), byte(v)} }
func u32(v uint32) []byte { b := make([]byte, 4); binary.BigEndian.PutUint32(b, v); return b }
func u64(v uint64) []byte { b := make([]byte, 8); binary.BigEndian.PutUint64(b, v); return b }
func cat(bs ...[]byte) []byte {
	var out []byte
	for _, b := range bs {
		out = append(out, b...)
	}
	return out
}

// Frame puts a common header (version 3) in front of body.
func Frame(t byte, body []byte) []byte {
	return cat([]byte{3}, u32(uint32(6+len(body))), []byte{t}, body)
}

// PPH is a per-peer header.
type PPH struct {
	Type  byte
	Flags byte // V=0x80 L=0x40 A=0x20
	RD    uint64
	Addr  [16]byte
	AS    uint32
	BGPID uint32
	TS    uint32
}

func (p PPH) Bytes() []byte {
	return cat([]byte{p.Type, p.Flags}, u64(p.RD), p.Addr[:], u32(p.AS), u32(p.BGPID), u32(p.TS), u32(0))
}

// Addr4 / Addr6 build the 16 byte peer address field.
func Addr4(a, b, c, d byte) (x [16]byte) { x[12], x[13], x[14], x[15] = a, b, c, d; return }
func Addr6(hi uint64, lo uint64) (x [16]byte) {
	binary.BigEndian.PutUint64(x[0:], hi)
	binary.BigEndian.PutUint64(x[8:], lo)
	return
}

// Cap is one BGP capability.
type Cap struct {
	Code byte
	Val  []byte
}

func CapAddPath(tuples ...[3]int) Cap {
	var v []byte
	for _, t := range tuples {
		v = append(v, byte(t[0]>>8), byte(t[0]), byte(t[1]), byte(t[2]))
	}
	return Cap{69, v}
}
func CapASN4(as uint32) Cap       { return Cap{65, u32(as)} }
func CapMP(afi int, safi int) Cap { return Cap{1, []byte{byte(afi >> 8), byte(afi), 0, byte(safi)}} }

// Open builds a BGP OPEN message (with header); every capability goes into its own optional parameter
// when split is set, else all into one.
func Open(as16 int, hold int, id uint32, caps []Cap, split bool) []byte {
	var opt []byte
	if len(caps) > 0 {
		if split {
			for _, c := range caps {
				opt = append(opt, 2, byte(2+len(c.Val)), c.Code, byte(len(c.Val)))
				opt = append(opt, c.Val...)
			}
		} else {
			var cs []byte
			for _, c := range caps {
				cs = append(cs, c.Code, byte(len(c.Val)))
				cs = append(cs, c.Val...)
			}
			opt = append([]byte{2, byte(len(cs))}, cs...)
		}
	}
	body := cat([]byte{4}, u16(as16), u16(hold), u32(id), []byte{byte(len(opt))}, opt)
	return BGPMsg(1, body)
}

// BGPMsg puts a BGP header in front of body.
func BGPMsg(t byte, body []byte) []byte {
	h := make([]byte, 16)
	for i := range h {
		h[i] = 0xff
	}
	return cat(h, u16(19+len(body)), []byte{t}, body)
}

func PeerUp(p PPH, local [16]byte, sent, rcvd, info []byte) []byte {
	return Frame(3, cat(p.Bytes(), local[:], u16(179), u16(40000), sent, rcvd, info))
}
func PeerDown(p PPH, reason byte, data []byte) []byte {
	return Frame(2, cat(p.Bytes(), []byte{reason}, data))
}
func RouteMon(p PPH, bgp []byte) []byte { return Frame(0, cat(p.Bytes(), bgp)) }

type TLV struct {
	Type int
	Info []byte
}

func tlvs(ts []TLV) []byte {
	var b []byte
	for _, t := range ts {
		b = append(b, cat(u16(t.Type), u16(len(t.Info)), t.Info)...)
	}
	return b
}
func Initiation(ts []TLV) []byte  { return Frame(4, tlvs(ts)) }
func Termination(ts []TLV) []byte { return Frame(5, tlvs(ts)) }
func Stats(p PPH, count uint32, ts []TLV) []byte {
	return Frame(1, cat(p.Bytes(), u32(count), tlvs(ts)))
}
func Mirror(p PPH, ts []TLV) []byte { return Frame(6, cat(p.Bytes(), tlvs(ts))) }

// NLRI is one prefix of an UPDATE.
type NLRI struct {
	V6   bool
	Addr [16]byte // IPv4 in the first 4 bytes
	Len  int
	ID   uint32
}

func (n NLRI) bytes(addPath bool) []byte {
	var b []byte
	if addPath {
		b = append(b, u32(n.ID)...)
	}
	b = append(b, byte(n.Len))
	return append(b, n.Addr[:(n.Len+7)/8]...)
}

// Update describes a well-formed UPDATE.
type Update struct {
	AddPath4, AddPath6 bool // encode path identifiers
	ASN4               bool // 4 octet AS numbers in AS_PATH
	ASPath             []uint32
	LocalPref          int // <0: absent
	NextHop4           [4]byte
	NextHop6           [16]byte
	Withdraw           []NLRI // IPv4 in the withdrawn routes field, IPv6 in MP_UNREACH_NLRI
	Announce           []NLRI // IPv4 in the NLRI field, IPv6 in MP_REACH_NLRI
	MPv4               bool   // carry IPv4 in MP_REACH/MP_UNREACH as well
	EmptyASPath        bool   // AS_PATH attribute without segments
	Originator         uint32 // ORIGINATOR_ID (0: absent)
	ClusterList        []uint32
	OTC                uint32 // ONLY_TO_CUSTOMER (0: absent)
	Communities        []uint32
	NextHop6LL         bool // MP_REACH next hop of 32 bytes: global + link-local address
}

func attr(flags, typ byte, val []byte) []byte {
	if len(val) > 255 {
		return cat([]byte{flags | 0x10, typ}, u16(len(val)), val)
	}
	return cat([]byte{flags, typ, byte(len(val))}, val)
}

func (u Update) Bytes() []byte {
	var wd, nl, mpr, mpu []byte
	var ann4, ann6, wd4, wd6 bool
	for _, n := range u.Withdraw {
		if n.V6 {
			mpu = append(mpu, n.bytes(u.AddPath6)...)
			wd6 = true
		} else {
			wd = append(wd, n.bytes(u.AddPath4)...)
			wd4 = true
		}
	}
	for _, n := range u.Announce {
		if n.V6 {
			mpr = append(mpr, n.bytes(u.AddPath6)...)
			ann6 = true
		} else {
			nl = append(nl, n.bytes(u.AddPath4)...)
			ann4 = true
		}
	}
	_ = wd4
	var attrs []byte
	if ann4 || ann6 {
		attrs = append(attrs, attr(0x40, 1, []byte{0})...)
		var seg []byte
		if len(u.ASPath) > 0 && !u.EmptyASPath {
			seg = []byte{2, byte(len(u.ASPath))}
			for _, a := range u.ASPath {
				if u.ASN4 {
					seg = append(seg, u32(a)...)
				} else {
					seg = append(seg, u16(int(a))...)
				}
			}
		}
		attrs = append(attrs, attr(0x40, 2, seg)...)
		if ann4 {
			attrs = append(attrs, attr(0x40, 3, u.NextHop4[:])...)
		}
		if u.LocalPref >= 0 {
			attrs = append(attrs, attr(0x40, 5, u32(uint32(u.LocalPref)))...)
		}
		if len(u.Communities) > 0 {
			var v []byte
			for _, c := range u.Communities {
				v = append(v, u32(c)...)
			}
			attrs = append(attrs, attr(0xc0, 8, v)...)
		}
		if u.Originator != 0 {
			attrs = append(attrs, attr(0x80, 9, u32(u.Originator))...)
		}
		if len(u.ClusterList) > 0 {
			var v []byte
			for _, c := range u.ClusterList {
				v = append(v, u32(c)...)
			}
			attrs = append(attrs, attr(0x80, 10, v)...)
		}
		if u.OTC != 0 {
			attrs = append(attrs, attr(0xc0, 35, u32(u.OTC))...)
		}
	}
	if ann6 {
		nh := u.NextHop6[:]
		if u.NextHop6LL {
			ll := Addr6(0xfe80000000000000, 0x42)
			nh = cat(nh, ll[:])
		}
		attrs = append(attrs, attr(0x80, 14, cat(u16(2), []byte{1, byte(len(nh))}, nh, []byte{0}, mpr))...)
	}
	if wd6 {
		attrs = append(attrs, attr(0x80, 15, cat(u16(2), []byte{1}, mpu))...)
	}
	return BGPMsg(2, cat(u16(len(wd)), wd, u16(len(attrs)), attrs, nl))
}

// ---- reference parsers for the harness' own messages (replay of stored cases), from RFC 4271/4760/7911

func parseNLRIs(b []byte, v6, addPath bool) ([]NLRI, bool) {
	var out []NLRI
	for len(b) > 0 {
		var n NLRI
		n.V6 = v6
		if addPath {
			if len(b) < 4 {
				return nil, false
			}
			n.ID = binary.BigEndian.Uint32(b)
			b = b[4:]
		}
		if len(b) < 1 {
			return nil, false
		}
		n.Len = int(b[0])
		k := (n.Len + 7) / 8
		if len(b) < 1+k || k > 16 {
			return nil, false
		}
		copy(n.Addr[:], b[1:1+k])
		b = b[1+k:]
		out = append(out, n)
	}
	return out, true
}

// ParseUpdate reads the withdrawn and announced prefixes of an UPDATE (with BGP header).
func ParseUpdate(m []byte, ap4, ap6 bool) (wd, an []NLRI, ok bool) {
	if len(m) < 23 || m[18] != 2 {
		return nil, nil, false
	}
	b := m[19:]
	wl := int(binary.BigEndian.Uint16(b))
	if len(b) < 2+wl+2 {
		return nil, nil, false
	}
	w4, ok1 := parseNLRIs(b[2:2+wl], false, ap4)
	b = b[2+wl:]
	al := int(binary.BigEndian.Uint16(b))
	if !ok1 || len(b) < 2+al {
		return nil, nil, false
	}
	attrs, nl := b[2:2+al], b[2+al:]
	wd = append(wd, w4...)
	for len(attrs) > 0 {
		if len(attrs) < 3 {
			return nil, nil, false
		}
		fl, ty := attrs[0], attrs[1]
		var l, h int
		if fl&0x10 != 0 {
			if len(attrs) < 4 {
				return nil, nil, false
			}
			l, h = int(binary.BigEndian.Uint16(attrs[2:])), 4
		} else {
			l, h = int(attrs[2]), 3
		}
		if len(attrs) < h+l {
			return nil, nil, false
		}
		v := attrs[h : h+l]
		attrs = attrs[h+l:]
		switch ty {
		case 14:
			if len(v) < 5 {
				return nil, nil, false
			}
			afi, nh := int(binary.BigEndian.Uint16(v)), int(v[3])
			if len(v) < 4+nh+1 {
				return nil, nil, false
			}
			ns, ok2 := parseNLRIs(v[4+nh+1:], afi == 2, (afi == 2 && ap6) || (afi == 1 && ap4))
			if !ok2 {
				return nil, nil, false
			}
			an = append(an, ns...)
		case 15:
			if len(v) < 3 {
				return nil, nil, false
			}
			afi := int(binary.BigEndian.Uint16(v))
			ns, ok2 := parseNLRIs(v[3:], afi == 2, (afi == 2 && ap6) || (afi == 1 && ap4))
			if !ok2 {
				return nil, nil, false
			}
			wd = append(wd, ns...)
		}
	}
	n4, ok3 := parseNLRIs(nl, false, ap4)
	if !ok3 {
		return nil, nil, false
	}
	an = append(an, n4...)
	return wd, an, true
}

// AddPathTuples reads the add-path capability tuples (AFI, SAFI, send/receive) of an OPEN (with header).
func AddPathTuples(open []byte) (out [][3]int) {
	if len(open) < 29 {
		return nil
	}
	opt := open[29:]
	if int(open[28]) < len(opt) {
		opt = opt[:open[28]]
	}
	for len(opt) >= 2 {
		t, l := opt[0], int(opt[1])
		if len(opt) < 2+l {
			return out
		}
		v := opt[2 : 2+l]
		opt = opt[2+l:]
		if t != 2 {
			continue
		}
		for len(v) >= 2 {
			code, cl := v[0], int(v[1])
			if len(v) < 2+cl {
				break
			}
			cv := v[2 : 2+cl]
			v = v[2+cl:]
			if code == 69 {
				for len(cv) >= 4 {
					out = append(out, [3]int{int(binary.BigEndian.Uint16(cv)), int(cv[2]), int(cv[3])})
					cv = cv[4:]
				}
			}
		}
	}
	return out
}

// HiddenKind names the reason why a real session's Adj-RIB-In would hide the paths of this UPDATE that
// also applies to the pseudo session of a monitored peer ("" if none): an eBGP path without AS_PATH
// segments, or ORIGINATOR_ID equal to the monitored router's BGP identifier.
func HiddenKind(m []byte, ebgp bool, routerID uint32) string {
	if len(m) < 23 || m[18] != 2 {
		return ""
	}
	b := m[19:]
	wl := int(binary.BigEndian.Uint16(b))
	if len(b) < 2+wl+2 {
		return ""
	}
	b = b[2+wl:]
	al := int(binary.BigEndian.Uint16(b))
	if len(b) < 2+al {
		return ""
	}
	attrs := b[2 : 2+al]
	kind := ""
	sawPath := false
	for len(attrs) >= 3 {
		fl, ty := attrs[0], attrs[1]
		l, h := int(attrs[2]), 3
		if fl&0x10 != 0 {
			if len(attrs) < 4 {
				break
			}
			l, h = int(binary.BigEndian.Uint16(attrs[2:])), 4
		}
		if len(attrs) < h+l {
			break
		}
		v := attrs[h : h+l]
		attrs = attrs[h+l:]
		switch ty {
		case 2:
			sawPath = true
			if l == 0 && ebgp {
				kind = "empty-as-path-ebgp"
			}
		case 9:
			if l == 4 && binary.BigEndian.Uint32(v) == routerID {
				return "originator-id-is-router-id"
			}
		}
	}
	_ = sawPath
	return kind
}

// ASN4Of reads the first 4-octet AS capability of an OPEN (with header).
func ASN4Of(open []byte) (uint32, bool) {
	if len(open) < 29 {
		return 0, false
	}
	opt := open[29:]
	if int(open[28]) < len(opt) {
		opt = opt[:open[28]]
	}
	for len(opt) >= 2 {
		t, l := opt[0], int(opt[1])
		if len(opt) < 2+l {
			return 0, false
		}
		v := opt[2 : 2+l]
		opt = opt[2+l:]
		if t != 2 {
			continue
		}
		for len(v) >= 2 {
			code, cl := v[0], int(v[1])
			if len(v) < 2+cl {
				break
			}
			if code == 65 && cl == 4 {
				return binary.BigEndian.Uint32(v[2:6]), true
			}
			v = v[2+cl:]
		}
	}
	return 0, false
}
