module verifharness

go 1.20

// The checks never use this file: lib/vlib.py writes a go.mod under $VERIF_SCRATCH
// (requirements copied from $VERIF_REPO/go.mod, replace => $VERIF_REPO) and builds
// with -modfile. This copy only lets editors and `go vet` resolve imports.
require github.com/bio-routing/bio-rd v0.0.0

replace github.com/bio-routing/bio-rd => /repo
