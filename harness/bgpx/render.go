// Package bgpx: shared pieces of the C16/C19/C17 harnesses (BGP wire codec):
// canonical rendering of decoded messages (same token stream as coq/Model/BGPCodec.v: renderMsg),
// observation of packet.Decode, and the message grammar / mutators.
package bgpx

import (
	"bytes"
	"encoding/hex"
	"fmt"
	"strconv"
	"strings"

	bnet "github.com/bio-routing/bio-rd/net"
	"github.com/bio-routing/bio-rd/protocols/bgp/packet"
	"github.com/bio-routing/bio-rd/protocols/bgp/types"

	"verifharness/hx"
)

// Opts maps the 4 option bits to packet.DecodeOptions (bit0 AddPathIPv4Unicast, bit1 AddPathIPv6Unicast,
// bit2 Use32BitASN, bit3 ExtendedNextHop) - the same mapping as optionsOf in the model.
func Opts(k int) *packet.DecodeOptions {
	return &packet.DecodeOptions{
		AddPathIPv4Unicast: k&1 != 0,
		AddPathIPv6Unicast: k&2 != 0,
		Use32BitASN:        k&4 != 0,
		ExtendedNextHop:    k&8 != 0,
	}
}

type toks struct{ t []uint64 }

func (x *toks) add(v ...uint64) { x.t = append(x.t, v...) }
func b2n(b bool) uint64 {
	if b {
		return 1
	}
	return 0
}

func (x *toks) ip(a bnet.IP) {
	b := a.Bytes()
	if len(b) == 4 {
		x.add(4)
	} else {
		x.add(6)
	}
	for _, c := range b {
		x.add(uint64(c))
	}
}

func (x *toks) nlris(n *packet.NLRI) {
	cnt := 0
	for c := n; c != nil; c = c.Next {
		cnt++
	}
	x.add(uint64(cnt))
	for c := n; c != nil; c = c.Next {
		x.add(uint64(c.PathIdentifier), uint64(len(c.LabelStack)))
		for _, l := range c.LabelStack {
			x.add(uint64(l))
		}
		x.ip(c.Prefix.Addr())
		x.add(uint64(c.Prefix.Len()))
	}
}

func (x *toks) attrVal(pa *packet.PathAttribute) error {
	switch v := pa.Value.(type) {
	case nil:
		x.add(6)
	case uint8:
		x.add(1, uint64(v))
	case *types.ASPath:
		if v == nil {
			x.add(13)
			break
		}
		x.add(2, uint64(len(*v)))
		for _, s := range *v {
			x.add(uint64(s.Type), uint64(len(s.ASNs)))
			for _, a := range s.ASNs {
				x.add(uint64(a))
			}
		}
	case *bnet.IP:
		x.add(3)
		x.ip(*v)
	case uint32:
		x.add(4, uint64(v))
	case types.Aggregator:
		x.add(5, uint64(v.ASN), uint64(v.Address))
	case *types.Communities:
		if v == nil {
			x.add(13)
			break
		}
		x.add(7, uint64(len(*v)))
		for _, c := range *v {
			x.add(uint64(c))
		}
	case *types.LargeCommunities:
		if v == nil {
			x.add(13)
			break
		}
		x.add(8, uint64(len(*v)))
		for _, c := range *v {
			x.add(uint64(c.GlobalAdministrator), uint64(c.DataPart1), uint64(c.DataPart2))
		}
	case *types.ClusterList:
		if v == nil {
			x.add(13)
			break
		}
		x.add(9, uint64(len(*v)))
		for _, c := range *v {
			x.add(uint64(c))
		}
	case packet.MultiProtocolReachNLRI:
		x.add(10, uint64(v.AFI), uint64(v.SAFI))
		x.ip(*v.NextHop)
		x.nlris(v.NLRI)
	case packet.MultiProtocolUnreachNLRI:
		x.add(11, uint64(v.AFI), uint64(v.SAFI))
		x.nlris(v.NLRI)
	case []byte:
		x.add(12, uint64(len(v)))
		for _, c := range v {
			x.add(uint64(c))
		}
	default:
		return fmt.Errorf("unexpected attribute value type %T", pa.Value)
	}
	return nil
}

func (x *toks) capVal(c packet.Capability) error {
	switch v := c.Value.(type) {
	case nil:
		x.add(0)
	case packet.MultiProtocolCapability:
		x.add(1, uint64(v.AFI), uint64(v.SAFI))
	case packet.AddPathCapability:
		x.add(2, uint64(len(v)))
		for _, t := range v {
			x.add(uint64(t.AFI), uint64(t.SAFI), uint64(t.SendReceive))
		}
	case packet.ASN4Capability:
		x.add(3, uint64(v.ASN4))
	case packet.PeerRoleCapability:
		x.add(4, uint64(v.PeerRole))
	case packet.ExtendedNextHopCapability:
		x.add(5, uint64(len(v)))
		for _, t := range v {
			x.add(uint64(t.AFI), uint64(t.SAFI), uint64(t.NextHopAFI))
		}
	default:
		return fmt.Errorf("unexpected capability value type %T", c.Value)
	}
	return nil
}

// Render produces the canonical token stream of a decoded message.
func Render(m *packet.BGPMessage) ([]uint64, error) {
	x := &toks{}
	x.add(uint64(m.Header.Length), uint64(m.Header.Type))
	switch b := m.Body.(type) {
	case nil:
	case *packet.BGPOpen:
		x.add(uint64(b.Version), uint64(b.ASN), uint64(b.HoldTime), uint64(b.BGPIdentifier), uint64(b.OptParmLen), uint64(len(b.OptParams)))
		for _, p := range b.OptParams {
			caps, ok := p.Value.(packet.Capabilities)
			if !ok {
				return nil, fmt.Errorf("unexpected optional parameter value %T", p.Value)
			}
			x.add(uint64(p.Type), uint64(p.Length), uint64(len(caps)))
			for _, c := range caps {
				x.add(uint64(c.Code), uint64(c.Length))
				if err := x.capVal(c); err != nil {
					return nil, err
				}
			}
		}
	case *packet.BGPUpdate:
		x.add(uint64(b.WithdrawnRoutesLen))
		x.nlris(b.WithdrawnRoutes)
		n := 0
		for pa := b.PathAttributes; pa != nil; pa = pa.Next {
			n++
		}
		x.add(uint64(b.TotalPathAttrLen), uint64(n))
		for pa := b.PathAttributes; pa != nil; pa = pa.Next {
			x.add(b2n(pa.Optional)*8+b2n(pa.Transitive)*4+b2n(pa.Partial)*2+b2n(pa.ExtendedLength), uint64(pa.TypeCode), uint64(pa.Length))
			if err := x.attrVal(pa); err != nil {
				return nil, err
			}
		}
		x.nlris(b.NLRI)
	case *packet.BGPNotification:
		x.add(uint64(b.ErrorCode), uint64(b.ErrorSubcode))
	default:
		return nil, fmt.Errorf("unexpected body type %T", m.Body)
	}
	return x.t, nil
}

func TokString(t []uint64) string {
	var sb strings.Builder
	for i, v := range t {
		if i > 0 {
			sb.WriteByte(' ')
		}
		sb.WriteString(strconv.FormatUint(v, 10))
	}
	return sb.String()
}

// DecodeObs runs packet.Decode on b with option bits k: "Err" | "PANIC" | rendered tokens.
// msg is returned for the spec oracles (nil unless decoding succeeded).
func DecodeObs(b []byte, k int) (obs string, msg *packet.BGPMessage, panicVal interface{}) {
	var err error
	cp := append([]byte(nil), b...)
	panicked, val := hx.Guard(func() { msg, err = packet.Decode(bytes.NewBuffer(cp), Opts(k)) })
	if panicked {
		return "PANIC", nil, val
	}
	if err != nil {
		return "Err", nil, nil
	}
	if msg == nil {
		return "NILMSG", nil, nil
	}
	t, rerr := Render(msg)
	if rerr != nil {
		return "RENDER-ERROR:" + strings.ReplaceAll(rerr.Error(), " ", "_"), msg, nil
	}
	return TokString(t), msg, nil
}

// Input token form: "<optbits> <hex|->".
func FmtInput(k int, b []byte) string {
	if len(b) == 0 {
		return fmt.Sprintf("%d -", k)
	}
	return fmt.Sprintf("%d %s", k, hex.EncodeToString(b))
}

func ParseInput(in string) (int, []byte, error) {
	f := strings.Fields(in)
	if len(f) != 2 {
		return 0, nil, fmt.Errorf("bad input %q", in)
	}
	k, err := strconv.Atoi(f[0])
	if err != nil {
		return 0, nil, err
	}
	if f[1] == "-" {
		return k, nil, nil
	}
	b, err := hex.DecodeString(f[1])
	return k, b, err
}

// Features names what a successfully decoded message contains (for the input-distribution record).
func Features(m *packet.BGPMessage) []string {
	var f []string
	switch b := m.Body.(type) {
	case nil:
		f = append(f, "ok_keepalive")
	case *packet.BGPOpen:
		f = append(f, "ok_open")
		for _, p := range b.OptParams {
			if caps, ok := p.Value.(packet.Capabilities); ok {
				for _, c := range caps {
					f = append(f, fmt.Sprintf("ok_cap_%d", c.Code))
				}
			}
		}
	case *packet.BGPNotification:
		f = append(f, "ok_notification")
	case *packet.BGPUpdate:
		f = append(f, "ok_update")
		if b.WithdrawnRoutes != nil {
			f = append(f, "ok_withdrawn")
		}
		if b.NLRI != nil {
			f = append(f, "ok_nlri")
		}
		for pa := b.PathAttributes; pa != nil; pa = pa.Next {
			f = append(f, fmt.Sprintf("ok_attr_%d", pa.TypeCode))
			if pa.ExtendedLength {
				f = append(f, "ok_attr_extlen")
			}
			if v, ok := pa.Value.(packet.MultiProtocolReachNLRI); ok {
				f = append(f, fmt.Sprintf("ok_mpreach_afi%d_safi%d", v.AFI, v.SAFI))
				if v.NLRI == nil {
					f = append(f, "ok_mpreach_no_nlri")
				} else if len(v.NLRI.LabelStack) > 0 {
					f = append(f, "ok_labels")
				}
			}
		}
	}
	return f
}
