package bgpx

import (
	"fmt"
	"strconv"
	"strings"

	bnet "github.com/bio-routing/bio-rd/net"
	"github.com/bio-routing/bio-rd/protocols/bgp/packet"
	"github.com/bio-routing/bio-rd/protocols/bgp/types"
)

// ParseStructure is the inverse of Render for the C17 inputs: "<encopts> <safi> <tokens of the message>".
type tokReader struct {
	t []uint64
	i int
}

func (r *tokReader) next() uint64 {
	if r.i >= len(r.t) {
		panic("structure tokens exhausted")
	}
	v := r.t[r.i]
	r.i++
	return v
}

func (r *tokReader) ip() bnet.IP {
	switch r.next() {
	case 4:
		return bnet.IPv4FromOctets(byte(r.next()), byte(r.next()), byte(r.next()), byte(r.next()))
	default:
		var b [16]uint64
		for i := range b {
			b[i] = r.next()
		}
		w := func(i int) uint64 {
			v := uint64(0)
			for j := 0; j < 8; j++ {
				v = v<<8 | b[i+j]
			}
			return v
		}
		return bnet.IPv6(w(0), w(8))
	}
}

func (r *tokReader) nlris() *packet.NLRI {
	n := int(r.next())
	var first, last *packet.NLRI
	for i := 0; i < n; i++ {
		cur := &packet.NLRI{PathIdentifier: uint32(r.next())}
		nl := int(r.next())
		for j := 0; j < nl; j++ {
			cur.LabelStack = append(cur.LabelStack, packet.LabelStackEntry(r.next()))
		}
		ip := r.ip()
		cur.Prefix = bnet.NewPfx(ip, uint8(r.next())).Ptr()
		if first == nil {
			first = cur
		} else {
			last.Next = cur
		}
		last = cur
	}
	return first
}

func (r *tokReader) attr() *packet.PathAttribute {
	fl := r.next()
	pa := &packet.PathAttribute{Optional: fl&8 != 0, Transitive: fl&4 != 0, Partial: fl&2 != 0, ExtendedLength: fl&1 != 0,
		TypeCode: uint8(r.next()), Length: uint16(r.next())}
	switch tag := r.next(); tag {
	case 1:
		pa.Value = uint8(r.next())
	case 2:
		p := types.ASPath{}
		for i := int(r.next()); i > 0; i-- {
			s := types.ASPathSegment{Type: uint8(r.next())}
			n := int(r.next())
			s.ASNs = make([]uint32, n)
			for j := range s.ASNs {
				s.ASNs[j] = uint32(r.next())
			}
			p = append(p, s)
		}
		pa.Value = &p
	case 3:
		ip := r.ip()
		pa.Value = &ip
	case 4:
		pa.Value = uint32(r.next())
	case 5:
		pa.Value = types.Aggregator{ASN: uint16(r.next()), Address: uint32(r.next())}
	case 6:
	case 7:
		c := make(types.Communities, r.next())
		for i := range c {
			c[i] = uint32(r.next())
		}
		pa.Value = &c
	case 8:
		c := make(types.LargeCommunities, r.next())
		for i := range c {
			c[i] = types.LargeCommunity{GlobalAdministrator: uint32(r.next()), DataPart1: uint32(r.next()), DataPart2: uint32(r.next())}
		}
		pa.Value = &c
	case 9:
		c := make(types.ClusterList, r.next())
		for i := range c {
			c[i] = uint32(r.next())
		}
		pa.Value = &c
	case 10:
		v := packet.MultiProtocolReachNLRI{AFI: uint16(r.next()), SAFI: uint8(r.next())}
		ip := r.ip()
		v.NextHop = &ip
		v.NLRI = r.nlris()
		pa.Value = v
	case 11:
		v := packet.MultiProtocolUnreachNLRI{AFI: uint16(r.next()), SAFI: uint8(r.next())}
		v.NLRI = r.nlris()
		pa.Value = v
	case 12:
		b := make([]byte, r.next())
		for i := range b {
			b[i] = byte(r.next())
		}
		pa.Value = b
	case 13: // typed nil pointer of the attribute's value type
		switch pa.TypeCode {
		case packet.ASPathAttr:
			pa.Value = (*types.ASPath)(nil)
		case packet.CommunitiesAttr:
			pa.Value = (*types.Communities)(nil)
		case packet.LargeCommunitiesAttr:
			pa.Value = (*types.LargeCommunities)(nil)
		default:
			pa.Value = (*types.ClusterList)(nil)
		}
	default:
		panic(fmt.Sprintf("unknown value tag %d", tag))
	}
	return pa
}

func (r *tokReader) capVal() packet.Serializable {
	switch r.next() {
	case 1:
		return packet.MultiProtocolCapability{AFI: uint16(r.next()), SAFI: uint8(r.next())}
	case 2:
		t := make(packet.AddPathCapability, r.next())
		for i := range t {
			t[i] = packet.AddPathCapabilityTuple{AFI: uint16(r.next()), SAFI: uint8(r.next()), SendReceive: uint8(r.next())}
		}
		return t
	case 3:
		return packet.ASN4Capability{ASN4: uint32(r.next())}
	case 4:
		return packet.PeerRoleCapability{PeerRole: uint8(r.next())}
	case 5:
		t := make(packet.ExtendedNextHopCapability, r.next())
		for i := range t {
			t[i] = packet.ExtendedNextHopCapabilityTuple{AFI: uint16(r.next()), SAFI: uint16(r.next()), NextHopAFI: uint16(r.next())}
		}
		return t
	}
	return nil
}

func ParseStructure(in string) (k int, safi uint8, m *packet.BGPMessage, err error) {
	defer func() {
		if rec := recover(); rec != nil {
			err = fmt.Errorf("bad structure: %v", rec)
		}
	}()
	f := strings.Fields(in)
	if len(f) < 4 {
		return 0, 0, nil, fmt.Errorf("bad input")
	}
	r := &tokReader{}
	for _, s := range f {
		v, perr := strconv.ParseUint(s, 10, 64)
		if perr != nil {
			return 0, 0, nil, perr
		}
		r.t = append(r.t, v)
	}
	k = int(r.next())
	safi = uint8(r.next())
	m = &packet.BGPMessage{Header: &packet.BGPHeader{Length: uint16(r.next()), Type: uint8(r.next())}}
	switch m.Header.Type {
	case 1:
		o := &packet.BGPOpen{Version: uint8(r.next()), ASN: uint16(r.next()), HoldTime: uint16(r.next()), BGPIdentifier: uint32(r.next()), OptParmLen: uint8(r.next())}
		for i := int(r.next()); i > 0; i-- {
			p := packet.OptParam{Type: uint8(r.next()), Length: uint8(r.next())}
			var caps packet.Capabilities
			for j := int(r.next()); j > 0; j-- {
				c := packet.Capability{Code: uint8(r.next()), Length: uint8(r.next())}
				c.Value = r.capVal()
				caps = append(caps, c)
			}
			p.Value = caps
			o.OptParams = append(o.OptParams, p)
		}
		m.Body = o
	case 2:
		u := &packet.BGPUpdate{WithdrawnRoutesLen: uint16(r.next())}
		u.WithdrawnRoutes = r.nlris()
		u.TotalPathAttrLen = uint16(r.next())
		var last *packet.PathAttribute
		for i := int(r.next()); i > 0; i-- {
			pa := r.attr()
			if last == nil {
				u.PathAttributes = pa
			} else {
				last.Next = pa
			}
			last = pa
		}
		u.NLRI = r.nlris()
		m.Body = u
	case 3:
		m.Body = &packet.BGPNotification{ErrorCode: uint8(r.next()), ErrorSubcode: uint8(r.next())}
	case 4:
	default:
		return 0, 0, nil, fmt.Errorf("bad message type %d", m.Header.Type)
	}
	return k, safi, m, nil
}
