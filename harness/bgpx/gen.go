package bgpx

import (
	"os"
	"path/filepath"
	"sort"

	"verifharness/hx"
)

// Spot marks a field of a generated message that the mutators like to change.
type Spot struct {
	Off, Width int
	Kind       string // hdrlen wlen tpal alen flags pfxlen count nhlen caplen optlen parmlen atype
}

// Region: the bytes [Start,End) governed by the length/count field at Off (Width bytes).
type Region struct {
	Kind       string
	Off, Width int
	Start, End int
}

// W builds a message and remembers where its length fields are.
type W struct {
	B       []byte
	Spots   []Spot
	Regions []Region
}

func (w *W) u8(v int)  { w.B = append(w.B, byte(v)) }
func (w *W) u16(v int) { w.B = append(w.B, byte(v>>8), byte(v)) }
func (w *W) u32(v uint32) {
	w.B = append(w.B, byte(v>>24), byte(v>>16), byte(v>>8), byte(v))
}
func (w *W) bytes(b []byte)              { w.B = append(w.B, b...) }
func (w *W) spot(kind string, width int) { w.Spots = append(w.Spots, Spot{len(w.B), width, kind}) }
func (w *W) set16(off, v int)            { w.B[off] = byte(v >> 8); w.B[off+1] = byte(v) }
func (w *W) appendW(o *W) {
	base := len(w.B)
	for _, s := range o.Spots {
		w.Spots = append(w.Spots, Spot{s.Off + base, s.Width, s.Kind})
	}
	for _, r := range o.Regions {
		w.Regions = append(w.Regions, Region{r.Kind, r.Off + base, r.Width, r.Start + base, r.End + base})
	}
	w.B = append(w.B, o.B...)
}

// lenField writes a length field of the given width governing the payload o, then the payload
func (w *W) lenField(kind string, width int, o *W) {
	off := len(w.B)
	w.spot(kind, width)
	if width == 2 {
		w.u16(len(o.B))
	} else {
		w.u8(len(o.B))
	}
	start := len(w.B)
	w.appendW(o)
	w.Regions = append(w.Regions, Region{kind, off, width, start, len(w.B)})
}

type G struct {
	R     *hx.RNG
	K     int  // option bits the message is meant for
	Clean bool // only choices the decoder accepts
}

// pick: the first nClean entries are the acceptable ones
func (g *G) pick(nClean int, xs []int) int {
	if g.Clean {
		return xs[g.R.Intn(nClean)]
	}
	return xs[g.R.Intn(len(xs))]
}
func (g *G) chance(p int) bool { return !g.Clean && g.R.Chance(p) }

func (g *G) small() uint32 {
	return uint32(g.R.Pick([]int{0, 1, 2, 3, 255, 256, 65535, 65536, 23456, 4200000000}))
}

// prefix bytes for a given length; mostly clean host bits
func (g *G) pfxBytes(plen int, dirty bool) []byte {
	n := (plen + 7) / 8
	b := make([]byte, n)
	for i := range b {
		b[i] = byte(g.R.Pick([]int{0, 1, 10, 128, 192, 255, 0x20, 0xff}))
	}
	if n > 0 && !dirty && plen%8 != 0 {
		b[n-1] &= byte(0xff << uint(8-plen%8))
	}
	return b
}

func (g *G) plen(afi int) int {
	max := 32
	if afi == 2 {
		max = 128
	}
	c := g.R.Intn(100)
	if g.Clean {
		c %= 85
	}
	switch {
	case c < 70:
		return g.R.Intn(max + 1)
	case c < 85:
		return g.R.Pick([]int{0, 1, 7, 8, 9, 24, 31, 32, 63, 64, 65, 95, 96, 97, 127, 128})
	case c < 93:
		return max + 1 + g.R.Intn(8)
	default:
		return g.R.Intn(256)
	}
}

// one NLRI: [path id] len [labels] prefix
func (g *G) nlri(w *W, afi, safi int, addPath bool) {
	if addPath {
		w.u32(g.small())
	}
	pl := g.plen(afi)
	nl := 0
	if safi == 4 {
		nl = 1 + g.R.Intn(3)
		if g.chance(3) {
			nl = 80 + g.R.Intn(10)
		}
	}
	pfxOff := len(w.B)
	defer func() { w.Regions = append(w.Regions, Region{"pfxlen", pfxOff, 1, pfxOff + 1, len(w.B)}) }()
	w.spot("pfxlen", 1)
	w.u8(pl + 24*nl)
	for i := 0; i < nl; i++ {
		v := int(g.small()&0xfffff) << 4
		if i == nl-1 && !g.chance(4) {
			v |= 1
		}
		w.u8(v >> 16)
		w.u8(v >> 8)
		w.u8(v)
	}
	if afi == 2 && g.R.Chance(10) && pl >= 96 && pl <= 128 { // IPv4-mapped IPv6 prefix
		b := []byte{0, 0, 0, 0, 0, 0, 0, 0, 0, 0, 0xff, 0xff, 10, 0, 0, 0}
		w.bytes(b[:(pl+7)/8])
		return
	}
	w.bytes(g.pfxBytes(pl, g.chance(8)))
}

func (g *G) nlris(afi, safi int, addPath bool, max int) *W {
	w := &W{}
	n := g.R.Intn(max + 1)
	for i := 0; i < n; i++ {
		g.nlri(w, afi, safi, addPath)
	}
	return w
}

func (g *G) addPathFor(afi, safi int) bool {
	ap := false
	if afi == 1 && safi == 1 {
		ap = g.K&1 != 0
	}
	if afi == 2 && safi == 1 {
		ap = g.K&2 != 0
	}
	if g.chance(4) {
		ap = !ap
	}
	return ap
}

// attribute header + value; declared length normally = len(value)
func (g *G) attr(w *W, flags, typ int, val *W) {
	ext := len(val.B) > 255 || g.R.Chance(6)
	if ext {
		flags |= 0x10
	} else {
		flags &^= 0x10
	}
	w.spot("flags", 1)
	w.u8(flags)
	w.spot("atype", 1)
	w.u8(typ)
	if ext {
		w.lenField("alen", 2, val)
	} else {
		w.lenField("alen", 1, val)
	}
}

func (g *G) asPath() *W {
	v := &W{}
	nseg := g.R.Intn(4)
	for i := 0; i < nseg; i++ {
		v.u8(g.pick(5, []int{2, 2, 2, 1, 1, 0, 3}))
		cnt := g.pick(5, []int{1, 1, 2, 3, 5, 0, 255})
		if cnt == 255 && !g.R.Chance(20) {
			cnt = 4
		}
		cntOff := len(v.B)
		v.spot("count", 1)
		v.u8(cnt)
		as4 := g.K&4 != 0
		if g.chance(5) {
			as4 = !as4
		}
		for j := 0; j < cnt; j++ {
			if as4 {
				v.u32(g.small())
			} else {
				v.u16(int(g.small() & 0xffff))
			}
		}
		v.Regions = append(v.Regions, Region{"count", cntOff, 1, cntOff + 1, len(v.B)})
	}
	return v
}

func (g *G) mpReach() *W {
	v := &W{}
	afi := g.pick(5, []int{1, 2, 2, 2, 2, 3, 0, 25})
	safi := g.pick(6, []int{1, 1, 1, 1, 4, 4, 2, 128})
	v.u16(afi)
	v.u8(safi)
	nhl := g.R.Pick([]int{4, 16, 16, 16, 32, 32, 0, 8, 255, 12})
	if g.Clean || g.R.Chance(80) {
		if afi == 1 {
			nhl = 4
		} else {
			nhl = g.R.Pick([]int{16, 16, 32})
		}
	}
	nhOff := len(v.B)
	v.Regions = append(v.Regions, Region{"nhlen", nhOff, 1, nhOff + 1, nhOff + 1 + nhl})
	v.spot("nhlen", 1)
	v.u8(nhl)
	nh := make([]byte, nhl)
	for i := range nh {
		nh[i] = byte(g.R.Pick([]int{0x20, 0x01, 0, 0, 0xfe, 0x80, 1, 0xff}))
	}
	if nhl == 16 && g.R.Chance(10) {
		copy(nh, []byte{0, 0, 0, 0, 0, 0, 0, 0, 0, 0, 0xff, 0xff, 10, 0, 0, 1})
	}
	v.bytes(nh)
	switch c := g.R.Intn(100); {
	case c < 8: // nothing after the next hop (no reserved byte, no NLRI)
	case c < 14:
		v.u8(0) // reserved only
	default:
		v.u8(0)
		v.appendW(g.nlris(afi, safi, g.addPathFor(afi, safi), 3))
	}
	return v
}

func (g *G) mpUnreach() *W {
	v := &W{}
	afi := g.pick(5, []int{1, 2, 2, 2, 2, 3})
	safi := g.pick(5, []int{1, 1, 1, 4, 4, 2})
	v.u16(afi)
	v.u8(safi)
	v.appendW(g.nlris(afi, safi, g.addPathFor(afi, safi), 3))
	if g.chance(3) {
		v.B = v.B[:g.R.Intn(3)]
		v.Spots = nil
	}
	return v
}

func (g *G) u32s(n int) *W {
	v := &W{}
	for i := 0; i < n; i++ {
		v.u32(g.small())
	}
	return v
}

func (g *G) randBytes(n int) *W {
	v := &W{}
	for i := 0; i < n; i++ {
		v.u8(g.R.Intn(256))
	}
	return v
}

// one path attribute of the given type code
func (g *G) attrOf(w *W, typ int) {
	r := g.R
	switch typ {
	case 1:
		v := &W{}
		v.u8(r.Pick([]int{0, 1, 2, 3}))
		g.attr(w, 0x40, 1, v)
	case 2:
		g.attr(w, 0x40, 2, g.asPath())
	case 3:
		g.attr(w, 0x40, 3, g.u32s(1))
	case 4:
		g.attr(w, 0x80, 4, g.u32s(1))
	case 5:
		g.attr(w, 0x40, 5, g.u32s(1))
	case 6:
		g.attr(w, 0x40, 6, &W{})
	case 7:
		v := &W{}
		v.u16(int(g.small() & 0xffff))
		v.u32(g.small())
		g.attr(w, 0xc0, 7, v)
	case 8:
		n := r.Intn(4)
		if r.Chance(4) {
			n = 64 + r.Intn(10)
		}
		g.attr(w, 0xc0, 8, g.u32s(n))
	case 9:
		g.attr(w, 0x80, 9, g.u32s(1))
	case 10:
		g.attr(w, 0x80, 10, g.u32s(r.Intn(4)))
	case 14:
		g.attr(w, 0x80, 14, g.mpReach())
	case 15:
		g.attr(w, 0x80, 15, g.mpUnreach())
	case 18:
		g.attr(w, 0xc0, 18, g.u32s(1+r.Intn(2)))
	case 32:
		g.attr(w, 0xc0, 32, g.u32s(3*r.Intn(3)))
	default:
		n := r.Intn(6)
		if r.Chance(5) {
			n = 250 + r.Intn(20)
		}
		g.attr(w, r.Pick([]int{0xc0, 0xe0, 0x80, 0x40}), typ, g.randBytes(n))
	}
}

var attrTypes = []int{1, 2, 3, 4, 5, 6, 7, 8, 9, 10, 14, 15, 17, 18, 32, 35, 0, 99, 255}

func (g *G) attrs() *W {
	w := &W{}
	r := g.R
	var ts []int
	c := r.Intn(100)
	if g.Clean {
		c %= 75
	}
	switch {
	case c < 10: // none
	case c < 60: // the three mandatory ones plus extras
		ts = []int{1, 2, 3}
		for i := r.Intn(4); i > 0; i-- {
			ts = append(ts, r.Pick(attrTypes))
		}
	case c < 75: // MP only
		ts = []int{1, 2, 14}
		if r.Bool() {
			ts = append(ts, 15)
		}
	case c < 85: // some mandatory attribute missing
		ts = []int{1, 2, 3}
		i := r.Intn(3)
		ts = append(ts[:i], ts[i+1:]...)
		if r.Bool() {
			ts = append(ts, r.Pick(attrTypes))
		}
	default: // anything
		for i := 1 + r.Intn(4); i > 0; i-- {
			ts = append(ts, r.Pick(attrTypes))
		}
	}
	if r.Chance(30) {
		for i := len(ts) - 1; i > 0; i-- {
			j := r.Intn(i + 1)
			ts[i], ts[j] = ts[j], ts[i]
		}
	}
	for _, t := range ts {
		g.attrOf(w, t)
	}
	return w
}

func (g *G) header(typ int, body *W) *W {
	w := &W{}
	for i := 0; i < 16; i++ {
		w.u8(0xff)
	}
	w.spot("hdrlen", 2)
	w.u16(19 + len(body.B))
	w.u8(typ)
	w.appendW(body)
	w.Regions = append(w.Regions, Region{"hdrlen", 16, 2, 19, len(w.B)})
	return w
}

func (g *G) Update() *W {
	b := &W{}
	wd := g.nlris(1, 1, g.addPathFor(1, 1), 3)
	if !g.R.Chance(40) {
		wd = &W{}
	}
	b.lenField("wlen", 2, wd)
	at := g.attrs()
	b.lenField("tpal", 2, at)
	if g.R.Chance(75) {
		b.appendW(g.nlris(1, 1, g.addPathFor(1, 1), 4))
	}
	return g.header(2, b)
}

func (g *G) capability(w *W) {
	r := g.R
	code := r.Pick([]int{1, 1, 69, 65, 9, 5, 2, 64, 70, 0, 255})
	v := &W{}
	switch code {
	case 1:
		v.u16(r.Pick([]int{1, 2, 3}))
		v.u8(0)
		v.u8(r.Pick([]int{1, 4, 2}))
	case 69:
		for i := r.Intn(3); i > 0; i-- {
			v.u16(r.Pick([]int{1, 2}))
			v.u8(1)
			v.u8(r.Intn(4))
		}
	case 65:
		v.u32(g.small())
	case 9:
		v.u8(r.Intn(6))
	case 5:
		for i := r.Intn(3); i > 0; i-- {
			v.u16(1)
			v.u16(1)
			v.u16(2)
		}
	default:
		v = g.randBytes(r.Intn(5))
	}
	w.u8(code)
	w.lenField("caplen", 1, v)
}

func (g *G) Open() *W {
	r := g.R
	b := &W{}
	b.u8(g.pick(7, []int{4, 4, 4, 4, 4, 4, 4, 3, 5, 0}))
	b.u16(int(g.small() & 0xffff))
	b.u16(r.Pick([]int{0, 3, 90, 180, 65535}))
	id := g.small()
	if (g.Clean || r.Chance(90)) && id == 0 {
		id = 0x0a000001
	}
	b.u32(id)
	params := &W{}
	for i := r.Intn(4); i > 0; i-- {
		caps := &W{}
		for j := r.Intn(4); j > 0; j-- {
			g.capability(caps)
		}
		params.u8(g.pick(8, []int{2, 2, 2, 2, 2, 2, 2, 2, 1, 3}))
		params.lenField("parmlen", 1, caps)
	}
	b.lenField("optlen", 1, params)
	return g.header(1, b)
}

func (g *G) Notification() *W {
	b := &W{}
	if g.Clean {
		pairs := [][2]int{{1, 1}, {1, 3}, {2, 1}, {2, 6}, {2, 4}, {3, 1}, {3, 11}, {3, 6}, {4, 0}, {5, 0}, {6, 0}, {6, 2}, {6, 8}}
		p := pairs[g.R.Intn(len(pairs))]
		b.u8(p[0])
		b.u8(p[1])
	} else {
		b.u8(g.R.Intn(8))
		b.u8(g.R.Pick([]int{0, 1, 2, 3, 4, 5, 6, 7, 8, 9, 11, 12}))
	}
	if g.R.Chance(20) {
		b.appendW(g.randBytes(g.R.Intn(6)))
	}
	return g.header(3, b)
}

func (g *G) Keepalive() *W { return g.header(4, &W{}) }

// Valid-ish message from the grammar (lengths consistent unless a sub-generator chose otherwise).
func (g *G) Message() *W {
	switch c := g.R.Intn(100); {
	case c < 70:
		return g.Update()
	case c < 88:
		return g.Open()
	case c < 96:
		return g.Notification()
	default:
		return g.Keepalive()
	}
}

// Mutate applies one mutation in place (returns the possibly re-sliced bytes).
func (g *G) Mutate(w *W) {
	r := g.R
	if len(w.B) == 0 {
		return
	}
	switch c := r.Intn(100); {
	case c < 55 && len(w.Spots) > 0:
		g.MutateSpot(w)
	case c < 70:
		w.B = w.B[:r.Intn(len(w.B)+1)] // truncate
	case c < 80:
		i := r.Intn(len(w.B))
		w.B[i] = byte(r.Intn(256))
	case c < 86:
		i := r.Intn(len(w.B))
		w.B[i] ^= 1 << uint(r.Intn(8))
	case c < 93:
		for i := 1 + r.Intn(8); i > 0; i-- { // trailing bytes beyond the header length
			w.B = append(w.B, byte(r.Intn(256)))
		}
	default:
		if len(w.B) > 19 { // drop a byte from the body
			i := 19 + r.Intn(len(w.B)-19)
			w.B = append(w.B[:i], w.B[i+1:]...)
		}
	}
}

// MutateSpot changes one length / count / prefix-length / flags field of the message.
func (g *G) MutateSpot(w *W) {
	r := g.R
	if len(w.Spots) == 0 {
		return
	}
	s := w.Spots[r.Intn(len(w.Spots))]
	if s.Off+s.Width > len(w.B) {
		return
	}
	cur := int(w.B[s.Off])
	if s.Width == 2 {
		cur = cur<<8 | int(w.B[s.Off+1])
	}
	max := 1<<(8*uint(s.Width)) - 1
	nv := cur
	switch r.Intn(8) {
	case 0:
		nv = cur + 1
	case 1:
		nv = cur - 1
	case 2:
		nv = cur + r.Intn(6)
	case 3:
		nv = cur - r.Intn(6)
	case 4:
		nv = 0
	case 5:
		nv = max - r.Intn(3)
	case 6:
		nv = r.Intn(max + 1)
	case 7:
		nv = cur ^ (1 << uint(r.Intn(8*s.Width)))
	}
	nv &= max
	if s.Width == 2 {
		w.set16(s.Off, nv)
	} else {
		w.B[s.Off] = byte(nv)
	}
}

// FuzzCorpus returns the byte strings of $VERIF_REPO/fuzzing/packet/corpus (sorted by name).
func FuzzCorpus() [][]byte {
	repo := os.Getenv("VERIF_REPO")
	if repo == "" {
		repo = "/repo"
	}
	m, _ := filepath.Glob(filepath.Join(repo, "fuzzing", "packet", "corpus", "*"))
	sort.Strings(m)
	var out [][]byte
	for _, p := range m {
		if b, err := os.ReadFile(p); err == nil && len(b) <= 8192 {
			out = append(out, b)
		}
	}
	return out
}

// Case produces the i-th generated input: option bits, bytes, and a label of the stream it came from.
func Case(r *hx.RNG, corpus [][]byte) (k int, b []byte, stream string) {
	k = r.Intn(16)
	g := &G{R: r, K: k}
	if r.Chance(10) {
		g.K = r.Intn(16) // message built for other options than it is decoded with
	}
	switch c := r.Intn(100); {
	case c < 30:
		g.Clean = r.Chance(75)
		return k, g.Message().B, "valid"
	case c < 75:
		g.Clean = r.Chance(60)
		w := g.Message()
		for i := 1 + r.Intn(3); i > 0; i-- {
			g.Mutate(w)
		}
		return k, w.B, "mutated"
	case c < 83:
		w := g.Message()
		w.B = w.B[:r.Intn(len(w.B)+1)]
		return k, w.B, "truncated"
	case c < 90 && len(corpus) > 0:
		w := &W{B: append([]byte(nil), corpus[r.Intn(len(corpus))]...)}
		for i := r.Intn(3); i > 0; i-- {
			g.Mutate(w)
		}
		return k, w.B, "fuzzcorpus"
	case c < 95:
		// random body behind a valid header
		n := r.Intn(60)
		body := g.randBytes(n)
		w := g.header(1+r.Intn(4), body)
		return k, w.B, "randbody"
	default:
		return k, g.randBytes(r.Intn(64)).B, "random"
	}
}

// ---------------------------------------------------------------- systematic stream
// For a length/count field F governing the region R of a message: every boundary value of F combined with a
// truncation of the message at every offset inside the region F (now) claims; the enclosing length fields are
// adjusted so that they end exactly at the cut (the message is consistent except for F). This is the stream that
// finds "field says n, payload ends inside the n bytes" defects.

func boundaryValues(cur, width int) []int {
	max := 1<<(8*uint(width)) - 1
	vals := []int{cur, 0, 1, cur - 1, cur + 1, 3, 4, 5, 16, 17, 24, 32, 33, 64, 128, 255, max}
	seen := map[int]bool{}
	var out []int
	for _, v := range vals {
		if v < 0 || v > max || seen[v] {
			continue
		}
		seen[v] = true
		out = append(out, v)
	}
	return out
}

func setField(b []byte, off, width, v int) {
	if width == 2 {
		b[off], b[off+1] = byte(v>>8), byte(v)
	} else {
		b[off] = byte(v)
	}
}

// FieldTruncations calls f with every (boundary value of r's field) x (cut inside the claimed region) variant.
// maxCuts bounds the number of cut offsets tried per value (all of them when the region is shorter).
func (w *W) FieldTruncations(r Region, maxCuts int, f func(b []byte)) {
	cur := int(w.B[r.Off])
	if r.Width == 2 {
		cur = cur<<8 | int(w.B[r.Off+1])
	}
	for _, v := range boundaryValues(cur, r.Width) {
		claimed := v
		if r.Kind == "pfxlen" {
			claimed = (v + 7) / 8
		} else if r.Kind == "count" {
			claimed = v * 4
		} else if r.Kind == "hdrlen" {
			claimed = v - 19
		}
		end := r.Start + claimed
		if end > len(w.B) {
			end = len(w.B)
		}
		if end < r.Start {
			end = r.Start
		}
		n := end - r.Start + 1
		step := 1
		if n > maxCuts {
			step = (n + maxCuts - 1) / maxCuts
		}
		for c := r.Start; c <= end; c += step {
			b := append([]byte(nil), w.B[:c]...)
			setField(b, r.Off, r.Width, v)
			// enclosing regions end at the cut
			for _, a := range w.Regions {
				if a.Off == r.Off || a.Start > r.Off || a.End < r.End || a.Off+a.Width > len(b) {
					continue
				}
				switch a.Kind {
				case "hdrlen":
					setField(b, a.Off, a.Width, c)
				case "pfxlen", "count":
				default:
					setField(b, a.Off, a.Width, c-a.Start)
				}
			}
			f(b)
		}
	}
}
