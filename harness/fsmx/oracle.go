package fsmx

import (
	"fmt"
	"strings"
)

// Finding is one violation of a property's own statement, evaluated on the implementation's outputs.
type Finding struct{ Sig, Detail string }

var rfcEdges = map[byte]string{
	'I': "ICAZ", 'C': "CASIZ", 'A': "ACSIZ", 'S': "SAFIZ", 'F': "FEIZ", 'E': "EIZ", 'Z': "Z",
}

func stateName(b byte) string {
	return map[byte]string{'I': "Idle", 'C': "Connect", 'A': "Active", 'S': "OpenSent", 'F': "OpenConfirm", 'E': "Established", 'Z': "Cease"}[b]
}

// walk calls f for every observed step with the stepped session's state before the event.
func walk(c Case, obs []StepObs, f func(i int, e Event, prev byte, prevAtt bool, o StepObs, prevObs *StepObs)) {
	st := make([]byte, len(c.Sess))
	att := make([]bool, len(c.Sess))
	for i, s := range c.Sess {
		st[i] = 'I'
		if s.Init == 'a' {
			st[i] = 'A'
		}
	}
	var prevObs *StepObs
	for i := range obs {
		o := obs[i]
		e := c.Evs[i]
		f(i, e, st[e.Sid], att[e.Sid], o, prevObs)
		if o.Panic != "" || o.Wedged != "" {
			return
		}
		st[e.Sid], att[e.Sid] = o.State, o.Attached
		prevObs = &obs[i]
	}
}

// OracleCommon: crashes and hangs violate every property of this family.
func OracleCommon(c Case, obs []StepObs) []Finding {
	var out []Finding
	walk(c, obs, func(i int, e Event, prev byte, _ bool, o StepObs, _ *StepObs) {
		if o.Panic != "" {
			cls := "event-" + e.Kind
			if e.Kind == "m" {
				cls = fmt.Sprintf("msg-%c", e.M.Kind)
				if e.M.Kind == 'H' {
					switch {
					case e.M.Len < 19:
						cls = "header-length-below-19"
					case e.M.Len > 4096:
						cls = "header-length-above-4096"
					}
				}
			}
			out = append(out, Finding{"panic-in-" + stateName(prev) + "-on-" + cls, fmt.Sprintf("step %d (%s): %s", i, e, firstLine(o.Panic))})
		}
		if o.Wedged != "" {
			out = append(out, Finding{"wedged-in-" + stateName(prev), fmt.Sprintf("step %d (%s): %s", i, e, o.Wedged)})
		}
		if o.BadOut {
			out = append(out, Finding{"garbage-written-to-peer", fmt.Sprintf("step %d (%s)", i, e)})
		}
	})
	return out
}

func firstLine(s string) string {
	if i := strings.IndexByte(s, '\n'); i >= 0 {
		s = s[:i]
	}
	if len(s) > 160 {
		s = s[:160]
	}
	return s
}

// OracleC23: the observed trace is a behaviour of the abstract RFC 4271 machine with the three couplings.
func OracleC23(c Case, obs []StepObs) []Finding {
	var out []Finding
	add := func(sig, d string) { out = append(out, Finding{sig, d}) }
	walk(c, obs, func(i int, e Event, prev byte, prevAtt bool, o StepObs, po *StepObs) {
		if o.Panic != "" || o.Wedged != "" {
			return
		}
		where := fmt.Sprintf("step %d (%s): %s -> %s", i, e, stateName(prev), stateName(o.State))
		if !strings.ContainsRune(rfcEdges[prev], rune(o.State)) {
			add(fmt.Sprintf("not-an-rfc4271-transition-%s-%s", stateName(prev), stateName(o.State)), where)
		}
		// 1. attached <=> Established
		if o.Attached && o.State != 'E' {
			add("attached-while-"+stateName(o.State)+"-after-leaving-"+stateName(prev), where+" ribsInitialized still true")
		}
		if !o.Attached && o.State == 'E' {
			add("established-but-not-attached", where)
		}
		// 2. UPDATEs only processed in Established: the counter / the session's RIB content may only change there
		var prevUpd uint64
		prevLoc := map[string]bool{}
		if po != nil {
			for _, l := range po.Loc {
				prevLoc[l] = true
			}
		}
		_ = prevUpd
		if e.Kind == "m" && e.M.Kind == 'U' && !(prev == 'E' && o.State == 'E') {
			mine := fmt.Sprintf("%d:", e.Sid)
			for _, l := range o.Loc {
				if strings.HasPrefix(l, mine) && !prevLoc[l] {
					add("update-processed-in-"+stateName(prev), where+" installed "+l)
				}
			}
			if o.Upd > 0 && o.State != 'E' {
				add("update-counted-in-"+stateName(prev), where)
			}
		}
		// 3. back to Idle (or destroyed) from OpenSent/OpenConfirm/Established closes the connection
		if (prev == 'S' || prev == 'F' || prev == 'E') && (o.State == 'I' || o.State == 'Z') && o.Conn != 'c' {
			add("connection-left-open-returning-to-idle-from-"+stateName(prev), where+fmt.Sprintf(" conn=%c sent=%v", o.Conn, o.Outs))
		}
	})
	return out
}
