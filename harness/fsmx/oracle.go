package fsmx

import (
	"fmt"
	"strings"
)

// Finding is one violation of a property's own statement, evaluated on the implementation's outputs.
type Finding struct{ Sig, Detail string }

var rfcEdges = map[byte]string{
	'I': "ICAZ", 'C': "CASIZ", 'A': "ACSIZ", 'S': "SAFIZ", 'F': "FEIZ", 'E': "EIZ", 'Z': "Z",
}

func stateName(b byte) string {
	return map[byte]string{'I': "Idle", 'C': "Connect", 'A': "Active", 'S': "OpenSent", 'F': "OpenConfirm", 'E': "Established", 'Z': "Cease"}[b]
}

// walk calls f for every observed step with the stepped session's state before the event.
func walk(c Case, obs []StepObs, f func(i int, e Event, prev byte, prevAtt bool, o StepObs, prevObs *StepObs)) {
	st := make([]byte, len(c.Sess))
	att := make([]bool, len(c.Sess))
	for i, s := range c.Sess {
		st[i] = 'I'
		if s.Init == 'a' {
			st[i] = 'A'
		}
	}
	var prevObs *StepObs
	for i := range obs {
		o := obs[i]
		e := c.Evs[i]
		f(i, e, st[e.Sid], att[e.Sid], o, prevObs)
		if o.Panic != "" || o.Wedged != "" {
			return
		}
		st[e.Sid], att[e.Sid] = o.State, o.Attached
		prevObs = &obs[i]
	}
}

// OracleCommon: crashes and hangs violate every property of this family.
func OracleCommon(c Case, obs []StepObs) []Finding {
	var out []Finding
	conns := make([]int, len(c.Sess))
	walk(c, obs, func(i int, e Event, prev byte, _ bool, o StepObs, _ *StepObs) {
		if o.Panic != "" {
			cls := "event-" + e.Kind
			if e.Kind == "m" {
				cls = fmt.Sprintf("msg-%c", e.M.Kind)
				if e.M.Kind == 'H' {
					switch {
					case e.M.Len < 19:
						cls = "header-length-below-19"
					case e.M.Len > 4096:
						cls = "header-length-above-4096"
					}
				}
			}
			out = append(out, Finding{"panic-in-" + stateName(prev) + "-on-" + cls, fmt.Sprintf("step %d (%s): %s", i, e, firstLine(o.Panic))})
		}
		if (e.Kind == "up" || e.Kind == "upx") && (prev == 'C' || prev == 'A') {
			conns[e.Sid]++
		}
		if o.Wedged != "" {
			sig := "wedged-in-" + stateName(prev)
			if strings.Contains(o.Wedged, "never reacted") {
				sig = "wedged-no-reaction-to-peer-input-in-" + stateName(prev)
				if conns[e.Sid] > 1 {
					sig = "wedged-on-reconnect-in-" + stateName(prev)
				}
			}
			out = append(out, Finding{sig, fmt.Sprintf("step %d (%s), connection %d of the FSM: %s", i, e, conns[e.Sid], o.Wedged)})
		}
		if o.BadOut {
			out = append(out, Finding{"garbage-written-to-peer", fmt.Sprintf("step %d (%s)", i, e)})
		}
	})
	return out
}

func firstLine(s string) string {
	if i := strings.IndexByte(s, '\n'); i >= 0 {
		s = s[:i]
	}
	if len(s) > 160 {
		s = s[:160]
	}
	return s
}

// OracleC23: the observed trace is a behaviour of the abstract RFC 4271 machine with the three couplings.
func OracleC23(c Case, obs []StepObs) []Finding {
	var out []Finding
	add := func(sig, d string) { out = append(out, Finding{sig, d}) }
	pol := make([]byte, len(c.Sess))             // import policy in force
	suspect := make([]map[int]bool, len(c.Sess)) // routes whose last announcement carried a possibly looping ASN / cluster id
	for i, sc := range c.Sess {
		pol[i] = sc.Imp
		suspect[i] = map[int]bool{}
	}
	walk(c, obs, func(i int, e Event, prev byte, prevAtt bool, o StepObs, po *StepObs) {
		if o.Panic != "" || o.Wedged != "" {
			return
		}
		where := fmt.Sprintf("step %d (%s): %s -> %s", i, e, stateName(prev), stateName(o.State))
		if !strings.ContainsRune(rfcEdges[prev], rune(o.State)) {
			add(fmt.Sprintf("not-an-rfc4271-transition-%s-%s", stateName(prev), stateName(o.State)), where)
		}
		// 1. attached <=> Established
		if o.Attached && o.State != 'E' {
			add("attached-while-"+stateName(o.State)+"-after-leaving-"+stateName(prev), where+" ribsInitialized still true")
		}
		if !o.Attached && o.State == 'E' {
			add("established-but-not-attached", where)
		}
		// 2. UPDATEs only processed in Established: the counter / the session's RIB content may only change there
		var prevUpd uint64
		prevLoc := map[string]bool{}
		if po != nil {
			for _, l := range po.Loc {
				prevLoc[l] = true
			}
		}
		_ = prevUpd
		if e.Kind == "m" && e.M.Kind == 'U' && !(prev == 'E' && o.State == 'E') {
			mine := fmt.Sprintf("%d:", e.Sid)
			for _, l := range o.Loc {
				if strings.HasPrefix(l, mine) && !prevLoc[l] {
					add("update-processed-in-"+stateName(prev), where+" installed "+l)
				}
			}
			if o.Upd > 0 && o.State != 'E' {
				add("update-counted-in-"+stateName(prev), where)
			}
		}
		// 1b. "attached" is about what the Loc-RIB holds: while Established the Adj-RIB-In has the Loc-RIB as its
		// client, and every eligible route of the Adj-RIB-In is in the Loc-RIB iff the import policy in force accepts
		if e.Kind == "ri" {
			pol[e.Sid] = byte(e.Code)
		}
		if e.Kind == "m" && prev == 'E' && o.State == 'E' {
			switch e.M.Kind {
			case 'U':
				for _, r := range e.M.Wd {
					delete(suspect[e.Sid], r)
				}
				for _, r := range e.M.Ann {
					delete(suspect[e.Sid], r)
				}
			case 'A':
				delete(suspect[e.Sid], e.M.RID)
			case 'P':
				suspect[e.Sid][e.M.RID] = true // may legitimately be hidden by loop detection
			}
		}
		if o.State != 'E' {
			suspect[e.Sid] = map[int]bool{}
		}
		if o.State == 'E' && prev == 'E' {
			cfg := c.Sess[e.Sid]
			if (cfg.V4 && o.Reg4 != 1) || (cfg.V6 && o.Reg6 != 1) {
				add("established-but-loc-rib-not-registered-with-adj-rib-in", where+fmt.Sprintf(" clients=%d.%d", o.Reg4, o.Reg6))
			}
			accepting := pol[e.Sid] == 'A' || pol[e.Sid] == 'R'
			for _, r := range o.AdjIn {
				if suspect[e.Sid][r] {
					continue
				}
				in := false
				for _, l := range o.Loc {
					if l == fmt.Sprintf("%d:%d", e.Sid, r) || l == fmt.Sprintf("%d:%d*", e.Sid, r) {
						in = true
					}
				}
				if accepting && !in {
					add("established-route-not-in-loc-rib-under-accepting-policy", where+fmt.Sprintf(" route %d policy %c", r, pol[e.Sid]))
				}
				if !accepting && in {
					add("route-in-loc-rib-under-rejecting-policy", where+fmt.Sprintf(" route %d", r))
				}
			}
		}
		// 3. back to Idle (or destroyed) from OpenSent/OpenConfirm/Established closes the connection
		if (prev == 'S' || prev == 'F' || prev == 'E') && (o.State == 'I' || o.State == 'Z') && o.Conn != 'c' {
			add("connection-left-open-returning-to-idle-from-"+stateName(prev), where+fmt.Sprintf(" conn=%c sent=%v", o.Conn, o.Outs))
		}
	})
	return out
}

func exitClass(e Event) string {
	switch e.Kind {
	case "hp":
		return "hold-timer-expiry"
	case "ka":
		return "keepalive-send-failure"
	case "e":
		return fmt.Sprintf("admin-event-%d", e.Code)
	case "m":
		switch e.M.Kind {
		case 'N':
			if (Msg{Kind: 'N', Code: e.M.Code, Sub: e.M.Sub}).validNotification() {
				return "notification-received"
			}
			return "malformed-message"
		case 'H', 'B', 'T':
			return "malformed-message"
		case 'O':
			return "unexpected-or-invalid-open"
		}
		return "message-" + string(e.M.Kind)
	}
	return "event-" + e.Kind
}

// validNotification mirrors RFC 4271/4486 code tables (what a decoder must accept).
func (m Msg) validNotification() bool {
	c, s := m.Code, m.Sub
	switch c {
	case 1:
		return s >= 1 && s <= 3
	case 2:
		return s >= 1 && s <= 6 && s != 5
	case 3:
		return s >= 1 && s <= 11 && s != 7
	case 4, 5:
		return s == 0
	case 6:
		return s <= 8
	}
	return false
}

// OracleC07: whenever a session is not Established nothing of it is left in the Loc-RIB, its
// Adj-RIB-Out is unregistered, the ASN/cluster-id contributions are exactly those of the attached
// sessions, other sessions are untouched, and a re-establishment starts empty.
func OracleC07(c Case, obs []StepObs) []Finding {
	var out []Finding
	pol07 := make([]byte, len(c.Sess)) // import policy in force
	for i, sc := range c.Sess {
		pol07[i] = sc.Imp
	}
	reported := map[string]bool{} // a leftover persists over the following steps: report it where it first shows
	add := func(sig, d string) {
		k := sig
		if j := strings.Index(sig, "-after-"); j >= 0 {
			k = sig[:j]
		}
		if !reported[k] {
			reported[k] = true
			out = append(out, Finding{sig, d})
		}
	}
	walk(c, obs, func(i int, e Event, prev byte, prevAtt bool, o StepObs, po *StepObs) {
		if o.Panic != "" || o.Wedged != "" {
			return
		}
		where := fmt.Sprintf("step %d (%s): %s -> %s", i, e, stateName(prev), stateName(o.State))
		mine := fmt.Sprintf("%d:", e.Sid)
		own := 0
		for _, l := range o.Loc {
			if strings.HasPrefix(l, mine) {
				own++
			}
		}
		cls := exitClass(e)
		if e.Kind == "ri" {
			pol07[e.Sid] = byte(e.Code)
		}
		if o.State != 'E' {
			if own > 0 {
				add("routes-left-in-loc-rib-after-"+cls+"-imp-"+string(c.Sess[e.Sid].Imp), where+" Loc-RIB="+strings.Join(o.Loc, ","))
			}
			if len(o.AdjIn) > 0 {
				add("adj-rib-in-not-emptied-after-"+cls, where)
			}
		}
		if prev != 'E' && o.State == 'E' && (own > 0 || len(o.AdjIn) > 0) {
			add("re-established-with-stale-routes", where+" Loc-RIB="+strings.Join(o.Loc, ","))
		}
		// accounting over all sessions, read from o.All (state letter + attached flag per session):
		// a session's ASN / cluster id is contributing exactly while some Established session contributes it
		att4, att6 := 0, 0
		est := func(k int) bool { return 2*k+1 < len(o.All) && o.All[2*k] == 'E' }
		for k := range c.Sess {
			if est(k) {
				if c.Sess[k].V4 {
					att4++
				}
				if c.Sess[k].V6 {
					att6++
				}
			}
			wantASN, wantCID := false, false
			for k2 := range c.Sess {
				if est(k2) && c.Sess[k2].LAS == c.Sess[k].LAS {
					wantASN = true
				}
				if est(k2) && c.Sess[k2].RR && clusterOf(c.Sess[k2]) == clusterOf(c.Sess[k]) {
					wantCID = true
				}
			}
			if k < len(o.ASNRef) {
				got := o.ASNRef[k] == '1'
				if got && !wantASN {
					add("asn-contribution-left-after-"+cls, where+fmt.Sprintf(" (AS %d)", c.Sess[k].LAS))
				}
				if !got && wantASN {
					add("asn-contribution-of-an-established-session-released-after-"+cls, where+fmt.Sprintf(" (AS %d)", c.Sess[k].LAS))
				}
			}
			if k < len(o.CIDRef) {
				got := o.CIDRef[k] == '1'
				if got && !wantCID {
					add("cluster-id-contribution-left-after-"+cls, where+fmt.Sprintf(" (cluster id %d)", clusterOf(c.Sess[k])))
				}
				if !got && wantCID {
					add("cluster-id-contribution-of-an-established-session-released-after-"+cls, where+fmt.Sprintf(" (cluster id %d)", clusterOf(c.Sess[k])))
				}
			}
		}
		// loop detection behaviour: a path carrying a contributing ASN / cluster id must not be installed
		if e.Kind == "m" && e.M.Kind == 'P' && prev == 'E' && o.State == 'E' {
			hidden := false
			for k2 := range c.Sess {
				if !est(k2) {
					continue
				}
				if e.M.ByASN && c.Sess[k2].LAS == e.M.Val {
					hidden = true
				}
				if !e.M.ByASN && c.Sess[k2].RR && clusterOf(c.Sess[k2]) == e.M.Val {
					hidden = true
				}
			}
			installed := false
			for _, l := range o.Loc {
				if l == fmt.Sprintf("%d:%d", e.Sid, e.M.RID) || l == fmt.Sprintf("%d:%d*", e.Sid, e.M.RID) {
					installed = true
				}
			}
			what := "cluster-id"
			if e.M.ByASN {
				what = "asn"
			}
			if hidden && installed {
				add("path-with-contributing-"+what+"-installed", where)
			}
			if !hidden && !installed && (pol07[e.Sid] == 'A' || pol07[e.Sid] == 'R') && c.Sess[e.Sid].V4 {
				add("path-with-non-contributing-"+what+"-not-installed", where)
			}
		}
		if int(o.Clients4) != att4 || int(o.Clients6) != att6 {
			add("adj-rib-out-registration-wrong-after-"+cls, where+fmt.Sprintf(" registered=%d.%d established=%d.%d", o.Clients4, o.Clients6, att4, att6))
		}
		// other sessions' routes are untouched by this session's step
		if po != nil {
			var before, after []string
			for _, l := range po.Loc {
				if !strings.HasPrefix(l, mine) {
					before = append(before, l)
				}
			}
			for _, l := range o.Loc {
				if !strings.HasPrefix(l, mine) {
					after = append(after, l)
				}
			}
			if strings.Join(before, ",") != strings.Join(after, ",") {
				add("other-sessions-routes-changed-by-"+cls, where+" before="+strings.Join(before, ",")+" after="+strings.Join(after, ","))
			}
		}
	})
	return out
}

// owed returns the NOTIFICATIONs RFC 4271 section 6 allows as an answer to a transmission (nil: none is
// owed), and a class name for signatures. Written from the RFC text, independent of bio-rd's decoder.
func owed(m Msg, c SessCfg) (set []string, class string) {
	addU := func(s string) {
		for _, x := range set {
			if x == s {
				return
			}
		}
		set = append(set, s)
	}
	switch m.Kind {
	case 'H':
		if !m.MarkerOK {
			addU("N1.1")
			class = "damaged-marker"
		}
		if m.Len < 19 || m.Len > 4096 {
			addU("N1.2")
			if class == "" {
				if m.Len < 19 {
					class = "header-length-below-19"
				} else {
					class = "header-length-above-4096"
				}
			}
		}
		if m.Type == 0 || m.Type > 4 {
			addU("N1.3")
			if class == "" {
				class = "bad-message-type"
			}
		}
		if (m.Type == 1 && m.Len < 29) || (m.Type == 2 && m.Len < 23) || (m.Type == 3 && m.Len < 21) || (m.Type == 4 && m.Len != 19) {
			addU("N1.2")
			if class == "" {
				class = fmt.Sprintf("length-not-fitting-type-%d", m.Type)
			}
		}
		if m.Type == 1 { // zero body: version 0
			addU("N2.1")
			if class == "" {
				class = "open-with-zero-body"
			}
		}
	case 'O':
		if m.Ver != 4 {
			addU("N2.1")
			class = "open-unsupported-version"
		}
		if m.ID == 0 {
			addU("N2.3")
			if class == "" {
				class = "open-identifier-zero"
			}
		}
		if m.Hold == 1 || m.Hold == 2 {
			addU("N2.6")
			if class == "" {
				class = "open-hold-time-1-or-2"
			}
		}
	case 'B':
		switch m.Variant {
		case "ovt":
			return []string{"N2.4"}, "undecodable-open-body"
		case "ocl":
			return []string{"N2.0", "N2.4"}, "undecodable-open-body"
		case "uat":
			return []string{"N3.5"}, "undecodable-update-body"
		}
	}
	return set, class
}

// OracleC21: nothing a peer sends crashes or wedges the speaker or touches another session; a
// malformed message is answered with an RFC 4271 section 6 NOTIFICATION, then the connection is closed.
func OracleC21(c Case, obs []StepObs) []Finding {
	var out []Finding
	add := func(sig, d string) { out = append(out, Finding{sig, d}) }
	broken := make([]bool, len(c.Sess))
	connOpen := make([]bool, len(c.Sess))
	walk(c, obs, func(i int, e Event, prev byte, prevAtt bool, o StepObs, po *StepObs) {
		if o.Panic != "" || o.Wedged != "" {
			return
		}
		where := fmt.Sprintf("step %d (%s): %s -> %s sent=%v", i, e, stateName(prev), stateName(o.State), o.Outs)
		wasOpen, wasBroken := connOpen[e.Sid], broken[e.Sid]
		// bookkeeping of the connection the peer talks over
		switch e.Kind {
		case "up", "upx":
			if prev == 'C' || prev == 'A' {
				broken[e.Sid] = e.Kind == "upx"
			}
		case "brk", "pc":
			broken[e.Sid] = true
		}
		connOpen[e.Sid] = o.Conn == 'o'
		// other sessions are not affected by what this session receives
		if po != nil && e.Kind == "m" {
			for k := range c.Sess {
				if k != e.Sid && 2*k+1 < len(o.All) && 2*k+1 < len(po.All) && o.All[2*k:2*k+2] != po.All[2*k:2*k+2] {
					add("another-session-affected-by-peer-input", where+" all="+po.All+"->"+o.All)
				}
			}
			mine := fmt.Sprintf("%d:", e.Sid)
			var before, after []string
			for _, l := range po.Loc {
				if !strings.HasPrefix(l, mine) {
					before = append(before, l)
				}
			}
			for _, l := range o.Loc {
				if !strings.HasPrefix(l, mine) {
					after = append(after, l)
				}
			}
			if strings.Join(before, ",") != strings.Join(after, ",") {
				add("another-sessions-routes-affected-by-peer-input", where)
			}
		}
		if e.Kind != "m" || !(prev == 'S' || prev == 'F' || prev == 'E') || !wasOpen || o.ReadErr {
			return
		}
		set, class := owed(e.M, c.Sess[e.Sid])
		if len(set) == 0 {
			return
		}
		// a malformed message was delivered to a session state
		if o.State != 'I' && o.State != 'Z' && o.State != 'A' {
			add("malformed-message-accepted-"+class, where)
			return
		}
		if o.Conn != 'c' {
			add("connection-not-closed-after-"+class, where)
		}
		if wasBroken {
			return // the NOTIFICATION cannot be written
		}
		sent := ""
		for _, x := range o.Outs {
			if strings.HasPrefix(x, "N") {
				sent = x
				break
			}
		}
		if sent == "" {
			add("no-notification-for-"+class, where+" owed="+strings.Join(set, "|"))
			return
		}
		ok := false
		for _, x := range set {
			if x == sent {
				ok = true
			}
		}
		if !ok {
			add("wrong-notification-for-"+class, where+" owed="+strings.Join(set, "|"))
		}
	})
	return out
}

// ---- C22

// openClauses lists the clauses of the property that an OPEN violates for session c (empty = valid),
// as the NOTIFICATION tokens that are acceptable answers. Written from the property text.
func openClauses(m Msg, c SessCfg) (viol []string, names []string) {
	if m.Ver != 4 {
		viol, names = append(viol, "N2.1"), append(names, "version")
	}
	// peer AS through AS_TRANS and the 4-octet capability
	as := uint32(m.ASN16)
	for _, x := range FlatCaps(m.Caps) {
		if x.Kind == 'a' && as == 23456 {
			as = x.V
		}
	}
	if as != c.PAS {
		viol, names = append(viol, "N2.2"), append(names, "peer-as")
	}
	if m.ID == 0 || (c.LAS == c.PAS && m.ID == c.RID) {
		viol, names = append(viol, "N2.3"), append(names, "identifier")
	}
	if m.Hold == 1 || m.Hold == 2 {
		viol, names = append(viol, "N2.6"), append(names, "hold-time")
	}
	if c.LAS != c.PAS && c.Role >= 1 && c.Role <= 5 {
		var roles []uint32
		for _, x := range m.Caps {
			if x.Kind == 'r' {
				roles = append(roles, x.V)
			}
		}
		ok := true
		if len(roles) == 0 {
			ok = !c.Strict
		} else {
			for _, r := range roles {
				if r != roles[0] {
					ok = false
				}
			}
			loc := uint32(wireRole(c.Role))
			pair := map[[2]uint32]bool{{0, 3}: true, {3, 0}: true, {1, 2}: true, {2, 1}: true, {4, 4}: true}
			if !pair[[2]uint32{loc, roles[0]}] {
				ok = false
			}
		}
		if !ok {
			viol, names = append(viol, "N2.11"), append(names, "role")
		}
	}
	return viol, names
}

// expectedNeg: every option is on iff the OPEN the speaker really wrote (ours = the capability tokens decoded
// from its bytes, ourHold its hold time) AND the peer's OPEN advertise it.
func expectedNeg(m Msg, c SessCfg, ours []string, ourHold int) string {
	h := ourHold
	if m.Hold < h {
		h = m.Hold
	}
	ka := h * 1000 / 3
	has := func(f func(Cap) bool) bool {
		for _, x := range FlatCaps(m.Caps) {
			if f(x) {
				return true
			}
		}
		return false
	}
	asn4 := has(func(x Cap) bool { return x.Kind == 'a' })
	apSend := func(afi uint32) bool {
		return has(func(x Cap) bool { return x.Kind == 'p' && x.A == afi && x.S == 1 && (x.V == 2 || x.V == 3) })
	}
	apRecv := func(afi uint32) bool {
		return has(func(x Cap) bool { return x.Kind == 'p' && x.A == afi && x.S == 1 && (x.V == 1 || x.V == 3) })
	}
	mp := func(afi uint32) bool { return has(func(x Cap) bool { return x.Kind == 'm' && x.A == afi && x.S == 1 }) }
	adv, remote := false, uint32(0)
	if c.Role >= 1 && c.Role <= 5 {
		for _, x := range m.Caps {
			if x.Kind == 'r' {
				adv, remote = true, x.V
			}
		}
	}
	we := func(pfx string, vals ...string) bool {
		for _, x := range ours {
			for _, v := range vals {
				if x == pfx+v {
					return true
				}
			}
			if len(vals) == 0 && strings.HasPrefix(x, pfx) {
				return true
			}
		}
		return false
	}
	return fmt.Sprintf("h%dk%dt%sa%sx%s%s%s%s%s%sr%s%d", h, ka, b01(h != 0), b01(we("a") && asn4),
		b01(we("p1.1.", "1", "3") && apSend(1)), b01(we("p1.1.", "2", "3") && apRecv(1)), b01(we("m1.1", "") && mp(1)),
		b01(we("p2.1.", "1", "3") && apSend(2)), b01(we("p2.1.", "2", "3") && apRecv(2)), b01(we("m2.1", "") && mp(2)), b01(adv), remote)
}

func expectedSentOpen(c SessCfg) string {
	asn := c.LAS
	if asn > 65535 {
		asn = 23456
	}
	var caps []string
	ap := func(recv, send bool, afi int) {
		v := 0
		if recv {
			v++
		}
		if send {
			v += 2
		}
		if v != 0 {
			caps = append(caps, fmt.Sprintf("p%d.1.%d", afi, v))
		}
	}
	if c.V4 {
		ap(c.APR4, c.APS4, 1)
	}
	if c.V6 {
		ap(c.APR6, c.APS6, 2)
	}
	caps = append(caps, fmt.Sprintf("a%d", c.LAS))
	if c.V4 && c.NX4 {
		caps = append(caps, "x1.1.2", "m1.1")
	}
	if c.V4 && c.MP4 {
		caps = append(caps, "m1.1")
	}
	if c.V6 {
		caps = append(caps, "m2.1")
	}
	if c.LAS != c.PAS && c.Role >= 1 && c.Role <= 5 {
		caps = append(caps, fmt.Sprintf("r%d", wireRole(c.Role)))
	}
	sortStrings(caps)
	return fmt.Sprintf("O%d.%d.%d.%s", asn, c.Hold, c.RID, strings.Join(caps, "+"))
}

func sortStrings(s []string) {
	for i := 1; i < len(s); i++ {
		for j := i; j > 0 && s[j] < s[j-1]; j-- {
			s[j], s[j-1] = s[j-1], s[j]
		}
	}
}

// OracleC22: admission and negotiation on the implementation's outputs.
func OracleC22(c Case, obs []StepObs) []Finding {
	var out []Finding
	add := func(sig, d string) { out = append(out, Finding{sig, d}) }
	broken := make([]bool, len(c.Sess))
	connOpen := make([]bool, len(c.Sess))
	lastValid := make([]bool, len(c.Sess))
	ourCaps := make([][]string, len(c.Sess))
	ourHold := make([]int, len(c.Sess))
	walk(c, obs, func(i int, e Event, prev byte, prevAtt bool, o StepObs, po *StepObs) {
		if o.Panic != "" || o.Wedged != "" {
			return
		}
		cfg := c.Sess[e.Sid]
		where := fmt.Sprintf("step %d (%s): %s -> %s sent=%v neg=%s", i, e, stateName(prev), stateName(o.State), o.Outs, o.Neg)
		wasOpen, wasBroken := connOpen[e.Sid], broken[e.Sid]
		switch e.Kind {
		case "up", "upx":
			if prev == 'C' || prev == 'A' {
				broken[e.Sid] = e.Kind == "upx"
			}
		case "brk", "pc":
			broken[e.Sid] = true
		}
		connOpen[e.Sid] = o.Conn == 'o'
		// the OPEN we send
		for _, x := range o.Outs {
			if strings.HasPrefix(x, "O") {
				if x != expectedSentOpen(cfg) {
					add("sent-open-differs-from-configuration", where+" expected="+expectedSentOpen(cfg))
				}
				// what we really advertised: decoded from the bytes on the wire
				if f := strings.SplitN(x[1:], ".", 4); len(f) == 4 {
					fmt.Sscanf(f[1], "%d", &ourHold[e.Sid])
					ourCaps[e.Sid] = nil
					if f[3] != "-" {
						ourCaps[e.Sid] = strings.Split(f[3], "+")
					}
				}
			}
		}
		if prev != 'E' && o.State == 'E' && !lastValid[e.Sid] {
			add("established-without-a-valid-open", where)
		}
		if prev != 'F' && o.State == 'F' && !(e.Kind == "m" && e.M.Kind == 'O') {
			add("openconfirm-entered-without-open", where)
		}
		if !(e.Kind == "m" && e.M.Kind == 'O' && prev == 'S' && wasOpen && !wasBroken) || o.ReadErr {
			return
		}
		viol, names := openClauses(e.M, cfg)
		if len(viol) == 0 {
			lastValid[e.Sid] = true
			if o.State != 'F' {
				add("valid-open-rejected", where)
				return
			}
			if len(o.Outs) != 1 || o.Outs[0] != "K" {
				add("valid-open-not-answered-with-keepalive-only", where)
			}
			if want := expectedNeg(e.M, cfg, ourCaps[e.Sid], ourHold[e.Sid]); want != o.Neg {
				field := "options"
				if want[:strings.IndexByte(want, 'k')] != o.Neg[:strings.IndexByte(o.Neg, 'k')] {
					field = "hold-time"
				}
				add("negotiated-"+field+"-wrong", where+" expected="+want)
			}
			return
		}
		lastValid[e.Sid] = false
		cls := strings.Join(names, "+")
		if o.State == 'F' || o.State == 'E' {
			add("invalid-open-accepted-"+cls, where)
			return
		}
		if o.Conn != 'c' {
			add("connection-left-open-after-rejected-open-"+cls, where)
		}
		sent := ""
		for _, x := range o.Outs {
			if strings.HasPrefix(x, "N") {
				sent = x
			}
		}
		ok := false
		for _, v := range viol {
			if v == sent {
				ok = true
			}
		}
		if sent == "" {
			add("no-open-error-notification-"+cls, where)
		} else if !ok {
			add("wrong-open-error-notification-"+cls, where+" acceptable="+strings.Join(viol, "|"))
		}
	})
	return out
}
