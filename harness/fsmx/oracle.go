package fsmx

import (
	"fmt"
	"strings"
)

// Finding is one violation of a property's own statement, evaluated on the implementation's outputs.
type Finding struct{ Sig, Detail string }

var rfcEdges = map[byte]string{
	'I': "ICAZ", 'C': "CASIZ", 'A': "ACSIZ", 'S': "SAFIZ", 'F': "FEIZ", 'E': "EIZ", 'Z': "Z",
}

func stateName(b byte) string {
	return map[byte]string{'I': "Idle", 'C': "Connect", 'A': "Active", 'S': "OpenSent", 'F': "OpenConfirm", 'E': "Established", 'Z': "Cease"}[b]
}

// walk calls f for every observed step with the stepped session's state before the event.
func walk(c Case, obs []StepObs, f func(i int, e Event, prev byte, prevAtt bool, o StepObs, prevObs *StepObs)) {
	st := make([]byte, len(c.Sess))
	att := make([]bool, len(c.Sess))
	for i, s := range c.Sess {
		st[i] = 'I'
		if s.Init == 'a' {
			st[i] = 'A'
		}
	}
	var prevObs *StepObs
	for i := range obs {
		o := obs[i]
		e := c.Evs[i]
		f(i, e, st[e.Sid], att[e.Sid], o, prevObs)
		if o.Panic != "" || o.Wedged != "" {
			return
		}
		st[e.Sid], att[e.Sid] = o.State, o.Attached
		prevObs = &obs[i]
	}
}

// OracleCommon: crashes and hangs violate every property of this family.
func OracleCommon(c Case, obs []StepObs) []Finding {
	var out []Finding
	walk(c, obs, func(i int, e Event, prev byte, _ bool, o StepObs, _ *StepObs) {
		if o.Panic != "" {
			cls := "event-" + e.Kind
			if e.Kind == "m" {
				cls = fmt.Sprintf("msg-%c", e.M.Kind)
				if e.M.Kind == 'H' {
					switch {
					case e.M.Len < 19:
						cls = "header-length-below-19"
					case e.M.Len > 4096:
						cls = "header-length-above-4096"
					}
				}
			}
			out = append(out, Finding{"panic-in-" + stateName(prev) + "-on-" + cls, fmt.Sprintf("step %d (%s): %s", i, e, firstLine(o.Panic))})
		}
		if o.Wedged != "" {
			out = append(out, Finding{"wedged-in-" + stateName(prev), fmt.Sprintf("step %d (%s): %s", i, e, o.Wedged)})
		}
		if o.BadOut {
			out = append(out, Finding{"garbage-written-to-peer", fmt.Sprintf("step %d (%s)", i, e)})
		}
	})
	return out
}

func firstLine(s string) string {
	if i := strings.IndexByte(s, '\n'); i >= 0 {
		s = s[:i]
	}
	if len(s) > 160 {
		s = s[:160]
	}
	return s
}

// OracleC23: the observed trace is a behaviour of the abstract RFC 4271 machine with the three couplings.
func OracleC23(c Case, obs []StepObs) []Finding {
	var out []Finding
	add := func(sig, d string) { out = append(out, Finding{sig, d}) }
	walk(c, obs, func(i int, e Event, prev byte, prevAtt bool, o StepObs, po *StepObs) {
		if o.Panic != "" || o.Wedged != "" {
			return
		}
		where := fmt.Sprintf("step %d (%s): %s -> %s", i, e, stateName(prev), stateName(o.State))
		if !strings.ContainsRune(rfcEdges[prev], rune(o.State)) {
			add(fmt.Sprintf("not-an-rfc4271-transition-%s-%s", stateName(prev), stateName(o.State)), where)
		}
		// 1. attached <=> Established
		if o.Attached && o.State != 'E' {
			add("attached-while-"+stateName(o.State)+"-after-leaving-"+stateName(prev), where+" ribsInitialized still true")
		}
		if !o.Attached && o.State == 'E' {
			add("established-but-not-attached", where)
		}
		// 2. UPDATEs only processed in Established: the counter / the session's RIB content may only change there
		var prevUpd uint64
		prevLoc := map[string]bool{}
		if po != nil {
			for _, l := range po.Loc {
				prevLoc[l] = true
			}
		}
		_ = prevUpd
		if e.Kind == "m" && e.M.Kind == 'U' && !(prev == 'E' && o.State == 'E') {
			mine := fmt.Sprintf("%d:", e.Sid)
			for _, l := range o.Loc {
				if strings.HasPrefix(l, mine) && !prevLoc[l] {
					add("update-processed-in-"+stateName(prev), where+" installed "+l)
				}
			}
			if o.Upd > 0 && o.State != 'E' {
				add("update-counted-in-"+stateName(prev), where)
			}
		}
		// 3. back to Idle (or destroyed) from OpenSent/OpenConfirm/Established closes the connection
		if (prev == 'S' || prev == 'F' || prev == 'E') && (o.State == 'I' || o.State == 'Z') && o.Conn != 'c' {
			add("connection-left-open-returning-to-idle-from-"+stateName(prev), where+fmt.Sprintf(" conn=%c sent=%v", o.Conn, o.Outs))
		}
	})
	return out
}

func exitClass(e Event) string {
	switch e.Kind {
	case "hp":
		return "hold-timer-expiry"
	case "ka":
		return "keepalive-send-failure"
	case "e":
		return fmt.Sprintf("admin-event-%d", e.Code)
	case "m":
		switch e.M.Kind {
		case 'N':
			if (Msg{Kind: 'N', Code: e.M.Code, Sub: e.M.Sub}).validNotification() {
				return "notification-received"
			}
			return "malformed-message"
		case 'H', 'B', 'T':
			return "malformed-message"
		case 'O':
			return "unexpected-or-invalid-open"
		}
		return "message-" + string(e.M.Kind)
	}
	return "event-" + e.Kind
}

// validNotification mirrors RFC 4271/4486 code tables (what a decoder must accept).
func (m Msg) validNotification() bool {
	c, s := m.Code, m.Sub
	switch c {
	case 1:
		return s >= 1 && s <= 3
	case 2:
		return s >= 1 && s <= 6 && s != 5
	case 3:
		return s >= 1 && s <= 11 && s != 7
	case 4, 5:
		return s == 0
	case 6:
		return s <= 8
	}
	return false
}

// OracleC07: whenever a session is not Established nothing of it is left in the Loc-RIB, its
// Adj-RIB-Out is unregistered, the ASN/cluster-id contributions are exactly those of the attached
// sessions, other sessions are untouched, and a re-establishment starts empty.
func OracleC07(c Case, obs []StepObs) []Finding {
	var out []Finding
	add := func(sig, d string) { out = append(out, Finding{sig, d}) }
	walk(c, obs, func(i int, e Event, prev byte, prevAtt bool, o StepObs, po *StepObs) {
		if o.Panic != "" || o.Wedged != "" {
			return
		}
		where := fmt.Sprintf("step %d (%s): %s -> %s", i, e, stateName(prev), stateName(o.State))
		mine := fmt.Sprintf("%d:", e.Sid)
		own := 0
		for _, l := range o.Loc {
			if strings.HasPrefix(l, mine) {
				own++
			}
		}
		cls := exitClass(e)
		if o.State != 'E' {
			if own > 0 {
				add("routes-left-in-loc-rib-after-"+cls+"-imp-"+string(c.Sess[e.Sid].Imp), where+" Loc-RIB="+strings.Join(o.Loc, ","))
			}
			if len(o.AdjIn) > 0 {
				add("adj-rib-in-not-emptied-after-"+cls, where)
			}
		}
		if prev != 'E' && o.State == 'E' && (own > 0 || len(o.AdjIn) > 0) {
			add("re-established-with-stale-routes", where+" Loc-RIB="+strings.Join(o.Loc, ","))
		}
		// accounting over all sessions, read from o.All (state letter + attached flag per session)
		att4, att6, attAny := 0, 0, 0
		for k := range c.Sess {
			if 2*k+1 < len(o.All) && o.All[2*k] == 'E' {
				attAny++
				if c.Sess[k].V4 {
					att4++
				}
				if c.Sess[k].V6 {
					att6++
				}
				if c.Sess[k].RR && k < len(o.CIDRef) && o.CIDRef[k] != '1' {
					add("cluster-id-contribution-missing-while-established", where)
				}
			} else if c.Sess[k].RR && k < len(o.CIDRef) && o.CIDRef[k] == '1' {
				// another established RR session may legitimately hold the same cluster id
				shared := false
				for k2 := range c.Sess {
					if k2 != k && c.Sess[k2].RR && clusterOf(c.Sess[k2]) == clusterOf(c.Sess[k]) && 2*k2 < len(o.All) && o.All[2*k2] == 'E' {
						shared = true
					}
				}
				if !shared {
					add("cluster-id-contribution-left-after-"+cls, where)
				}
			}
		}
		if attAny == 0 && o.ASNRef {
			add("asn-contribution-left-after-"+cls, where)
		}
		if attAny > 0 && !o.ASNRef {
			add("asn-contribution-of-another-session-released-after-"+cls, where)
		}
		if int(o.Clients4) != att4 || int(o.Clients6) != att6 {
			add("adj-rib-out-registration-wrong-after-"+cls, where+fmt.Sprintf(" registered=%d.%d established=%d.%d", o.Clients4, o.Clients6, att4, att6))
		}
		// other sessions' routes are untouched by this session's step
		if po != nil {
			var before, after []string
			for _, l := range po.Loc {
				if !strings.HasPrefix(l, mine) {
					before = append(before, l)
				}
			}
			for _, l := range o.Loc {
				if !strings.HasPrefix(l, mine) {
					after = append(after, l)
				}
			}
			if strings.Join(before, ",") != strings.Join(after, ",") {
				add("other-sessions-routes-changed-by-"+cls, where+" before="+strings.Join(before, ",")+" after="+strings.Join(after, ","))
			}
		}
	})
	return out
}

// owed returns the NOTIFICATIONs RFC 4271 section 6 allows as an answer to a transmission (nil: none is
// owed), and a class name for signatures. Written from the RFC text, independent of bio-rd's decoder.
func owed(m Msg, c SessCfg) (set []string, class string) {
	addU := func(s string) {
		for _, x := range set {
			if x == s {
				return
			}
		}
		set = append(set, s)
	}
	switch m.Kind {
	case 'H':
		if !m.MarkerOK {
			addU("N1.1")
			class = "damaged-marker"
		}
		if m.Len < 19 || m.Len > 4096 {
			addU("N1.2")
			if class == "" {
				if m.Len < 19 {
					class = "header-length-below-19"
				} else {
					class = "header-length-above-4096"
				}
			}
		}
		if m.Type == 0 || m.Type > 4 {
			addU("N1.3")
			if class == "" {
				class = "bad-message-type"
			}
		}
		if (m.Type == 1 && m.Len < 29) || (m.Type == 2 && m.Len < 23) || (m.Type == 3 && m.Len < 21) || (m.Type == 4 && m.Len != 19) {
			addU("N1.2")
			if class == "" {
				class = fmt.Sprintf("length-not-fitting-type-%d", m.Type)
			}
		}
		if m.Type == 1 { // zero body: version 0
			addU("N2.1")
			if class == "" {
				class = "open-with-zero-body"
			}
		}
	case 'O':
		if m.Ver != 4 {
			addU("N2.1")
			class = "open-unsupported-version"
		}
		if m.ID == 0 {
			addU("N2.3")
			if class == "" {
				class = "open-identifier-zero"
			}
		}
		if m.Hold == 1 || m.Hold == 2 {
			addU("N2.6")
			if class == "" {
				class = "open-hold-time-1-or-2"
			}
		}
	case 'B':
		switch m.Variant {
		case "ovt":
			return []string{"N2.4"}, "undecodable-open-body"
		case "ocl":
			return []string{"N2.0", "N2.4"}, "undecodable-open-body"
		case "uat":
			return []string{"N3.5"}, "undecodable-update-body"
		}
	}
	return set, class
}

// OracleC21: nothing a peer sends crashes or wedges the speaker or touches another session; a
// malformed message is answered with an RFC 4271 section 6 NOTIFICATION, then the connection is closed.
func OracleC21(c Case, obs []StepObs) []Finding {
	var out []Finding
	add := func(sig, d string) { out = append(out, Finding{sig, d}) }
	broken := make([]bool, len(c.Sess))
	connOpen := make([]bool, len(c.Sess))
	walk(c, obs, func(i int, e Event, prev byte, prevAtt bool, o StepObs, po *StepObs) {
		if o.Panic != "" || o.Wedged != "" {
			return
		}
		where := fmt.Sprintf("step %d (%s): %s -> %s sent=%v", i, e, stateName(prev), stateName(o.State), o.Outs)
		wasOpen, wasBroken := connOpen[e.Sid], broken[e.Sid]
		// bookkeeping of the connection the peer talks over
		switch e.Kind {
		case "up", "upx":
			if prev == 'C' || prev == 'A' {
				broken[e.Sid] = e.Kind == "upx"
			}
		case "brk":
			broken[e.Sid] = true
		}
		connOpen[e.Sid] = o.Conn == 'o'
		// other sessions are not affected by what this session receives
		if po != nil && e.Kind == "m" {
			for k := range c.Sess {
				if k != e.Sid && 2*k+1 < len(o.All) && 2*k+1 < len(po.All) && o.All[2*k:2*k+2] != po.All[2*k:2*k+2] {
					add("another-session-affected-by-peer-input", where+" all="+po.All+"->"+o.All)
				}
			}
			mine := fmt.Sprintf("%d:", e.Sid)
			var before, after []string
			for _, l := range po.Loc {
				if !strings.HasPrefix(l, mine) {
					before = append(before, l)
				}
			}
			for _, l := range o.Loc {
				if !strings.HasPrefix(l, mine) {
					after = append(after, l)
				}
			}
			if strings.Join(before, ",") != strings.Join(after, ",") {
				add("another-sessions-routes-affected-by-peer-input", where)
			}
		}
		if e.Kind != "m" || !(prev == 'S' || prev == 'F' || prev == 'E') || !wasOpen || o.ReadErr {
			return
		}
		set, class := owed(e.M, c.Sess[e.Sid])
		if len(set) == 0 {
			return
		}
		// a malformed message was delivered to a session state
		if o.State != 'I' && o.State != 'Z' && o.State != 'A' {
			add("malformed-message-accepted-"+class, where)
			return
		}
		if o.Conn != 'c' {
			add("connection-not-closed-after-"+class, where)
		}
		if wasBroken {
			return // the NOTIFICATION cannot be written
		}
		sent := ""
		for _, x := range o.Outs {
			if strings.HasPrefix(x, "N") {
				sent = x
				break
			}
		}
		if sent == "" {
			add("no-notification-for-"+class, where+" owed="+strings.Join(set, "|"))
			return
		}
		ok := false
		for _, x := range set {
			if x == sent {
				ok = true
			}
		}
		if !ok {
			add("wrong-notification-for-"+class, where+" owed="+strings.Join(set, "|"))
		}
	})
	return out
}
