package fsmx

import (
	"fmt"
	"strings"
)

// Finding is one violation of a property's own statement, evaluated on the implementation's outputs.
type Finding struct{ Sig, Detail string }

var rfcEdges = map[byte]string{
	'I': "ICAZ", 'C': "CASIZ", 'A': "ACSIZ", 'S': "SAFIZ", 'F': "FEIZ", 'E': "EIZ", 'Z': "Z",
}

func stateName(b byte) string {
	return map[byte]string{'I': "Idle", 'C': "Connect", 'A': "Active", 'S': "OpenSent", 'F': "OpenConfirm", 'E': "Established", 'Z': "Cease"}[b]
}

// walk calls f for every observed step with the stepped session's state before the event.
func walk(c Case, obs []StepObs, f func(i int, e Event, prev byte, prevAtt bool, o StepObs, prevObs *StepObs)) {
	st := make([]byte, len(c.Sess))
	att := make([]bool, len(c.Sess))
	for i, s := range c.Sess {
		st[i] = 'I'
		if s.Init == 'a' {
			st[i] = 'A'
		}
	}
	var prevObs *StepObs
	for i := range obs {
		o := obs[i]
		e := c.Evs[i]
		f(i, e, st[e.Sid], att[e.Sid], o, prevObs)
		if o.Panic != "" || o.Wedged != "" {
			return
		}
		st[e.Sid], att[e.Sid] = o.State, o.Attached
		prevObs = &obs[i]
	}
}

// OracleCommon: crashes and hangs violate every property of this family.
func OracleCommon(c Case, obs []StepObs) []Finding {
	var out []Finding
	walk(c, obs, func(i int, e Event, prev byte, _ bool, o StepObs, _ *StepObs) {
		if o.Panic != "" {
			cls := "event-" + e.Kind
			if e.Kind == "m" {
				cls = fmt.Sprintf("msg-%c", e.M.Kind)
				if e.M.Kind == 'H' {
					switch {
					case e.M.Len < 19:
						cls = "header-length-below-19"
					case e.M.Len > 4096:
						cls = "header-length-above-4096"
					}
				}
			}
			out = append(out, Finding{"panic-in-" + stateName(prev) + "-on-" + cls, fmt.Sprintf("step %d (%s): %s", i, e, firstLine(o.Panic))})
		}
		if o.Wedged != "" {
			out = append(out, Finding{"wedged-in-" + stateName(prev), fmt.Sprintf("step %d (%s): %s", i, e, o.Wedged)})
		}
		if o.BadOut {
			out = append(out, Finding{"garbage-written-to-peer", fmt.Sprintf("step %d (%s)", i, e)})
		}
	})
	return out
}

func firstLine(s string) string {
	if i := strings.IndexByte(s, '\n'); i >= 0 {
		s = s[:i]
	}
	if len(s) > 160 {
		s = s[:160]
	}
	return s
}

// OracleC23: the observed trace is a behaviour of the abstract RFC 4271 machine with the three couplings.
func OracleC23(c Case, obs []StepObs) []Finding {
	var out []Finding
	add := func(sig, d string) { out = append(out, Finding{sig, d}) }
	walk(c, obs, func(i int, e Event, prev byte, prevAtt bool, o StepObs, po *StepObs) {
		if o.Panic != "" || o.Wedged != "" {
			return
		}
		where := fmt.Sprintf("step %d (%s): %s -> %s", i, e, stateName(prev), stateName(o.State))
		if !strings.ContainsRune(rfcEdges[prev], rune(o.State)) {
			add(fmt.Sprintf("not-an-rfc4271-transition-%s-%s", stateName(prev), stateName(o.State)), where)
		}
		// 1. attached <=> Established
		if o.Attached && o.State != 'E' {
			add("attached-while-"+stateName(o.State)+"-after-leaving-"+stateName(prev), where+" ribsInitialized still true")
		}
		if !o.Attached && o.State == 'E' {
			add("established-but-not-attached", where)
		}
		// 2. UPDATEs only processed in Established: the counter / the session's RIB content may only change there
		var prevUpd uint64
		prevLoc := map[string]bool{}
		if po != nil {
			for _, l := range po.Loc {
				prevLoc[l] = true
			}
		}
		_ = prevUpd
		if e.Kind == "m" && e.M.Kind == 'U' && !(prev == 'E' && o.State == 'E') {
			mine := fmt.Sprintf("%d:", e.Sid)
			for _, l := range o.Loc {
				if strings.HasPrefix(l, mine) && !prevLoc[l] {
					add("update-processed-in-"+stateName(prev), where+" installed "+l)
				}
			}
			if o.Upd > 0 && o.State != 'E' {
				add("update-counted-in-"+stateName(prev), where)
			}
		}
		// 3. back to Idle (or destroyed) from OpenSent/OpenConfirm/Established closes the connection
		if (prev == 'S' || prev == 'F' || prev == 'E') && (o.State == 'I' || o.State == 'Z') && o.Conn != 'c' {
			add("connection-left-open-returning-to-idle-from-"+stateName(prev), where+fmt.Sprintf(" conn=%c sent=%v", o.Conn, o.Outs))
		}
	})
	return out
}

func exitClass(e Event) string {
	switch e.Kind {
	case "hp":
		return "hold-timer-expiry"
	case "ka":
		return "keepalive-send-failure"
	case "e":
		return fmt.Sprintf("admin-event-%d", e.Code)
	case "m":
		switch e.M.Kind {
		case 'N':
			if (Msg{Kind: 'N', Code: e.M.Code, Sub: e.M.Sub}).validNotification() {
				return "notification-received"
			}
			return "malformed-message"
		case 'H', 'B', 'T':
			return "malformed-message"
		case 'O':
			return "unexpected-or-invalid-open"
		}
		return "message-" + string(e.M.Kind)
	}
	return "event-" + e.Kind
}

// validNotification mirrors RFC 4271/4486 code tables (what a decoder must accept).
func (m Msg) validNotification() bool {
	c, s := m.Code, m.Sub
	switch c {
	case 1:
		return s >= 1 && s <= 3
	case 2:
		return s >= 1 && s <= 6 && s != 5
	case 3:
		return s >= 1 && s <= 11 && s != 7
	case 4, 5:
		return s == 0
	case 6:
		return s <= 8
	}
	return false
}

// OracleC07: whenever a session is not Established nothing of it is left in the Loc-RIB, its
// Adj-RIB-Out is unregistered, the ASN/cluster-id contributions are exactly those of the attached
// sessions, other sessions are untouched, and a re-establishment starts empty.
func OracleC07(c Case, obs []StepObs) []Finding {
	var out []Finding
	add := func(sig, d string) { out = append(out, Finding{sig, d}) }
	walk(c, obs, func(i int, e Event, prev byte, prevAtt bool, o StepObs, po *StepObs) {
		if o.Panic != "" || o.Wedged != "" {
			return
		}
		where := fmt.Sprintf("step %d (%s): %s -> %s", i, e, stateName(prev), stateName(o.State))
		mine := fmt.Sprintf("%d:", e.Sid)
		own := 0
		for _, l := range o.Loc {
			if strings.HasPrefix(l, mine) {
				own++
			}
		}
		cls := exitClass(e)
		if o.State != 'E' {
			if own > 0 {
				add("routes-left-in-loc-rib-after-"+cls+"-imp-"+string(c.Sess[e.Sid].Imp), where+" Loc-RIB="+strings.Join(o.Loc, ","))
			}
			if len(o.AdjIn) > 0 {
				add("adj-rib-in-not-emptied-after-"+cls, where)
			}
		}
		if prev != 'E' && o.State == 'E' && (own > 0 || len(o.AdjIn) > 0) {
			add("re-established-with-stale-routes", where+" Loc-RIB="+strings.Join(o.Loc, ","))
		}
		// accounting over all sessions, read from o.All (state letter + attached flag per session)
		att4, att6, attAny := 0, 0, 0
		for k := range c.Sess {
			if 2*k+1 < len(o.All) && o.All[2*k] == 'E' {
				attAny++
				if c.Sess[k].V4 {
					att4++
				}
				if c.Sess[k].V6 {
					att6++
				}
				if c.Sess[k].RR && k < len(o.CIDRef) && o.CIDRef[k] != '1' {
					add("cluster-id-contribution-missing-while-established", where)
				}
			} else if c.Sess[k].RR && k < len(o.CIDRef) && o.CIDRef[k] == '1' {
				// another established RR session may legitimately hold the same cluster id
				shared := false
				for k2 := range c.Sess {
					if k2 != k && c.Sess[k2].RR && clusterOf(c.Sess[k2]) == clusterOf(c.Sess[k]) && 2*k2 < len(o.All) && o.All[2*k2] == 'E' {
						shared = true
					}
				}
				if !shared {
					add("cluster-id-contribution-left-after-"+cls, where)
				}
			}
		}
		if attAny == 0 && o.ASNRef {
			add("asn-contribution-left-after-"+cls, where)
		}
		if attAny > 0 && !o.ASNRef {
			add("asn-contribution-of-another-session-released-after-"+cls, where)
		}
		if int(o.Clients4) != att4 || int(o.Clients6) != att6 {
			add("adj-rib-out-registration-wrong-after-"+cls, where+fmt.Sprintf(" registered=%d.%d established=%d.%d", o.Clients4, o.Clients6, att4, att6))
		}
		// other sessions' routes are untouched by this session's step
		if po != nil {
			var before, after []string
			for _, l := range po.Loc {
				if !strings.HasPrefix(l, mine) {
					before = append(before, l)
				}
			}
			for _, l := range o.Loc {
				if !strings.HasPrefix(l, mine) {
					after = append(after, l)
				}
			}
			if strings.Join(before, ",") != strings.Join(after, ",") {
				add("other-sessions-routes-changed-by-"+cls, where+" before="+strings.Join(before, ",")+" after="+strings.Join(after, ","))
			}
		}
	})
	return out
}
