// Package fsmx: shared harness for the BGP session properties C23, C07, C21, C22.
// wire.go: an independent (RFC 4271/4760/5492/6793/7911/9234) serialiser for what the simulated peer
// sends and a reference parser for what the speaker writes. Nothing here uses bio-rd's packet package.
package fsmx

import (
	"encoding/binary"
	"fmt"
	"sort"
	"strconv"
	"strings"
)

func hdr(markerOK bool, length int, typ int) []byte {
	b := make([]byte, 19)
	for i := 0; i < 16; i++ {
		b[i] = 0xff
	}
	if !markerOK {
		b[3] = 0x7f
	}
	binary.BigEndian.PutUint16(b[16:], uint16(length))
	b[18] = byte(typ)
	return b
}

func frame(typ int, body []byte) []byte {
	return append(hdr(true, 19+len(body), typ), body...)
}

// Cap is one capability of an OPEN: kind 'a' (4-octet AS, V=asn), 'm' (multiprotocol, A=afi S=safi),
// 'p' (add-path tuple A,S,V=send/receive), 'r' (role V), 'x' (extended next hop tuple A,S,V=next hop AFI),
// 'u' (unknown code V, two zero bytes of value).
type Cap struct {
	Kind    byte
	A, S, V uint32
	Tuples  [][3]uint32 // kind 'q': one ADD-PATH capability carrying several (afi, safi, send/receive) tuples
}

// FlatCaps expands multi-tuple add-path capabilities into single tuples (order kept).
func FlatCaps(cs []Cap) []Cap {
	var out []Cap
	for _, c := range cs {
		if c.Kind == 'q' {
			for _, t := range c.Tuples {
				out = append(out, Cap{Kind: 'p', A: t[0], S: t[1], V: t[2]})
			}
			continue
		}
		out = append(out, c)
	}
	return out
}

func (c Cap) String() string {
	switch c.Kind {
	case 'a':
		return fmt.Sprintf("a%d", c.V)
	case 'm':
		return fmt.Sprintf("m%d.%d", c.A, c.S)
	case 'p':
		return fmt.Sprintf("p%d.%d.%d", c.A, c.S, c.V)
	case 'r':
		return fmt.Sprintf("r%d", c.V)
	case 'x':
		return fmt.Sprintf("x%d.%d.%d", c.A, c.S, c.V)
	case 'q':
		var ts []string
		for _, t := range c.Tuples {
			ts = append(ts, fmt.Sprintf("%d.%d.%d", t[0], t[1], t[2]))
		}
		return "q" + strings.Join(ts, "_")
	default:
		return fmt.Sprintf("u%d", c.V)
	}
}

func capsString(cs []Cap) string {
	if len(cs) == 0 {
		return "-"
	}
	var s []string
	for _, c := range cs {
		s = append(s, c.String())
	}
	return strings.Join(s, "+")
}

func parseCaps(s string) ([]Cap, error) {
	if s == "-" || s == "" {
		return nil, nil
	}
	var out []Cap
	for _, t := range strings.Split(s, "+") {
		if t == "" {
			return nil, fmt.Errorf("empty capability")
		}
		c := Cap{Kind: t[0]}
		if c.Kind == 'q' {
			for _, tu := range strings.Split(t[1:], "_") {
				var a, s2, v uint32
				if n, err := fmt.Sscanf(tu, "%d.%d.%d", &a, &s2, &v); n != 3 || err != nil {
					return nil, fmt.Errorf("bad capability %q", t)
				}
				c.Tuples = append(c.Tuples, [3]uint32{a, s2, v})
			}
			out = append(out, c)
			continue
		}
		parts := strings.Split(t[1:], ".")
		nums := make([]uint32, len(parts))
		for i, p := range parts {
			v, err := strconv.ParseUint(p, 10, 32)
			if err != nil {
				return nil, fmt.Errorf("bad capability %q", t)
			}
			nums[i] = uint32(v)
		}
		switch c.Kind {
		case 'a', 'r', 'u':
			if len(nums) != 1 {
				return nil, fmt.Errorf("bad capability %q", t)
			}
			c.V = nums[0]
		case 'm':
			if len(nums) != 2 {
				return nil, fmt.Errorf("bad capability %q", t)
			}
			c.A, c.S = nums[0], nums[1]
		case 'p', 'x':
			if len(nums) != 3 {
				return nil, fmt.Errorf("bad capability %q", t)
			}
			c.A, c.S, c.V = nums[0], nums[1], nums[2]
		default:
			return nil, fmt.Errorf("bad capability %q", t)
		}
		out = append(out, c)
	}
	return out, nil
}

func capBytes(c Cap) []byte {
	switch c.Kind {
	case 'a':
		b := []byte{65, 4, 0, 0, 0, 0}
		binary.BigEndian.PutUint32(b[2:], c.V)
		return b
	case 'm':
		return []byte{1, 4, byte(c.A >> 8), byte(c.A), 0, byte(c.S)}
	case 'p':
		return []byte{69, 4, byte(c.A >> 8), byte(c.A), byte(c.S), byte(c.V)}
	case 'q':
		b := []byte{69, byte(4 * len(c.Tuples))}
		for _, t := range c.Tuples {
			b = append(b, byte(t[0]>>8), byte(t[0]), byte(t[1]), byte(t[2]))
		}
		return b
	case 'r':
		return []byte{9, 1, byte(c.V)}
	case 'x':
		return []byte{5, 6, byte(c.A >> 8), byte(c.A), byte(c.S >> 8), byte(c.S), byte(c.V >> 8), byte(c.V)}
	default:
		return []byte{byte(c.V), 2, 0, 0}
	}
}

// OpenBytes serialises an OPEN (all capabilities in one optional parameter of type 2, as most speakers do).
func OpenBytes(ver, asn16, hold int, id uint32, caps []Cap) []byte {
	var cb []byte
	for _, c := range caps {
		cb = append(cb, capBytes(c)...)
	}
	var opt []byte
	if len(cb) > 0 {
		opt = append([]byte{2, byte(len(cb))}, cb...)
	}
	body := []byte{byte(ver), byte(asn16 >> 8), byte(asn16), byte(hold >> 8), byte(hold), 0, 0, 0, 0, byte(len(opt))}
	binary.BigEndian.PutUint32(body[5:], id)
	return frame(1, append(body, opt...))
}

func KeepaliveBytes() []byte { return frame(4, nil) }

func NotificationBytes(code, sub int) []byte { return frame(3, []byte{byte(code), byte(sub)}) }

// UpdateBytes: announce/withdraw IPv4 unicast routes 10.<id>.0.0/16 in the classic fields.
// ebgp: AS_PATH = one AS_SEQUENCE [peerAS] (2 or 4 octets per asn4), else empty AS_PATH + LOCAL_PREF 100.
// addPath: every NLRI is preceded by path identifier 1.
func UpdateBytes(ann, wd []int, ebgp bool, peerAS uint32, asn4, addPath bool) []byte {
	nlri := func(ids []int) []byte {
		var b []byte
		for _, id := range ids {
			if addPath {
				b = append(b, 0, 0, 0, 1)
			}
			b = append(b, 16, 10, byte(id))
		}
		return b
	}
	w := nlri(wd)
	var attrs []byte
	if len(ann) > 0 {
		attrs = append(attrs, 0x40, 1, 1, 0) // ORIGIN IGP
		if ebgp {
			if asn4 {
				attrs = append(attrs, 0x40, 2, 6, 2, 1, byte(peerAS>>24), byte(peerAS>>16), byte(peerAS>>8), byte(peerAS))
			} else {
				a := peerAS
				if a > 65535 {
					a = 23456
				}
				attrs = append(attrs, 0x40, 2, 4, 2, 1, byte(a>>8), byte(a))
			}
		} else {
			attrs = append(attrs, 0x40, 2, 0)
		}
		attrs = append(attrs, 0x40, 3, 4, 192, 0, 2, 77) // NEXT_HOP
		if !ebgp {
			attrs = append(attrs, 0x40, 5, 4, 0, 0, 0, 100) // LOCAL_PREF
		}
	}
	body := []byte{byte(len(w) >> 8), byte(len(w))}
	body = append(body, w...)
	body = append(body, byte(len(attrs)>>8), byte(len(attrs)))
	body = append(body, attrs...)
	body = append(body, nlri(ann)...)
	return frame(2, body)
}

// ExtraAttr: optional attributes a conforming peer may attach to an announcement.
func ExtraAttr(variant string) []byte {
	switch variant {
	case "as4path": // AS4_PATH, one AS_SEQUENCE (200000)
		return []byte{0xc0, 17, 6, 2, 1, 0, 3, 0x0d, 0x40}
	case "as4path0": // empty AS4_PATH
		return []byte{0xc0, 17, 0}
	case "as4aggr": // AS4_AGGREGATOR
		return []byte{0xc0, 18, 8, 0, 3, 0x0d, 0x40, 10, 0, 0, 1}
	case "unk": // unknown optional transitive
		return []byte{0xc0, 99, 2, 1, 2}
	case "unknt": // unknown optional non-transitive
		return []byte{0x80, 98, 1, 0}
	}
	return nil
}

// AnnounceWithAttr: like UpdateBytes for one route, plus an extra optional attribute.
func AnnounceWithAttr(rid int, extra []byte, ebgp bool, peerAS uint32, asn4, addPath bool) []byte {
	var asns []uint32
	if ebgp {
		asns = append(asns, peerAS)
	}
	attrs := []byte{0x40, 1, 1, 0}
	if len(asns) == 0 {
		attrs = append(attrs, 0x40, 2, 0)
	} else if asn4 {
		attrs = append(attrs, 0x40, 2, 6, 2, 1, byte(peerAS>>24), byte(peerAS>>16), byte(peerAS>>8), byte(peerAS))
	} else {
		a := peerAS
		if a > 65535 {
			a = 23456
		}
		attrs = append(attrs, 0x40, 2, 4, 2, 1, byte(a>>8), byte(a))
	}
	attrs = append(attrs, 0x40, 3, 4, 192, 0, 2, 77)
	if !ebgp {
		attrs = append(attrs, 0x40, 5, 4, 0, 0, 0, 100)
	}
	attrs = append(attrs, extra...)
	body := []byte{0, 0, byte(len(attrs) >> 8), byte(len(attrs))}
	body = append(body, attrs...)
	if addPath {
		body = append(body, 0, 0, 0, 1)
	}
	body = append(body, 16, 10, byte(rid))
	return frame(2, body)
}

// PoisonBytes: announce 10.<rid>.0.0/16 with v in the AS_PATH (byASN) or in a CLUSTER_LIST attribute.
func PoisonBytes(rid int, byASN bool, v uint32, ebgp bool, peerAS uint32, asn4, addPath bool) []byte {
	var asns []uint32
	if ebgp {
		asns = append(asns, peerAS)
	}
	if byASN {
		asns = append(asns, v)
	}
	attrs := []byte{0x40, 1, 1, 0}
	if len(asns) == 0 {
		attrs = append(attrs, 0x40, 2, 0)
	} else if asn4 {
		attrs = append(attrs, 0x40, 2, byte(2+4*len(asns)), 2, byte(len(asns)))
		for _, a := range asns {
			attrs = append(attrs, byte(a>>24), byte(a>>16), byte(a>>8), byte(a))
		}
	} else {
		attrs = append(attrs, 0x40, 2, byte(2+2*len(asns)), 2, byte(len(asns)))
		for _, a := range asns {
			if a > 65535 {
				a = 23456
			}
			attrs = append(attrs, byte(a>>8), byte(a))
		}
	}
	attrs = append(attrs, 0x40, 3, 4, 192, 0, 2, 77)
	if !ebgp {
		attrs = append(attrs, 0x40, 5, 4, 0, 0, 0, 100)
	}
	if !byASN {
		attrs = append(attrs, 0x80, 10, 4, byte(v>>24), byte(v>>16), byte(v>>8), byte(v))
	}
	body := []byte{0, 0, byte(len(attrs) >> 8), byte(len(attrs))}
	body = append(body, attrs...)
	if addPath {
		body = append(body, 0, 0, 0, 1)
	}
	body = append(body, 16, 10, byte(rid))
	return frame(2, body)
}

// RawHeaderBytes: a header (marker good or damaged, arbitrary length field and type) followed by
// avail zero bytes of "body" (what the peer has sent so far when it stops sending).
func RawHeaderBytes(markerOK bool, length, typ, avail int) []byte {
	return append(hdr(markerOK, length, typ), make([]byte, avail)...)
}

// BadBodyBytes: well-framed messages whose body the decoder must reject (variants named in Msg).
func BadBodyBytes(variant string) ([]byte, error) {
	switch variant {
	case "ovt": // OPEN with an unrecognised optional parameter type 9
		body := []byte{4, 0xfd, 0xe9, 0, 90, 0, 0, 0, 7, 4, 9, 2, 0, 0}
		return frame(1, body), nil
	case "ocl": // OPEN, add-path capability whose length (3) is not a multiple of 4
		body := []byte{4, 0xfd, 0xe9, 0, 90, 0, 0, 0, 7, 7, 2, 5, 69, 3, 0, 1, 1}
		return frame(1, body), nil
	case "uat": // UPDATE whose ORIGIN attribute has length 2
		body := []byte{0, 0, 0, 5, 0x40, 1, 2, 0, 0}
		return frame(2, body), nil
	case "ufl": // UPDATE with an unknown well-known (non-optional) attribute type 99
		body := []byte{0, 0, 0, 4, 0x40, 99, 1, 0}
		return frame(2, body), nil
	case "nbc": // NOTIFICATION with error code 9
		return frame(3, []byte{9, 0}), nil
	case "nbs": // NOTIFICATION header error with subcode 7
		return frame(3, []byte{1, 7}), nil
	}
	return nil, fmt.Errorf("unknown bad-body variant %q", variant)
}

// ---- reference parser for what the speaker wrote

// SentMsg is one message found in the speaker's output.
type SentMsg struct {
	Type  int
	Token string // O<asn16>.<hold>.<id>.<caps sorted> | K | N<code>.<sub> | U | ?<type>
}

// ParseSent splits the byte stream written by the speaker into messages. ok=false if the stream is
// not a sequence of well-framed messages (which would itself be a defect).
func ParseSent(b []byte) (msgs []SentMsg, ok bool) {
	for len(b) > 0 {
		if len(b) < 19 {
			return msgs, false
		}
		for i := 0; i < 16; i++ {
			if b[i] != 0xff {
				return msgs, false
			}
		}
		l := int(binary.BigEndian.Uint16(b[16:18]))
		t := int(b[18])
		if l < 19 || l > 4096 || l > len(b) {
			return msgs, false
		}
		body := b[19:l]
		b = b[l:]
		switch t {
		case 1:
			tok, good := parseSentOpen(body)
			if !good {
				return msgs, false
			}
			msgs = append(msgs, SentMsg{1, tok})
		case 2:
			msgs = append(msgs, SentMsg{2, "U"})
		case 3:
			if len(body) < 2 {
				return msgs, false
			}
			msgs = append(msgs, SentMsg{3, fmt.Sprintf("N%d.%d", body[0], body[1])})
		case 4:
			if len(body) != 0 {
				return msgs, false
			}
			msgs = append(msgs, SentMsg{4, "K"})
		default:
			msgs = append(msgs, SentMsg{t, fmt.Sprintf("?%d", t)})
		}
	}
	return msgs, true
}

func parseSentOpen(body []byte) (string, bool) {
	if len(body) < 10 || body[0] != 4 {
		return "", false
	}
	asn := int(binary.BigEndian.Uint16(body[1:3]))
	hold := int(binary.BigEndian.Uint16(body[3:5]))
	id := binary.BigEndian.Uint32(body[5:9])
	optLen := int(body[9])
	opt := body[10:]
	if optLen != len(opt) {
		return "", false
	}
	var caps []string
	for len(opt) > 0 {
		if len(opt) < 2 || len(opt) < 2+int(opt[1]) {
			return "", false
		}
		pt, pl := opt[0], int(opt[1])
		pv := opt[2 : 2+pl]
		opt = opt[2+pl:]
		if pt != 2 {
			caps = append(caps, fmt.Sprintf("param%d", pt))
			continue
		}
		for len(pv) > 0 {
			if len(pv) < 2 || len(pv) < 2+int(pv[1]) {
				return "", false
			}
			code, cl := pv[0], int(pv[1])
			cv := pv[2 : 2+cl]
			pv = pv[2+cl:]
			switch {
			case code == 65 && cl == 4:
				caps = append(caps, fmt.Sprintf("a%d", binary.BigEndian.Uint32(cv)))
			case code == 1 && cl == 4:
				caps = append(caps, fmt.Sprintf("m%d.%d", binary.BigEndian.Uint16(cv[0:2]), cv[3]))
			case code == 69 && cl%4 == 0:
				for i := 0; i+4 <= cl; i += 4 {
					caps = append(caps, fmt.Sprintf("p%d.%d.%d", binary.BigEndian.Uint16(cv[i:i+2]), cv[i+2], cv[i+3]))
				}
			case code == 9 && cl == 1:
				caps = append(caps, fmt.Sprintf("r%d", cv[0]))
			case code == 5 && cl%6 == 0 && cl > 0:
				for i := 0; i+6 <= cl; i += 6 {
					caps = append(caps, fmt.Sprintf("x%d.%d.%d", binary.BigEndian.Uint16(cv[i:i+2]), binary.BigEndian.Uint16(cv[i+2:i+4]), binary.BigEndian.Uint16(cv[i+4:i+6])))
				}
			default:
				caps = append(caps, fmt.Sprintf("u%d", code))
			}
		}
	}
	sort.Strings(caps)
	cs := "-"
	if len(caps) > 0 {
		cs = strings.Join(caps, "+")
	}
	return fmt.Sprintf("O%d.%d.%d.%s", asn, hold, id, cs), true
}
