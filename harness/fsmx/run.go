package fsmx

import (
	"fmt"
	"sort"
	"strings"
	"time"

	bnet "github.com/bio-routing/bio-rd/net"
	"github.com/bio-routing/bio-rd/protocols/bgp/server"
	"github.com/bio-routing/bio-rd/routingtable"
	"github.com/bio-routing/bio-rd/routingtable/filter"
	"github.com/bio-routing/bio-rd/routingtable/filter/actions"
	"github.com/bio-routing/bio-rd/routingtable/vrf"
)

// StepObs is what is observed after one event.
type StepObs struct {
	Sid       int
	ReadErr   bool
	Panic     string
	Wedged    string
	State     byte // I C A S F E Z
	Attached  bool
	Conn      byte // n o c
	Outs      []string
	BadOut    bool // the speaker wrote something that is not a sequence of well-framed messages
	Retry     int
	Neg       string
	Loc       []string // "sid:rid" or "sid:rid*" (rewritten by import policy)
	ASNRef    string   // per session: its local AS is a contributing ASN of the VRF
	CIDRef    string   // per session: cluster id contributing?
	Clients4  uint64
	Clients6  uint64
	All       string // state letter + attached flag of every session
	Upd       uint64 // UPDATE counter of the stepped session
	AdjIn     []int  // route ids in the stepped session's IPv4 Adj-RIB-In
	Reg4      int    // clients of the stepped session's IPv4 Adj-RIB-In (-1: no Adj-RIB-In)
	Reg6      int
	Delivered bool
}

func (o StepObs) Token() string {
	if o.Panic != "" {
		return "PANIC"
	}
	if o.Wedged != "" {
		return "WEDGED"
	}
	outs := "-"
	if len(o.Outs) > 0 {
		outs = strings.Join(o.Outs, "+")
	}
	if o.BadOut {
		outs += "+GARBAGE"
	}
	loc := "-"
	if len(o.Loc) > 0 {
		loc = strings.Join(o.Loc, ",")
	}
	fr := "-"
	if o.ReadErr {
		fr = "r"
	}
	reg := func(n int) string {
		if n < 0 {
			return "x"
		}
		return fmt.Sprint(n)
	}
	return fmt.Sprintf("%s/%c/%s/%c/%s/%d/%s/u%d/i%s/g%s.%s|L%s/a%sk%s/c%d.%d/T%s", fr, o.State, b01(o.Attached), o.Conn, outs, o.Retry, o.Neg, o.Upd,
		idsString(o.AdjIn), reg(o.Reg4), reg(o.Reg6), loc, o.ASNRef, o.CIDRef, o.Clients4, o.Clients6, o.All)
}

var stateLetter = map[string]byte{"idle": 'I', "connect": 'C', "active": 'A', "openSent": 'S', "openConfirm": 'F', "established": 'E', "cease": 'Z'}

type liveSess struct {
	cfg  SessCfg
	peer *server.VerifFSMPeer
	fsm  *server.VerifFSM
	addr *bnet.IP
}

func importChain(k byte) filter.Chain {
	switch k {
	case 'N':
		return nil // nothing configured: newPeer falls back to the reject-all chain
	case 'A':
		return filter.NewAcceptAllFilterChain()
	case 'R':
		return filter.Chain{filter.NewFilter("rewrite", []*filter.Term{
			filter.NewTerm("lp200", nil, []actions.Action{actions.NewSetLocalPrefAction(200), actions.NewAcceptAction()}),
		})}
	}
	return filter.NewDrainFilterChain()
}

func peerConfig(i int, c SessCfg, v *vrf.VRF) server.PeerConfig {
	pc := server.PeerConfig{
		AdminEnabled:               true,
		HoldTime:                   time.Duration(c.Hold) * time.Second,
		KeepAlive:                  time.Duration(c.Hold) * time.Second / 3,
		LocalAddress:               bnet.IPv4FromOctets(10, 0, byte(i), 1).Ptr(),
		PeerAddress:                bnet.IPv4FromOctets(10, 0, byte(i), 2).Ptr(),
		LocalAS:                    c.LAS,
		PeerAS:                     c.PAS,
		RouterID:                   c.RID,
		RouteReflectorClient:       c.RR,
		RouteReflectorClusterID:    c.Cluster,
		AdvertiseIPv4MultiProtocol: c.MP4,
		PeerRole:                   uint8(c.Role),
		PeerRoleStrictMode:         c.Strict,
		VRF:                        v,
	}
	fam := func(recv, send, nx bool) *server.AddressFamilyConfig {
		return &server.AddressFamilyConfig{
			NextHopExtended:   nx,
			ImportFilterChain: importChain(c.Imp),
			ExportFilterChain: importChain(c.expOrA()),
			AddPathRecv:       recv,
			AddPathSend:       routingtable.ClientOptions{BestOnly: !send, MaxPaths: 4},
		}
	}
	if c.V4 {
		pc.IPv4 = fam(c.APR4, c.APS4, c.NX4)
	}
	if c.V6 {
		pc.IPv6 = fam(c.APR6, c.APS6, false)
	}
	return pc
}

func msgBytes(m Msg, s *liveSess) []byte {
	switch m.Kind {
	case 'K':
		return KeepaliveBytes()
	case 'O':
		return OpenBytes(m.Ver, m.ASN16, m.Hold, m.ID, m.Caps)
	case 'U':
		asn4, ap4, _ := s.fsm.DecodeOptions()
		return UpdateBytes(m.Ann, m.Wd, s.cfg.LAS != s.cfg.PAS, s.cfg.PAS, asn4, ap4)
	case 'A':
		asn4, ap4, _ := s.fsm.DecodeOptions()
		return AnnounceWithAttr(m.RID, ExtraAttr(m.Variant), s.cfg.LAS != s.cfg.PAS, s.cfg.PAS, asn4, ap4)
	case 'P':
		asn4, ap4, _ := s.fsm.DecodeOptions()
		return PoisonBytes(m.RID, m.ByASN, m.Val, s.cfg.LAS != s.cfg.PAS, s.cfg.PAS, asn4, ap4)
	case 'N':
		return NotificationBytes(m.Code, m.Sub)
	case 'H':
		return RawHeaderBytes(m.MarkerOK, m.Len, m.Type, m.Avail)
	case 'T':
		b := make([]byte, m.N)
		for i := range b {
			b[i] = 0xff
		}
		return b
	case 'B':
		b, _ := BadBodyBytes(m.Variant)
		return b
	}
	return nil
}

// RunCase drives the case through the real FSMs. slow=true means the case took too long for the
// hook's timing assumption (see verif_hooks_fsm.go) and must be repeated.
func RunCase(c Case) (obs []StepObs, slow bool) {
	v := vrf.NewUntrackedVRF("verif", 0)
	rib4, _ := v.CreateIPv4UnicastLocRIB("inet.0")
	rib6, _ := v.CreateIPv6UnicastLocRIB("inet6.0")
	t0 := time.Now()
	var ss []*liveSess
	defer func() {
		// end of case: let every FSM that is still alive tear itself down (Cease stops the update senders), then
		// release the hook's helpers
		for _, s := range ss {
			s.fsm.Step(server.VerifFSMEvent{Kind: "admin", Code: 100})
			s.fsm.Dispose()
		}
	}()
	for i, sc := range c.Sess {
		pc := peerConfig(i, sc, v)
		vp, err := server.VerifFSMNewPeer(pc)
		if err != nil {
			panic(fmt.Sprintf("harness: newPeer failed: %v", err))
		}
		init := "idle"
		if sc.Init == 'a' {
			init = "active"
		}
		var f *server.VerifFSM
		if sc.Init == 'r' {
			f = vp.NewFSMRealReceiver("idle")
		} else {
			f = vp.NewFSM(init)
		}
		ss = append(ss, &liveSess{cfg: sc, peer: vp, fsm: f, addr: pc.PeerAddress})
	}
	for _, e := range c.Evs {
		s := ss[e.Sid]
		var he server.VerifFSMEvent
		prePanic := ""
		switch e.Kind {
		case "e":
			he = server.VerifFSMEvent{Kind: "admin", Code: e.Code}
		case "up":
			he = server.VerifFSMEvent{Kind: "tcp-up"}
		case "upx":
			he = server.VerifFSMEvent{Kind: "tcp-up", Broken: true}
		case "hp":
			he = server.VerifFSMEvent{Kind: "hold-poll", Expired: e.Code == 1}
		case "ka":
			he = server.VerifFSMEvent{Kind: "keepalive-timer"}
		case "cr":
			he = server.VerifFSMEvent{Kind: "connect-retry-timer"}
		case "brk":
			he = server.VerifFSMEvent{Kind: "break-conn"}
		case "pc":
			he = server.VerifFSMEvent{Kind: "peer-close"}
		case "ri", "re":
			func() {
				defer func() {
					if rec := recover(); rec != nil {
						prePanic = fmt.Sprint(rec)
					}
				}()
				if e.Kind == "ri" {
					s.peer.ReplaceImportFilterChain(importChain(byte(e.Code)))
				} else {
					s.peer.ReplaceExportFilterChain(importChain(byte(e.Code)))
				}
			}()
		case "m":
			he = server.VerifFSMEvent{Kind: "msg", Bytes: msgBytes(e.M, s)}
		}
		r := s.fsm.Step(he)
		if prePanic != "" {
			r.Panic = "policy replacement: " + prePanic
		}
		o := StepObs{Sid: e.Sid, ReadErr: r.FrameErr, Panic: r.Panic, Wedged: r.Wedged, Delivered: r.Delivered}
		if o.Panic != "" || o.Wedged != "" {
			obs = append(obs, o)
			break
		}
		o.State = stateLetter[s.fsm.StateName()]
		o.Attached = s.fsm.RibsInitialized()
		o.Conn = 'n'
		if cn := s.fsm.Conn(); cn != nil {
			o.Conn = 'o'
			if cn.Closed() {
				o.Conn = 'c'
			}
		}
		for _, cn := range s.fsm.Conns() {
			msgs, ok := ParseSent(cn.TakeWritten())
			if !ok {
				o.BadOut = true
			}
			for _, m := range msgs {
				if m.Type != 2 { // UPDATEs are written asynchronously by the update sender: not part of the FSM trace
					o.Outs = append(o.Outs, m.Token)
				}
			}
		}
		o.Retry = s.fsm.ConnectRetryCounter()
		o.Upd = s.fsm.UpdatesReceived()
		for _, rt := range s.fsm.AdjRIBInDump(1, 1) {
			o.AdjIn = append(o.AdjIn, int(rt.Prefix().Addr().Bytes()[1]))
		}
		sort.Ints(o.AdjIn)
		o.Reg4, o.Reg6 = s.fsm.AdjRIBInClients(1, 1), s.fsm.AdjRIBInClients(2, 1)
		n := s.fsm.Negotiated()
		adv, remote := s.peer.PeerRoleState()
		o.Neg = fmt.Sprintf("h%dk%dt%sa%sx%s%s%s%s%s%sr%s%d", int64(n.HoldTime/time.Second), int64(n.KeepaliveTime/time.Millisecond),
			b01(n.KeepaliveTimerSet), b01(n.Supports4OctetASN),
			b01(n.IPv4.AddPathRX), b01(n.IPv4.AddPathTX), b01(n.IPv4.MultiProtocol),
			b01(n.IPv6.AddPathRX), b01(n.IPv6.AddPathTX), b01(n.IPv6.MultiProtocol), b01(adv), remote)
		// system part
		for _, rt := range rib4.Dump() {
			a := rt.Prefix().Addr().Bytes()
			for _, p := range rt.Paths() {
				if p.BGPPath == nil || p.BGPPath.BGPPathA == nil || p.BGPPath.BGPPathA.Source == nil {
					o.Loc = append(o.Loc, "?")
					continue
				}
				owner := -1
				for i, x := range ss {
					if x.addr.Compare(p.BGPPath.BGPPathA.Source) == 0 {
						owner = i
					}
				}
				tok := fmt.Sprintf("%d:%d", owner, a[1])
				if p.BGPPath.BGPPathA.LocalPref == 200 {
					tok += "*"
				}
				o.Loc = append(o.Loc, tok)
			}
		}
		sort.Strings(o.Loc)
		for _, x := range ss {
			o.ASNRef += b01(v.IsContributingASN(x.cfg.LAS))
			o.CIDRef += b01(v.IsContributingClusterID(clusterOf(x.cfg)))
			o.All += string(stateLetter[x.fsm.StateName()]) + b01(x.fsm.RibsInitialized())
		}
		o.Clients4 = rib4.ClientCount()
		o.Clients6 = rib6.ClientCount()
		obs = append(obs, o)
	}
	return obs, time.Since(t0) > 600*time.Millisecond
}

func clusterOf(c SessCfg) uint32 {
	if c.Cluster == 0 {
		return c.RID
	}
	return c.Cluster
}

// RunCaseStable repeats a case whose run was too slow for the stepping hook's timing assumption (a
// state's own 1-second poll must not fire while the case is stepped). On a loaded machine that can
// take many attempts; it gives up only after about two minutes of trying.
func RunCaseStable(c Case) ([]StepObs, bool) {
	wedged := func(obs []StepObs) bool {
		return len(obs) > 0 && obs[len(obs)-1].Wedged != ""
	}
	for i := 0; i < 60; i++ {
		obs, slow := RunCase(c)
		if wedged(obs) {
			// a handler that does not return makes the case slow by itself; confirm it once and report it
			// (twice: on a loaded machine a reaction may once take longer than the watchdog allows)
			if obs2, _ := RunCase(c); wedged(obs2) {
				if obs3, _ := RunCase(c); wedged(obs3) {
					return obs3, true
				}
			}
			continue
		}
		if !slow {
			return obs, true
		}
		d := time.Duration(200*(i+1)) * time.Millisecond
		if d > 3*time.Second {
			d = 3 * time.Second
		}
		time.Sleep(d)
	}
	return nil, false
}

func ObsString(obs []StepObs) string {
	var t []string
	for _, o := range obs {
		t = append(t, o.Token())
	}
	return strings.Join(t, " ")
}
