package fsmx

import (
	"fmt"
	"strings"
)

// ExitProduct enumerates, deterministically, every (session state) x (connection condition) x (event)
// combination for the states OpenSent, OpenConfirm and Established - in particular every transition
// that leaves the session towards Idle, each with a healthy connection, with failing writes (the peer
// vanished: broken pipe while the socket is still open locally) and with the peer having closed the
// connection (reads fail AND writes fail). Established is entered with routes installed, under every
// import policy, next to a second established session that must stay untouched.
//
// states: subset of "SFE"; withSecond: add an untouched established neighbour session.
func ExitProduct(do func(id string, c Case), states string, withSecond bool) {
	type cfgv struct {
		name string
		cfg  string // session 0
		open string // a valid OPEN for it
	}
	cfgs := []cfgv{
		{"ebgp-h90", "s65001/65002/10/90/46/0000/0/00/0.0/R/i", "O,4,65002,90,7,a65002+m1.1+m2.1"},
		{"ebgp-h0", "s65001/65002/10/90/4/0000/0/00/0.0/A/i", "O,4,65002,0,7,a65002"},
		{"ibgp-rr-h3", "s65001/65001/10/3/46/1100/1/00/1.5/D/a", "O,4,65001,3,7,a65001+m2.1+p1.1.3"},
		{"ebgp-role-h30", "s200000/300000/2/30/4/0000/0/11/0.0/A/i", "O,4,23456,30,9,a300000+r3"},
	}
	secondUp := "1.e1 1.up 1.m:O,4,65003,90,7,a65003 1.m:K 1.m:U,3.4,-"
	conds := []struct{ name, evs string }{
		{"healthy", ""},
		{"writes-fail", "0.brk"},
		{"peer-closed", "0.brk 0.m:T,0"},
	}
	events := []string{
		// administrative
		"e1", "e2", "e3", "e8", "e100", "e4",
		// connection
		"up", "upx", "brk",
		// timers
		"hp0", "hp1", "ka", "cr",
		// well-formed messages
		"m:K", "m:U,1.2,-", "m:U,-,1", "m:N,6,2", "m:N,4,0", "m:N,1,2", "m:N,2,11", "m:N,9,0",
		"m:O,4,65002,90,7,a65002", "m:O,3,65002,90,7,a65002", "m:O,4,65002,90,0,a65002", "m:O,4,65002,2,7,a65002",
		"m:O,4,65009,90,7,-", "m:O,4,65002,90,10,a65002", "m:O,4,65002,90,7,a65002+r0+r3",
		// malformed
		"m:H,0,19,4,0", "m:H,1,18,4,0", "m:H,1,4097,2,4078", "m:H,1,30,9,11", "m:H,1,20,4,1", "m:H,1,29,1,10",
		"m:H,1,21,3,2", "m:H,1,23,2,4", "m:H,1,40,4,3", "m:T,5", "m:B,ovt", "m:B,ocl", "m:B,uat", "m:B,nbc",
	}
	for _, cv := range cfgs {
		for _, st := range states {
			// passive FSMs start in Active: no start event
			pre := "0.e1 0.up"
			if cv.cfg[len(cv.cfg)-1] == 'a' {
				pre = "0.up"
			}
			switch st {
			case 'F':
				pre += " 0.m:" + cv.open
			case 'E':
				pre += " 0.m:" + cv.open + " 0.m:K 0.m:U,1.2,-"
			}
			for _, cd := range conds {
				for k, ev := range events {
					in := cv.cfg
					// the neighbour session shares the speaker's local AS
					second := cv.cfg[:strings.IndexByte(cv.cfg, '/')] + "/65003/10/90/4/0000/0/00/0.0/A/i"
					if withSecond {
						in += " " + second + " " + secondUp
					}
					in += " " + pre
					if cd.evs != "" {
						in += " " + cd.evs
					}
					in += " 0." + ev + " 0.e1 0.up"
					c, err := ParseCase(in)
					if err != nil {
						fmt.Printf("HARNESS-ERROR exit product %q: %v\n", in, err)
						return
					}
					do(fmt.Sprintf("x-%s-%c-%s-%d", cv.name, st, cd.name, k), c)
				}
			}
		}
	}
}
