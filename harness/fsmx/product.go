package fsmx

import (
	"fmt"
	"strings"
)

// ExitProduct enumerates, deterministically, every (session state) x (connection condition) x (event)
// combination for the states OpenSent, OpenConfirm and Established - in particular every transition
// that leaves the session towards Idle, each with a healthy connection, with failing writes (the peer
// vanished: broken pipe while the socket is still open locally) and with the peer having closed the
// connection (reads fail AND writes fail). Established is entered with routes installed, under every
// import policy, next to a second established session that must stay untouched.
//
// states: subset of "SFE"; withSecond: add an untouched established neighbour session.
func ExitProduct(do func(id string, c Case), states string, withSecond bool) {
	type cfgv struct {
		name string
		cfg  string // session 0
		open string // a valid OPEN for it
	}
	cfgs := []cfgv{
		{"ebgp-h90", "s65001/65002/10/90/46/0000/0/00/0.0/R/i", "O,4,65002,90,7,a65002+m1.1+m2.1"},
		{"ebgp-h0", "s65001/65002/10/90/4/0000/0/00/0.0/A/i", "O,4,65002,0,7,a65002"},
		{"ibgp-rr-h3", "s65001/65001/10/3/46/1100/1/00/1.5/D/a", "O,4,65001,3,7,a65001+m2.1+p1.1.3"},
		{"ebgp-role-h30", "s200000/300000/2/30/4/0000/0/11/0.0/A/i", "O,4,23456,30,9,a300000+r3"},
		{"ebgp-nopolicy", "s65001/65002/10/90/46/0000/01/00/0.0/NN/i", "O,4,65002,90,7,a65002+m1.1+m2.1"},
	}
	secondUp := "1.e1 1.up 1.m:O,4,65003,90,7,a65003 1.m:K 1.m:U,3.4,-"
	conds := []struct{ name, evs string }{
		{"healthy", ""},
		{"writes-fail", "0.brk"},
		{"peer-closed", "0.brk 0.m:T,0"},
	}
	events := []string{
		// administrative
		"e1", "e2", "e3", "e8", "e100", "e4",
		// connection
		"up", "upx", "brk",
		// policy replacement on the running session
		"riA", "riD", "riR", "reD",
		// timers
		"hp0", "hp1", "ka", "cr",
		// well-formed messages
		"m:K", "m:U,1.2,-", "m:U,-,1", "m:N,6,2", "m:N,4,0", "m:N,1,2", "m:N,2,11", "m:N,9,0",
		"m:O,4,65002,90,7,a65002", "m:O,3,65002,90,7,a65002", "m:O,4,65002,90,0,a65002", "m:O,4,65002,2,7,a65002",
		"m:O,4,65009,90,7,-", "m:O,4,65002,90,10,a65002", "m:O,4,65002,90,7,a65002+r0+r3",
		// malformed
		"m:H,0,19,4,0", "m:H,1,18,4,0", "m:H,1,4097,2,4078", "m:H,1,30,9,11", "m:H,1,20,4,1", "m:H,1,29,1,10",
		"m:H,1,21,3,2", "m:H,1,23,2,4", "m:H,1,40,4,3", "m:T,5", "m:B,ovt", "m:B,ocl", "m:B,uat", "m:B,nbc",
	}
	for _, cv := range cfgs {
		for _, st := range states {
			// passive FSMs start in Active: no start event
			pre := "0.e1 0.up"
			if cv.cfg[len(cv.cfg)-1] == 'a' {
				pre = "0.up"
			}
			switch st {
			case 'F':
				pre += " 0.m:" + cv.open
			case 'E':
				pre += " 0.m:" + cv.open + " 0.m:K 0.m:U,1.2,-"
			}
			for _, cd := range conds {
				for k, ev := range events {
					in := cv.cfg
					// the neighbour session shares the speaker's local AS
					second := cv.cfg[:strings.IndexByte(cv.cfg, '/')] + "/65003/10/90/4/0000/0/00/0.0/A/i"
					if withSecond {
						in += " " + second + " " + secondUp
					}
					in += " " + pre
					if cd.evs != "" {
						in += " " + cd.evs
					}
					in += " 0." + ev + " 0.e1 0.up"
					c, err := ParseCase(in)
					if err != nil {
						fmt.Printf("HARNESS-ERROR exit product %q: %v\n", in, err)
						return
					}
					do(fmt.Sprintf("x-%s-%c-%s-%d", cv.name, st, cd.name, k), c)
				}
			}
		}
	}
}

// PairProduct (C07): two sessions in one VRF, over the kinds {eBGP, iBGP non-client, iBGP RR client} x
// {same, different local AS} x {same, different, zero cluster id}; session 1 is established with a route
// and stays; session 0 is established with routes and flaps twice through one kind of exit; after each
// flap paths carrying session 1's local AS / cluster id are announced on session 1 (loop detection must
// still hide them) and an ordinary route (must still be installed).
func PairProduct(do func(id string, c Case)) {
	type kind struct {
		name string
		ibgp bool
		rr   bool
	}
	kinds := []kind{{"ebgp", false, false}, {"ibgp", true, false}, {"rrc", true, true}}
	exits := []string{"e2", "e8", "hp1", "brk ka", "m:N,6,2", "m:H,0,19,4,0", "m:B,uat", "m:O,4,65002,90,7,-", "m:H,1,18,4,0"}
	mk := func(k kind, las uint32, pasE uint32, cluster uint32, rid int) (cfg string, open string, pas uint32) {
		pas = pasE
		if k.ibgp {
			pas = las
		}
		rr := "0"
		if k.rr {
			rr = "1"
		}
		cfg = fmt.Sprintf("s%d/%d/%d/90/46/0000/0/00/%s.%d/A/i", las, pas, rid, rr, cluster)
		a16 := pas
		if a16 > 65535 {
			a16 = 23456
		}
		open = fmt.Sprintf("O,4,%d,90,%d,a%d+m2.1", a16, 40+rid, pas)
		return
	}
	n := 0
	for _, k0 := range kinds {
		for _, k1 := range kinds {
			for _, las1 := range []uint32{65001, 65010} { // session 0 always uses 65001
				for _, cl := range [][2]uint32{{5, 5}, {5, 6}, {0, 0}, {5, 0}, {0, 5}} {
					c0, o0, _ := mk(k0, 65001, 65002, cl[0], 10)
					c1, o1, _ := mk(k1, las1, 65003, cl[1], 11)
					cid1 := cl[1]
					if cid1 == 0 {
						cid1 = 11
					}
					up1 := "1.e1 1.up 1.m:" + o1 + " 1.m:K 1.m:U,3,-"
					up0 := "0.e1 0.up 0.m:" + o0 + " 0.m:K 0.m:U,1.2,-"
					probe := fmt.Sprintf("1.m:P,4,a,%d 1.m:P,0,c,%d 1.m:U,2,- 1.m:P,1,a,65099", las1, cid1)
					for xi, ex := range exits {
						var evs []string
						for _, t := range strings.Fields(ex) {
							evs = append(evs, "0."+t)
						}
						exit := strings.Join(evs, " ")
						in := strings.Join([]string{c0, c1, up1, up0, exit, probe, up0, exit, probe}, " ")
						c, err := ParseCase(in)
						if err != nil {
							fmt.Printf("HARNESS-ERROR pair product %q: %v\n", in, err)
							return
						}
						do(fmt.Sprintf("pair-%s-%s-%d-%d.%d-x%d", k0.name, k1.name, las1, cl[0], cl[1], xi), c)
						n++
					}
				}
			}
		}
	}
}

// CapabilityProduct (C22): every combination of the PeerConfig knobs that decide the capability list
// (IPv4/IPv6 present, add-path receive/send per family, NextHopExtended, AdvertiseIPv4MultiProtocol,
// 2-/4-octet local AS, role on/off) against a peer OPEN that advertises everything and one that
// advertises nothing but its AS.
func CapabilityProduct(do func(id string, c Case)) {
	for _, fams := range []string{"4", "6", "46"} {
		for ap := 0; ap < 16; ap++ {
			for mpnx := 0; mpnx < 4; mpnx++ {
				for _, las := range []uint32{65001, 200000} {
					for _, role := range []string{"00", "10"} {
						apS := fmt.Sprintf("%04b", ap)
						if !strings.Contains(fams, "4") && (ap&0xc != 0 || mpnx != 0) {
							continue
						}
						if !strings.Contains(fams, "6") && ap&0x3 != 0 {
							continue
						}
						cfg := fmt.Sprintf("s%d/65002/10/90/%s/%s/%d%d/%s/0.0/A/i", las, fams, apS, mpnx&1, mpnx>>1, role)
						peerRole := ""
						if role != "00" {
							peerRole = "+r3"
						}
						for pi, caps := range []string{"a65002+m1.1+m2.1+p1.1.3+p2.1.3+x1.1.2" + peerRole, "a65002"} {
							in := fmt.Sprintf("%s 0.e1 0.up 0.m:O,4,65002,30,7,%s 0.m:K", cfg, caps)
							c, err := ParseCase(in)
							if err != nil {
								fmt.Printf("HARNESS-ERROR capability product %q: %v\n", in, err)
								return
							}
							do(fmt.Sprintf("caps-%s-%s-%d-%d-%s-%d", fams, apS, mpnx, las, role, pi), c)
						}
					}
				}
			}
		}
	}
}

// PolicyProduct (C23/C07): import policy at session start x export policy at session start x two
// replacements of the import policy on the running session, with UPDATEs (ordinary, with extra optional
// attributes, with a looping AS path) between them, then an exit and a re-establishment.
func PolicyProduct(do func(id string, c Case)) {
	for _, i0 := range "NDAR" {
		for _, e0 := range "NADR" {
			for _, x := range "ADR" {
				for _, y := range "ADR" {
					in := fmt.Sprintf("s65001/65002/10/90/46/0000/0/00/0.0/%c%c/i 0.e1 0.up 0.m:O,4,65002,90,7,a65002+m2.1 0.m:K "+
						"0.m:U,1.2,- 0.m:P,3,a,65001 0.ri%c 0.m:U,4,1 0.m:A,0,as4path 0.re%c 0.ri%c 0.m:U,-,2 0.m:A,2,unk 0.m:N,6,2 "+
						"0.e1 0.up 0.m:O,4,65002,90,7,a65002+m2.1 0.m:K 0.m:U,1,-", i0, e0, x, y, y)
					c, err := ParseCase(in)
					if err != nil {
						fmt.Printf("HARNESS-ERROR policy product %q: %v\n", in, err)
						return
					}
					do(fmt.Sprintf("pol-%c%c-%c-%c", i0, e0, x, y), c)
				}
			}
		}
	}
}

// ReconnectProduct (C21): peer transmissions travel through the connection and the speaker's REAL
// msgReceiver goroutine (session init 'r'). Each of OpenSent / OpenConfirm / Established is reached on
// the second and on the third connection of the same FSM, after the previous connection(s) ended by each
// kind of exit (peer closed + hold timer, NOTIFICATION, hold timer, malformed message); there every
// malformed-message class and the continuation of a valid conversation is delivered. A speaker that does
// not react to a complete message is reported as wedged.
func ReconnectProduct(do func(id string, c Case)) {
	cfg := "s65001/65002/10/90/46/0000/0/00/0.0/A/r"
	open := "0.m:O,4,65002,90,7,a65002+m1.1+m2.1"
	up := "0.e1 0.up"
	reach := map[byte]string{'S': up, 'F': up + " " + open, 'E': up + " " + open + " 0.m:K 0.m:U,1.2,-"}
	exits := []struct{ name, evs string }{
		{"peer-closed", "0.pc 0.hp1"},
		{"notification", "0.m:N,6,2"},
		{"hold-timer", "0.hp1"},
		{"malformed", "0.m:H,0,19,4,0"},
	}
	probes := []string{
		"m:H,0,19,4,0", "m:H,1,18,4,0", "m:H,1,4097,2,0", "m:H,1,30,9,11", "m:H,1,20,4,1", "m:B,ovt", "m:B,uat",
		"m:O,3,65002,90,7,a65002", "m:K", "m:U,3,-", "m:N,6,4", open[2:],
	}
	for _, prevState := range "SFE" {
		for _, ex := range exits {
			for _, target := range "SFE" {
				for _, nth := range []int{2, 3} {
					for pi, pr := range probes {
						in := cfg
						for k := 1; k < nth; k++ {
							in += " " + reach[byte(prevState)] + " " + ex.evs
						}
						in += " " + reach[byte(target)] + " 0." + pr + " 0.e1 0.up"
						c, err := ParseCase(in)
						if err != nil {
							fmt.Printf("HARNESS-ERROR reconnect product %q: %v\n", in, err)
							return
						}
						do(fmt.Sprintf("recon-%c-%s-%c-%d-%d", prevState, ex.name, target, nth, pi), c)
					}
				}
			}
		}
	}
}

// AddPathTupleProduct (C22): independent add-path receive/send configuration per family x the peer's
// ADD-PATH capability as one capability with two tuples (either order), two capabilities, or a single
// tuple x every send/receive value per tuple.
func AddPathTupleProduct(do func(id string, c Case)) {
	for ap := 0; ap < 16; ap++ {
		apS := fmt.Sprintf("%04b", ap)
		cfg := fmt.Sprintf("s65001/65002/10/90/46/%s/0/00/0.0/A/i", apS)
		for sr4 := 1; sr4 <= 3; sr4++ {
			for sr6 := 1; sr6 <= 3; sr6++ {
				variants := []string{
					fmt.Sprintf("q1.1.%d_2.1.%d", sr4, sr6),
					fmt.Sprintf("q2.1.%d_1.1.%d", sr6, sr4),
					fmt.Sprintf("p1.1.%d+p2.1.%d", sr4, sr6),
					fmt.Sprintf("p2.1.%d+p1.1.%d", sr6, sr4),
					fmt.Sprintf("q1.1.%d", sr4),
					fmt.Sprintf("q2.1.%d", sr6),
					fmt.Sprintf("q1.1.%d_1.4.%d_2.1.%d", sr4, sr6, sr6),
				}
				for vi, v := range variants {
					in := fmt.Sprintf("%s 0.e1 0.up 0.m:O,4,65002,30,7,a65002+m2.1+%s 0.m:K 0.m:U,1,-", cfg, v)
					c, err := ParseCase(in)
					if err != nil {
						fmt.Printf("HARNESS-ERROR add-path product %q: %v\n", in, err)
						return
					}
					do(fmt.Sprintf("aptuple-%s-%d%d-%d", apS, sr4, sr6, vi), c)
				}
			}
		}
	}
}
