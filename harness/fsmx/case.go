package fsmx

import (
	"fmt"
	"strconv"
	"strings"
)

// SessCfg is the configuration of one BGP session (one peer, one FSM) of a case.
// Token: s<las>/<pas>/<rid>/<hold>/<fams>/<ap>/<mp4>/<role><strict>/<rr>.<cluster>/<imp>/<init>
//
//	fams  "4" | "6" | "46"
//	ap    four 0/1: add-path receive v4, send v4, receive v6, send v6
//	mp4   0/1 AdvertiseIPv4MultiProtocol, optionally followed by 0/1 IPv4.NextHopExtended
//	role  config role 0..5 (0 off, 1 provider, 2 RS, 3 RS-client, 4 customer, 5 peer), strict 0/1
//	rr    0/1 route reflector client, cluster id
//	imp   import policy: A accept all, D reject all, R rewrite (set local-pref 200) and accept, N none configured
//	      (= the default, reject all); optionally followed by the export policy (same letters, default A)
//	init  i (outgoing FSM, starts Idle) | a (FSM created for an accepted connection, starts Active) |
//	      r (as i, but peer transmissions go through the connection and the speaker's real msgReceiver goroutine)
type SessCfg struct {
	LAS, PAS, RID          uint32
	Hold                   int
	V4, V6                 bool
	APR4, APS4, APR6, APS6 bool
	MP4                    bool
	NX4                    bool // IPv4.NextHopExtended
	Role                   int
	Strict                 bool
	RR                     bool
	Cluster                uint32
	Imp                    byte
	Exp                    byte // export policy: A accept all (default), D reject all, R rewrite, N none configured
	Init                   byte
}

func b01(b bool) string {
	if b {
		return "1"
	}
	return "0"
}

func (c SessCfg) String() string {
	f := ""
	if c.V4 {
		f += "4"
	}
	if c.V6 {
		f += "6"
	}
	return fmt.Sprintf("s%d/%d/%d/%d/%s/%s%s%s%s/%s/%d%s/%s.%d/%s/%c", c.LAS, c.PAS, c.RID, c.Hold, f,
		b01(c.APR4), b01(c.APS4), b01(c.APR6), b01(c.APS6), b01(c.MP4)+b01(c.NX4), c.Role, b01(c.Strict), b01(c.RR), c.Cluster, string(c.Imp)+string(c.expOrA()), c.Init)
}

func (c SessCfg) expOrA() byte {
	if c.Exp == 0 {
		return 'A'
	}
	return c.Exp
}

func ParseSessCfg(t string) (SessCfg, error) {
	var c SessCfg
	bad := fmt.Errorf("bad session config %q", t)
	if !strings.HasPrefix(t, "s") {
		return c, bad
	}
	p := strings.Split(t[1:], "/")
	if len(p) != 11 {
		return c, bad
	}
	u := func(s string) (uint32, error) {
		v, err := strconv.ParseUint(s, 10, 32)
		return uint32(v), err
	}
	var err error
	if c.LAS, err = u(p[0]); err != nil {
		return c, bad
	}
	if c.PAS, err = u(p[1]); err != nil {
		return c, bad
	}
	if c.RID, err = u(p[2]); err != nil {
		return c, bad
	}
	h, err := u(p[3])
	if err != nil || h > 65535 {
		return c, bad
	}
	c.Hold = int(h)
	switch p[4] {
	case "4":
		c.V4 = true
	case "6":
		c.V6 = true
	case "46":
		c.V4, c.V6 = true, true
	default:
		return c, bad
	}
	if len(p[5]) != 4 || len(p[6]) < 1 || len(p[6]) > 2 || len(p[7]) != 2 || len(p[9]) < 1 || len(p[9]) > 2 || len(p[10]) != 1 {
		return c, bad
	}
	c.APR4, c.APS4, c.APR6, c.APS6 = p[5][0] == '1', p[5][1] == '1', p[5][2] == '1', p[5][3] == '1'
	c.MP4 = p[6][0] == '1'
	c.NX4 = len(p[6]) == 2 && p[6][1] == '1'
	c.Role = int(p[7][0] - '0')
	if c.Role < 0 || c.Role > 5 {
		return c, bad
	}
	c.Strict = p[7][1] == '1'
	rr := strings.SplitN(p[8], ".", 2)
	if len(rr) != 2 {
		return c, bad
	}
	c.RR = rr[0] == "1"
	if c.Cluster, err = u(rr[1]); err != nil {
		return c, bad
	}
	c.Imp = p[9][0]
	if !strings.ContainsRune("ADRN", rune(c.Imp)) {
		return c, bad
	}
	c.Exp = 'A'
	if len(p[9]) == 2 {
		c.Exp = p[9][1]
		if !strings.ContainsRune("ADRN", rune(c.Exp)) {
			return c, bad
		}
	}
	c.Init = p[10][0]
	if c.Init != 'i' && c.Init != 'a' && c.Init != 'r' {
		return c, bad
	}
	return c, nil
}

// Msg is one transmission of the simulated peer.
//
//	K                              KEEPALIVE
//	O,<ver>,<asn16>,<hold>,<id>,<caps>   OPEN (caps: '-' or '+'-joined a<asn4> m<afi>.<safi> p<afi>.<safi>.<sr> r<role> u<code>)
//	U,<ann>,<wd>                   UPDATE announcing / withdrawing route ids ('-' or '.'-joined), encoded as the speaker expects
//	P,<rid>,<a|c>,<v>              UPDATE announcing route rid with v in its AS_PATH (a) or CLUSTER_LIST (c)
//	A,<rid>,<variant>              UPDATE announcing route rid with an extra optional attribute (see ExtraAttr)
//	N,<code>,<sub>                 NOTIFICATION
//	H,<marker 0|1>,<len>,<type>,<avail>  raw header + avail zero bytes, then the peer stops sending
//	T,<n>                          only n (< 19) bytes of a header, then the peer stops sending
//	B,<variant>                    well-framed message with a body the decoder rejects (see BadBodyBytes)
type Msg struct {
	Kind             byte
	Ver, ASN16, Hold int
	ID               uint32
	Caps             []Cap
	Ann, Wd          []int
	Code, Sub        int
	MarkerOK         bool
	Len, Type, Avail int
	N                int
	Variant          string
	RID              int    // P
	ByASN            bool   // P
	Val              uint32 // P
}

func idsString(ids []int) string {
	if len(ids) == 0 {
		return "-"
	}
	var s []string
	for _, i := range ids {
		s = append(s, strconv.Itoa(i))
	}
	return strings.Join(s, ".")
}

func parseIDs(s string) ([]int, error) {
	if s == "-" {
		return nil, nil
	}
	var out []int
	for _, p := range strings.Split(s, ".") {
		v, err := strconv.Atoi(p)
		if err != nil || v < 0 || v > 255 {
			return nil, fmt.Errorf("bad route id %q", p)
		}
		out = append(out, v)
	}
	return out, nil
}

func (m Msg) String() string {
	switch m.Kind {
	case 'K':
		return "K"
	case 'O':
		return fmt.Sprintf("O,%d,%d,%d,%d,%s", m.Ver, m.ASN16, m.Hold, m.ID, capsString(m.Caps))
	case 'U':
		return fmt.Sprintf("U,%s,%s", idsString(m.Ann), idsString(m.Wd))
	case 'A':
		return fmt.Sprintf("A,%d,%s", m.RID, m.Variant)
	case 'P':
		k := "c"
		if m.ByASN {
			k = "a"
		}
		return fmt.Sprintf("P,%d,%s,%d", m.RID, k, m.Val)
	case 'N':
		return fmt.Sprintf("N,%d,%d", m.Code, m.Sub)
	case 'H':
		return fmt.Sprintf("H,%s,%d,%d,%d", b01(m.MarkerOK), m.Len, m.Type, m.Avail)
	case 'T':
		return fmt.Sprintf("T,%d", m.N)
	case 'B':
		return "B," + m.Variant
	}
	return "?"
}

func ParseMsg(s string) (Msg, error) {
	bad := fmt.Errorf("bad message %q", s)
	p := strings.Split(s, ",")
	if len(p[0]) != 1 {
		return Msg{}, bad
	}
	m := Msg{Kind: p[0][0]}
	ints := func(ss []string) ([]int, bool) {
		out := make([]int, len(ss))
		for i, x := range ss {
			v, err := strconv.ParseInt(x, 10, 64)
			if err != nil || v < 0 {
				return nil, false
			}
			out[i] = int(v)
		}
		return out, true
	}
	switch m.Kind {
	case 'K':
		if len(p) != 1 {
			return m, bad
		}
	case 'O':
		if len(p) != 6 {
			return m, bad
		}
		v, ok := ints(p[1:5])
		if !ok || v[0] > 255 || v[1] > 65535 || v[2] > 65535 || v[3] > 0xffffffff {
			return m, bad
		}
		m.Ver, m.ASN16, m.Hold, m.ID = v[0], v[1], v[2], uint32(v[3])
		var err error
		if m.Caps, err = parseCaps(p[5]); err != nil {
			return m, err
		}
	case 'U':
		if len(p) != 3 {
			return m, bad
		}
		var err error
		if m.Ann, err = parseIDs(p[1]); err != nil {
			return m, err
		}
		if m.Wd, err = parseIDs(p[2]); err != nil {
			return m, err
		}
	case 'A':
		if len(p) != 3 {
			return m, bad
		}
		v, ok := ints(p[1:2])
		if !ok || v[0] > 255 || ExtraAttr(p[2]) == nil {
			return m, bad
		}
		m.RID, m.Variant = v[0], p[2]
	case 'P':
		if len(p) != 4 || (p[2] != "a" && p[2] != "c") {
			return m, bad
		}
		v, ok := ints([]string{p[1], p[3]})
		if !ok || v[0] > 255 || v[1] > 0xffffffff {
			return m, bad
		}
		m.RID, m.ByASN, m.Val = v[0], p[2] == "a", uint32(v[1])
	case 'N':
		if len(p) != 3 {
			return m, bad
		}
		v, ok := ints(p[1:])
		if !ok || v[0] > 255 || v[1] > 255 {
			return m, bad
		}
		m.Code, m.Sub = v[0], v[1]
	case 'H':
		if len(p) != 5 {
			return m, bad
		}
		v, ok := ints(p[1:])
		if !ok || v[0] > 1 || v[1] > 65535 || v[2] > 255 || v[3] > 70000 {
			return m, bad
		}
		m.MarkerOK, m.Len, m.Type, m.Avail = v[0] == 1, v[1], v[2], v[3]
		if m.MarkerOK && m.Type == 2 && m.Len > 23 && m.Len <= 4096 {
			return m, fmt.Errorf("raw UPDATE headers longer than 23 are not modelled (body decoding belongs to the codec properties): %q", s)
		}
	case 'T':
		if len(p) != 2 {
			return m, bad
		}
		v, ok := ints(p[1:])
		if !ok || v[0] > 18 {
			return m, bad
		}
		m.N = v[0]
	case 'B':
		if len(p) != 2 {
			return m, bad
		}
		m.Variant = p[1]
		if _, err := BadBodyBytes(m.Variant); err != nil {
			return m, err
		}
	default:
		return m, bad
	}
	return m, nil
}

// Event is one step of a case, addressed to session Sid.
//
//	e<code>  administrative event (1 ManualStart, 2 ManualStop, 3 AutomaticStart, 8 AutomaticStop, 100 Cease, others ignored)
//	up       TCP connection established (handed to the FSM on conCh); upx: a connection whose writes fail
//	hp0/hp1  the 1-second hold poll fires; 1 = the hold time has run out
//	ka       keepalive timer fires          cr  connect-retry timer fires
//	brk      writes on the session's connection start to fail;  pc: the peer closes the connection (reads EOF, writes fail)
//	ri<A|D|R> / re<A|D|R>  the import / export policy of the running session is replaced
//	m:<msg>  the peer transmits <msg>
type Event struct {
	Sid  int
	Kind string // "e","up","upx","hp","ka","cr","brk","m"
	Code int    // admin code; hp: 0/1
	M    Msg
}

func (e Event) String() string {
	p := strconv.Itoa(e.Sid) + "."
	switch e.Kind {
	case "e":
		return p + "e" + strconv.Itoa(e.Code)
	case "hp":
		return p + "hp" + strconv.Itoa(e.Code)
	case "m":
		return p + "m:" + e.M.String()
	case "ri", "re":
		return p + e.Kind + string(rune(e.Code))
	}
	return p + e.Kind
}

func ParseEvent(t string) (Event, error) {
	bad := fmt.Errorf("bad event %q", t)
	i := strings.IndexByte(t, '.')
	if i <= 0 {
		return Event{}, bad
	}
	sid, err := strconv.Atoi(t[:i])
	if err != nil || sid < 0 || sid > 7 {
		return Event{}, bad
	}
	e := Event{Sid: sid}
	r := t[i+1:]
	switch {
	case len(r) == 3 && (r[:2] == "ri" || r[:2] == "re") && strings.ContainsRune("ADR", rune(r[2])):
		e.Kind, e.Code = r[:2], int(r[2])
	case r == "up" || r == "upx" || r == "ka" || r == "cr" || r == "brk" || r == "pc":
		e.Kind = r
	case r == "hp0" || r == "hp1":
		e.Kind, e.Code = "hp", int(r[2]-'0')
	case strings.HasPrefix(r, "m:"):
		e.Kind = "m"
		if e.M, err = ParseMsg(r[2:]); err != nil {
			return e, err
		}
	case strings.HasPrefix(r, "e"):
		c, err := strconv.Atoi(r[1:])
		if err != nil || c < 0 || c > 255 {
			return e, bad
		}
		e.Kind, e.Code = "e", c
	default:
		return e, bad
	}
	return e, nil
}

// Case = sessions + events.
type Case struct {
	Sess []SessCfg
	Evs  []Event
}

func (c Case) String() string {
	var t []string
	for _, s := range c.Sess {
		t = append(t, s.String())
	}
	for _, e := range c.Evs {
		t = append(t, e.String())
	}
	return strings.Join(t, " ")
}

func ParseCase(in string) (Case, error) {
	var c Case
	for _, t := range strings.Fields(in) {
		if strings.HasPrefix(t, "s") {
			s, err := ParseSessCfg(t)
			if err != nil {
				return c, err
			}
			c.Sess = append(c.Sess, s)
			continue
		}
		e, err := ParseEvent(t)
		if err != nil {
			return c, err
		}
		c.Evs = append(c.Evs, e)
	}
	if len(c.Sess) == 0 || len(c.Sess) > 4 {
		return c, fmt.Errorf("case needs 1..4 sessions")
	}
	for _, e := range c.Evs {
		if e.Sid >= len(c.Sess) {
			return c, fmt.Errorf("event %s addresses a missing session", e)
		}
	}
	return c, nil
}
