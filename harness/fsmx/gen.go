package fsmx

import (
	"fmt"

	"verifharness/hx"
)

// ---- generators (all choices derive from the RNG handed in)

var lasPool = []uint32{65001, 200000}
var pasPool = []uint32{65002, 300000, 65003}

func genCfg(r *hx.RNG, las uint32, prof string) SessCfg {
	c := SessCfg{LAS: las, Imp: 'A', Init: 'i'}
	if r.Chance(25) {
		c.PAS = las // iBGP
	} else {
		c.PAS = pasPool[r.Intn(len(pasPool))]
	}
	c.RID = uint32([]int{1, 2, 7, 10}[r.Intn(4)])
	c.Hold = []int{0, 3, 30, 90, 90, 180}[r.Intn(6)]
	switch r.Intn(4) {
	case 0:
		c.V4 = true
	case 1:
		c.V6 = true
	default:
		c.V4, c.V6 = true, true
	}
	if prof == "c07" {
		c.V4 = true
	}
	c.APR4, c.APS4, c.APR6, c.APS6 = r.Chance(30), r.Chance(30), r.Chance(30), r.Chance(30)
	c.MP4 = r.Chance(40)
	c.NX4 = c.V4 && r.Chance(30)
	if r.Chance(50) {
		c.Role = r.Intn(6)
		c.Strict = r.Chance(40)
	}
	// route reflection is an iBGP notion (an eBGP "RR client" makes the update sender dereference a nil
	// CLUSTER_LIST as soon as it exports a route: outside these properties, reported separately)
	c.RR = c.PAS == las && r.Chance(50)
	if c.RR {
		c.Cluster = uint32([]int{0, 5}[r.Intn(2)])
	} else if r.Chance(30) {
		c.Cluster = 5 // a cluster id configured on a session that is not a route reflector client contributes nothing
	}
	c.Imp = "AADDRRRN"[r.Intn(8)]
	c.Exp = "AAAADRN"[r.Intn(7)]
	if r.Chance(25) {
		c.Init = 'a'
	}
	return c
}

func wireRole(cfgRole int) int {
	if cfgRole >= 1 && cfgRole <= 5 {
		return []int{0, 1, 2, 3, 4}[cfgRole-1]
	}
	return 255
}

// matching role of the remote side for a local wire role (RFC 9234 table)
func counterpart(local int) int {
	switch local {
	case 0:
		return 3
	case 3:
		return 0
	case 1:
		return 2
	case 2:
		return 1
	}
	return 4
}

// goodOpen builds the OPEN a well-configured neighbour of session c would send.
func goodOpen(r *hx.RNG, c SessCfg) Msg {
	m := Msg{Kind: 'O', Ver: 4, Hold: []int{0, 3, 30, 90, 90}[r.Intn(5)]}
	m.ASN16 = int(c.PAS)
	if c.PAS > 65535 {
		m.ASN16 = 23456
	}
	m.ID = uint32([]int{3, 5, 9}[r.Intn(3)])
	if c.PAS > 65535 || r.Chance(85) {
		m.Caps = append(m.Caps, Cap{Kind: 'a', V: c.PAS})
	}
	if c.V4 && r.Chance(60) {
		m.Caps = append(m.Caps, Cap{Kind: 'm', A: 1, S: 1})
	}
	if r.Chance(70) {
		m.Caps = append(m.Caps, Cap{Kind: 'm', A: 2, S: 1})
	}
	if r.Chance(40) {
		m.Caps = append(m.Caps, Cap{Kind: 'p', A: uint32(1 + r.Intn(2)), S: 1, V: uint32(1 + r.Intn(3))})
	}
	if c.LAS != c.PAS && c.Role != 0 && r.Chance(85) {
		m.Caps = append(m.Caps, Cap{Kind: 'r', V: uint32(counterpart(wireRole(c.Role)))})
	}
	if r.Chance(15) {
		m.Caps = append(m.Caps, Cap{Kind: 'u', V: uint32([]int{2, 64, 70, 128}[r.Intn(4)])})
	}
	return m
}

// mutateOpen perturbs one aspect of an OPEN (the C22 domain).
func mutateOpen(r *hx.RNG, c SessCfg, m Msg) Msg {
	switch r.Intn(12) {
	case 0:
		m.Ver = []int{0, 3, 5}[r.Intn(3)]
	case 1:
		m.ID = 0
	case 2:
		m.ID = c.RID
	case 3:
		m.Hold = []int{1, 2}[r.Intn(2)]
	case 4:
		m.Hold = []int{0, 3, 4, 5, 65535}[r.Intn(5)]
	case 5:
		m.ASN16 = []int{23456, 65009, int(c.LAS & 0xffff)}[r.Intn(3)]
	case 6: // wrong or missing 4-octet AS
		var caps []Cap
		for _, x := range m.Caps {
			if x.Kind != 'a' {
				caps = append(caps, x)
			}
		}
		if r.Bool() {
			caps = append(caps, Cap{Kind: 'a', V: []uint32{65009, 300001, c.LAS}[r.Intn(3)]})
		}
		m.Caps = caps
	case 7: // role games
		var caps []Cap
		for _, x := range m.Caps {
			if x.Kind != 'r' {
				caps = append(caps, x)
			}
		}
		switch r.Intn(3) {
		case 0:
			caps = append(caps, Cap{Kind: 'r', V: uint32(r.Intn(6))})
		case 1:
			caps = append(caps, Cap{Kind: 'r', V: uint32(r.Intn(5))}, Cap{Kind: 'r', V: uint32(r.Intn(5))})
		}
		m.Caps = caps
	case 8:
		m.Caps = append(m.Caps, Cap{Kind: 'p', A: uint32(1 + r.Intn(3)), S: uint32(1 + r.Intn(2)), V: uint32(r.Intn(5))})
	case 9:
		m.Caps = append(m.Caps, Cap{Kind: 'm', A: uint32(1 + r.Intn(3)), S: uint32([]int{1, 1, 4}[r.Intn(3)])})
	case 10:
		m.Caps = nil
	case 11:
		if len(m.Caps) > 1 { // reorder: ASN4 after/before others
			i := r.Intn(len(m.Caps))
			m.Caps[0], m.Caps[i] = m.Caps[i], m.Caps[0]
		}
	}
	return m
}

func genIDs(r *hx.RNG, max int) []int {
	n := r.Intn(max + 1)
	var out []int
	for i := 0; i < n; i++ {
		out = append(out, r.Intn(5))
	}
	return out
}

var badVariants = []string{"ovt", "ocl", "uat", "nbc", "nbs"}

// genHeader: a raw header from the interesting classes of the length/type/marker space.
func genHeader(r *hx.RNG) Msg {
	m := Msg{Kind: 'H', MarkerOK: !r.Chance(15), Type: []int{0, 1, 2, 3, 4, 4, 5, 255}[r.Intn(8)]}
	switch r.Intn(8) {
	case 0:
		m.Len = r.Intn(19)
	case 1:
		m.Len = 4097 + r.Intn(61439)
	case 2:
		m.Len = []int{18, 19, 20, 21, 22, 23, 28, 29, 4095, 4096, 4097, 65535, 0}[r.Intn(13)]
	default:
		m.Len = 19 + r.Intn(40)
	}
	body := m.Len - 19
	if body < 0 {
		body = 0
	}
	switch r.Intn(4) {
	case 0:
		m.Avail = r.Intn(body + 1) // possibly short: the peer stalls
	case 1:
		m.Avail = 0
	default:
		m.Avail = body
	}
	if m.Avail > 4200 {
		m.Avail = 4200
	}
	if m.MarkerOK && m.Type == 2 && m.Len > 23 && m.Len <= 4096 {
		m.Len = 23
		m.Avail = 4
	}
	return m
}

func genMsg(r *hx.RNG, c SessCfg, prof string) Msg {
	k := r.Intn(100)
	switch {
	case k < 22:
		return Msg{Kind: 'K'}
	case k < 40:
		m := goodOpen(r, c)
		if r.Chance(35) {
			m = mutateOpen(r, c, m)
		}
		return m
	case k < 56:
		return Msg{Kind: 'U', Ann: genIDs(r, 3), Wd: genIDs(r, 2)}
	case k < 60:
		return Msg{Kind: 'A', RID: r.Intn(5), Variant: []string{"as4path", "as4path0", "as4aggr", "unk", "unknt"}[r.Intn(5)]}
	case k < 62:
		return Msg{Kind: 'P', RID: r.Intn(5), ByASN: r.Bool(), Val: []uint32{c.LAS, 65001, 200000, 5, c.RID, 65099}[r.Intn(6)]}
	case k < 72:
		codes := [][2]int{{6, 0}, {6, 2}, {4, 0}, {2, 2}, {1, 1}, {1, 2}, {3, 1}, {2, 11}, {9, 0}, {6, 9}, {5, 0}, {2, 5}}
		x := codes[r.Intn(len(codes))]
		return Msg{Kind: 'N', Code: x[0], Sub: x[1]}
	case k < 88:
		return genHeader(r)
	case k < 92:
		return Msg{Kind: 'T', N: r.Intn(19)}
	default:
		return Msg{Kind: 'B', Variant: badVariants[r.Intn(len(badVariants))]}
	}
}

func genEvent(r *hx.RNG, sid int, c SessCfg, prof string) Event {
	k := r.Intn(100)
	switch {
	case k < 14:
		return Event{Sid: sid, Kind: "e", Code: []int{1, 3, 1, 2, 8, 100, 4, 2}[r.Intn(8)]}
	case k < 22:
		if r.Chance(12) {
			return Event{Sid: sid, Kind: "upx"}
		}
		return Event{Sid: sid, Kind: "up"}
	case k < 30:
		return Event{Sid: sid, Kind: "hp", Code: r.Intn(2)}
	case k < 36:
		return Event{Sid: sid, Kind: "ka"}
	case k < 40:
		return Event{Sid: sid, Kind: "cr"}
	case k < 43:
		return Event{Sid: sid, Kind: "brk"}
	case k < 48:
		return Event{Sid: sid, Kind: []string{"ri", "ri", "re"}[r.Intn(3)], Code: int("ADR"[r.Intn(3)])}
	default:
		return Event{Sid: sid, Kind: "m", M: genMsg(r, c, prof)}
	}
}

// establish returns the events of a valid conversation that brings session sid to Established.
func establish(r *hx.RNG, sid int, c SessCfg) []Event {
	var evs []Event
	if c.Init == 'i' {
		evs = append(evs, Event{Sid: sid, Kind: "e", Code: []int{1, 3}[r.Intn(2)]})
	}
	o := goodOpen(r, c)
	if c.LAS == c.PAS && o.ID == c.RID {
		o.ID = c.RID + 1
	}
	// a neighbour that is accepted: 4-octet AS present, role matching
	has := false
	for _, x := range o.Caps {
		if x.Kind == 'a' {
			has = true
		}
	}
	if !has {
		o.Caps = append([]Cap{{Kind: 'a', V: c.PAS}}, o.Caps...)
	}
	if c.LAS != c.PAS && c.Role != 0 {
		var caps []Cap
		for _, x := range o.Caps {
			if x.Kind != 'r' {
				caps = append(caps, x)
			}
		}
		o.Caps = append(caps, Cap{Kind: 'r', V: uint32(counterpart(wireRole(c.Role)))})
	}
	evs = append(evs, Event{Sid: sid, Kind: "up"}, Event{Sid: sid, Kind: "m", M: o}, Event{Sid: sid, Kind: "m", M: Msg{Kind: 'K'}})
	return evs
}

// genC22: OPEN x configuration, twice over the same FSM (what a reconnect must forget).
func genC22(r *hx.RNG, tr *hx.Trace) Case {
	var c Case
	cfg := genCfg(r, lasPool[r.Intn(len(lasPool))], "c22")
	cfg.Hold = []int{0, 3, 4, 5, 30, 90, 65535}[r.Intn(7)]
	c.Sess = []SessCfg{cfg}
	open := func() Msg {
		m := goodOpen(r, cfg)
		m.Hold = []int{0, 1, 2, 3, 4, 5, 90, 65535}[r.Intn(8)]
		if cfg.LAS == cfg.PAS && m.ID == cfg.RID && r.Chance(70) {
			m.ID++
		}
		for k := r.Intn(3); k > 0; k-- {
			if r.Chance(60) {
				m = mutateOpen(r, cfg, m)
			}
		}
		return m
	}
	round := func() {
		if cfg.Init == 'i' || len(c.Evs) > 0 {
			c.Evs = append(c.Evs, Event{Sid: 0, Kind: "e", Code: 1})
		}
		c.Evs = append(c.Evs, Event{Sid: 0, Kind: "up"}, Event{Sid: 0, Kind: "m", M: open()})
		tr.Count("c22_open")
		if r.Chance(75) {
			c.Evs = append(c.Evs, Event{Sid: 0, Kind: "m", M: Msg{Kind: 'K'}})
		}
		if r.Chance(40) {
			c.Evs = append(c.Evs, Event{Sid: 0, Kind: "m", M: Msg{Kind: 'U', Ann: genIDs(r, 2)}})
		}
		if r.Chance(30) {
			c.Evs = append(c.Evs, Event{Sid: 0, Kind: "hp", Code: 0})
		}
	}
	round()
	for k := r.Intn(3); k > 0; k-- {
		switch r.Intn(4) {
		case 0:
			c.Evs = append(c.Evs, Event{Sid: 0, Kind: "m", M: Msg{Kind: 'N', Code: 6, Sub: 2}})
		case 1:
			c.Evs = append(c.Evs, Event{Sid: 0, Kind: "e", Code: 2})
		case 2:
			c.Evs = append(c.Evs, Event{Sid: 0, Kind: "hp", Code: 1})
		default:
			c.Evs = append(c.Evs, Event{Sid: 0, Kind: "m", M: Msg{Kind: 'B', Variant: "uat"}})
		}
		round()
	}
	return c
}

// GenCase produces one case for the given property profile ("c23", "c07", "c21", "c22").
func GenCase(r *hx.RNG, prof string, tr *hx.Trace) Case {
	if prof == "c22" && r.Chance(75) {
		return genC22(r, tr)
	}
	var c Case
	las := lasPool[r.Intn(len(lasPool))]
	ns := 1
	if r.Chance(35) || prof == "c07" && r.Chance(50) {
		ns = 2
	}
	for i := 0; i < ns; i++ {
		l := las
		if i > 0 && r.Chance(30) {
			l = lasPool[r.Intn(len(lasPool))] // sessions with different local ASNs in one VRF
		}
		c.Sess = append(c.Sess, genCfg(r, l, prof))
	}
	// the second session, if any, is established first and then mostly left alone
	if ns == 2 {
		c.Evs = append(c.Evs, establish(r, 1, c.Sess[1])...)
		if r.Chance(70) {
			c.Evs = append(c.Evs, Event{Sid: 1, Kind: "m", M: Msg{Kind: 'U', Ann: []int{1 + r.Intn(3), 4}, Wd: nil}})
		}
	}
	n := 3 + r.Intn(10)
	shape := r.Intn(100)
	switch {
	case shape < 45 || prof == "c07" && shape < 80:
		// mutated valid conversation: establish, some traffic, then arbitrary events
		c.Evs = append(c.Evs, establish(r, 0, c.Sess[0])...)
		if r.Chance(80) {
			c.Evs = append(c.Evs, Event{Sid: 0, Kind: "m", M: Msg{Kind: 'U', Ann: genIDs(r, 3), Wd: nil}})
		}
		tr.Count("shape_conversation")
	case shape < 60:
		// valid up to OpenSent, then arbitrary
		if c.Sess[0].Init == 'i' {
			c.Evs = append(c.Evs, Event{Sid: 0, Kind: "e", Code: 1})
		}
		c.Evs = append(c.Evs, Event{Sid: 0, Kind: "up"})
		tr.Count("shape_opensent")
	default:
		tr.Count("shape_free")
	}
	for i := 0; i < n; i++ {
		sid := 0
		if ns == 2 && r.Chance(8) {
			sid = 1
		}
		e := genEvent(r, sid, c.Sess[sid], prof)
		c.Evs = append(c.Evs, e)
		tr.Count("ev_" + e.Kind)
		if e.Kind == "m" {
			tr.Count(fmt.Sprintf("msg_%c", e.M.Kind))
		}
		// after leaving, often come back: re-establishment is part of C07/C23
		if r.Chance(12) {
			c.Evs = append(c.Evs, establish(r, 0, c.Sess[0])...)
			tr.Count("reestablish")
		}
	}
	return c
}
