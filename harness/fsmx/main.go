package fsmx

import (
	"fmt"
	"os"
	"strings"

	"verifharness/hx"
)

// Property plugs the property-specific parts into the shared driver.
type Property struct {
	Name    string                                        // "c23" ...
	Oracle  func(c Case, obs []StepObs) []Finding         // the property's statement on the implementation's outputs
	NonTriv func(c Case, obs []StepObs) bool              // rule stated in props/Cnn.py
	Gen     func(r *hx.RNG, tr *hx.Trace) Case            // generated cases
	Extra   func(cfg *hx.Cfg, do func(id string, c Case)) // deterministic sweeps run in every mode but replay
}

// Main is the entry point of cmd/c23, cmd/c07, cmd/c21, cmd/c22.
func Main(p Property) {
	cfg := hx.Parse()
	tr := hx.NewTrace(cfg.Out)
	nviol := 0
	unstable := 0
	debug := os.Getenv("VERIF_FSM_DEBUG") != ""
	fatal := 0 // cases in which the speaker wedged or panicked
	do := func(id string, c Case) {
		if fatal >= 12 {
			return // the verdict is settled; every further such case costs the watchdog's seconds
		}
		if debug {
			fmt.Fprintln(os.Stderr, "CASE", id, c.String())
		}
		obs, ok := RunCaseStable(c)
		if !ok {
			unstable++
			fmt.Printf("HARNESS-ERROR case=%s could not be run within the stepping hook's timing budget (machine overloaded?)\n", id)
			return
		}
		tr.Case(id, p.NonTriv(c, obs), c.String(), ObsString(obs))
		seen := map[string]bool{}
		for _, f := range append(OracleCommon(c, obs), p.Oracle(c, obs)...) {
			if seen[f.Sig] {
				continue
			}
			seen[f.Sig] = true
			hx.Violation(id, f.Sig, f.Detail)
			nviol++
			if strings.HasPrefix(f.Sig, "wedged") || strings.HasPrefix(f.Sig, "panic") {
				fatal++
			}
		}
	}
	if cfg.Mode == "replay" {
		for _, in := range hx.InputsFrom(cfg.Replay) {
			c, err := ParseCase(in[1])
			if err != nil {
				fmt.Println("HARNESS-ERROR bad replay input:", err)
				os.Exit(2)
			}
			do(in[0], c)
		}
	} else {
		for _, in := range hx.InputsFrom(hx.CorpusFiles(cfg.Corpus)...) {
			c, err := ParseCase(in[1])
			if err != nil {
				fmt.Printf("HARNESS-ERROR bad corpus line %s: %v\n", in[0], err)
				continue
			}
			do("corpus-"+in[0], c)
			tr.Count("corpus")
		}
		if p.Extra != nil {
			p.Extra(cfg, do)
		}
		rng := hx.NewRNG(cfg.Seed)
		for i := 0; i < cfg.N; i++ {
			do(fmt.Sprintf("g%d", i), p.Gen(rng.Fork(uint64(i)), tr))
		}
	}
	tr.Close(cfg.Stats, map[string]interface{}{"spec_violations": nviol, "unstable_cases": unstable})
}

// visits reports whether the stepped sessions ever were in state st.
func visits(obs []StepObs, st byte) bool {
	for _, o := range obs {
		if o.State == st {
			return true
		}
	}
	return false
}
