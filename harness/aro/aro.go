// Package aro: shared plumbing of the Adj-RIB-Out harnesses (C08, C09, C11, C12, C13):
// value-level path descriptions and their canonical token form, session kinds, the bounded
// export policy language, recording RouteTableClients.
//
// Token grammar (no spaces inside a token):
//
//	path   = "s/-" | "s/<nh>"
//	       | "b/<nh>/<src>/<lp>/<med>/<bgpid>/<oid>/<agg>/<ebgp>/<atomic>/<origin>/<otc>/<aspath>/<aslen>/<cl>/<comms>/<lcomms>/<unk>/<pid>/<redist>"
//	agg    = "-" | "<asn>.<addr>"
//	aspath = "e" | seg {"_" seg} ; seg = ("q"|"s") [asn {"." asn}]     (q = AS_SEQUENCE, s = AS_SET)
//	cl, comms = "n" (nil) | "e" (empty, non-nil) | n {"." n}
//	lcomms = "n" | "e" | a ":" b ":" c {"." a ":" b ":" c}
//	unk    = "e" | item {"_" item} ; item = flags ":" code ":" [byte {"." byte}]
//	chain  = "0" | filter {"~" filter} ; filter = term {"^" term} ; term = conds ">" acts
//	conds  = "-" (none) | cond {"&" cond} ; cond = "*" (no route filter) | pfxid {"." pfxid}
//	acts   = act {"," act} ; act = lp<v> | med<v> | nh<ip> | pp<asn>x<times> | acc | rej
//
// (AddCommunityAction/AddLargeCommunityAction do not implement actions.Action - their Do takes the
// prefix by value - so no chain can contain them; they are not part of the language.)
//
//	sess   = "S:" kind ":" maxpaths ":" role   kind = ebgp|rs|ibgp|rr ; role = -|prov|rs|rsc|cust|peer
package aro

import (
	"fmt"
	"sort"
	"strconv"
	"strings"

	bnet "github.com/bio-routing/bio-rd/net"
	"github.com/bio-routing/bio-rd/protocols/bgp/types"
	"github.com/bio-routing/bio-rd/route"
	"github.com/bio-routing/bio-rd/routingtable"
	"github.com/bio-routing/bio-rd/routingtable/filter"
	"github.com/bio-routing/bio-rd/routingtable/filter/actions"
)

// ---------------------------------------------------------------- constants of every session

const (
	LocalASN  = 65000
	LocalIP   = 0x01010101 // 1.1.1.1
	PeerIP    = 0x02020202 // 2.2.2.2
	ClusterID = 9
	NoExport  = types.WellKnownCommunityNoExport
	NoAdv     = types.WellKnownCommunityNoAdvertise
)

// Pfx maps a small id to a prefix (distinct, none contains another).
func Pfx(id int) *bnet.Prefix {
	return bnet.NewPfx(bnet.IPv4FromOctets(10, byte(id), 0, 0), 16).Dedup() // one object per prefix: RouteFilter.equal compares patterns by pointer
}

// PfxID is the inverse of Pfx.
func PfxID(p *bnet.Prefix) int {
	return int(p.Addr().ToUint32()>>16) & 0xff
}

// IP returns the deduplicated address object, as the decoder and the peer configuration do
func IP(v uint32) *bnet.IP { return bnet.IPv4(v).Dedup() }

// ---------------------------------------------------------------- sessions

type Sess struct {
	Kind     string // ebgp | rs | ibgp | rr
	MaxPaths int    // 0 = best only, otherwise add-path with that many paths
	Role     string // - | prov | rs | rsc | cust | peer  (the peer's role; "-" = roles not negotiated)
}

var roleCode = map[string]uint8{"prov": 0, "rs": 1, "rsc": 2, "cust": 3, "peer": 4}

func (s Sess) Token() string { return fmt.Sprintf("S:%s:%d:%s", s.Kind, s.MaxPaths, s.Role) }

func ParseSess(t string) (Sess, error) {
	f := strings.Split(t, ":")
	if len(f) != 4 || f[0] != "S" {
		return Sess{}, fmt.Errorf("bad session token %q", t)
	}
	n, err := strconv.Atoi(f[2])
	if err != nil {
		return Sess{}, err
	}
	return Sess{Kind: f[1], MaxPaths: n, Role: f[3]}, nil
}

func (s Sess) IBGP() bool { return s.Kind == "ibgp" || s.Kind == "rr" }

func (s Sess) Attrs() routingtable.SessionAttrs {
	sa := routingtable.SessionAttrs{
		RouterID:             LocalIP,
		Type:                 route.BGPPathType,
		LocalIP:              IP(LocalIP),
		PeerIP:               IP(PeerIP),
		LocalASN:             LocalASN,
		PeerASN:              65100,
		IBGP:                 s.IBGP(),
		RouteServerClient:    s.Kind == "rs",
		RouteReflectorClient: s.Kind == "rr",
		ClusterID:            ClusterID,
		AddPathTX:            s.MaxPaths > 0,
	}
	if s.IBGP() {
		sa.PeerASN = LocalASN
	}
	if s.Role != "-" {
		sa.PeerRoleEnabled = true
		sa.PeerRoleAdvByPeer = true
		sa.PeerRoleRemote = roleCode[s.Role]
	}
	return sa
}

func (s Sess) ClientOptions() routingtable.ClientOptions {
	if s.MaxPaths == 0 {
		return routingtable.ClientOptions{BestOnly: true}
	}
	return routingtable.ClientOptions{MaxPaths: uint(s.MaxPaths)}
}

// ---------------------------------------------------------------- paths

type Unk struct {
	Flags, Code int
	Val         []byte
}

// PS is a value-level path description. Lists: nil pointer <=> Nil flag set.
type PS struct {
	Static    bool
	StaticNil bool // StaticPath == nil
	NH, Src   uint32
	LP, MED   uint32
	BGPID     uint32
	OID       uint32
	Agg       *[2]uint32 // asn, addr
	EBGP      bool
	Atomic    bool
	Origin    uint8
	OTC       uint32
	ASPath    []Seg
	ASLen     uint16
	CL        []uint32
	CLNil     bool
	Comms     []uint32
	CommsNil  bool
	LComms    [][3]uint32
	LCommsNil bool
	Unk       []Unk
	PID       uint32
	Redist    uint8
}

type Seg struct {
	Seq  bool
	ASNs []uint32
}

func ASLength(p []Seg) uint16 {
	var n uint16
	for _, s := range p {
		if s.Seq {
			n += uint16(len(s.ASNs))
		} else {
			n++
		}
	}
	return n
}

func joinU32(xs []uint32, sep string) string {
	p := make([]string, len(xs))
	for i, x := range xs {
		p[i] = strconv.FormatUint(uint64(x), 10)
	}
	return strings.Join(p, sep)
}

func optList(xs []uint32, isNil bool) string {
	if isNil {
		return "n"
	}
	if len(xs) == 0 {
		return "e"
	}
	return joinU32(xs, ".")
}

func b01(b bool) string {
	if b {
		return "1"
	}
	return "0"
}

func (p PS) Token() string {
	if p.Static {
		if p.StaticNil {
			return "s/-"
		}
		return fmt.Sprintf("s/%d", p.NH)
	}
	agg := "-"
	if p.Agg != nil {
		agg = fmt.Sprintf("%d.%d", p.Agg[0], p.Agg[1])
	}
	as := "e"
	if len(p.ASPath) > 0 {
		segs := make([]string, len(p.ASPath))
		for i, s := range p.ASPath {
			k := "s"
			if s.Seq {
				k = "q"
			}
			segs[i] = k + joinU32(s.ASNs, ".")
		}
		as = strings.Join(segs, "_")
	}
	lc := "n"
	if !p.LCommsNil {
		lc = "e"
		if len(p.LComms) > 0 {
			it := make([]string, len(p.LComms))
			for i, c := range p.LComms {
				it[i] = fmt.Sprintf("%d:%d:%d", c[0], c[1], c[2])
			}
			lc = strings.Join(it, ".")
		}
	}
	un := "e"
	if len(p.Unk) > 0 {
		it := make([]string, len(p.Unk))
		for i, u := range p.Unk {
			bs := make([]string, len(u.Val))
			for j, b := range u.Val {
				bs[j] = strconv.Itoa(int(b))
			}
			it[i] = fmt.Sprintf("%d:%d:%s", u.Flags, u.Code, strings.Join(bs, "."))
		}
		un = strings.Join(it, "_")
	}
	return strings.Join([]string{"b", u(p.NH), u(p.Src), u(p.LP), u(p.MED), u(p.BGPID), u(p.OID), agg,
		b01(p.EBGP), b01(p.Atomic), u(uint32(p.Origin)), u(p.OTC), as, u(uint32(p.ASLen)),
		optList(p.CL, p.CLNil), optList(p.Comms, p.CommsNil), lc, un, u(p.PID), u(uint32(p.Redist))}, "/")
}

func u(x uint32) string { return strconv.FormatUint(uint64(x), 10) }

func pu(s string) (uint32, error) {
	v, err := strconv.ParseUint(s, 10, 32)
	return uint32(v), err
}

func parseU32List(s string) ([]uint32, error) {
	if s == "" {
		return []uint32{}, nil
	}
	var out []uint32
	for _, t := range strings.Split(s, ".") {
		v, err := pu(t)
		if err != nil {
			return nil, err
		}
		out = append(out, v)
	}
	return out, nil
}

func parseOptList(s string) (xs []uint32, isNil bool, err error) {
	switch s {
	case "n":
		return nil, true, nil
	case "e":
		return []uint32{}, false, nil
	}
	xs, err = parseU32List(s)
	return xs, false, err
}

func ParsePath(t string) (PS, error) {
	f := strings.Split(t, "/")
	if f[0] == "s" && len(f) == 2 {
		if f[1] == "-" {
			return PS{Static: true, StaticNil: true}, nil
		}
		v, err := pu(f[1])
		return PS{Static: true, NH: v}, err
	}
	if f[0] != "b" || len(f) != 20 {
		return PS{}, fmt.Errorf("bad path token %q", t)
	}
	var p PS
	var err error
	num := func(i int) uint32 {
		v, e := pu(f[i])
		if e != nil && err == nil {
			err = e
		}
		return v
	}
	p.NH, p.Src, p.LP, p.MED, p.BGPID, p.OID = num(1), num(2), num(3), num(4), num(5), num(6)
	if f[7] != "-" {
		a := strings.Split(f[7], ".")
		if len(a) != 2 {
			return p, fmt.Errorf("bad aggregator %q", f[7])
		}
		x, e1 := pu(a[0])
		y, e2 := pu(a[1])
		if e1 != nil || e2 != nil {
			return p, fmt.Errorf("bad aggregator %q", f[7])
		}
		p.Agg = &[2]uint32{x, y}
	}
	p.EBGP, p.Atomic = f[8] == "1", f[9] == "1"
	p.Origin = uint8(num(10))
	p.OTC = num(11)
	if f[12] != "e" {
		for _, s := range strings.Split(f[12], "_") {
			if s == "" || (s[0] != 'q' && s[0] != 's') {
				return p, fmt.Errorf("bad segment %q", s)
			}
			asns, e := parseU32List(s[1:])
			if e != nil {
				return p, e
			}
			p.ASPath = append(p.ASPath, Seg{Seq: s[0] == 'q', ASNs: asns})
		}
	}
	p.ASLen = uint16(num(13))
	if p.CL, p.CLNil, err = parseOptList(f[14]); err != nil {
		return p, err
	}
	if p.Comms, p.CommsNil, err = parseOptList(f[15]); err != nil {
		return p, err
	}
	switch f[16] {
	case "n":
		p.LCommsNil = true
	case "e":
	default:
		for _, it := range strings.Split(f[16], ".") {
			c := strings.Split(it, ":")
			if len(c) != 3 {
				return p, fmt.Errorf("bad large community %q", it)
			}
			var lc [3]uint32
			for i := range c {
				v, e := pu(c[i])
				if e != nil {
					return p, e
				}
				lc[i] = v
			}
			p.LComms = append(p.LComms, lc)
		}
	}
	if f[17] != "e" {
		for _, it := range strings.Split(f[17], "_") {
			c := strings.SplitN(it, ":", 3)
			if len(c) != 3 {
				return p, fmt.Errorf("bad unknown attribute %q", it)
			}
			fl, e1 := strconv.Atoi(c[0])
			co, e2 := strconv.Atoi(c[1])
			if e1 != nil || e2 != nil {
				return p, fmt.Errorf("bad unknown attribute %q", it)
			}
			un := Unk{Flags: fl, Code: co}
			if c[2] != "" {
				for _, b := range strings.Split(c[2], ".") {
					v, e := strconv.Atoi(b)
					if e != nil {
						return p, e
					}
					un.Val = append(un.Val, byte(v))
				}
			}
			p.Unk = append(p.Unk, un)
		}
	}
	p.PID = num(18)
	p.Redist = uint8(num(19))
	return p, err
}

// Build makes a fresh route.Path (no sharing with any other object).
func (p PS) Build() *route.Path {
	if p.Static {
		if p.StaticNil {
			return &route.Path{Type: route.StaticPathType}
		}
		return &route.Path{Type: route.StaticPathType, StaticPath: &route.StaticPath{NextHop: IP(p.NH)}}
	}
	asp := make(types.ASPath, len(p.ASPath))
	for i, s := range p.ASPath {
		t := uint8(types.ASSet)
		if s.Seq {
			t = types.ASSequence
		}
		asp[i] = types.ASPathSegment{Type: t, ASNs: append([]uint32{}, s.ASNs...)}
	}
	b := &route.BGPPath{
		BGPPathA: &route.BGPPathA{
			NextHop: IP(p.NH), Source: IP(p.Src), LocalPref: p.LP, MED: p.MED, BGPIdentifier: p.BGPID,
			OriginatorID: p.OID, EBGP: p.EBGP, AtomicAggregate: p.Atomic, Origin: p.Origin, OnlyToCustomer: p.OTC,
		},
		ASPath:         &asp,
		ASPathLen:      p.ASLen,
		PathIdentifier: p.PID,
	}
	if p.Agg != nil {
		b.BGPPathA.Aggregator = &types.Aggregator{ASN: uint16(p.Agg[0]), Address: p.Agg[1]}
	}
	if !p.CLNil {
		cl := types.ClusterList(append([]uint32{}, p.CL...))
		b.ClusterList = &cl
	}
	if !p.CommsNil {
		c := types.Communities(append([]uint32{}, p.Comms...))
		b.Communities = &c
	}
	if !p.LCommsNil {
		lc := make(types.LargeCommunities, len(p.LComms))
		for i, c := range p.LComms {
			lc[i] = types.LargeCommunity{GlobalAdministrator: c[0], DataPart1: c[1], DataPart2: c[2]}
		}
		b.LargeCommunities = &lc
	}
	for _, un := range p.Unk {
		b.UnknownAttributes = append(b.UnknownAttributes, types.UnknownPathAttribute{
			Optional: un.Flags&4 != 0, Transitive: un.Flags&2 != 0, Partial: un.Flags&1 != 0,
			TypeCode: uint8(un.Code), Value: append([]byte{}, un.Val...),
		})
	}
	return &route.Path{Type: route.BGPPathType, RedistributedFrom: p.Redist, BGPPath: b}
}

// Describe reads a route.Path back into a PS (value-level rendering of everything the models
// speak about). Paths outside the modelled shape are reported as an error.
func Describe(p *route.Path) (PS, error) {
	if p == nil {
		return PS{}, fmt.Errorf("nil path")
	}
	switch p.Type {
	case route.StaticPathType:
		if p.StaticPath == nil {
			return PS{Static: true, StaticNil: true}, nil
		}
		if p.StaticPath.NextHop == nil {
			return PS{}, fmt.Errorf("static path with nil next hop")
		}
		return PS{Static: true, NH: p.StaticPath.NextHop.ToUint32()}, nil
	case route.BGPPathType:
	default:
		return PS{}, fmt.Errorf("path type %d", p.Type)
	}
	b := p.BGPPath
	if b == nil || b.BGPPathA == nil || b.ASPath == nil || b.BGPPathA.NextHop == nil || b.BGPPathA.Source == nil {
		return PS{}, fmt.Errorf("BGP path with nil BGPPath/BGPPathA/ASPath/NextHop/Source")
	}
	a := b.BGPPathA
	ps := PS{NH: a.NextHop.ToUint32(), Src: a.Source.ToUint32(), LP: a.LocalPref, MED: a.MED, BGPID: a.BGPIdentifier,
		OID: a.OriginatorID, EBGP: a.EBGP, Atomic: a.AtomicAggregate, Origin: a.Origin, OTC: a.OnlyToCustomer,
		ASLen: b.ASPathLen, PID: b.PathIdentifier, Redist: p.RedistributedFrom}
	if a.Aggregator != nil {
		ps.Agg = &[2]uint32{uint32(a.Aggregator.ASN), a.Aggregator.Address}
	}
	for _, s := range *b.ASPath {
		if s.Type != types.ASSequence && s.Type != types.ASSet {
			return PS{}, fmt.Errorf("AS path segment type %d", s.Type)
		}
		ps.ASPath = append(ps.ASPath, Seg{Seq: s.Type == types.ASSequence, ASNs: append([]uint32{}, s.ASNs...)})
	}
	if b.ClusterList == nil {
		ps.CLNil = true
	} else {
		ps.CL = append([]uint32{}, (*b.ClusterList)...)
	}
	if b.Communities == nil {
		ps.CommsNil = true
	} else {
		ps.Comms = append([]uint32{}, (*b.Communities)...)
	}
	if b.LargeCommunities == nil {
		ps.LCommsNil = true
	} else {
		for _, c := range *b.LargeCommunities {
			ps.LComms = append(ps.LComms, [3]uint32{c.GlobalAdministrator, c.DataPart1, c.DataPart2})
		}
	}
	for _, un := range b.UnknownAttributes {
		fl := 0
		if un.Optional {
			fl |= 4
		}
		if un.Transitive {
			fl |= 2
		}
		if un.Partial {
			fl |= 1
		}
		ps.Unk = append(ps.Unk, Unk{Flags: fl, Code: int(un.TypeCode), Val: append([]byte{}, un.Value...)})
	}
	return ps, nil
}

// Render = Describe + Token; malformed paths render as "!<reason>".
func Render(p *route.Path) string {
	ps, err := Describe(p)
	if err != nil {
		return "!" + strings.ReplaceAll(err.Error(), " ", "_")
	}
	return ps.Token()
}

// AnnKey identifies "the same announcement": every attribute except the path identifier and the
// bookkeeping fields (ASPathLen, RedistributedFrom), with a nil list and an empty list identified and
// consecutive AS_SEQUENCE segments flattened (what the path id hash can tell apart, see notes/C11.md).
func (p PS) AnnKey() string {
	q := p
	q.PID, q.ASLen, q.Redist = 0, 0, 0
	q.CLNil, q.CommsNil, q.LCommsNil = len(q.CL) == 0, len(q.Comms) == 0, len(q.LComms) == 0
	var flat []Seg
	for _, s := range q.ASPath {
		if s.Seq {
			if len(s.ASNs) == 0 {
				continue
			}
			if n := len(flat); n > 0 && flat[n-1].Seq {
				flat[n-1].ASNs = append(append([]uint32{}, flat[n-1].ASNs...), s.ASNs...)
				continue
			}
		}
		flat = append(flat, Seg{Seq: s.Seq, ASNs: append([]uint32{}, s.ASNs...)})
	}
	q.ASPath = flat
	return q.Token()
}

// ---------------------------------------------------------------- export policy language

type Act struct {
	Kind  string // lp med nh pp acc rej
	V     uint32
	Times uint16
}

type Term struct {
	Conds [][]int // each cond: prefix ids of its route filters (exact matcher); empty cond matches all
	Acts  []Act
}

type Chain [][]Term

func (c Chain) Token() string {
	if len(c) == 0 {
		return "0"
	}
	fs := make([]string, len(c))
	for i, f := range c {
		ts := make([]string, len(f))
		for j, t := range f {
			cs := "-"
			if len(t.Conds) > 0 {
				cc := make([]string, len(t.Conds))
				for k, cond := range t.Conds {
					if len(cond) == 0 {
						cc[k] = "*"
					} else {
						ids := make([]string, len(cond))
						for m, id := range cond {
							ids[m] = strconv.Itoa(id)
						}
						cc[k] = strings.Join(ids, ".")
					}
				}
				cs = strings.Join(cc, "&")
			}
			as := make([]string, len(t.Acts))
			for k, a := range t.Acts {
				switch a.Kind {
				case "lp", "med", "nh":
					as[k] = a.Kind + u(a.V)
				case "pp":
					as[k] = fmt.Sprintf("pp%dx%d", a.V, a.Times)
				default:
					as[k] = a.Kind
				}
			}
			ts[j] = cs + ">" + strings.Join(as, ",")
		}
		fs[i] = strings.Join(ts, "^")
	}
	return strings.Join(fs, "~")
}

func ParseChain(s string) (Chain, error) {
	if s == "0" {
		return Chain{}, nil
	}
	var c Chain
	for _, fs := range strings.Split(s, "~") {
		var f []Term
		for _, ts := range strings.Split(fs, "^") {
			parts := strings.SplitN(ts, ">", 2)
			if len(parts) != 2 {
				return nil, fmt.Errorf("bad term %q", ts)
			}
			var t Term
			if parts[0] != "-" {
				for _, cs := range strings.Split(parts[0], "&") {
					cond := []int{}
					if cs != "*" {
						for _, id := range strings.Split(cs, ".") {
							v, err := strconv.Atoi(id)
							if err != nil {
								return nil, err
							}
							cond = append(cond, v)
						}
					}
					t.Conds = append(t.Conds, cond)
				}
			}
			if parts[1] != "" {
				for _, as := range strings.Split(parts[1], ",") {
					var a Act
					switch {
					case as == "acc" || as == "rej":
						a.Kind = as
					case strings.HasPrefix(as, "lp"):
						v, err := pu(as[2:])
						if err != nil {
							return nil, err
						}
						a = Act{Kind: "lp", V: v}
					case strings.HasPrefix(as, "med"):
						v, err := pu(as[3:])
						if err != nil {
							return nil, err
						}
						a = Act{Kind: "med", V: v}
					case strings.HasPrefix(as, "nh"):
						v, err := pu(as[2:])
						if err != nil {
							return nil, err
						}
						a = Act{Kind: "nh", V: v}
					case strings.HasPrefix(as, "pp"):
						x := strings.SplitN(as[2:], "x", 2)
						if len(x) != 2 {
							return nil, fmt.Errorf("bad prepend %q", as)
						}
						v, e1 := pu(x[0])
						n, e2 := strconv.ParseUint(x[1], 10, 16)
						if e1 != nil || e2 != nil {
							return nil, fmt.Errorf("bad prepend %q", as)
						}
						a = Act{Kind: "pp", V: v, Times: uint16(n)}
					default:
						return nil, fmt.Errorf("bad action %q", as)
					}
					t.Acts = append(t.Acts, a)
				}
			}
			f = append(f, t)
		}
		c = append(c, f)
	}
	return c, nil
}

// Build makes a real filter.Chain (fresh objects each time).
func (c Chain) Build() filter.Chain {
	out := filter.Chain{}
	for i, f := range c {
		var terms []*filter.Term
		for j, t := range f {
			var from []*filter.TermCondition
			for _, cond := range t.Conds {
				var rfs []*filter.RouteFilter
				for _, id := range cond {
					rfs = append(rfs, filter.NewRouteFilter(Pfx(id), filter.NewExactMatcher()))
				}
				from = append(from, filter.NewTermConditionWithRouteFilters(rfs...))
			}
			var then []actions.Action
			for _, a := range t.Acts {
				switch a.Kind {
				case "lp":
					then = append(then, actions.NewSetLocalPrefAction(a.V))
				case "med":
					then = append(then, actions.NewSetMEDAction(a.V))
				case "nh":
					then = append(then, actions.NewSetNextHopAction(IP(a.V)))
				case "pp":
					then = append(then, actions.NewASPathPrependAction(a.V, a.Times))
				case "acc":
					then = append(then, actions.NewAcceptAction())
				case "rej":
					then = append(then, actions.NewRejectAction())
				}
			}
			terms = append(terms, filter.NewTerm(fmt.Sprintf("t%d", j), from, then))
		}
		out = append(out, filter.NewFilter(fmt.Sprintf("f%d", i), terms))
	}
	return out
}

// ---------------------------------------------------------------- recording clients

// Rec records the calls a table makes on a registered client, rendered at call time.
type Rec struct {
	Events []string // "+<pfx>=<path>" | "-<pfx>=<path>" | "~<pfx>" (ReplacePath) | "eor"
	Adds   []RecCall
	Rems   []RecCall
	All    []RecCall
}

type RecCall struct {
	Add  bool
	Pfx  int
	Path *route.Path // the object handed over (not a copy)
	PS   PS          // its value at call time
	Err  error
}

func NewRec() *Rec { return &Rec{} }

func (r *Rec) AddPath(pfx *bnet.Prefix, p *route.Path) error {
	ps, err := Describe(p)
	c := RecCall{Add: true, Pfx: PfxID(pfx), Path: p, PS: ps, Err: err}
	r.Adds = append(r.Adds, c)
	r.All = append(r.All, c)
	r.Events = append(r.Events, fmt.Sprintf("+%d=%s", PfxID(pfx), Render(p)))
	return nil
}
func (r *Rec) AddPathInitialDump(pfx *bnet.Prefix, p *route.Path) error { return r.AddPath(pfx, p) }
func (r *Rec) EndOfRIB()                                                {}
func (r *Rec) RemovePath(pfx *bnet.Prefix, p *route.Path) bool {
	ps, err := Describe(p)
	c := RecCall{Pfx: PfxID(pfx), Path: p, PS: ps, Err: err}
	r.Rems = append(r.Rems, c)
	r.All = append(r.All, c)
	r.Events = append(r.Events, fmt.Sprintf("-%d=%s", PfxID(pfx), Render(p)))
	return true
}
func (r *Rec) ReplacePath(pfx *bnet.Prefix, o, n *route.Path) {
	r.Events = append(r.Events, fmt.Sprintf("~%d", PfxID(pfx)))
}
func (r *Rec) RefreshRoute(*bnet.Prefix, []*route.Path) {}
func (r *Rec) Dispose()                                 {}

// Take returns the events recorded since the last Take.
func (r *Rec) Take() []string {
	e := r.Events
	r.Events = nil
	return e
}

// TakeCalls returns the calls recorded since the last TakeCalls.
func (r *Rec) TakeCalls() []RecCall {
	c := r.All
	r.All = nil
	return c
}

// ---------------------------------------------------------------- dumps

// DumpTable renders a table dump as "<pfx>=<path>,<path>;<pfx>=..." sorted by prefix id, paths in
// table order; "-" when empty.
func DumpTable(routes []*route.Route) string {
	type ent struct {
		id int
		s  string
	}
	var es []ent
	for _, r := range routes {
		ps := r.Paths()
		if len(ps) == 0 {
			continue
		}
		it := make([]string, len(ps))
		for i, p := range ps {
			it[i] = Render(p)
		}
		es = append(es, ent{PfxID(r.Prefix()), strings.Join(it, ",")})
	}
	if len(es) == 0 {
		return "-"
	}
	sort.Slice(es, func(i, j int) bool { return es[i].id < es[j].id })
	out := make([]string, len(es))
	for i, e := range es {
		out[i] = fmt.Sprintf("%d=%s", e.id, e.s)
	}
	return strings.Join(out, ";")
}

func JoinOrDash(xs []string, sep string) string {
	if len(xs) == 0 {
		return "-"
	}
	return strings.Join(xs, sep)
}
