package aro

import (
	"fmt"
	"sort"
	"strings"

	"github.com/bio-routing/bio-rd/route"
	"github.com/bio-routing/bio-rd/routingtable/locRIB"
)

// FirstN returns, per prefix id, the first-n paths of the Loc-RIB's routes: what LocRIB.UpdateNewClient /
// RefreshClient hand to a client registered with the session's options.
func FirstN(lr *locRIB.LocRIB, s Sess) map[int][]*route.Path {
	out := map[int][]*route.Path{}
	for _, r := range lr.Dump() {
		ps := r.Paths()
		n := 1
		if s.MaxPaths > 0 {
			n = s.MaxPaths
		}
		if n > len(ps) {
			n = len(ps)
		}
		if n > 0 {
			out[PfxID(r.Prefix())] = ps[:n]
		}
	}
	return out
}

// LocView renders FirstN as "<pfx>=<path>,<path>;..." sorted by prefix; "-" when empty.
func LocView(lr *locRIB.LocRIB, s Sess) string {
	m := FirstN(lr, s)
	var ids []int
	for id := range m {
		ids = append(ids, id)
	}
	sort.Ints(ids)
	var out []string
	for _, id := range ids {
		it := make([]string, len(m[id]))
		for i, p := range m[id] {
			it[i] = Render(p)
		}
		out = append(out, fmt.Sprintf("%d=%s", id, strings.Join(it, ",")))
	}
	return JoinOrDash(out, ";")
}
