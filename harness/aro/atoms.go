package aro

import "verifharness/hx"

// RichPath returns a BGP path in which every hashed attribute is present and has at least one atom
// (so that MutateAtom can change any of them without changing a length).
func RichPath(r *hx.RNG) PS {
	p := GenPath(r, GenOpts{Extras: true})
	p.Static = false
	if p.Src == 0 {
		p.Src, p.NH, p.BGPID = 0x03030303, 0x03030303, 0x03030303
	}
	p.ASPath = []Seg{{true, []uint32{65001, 65002}}, {false, []uint32{65003, 65004}}}
	p.ASLen = ASLength(p.ASPath)
	p.CL, p.CLNil = []uint32{5, 6}, false
	p.Comms, p.CommsNil = []uint32{100, 200}, false
	p.LComms, p.LCommsNil = [][3]uint32{{1, 2, 3}, {4, 5, 6}}, false
	p.Unk = []Unk{{Flags: 6, Code: 35, Val: []byte{0, 0, 253, 241}}, {Flags: 4, Code: 99, Val: []byte{7}}}
	p.Agg = &[2]uint32{65001, 1}
	return p
}

// Atoms lists the single values a path's identity is made of (the attributes BGPPath.ComputeHash covers).
var Atoms = []string{"nh", "src", "lp", "med", "bgpid", "oid", "origin", "ebgp", "atomic", "otc",
	"agg-asn", "agg-addr", "aspath-asn", "aspath-set-asn", "aspath-segtype", "cl-entry", "community",
	"lcomm-part", "unk-flags", "unk-code", "unk-value-byte"}

// MutateAtom returns a copy of p (made by RichPath) that differs in exactly the named atom; lengths,
// presence and every other value stay as they are.
func MutateAtom(r *hx.RNG, p PS, atom string) PS {
	q := p
	q.ASPath = cloneSegs(p.ASPath)
	q.CL = append([]uint32{}, p.CL...)
	q.Comms = append([]uint32{}, p.Comms...)
	q.LComms = append([][3]uint32{}, p.LComms...)
	q.Unk = make([]Unk, len(p.Unk))
	for i, u := range p.Unk {
		q.Unk[i] = Unk{Flags: u.Flags, Code: u.Code, Val: append([]byte{}, u.Val...)}
	}
	if p.Agg != nil {
		a := *p.Agg
		q.Agg = &a
	}
	switch atom {
	case "nh":
		q.NH ^= 0x00010000
	case "src":
		q.Src ^= 0x00010000
	case "lp":
		q.LP++
	case "med":
		q.MED++
	case "bgpid":
		q.BGPID++
	case "oid":
		q.OID++
	case "origin":
		q.Origin = (q.Origin + 1) % 3
	case "ebgp":
		q.EBGP = !q.EBGP
	case "atomic":
		q.Atomic = !q.Atomic
	case "otc":
		q.OTC++
	case "agg-asn":
		q.Agg[0] ^= 1
	case "agg-addr":
		q.Agg[1]++
	case "aspath-asn":
		i := r.Intn(len(q.ASPath[0].ASNs))
		q.ASPath[0].ASNs[i]++
	case "aspath-set-asn":
		i := r.Intn(len(q.ASPath[1].ASNs))
		q.ASPath[1].ASNs[i]++
	case "aspath-segtype": // a two-element set becomes a sequence: other tokens, other length
		q.ASPath[1].Seq = true
		q.ASLen = ASLength(q.ASPath)
	case "cl-entry":
		q.CL[r.Intn(len(q.CL))]++
	case "community":
		q.Comms[r.Intn(len(q.Comms))]++
	case "lcomm-part":
		q.LComms[r.Intn(len(q.LComms))][r.Intn(3)]++
	case "unk-flags":
		q.Unk[r.Intn(len(q.Unk))].Flags ^= 1
	case "unk-code":
		q.Unk[r.Intn(len(q.Unk))].Code ^= 64
	case "unk-value-byte":
		u := &q.Unk[0]
		u.Val[r.Intn(len(u.Val))] ^= 0x10
	}
	return q
}
