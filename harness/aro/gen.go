package aro

import (
	"verifharness/hx"
)

// Small, colliding attribute domains. Sources: two other peers and the session's own peer.
var (
	srcPool  = []uint32{0x03030303, 0x04040404, PeerIP}
	nhExtra  = uint32(0x09090909)
	commPool = [][]uint32{nil, {}, {100}, {100, 200}, {200}, {NoExport}, {NoAdv}, {100, NoExport}, {NoExport, NoAdv}, {NoAdv, NoExport}, {NoExport, 100, NoAdv}}
	clPool   = [][]uint32{nil, {}, {5}, {5, 6}}
	asPool   = [][]Seg{
		{{true, []uint32{65001}}},
		{{true, []uint32{65001, 65002}}},
		{{true, []uint32{65001}}, {true, []uint32{65002}}}, // prints like the previous one
		{{false, []uint32{65001, 65002}}},
		{{true, []uint32{65003}}, {false, []uint32{65001, 65002}}},
		{},
		{{true, []uint32{}}},
		{{true, []uint32{65002, 65001}}},
	}
)

func long255() []Seg {
	a := make([]uint32, 255)
	for i := range a {
		a[i] = 64512 + uint32(i%7)
	}
	return []Seg{{true, a}}
}

// GenOpts steer GenPath.
type GenOpts struct {
	Static   int  // percent static paths
	OwnSrc   int  // percent paths whose source is the session's peer
	BadComm  int  // percent paths with NO_EXPORT / NO_ADVERTISE
	Extras   bool // OTC, unknown attributes, atomic aggregate, aggregator, large communities
	LongPath int  // percent paths whose leading AS_SEQUENCE holds 255 ASNs
}

var DefaultGen = GenOpts{Static: 6, OwnSrc: 8, BadComm: 10, Extras: true, LongPath: 2}

func GenPath(r *hx.RNG, o GenOpts) PS {
	if r.Chance(o.Static) {
		if r.Chance(25) {
			return PS{Static: true, StaticNil: true}
		}
		return PS{Static: true, NH: []uint32{0x05050505, 0x06060606}[r.Intn(2)]}
	}
	var p PS
	p.Src = srcPool[r.Intn(2)]
	if r.Chance(o.OwnSrc) {
		p.Src = PeerIP
	}
	p.NH = p.Src
	if r.Chance(30) {
		p.NH = nhExtra
	}
	p.EBGP = r.Chance(60)
	p.LP = []uint32{100, 100, 200}[r.Intn(3)]
	p.MED = []uint32{0, 0, 5}[r.Intn(3)]
	p.BGPID = p.Src
	if r.Chance(10) {
		p.BGPID = 7
	}
	if r.Chance(20) {
		p.OID = []uint32{7, 8}[r.Intn(2)]
	}
	p.Origin = uint8(r.Intn(2))
	p.ASPath = cloneSegs(asPool[r.Intn(len(asPool))])
	if r.Chance(o.LongPath) {
		p.ASPath = long255()
	}
	p.ASLen = ASLength(p.ASPath)
	cl := clPool[r.Intn(len(clPool))]
	if r.Chance(50) {
		cl = nil
	}
	p.CL, p.CLNil = append([]uint32{}, cl...), cl == nil
	ci := r.Intn(5)
	if r.Chance(o.BadComm) {
		ci = 5 + r.Intn(6)
	}
	cs := commPool[ci]
	p.Comms, p.CommsNil = append([]uint32{}, cs...), cs == nil
	p.LCommsNil = true
	if o.Extras {
		if r.Chance(15) {
			p.LCommsNil = false
			if r.Chance(70) {
				p.LComms = [][3]uint32{{1, 2, 3}}
			}
		}
		if r.Chance(15) {
			p.OTC = []uint32{65009, 65010}[r.Intn(2)]
		}
		if r.Chance(15) {
			p.Unk = []Unk{{Flags: 6, Code: 35, Val: []byte{0, 0, 253, 241}}}
			if r.Chance(30) {
				p.Unk = append(p.Unk, Unk{Flags: 6, Code: 99, Val: nil})
			}
		}
		p.Atomic = r.Chance(10)
		if r.Chance(10) {
			p.Agg = &[2]uint32{65001, 1}
		}
	}
	if r.Chance(25) {
		p.PID = uint32(1 + r.Intn(2))
	}
	return p
}

func cloneSegs(s []Seg) []Seg {
	out := make([]Seg, len(s))
	for i := range s {
		out[i] = Seg{Seq: s[i].Seq, ASNs: append([]uint32{}, s[i].ASNs...)}
	}
	return out
}

// Mutate returns a copy of p that differs from it in one attribute (often one the pre-fix path id hash,
// Path.Select or Path.Equal does not look at).
func Mutate(r *hx.RNG, p PS) PS {
	q := p
	q.ASPath = cloneSegs(p.ASPath)
	if p.Static {
		q.StaticNil = false
		q.NH = p.NH ^ 0x01000000
		return q
	}
	switch r.Intn(13) {
	case 0:
		q.OTC = p.OTC ^ 65009
	case 1:
		if len(p.Unk) == 0 {
			q.Unk = []Unk{{Flags: 6, Code: 35, Val: []byte{0, 0, 253, 241}}}
		} else {
			q.Unk = nil
		}
	case 2:
		q.Atomic = !p.Atomic
	case 3:
		if p.Agg == nil {
			q.Agg = &[2]uint32{65001, 1}
		} else {
			q.Agg = nil
		}
	case 4: // nil <-> empty communities
		if len(p.Comms) == 0 {
			q.CommsNil = !p.CommsNil
			q.Comms = []uint32{}
		} else {
			q.Comms = append(append([]uint32{}, p.Comms...), 300)
		}
	case 5: // other communities, same Select key
		q.Comms, q.CommsNil = []uint32{300}, false
	case 6: // same AS path length, other content
		q.ASPath = []Seg{{true, []uint32{65009}}}
		if p.ASLen == 2 {
			q.ASPath = []Seg{{true, []uint32{65009, 65008}}}
		}
		q.ASLen = ASLength(q.ASPath)
	case 7: // split / join sequences
		if len(p.ASPath) == 1 && p.ASPath[0].Seq && len(p.ASPath[0].ASNs) == 2 {
			a := p.ASPath[0].ASNs
			q.ASPath = []Seg{{true, []uint32{a[0]}}, {true, []uint32{a[1]}}}
		} else {
			q.MED = p.MED ^ 5
		}
	case 8:
		q.MED = p.MED ^ 5
	case 9:
		q.NH = p.NH ^ 0x0a000000
	case 10:
		q.PID = (p.PID + 1) % 3
	case 11:
		q.LP = p.LP ^ 300
	case 12:
		if p.LCommsNil {
			q.LCommsNil, q.LComms = false, [][3]uint32{{1, 2, 3}}
		} else {
			q.LCommsNil, q.LComms = true, nil
		}
	}
	return q
}

// GenChain draws an export policy from the bounded language.
func GenChain(r *hx.RNG, npfx int) Chain {
	switch r.Intn(10) {
	case 0, 1, 2:
		return Chain{{{Acts: []Act{{Kind: "acc"}}}}} // accept all
	case 3:
		return Chain{} // empty chain: accept, unchanged
	case 4:
		return Chain{{{Acts: []Act{{Kind: "rej"}}}}} // drain
	}
	nf := 1 + r.Intn(2)
	var c Chain
	for i := 0; i < nf; i++ {
		nt := 1 + r.Intn(2)
		var f []Term
		for j := 0; j < nt; j++ {
			var t Term
			switch r.Intn(4) {
			case 0: // no condition
			case 1:
				t.Conds = [][]int{{r.Intn(npfx)}}
			case 2:
				t.Conds = [][]int{{r.Intn(npfx), r.Intn(npfx)}}
			case 3:
				t.Conds = [][]int{{r.Intn(npfx)}, {}}
			}
			na := 1 + r.Intn(2)
			for k := 0; k < na; k++ {
				t.Acts = append(t.Acts, GenAct(r))
			}
			f = append(f, t)
		}
		c = append(c, f)
	}
	return c
}

func GenAct(r *hx.RNG) Act {
	switch r.Intn(9) {
	case 0:
		return Act{Kind: "lp", V: []uint32{100, 200, 300}[r.Intn(3)]}
	case 1:
		return Act{Kind: "med", V: []uint32{0, 5, 9}[r.Intn(3)]}
	case 2:
		return Act{Kind: "nh", V: []uint32{nhExtra, 0x08080808}[r.Intn(2)]}
	case 3:
		return Act{Kind: "pp", V: []uint32{LocalASN, 64999}[r.Intn(2)], Times: uint16(r.Intn(3))}
	case 4, 5:
		return Act{Kind: "rej"}
	default:
		return Act{Kind: "acc"}
	}
}

var sessKinds = []string{"ebgp", "rs", "ibgp", "rr"}
var roles = []string{"-", "-", "-", "prov", "rs", "rsc", "cust", "peer"}

func GenSess(r *hx.RNG, addPathPercent int) Sess {
	s := Sess{Kind: sessKinds[r.Intn(4)], Role: "-"}
	if !s.IBGP() {
		s.Role = roles[r.Intn(len(roles))]
	}
	if r.Chance(addPathPercent) {
		s.MaxPaths = 2 + r.Intn(2)
	}
	return s
}
