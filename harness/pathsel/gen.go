package pathsel

import (
	"fmt"
	"os"

	"verifharness/hx"
)

// ---------------------------------------------------------------- generators

var (
	dLP   = []uint32{100, 200}
	dLen  = []uint32{1, 2}
	dOrg  = []uint32{0, 1, 2}
	dMED  = []uint32{0, 10}
	dID   = []uint32{1, 2, 3}
	dOID  = []uint32{0, 0, 1, 2}
	dCL   = [][]uint32{nil, {}, {7}, {7, 8}, {9}}
	dSrc  = []IPD{{0, 1, true}, {0, 1, false}, {0, 2, true}, {0, 3, true}, {1, 0, false}}
	dNH   = []IPD{{0, 1, true}, {0, 2, true}}
	wideU = []uint32{0, 1, 2, 0x7fffffff, 0x80000000, 0xfffffffe, 0xffffffff}
	wideW = []uint64{0, 1, 0xffffffff, 0x100000000, 0x7fffffffffffffff, 0x8000000000000000, 0xffffffffffffffff}
)

func pickU(r *hx.RNG, xs []uint32) uint32 { return xs[r.Intn(len(xs))] }

// randOther: a valid code of the attributes only Compare reads (AS_PATH contents among them)
func randOther(r *hx.RNG, aslen uint32) uint32 {
	e := Extras{Comm: uint32(r.Intn(3)), LComm: uint32(r.Intn(2)), Unk: uint32(r.Intn(2)), Atomic: uint32(r.Intn(2)),
		Aggr: uint32(r.Intn(3)), ASV: uint32(r.Intn(4))}
	if r.Chance(50) { // mostly vary the AS_PATH contents only
		e = Extras{ASV: e.ASV}
	}
	if aslen == 0 && e.ASV > 2 {
		e.ASV = uint32(r.Intn(3))
	}
	return e.Code()
}

// fixOther keeps Other valid after a change of the AS_PATH length
func fixOther(d *PD) {
	if d.Kind == 'b' && d.ASLen == 0 {
		e := d.Extras()
		if e.ASV > 2 {
			e.ASV = 1
			d.Other = e.Code()
		}
	}
}

func randIgn(r *hx.RNG) uint32 {
	if r.Chance(60) {
		return 0
	}
	return uint32(r.Intn(32))
}

func setCL(d *PD, i int) {
	if i == 0 {
		d.CLNil, d.CL = true, nil
	} else {
		d.CLNil, d.CL = false, append([]uint32{}, dCL[i]...)
	}
}

// SmallBGP: small colliding domain; with probability late% the first five attributes are the base values
func SmallBGP(r *hx.RNG, late int) PD {
	d := PD{Kind: 'b', LP: 100, ASLen: 1, Origin: 0, MED: 0, EBGP: false}
	if !r.Chance(late) {
		d.LP, d.ASLen, d.Origin, d.MED, d.EBGP = pickU(r, dLP), pickU(r, dLen), pickU(r, dOrg), pickU(r, dMED), r.Bool()
	}
	d.BGPID, d.OrigID = pickU(r, dID), pickU(r, dOID)
	setCL(&d, r.Intn(len(dCL)))
	d.Src, d.NH = dSrc[r.Intn(len(dSrc))], dNH[r.Intn(len(dNH))]
	d.PathID = uint32(r.Intn(2))
	if r.Chance(60) {
		d.Other = randOther(r, d.ASLen)
	}
	d.Ign = randIgn(r)
	return d
}

func wideIP(r *hx.RNG) IPD {
	if r.Chance(30) {
		return IPD{0, uint64(pickU(r, wideU)), true}
	}
	return IPD{wideW[r.Intn(len(wideW))], wideW[r.Intn(len(wideW))], false}
}

// WideBGP: boundary values of the field widths
func WideBGP(r *hx.RNG) PD {
	d := PD{Kind: 'b', LP: pickU(r, wideU), ASLen: uint32(r.Pick([]int{0, 1, 2, 199, 200})), Origin: uint32(r.Pick([]int{0, 1, 2, 255})),
		MED: pickU(r, wideU), EBGP: r.Bool(), BGPID: pickU(r, wideU), OrigID: pickU(r, wideU)}
	switch r.Intn(4) {
	case 0:
		d.CLNil = true
	case 1:
	default:
		n := 1 + r.Intn(4)
		for i := 0; i < n; i++ {
			d.CL = append(d.CL, pickU(r, wideU))
		}
	}
	d.Src, d.NH = wideIP(r), wideIP(r)
	d.PathID, d.Other, d.Ign = pickU(r, wideU), randOther(r, d.ASLen), randIgn(r)
	return d
}

func Static(r *hx.RNG) PD {
	ign := randIgn(r) &^ 3 // OTC and BMPPostPolicy live in the BGP path
	if r.Chance(80) {
		return PD{Kind: 's', NH: dNH[r.Intn(len(dNH))], Ign: ign}
	}
	return PD{Kind: 's', NH: wideIP(r), Ign: ign}
}

// Mutate changes one attribute the decision process (or Compare) reads
func Mutate(r *hx.RNG, d PD) PD {
	if d.Kind != 'b' {
		return Static(r)
	}
	d.CL = append([]uint32{}, d.CL...)
	switch r.Intn(16) {
	case 12, 13, 14: // AS_PATH contents / other attributes the decision process must not read
		d.Other = randOther(r, d.ASLen)
	case 15:
		d.Ign = uint32(r.Intn(32))
	case 0:
		d.LP = pickU(r, dLP)
	case 1:
		d.ASLen = pickU(r, dLen)
		fixOther(&d)
	case 2:
		d.Origin = pickU(r, dOrg)
	case 3:
		d.MED = pickU(r, dMED)
	case 4:
		d.EBGP = !d.EBGP
	case 5:
		d.BGPID = pickU(r, dID)
	case 6:
		d.OrigID = pickU(r, dOID)
	case 7:
		setCL(&d, r.Intn(len(dCL)))
	case 8:
		d.Src = dSrc[r.Intn(len(dSrc))]
	case 9:
		d.NH = dNH[r.Intn(len(dNH))]
	case 10:
		d.PathID = uint32(r.Intn(2))
	case 11:
		d.Other = randOther(r, d.ASLen)
	}
	return d
}

// AnyPath: mostly small BGP, some wide, static, malformed (only when allowMalformed)
func AnyPath(r *hx.RNG, allowMalformed bool) PD {
	c := r.Intn(100)
	switch {
	case c < 70:
		return SmallBGP(r, 60)
	case c < 82:
		return WideBGP(r)
	case c < 95 || !allowMalformed:
		return Static(r)
	default:
		return PD{Kind: 'x', XType: uint8(r.Pick([]int{0, 1, 2, 3, 5}))}
	}
}

func RandomPair(r *hx.RNG) (PD, PD) {
	a := AnyPath(r, true)
	if a.Kind == 'b' && r.Chance(70) {
		b := a
		for k := r.Intn(4); k > 0; k-- {
			b = Mutate(r, b)
		}
		return a, b
	}
	return a, AnyPath(r, true)
}

func RandomTriple(r *hx.RNG) (PD, PD, PD) {
	a := AnyPath(r, false)
	mk := func() PD {
		if a.Kind == 'b' && r.Chance(75) {
			b := a
			for k := 1 + r.Intn(3); k > 0; k-- {
				b = Mutate(r, b)
			}
			return b
		}
		return AnyPath(r, false)
	}
	return a, mk(), mk()
}

// LateDomain: every combination of the attributes read after the eBGP step
func LateDomain(ids, oids []uint32, cls []int, srcs, nhs []uint64) []PD {
	var out []PD
	for _, id := range ids {
		for _, oid := range oids {
			for _, cl := range cls {
				for _, s := range srcs {
					for _, n := range nhs {
						d := PD{Kind: 'b', LP: 100, ASLen: 1, BGPID: id, OrigID: oid, Src: IPD{0, s, true}, NH: IPD{0, n, true}}
						setCL(&d, cl)
						out = append(out, d)
					}
				}
			}
		}
	}
	return out
}

// EarlyDomain: every combination of the attributes read up to the identifier step
func EarlyDomain() []PD {
	var out []PD
	for _, lp := range dLP {
		for _, l := range dLen {
			for _, o := range []uint32{0, 1} {
				for _, m := range dMED {
					for _, e := range []bool{false, true} {
						for _, id := range []uint32{1, 2} {
							d := PD{Kind: 'b', LP: lp, ASLen: l, Origin: o, MED: m, EBGP: e, BGPID: id, CLNil: true,
								Src: IPD{0, 1, true}, NH: IPD{0, 1, true}}
							out = append(out, d)
						}
					}
				}
			}
		}
	}
	return out
}

// MEDDomain: MED against every later step, with AS_PATHs of equal length and different contents
// (different neighbour AS, leading AS_SET): MED is compared whatever the neighbour AS is
func MEDDomain() []PD {
	var out []PD
	for _, m := range dMED {
		for asv := uint32(0); asv < 4; asv++ {
			for _, e := range []bool{false, true} {
				for _, id := range []uint32{1, 2} {
					for _, s := range []uint64{1, 2} {
						d := PD{Kind: 'b', LP: 100, ASLen: 2, MED: m, EBGP: e, BGPID: id, CLNil: true,
							Src: IPD{0, s, true}, NH: IPD{0, 1, true}, Other: Extras{ASV: asv}.Code()}
						out = append(out, d)
					}
				}
			}
		}
	}
	// empty AS_PATHs in their three shapes
	for _, m := range dMED {
		for asv := uint32(0); asv < 3; asv++ {
			for _, id := range []uint32{1, 2} {
				out = append(out, PD{Kind: 'b', LP: 100, ASLen: 0, MED: m, BGPID: id, CLNil: true,
					Src: IPD{0, 1, true}, NH: IPD{0, 1, true}, Other: Extras{ASV: asv}.Code()})
			}
		}
	}
	return out
}

func permutations(n int) [][]int {
	if n == 0 {
		return [][]int{{}}
	}
	var out [][]int
	for _, p := range permutations(n - 1) {
		for pos := 0; pos <= len(p); pos++ {
			q := append(append(append([]int{}, p[:pos]...), n-1), p[pos:]...)
			out = append(out, q)
		}
	}
	return out
}

// RandomGroup: k candidates from a strongly colliding domain, every insertion order, plus histories with
// interleaved removals / re-additions that leave the same candidates
func RandomGroup(r *hx.RNG, tr *hx.Trace) ([]PD, [][]Op) {
	k := 3 + r.Intn(2)
	if r.Chance(10) {
		k = 5
	}
	base := SmallBGP(r, 80)
	var paths []PD
	for i := 0; i < k; i++ {
		switch c := r.Intn(100); {
		case c < 12:
			paths = append(paths, Static(r))
		case c < 70:
			d := base
			for m := 1 + r.Intn(3); m > 0; m-- {
				d = Mutate(r, d)
			}
			paths = append(paths, d)
		default:
			paths = append(paths, SmallBGP(r, 70))
		}
	}
	extra := AnyPath(r, false) // a path that comes and goes
	paths = append(paths, extra)
	x := k
	var hists [][]Op
	perms := permutations(k)
	if k == 5 { // 120 orders: sample 30
		for i := range perms {
			j := i + r.Intn(len(perms)-i)
			perms[i], perms[j] = perms[j], perms[i]
		}
		perms = perms[:30]
	}
	for _, p := range perms {
		var h []Op
		for _, i := range p {
			h = append(h, Op{true, i})
		}
		hists = append(hists, h)
	}
	for n := 0; n < 6; n++ {
		p := perms[r.Intn(len(perms))]
		var h []Op
		switch r.Intn(3) {
		case 0: // the extra path is added somewhere and removed later
			at := r.Intn(k)
			rm := at + r.Intn(k-at)
			for j, i := range p {
				if j == at {
					h = append(h, Op{true, x})
				}
				h = append(h, Op{true, i})
				if j == rm {
					h = append(h, Op{false, x})
				}
			}
		case 1: // one candidate is added twice and removed once
			dup := p[r.Intn(k)]
			at := r.Intn(k)
			for j, i := range p {
				h = append(h, Op{true, i})
				if j == at {
					h = append(h, Op{true, dup})
				}
			}
			h = append(h, Op{false, dup})
		case 2: // a candidate is withdrawn and re-announced; a removal of an absent path in between
			w := r.Intn(k)
			for _, i := range p {
				h = append(h, Op{true, i})
			}
			h = append(h, Op{false, p[w]}, Op{false, x}, Op{true, p[w]})
		}
		hists = append(hists, h)
	}
	tr.Count(fmt.Sprintf("group_k%d", k))
	return paths, hists
}

// ---------------------------------------------------------------- main shared by cmd/c02 and cmd/c03

func Main(prop string) {
	cfg := hx.Parse()
	tr := hx.NewTrace(cfg.Out)
	run := &Runner{Prop: prop, Tr: tr}
	if cfg.Mode == "replay" {
		for _, c := range hx.InputsFrom(cfg.Replay) {
			if err := run.RunInput(c[0], c[1]); err != nil {
				fmt.Println("HARNESS-ERROR bad replay input:", err)
				os.Exit(2)
			}
		}
		tr.Close(cfg.Stats, map[string]interface{}{"spec_violations": run.NViol})
		return
	}
	for _, c := range hx.InputsFrom(hx.CorpusFiles(cfg.Corpus)...) {
		if err := run.RunInput("corpus-"+c[0], c[1]); err != nil {
			fmt.Println("HARNESS-ERROR bad corpus input:", c[0], err)
			os.Exit(2)
		}
		tr.Count("corpus")
	}
	rng := hx.NewRNG(cfg.Seed)
	thorough := cfg.Tier == "thorough"
	n := cfg.N
	switch prop {
	case "C03":
		// exhaustive: every ordered pair of the late-step domain and of the early-step domain
		late := LateDomain([]uint32{1, 2}, []uint32{0, 1, 2}, []int{0, 1, 2, 3}, []uint64{1, 2}, []uint64{1, 2})
		for i, a := range late {
			for j, b := range late {
				run.Pair(fmt.Sprintf("xl%d-%d", i, j), a, b)
			}
		}
		early := EarlyDomain()
		for i, a := range early {
			for j, b := range early {
				run.Pair(fmt.Sprintf("xe%d-%d", i, j), a, b)
			}
		}
		medd := MEDDomain()
		for i, a := range medd {
			for j, b := range medd {
				run.Pair(fmt.Sprintf("xm%d-%d", i, j), a, b)
			}
		}
		for i := 0; i < n; i++ {
			a, b := RandomPair(rng.Fork(uint64(i)))
			run.Pair(fmt.Sprintf("p%d", i), a, b)
		}
		for i := 0; i < n/100; i++ {
			r := rng.Fork(uint64(1<<32 + i))
			paths, hists := RandomGroup(r, tr)
			// the best path in the Loc-RIB: a handful of insertion orders is enough here
			if len(hists) > 6 {
				hists = append(hists[:3:3], hists[len(hists)-3:]...)
			}
			run.Group(fmt.Sprintf("g%d", i), paths, hists)
		}
	case "C02":
		// exhaustive triples over a domain where CLUSTER_LIST presence, identifier and peer address collide
		var dom []PD
		if thorough {
			dom = LateDomain([]uint32{1, 2}, []uint32{0, 2}, []int{0, 1, 2, 3}, []uint64{1, 2, 3}, []uint64{1})
		} else {
			dom = LateDomain([]uint32{1, 2}, []uint32{0}, []int{0, 1, 2, 3}, []uint64{1, 2, 3}, []uint64{1})
		}
		dom = append(dom, PD{Kind: 's', NH: IPD{0, 1, true}}, PD{Kind: 's', NH: IPD{0, 2, true}})
		// MED against the later steps with different neighbour ASes (the classic source of cyclic preference)
		for _, m := range dMED {
			for _, asv := range []uint32{0, 1} {
				for _, id := range []uint32{1, 2} {
					dom = append(dom, PD{Kind: 'b', LP: 100, ASLen: 1, MED: m, BGPID: id, CLNil: true,
						Src: IPD{0, 1, true}, NH: IPD{0, 1, true}, Other: Extras{ASV: asv}.Code()})
				}
			}
		}
		for i, a := range dom {
			for j, b := range dom {
				for k, c := range dom {
					run.Triple(fmt.Sprintf("xt%d-%d-%d", i, j, k), a, b, c)
				}
			}
		}
		for i := 0; i < n/3; i++ {
			a, b, c := RandomTriple(rng.Fork(uint64(i)))
			run.Triple(fmt.Sprintf("t%d", i), a, b, c)
		}
		for i := 0; i < n/3; i++ {
			a, b := RandomPair(rng.Fork(uint64(1<<33 + i)))
			run.Pair(fmt.Sprintf("p%d", i), a, b)
		}
		for i := 0; i < n/100; i++ {
			paths, hists := RandomGroup(rng.Fork(uint64(1<<32+i)), tr)
			run.Group(fmt.Sprintf("g%d", i), paths, hists)
		}
	default:
		fmt.Println("HARNESS-ERROR unknown property", prop)
		os.Exit(2)
	}
	tr.Close(cfg.Stats, map[string]interface{}{"spec_violations": run.NViol, "property": prop})
}
