// Package pathsel: shared harness of C02 (order independence / total preorder) and C03 (RFC
// tie-breaking). It builds real route.Path values from small textual descriptions, observes
// route.Path.Select/ECMP/Compare/Equal on pairs and triples and a real locRIB.LocRIB under
// permuted AddPath/RemovePath histories, and evaluates the properties' own statements with an
// oracle written here from RFC 4271 9.1.2.2 / RFC 4456 9 (it never calls Select).
//
// Path tokens
//
//	b/<lp>/<aslen>/<origin>/<med>/<ebgp>/<bgpid>/<origid>/<cl>/<src>/<nh>/<pathid>/<other>[/<ign>]
//	    cl = n (no CLUSTER_LIST) | e (empty list) | v1.v2...   ip = [L]<hi>:<lo> (L: IPv4 form)
//	    other = mixed-radix code of what only Compare() reads: communities {nil,[c],[]} + 3*(large
//	            communities {nil,[l]} + 2*(unknown attrs {none,one} + 2*(ATOMIC_AGGREGATE + 2*(AGGREGATOR
//	            {nil,a,b} + 3*AS_PATH variant)))); AS_PATH variant (same length, different contents):
//	            0 one AS_SEQUENCE 65000.. | 1 first ASN 64999 | 2 first ASN 64998 | 3 leading AS_SET;
//	            for length 0: 0 one empty AS_SEQUENCE | 1 no segment | 2 nil AS_PATH pointer
//	    ign   = bits of what neither Select nor Compare reads: 1 OTC, 2 BMPPostPolicy, 4 LTime,
//	            8 HiddenReason, 16 RedistributedFrom
//	s/<nh>[/<ign>]              static path
//	x/<type>                    malformed: Type set, all protocol pointers nil
//
// Cases (first input token)
//
//	P a b                => sel=<z|P> rev=<z|P> ecmp=<0|1|P> cmp=<0|1|P> eq=<0|1|P>
//	T a b c              => ab,ba,bc,cb,ac,ca      (Select results, P = panic)
//	G p0 .. pk | ops ; ops ; ...   ops: +i (AddPath of path i) / -i (RemovePath)
//	                     => per op "<i,i,..|->/<ecmp>" (Paths() as path indices, ECMPPathCount), histories
//	                        separated by ";", "PANIC" ends a history
package pathsel

import (
	"fmt"
	"sort"
	"strconv"
	"strings"

	bnet "github.com/bio-routing/bio-rd/net"
	"github.com/bio-routing/bio-rd/protocols/bgp/types"
	"github.com/bio-routing/bio-rd/route"
	"github.com/bio-routing/bio-rd/routingtable/locRIB"

	"verifharness/hx"
)

// ---------------------------------------------------------------- descriptions

type IPD struct {
	Hi, Lo uint64
	Legacy bool
}

type PD struct {
	Kind                   byte // 'b', 's', 'x'
	LP, ASLen, Origin, MED uint32
	EBGP                   bool
	BGPID, OrigID          uint32
	CLNil                  bool
	CL                     []uint32
	Src, NH                IPD
	PathID, Other, Ign     uint32
	XType                  uint8
}

func (i IPD) String() string {
	l := ""
	if i.Legacy {
		l = "L"
	}
	return fmt.Sprintf("%s%d:%d", l, i.Hi, i.Lo)
}

func parseIP(s string) (IPD, error) {
	var r IPD
	if strings.HasPrefix(s, "L") {
		r.Legacy = true
		s = s[1:]
	}
	p := strings.SplitN(s, ":", 2)
	if len(p) != 2 {
		return r, fmt.Errorf("bad ip %q", s)
	}
	var err error
	if r.Hi, err = strconv.ParseUint(p[0], 10, 64); err != nil {
		return r, err
	}
	if r.Lo, err = strconv.ParseUint(p[1], 10, 64); err != nil {
		return r, err
	}
	if r.Legacy && (r.Hi != 0 || r.Lo > 0xffffffff) {
		return r, fmt.Errorf("legacy ip out of range %q", s)
	}
	return r, nil
}

func (i IPD) ip() *bnet.IP {
	if i.Legacy {
		return bnet.IPv4(uint32(i.Lo)).Ptr()
	}
	return bnet.IPv6(i.Hi, i.Lo).Ptr()
}

func b2i(b bool) int {
	if b {
		return 1
	}
	return 0
}

func (d PD) Token() string {
	switch d.Kind {
	case 's':
		if d.Ign != 0 {
			return fmt.Sprintf("s/%s/%d", d.NH.String(), d.Ign)
		}
		return "s/" + d.NH.String()
	case 'x':
		return fmt.Sprintf("x/%d", d.XType)
	}
	cl := "n"
	if !d.CLNil {
		if len(d.CL) == 0 {
			cl = "e"
		} else {
			var p []string
			for _, v := range d.CL {
				p = append(p, strconv.FormatUint(uint64(v), 10))
			}
			cl = strings.Join(p, ".")
		}
	}
	t := fmt.Sprintf("b/%d/%d/%d/%d/%d/%d/%d/%s/%s/%s/%d/%d", d.LP, d.ASLen, d.Origin, d.MED, b2i(d.EBGP),
		d.BGPID, d.OrigID, cl, d.Src, d.NH, d.PathID, d.Other)
	if d.Ign != 0 {
		t += fmt.Sprintf("/%d", d.Ign)
	}
	return t
}

// Extras: the components of Other
type Extras struct{ Comm, LComm, Unk, Atomic, Aggr, ASV uint32 }

func (d PD) Extras() Extras {
	o := d.Other
	var e Extras
	e.Comm, o = o%3, o/3
	e.LComm, o = o%2, o/2
	e.Unk, o = o%2, o/2
	e.Atomic, o = o%2, o/2
	e.Aggr, o = o%3, o/3
	e.ASV = o
	return e
}

func (e Extras) Code() uint32 {
	return e.Comm + 3*(e.LComm+2*(e.Unk+2*(e.Atomic+2*(e.Aggr+3*e.ASV))))
}

// OtherMax: largest valid Other
const OtherMax = 287

func (d PD) otherValid() bool {
	if d.Other > OtherMax {
		return false
	}
	if d.ASLen == 0 && d.Extras().ASV > 2 {
		return false
	}
	return true
}

func ParsePD(tok string) (PD, error) {
	f := strings.Split(tok, "/")
	var d PD
	bad := fmt.Errorf("bad path token %q", tok)
	if len(f) < 2 || len(f[0]) != 1 {
		return d, bad
	}
	d.Kind = f[0][0]
	u := func(s string, bits int) (uint32, error) {
		v, err := strconv.ParseUint(s, 10, bits)
		return uint32(v), err
	}
	var err error
	switch d.Kind {
	case 's':
		if len(f) != 2 && len(f) != 3 {
			return d, bad
		}
		if len(f) == 3 {
			v, e := u(f[2], 8)
			if e != nil || v > 31 {
				return d, bad
			}
			d.Ign = v
		}
		d.NH, err = parseIP(f[1])
		return d, err
	case 'x':
		if len(f) != 2 {
			return d, bad
		}
		v, err := u(f[1], 8)
		d.XType = uint8(v)
		return d, err
	case 'b':
		if len(f) != 13 && len(f) != 14 {
			return d, bad
		}
		errs := make([]error, 0)
		get := func(s string, bits int) uint32 {
			v, e := u(s, bits)
			if e != nil {
				errs = append(errs, e)
			}
			return v
		}
		d.LP, d.ASLen, d.Origin, d.MED = get(f[1], 32), get(f[2], 16), get(f[3], 8), get(f[4], 32)
		d.EBGP = f[5] == "1"
		d.BGPID, d.OrigID = get(f[6], 32), get(f[7], 32)
		switch f[8] {
		case "n":
			d.CLNil = true
		case "e":
		default:
			for _, s := range strings.Split(f[8], ".") {
				d.CL = append(d.CL, get(s, 32))
			}
		}
		if d.Src, err = parseIP(f[9]); err != nil {
			return d, err
		}
		if d.NH, err = parseIP(f[10]); err != nil {
			return d, err
		}
		d.PathID, d.Other = get(f[11], 32), get(f[12], 32)
		if len(errs) > 0 {
			return d, errs[0]
		}
		if len(f) == 14 {
			d.Ign = get(f[13], 8)
		}
		if len(errs) > 0 {
			return d, errs[0]
		}
		if d.ASLen > 200 || !d.otherValid() || d.Ign > 31 {
			return d, bad
		}
		return d, nil
	}
	return d, bad
}

func (d PD) decorate(p *route.Path) *route.Path {
	if d.Ign&4 != 0 {
		p.LTime = 1234
	}
	if d.Ign&8 != 0 {
		p.HiddenReason = route.HiddenReasonFilteredByPolicy
	}
	if d.Ign&16 != 0 {
		p.RedistributedFrom = route.StaticPathType
	}
	return p
}

// asPath: an AS_PATH of length d.ASLen whose contents depend on the variant
func (d PD) asPath() *types.ASPath {
	v := d.Extras().ASV
	if d.ASLen == 0 {
		switch v {
		case 1:
			return &types.ASPath{}
		case 2:
			return nil
		}
		return &types.ASPath{{Type: types.ASSequence, ASNs: []uint32{}}}
	}
	n := d.ASLen
	var segs types.ASPath
	if v == 3 {
		segs = append(segs, types.ASPathSegment{Type: types.ASSet, ASNs: []uint32{64999, 64998}})
		n--
	}
	asns := make([]uint32, n)
	for i := range asns {
		asns[i] = 65000 + uint32(i) + d.ASLen - n
	}
	if n > 0 && (v == 1 || v == 2) {
		asns[0] = 65000 - v
	}
	if n > 0 || v != 3 {
		segs = append(segs, types.ASPathSegment{Type: types.ASSequence, ASNs: asns})
	}
	return &segs
}

// Path builds the real route.Path (a fresh object on every call).
func (d PD) Path() *route.Path {
	switch d.Kind {
	case 's':
		return d.decorate(&route.Path{Type: route.StaticPathType, StaticPath: &route.StaticPath{NextHop: d.NH.ip()}})
	case 'x':
		return &route.Path{Type: d.XType}
	}
	e := d.Extras()
	asp := d.asPath()
	alen := uint16(0)
	if asp != nil {
		alen = asp.Length() // as the UPDATE decoder sets it
	}
	if uint32(alen) != d.ASLen {
		panic(fmt.Sprintf("harness: AS_PATH of %s has length %d", d.Token(), alen))
	}
	b := &route.BGPPath{
		BGPPathA: &route.BGPPathA{
			NextHop: d.NH.ip(), Source: d.Src.ip(), LocalPref: d.LP, MED: d.MED, BGPIdentifier: d.BGPID,
			OriginatorID: d.OrigID, EBGP: d.EBGP, Origin: uint8(d.Origin), AtomicAggregate: e.Atomic == 1,
		},
		ASPath:         asp,
		ASPathLen:      alen,
		PathIdentifier: d.PathID,
	}
	if e.Aggr > 0 {
		b.BGPPathA.Aggregator = &types.Aggregator{Address: 0x0a000000 + e.Aggr, ASN: uint16(64500 + e.Aggr)}
	}
	if d.Ign&1 != 0 {
		b.BGPPathA.OnlyToCustomer = 7
	}
	if d.Ign&2 != 0 {
		b.BMPPostPolicy = true
	}
	if !d.CLNil {
		cl := make(types.ClusterList, len(d.CL))
		copy(cl, d.CL)
		b.ClusterList = &cl
	}
	switch e.Comm {
	case 1:
		b.Communities = &types.Communities{65000<<16 | 1}
	case 2:
		b.Communities = &types.Communities{}
	}
	if e.LComm == 1 {
		b.LargeCommunities = &types.LargeCommunities{{GlobalAdministrator: 65000, DataPart1: 1, DataPart2: 2}}
	}
	if e.Unk == 1 {
		b.UnknownAttributes = []types.UnknownPathAttribute{{Optional: true, Transitive: true, TypeCode: 200, Value: []byte{1, 2}}}
	}
	return d.decorate(&route.Path{Type: route.BGPPathType, BGPPath: b})
}

// ---------------------------------------------------------------- oracle (RFC 4271 9.1.2.2, RFC 4456 9)

func cmpU(a, b uint64) int {
	if a < b {
		return -1
	}
	if a > b {
		return 1
	}
	return 0
}

func cmpIP(a, b IPD) int {
	if c := cmpU(a.Hi, b.Hi); c != 0 {
		return c
	}
	return cmpU(a.Lo, b.Lo)
}

func (d PD) effID() uint32 {
	if d.OrigID != 0 {
		return d.OrigID
	}
	return d.BGPID
}

// clLen: a route without CLUSTER_LIST has CLUSTER_LIST length zero
func (d PD) clLen() int {
	if d.CLNil {
		return 0
	}
	return len(d.CL)
}

// Step names, in decision order. The last two are not in the RFCs.
const (
	StLocalPref = "local-pref"
	StASPath    = "as-path-length"
	StOrigin    = "origin"
	StMED       = "med"
	StEBGP      = "ebgp-over-ibgp"
	StID        = "bgp-identifier"
	StCL        = "cluster-list-length"
	StPeer      = "peer-address"
	StNextHop   = "next-hop"
	StTie       = "tie"
	StProto     = "protocol"
)

// RFCCmp: +1 if a is to be preferred over b, -1 if b over a, 0 if the decision process cannot tell them
// apart; and the step that decided. Only defined for two BGP descriptions.
func RFCCmp(a, b PD) (int, string) {
	// highest LOCAL_PREF
	if c := cmpU(uint64(a.LP), uint64(b.LP)); c != 0 {
		return c, StLocalPref
	}
	// a) shortest AS_PATH
	if c := cmpU(uint64(a.ASLen), uint64(b.ASLen)); c != 0 {
		return -c, StASPath
	}
	// b) lowest ORIGIN
	if c := cmpU(uint64(a.Origin), uint64(b.Origin)); c != 0 {
		return -c, StOrigin
	}
	// c) lowest MED (always compared)
	if c := cmpU(uint64(a.MED), uint64(b.MED)); c != 0 {
		return -c, StMED
	}
	// d) eBGP over iBGP
	if a.EBGP != b.EBGP {
		if a.EBGP {
			return 1, StEBGP
		}
		return -1, StEBGP
	}
	// f) lowest BGP identifier, ORIGINATOR_ID in its place when present
	if c := cmpU(uint64(a.effID()), uint64(b.effID())); c != 0 {
		return -c, StID
	}
	// RFC 4456: shorter CLUSTER_LIST
	if c := cmpU(uint64(a.clLen()), uint64(b.clLen())); c != 0 {
		return -c, StCL
	}
	// g) lowest peer address
	if c := cmpIP(a.Src, b.Src); c != 0 {
		return -c, StPeer
	}
	// beyond the RFCs (implementation's choice, not demanded by C03): next hop
	if c := cmpIP(a.NH, b.NH); c != 0 {
		return c, StNextHop
	}
	return 0, StTie
}

// Indistinguishable: the decision process has nothing to tell a and b apart (all attributes it reads agree).
func Indistinguishable(a, b PD) bool {
	if a.Kind != b.Kind {
		return false
	}
	if a.Kind == 's' {
		return cmpIP(a.NH, b.NH) == 0
	}
	return a.LP == b.LP && a.ASLen == b.ASLen && a.Origin == b.Origin && a.MED == b.MED && a.EBGP == b.EBGP &&
		a.effID() == b.effID() && a.clLen() == b.clLen() && cmpIP(a.Src, b.Src) == 0 && cmpIP(a.NH, b.NH) == 0
}

// KeyString: canonical text of the attributes the decision process reads (for multisets of keys).
func (d PD) KeyString() string {
	if d.Kind == 's' {
		return fmt.Sprintf("s/%d:%d", d.NH.Hi, d.NH.Lo)
	}
	return fmt.Sprintf("b/%d/%d/%d/%d/%d/%d/%d/%d:%d/%d:%d", d.LP, d.ASLen, d.Origin, d.MED, b2i(d.EBGP), d.effID(), d.clLen(),
		d.Src.Hi, d.Src.Lo, d.NH.Hi, d.NH.Lo)
}

// EqualCost: same protocol and, for BGP, same LOCAL_PREF, AS_PATH length, ORIGIN and MED.
func EqualCost(a, b PD) bool {
	if a.Kind != b.Kind {
		return false
	}
	if a.Kind == 's' {
		return true
	}
	return a.LP == b.LP && a.ASLen == b.ASLen && a.Origin == b.Origin && a.MED == b.MED
}

// CmpToken: canonical text of everything Compare() reads (the IPv4/IPv6 form of an address is not read)
func (d PD) CmpToken() string {
	d.Src.Legacy, d.NH.Legacy, d.Ign = false, false, 0
	return d.Token()
}

func (d PD) wf() bool { return d.Kind == 'b' || d.Kind == 's' }

func clMix(ds ...PD) bool {
	n, s := false, false
	for _, d := range ds {
		if d.Kind == 'b' {
			if d.CLNil {
				n = true
			} else {
				s = true
			}
		}
	}
	return n && s
}

func protoMix(ds ...PD) bool {
	b, s := false, false
	for _, d := range ds {
		if d.Kind == 'b' {
			b = true
		}
		if d.Kind == 's' {
			s = true
		}
	}
	return b && s
}

// ---------------------------------------------------------------- observation helpers

func selTok(p, q *route.Path) (string, int) {
	var r int8
	pan, _ := hx.Guard(func() { r = p.Select(q) })
	if pan {
		return "P", 99
	}
	return strconv.Itoa(int(r)), int(r)
}

func boolTok(f func() bool) string {
	var r bool
	pan, _ := hx.Guard(func() { r = f() })
	if pan {
		return "P"
	}
	return strconv.Itoa(b2i(r))
}

// Runner evaluates cases; Prop selects which property's statement the oracle applies ("C02" or "C03").
type Runner struct {
	Prop  string
	Tr    *hx.Trace
	NViol int
}

func (r *Runner) viol(id, sig, detail string) {
	hx.Violation(id, sig, detail)
	r.NViol++
}

// lateStep: the pair is still tied after the eBGP step (so steps f, g decide)
func lateStep(a, b PD) bool {
	if a.Kind != 'b' || b.Kind != 'b' {
		return false
	}
	_, st := RFCCmp(a, b)
	return st == StID || st == StCL || st == StPeer || st == StNextHop || st == StTie
}

// ---- P
func (r *Runner) Pair(id string, a, b PD) {
	pa, pb := a.Path(), b.Path()
	s1, z1 := selTok(pa, pb)
	s2, z2 := selTok(pb, pa)
	ec := boolTok(func() bool { return pa.ECMP(pb) })
	cm := boolTok(func() bool { return pa.Compare(pb) })
	eq := boolTok(func() bool { return pa.Equal(pb) })
	obs := fmt.Sprintf("sel=%s rev=%s ecmp=%s cmp=%s eq=%s", s1, s2, ec, cm, eq)
	nt := lateStep(a, b) || protoMix(a, b)
	r.Tr.Case(id, nt, "P "+a.Token()+" "+b.Token(), obs)
	if !a.wf() || !b.wf() {
		r.Tr.Count("pair_malformed")
		return
	}
	if a.Kind == 'b' && b.Kind == 'b' {
		_, st := RFCCmp(a, b)
		r.Tr.Count("pair_bgp_decided_by_" + st)
	} else {
		r.Tr.Count("pair_with_static")
	}
	switch r.Prop {
	case "C03":
		if a.Kind == 'b' && b.Kind == 'b' {
			want, st := RFCCmp(a, b)
			if st == StNextHop || st == StTie {
				return // nothing demanded by RFC 4271 / RFC 4456 / the property text
			}
			if z1 != want {
				r.viol(id, "select-step-"+st, fmt.Sprintf("Select(%s, %s) = %s, RFC order says %d (decided by %s)", a.Token(), b.Token(), s1, want, st))
			} else if z2 != -want {
				r.viol(id, "select-step-"+st, fmt.Sprintf("Select(%s, %s) = %s, RFC order says %d (decided by %s)", b.Token(), a.Token(), s2, -want, st))
			}
		}
	case "C02":
		if s1 == "P" || s2 == "P" {
			r.viol(id, "select-panics", fmt.Sprintf("Select panics on %s %s", a.Token(), b.Token()))
			return
		}
		if z1 != -z2 {
			r.viol(id, "select-not-antisymmetric", fmt.Sprintf("Select(a,b)=%d Select(b,a)=%d for %s %s", z1, z2, a.Token(), b.Token()))
		}
		if (z1 == 0) != Indistinguishable(a, b) {
			sig := "tie-between-distinguishable-paths"
			if z1 != 0 {
				sig = "indistinguishable-paths-not-tied"
			} else if clMix(a, b) {
				sig += "-clusterlist-absent-vs-present"
			}
			r.viol(id, sig, fmt.Sprintf("Select(%s, %s) = %d", a.Token(), b.Token(), z1))
		}
		if ec == "P" {
			sig := "ecmp-panics"
			if protoMix(a, b) {
				sig = "ecmp-panics-bgp-next-to-static"
			}
			r.viol(id, sig, fmt.Sprintf("ECMP(%s, %s) panics", a.Token(), b.Token()))
		}
	}
}

// ---- T
func (r *Runner) Triple(id string, a, b, c PD) {
	ds := []PD{a, b, c}
	ps := []*route.Path{a.Path(), b.Path(), c.Path()}
	idx := [][2]int{{0, 1}, {1, 0}, {1, 2}, {2, 1}, {0, 2}, {2, 0}}
	var toks []string
	z := map[[2]int]int{}
	pan := false
	for _, ij := range idx {
		t, v := selTok(ps[ij[0]], ps[ij[1]])
		toks = append(toks, t)
		z[ij] = v
		if t == "P" {
			pan = true
		}
	}
	late := 0
	if lateStep(a, b) {
		late++
	}
	if lateStep(b, c) {
		late++
	}
	if lateStep(a, c) {
		late++
	}
	r.Tr.Case(id, late >= 2 || protoMix(ds...), "T "+a.Token()+" "+b.Token()+" "+c.Token(), strings.Join(toks, ","))
	if clMix(ds...) {
		r.Tr.Count("triple_clusterlist_absent_and_present")
	} else {
		r.Tr.Count("triple_other")
	}
	if r.Prop != "C02" || !a.wf() || !b.wf() || !c.wf() {
		return
	}
	if pan {
		r.viol(id, "select-panics", "Select panics in triple "+a.Token()+" "+b.Token()+" "+c.Token())
		return
	}
	// transitivity of "at least as good as" over every arrangement of the three
	perms := [][3]int{{0, 1, 2}, {0, 2, 1}, {1, 0, 2}, {1, 2, 0}, {2, 0, 1}, {2, 1, 0}}
	for _, p := range perms {
		x, y, w := p[0], p[1], p[2]
		if z[[2]int{x, y}] >= 0 && z[[2]int{y, w}] >= 0 && z[[2]int{x, w}] < 0 {
			sig := "preference-not-transitive"
			if clMix(ds...) {
				sig = "preference-cycle-clusterlist-absent-vs-present"
			}
			r.viol(id, sig, fmt.Sprintf("%s >= %s >= %s but Select(first, last) = %d", ds[x].Token(), ds[y].Token(), ds[w].Token(), z[[2]int{x, w}]))
			return
		}
		if z[[2]int{x, y}] > 0 && z[[2]int{y, w}] > 0 && z[[2]int{x, w}] <= 0 {
			sig := "preference-not-transitive"
			if clMix(ds...) {
				sig = "preference-cycle-clusterlist-absent-vs-present"
			}
			r.viol(id, sig, fmt.Sprintf("%s > %s > %s but Select(first, last) = %d", ds[x].Token(), ds[y].Token(), ds[w].Token(), z[[2]int{x, w}]))
			return
		}
	}
}

// ---- G
type Op struct {
	Add bool
	I   int
}

func (o Op) String() string {
	if o.Add {
		return fmt.Sprintf("+%d", o.I)
	}
	return fmt.Sprintf("-%d", o.I)
}

func GroupInput(paths []PD, hists [][]Op) string {
	var b []string
	b = append(b, "G")
	for _, p := range paths {
		b = append(b, p.Token())
	}
	b = append(b, "|")
	for i, h := range hists {
		if i > 0 {
			b = append(b, ";")
		}
		for _, o := range h {
			b = append(b, o.String())
		}
	}
	return strings.Join(b, " ")
}

type state struct {
	idx  []int // Paths() as indices into the path table
	ecmp int
}

// Group runs every history on a fresh LocRIB.
func (r *Runner) Group(id string, paths []PD, hists [][]Op) {
	pfx := bnet.NewPfx(bnet.IPv4FromOctets(10, 0, 0, 0), 8).Ptr()
	var obs []string
	type final struct {
		bag  string
		st   state
		ok   bool
		hist int
	}
	var finals []final
	type pend struct{ sig, detail string }
	var pending []pend
	addV := func(sig, detail string) {
		for _, p := range pending {
			if p.sig == sig {
				return
			}
		}
		pending = append(pending, pend{sig, detail})
	}
	ecmpCands := false
	for hi, h := range hists {
		if hi > 0 {
			obs = append(obs, ";")
		}
		rib := locRIB.New("c02")
		owner := map[*route.Path]int{}
		bag := map[int]int{}
		var st state
		ok := true
		for oi, o := range h {
			panicked, val := hx.Guard(func() {
				if o.Add {
					p := paths[o.I].Path()
					owner[p] = o.I
					rib.AddPath(pfx, p)
				} else {
					rib.RemovePath(pfx, paths[o.I].Path())
				}
			})
			if panicked {
				obs = append(obs, "PANIC")
				sig := "locrib-panics"
				if protoMix(paths...) {
					sig = "locrib-panics-bgp-next-to-static"
				}
				addV(sig, fmt.Sprintf("history %d op %d (%s): %v", hi, oi, o, val))
				ok = false
				break
			}
			if o.Add {
				bag[o.I]++
			} else {
				// RemovePath removes one path that Compare()s equal: same description
				for j := range paths {
					if bag[j] > 0 && paths[j].CmpToken() == paths[o.I].CmpToken() {
						bag[j]--
						break
					}
				}
			}
			st = state{}
			rt := rib.Get(pfx)
			if rt != nil {
				ps := rt.Paths()
				for _, p := range ps {
					i, known := owner[p]
					if !known {
						i = -1
					}
					st.idx = append(st.idx, i)
				}
				st.ecmp = int(rt.ECMPPathCount())
				// accessors agree with the list
				if len(ps) > 0 {
					if rt.BestPath() != ps[0] {
						addV("route-accessors-inconsistent", "BestPath() is not Paths()[0]")
					}
					ep := rt.ECMPPaths()
					if len(ep) != st.ecmp || st.ecmp > len(ps) {
						addV("route-accessors-inconsistent", "ECMPPaths() length differs from ECMPPathCount()")
					} else {
						for k := range ep {
							if ep[k] != ps[k] {
								addV("route-accessors-inconsistent", "ECMPPaths() is not a prefix of Paths()")
							}
						}
					}
				}
			}
			var s []string
			for _, i := range st.idx {
				s = append(s, strconv.Itoa(i))
			}
			l := "-"
			if len(s) > 0 {
				l = strings.Join(s, ",")
			}
			obs = append(obs, fmt.Sprintf("%s/%d", l, st.ecmp))

			// the list holds exactly the remaining candidates (multiset of descriptions)
			want := map[string]int{}
			for j, n := range bag {
				if n > 0 {
					want[paths[j].CmpToken()] += n
				}
			}
			got := map[string]int{}
			for _, i := range st.idx {
				if i >= 0 {
					got[paths[i].CmpToken()]++
				} else {
					got["?"]++
				}
			}
			if fmt.Sprint(want) != fmt.Sprint(got) {
				addV("locrib-holds-wrong-candidates", fmt.Sprintf("history %d after op %d: have %v want %v", hi, oi, got, want))
			}
			if r.Prop == "C03" && len(st.idx) > 0 && st.idx[0] >= 0 {
				// the best path is one the RFC order puts first
				bi := st.idx[0]
				for _, j := range st.idx[1:] {
					if j >= 0 && paths[bi].Kind == 'b' && paths[j].Kind == 'b' {
						if c, stp := RFCCmp(paths[j], paths[bi]); c > 0 && stp != StNextHop {
							addV("locrib-best-path-step-"+stp, fmt.Sprintf("history %d after op %d: best path %s although %s is preferred (%s)", hi, oi, paths[bi].Token(), paths[j].Token(), stp))
						}
					}
				}
			}
		}
		var keys []string
		for j, n := range bag {
			for k := 0; k < n; k++ {
				keys = append(keys, paths[j].KeyString())
			}
		}
		sort.Strings(keys)
		finals = append(finals, final{bag: strings.Join(keys, " "), st: st, ok: ok, hist: hi})
	}
	// order independence: histories that leave the same multiset of candidates (up to what the decision
	// process can distinguish) must end with the same key list, best path key and ECMP key multiset
	if r.Prop == "C02" {
		keyList := func(s state) []string {
			var k []string
			for _, i := range s.idx {
				if i >= 0 {
					k = append(k, paths[i].KeyString())
				} else {
					k = append(k, "?")
				}
			}
			return k
		}
		for i := 0; i < len(finals); i++ {
			if !finals[i].ok {
				continue
			}
			for j := i + 1; j < len(finals); j++ {
				if !finals[j].ok || finals[i].bag != finals[j].bag {
					continue
				}
				ki, kj := keyList(finals[i].st), keyList(finals[j].st)
				cls := ""
				if clMix(paths...) {
					cls = "-clusterlist-absent-vs-present"
				}
				if len(ki) > 0 && len(kj) > 0 && ki[0] != kj[0] {
					addV("best-path-depends-on-arrival-order"+cls, fmt.Sprintf("histories %d and %d end with best %s vs %s", finals[i].hist, finals[j].hist, ki[0], kj[0]))
				} else if strings.Join(ki, " ") != strings.Join(kj, " ") {
					addV("path-order-depends-on-arrival-order"+cls, fmt.Sprintf("histories %d and %d end with %v vs %v", finals[i].hist, finals[j].hist, ki, kj))
				}
				ei, ej := append([]string{}, ki[:min(finals[i].st.ecmp, len(ki))]...), append([]string{}, kj[:min(finals[j].st.ecmp, len(kj))]...)
				sort.Strings(ei)
				sort.Strings(ej)
				if strings.Join(ei, " ") != strings.Join(ej, " ") {
					addV("ecmp-set-depends-on-arrival-order"+cls, fmt.Sprintf("histories %d and %d end with ECMP sets %v vs %v", finals[i].hist, finals[j].hist, ei, ej))
				}
			}
		}
		// the ECMP set is the set of candidates that are equal-cost with the best one
		for _, f := range finals {
			if !f.ok || len(f.st.idx) == 0 || f.st.idx[0] < 0 {
				continue
			}
			n := 0
			for _, i := range f.st.idx {
				if i >= 0 && EqualCost(paths[f.st.idx[0]], paths[i]) {
					n++
				}
			}
			if n > 1 {
				ecmpCands = true
			}
			if n != f.st.ecmp {
				addV("ecmp-set-is-not-the-equal-cost-candidates", fmt.Sprintf("history %d: %d candidates are equal-cost with the best path, ECMPPathCount = %d", f.hist, n, f.st.ecmp))
			}
		}
	}
	r.Tr.Case(id, ecmpCands || protoMix(paths...) || clMix(paths...), GroupInput(paths, hists), strings.Join(obs, " "))
	for _, p := range pending {
		r.viol(id, p.sig, p.detail)
	}
}

func min(a, b int) int {
	if a < b {
		return a
	}
	return b
}

// ---------------------------------------------------------------- replaying a recorded input

func (r *Runner) RunInput(id, in string) error {
	f := strings.Fields(in)
	if len(f) == 0 {
		return fmt.Errorf("empty input")
	}
	switch f[0] {
	case "P":
		if len(f) != 3 {
			return fmt.Errorf("P needs two paths")
		}
		a, e1 := ParsePD(f[1])
		b, e2 := ParsePD(f[2])
		if e1 != nil || e2 != nil {
			return fmt.Errorf("bad path in %q", in)
		}
		r.Pair(id, a, b)
	case "T":
		if len(f) != 4 {
			return fmt.Errorf("T needs three paths")
		}
		var ds []PD
		for _, t := range f[1:] {
			d, e := ParsePD(t)
			if e != nil {
				return e
			}
			ds = append(ds, d)
		}
		r.Triple(id, ds[0], ds[1], ds[2])
	case "G":
		var paths []PD
		i := 1
		for ; i < len(f) && f[i] != "|"; i++ {
			d, e := ParsePD(f[i])
			if e != nil {
				return e
			}
			if !d.wf() {
				return fmt.Errorf("malformed path in a history")
			}
			paths = append(paths, d)
		}
		hists := [][]Op{{}}
		for i++; i < len(f); i++ {
			if f[i] == ";" {
				hists = append(hists, []Op{})
				continue
			}
			if len(f[i]) < 2 || (f[i][0] != '+' && f[i][0] != '-') {
				return fmt.Errorf("bad op %q", f[i])
			}
			n, e := strconv.Atoi(f[i][1:])
			if e != nil || n < 0 || n >= len(paths) {
				return fmt.Errorf("bad op %q", f[i])
			}
			hists[len(hists)-1] = append(hists[len(hists)-1], Op{Add: f[i][0] == '+', I: n})
		}
		r.Group(id, paths, hists)
	default:
		return fmt.Errorf("unknown case kind %q", f[0])
	}
	return nil
}
