// C21 harness: byte streams (valid conversations with mutations, raw headers from the whole
// length/type/marker space, truncated headers, undecodable bodies) are delivered to sessions in
// OpenSent, OpenConfirm and Established; a deterministic sweep covers the header lengths around all
// boundaries in the quick tier and every 16-bit length in the thorough tier.
package main

import (
	"fmt"

	"verifharness/fsmx"
	"verifharness/hx"
)

const base = "s65001/65002/10/90/46/0000/0/00/0.0/A/i"
const open = "0.m:O,4,65002,90,7,a65002+m1.1+m2.1"

func prefixFor(state int) string {
	switch state {
	case 0:
		return base + " 0.e1 0.up"
	case 1:
		return base + " 0.e1 0.up " + open
	}
	return base + " 0.e1 0.up " + open + " 0.m:K 0.m:U,1,-"
}

func sweep(cfg *hx.Cfg, do func(id string, c fsmx.Case)) {
	var lens []int
	if cfg.Tier == "thorough" {
		for l := 0; l < 65536; l++ {
			lens = append(lens, l)
		}
	} else {
		for l := 0; l <= 64; l++ {
			lens = append(lens, l)
		}
		for l := 4080; l <= 4110; l++ {
			lens = append(lens, l)
		}
		for _, l := range []int{255, 256, 4095, 8192, 32767, 32768, 65534, 65535} {
			lens = append(lens, l)
		}
	}
	for _, l := range lens {
		st := l % 3
		typ := []int{4, 2, 1, 3}[(l/3)%4]
		if cfg.Tier != "thorough" {
			// quick: every state for every length of the small set, two types
			for st = 0; st < 3; st++ {
				for _, typ = range []int{4, 2} {
					one(do, st, l, typ)
				}
			}
			continue
		}
		one(do, st, l, typ)
	}
}

func one(do func(id string, c fsmx.Case), st, l, typ int) {
	avail := l - 19
	if avail < 0 {
		avail = 0
	}
	if avail > 4200 {
		avail = 4200
	}
	if typ == 2 && l > 23 && l <= 4096 {
		typ = 4 // raw UPDATE bodies belong to the codec properties
	}
	in := fmt.Sprintf("%s 0.m:H,1,%d,%d,%d 0.e1", prefixFor(st), l, typ, avail)
	c, err := fsmx.ParseCase(in)
	if err != nil {
		fmt.Println("HARNESS-ERROR sweep case:", err)
		return
	}
	do(fmt.Sprintf("len%d-t%d-s%d", l, typ, st), c)
}

func main() {
	fsmx.Main(fsmx.Property{
		Name:   "c21",
		Oracle: fsmx.OracleC21,
		NonTriv: func(c fsmx.Case, obs []fsmx.StepObs) bool {
			// a malformed transmission reaches a session in OpenSent/OpenConfirm/Established
			prev := byte(0)
			for i, o := range obs {
				e := c.Evs[i]
				if e.Kind == "m" && (prev == 'S' || prev == 'F' || prev == 'E') && e.Sid == 0 {
					switch e.M.Kind {
					case 'H', 'B', 'T':
						return true
					case 'O':
						if e.M.Ver != 4 || e.M.ID == 0 || e.M.Hold == 1 || e.M.Hold == 2 {
							return true
						}
					}
				}
				if e.Sid == 0 {
					prev = o.State
				}
			}
			return false
		},
		Gen: func(r *hx.RNG, tr *hx.Trace) fsmx.Case { return fsmx.GenCase(r, "c21", tr) },
		Extra: func(cfg *hx.Cfg, do func(id string, c fsmx.Case)) {
			sweep(cfg, do)
			fsmx.ExitProduct(do, "SFE", true)
			// second and third connections of one FSM, through the speaker's real receiver goroutine
			fsmx.ReconnectProduct(do)
			// well-formed UPDATEs carrying optional attributes a conforming peer may send, on 2- and 4-octet AS sessions
			for _, sess := range []string{"s65001/65002/10/90/46/0000/0/00/0.0/A/i", "s65001/65001/10/90/4/0000/0/00/0.0/R/i"} {
				pas := "65002"
				if sess[7:12] == "65001" {
					pas = "65001"
				}
				for _, caps := range []string{"a" + pas + "+m2.1", "m2.1", "-"} {
					for _, v := range []string{"as4path", "as4path0", "as4aggr", "unk", "unknt"} {
						in := fmt.Sprintf("%s 0.e1 0.up 0.m:O,4,%s,90,7,%s 0.m:K 0.m:A,1,%s 0.m:U,2,- 0.m:K", sess, pas, caps, v)
						c, err := fsmx.ParseCase(in)
						if err != nil {
							fmt.Println("HARNESS-ERROR attribute case:", err)
							return
						}
						do(fmt.Sprintf("attr-%s-%s-%s", pas, caps, v), c)
					}
				}
			}
		},
	})
}
