// C36 harness: configuration reload vs fresh start.
//
// The code under test lives in package main of cmd/bio-rd, so the harness builds the bio-rd
// binary of $VERIF_REPO with -tags verif and drives its hidden replay mode
// (cmd/bio-rd/verif_hooks_c36.go, BIORD_VERIF_C36=<script>): every configuration is rendered as a
// YAML file, loaded with config.GetConfig and applied with loadConfig to the real BGP server.
//
// Input tokens (one case = a daemon life):   cfg <k=v>* (grp <k=v>* (nb <k=v>*)*)* cfg ...
//   cfg level:  as= rid= pol=<name>:<content> ri=<name>:<rd> nobgp isis
//   grp / nb :  loc=<4|6>.<id> ttl= auth= pas= las= hold= imp=a,b exp=a,b rsc= rrc= pasv= cl=
//               v4=<af> v6=<af> ri=<name>      nb only: addr=<4|6>.<id> dis=1 mp4=1
//   <af> = n<nhx>[a<recv>[s<multipath>.<count>]]
// Observation: for every step "#<i> <status> R<restarted sessions> Z<FSMs outliving their removed
// peer> <peer line> ; <peer line> ..." and finally
// "#F ..." for a fresh start with the last configuration.
package main

import (
	"bufio"
	"bytes"
	"flag"
	"fmt"
	"os"
	"os/exec"
	"path/filepath"
	"regexp"
	"sort"
	"strconv"
	"strings"
	"sync"

	"verifharness/hx"
)

// ---------------------------------------------------------------- configuration AST

type addr struct {
	v4 bool
	id int
}

type apsend struct {
	multipath bool
	count     int
}
type addpath struct {
	recv bool
	send *apsend
}
type afconf struct {
	addpath *addpath
	nhx     bool
}

// settings shared by groups and neighbors (0 / nil / empty = not set)
type common struct {
	local   *addr
	ttl     int
	auth    int
	pas     int
	las     int
	hold    int
	imp     []int
	exp     []int
	rsc     *bool
	rrc     *bool
	passive *bool
	cluster *int
	v4      *afconf
	v6      *afconf
	ri      int
}

type neighbor struct {
	common
	addr     addr
	disabled bool
	mp4      bool
}

type group struct {
	common
	nbrs []*neighbor
}

type policy struct{ name, content int }
type rinst struct{ name, rd int }

type config struct {
	as     int
	rid    int
	pols   []policy
	ris    []rinst
	nobgp  bool
	isis   bool // an isis section (one NET, no interfaces)
	groups []*group
}

// ---------------------------------------------------------------- tokens

func (a addr) tok() string {
	if a.v4 {
		return fmt.Sprintf("4.%d", a.id)
	}
	return fmt.Sprintf("6.%d", a.id)
}

func b01(b bool) string {
	if b {
		return "1"
	}
	return "0"
}

func (f *afconf) tok() string {
	s := "n" + b01(f.nhx)
	if f.addpath != nil {
		s += "a" + b01(f.addpath.recv)
		if f.addpath.send != nil {
			s += fmt.Sprintf("s%s.%d", b01(f.addpath.send.multipath), f.addpath.send.count)
		}
	}
	return s
}

func ints(xs []int) string {
	p := make([]string, len(xs))
	for i, x := range xs {
		p[i] = strconv.Itoa(x)
	}
	return strings.Join(p, ",")
}

func (c *common) toks() []string {
	var t []string
	if c.local != nil {
		t = append(t, "loc="+c.local.tok())
	}
	if c.ttl != 0 {
		t = append(t, fmt.Sprintf("ttl=%d", c.ttl))
	}
	if c.auth != 0 {
		t = append(t, fmt.Sprintf("auth=%d", c.auth))
	}
	if c.pas != 0 {
		t = append(t, fmt.Sprintf("pas=%d", c.pas))
	}
	if c.las != 0 {
		t = append(t, fmt.Sprintf("las=%d", c.las))
	}
	if c.hold != 0 {
		t = append(t, fmt.Sprintf("hold=%d", c.hold))
	}
	if len(c.imp) > 0 {
		t = append(t, "imp="+ints(c.imp))
	}
	if len(c.exp) > 0 {
		t = append(t, "exp="+ints(c.exp))
	}
	if c.rsc != nil {
		t = append(t, "rsc="+b01(*c.rsc))
	}
	if c.rrc != nil {
		t = append(t, "rrc="+b01(*c.rrc))
	}
	if c.passive != nil {
		t = append(t, "pasv="+b01(*c.passive))
	}
	if c.cluster != nil {
		t = append(t, fmt.Sprintf("cl=%d", *c.cluster))
	}
	if c.v4 != nil {
		t = append(t, "v4="+c.v4.tok())
	}
	if c.v6 != nil {
		t = append(t, "v6="+c.v6.tok())
	}
	if c.ri != 0 {
		t = append(t, fmt.Sprintf("ri=%d", c.ri))
	}
	return t
}

func (c *config) toks() []string {
	t := []string{"cfg", fmt.Sprintf("as=%d", c.as), fmt.Sprintf("rid=%d", c.rid)}
	for _, p := range c.pols {
		t = append(t, fmt.Sprintf("pol=%d:%d", p.name, p.content))
	}
	for _, r := range c.ris {
		t = append(t, fmt.Sprintf("ri=%d:%d", r.name, r.rd))
	}
	if c.isis {
		t = append(t, "isis")
	}
	if c.nobgp {
		t = append(t, "nobgp")
		return t
	}
	for _, g := range c.groups {
		t = append(t, "grp")
		t = append(t, g.toks()...)
		for _, n := range g.nbrs {
			t = append(t, "nb", "addr="+n.addr.tok())
			t = append(t, n.toks()...)
			if n.disabled {
				t = append(t, "dis=1")
			}
			if n.mp4 {
				t = append(t, "mp4=1")
			}
		}
	}
	return t
}

func seqToks(cs []*config) string {
	var t []string
	for _, c := range cs {
		t = append(t, c.toks()...)
	}
	return strings.Join(t, " ")
}

func parseAddr(s string) (*addr, error) {
	p := strings.SplitN(s, ".", 2)
	if len(p) != 2 || (p[0] != "4" && p[0] != "6") {
		return nil, fmt.Errorf("bad address %q", s)
	}
	id, err := strconv.Atoi(p[1])
	if err != nil {
		return nil, err
	}
	return &addr{v4: p[0] == "4", id: id}, nil
}

func parseAF(s string) (*afconf, error) {
	if len(s) < 2 || s[0] != 'n' {
		return nil, fmt.Errorf("bad af %q", s)
	}
	f := &afconf{nhx: s[1] == '1'}
	s = s[2:]
	if s == "" {
		return f, nil
	}
	if len(s) < 2 || s[0] != 'a' {
		return nil, fmt.Errorf("bad af addpath %q", s)
	}
	f.addpath = &addpath{recv: s[1] == '1'}
	s = s[2:]
	if s == "" {
		return f, nil
	}
	if len(s) < 4 || s[0] != 's' || s[2] != '.' {
		return nil, fmt.Errorf("bad af send %q", s)
	}
	n, err := strconv.Atoi(s[3:])
	if err != nil {
		return nil, err
	}
	f.addpath.send = &apsend{multipath: s[1] == '1', count: n}
	return f, nil
}

func parseInts(s string) ([]int, error) {
	var out []int
	for _, p := range strings.Split(s, ",") {
		n, err := strconv.Atoi(p)
		if err != nil {
			return nil, err
		}
		out = append(out, n)
	}
	return out, nil
}

func bp(s string) *bool { b := s == "1"; return &b }

func (c *common) set(k, v string) (bool, error) {
	var err error
	switch k {
	case "loc":
		c.local, err = parseAddr(v)
	case "ttl":
		c.ttl, err = strconv.Atoi(v)
	case "auth":
		c.auth, err = strconv.Atoi(v)
	case "pas":
		c.pas, err = strconv.Atoi(v)
	case "las":
		c.las, err = strconv.Atoi(v)
	case "hold":
		c.hold, err = strconv.Atoi(v)
	case "imp":
		c.imp, err = parseInts(v)
	case "exp":
		c.exp, err = parseInts(v)
	case "rsc":
		c.rsc = bp(v)
	case "rrc":
		c.rrc = bp(v)
	case "pasv":
		c.passive = bp(v)
	case "cl":
		var n int
		n, err = strconv.Atoi(v)
		c.cluster = &n
	case "v4":
		c.v4, err = parseAF(v)
	case "v6":
		c.v6, err = parseAF(v)
	case "ri":
		c.ri, err = strconv.Atoi(v)
	default:
		return false, nil
	}
	return true, err
}

func parseSeq(in string) ([]*config, error) {
	var cs []*config
	var cur *config
	var g *group
	var n *neighbor
	for _, t := range strings.Fields(in) {
		switch t {
		case "cfg":
			cur = &config{}
			cs = append(cs, cur)
			g, n = nil, nil
			continue
		case "nobgp":
			if cur == nil {
				return nil, fmt.Errorf("nobgp outside cfg")
			}
			cur.nobgp = true
			continue
		case "isis":
			if cur == nil {
				return nil, fmt.Errorf("isis outside cfg")
			}
			cur.isis = true
			continue
		case "grp":
			if cur == nil {
				return nil, fmt.Errorf("grp outside cfg")
			}
			g = &group{}
			cur.groups = append(cur.groups, g)
			n = nil
			continue
		case "nb":
			if g == nil {
				return nil, fmt.Errorf("nb outside grp")
			}
			n = &neighbor{}
			g.nbrs = append(g.nbrs, n)
			continue
		}
		kv := strings.SplitN(t, "=", 2)
		if len(kv) != 2 || cur == nil {
			return nil, fmt.Errorf("bad token %q", t)
		}
		k, v := kv[0], kv[1]
		var err error
		switch {
		case n != nil:
			switch k {
			case "addr":
				var a *addr
				a, err = parseAddr(v)
				if a != nil {
					n.addr = *a
				}
			case "dis":
				n.disabled = v == "1"
			case "mp4":
				n.mp4 = v == "1"
			default:
				var ok bool
				ok, err = n.set(k, v)
				if !ok {
					err = fmt.Errorf("bad neighbor key %q", k)
				}
			}
		case g != nil:
			var ok bool
			ok, err = g.set(k, v)
			if !ok {
				err = fmt.Errorf("bad group key %q", k)
			}
		default:
			switch k {
			case "as":
				cur.as, err = strconv.Atoi(v)
			case "rid":
				cur.rid, err = strconv.Atoi(v)
			case "pol", "ri":
				p := strings.SplitN(v, ":", 2)
				if len(p) != 2 {
					err = fmt.Errorf("bad %s %q", k, v)
					break
				}
				var a, b int
				a, err = strconv.Atoi(p[0])
				if err == nil {
					b, err = strconv.Atoi(p[1])
				}
				if k == "pol" {
					cur.pols = append(cur.pols, policy{a, b})
				} else {
					cur.ris = append(cur.ris, rinst{a, b})
				}
			default:
				err = fmt.Errorf("bad cfg key %q", k)
			}
		}
		if err != nil {
			return nil, err
		}
	}
	if len(cs) == 0 {
		return nil, fmt.Errorf("no configuration")
	}
	return cs, nil
}

// ---------------------------------------------------------------- YAML

func (a addr) ip() string {
	if a.v4 {
		return fmt.Sprintf("192.0.2.%d", a.id)
	}
	return fmt.Sprintf("2001:db8::%x", a.id)
}

func ridIP(r int) string { return fmt.Sprintf("0.0.%d.%d", (r>>8)&255, r&255) }

func polName(n int) string { return fmt.Sprintf("P%d", n) }
func riName(n int) string  { return fmt.Sprintf("ri%d", n) }

func yamlAF(b *bytes.Buffer, ind, name string, f *afconf) {
	if f == nil {
		return
	}
	fmt.Fprintf(b, "%s%s:\n", ind, name)
	fmt.Fprintf(b, "%s  next_hop_extended: %v\n", ind, f.nhx)
	if f.addpath != nil {
		fmt.Fprintf(b, "%s  add_path:\n", ind)
		fmt.Fprintf(b, "%s    receive: %v\n", ind, f.addpath.recv)
		if f.addpath.send != nil {
			fmt.Fprintf(b, "%s    send:\n", ind)
			fmt.Fprintf(b, "%s      multipath: %v\n", ind, f.addpath.send.multipath)
			fmt.Fprintf(b, "%s      path_count: %d\n", ind, f.addpath.send.count)
		}
	}
}

func yamlNames(xs []int) string {
	p := make([]string, len(xs))
	for i, x := range xs {
		p[i] = fmt.Sprintf("%q", polName(x))
	}
	return "[" + strings.Join(p, ", ") + "]"
}

func yamlCommon(b *bytes.Buffer, ind string, c *common) {
	if c.local != nil {
		fmt.Fprintf(b, "%slocal_address: %q\n", ind, c.local.ip())
	}
	if c.ttl != 0 {
		fmt.Fprintf(b, "%sttl: %d\n", ind, c.ttl)
	}
	if c.auth != 0 {
		fmt.Fprintf(b, "%sauthentication_key: \"k%d\"\n", ind, c.auth)
	}
	if c.pas != 0 {
		fmt.Fprintf(b, "%speer_as: %d\n", ind, c.pas)
	}
	if c.las != 0 {
		fmt.Fprintf(b, "%slocal_as: %d\n", ind, c.las)
	}
	if c.hold != 0 {
		fmt.Fprintf(b, "%shold_time: %d\n", ind, c.hold)
	}
	if len(c.imp) > 0 {
		fmt.Fprintf(b, "%simport: %s\n", ind, yamlNames(c.imp))
	}
	if len(c.exp) > 0 {
		fmt.Fprintf(b, "%sexport: %s\n", ind, yamlNames(c.exp))
	}
	if c.rsc != nil {
		fmt.Fprintf(b, "%sroute_server_client: %v\n", ind, *c.rsc)
	}
	if c.rrc != nil {
		fmt.Fprintf(b, "%sroute_reflector_client: %v\n", ind, *c.rrc)
	}
	if c.passive != nil {
		fmt.Fprintf(b, "%spassive: %v\n", ind, *c.passive)
	}
	if c.cluster != nil {
		fmt.Fprintf(b, "%scluster_id: \"0.0.0.%d\"\n", ind, *c.cluster)
	}
	yamlAF(b, ind, "ipv4", c.v4)
	yamlAF(b, ind, "ipv6", c.v6)
	if c.ri != 0 {
		fmt.Fprintf(b, "%srouting_instance: %q\n", ind, riName(c.ri))
	}
}

// policy content k: 0 = one term rejecting everything; k>0 = accept 10.k.0.0/16 or longer
func (c *config) yaml() string {
	b := &bytes.Buffer{}
	fmt.Fprintf(b, "routing_options:\n  autonomous_system: %d\n  router_id: %q\n", c.as, ridIP(c.rid))
	if len(c.pols) > 0 {
		b.WriteString("policy_options:\n  policy_statements:\n")
		for _, p := range c.pols {
			fmt.Fprintf(b, "    - name: %q\n      terms:\n        - name: \"t\"\n", polName(p.name))
			if p.content == 0 {
				b.WriteString("          then:\n            reject: true\n")
			} else {
				fmt.Fprintf(b, "          from:\n            route_filters:\n              - prefix: \"10.%d.0.0/16\"\n                matcher: \"orlonger\"\n", p.content)
				b.WriteString("          then:\n            accept: true\n")
			}
		}
	}
	if len(c.ris) > 0 {
		b.WriteString("routing_instances:\n")
		for _, r := range c.ris {
			fmt.Fprintf(b, "  - name: %q\n    route_distinguisher: \"0:%d\"\n", riName(r.name), r.rd)
		}
	}
	isis := "  isis:\n    NETs: [\"49.0001.0100.0000.0001.00\"]\n    lsp_lifetime: 1800\n"
	if c.nobgp {
		if c.isis {
			b.WriteString("protocols:\n" + isis)
		}
		return b.String()
	}
	b.WriteString("protocols:\n")
	if c.isis {
		b.WriteString(isis)
	}
	b.WriteString("  bgp:\n")
	if len(c.groups) == 0 {
		b.WriteString("    groups: []\n")
		return b.String()
	}
	b.WriteString("    groups:\n")
	for i, g := range c.groups {
		fmt.Fprintf(b, "      - name: \"g%d\"\n", i)
		yamlCommon(b, "        ", &g.common)
		if len(g.nbrs) > 0 {
			b.WriteString("        neighbors:\n")
		}
		for _, n := range g.nbrs {
			fmt.Fprintf(b, "          - peer_address: %q\n", n.addr.ip())
			yamlCommon(b, "            ", &n.common)
			if n.disabled {
				b.WriteString("            disabled: true\n")
			}
			if n.mp4 {
				b.WriteString("            advertise_ipv4_multiprotocol: true\n")
			}
		}
	}
	return b.String()
}

// ---------------------------------------------------------------- generator

func optBool(r *hx.RNG, p int) *bool {
	if !r.Chance(p) {
		return nil
	}
	b := r.Bool()
	return &b
}

func genAF(r *hx.RNG, p int) *afconf {
	if !r.Chance(p) {
		return nil
	}
	f := &afconf{nhx: r.Chance(30)}
	if r.Chance(60) {
		f.addpath = &addpath{recv: r.Bool()}
		if r.Chance(60) {
			f.addpath.send = &apsend{multipath: r.Chance(70), count: r.Pick([]int{0, 2, 4})}
		}
	}
	return f
}

func genNames(r *hx.RNG, p int) []int {
	if !r.Chance(p) {
		return nil
	}
	n := 1 + r.Intn(2)
	var out []int
	for i := 0; i < n; i++ {
		if r.Chance(1) {
			out = append(out, 9) // undefined policy statement
		} else {
			out = append(out, 1+r.Intn(3))
		}
	}
	return out
}

var addrPool = []addr{{true, 2}, {true, 3}, {true, 4}, {false, 2}, {false, 3}}

func genCommon(r *hx.RNG, c *common, isGroup bool) {
	if isGroup {
		if r.Chance(92) {
			c.local = &addr{true, 1}
		}
		c.pas = r.Pick([]int{0, 65200, 65200, 65100})
		c.las = r.Pick([]int{0, 0, 0, 65100, 65101})
		c.imp = genNames(r, 55)
		c.exp = genNames(r, 45)
		c.ttl = r.Pick([]int{0, 0, 0, 1, 5})
		c.auth = r.Pick([]int{0, 0, 0, 0, 1, 2})
		c.hold = r.Pick([]int{0, 0, 0, 30, 91})
		c.rsc = optBool(r, 20)
		c.rrc = optBool(r, 25)
		c.passive = optBool(r, 45)
		if r.Chance(20) {
			n := r.Pick([]int{0, 1, 7})
			c.cluster = &n
		}
		c.v4 = genAF(r, 15)
		c.v6 = genAF(r, 12)
		if r.Chance(12) {
			c.ri = 1 + r.Intn(2)
		}
		return
	}
	if r.Chance(12) {
		c.local = &addr{r.Bool(), 9}
	}
	c.pas = r.Pick([]int{0, 0, 65200, 65300, 65100})
	c.las = r.Pick([]int{0, 0, 0, 0, 65102})
	c.imp = genNames(r, 20)
	c.exp = genNames(r, 15)
	c.ttl = r.Pick([]int{0, 0, 0, 0, 2, 9})
	c.auth = r.Pick([]int{0, 0, 0, 0, 0, 3})
	c.hold = r.Pick([]int{0, 0, 0, 0, 45, 90})
	c.rsc = optBool(r, 10)
	c.rrc = optBool(r, 12)
	c.passive = optBool(r, 25)
	if r.Chance(10) {
		n := r.Pick([]int{0, 2, 7})
		c.cluster = &n
	}
	c.v4 = genAF(r, 18)
	c.v6 = genAF(r, 15)
	if r.Chance(8) {
		c.ri = 1 + r.Intn(2)
	}
}

func genNeighbor(r *hx.RNG, g *group) *neighbor {
	n := &neighbor{addr: addrPool[r.Intn(len(addrPool))]}
	genCommon(r, &n.common, false)
	if g.pas == 0 && n.pas == 0 && !r.Chance(3) {
		n.pas = 65200
	}
	n.disabled = r.Chance(6)
	n.mp4 = r.Chance(10)
	return n
}

func genGroup(r *hx.RNG) *group {
	g := &group{}
	genCommon(r, &g.common, true)
	k := r.Pick([]int{0, 1, 1, 2, 2, 3})
	for i := 0; i < k; i++ {
		g.nbrs = append(g.nbrs, genNeighbor(r, g))
	}
	return g
}

func genConfig(r *hx.RNG) *config {
	c := &config{as: 65100, rid: 1, isis: isisAlways || r.Chance(12)}
	if r.Chance(4) {
		c.as = 0
	}
	for n := 1; n <= 3; n++ {
		if r.Chance(98) {
			c.pols = append(c.pols, policy{n, r.Intn(5)})
		}
	}
	if r.Chance(5) { // a second statement with a name already used: the first one wins
		c.pols = append(c.pols, policy{1 + r.Intn(3), r.Intn(5)})
	}
	for n := 1; n <= 2; n++ {
		if r.Chance(85) {
			c.ris = append(c.ris, rinst{n, 1 + r.Intn(2)})
		}
	}
	if r.Chance(4) {
		c.nobgp = true
		return c
	}
	k := r.Pick([]int{0, 1, 1, 1, 2, 2})
	for i := 0; i < k; i++ {
		c.groups = append(c.groups, genGroup(r))
	}
	return c
}

func cloneAF(f *afconf) *afconf {
	if f == nil {
		return nil
	}
	g := *f
	if f.addpath != nil {
		a := *f.addpath
		if a.send != nil {
			s := *a.send
			a.send = &s
		}
		g.addpath = &a
	}
	return &g
}

func cloneCommon(c common) common {
	d := c
	if c.local != nil {
		a := *c.local
		d.local = &a
	}
	d.imp = append([]int(nil), c.imp...)
	d.exp = append([]int(nil), c.exp...)
	for _, pp := range []struct{ from, to **bool }{{&c.rsc, &d.rsc}, {&c.rrc, &d.rrc}, {&c.passive, &d.passive}} {
		if *pp.from != nil {
			b := **pp.from
			*pp.to = &b
		}
	}
	if c.cluster != nil {
		n := *c.cluster
		d.cluster = &n
	}
	d.v4 = cloneAF(c.v4)
	d.v6 = cloneAF(c.v6)
	return d
}

func cloneConfig(c *config) *config {
	d := &config{as: c.as, rid: c.rid, nobgp: c.nobgp, isis: c.isis}
	d.pols = append([]policy(nil), c.pols...)
	d.ris = append([]rinst(nil), c.ris...)
	for _, g := range c.groups {
		h := &group{common: cloneCommon(g.common)}
		for _, n := range g.nbrs {
			m := &neighbor{common: cloneCommon(n.common), addr: n.addr, disabled: n.disabled, mp4: n.mp4}
			h.nbrs = append(h.nbrs, m)
		}
		d.groups = append(d.groups, h)
	}
	return d
}

// mutateCommon changes one setting of a group or neighbor
func mutateCommon(r *hx.RNG, c *common, isGroup bool, t *hx.Trace) {
	fresh := &common{}
	genCommon(r, fresh, isGroup)
	switch r.Intn(13) {
	case 0:
		c.ttl = r.Pick([]int{0, 1, 2, 5, 9})
		t.Count("mut_ttl")
	case 1:
		c.imp = genNames(r, 70)
		t.Count("mut_import")
	case 2:
		c.exp = genNames(r, 70)
		t.Count("mut_export")
	case 3:
		c.v4 = genAF(r, 70)
		t.Count("mut_ipv4")
	case 4:
		c.v6 = genAF(r, 70)
		t.Count("mut_ipv6")
	case 5:
		c.passive = optBool(r, 70)
		t.Count("mut_passive")
	case 6:
		c.rrc = optBool(r, 70)
		if r.Chance(50) {
			n := r.Pick([]int{0, 1, 7})
			c.cluster = &n
		} else {
			c.cluster = nil
		}
		t.Count("mut_rr")
	case 7:
		c.hold = r.Pick([]int{0, 30, 45, 90, 91})
		t.Count("mut_hold")
	case 8:
		c.auth = r.Pick([]int{0, 1, 2, 3})
		t.Count("mut_auth")
	case 9:
		c.pas = fresh.pas
		if c.pas == 0 && !isGroup {
			c.pas = 65300
		}
		c.las = fresh.las
		t.Count("mut_as")
	case 10:
		c.local = fresh.local
		if isGroup && c.local == nil && r.Chance(70) {
			c.local = &addr{true, r.Pick([]int{1, 8})}
		}
		t.Count("mut_local")
	case 11:
		c.rsc = optBool(r, 70)
		t.Count("mut_rsc")
	case 12:
		c.ri = r.Pick([]int{0, 0, 1, 2})
		t.Count("mut_ri")
	}
}

func mutate(r *hx.RNG, c *config, t *hx.Trace) *config {
	d := cloneConfig(c)
	k := 1 + r.Intn(3)
	for i := 0; i < k; i++ {
		if d.nobgp {
			if r.Chance(60) {
				d.nobgp = false
				t.Count("mut_bgp_back")
			}
			continue
		}
		var ns []*neighbor
		for _, g := range d.groups {
			ns = append(ns, g.nbrs...)
		}
		switch x := r.Intn(100); {
		case x < 30 && len(ns) > 0: // neighbor setting
			n := ns[r.Intn(len(ns))]
			if r.Chance(12) {
				if r.Bool() {
					n.disabled = !n.disabled
				} else {
					n.mp4 = !n.mp4
				}
				t.Count("mut_nb_flag")
			} else {
				mutateCommon(r, &n.common, false, t)
			}
		case x < 52 && len(d.groups) > 0: // group setting
			mutateCommon(r, &d.groups[r.Intn(len(d.groups))].common, true, t)
		case x < 62 && len(d.groups) > 0: // add a neighbor
			g := d.groups[r.Intn(len(d.groups))]
			g.nbrs = append(g.nbrs, genNeighbor(r, g))
			t.Count("mut_add_nb")
		case x < 72 && len(ns) > 0: // remove a neighbor
			g := d.groups[r.Intn(len(d.groups))]
			if len(g.nbrs) > 0 {
				j := r.Intn(len(g.nbrs))
				g.nbrs = append(g.nbrs[:j], g.nbrs[j+1:]...)
				t.Count("mut_del_nb")
			}
		case x < 77 && len(ns) > 0 && len(d.groups) > 1: // move a neighbor to another group
			gi := r.Intn(len(d.groups))
			g := d.groups[gi]
			if len(g.nbrs) > 0 {
				j := r.Intn(len(g.nbrs))
				n := g.nbrs[j]
				g.nbrs = append(g.nbrs[:j], g.nbrs[j+1:]...)
				h := d.groups[(gi+1)%len(d.groups)]
				h.nbrs = append(h.nbrs, n)
				t.Count("mut_move_nb")
			}
		case x < 82: // policy content
			if len(d.pols) > 0 && r.Chance(35) {
				d.pols[r.Intn(len(d.pols))].content = r.Intn(5)
				t.Count("mut_policy_content")
			}
		case x < 86: // routing instance
			if len(d.ris) > 0 && r.Chance(70) {
				d.ris[r.Intn(len(d.ris))].rd = 1 + r.Intn(3)
				t.Count("mut_rd")
			} else if len(d.ris) > 0 {
				j := r.Intn(len(d.ris))
				d.ris = append(d.ris[:j], d.ris[j+1:]...)
				t.Count("mut_del_ri")
			} else {
				d.ris = append(d.ris, rinst{1 + r.Intn(2), 1})
				t.Count("mut_add_ri")
			}
		case x < 90: // add / remove a group
			if len(d.groups) > 0 && r.Bool() {
				j := r.Intn(len(d.groups))
				d.groups = append(d.groups[:j], d.groups[j+1:]...)
				t.Count("mut_del_group")
			} else if len(d.groups) < 3 {
				d.groups = append(d.groups, genGroup(r))
				t.Count("mut_add_group")
			}
		case x < 92:
			d.nobgp = true
			t.Count("mut_nobgp")
		case x < 94:
			d.rid = r.Pick([]int{1, 2})
			t.Count("mut_router_id")
		case x < 96:
			d.as = r.Pick([]int{65100, 65109})
			t.Count("mut_as_default")
		default:
			if len(ns) > 0 { // the same neighbor a second time (a later entry overrides)
				n := ns[r.Intn(len(ns))]
				g := d.groups[r.Intn(len(d.groups))]
				m := genNeighbor(r, g)
				m.addr = n.addr
				g.nbrs = append(g.nbrs, m)
				t.Count("mut_dup_nb")
			}
		}
	}
	return d
}

func genSeq(r *hx.RNG, t *hx.Trace) []*config {
	n := 2
	if r.Chance(40) {
		n = 3
	}
	cs := []*config{genConfig(r)}
	for len(cs) < n {
		if r.Chance(78) {
			cs = append(cs, mutate(r, cs[len(cs)-1], t))
		} else {
			cs = append(cs, genConfig(r))
			t.Count("step_unrelated")
		}
	}
	t.Count(fmt.Sprintf("len_%d", n))
	return cs
}

// ---------------------------------------------------------------- hook binary

func buildHook(repo, dir string) (string, error) {
	moddir := filepath.Join(dir, "hookmod")
	if err := os.MkdirAll(moddir, 0o755); err != nil {
		return "", err
	}
	for _, f := range []string{"go.mod", "go.sum"} {
		b, err := os.ReadFile(filepath.Join(repo, f))
		if err != nil {
			return "", err
		}
		if err := os.WriteFile(filepath.Join(moddir, f), b, 0o644); err != nil {
			return "", err
		}
	}
	exe := filepath.Join(dir, "bio-rd-verif")
	cmd := exec.Command("go", "build", "-modfile="+filepath.Join(moddir, "go.mod"), "-tags", "verif", "-o", exe, "./cmd/bio-rd")
	cmd.Dir = repo
	cmd.Env = append(os.Environ(), "GOFLAGS=-mod=mod", "GOPROXY=off", "GOSUMDB=off", "GOTOOLCHAIN=local", "CGO_ENABLED=0")
	out, err := cmd.CombinedOutput()
	if err != nil {
		return "", fmt.Errorf("go build of cmd/bio-rd (-tags verif) failed: %v: %s", err, strings.TrimSpace(string(out)))
	}
	return exe, nil
}

type step struct {
	status   string
	restarts int
	zombies  int
	isisSrv  int // an IS-IS server exists
	isisSets int // sets of LSDB routines started on it
	peers    []string
}

// isisAlways: every generated configuration has an isis section (shared stage for C32)
var isisAlways bool

var (
	reAccept = regexp.MustCompile(`\{from\(10\.(\d+)\.0\.0/16:orlonger:0:0\)then\(accept\)\}`)
	reReject = regexp.MustCompile(`\{from\(\)then\(reject\)\}|\?REJECT_ALL`)
)

func canonPeer(l string) string {
	l = reAccept.ReplaceAllString(l, "c$1")
	return reReject.ReplaceAllString(l, "c0")
}

// runHook replays the runs (id -> configs) and returns the steps of every run
func runHook(exe, dir string, chunk int, ids []string, runs map[string][]*config) (map[string][]step, error) {
	script := filepath.Join(dir, fmt.Sprintf("script-%d.txt", chunk))
	f, err := os.Create(script)
	if err != nil {
		return nil, err
	}
	w := bufio.NewWriter(f)
	for _, id := range ids {
		fmt.Fprintf(w, "RUN %s\n", id)
		for _, c := range runs[id] {
			w.WriteString("CONFIG\n")
			w.WriteString(c.yaml())
		}
		w.WriteString("END\n")
	}
	w.Flush()
	f.Close()
	defer os.Remove(script)

	cmd := exec.Command(exe)
	cmd.Env = append(os.Environ(), "BIORD_VERIF_C36="+script)
	var stdout, stderr bytes.Buffer
	cmd.Stdout, cmd.Stderr = &stdout, &stderr
	if err := cmd.Run(); err != nil {
		tail := stderr.String()
		if len(tail) > 600 {
			tail = tail[len(tail)-600:]
		}
		return nil, fmt.Errorf("hook binary failed: %v: %s", err, tail)
	}

	res := map[string][]step{}
	cur := ""
	sc := bufio.NewScanner(&stdout)
	sc.Buffer(make([]byte, 1<<20), 1<<26)
	for sc.Scan() {
		l := sc.Text()
		switch {
		case strings.HasPrefix(l, "RUN "):
			cur = l[4:]
			res[cur] = []step{}
		case strings.HasPrefix(l, "END "):
			cur = ""
		case strings.HasPrefix(l, "STEP "):
			p := strings.SplitN(l, " ", 4)
			if len(p) < 3 || cur == "" {
				return nil, fmt.Errorf("bad hook line %q", l)
			}
			res[cur] = append(res[cur], step{status: p[2]})
		case strings.HasPrefix(l, "R "):
			if s := res[cur]; len(s) > 0 {
				s[len(s)-1].restarts, _ = strconv.Atoi(l[2:])
			}
		case strings.HasPrefix(l, "I "):
			if s := res[cur]; len(s) > 0 {
				fmt.Sscanf(l[2:], "%d %d", &s[len(s)-1].isisSrv, &s[len(s)-1].isisSets)
			}
		case strings.HasPrefix(l, "Z "):
			if s := res[cur]; len(s) > 0 {
				s[len(s)-1].zombies, _ = strconv.Atoi(l[2:])
			}
		case strings.HasPrefix(l, "P "):
			if s := res[cur]; len(s) > 0 {
				s[len(s)-1].peers = append(s[len(s)-1].peers, canonPeer(l[2:]))
			}
		case strings.HasPrefix(l, "HOOK-ERROR"):
			return nil, fmt.Errorf("%s", l)
		}
	}
	for id := range res {
		for i := range res[id] {
			sort.Strings(res[id][i].peers)
			if res[id][i].status == "panic" {
				res[id][i].peers = nil // the daemon is gone
				res[id][i].zombies = 0
				res[id][i].restarts = 0
			}
		}
	}
	return res, nil
}

func (s step) obs() string {
	return fmt.Sprintf("%s R%d Z%d I%d/%d %s", s.status, s.restarts, s.zombies, s.isisSrv, s.isisSets, strings.Join(s.peers, " ; "))
}

// ---------------------------------------------------------------- spec oracle

func peerKey(l string) string {
	if i := strings.Index(l, " | "); i >= 0 {
		return l[:i]
	}
	return l
}

// firstDiff names the first field in which two peer lines with the same key differ and shows
// the two values
func firstDiff(a, b string) (field, detail string) {
	sa, sb := strings.Split(a, " | "), strings.Split(b, " | ")
	for i := 0; i < len(sa) && i < len(sb); i++ {
		if sa[i] == sb[i] {
			continue
		}
		ta, tb := strings.Fields(sa[i]), strings.Fields(sb[i])
		sec := "key"
		if len(ta) > 0 {
			sec = ta[0]
		}
		for j := 0; j < len(ta) && j < len(tb); j++ {
			if ta[j] != tb[j] {
				return sec + "." + strings.SplitN(ta[j], "=", 2)[0], fmt.Sprintf("after reload %s, after fresh start %s", ta[j], tb[j])
			}
		}
		return sec + ".length", ""
	}
	return "length", ""
}

// oracle: the property's statement on the implementation's observations
func oracle(seq, fresh []step, n int) (sig, detail string) {
	// C32/C36: a reload must leave the IS-IS server with the one set of LSDB routines a fresh start
	// gives it (every further set ages all LSPs once more per second)
	for i, s := range append(append([]step{}, seq...), fresh...) {
		if s.status != "panic" && s.isisSets > 1 {
			return "isis-routines-duplicated", fmt.Sprintf("after step %d: %d sets of LSDB routines (lifetime decrementer, senders, LSP updater) run on one IS-IS server: LSPs age %d s per second", i, s.isisSets, s.isisSets)
		}
	}
	for i, s := range seq {
		if s.zombies != 0 {
			return "removed-session-still-running", fmt.Sprintf("after step %d: %d FSM(s) of removed peers still running", i, s.zombies)
		}
	}
	if len(fresh) != 1 || fresh[0].status != "ok" {
		return "", "" // a fresh start with the last file does not work: nothing to converge to
	}
	if fresh[0].zombies != 0 {
		return "removed-session-still-running", "after a fresh start"
	}
	if len(seq) != n {
		// the start configuration was rejected (main() exits) or the daemon died on an earlier
		// reload; whether that reload should have worked is the business of the case ending there
		return "", ""
	}
	fin := seq[n-1]
	if fin.status != "ok" {
		return "reload-fails:" + fin.status, "fresh start with the same file works"
	}
	ka, kb := map[string]string{}, map[string]string{}
	for _, l := range fin.peers {
		ka[peerKey(l)] = l
	}
	for _, l := range fresh[0].peers {
		kb[peerKey(l)] = l
	}
	if len(ka) != len(fin.peers) || len(kb) != len(fresh[0].peers) {
		return "reload-differs:duplicate-session", "two sessions with the same VRF and peer address"
	}
	for k := range ka {
		if _, ok := kb[k]; !ok {
			return "reload-differs:session-not-removed", k
		}
	}
	for k := range kb {
		if _, ok := ka[k]; !ok {
			return "reload-differs:session-not-added", k
		}
	}
	keys := make([]string, 0, len(ka))
	for k := range ka {
		keys = append(keys, k)
	}
	sort.Strings(keys)
	for _, k := range keys {
		if ka[k] != kb[k] {
			f, d := firstDiff(ka[k], kb[k])
			return "reload-differs:" + f, fmt.Sprintf("%s: %s", k, d)
		}
	}
	return "", ""
}

// ---------------------------------------------------------------- main

type kase struct {
	id  string
	seq []*config
}

func main() {
	isisProp := flag.String("isisprop", "", "shared stage: every configuration has an isis section; only isis-routines-duplicated is reported, tagged prop=<id>")
	cfg := hx.Parse()
	isisAlways = *isisProp != ""
	tr := hx.NewTrace(cfg.Out)
	repo := os.Getenv("VERIF_REPO")
	if repo == "" {
		repo = "/repo"
	}
	dir := filepath.Dir(cfg.Out)
	if abs, err := filepath.Abs(dir); err == nil {
		dir = abs
	}

	var cases []kase
	if cfg.Mode == "replay" {
		for _, c := range hx.InputsFrom(cfg.Replay) {
			seq, err := parseSeq(c[1])
			if err != nil {
				fmt.Println("HARNESS-ERROR bad replay input:", err)
				os.Exit(2)
			}
			cases = append(cases, kase{c[0], seq})
		}
	} else {
		for _, c := range hx.InputsFrom(hx.CorpusFiles(cfg.Corpus)...) {
			seq, err := parseSeq(c[1])
			if err != nil {
				fmt.Println("HARNESS-ERROR bad corpus line", c[0], err)
				os.Exit(2)
			}
			cases = append(cases, kase{"corpus-" + c[0], seq})
			tr.Count("corpus")
		}
		rng := hx.NewRNG(cfg.Seed)
		for i := 0; i < cfg.N; i++ {
			cases = append(cases, kase{fmt.Sprintf("g%d", i), genSeq(rng.Fork(uint64(i)), tr)})
		}
	}

	exe, err := buildHook(repo, dir)
	if err != nil {
		fmt.Println("HARNESS-ERROR", err)
		os.Exit(2)
	}

	// every case is two daemon lives: the reload sequence and a fresh start with the last file
	const chunkSize = 250
	type chunkRes struct {
		res map[string][]step
		err error
	}
	nchunks := (len(cases) + chunkSize - 1) / chunkSize
	results := make([]chunkRes, nchunks)
	sem := make(chan struct{}, 4)
	var wg sync.WaitGroup
	for ci := 0; ci < nchunks; ci++ {
		wg.Add(1)
		go func(ci int) {
			defer wg.Done()
			sem <- struct{}{}
			defer func() { <-sem }()
			lo, hi := ci*chunkSize, (ci+1)*chunkSize
			if hi > len(cases) {
				hi = len(cases)
			}
			runs := map[string][]*config{}
			var ids []string
			for _, k := range cases[lo:hi] {
				runs[k.id] = k.seq
				runs[k.id+".fresh"] = k.seq[len(k.seq)-1:]
				ids = append(ids, k.id, k.id+".fresh")
			}
			r, err := runHook(exe, dir, ci, ids, runs)
			results[ci] = chunkRes{r, err}
		}(ci)
	}
	wg.Wait()

	nviol := 0
	for ci, cr := range results {
		if cr.err != nil {
			fmt.Println("HARNESS-ERROR", cr.err)
			os.Exit(2)
		}
		lo, hi := ci*chunkSize, (ci+1)*chunkSize
		if hi > len(cases) {
			hi = len(cases)
		}
		for _, k := range cases[lo:hi] {
			seq, fresh := cr.res[k.id], cr.res[k.id+".fresh"]
			var obs []string
			for i, s := range seq {
				obs = append(obs, fmt.Sprintf("#%d %s", i, s.obs()))
			}
			for _, s := range fresh {
				obs = append(obs, "#F "+s.obs())
			}
			n := len(k.seq)
			// non-trivial: the fresh start works and the last reload had to change something
			nt := len(fresh) == 1 && fresh[0].status == "ok" && len(seq) == n && n >= 2 &&
				seq[n-2].status != "panic" && strings.Join(seq[n-2].peers, ";") != strings.Join(seq[n-1].peers, ";")
			tr.Case(k.id, nt, seqToks(k.seq), strings.Join(obs, " "))
			for i, s := range seq {
				tr.Count("status_" + s.status)
				if i > 0 && s.restarts > 0 {
					tr.Count("reload_with_restart")
				}
				if i > 0 && s.status == "ok" && s.restarts == 0 && strings.Join(seq[i-1].peers, ";") != strings.Join(s.peers, ";") {
					tr.Count("reload_changing_without_restart")
				}
			}
			if len(fresh) == 1 {
				tr.Count("fresh_" + fresh[0].status)
			}
			if sig, detail := oracle(seq, fresh, n); sig != "" {
				if *isisProp == "" {
					hx.Violation(k.id, sig, detail)
					nviol++
				} else if sig == "isis-routines-duplicated" {
					fmt.Printf("SPEC-VIOLATION prop=%s case=%s sig=%s %s | input: %s\n", *isisProp, k.id, sig, detail, seqToks(k.seq))
					nviol++
				}
			}
		}
	}
	tr.Close(cfg.Stats, map[string]interface{}{"spec_violations": nviol})
}
