// C03 harness: see verifharness/pathsel.
package main

import "verifharness/pathsel"

func main() { pathsel.Main("C03") }
