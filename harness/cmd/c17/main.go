// C17 harness: every message bio-rd serializes is <= 4096 bytes and decodes back to the same content.
// Input tokens:  <encode option bits: 1 UseAddPath, 2 Use32BitASN> <safi of the BGPUpdate> <canonical tokens of
//                the message structure handed to the serializer (bgpx.Render with header length 0)>
// Observation:   hex of the serialized message | Err (serializer refused) | PANIC
// Structures are built the way the update sender builds them: packet.PathAttributes(path, iBGP, rrClient) on a
// generated route.Path, NLRI field or MP_REACH_NLRI / MP_UNREACH_NLRI, withdrawals; OPEN from capabilities.
// Spec oracle (independent of the model): size <= 4096, header length = size, packet.Decode with the session's
// options succeeds and the decoded content equals the serialized structure.
package main

import (
	"encoding/hex"
	"fmt"
	"os"
	"strings"

	bnet "github.com/bio-routing/bio-rd/net"
	"github.com/bio-routing/bio-rd/protocols/bgp/packet"
	"github.com/bio-routing/bio-rd/protocols/bgp/types"
	"github.com/bio-routing/bio-rd/route"

	"verifharness/bgpx"
	"verifharness/hx"
)

var tr *hx.Trace
var nviol int

// ---------------------------------------------------------------- generator

type gen struct{ r *hx.RNG }

func (g *gen) asn() uint32 {
	return uint32(g.r.Pick([]int{1, 2, 64512, 65535, 65536, 4200000000, 23456, 3320}))
}

func (g *gen) asPath() *types.ASPath {
	r := g.r
	switch c := r.Intn(100); {
	case c < 8:
		return &types.ASPath{}
	case c < 11:
		return types.NewASPath([]uint32{}) // one empty AS_SEQUENCE, what route.NewBGPPath() starts with
	}
	p := types.ASPath{}
	for i := 1 + r.Intn(3); i > 0; i-- {
		n := r.Pick([]int{1, 1, 2, 3, 5, 10, 255, 256, 300, 600})
		if n >= 255 && !r.Chance(25) {
			n = 4
		}
		s := types.ASPathSegment{Type: uint8(r.Pick([]int{2, 2, 2, 1})), ASNs: make([]uint32, n)}
		for j := range s.ASNs {
			s.ASNs[j] = g.asn()
		}
		p = append(p, s)
	}
	return &p
}

func (g *gen) path() *route.Path {
	r := g.r
	p := &route.Path{Type: route.BGPPathType, BGPPath: &route.BGPPath{BGPPathA: &route.BGPPathA{}}}
	b := p.BGPPath
	b.ASPath = g.asPath()
	b.BGPPathA.Origin = uint8(r.Intn(3))
	b.BGPPathA.NextHop = bnet.IPv4FromOctets(10, 0, byte(r.Intn(3)), byte(1+r.Intn(3))).Ptr()
	if r.Bool() {
		b.BGPPathA.MED = uint32(r.Pick([]int{1, 100, 4294967295}))
	}
	b.BGPPathA.LocalPref = uint32(r.Pick([]int{0, 100, 4294967295}))
	b.BGPPathA.AtomicAggregate = r.Chance(20)
	if r.Chance(20) {
		b.BGPPathA.Aggregator = &types.Aggregator{ASN: uint16(g.asn()), Address: uint32(r.Pick([]int{0, 167772161}))}
	}
	b.BGPPathA.OriginatorID = uint32(r.Pick([]int{0, 1, 167772161}))
	if r.Chance(70) {
		n := r.Pick([]int{0, 1, 2, 63, 64, 80, 300})
		if n >= 63 && !r.Chance(30) {
			n = 3
		}
		cl := make(types.ClusterList, n)
		for i := range cl {
			cl[i] = uint32(r.Pick([]int{1, 2, 167772161}))
		}
		b.ClusterList = &cl
	}
	if r.Chance(50) {
		n := r.Pick([]int{0, 1, 3, 63, 64, 300})
		if n >= 63 && !r.Chance(30) {
			n = 2
		}
		c := make(types.Communities, n)
		for i := range c {
			c[i] = uint32(r.Pick([]int{0, 65536, 4294967041, 196608}))
		}
		b.Communities = &c
	}
	if r.Chance(30) {
		n := r.Pick([]int{0, 1, 2, 21, 22})
		c := make(types.LargeCommunities, n)
		for i := range c {
			c[i] = types.LargeCommunity{GlobalAdministrator: g.asn(), DataPart1: uint32(i), DataPart2: 7}
		}
		b.LargeCommunities = &c
	}
	for i := r.Pick([]int{0, 0, 0, 1, 1, 2}); i > 0; i-- {
		n := r.Pick([]int{0, 1, 5, 255, 256, 300})
		if n >= 255 && !r.Chance(30) {
			n = 3
		}
		v := make([]byte, n)
		for j := range v {
			v[j] = byte(r.Intn(256))
		}
		b.UnknownAttributes = append(b.UnknownAttributes, types.UnknownPathAttribute{
			Optional: r.Chance(90), Transitive: true, Partial: r.Chance(30),
			TypeCode: uint8(r.Pick([]int{17, 35, 99, 200, 255})), Value: v})
	}
	return p
}

func (g *gen) pfx4() *bnet.Prefix {
	l := g.r.Intn(33)
	a := uint32(g.r.Pick([]int{0x0a000000, 0xc0a80000, 0xac100000, 0x0a0a0a00})) + uint32(g.r.Intn(256))<<8
	if l < 32 {
		a &= ^uint32(0) << uint(32-l)
	}
	if l == 0 {
		a = 0
	}
	return bnet.NewPfx(bnet.IPv4(a), uint8(l)).Ptr()
}

func (g *gen) pfx6() *bnet.Prefix {
	l := g.r.Intn(129)
	hi := uint64(0x20010db800000000) + uint64(g.r.Intn(65536))
	lo := uint64(g.r.Intn(65536)) << 48
	if g.r.Chance(5) {
		hi, lo = 0, 0x0000ffff0a000000 // inside ::ffff:0:0/96
		l = 96 + g.r.Intn(25)
	}
	switch {
	case l == 0:
		hi, lo = 0, 0
	case l <= 64:
		lo = 0
		if l < 64 {
			hi &= ^uint64(0) << uint(64-l)
		}
	case l < 128:
		lo &= ^uint64(0) << uint(128-l)
	}
	return bnet.NewPfx(bnet.IPv6(hi, lo), uint8(l)).Ptr()
}

func (g *gen) nlris(v6 bool, max int) *packet.NLRI {
	n := 1 + g.r.Intn(max)
	if g.r.Chance(3) {
		n = 700 + g.r.Intn(500) // beyond one message
	}
	id := uint32(g.r.Pick([]int{0, 1, 7, 4294967295}))
	var first, last *packet.NLRI
	for i := 0; i < n; i++ {
		cur := &packet.NLRI{PathIdentifier: id}
		if v6 {
			cur.Prefix = g.pfx6()
		} else {
			cur.Prefix = g.pfx4()
		}
		if first == nil {
			first = cur
		} else {
			last.Next = cur
		}
		last = cur
	}
	return first
}

func withoutNextHop(pa *packet.PathAttribute) (*packet.PathAttribute, *bnet.IP) {
	var first, last *packet.PathAttribute
	var nh *bnet.IP
	for a := pa; a != nil; a = a.Next {
		if a.TypeCode == packet.NextHopAttr {
			nh = a.Value.(*bnet.IP)
			continue
		}
		c := a.Copy()
		if first == nil {
			first = c
		} else {
			last.Next = c
		}
		last = c
	}
	return first, nh
}

// message: what the session would hand to a serializer
func (g *gen) message() (typ int, body interface{}, safi uint8, stream string) {
	r := g.r
	switch c := r.Intn(100); {
	case c < 40: // IPv4 announcement in the NLRI field
		pa, _ := packet.PathAttributes(g.path(), r.Bool(), r.Chance(40))
		return 2, &packet.BGPUpdate{PathAttributes: pa, NLRI: g.nlris(false, 5), SAFI: 1}, 1, "update-ipv4"
	case c < 65: // IPv6 announcement in MP_REACH_NLRI
		pa, _ := packet.PathAttributes(g.path(), r.Bool(), r.Chance(40))
		rest, _ := withoutNextHop(pa)
		nh := bnet.IPv6(0x20010db800000000, uint64(1+r.Intn(3))).Ptr()
		mp := &packet.PathAttribute{TypeCode: packet.MultiProtocolReachNLRIAttr,
			Value: packet.MultiProtocolReachNLRI{AFI: 2, SAFI: 1, NextHop: nh, NLRI: g.nlris(true, 5)}, Next: rest}
		return 2, &packet.BGPUpdate{PathAttributes: mp, SAFI: 1}, 1, "update-mpreach"
	case c < 72:
		return 2, &packet.BGPUpdate{SAFI: 1, WithdrawnRoutes: g.nlris(false, 2)}, 1, "withdraw-ipv4"
	case c < 79:
		mp := &packet.PathAttribute{TypeCode: packet.MultiProtocolUnreachNLRIAttr,
			Value: packet.MultiProtocolUnreachNLRI{AFI: 2, SAFI: 1, NLRI: g.nlris(true, 2)}}
		return 2, &packet.BGPUpdate{PathAttributes: mp}, 0, "withdraw-mpunreach"
	case c < 90:
		return 1, g.open(), 0, "open"
	case c < 97:
		pairs := [][2]int{{1, 1}, {1, 2}, {2, 2}, {2, 6}, {2, 11}, {3, 1}, {3, 11}, {4, 0}, {5, 0}, {6, 0}, {6, 2}, {6, 7}, {6, 8}}
		p := pairs[r.Intn(len(pairs))]
		return 3, &packet.BGPNotification{ErrorCode: uint8(p[0]), ErrorSubcode: uint8(p[1])}, 0, "notification"
	default:
		return 4, nil, 0, "keepalive"
	}
}

func (g *gen) open() *packet.BGPOpen {
	r := g.r
	o := &packet.BGPOpen{Version: 4, ASN: uint16(g.asn()), HoldTime: uint16(r.Pick([]int{0, 3, 90, 65535})), BGPIdentifier: uint32(r.Pick([]int{1, 167772161, 4294967295}))}
	var caps packet.Capabilities
	add := func(code uint8, v packet.Serializable) { caps = append(caps, packet.Capability{Code: code, Value: v}) }
	if r.Chance(80) {
		add(packet.MultiProtocolCapabilityCode, packet.MultiProtocolCapability{AFI: 1, SAFI: 1})
	}
	if r.Chance(60) {
		add(packet.MultiProtocolCapabilityCode, packet.MultiProtocolCapability{AFI: 2, SAFI: 1})
	}
	if r.Chance(70) {
		add(packet.ASN4CapabilityCode, packet.ASN4Capability{ASN4: g.asn()})
	}
	if r.Chance(50) {
		var t packet.AddPathCapability
		n := 1 + r.Intn(2)
		for i := 0; i < n; i++ {
			t = append(t, packet.AddPathCapabilityTuple{AFI: uint16(1 + i%2), SAFI: 1, SendReceive: uint8(1 + r.Intn(3))})
		}
		add(packet.AddPathCapabilityCode, t)
	}
	if r.Chance(30) {
		add(packet.PeerRoleCapabilityCode, packet.PeerRoleCapability{PeerRole: uint8(r.Intn(5))})
	}
	if r.Chance(30) {
		add(packet.ExtendedNextHopEncodingCapabilityCode, packet.ExtendedNextHopCapability{{AFI: 1, SAFI: 1, NextHopAFI: 2}})
	}
	if len(caps) > 0 {
		if r.Chance(70) { // one parameter holding all capabilities
			o.OptParams = append(o.OptParams, packet.OptParam{Type: packet.CapabilitiesParamType, Value: caps})
		} else { // one parameter per capability
			for _, c := range caps {
				o.OptParams = append(o.OptParams, packet.OptParam{Type: packet.CapabilitiesParamType, Value: packet.Capabilities{c}})
			}
		}
	}
	return o
}

// ---------------------------------------------------------------- content (what has to survive the round trip)

func nlriContent(n *packet.NLRI, addPath bool) string {
	var sb strings.Builder
	for c := n; c != nil; c = c.Next {
		id := c.PathIdentifier
		if !addPath {
			id = 0
		}
		fmt.Fprintf(&sb, "[%d %x/%d]", id, c.Prefix.Addr().Bytes(), c.Prefix.Len())
	}
	return sb.String()
}

func content(m *packet.BGPMessage, addPath bool) string {
	var sb strings.Builder
	switch b := m.Body.(type) {
	case nil:
		sb.WriteString("keepalive")
	case *packet.BGPNotification:
		fmt.Fprintf(&sb, "notification %d %d", b.ErrorCode, b.ErrorSubcode)
	case *packet.BGPOpen:
		fmt.Fprintf(&sb, "open %d %d %d %d", b.Version, b.ASN, b.HoldTime, b.BGPIdentifier)
		for _, p := range b.OptParams {
			fmt.Fprintf(&sb, " param%d", p.Type)
			if caps, ok := p.Value.(packet.Capabilities); ok {
				for _, c := range caps {
					fmt.Fprintf(&sb, " cap%d:%v", c.Code, c.Value)
				}
			}
		}
	case *packet.BGPUpdate:
		sb.WriteString("update W" + nlriContent(b.WithdrawnRoutes, addPath))
		for pa := b.PathAttributes; pa != nil; pa = pa.Next {
			x := &packet.BGPMessage{Header: &packet.BGPHeader{Type: 2}, Body: &packet.BGPUpdate{PathAttributes: pa.Copy()}}
			switch v := pa.Value.(type) {
			case packet.MultiProtocolReachNLRI:
				fmt.Fprintf(&sb, " A14(%d %d %x %s)", v.AFI, v.SAFI, v.NextHop.Bytes(), nlriContent(v.NLRI, addPath))
				continue
			case packet.MultiProtocolUnreachNLRI:
				fmt.Fprintf(&sb, " A15(%d %d %s)", v.AFI, v.SAFI, nlriContent(v.NLRI, addPath))
				continue
			case *types.Communities:
				if v == nil || len(*v) == 0 {
					continue
				}
			case *types.LargeCommunities:
				if v == nil || len(*v) == 0 {
					continue
				}
			case *types.ClusterList:
				if v == nil || len(*v) == 0 {
					continue
				}
			case []byte:
				fmt.Fprintf(&sb, " U%d(o%v t%v p%v %x)", pa.TypeCode, pa.Optional, pa.Transitive, pa.Partial, v)
				continue
			case *types.ASPath:
				// segments without ASNs carry nothing and are not sent
				sb.WriteString(" A2(")
				if v != nil {
					for _, s := range *v {
						if len(s.ASNs) > 0 {
							fmt.Fprintf(&sb, "{%d %v}", s.Type, s.ASNs)
						}
					}
				}
				sb.WriteString(")")
				continue
			}
			t, _ := bgpx.Render(x)
			// tokens: len type wlen nW tpal nA flags type length value... nN ; keep type and value
			if len(t) >= 10 {
				fmt.Fprintf(&sb, " A%d(%s)", pa.TypeCode, bgpx.TokString(t[9:len(t)-1]))
			}
		}
		sb.WriteString(" N" + nlriContent(b.NLRI, addPath))
	}
	return sb.String()
}

// truncateASNs returns a copy of the message whose AS_PATH ASNs are reduced modulo 65536
func truncateASNs(m *packet.BGPMessage) *packet.BGPMessage {
	u, ok := m.Body.(*packet.BGPUpdate)
	if !ok {
		return m
	}
	cu := *u
	var first, last *packet.PathAttribute
	for pa := u.PathAttributes; pa != nil; pa = pa.Next {
		c := pa.Copy()
		if v, ok := pa.Value.(*types.ASPath); ok && v != nil {
			np := make(types.ASPath, len(*v))
			for i, sg := range *v {
				np[i] = types.ASPathSegment{Type: sg.Type, ASNs: make([]uint32, len(sg.ASNs))}
				for j, a := range sg.ASNs {
					np[i].ASNs[j] = a & 0xffff
				}
			}
			c.Value = &np
		}
		if first == nil {
			first = c
		} else {
			last.Next = c
		}
		last = c
	}
	cu.PathAttributes = first
	return &packet.BGPMessage{Header: m.Header, Body: &cu}
}

// which representability limit the structure touches (signature of a round trip failure)
func riskClass(m *packet.BGPMessage, k int) string {
	u, ok := m.Body.(*packet.BGPUpdate)
	if !ok {
		return "other"
	}
	for pa := u.PathAttributes; pa != nil; pa = pa.Next {
		switch v := pa.Value.(type) {
		case *types.ASPath:
			for _, s := range *v {
				if len(s.ASNs) > 255 {
					return "as-path-segment-over-255-asns"
				}
			}
			if k&2 == 0 {
				for _, s := range *v {
					for _, a := range s.ASNs {
						if a > 65535 {
							return "asn-over-65535-on-2-byte-session"
						}
					}
				}
			}
		}
	}
	for pa := u.PathAttributes; pa != nil; pa = pa.Next {
		switch v := pa.Value.(type) {
		case *types.ClusterList:
			if v != nil && len(*v) > 63 {
				return "cluster-list-over-63-ids"
			}
			if v == nil && pa.TypeCode == packet.ClusterListAttr {
				return "nil-cluster-list"
			}
		case []byte:
			if len(v) > 255 {
				return "unknown-attribute-over-255-bytes"
			}
		}
	}
	for pa := u.PathAttributes; pa != nil; pa = pa.Next {
		if v, ok := pa.Value.([]byte); ok && pa.Partial && len(v) >= 0 {
			return "unknown-attribute-partial-flag"
		}
	}
	return "other"
}

func serialize(m *packet.BGPMessage, k int, safi uint8) (b []byte, err error) {
	opt := &packet.EncodeOptions{UseAddPath: k&1 != 0, Use32BitASN: k&2 != 0}
	switch body := m.Body.(type) {
	case nil:
		return packet.SerializeKeepaliveMsg(), nil
	case *packet.BGPNotification:
		return packet.SerializeNotificationMsg(body), nil
	case *packet.BGPOpen:
		return packet.SerializeOpenMsg(body), nil
	case *packet.BGPUpdate:
		body.SAFI = safi
		return body.SerializeUpdate(opt)
	}
	return nil, fmt.Errorf("unknown body")
}

// expectSize > 0: the case was steered to serialize to exactly that many bytes (boundary stream)
var expectSize int

func do(id string, k int, safi uint8, m *packet.BGPMessage) {
	want0 := expectSize
	expectSize = 0
	doCase(id, k, safi, m, want0)
}

func doCase(id string, k int, safi uint8, m *packet.BGPMessage, wantSize int) {
	toks, rerr := bgpx.Render(m)
	if rerr != nil {
		fmt.Println("HARNESS-ERROR case=" + id + " cannot render the structure: " + rerr.Error())
		return
	}
	want := content(m, k&1 != 0) // before serializing: the serializers set flags in the structure
	wantTrunc := want
	if k&2 == 0 { // what a 2-byte-ASN session can carry at best: every ASN modulo 65536 (known finding)
		wantTrunc = content(truncateASNs(m), k&1 != 0)
	}
	input := fmt.Sprintf("%d %d %s", k, safi, bgpx.TokString(toks))
	var b []byte
	var err error
	panicked, pv := hx.Guard(func() { b, err = serialize(m, k, safi) })
	class := riskClass(m, k)
	if k&4 != 0 && strings.HasPrefix(class, "as-path-segment-over-255") {
		// the path was built by bio-rd itself (route.BGPPath.Prepend / the export rewrite): it has to round-trip,
		// a segment of more than 255 ASNs here is NOT the known finding about API-injected paths
		class = "aspath-segment-overflow-via-prepend"
	}
	tr.Count("class_" + class)
	switch {
	case panicked:
		tr.Case(id, true, input, "PANIC")
		nviol++
		hx.Violation(id, "serialize-panic-"+class, strings.ReplaceAll(fmt.Sprint(pv), "\n", " "))
		return
	case err != nil:
		tr.Case(id, class != "other" || wantSize > 0, input, "Err")
		tr.Count("serializer_refused")
		if wantSize > 0 && wantSize <= 4096 {
			nviol++
			hx.Violation(id, "size-boundary-refused-although-it-fits", fmt.Sprintf("an UPDATE of %d bytes was refused: %v", wantSize, err))
		}
		return
	}
	tr.Case(id, class != "other" || len(b) > 300, input, hex.EncodeToString(b))
	if wantSize > 0 && len(b) != wantSize {
		fmt.Printf("HARNESS-ERROR case=%s boundary stream steered to %d bytes, got %d\n", id, wantSize, len(b))
	}
	if len(b) > 4096 {
		nviol++
		hx.Violation(id, "message-over-4096-bytes-"+class, fmt.Sprintf("%d bytes", len(b)))
		return
	}
	if len(b) < 19 || int(b[16])<<8|int(b[17]) != len(b) {
		nviol++
		hx.Violation(id, "header-length-differs-from-size-"+class, fmt.Sprintf("%d bytes", len(b)))
		return
	}
	dk := 0
	if k&1 != 0 {
		dk |= 3
	}
	if k&2 != 0 {
		dk |= 4
	}
	obs, dm, _ := bgpx.DecodeObs(b, dk)
	if dm == nil {
		nviol++
		hx.Violation(id, "roundtrip-decode-fails-"+class, "decoding the serialized message gives "+obs)
		return
	}
	got := content(dm, k&1 != 0)
	if got != want && class == "asn-over-65535-on-2-byte-session" && got != wantTrunc {
		class = "beyond-asn-truncation" // differs by more than the known truncation: not the known finding
	}
	if got != want {
		nviol++
		cut := func(s string) string {
			if len(s) > 160 {
				return s[:160] + "..."
			}
			return s
		}
		i := 0
		for i < len(got) && i < len(want) && got[i] == want[i] {
			i++
		}
		if i > 40 {
			i -= 40
		} else {
			i = 0
		}
		hx.Violation(id, "roundtrip-content-differs-"+class, fmt.Sprintf("sent ...%s decoded ...%s", cut(want[i:]), cut(got[i:])))
	}
}

func main() {
	cfg := hx.Parse()
	tr = hx.NewTrace(cfg.Out)
	if cfg.Mode == "replay" {
		for _, c := range hx.InputsFrom(cfg.Replay) {
			k, safi, m, err := bgpx.ParseStructure(c[1])
			if err != nil {
				fmt.Println("HARNESS-ERROR bad replay input:", err)
				os.Exit(2)
			}
			do(c[0], k, safi, m)
		}
		tr.Close(cfg.Stats, nil)
		return
	}
	for _, c := range hx.InputsFrom(hx.CorpusFiles(cfg.Corpus)...) {
		if k, safi, m, err := bgpx.ParseStructure(c[1]); err == nil {
			do("corpus-"+c[0], k, safi, m)
			tr.Count("corpus")
		} else {
			fmt.Println("HARNESS-ERROR bad corpus line", c[0], err)
		}
	}
	rng := hx.NewRNG(cfg.Seed)
	if cfg.Mode == "search" {
		rng = hx.NewRNG(cfg.Seed ^ 0xc17c17)
	}
	for i := 0; i < cfg.N; i++ {
		g := &gen{r: rng.Fork(uint64(i))}
		k := g.r.Intn(4)
		typ, body, safi, stream := g.message()
		m := &packet.BGPMessage{Header: &packet.BGPHeader{Type: uint8(typ)}, Body: body}
		if body == nil {
			m.Body = nil
		}
		do(fmt.Sprintf("g%d", i), k, safi, m)
		tr.Count("stream_" + stream)
	}
	boundaryStream(rng)
	prependStream(rng, cfg.Tier == "thorough")
	tr.Close(cfg.Stats, map[string]interface{}{"spec_violations": nviol})
}

// ---------------------------------------------------------------- size boundary stream
// Every serialized size from 4096-24 to 4096+24, for each way of filling a message (unknown attribute bytes,
// communities, NLRI / withdrawn prefixes, MP_REACH NLRI), add-path on and off: emitted => <= 4096 and round trip
// (the general oracle), refused => the message really does not fit (checked here via the steered size).

func unknownPad(n int) *packet.PathAttribute {
	v := make([]byte, n)
	for i := range v {
		v[i] = byte(i)
	}
	return &packet.PathAttribute{TypeCode: 99, Optional: true, Transitive: true, Value: v}
}

func appendAttr(pa, x *packet.PathAttribute) *packet.PathAttribute {
	if pa == nil {
		return x
	}
	last := pa
	for last.Next != nil {
		last = last.Next
	}
	last.Next = x
	return pa
}

func copyAttrs(pa *packet.PathAttribute) *packet.PathAttribute {
	var first, last *packet.PathAttribute
	for a := pa; a != nil; a = a.Next {
		c := a.Copy()
		if first == nil {
			first = c
		} else {
			last.Next = c
		}
		last = c
	}
	return first
}

func boundaryStream(rng *hx.RNG) {
	type shape struct {
		name string
		mk   func(g *gen, pad *packet.PathAttribute) (*packet.BGPUpdate, uint8)
	}
	basePath := func(g *gen, ncomm int) *route.Path {
		p := &route.Path{Type: route.BGPPathType, BGPPath: &route.BGPPath{BGPPathA: &route.BGPPathA{}}}
		p.BGPPath.ASPath = types.NewASPath([]uint32{64512, 3320})
		p.BGPPath.BGPPathA.NextHop = bnet.IPv4FromOctets(10, 0, 0, 1).Ptr()
		if ncomm > 0 {
			c := make(types.Communities, ncomm)
			for i := range c {
				c[i] = uint32(65536 + i)
			}
			p.BGPPath.Communities = &c
		}
		return p
	}
	manyNLRI := func(v6 bool, n int, id uint32) *packet.NLRI {
		var first, last *packet.NLRI
		for i := 0; i < n; i++ {
			cur := &packet.NLRI{PathIdentifier: id}
			if v6 {
				cur.Prefix = bnet.NewPfx(bnet.IPv6(0x20010db800000000+uint64(i)<<16, 0), 48).Ptr()
			} else {
				cur.Prefix = bnet.NewPfx(bnet.IPv4(0x0a000000+uint32(i)<<8), 24).Ptr()
			}
			if first == nil {
				first = cur
			} else {
				last.Next = cur
			}
			last = cur
		}
		return first
	}
	shapes := []shape{
		{"unknown-attr", func(g *gen, pad *packet.PathAttribute) (*packet.BGPUpdate, uint8) {
			pa, _ := packet.PathAttributes(basePath(g, 0), false, false)
			return &packet.BGPUpdate{PathAttributes: appendAttr(pa, pad), NLRI: manyNLRI(false, 2, 7), SAFI: 1}, 1
		}},
		{"communities", func(g *gen, pad *packet.PathAttribute) (*packet.BGPUpdate, uint8) {
			pa, _ := packet.PathAttributes(basePath(g, 850), false, false)
			return &packet.BGPUpdate{PathAttributes: appendAttr(pa, pad), NLRI: manyNLRI(false, 1, 7), SAFI: 1}, 1
		}},
		{"nlri", func(g *gen, pad *packet.PathAttribute) (*packet.BGPUpdate, uint8) {
			pa, _ := packet.PathAttributes(basePath(g, 0), false, false)
			return &packet.BGPUpdate{PathAttributes: appendAttr(pa, pad), NLRI: manyNLRI(false, 400, 7), SAFI: 1}, 1
		}},
		{"withdrawn", func(g *gen, pad *packet.PathAttribute) (*packet.BGPUpdate, uint8) {
			return &packet.BGPUpdate{PathAttributes: pad, WithdrawnRoutes: manyNLRI(false, 400, 7), SAFI: 1}, 1
		}},
		{"mpreach", func(g *gen, pad *packet.PathAttribute) (*packet.BGPUpdate, uint8) {
			pa, _ := packet.PathAttributes(basePath(g, 0), false, false)
			rest, _ := withoutNextHop(pa)
			nh := bnet.IPv6(0x20010db800000000, 1).Ptr()
			mp := &packet.PathAttribute{TypeCode: packet.MultiProtocolReachNLRIAttr,
				Value: packet.MultiProtocolReachNLRI{AFI: 2, SAFI: 1, NextHop: nh, NLRI: manyNLRI(true, 300, 7)}, Next: rest}
			return &packet.BGPUpdate{PathAttributes: appendAttr(mp, pad), SAFI: 1}, 1
		}},
	}
	g := &gen{r: rng.Fork(424242)}
	for si, sh := range shapes {
		for k := 0; k < 4; k++ {
			// measure with a 256-byte pad, then steer: the size is affine in the pad length above 255 bytes
			u0, safi := sh.mk(g, unknownPad(256))
			m0 := &packet.BGPMessage{Header: &packet.BGPHeader{Type: 2}, Body: u0}
			b0, err := serialize(m0, k, safi)
			if err != nil || len(b0) > 4096-24-1 {
				fmt.Printf("HARNESS-ERROR boundary shape %s does not serialize with a small pad (%v, %d bytes)\n", sh.name, err, len(b0))
				continue
			}
			for target := 4096 - 24; target <= 4096+24; target++ {
				padLen := 256 + target - len(b0)
				u, safi := sh.mk(g, unknownPad(padLen))
				m := &packet.BGPMessage{Header: &packet.BGPHeader{Type: 2}, Body: u}
				expectSize = target
				do(fmt.Sprintf("b%d-%d-%d", si, k, target), k, safi, m)
				tr.Count("stream_size-boundary-" + sh.name)
			}
		}
	}
}

// ---------------------------------------------------------------- paths built by bio-rd's own Prepend
// A first AS_SEQUENCE of n ASNs (as received from a peer, or built by Prepend itself), then the export rewrite
// (Prepend(localASN, 1)) and/or a policy prepend of k ASNs, across the 255-ASN segment limit. Marker bit 4.

func prependStream(rng *hx.RNG, thorough bool) {
	r := rng.Fork(777001)
	ns := []int{250, 251, 252, 253, 254, 255}
	for _, n := range ns {
		for k := 1; k <= 10; k++ {
			for variant := 0; variant < 3; variant++ {
				bp := &route.BGPPath{BGPPathA: &route.BGPPathA{NextHop: bnet.IPv4FromOctets(10, 0, 0, 1).Ptr()}}
				switch variant {
				case 0: // received path with a first segment of n ASNs
					asns := make([]uint32, n)
					for i := range asns {
						asns[i] = uint32(64512 + i%100)
					}
					bp.ASPath = types.NewASPath(asns)
				case 1: // built from nothing by Prepend alone
					bp.ASPath = types.NewASPath([]uint32{})
					bp.Prepend(64999, uint16(n))
				case 2: // an AS_SET first, then n prepended
					bp.ASPath = &types.ASPath{{Type: types.ASSet, ASNs: []uint32{64600, 64601}}}
					bp.Prepend(64998, uint16(n))
				}
				if variant == 0 || r.Bool() {
					bp.Prepend(64513, 1) // export rewrite towards an eBGP peer
				}
				bp.Prepend(64514, uint16(k)) // policy: AS path prepend
				p := &route.Path{Type: route.BGPPathType, BGPPath: bp}
				pa, _ := packet.PathAttributes(p, false, false)
				u := &packet.BGPUpdate{PathAttributes: pa, NLRI: &packet.NLRI{Prefix: bnet.NewPfx(bnet.IPv4(0x0a000000), 8).Ptr()}, SAFI: 1}
				m := &packet.BGPMessage{Header: &packet.BGPHeader{Type: 2}, Body: u}
				kk := 4 | 2 | (n+k)%2
				do(fmt.Sprintf("p%d-%d-%d", n, k, variant), kk, 1, m)
				tr.Count("stream_prepend-built-paths")
			}
		}
	}
}
