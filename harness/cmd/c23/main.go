// C23 harness: generated event sequences (admin events, connections, peer transmissions, timer
// expiries) are stepped through real BGP FSMs (protocols/bgp/server, hook verif_hooks_fsm.go); the
// observed trace is recorded for the model comparison and checked against the property's statement.
package main

import (
	"verifharness/fsmx"
	"verifharness/hx"
)

func main() {
	fsmx.Main(fsmx.Property{
		Name:   "c23",
		Oracle: fsmx.OracleC23,
		NonTriv: func(c fsmx.Case, obs []fsmx.StepObs) bool {
			// reaches a session state and leaves it again (or reaches Established)
			left := false
			prev := byte(0)
			for _, o := range obs {
				if (prev == 'S' || prev == 'F' || prev == 'E') && (o.State == 'I' || o.State == 'Z' || o.State == 'A') {
					left = true
				}
				prev = o.State
			}
			return left
		},
		Gen: func(r *hx.RNG, tr *hx.Trace) fsmx.Case { return fsmx.GenCase(r, "c23", tr) },
		// every state x connection condition (healthy / writes fail / peer closed) x event, exhaustively
		Extra: func(cfg *hx.Cfg, do func(id string, c fsmx.Case)) {
			fsmx.ExitProduct(do, "SFE", false)
			fsmx.PolicyProduct(do)
		},
	})
}
