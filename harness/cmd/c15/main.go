// C15 harness: prefix / address arithmetic and text round trip of package net.
//
// Case kinds (first input token):
//
//	pp <ip> <len> <ip> <len>   every two-prefix method on (p, x)
//	ab <ip> <n>                BitAtPosition(n), MaskLastNBits(n)
//	tx <ip> <len>              String / IPFromString(String) / Prefix.String / PrefixFromString / Bytes / IPFromBytes
//	ps <hex of text>           IPFromString(text), PrefixFromString(text)
//	by <hex of bytes | ->      IPFromBytes(bytes)
//	bl <len>                   BytesInAddr(len)
//	cl <hex x> <n>             checkLastNBitsUint32(uint32(x), n), checkLastNBitsUint64(x, n)
//
// <ip> = F:HI:LO with F in {4,6} and HI, LO hexadecimal 64-bit words (built with IPFromProtoIP,
// so ill-formed IPv4 values with bits above bit 31 can be expressed too).
// The spec oracle (bit lists built with math/big, independent of the Coq model) is evaluated
// on well-formed addresses and in-range lengths only.
package main

import (
	"encoding/hex"
	"fmt"
	"math/big"
	"os"
	"strconv"
	"strings"

	bnet "github.com/bio-routing/bio-rd/net"
	"github.com/bio-routing/bio-rd/net/api"

	"verifharness/hx"
)

type ipv struct {
	fam    int // 4 | 6
	hi, lo uint64
}

func (a ipv) String() string { return fmt.Sprintf("%d:%x:%x", a.fam, a.hi, a.lo) }
func (a ipv) wf() bool       { return a.fam == 6 || (a.hi == 0 && a.lo < 1<<32) }
func (a ipv) width() int {
	if a.fam == 4 {
		return 32
	}
	return 128
}
func (a ipv) toIP() bnet.IP {
	v := api.IP_IPv6
	if a.fam == 4 {
		v = api.IP_IPv4
	}
	return bnet.IPFromProtoIP(&api.IP{Higher: a.hi, Lower: a.lo, Version: v})
}
func fromIP(ip bnet.IP) ipv {
	f := 6
	if ip.IsIPv4() {
		f = 4
	}
	return ipv{f, ip.Higher(), ip.Lower()}
}
func parseIP(t string) (ipv, error) {
	p := strings.Split(t, ":")
	if len(p) != 3 {
		return ipv{}, fmt.Errorf("bad ip token %q", t)
	}
	f, e1 := strconv.Atoi(p[0])
	h, e2 := strconv.ParseUint(p[1], 16, 64)
	l, e3 := strconv.ParseUint(p[2], 16, 64)
	if e1 != nil || e2 != nil || e3 != nil || (f != 4 && f != 6) {
		return ipv{}, fmt.Errorf("bad ip token %q", t)
	}
	return ipv{f, h, l}, nil
}

// ---------- spec side: bits via math/big ----------

func (a ipv) bits() []bool {
	v := new(big.Int)
	if a.fam == 4 {
		v.SetUint64(a.lo)
	} else {
		v.SetUint64(a.hi)
		v.Lsh(v, 64)
		v.Or(v, new(big.Int).SetUint64(a.lo))
	}
	w := a.width()
	b := make([]bool, w)
	for i := 0; i < w; i++ {
		b[i] = v.Bit(w-1-i) == 1
	}
	return b
}
func fromBits(fam int, b []bool) ipv {
	v := new(big.Int)
	for _, x := range b {
		v.Lsh(v, 1)
		if x {
			v.Or(v, big.NewInt(1))
		}
	}
	if fam == 4 {
		return ipv{4, 0, v.Uint64()}
	}
	lo := new(big.Int).And(v, new(big.Int).SetUint64(^uint64(0))).Uint64()
	hi := new(big.Int).Rsh(v, 64).Uint64()
	return ipv{6, hi, lo}
}
func lcp(a, b []bool) int {
	n := 0
	for n < len(a) && n < len(b) && a[n] == b[n] {
		n++
	}
	return n
}
func keepFirst(b []bool, k int) []bool {
	r := make([]bool, len(b))
	copy(r[:k], b[:k])
	return r
}
func specContains(p ipv, lp int, x ipv, lx int) bool {
	return p.fam == x.fam && lp < lx && lcp(p.bits(), x.bits()) >= lp
}
func specValid(p ipv, lp int) bool {
	for _, b := range p.bits()[lp:] {
		if b {
			return false
		}
	}
	return true
}
func specCompare(a, b ipv) int {
	x, y := a.bits(), b.bits()
	for i := range x {
		if x[i] != y[i] {
			if y[i] {
				return -1
			}
			return 1
		}
	}
	return 0
}
func b2s(b bool) string {
	if b {
		return "1"
	}
	return "0"
}

// ---------- cases ----------

type result struct {
	obs, sig, detail string
	nt               bool
}

func pfxStr(p bnet.Prefix) string { return fmt.Sprintf("%s/%d", fromIP(p.Addr()), p.Len()) }

func runPP(p ipv, lp int, x ipv, lx int) (r result) {
	P := bnet.NewPfx(p.toIP(), uint8(lp))
	X := bnet.NewPfx(x.toIP(), uint8(lx))
	c := P.Contains(&X)
	cr := X.Contains(&P)
	e := P.Equal(&X)
	c4 := bnet.VerifContainsIPv4(&P, &X)
	c6 := bnet.VerifContainsIPv6(&P, &X)
	sn := P.GetSupernet(&X)
	vp, vx := P.Valid(), X.Valid()
	bp, bx := P.BaseAddr(), X.BaseAddr()
	pa, xa := p.toIP(), x.toIP()
	cmp := pa.Compare(&xa)
	cmpr := xa.Compare(&pa)
	ieq := pa.Equal(xa)
	r.obs = fmt.Sprintf("c=%s cr=%s e=%s c4=%s c6=%s sn=%s vp=%s vx=%s bp=%s bx=%s cmp=%d cmpr=%d ieq=%s",
		b2s(c), b2s(cr), b2s(e), b2s(c4), b2s(c6), pfxStr(sn), b2s(vp), b2s(vx), fromIP(bp), fromIP(bx), cmp, cmpr, b2s(ieq))
	if !p.wf() || !x.wf() || lp > p.width() || lx > x.width() {
		return
	}
	fail := func(sig, d string) {
		if r.sig == "" {
			r.sig, r.detail = sig, d
		}
	}
	fam := fmt.Sprint(p.fam)
	// contains (strict), both directions
	if want := specContains(p, lp, x, lx); c != want {
		s := "contains" + fam
		if p.fam != x.fam {
			s = "contains-cross-family"
		}
		fail(s, fmt.Sprintf("Contains(%s/%d, %s/%d)=%v want %v", p, lp, x, lx, c, want))
	}
	if want := specContains(x, lx, p, lp); cr != want {
		s := "contains" + fmt.Sprint(x.fam)
		if p.fam != x.fam {
			s = "contains-cross-family"
		}
		fail(s, fmt.Sprintf("Contains(%s/%d, %s/%d)=%v want %v", x, lx, p, lp, cr, want))
	}
	if want := p == x && lp == lx; e != want {
		fail("equal", fmt.Sprintf("Equal(%s/%d, %s/%d)=%v want %v", p, lp, x, lx, e, want))
	}
	if want := p == x; ieq != want {
		fail("ip-equal", fmt.Sprintf("IP.Equal(%s, %s)=%v want %v", p, x, ieq, want))
	}
	// valid / base address
	if want := specValid(p, lp); vp != want {
		fail("valid"+fam, fmt.Sprintf("Valid(%s/%d)=%v want %v", p, lp, vp, want))
	}
	if want := fromBits(p.fam, keepFirst(p.bits(), lp)); fromIP(bp) != want {
		fail("base"+fam, fmt.Sprintf("BaseAddr(%s/%d)=%s want %s", p, lp, fromIP(bp), want))
	}
	if p.fam == x.fam {
		if want := specCompare(p, x); int(cmp) != want || int(cmpr) != -want {
			fail("compare", fmt.Sprintf("Compare(%s, %s)=%d/%d want %d/%d", p, x, cmp, cmpr, want, -want))
		}
		l := lcp(p.bits(), x.bits())
		m := lp
		if lx < m {
			m = lx
		}
		if l >= m-1 && l <= m+1 || l == 31 || l == 32 || l == 63 || l == 64 || l == 65 || l == 95 || l == 96 {
			r.nt = true
		}
		// common supernet, under the trie's call precondition
		if specValid(p, lp) && specValid(x, lx) && !(p == x && lp == lx) &&
			!specContains(p, lp, x, lx) && !specContains(x, lx, p, lp) {
			want := fmt.Sprintf("%s/%d", fromBits(p.fam, keepFirst(p.bits(), l)), l)
			if pfxStr(sn) != want {
				fail("supernet"+fam, fmt.Sprintf("GetSupernet(%s/%d, %s/%d)=%s want %s", p, lp, x, lx, pfxStr(sn), want))
			}
		}
	} else {
		r.nt = true
	}
	return
}

func runAB(a ipv, n int) (r result) {
	ip := a.toIP()
	bit := ip.BitAtPosition(uint8(n))
	ml := ip.MaskLastNBits(uint8(n))
	r.obs = fmt.Sprintf("bit=%s ml=%s", b2s(bit), fromIP(ml))
	if !a.wf() {
		return
	}
	r.nt = n <= a.width()+1
	fam := fmt.Sprint(a.fam)
	want := n >= 1 && n <= a.width() && a.bits()[n-1]
	if bit != want {
		r.sig, r.detail = "bitat"+fam, fmt.Sprintf("BitAtPosition(%s, %d)=%v want %v", a, n, bit, want)
	}
	if n <= a.width() {
		if w := fromBits(a.fam, keepFirst(a.bits(), a.width()-n)); fromIP(ml) != w && r.sig == "" {
			r.sig, r.detail = "masklast"+fam, fmt.Sprintf("MaskLastNBits(%s, %d)=%s want %s", a, n, fromIP(ml), w)
		}
	}
	return
}

func isV4Mapped(a ipv) bool { return a.fam == 6 && a.hi == 0 && a.lo>>32 == 0xffff }

func runTX(a ipv, l int) (r result) {
	ip := a.toIP()
	s := ip.String()
	rt := "ERR"
	back, err := bnet.IPFromString(s)
	if err == nil {
		rt = fromIP(back).String()
	}
	P := bnet.NewPfx(ip, uint8(l))
	ps := P.String()
	prt := "ERR"
	pb, err2 := bnet.PrefixFromString(ps)
	if err2 == nil {
		prt = pfxStr(*pb)
	}
	by := ip.Bytes()
	fb := "ERR"
	ib, err3 := bnet.IPFromBytes(by)
	if err3 == nil {
		fb = fromIP(ib).String()
	}
	r.obs = fmt.Sprintf("s=%s rt=%s ps=%s prt=%s by=%s fb=%s", hex.EncodeToString([]byte(s)), rt,
		hex.EncodeToString([]byte(ps)), prt, hex.EncodeToString(by), fb)
	if !a.wf() {
		return
	}
	r.nt = true
	fam := fmt.Sprint(a.fam)
	if rt != a.String() {
		sig := "roundtrip" + fam
		if isV4Mapped(a) && rt == (ipv{4, 0, a.lo & 0xffffffff}).String() {
			sig = "roundtrip6-v4mapped"
		}
		r.sig, r.detail = sig, fmt.Sprintf("IPFromString(%q)=%s, printed from %s", s, rt, a)
	} else if want := fmt.Sprintf("%s/%d", a, l); prt != want {
		r.sig, r.detail = "roundtrip-pfx"+fam, fmt.Sprintf("PrefixFromString(%q)=%s want %s", ps, prt, want)
	}
	return
}

func runPS(text string) (r result) {
	o1 := "ERR"
	if ip, err := bnet.IPFromString(text); err == nil {
		o1 = fromIP(ip).String()
	}
	o2 := "ERR"
	if p, err := bnet.PrefixFromString(text); err == nil {
		o2 = pfxStr(*p)
	}
	r.obs = fmt.Sprintf("ip=%s pfx=%s", o1, o2)
	r.nt = o1 != "ERR" || o2 != "ERR"
	return
}

func runBY(b []byte) (r result) {
	o := "ERR"
	if ip, err := bnet.IPFromBytes(b); err == nil {
		o = fromIP(ip).String()
	}
	r.obs = "fb=" + o
	r.nt = len(b) == 4 || len(b) == 16
	return
}

func runBL(l int) (r result) {
	n := bnet.BytesInAddr(uint8(l))
	r.obs = fmt.Sprintf("n=%d", n)
	want := 0
	for want*8 < l {
		want++
	}
	if int(n) != want {
		r.sig, r.detail = "bytesinaddr", fmt.Sprintf("BytesInAddr(%d)=%d want %d", l, n, want)
	}
	r.nt = true
	return
}

func runCL(x uint64, n int) (r result) {
	a := bnet.VerifCheckLastNBitsUint32(uint32(x), uint8(n))
	b := bnet.VerifCheckLastNBitsUint64(x, uint8(n))
	r.obs = fmt.Sprintf("c32=%s c64=%s", b2s(a), b2s(b))
	lowZero := func(v uint64, k int) bool {
		for i := 0; i < k; i++ {
			if v>>uint(i)&1 == 1 {
				return false
			}
		}
		return true
	}
	if n <= 32 && a != lowZero(uint64(uint32(x)), n) {
		r.sig, r.detail = "checklast32", fmt.Sprintf("checkLastNBitsUint32(%x, %d)=%v", uint32(x), n, a)
	}
	if n <= 64 && r.sig == "" && b != lowZero(x, n) {
		r.sig, r.detail = "checklast64", fmt.Sprintf("checkLastNBitsUint64(%x, %d)=%v", x, n, b)
	}
	r.nt = n <= 64
	return
}

// runInput dispatches one case given as input tokens.
func runInput(in string) (result, error) {
	t := strings.Fields(in)
	bad := fmt.Errorf("bad case %q", in)
	if len(t) == 0 {
		return result{}, bad
	}
	switch t[0] {
	case "pp":
		if len(t) != 5 {
			return result{}, bad
		}
		p, e1 := parseIP(t[1])
		lp, e2 := strconv.Atoi(t[2])
		x, e3 := parseIP(t[3])
		lx, e4 := strconv.Atoi(t[4])
		if e1 != nil || e2 != nil || e3 != nil || e4 != nil || lp < 0 || lp > 255 || lx < 0 || lx > 255 {
			return result{}, bad
		}
		return runPP(p, lp, x, lx), nil
	case "ab", "tx":
		if len(t) != 3 {
			return result{}, bad
		}
		a, e1 := parseIP(t[1])
		n, e2 := strconv.Atoi(t[2])
		if e1 != nil || e2 != nil || n < 0 || n > 255 {
			return result{}, bad
		}
		if t[0] == "ab" {
			return runAB(a, n), nil
		}
		return runTX(a, n), nil
	case "ps":
		if len(t) != 2 {
			return result{}, bad
		}
		if t[1] == "-" {
			return runPS(""), nil
		}
		b, err := hex.DecodeString(t[1])
		if err != nil {
			return result{}, bad
		}
		return runPS(string(b)), nil
	case "by":
		if len(t) != 2 {
			return result{}, bad
		}
		if t[1] == "-" {
			return runBY(nil), nil
		}
		b, err := hex.DecodeString(t[1])
		if err != nil {
			return result{}, bad
		}
		return runBY(b), nil
	case "bl":
		if len(t) != 2 {
			return result{}, bad
		}
		l, err := strconv.Atoi(t[1])
		if err != nil || l < 0 || l > 255 {
			return result{}, bad
		}
		return runBL(l), nil
	case "cl":
		if len(t) != 3 {
			return result{}, bad
		}
		x, e1 := strconv.ParseUint(t[1], 16, 64)
		n, e2 := strconv.Atoi(t[2])
		if e1 != nil || e2 != nil || n < 0 || n > 255 {
			return result{}, bad
		}
		return runCL(x, n), nil
	}
	return result{}, bad
}

// ---------- generators ----------

var boundary64 = []uint64{0, 1, 2, ^uint64(0), ^uint64(0) - 1, 1 << 63, 1<<63 - 1, 1 << 32, 1<<32 - 1, 1 << 31,
	0xffffffff00000000, 0x00000000ffffffff, 0xffff000000000000, 0x0000ffff00000000, 0x20010db800000000,
	0x0000000100000000, 0x8000000000000001, 0x0000ffff01020304, 0xaaaaaaaaaaaaaaaa, 0x5555555555555555}

func rnd64(r *hx.RNG) uint64 {
	switch r.Intn(10) {
	case 0, 1, 2:
		return boundary64[r.Intn(len(boundary64))]
	case 3:
		return r.U64() & r.U64() & r.U64() // sparse
	case 4:
		return r.U64() | r.U64() | r.U64() // dense
	case 5:
		return uint64(r.Intn(1 << 16)) << (16 * uint(r.Intn(4))) // one hextet
	}
	return r.U64()
}
func rndIP(r *hx.RNG, fam int) ipv {
	if fam == 4 {
		return ipv{4, 0, rnd64(r) & 0xffffffff}
	}
	a := ipv{6, rnd64(r), rnd64(r)}
	if r.Intn(12) == 0 { // zero hextets for the "::" logic
		a.hi &^= 0xffff << (16 * uint(r.Intn(4)))
		a.lo &^= 0xffff << (16 * uint(r.Intn(4)))
	}
	return a
}
func flipBit(a ipv, pos int) ipv { // pos 1..width, MSB first
	b := a.bits()
	b[pos-1] = !b[pos-1]
	return fromBits(a.fam, b)
}
func canon(a ipv, l int) ipv {
	if l > a.width() {
		return a
	}
	return fromBits(a.fam, keepFirst(a.bits(), l))
}

// onePair: addresses differing in exactly one chosen bit, then (mostly) canonicalised.
func onePair(r *hx.RNG, fam, lp, lx, bit int, tr *hx.Trace) string {
	w := 32
	if fam == 6 {
		w = 128
	}
	p := rndIP(r, fam)
	if bit < 1 {
		bit = 1
	}
	if bit > w {
		bit = w
	}
	x := flipBit(p, bit)
	switch r.Intn(8) {
	case 0: // raw: host bits left in
		tr.Count("pp_noncanonical")
	case 1: // identical addresses
		x = p
		p, x = canon(p, lp), canon(x, lx)
		tr.Count("pp_same_addr")
	default:
		p, x = canon(p, lp), canon(x, lx)
		tr.Count("pp_canonical")
	}
	return fmt.Sprintf("pp %s %d %s %d", p, lp, x, lx)
}

func bitChoices(r *hx.RNG, w, lp, lx, k int) []int {
	m := lp
	if lx < m {
		m = lx
	}
	c := []int{m, m + 1, m - 1, 1 + r.Intn(w), w, 1, 32, 33, 64, 65, 96, 97, m - 2, m + 2}
	if k > len(c) {
		k = len(c)
	}
	return c[:k]
}

func hexOf(s string) string {
	if s == "" {
		return "-"
	}
	return hex.EncodeToString([]byte(s))
}

// text mutations: other spellings of the same address, and malformed ones
func textCases(r *hx.RNG) []string {
	a := rndIP(r, 6)
	ip := a.toIP()
	s := ip.String()
	v4 := rndIP(r, 4)
	s4 := v4.toIP().String()
	var out []string
	full := fmt.Sprintf("%x:%x:%x:%x:%x:%x:%x:%x", a.hi>>48, a.hi>>32&0xffff, a.hi>>16&0xffff, a.hi&0xffff,
		a.lo>>48, a.lo>>32&0xffff, a.lo>>16&0xffff, a.lo&0xffff)
	padded := fmt.Sprintf("%04x:%04x:%04x:%04x:%04x:%04x:%04x:%04x", a.hi>>48, a.hi>>32&0xffff, a.hi>>16&0xffff, a.hi&0xffff,
		a.lo>>48, a.lo>>32&0xffff, a.lo>>16&0xffff, a.lo&0xffff)
	out = append(out, s, full, padded, strings.ToUpper(s), s4)
	muts := []string{s + ":", ":" + s, s + "::", strings.Replace(s, ":", "::", 1), strings.Replace(full, ":", "::", 1),
		full + ":1", "0" + padded, strings.Replace(padded, ":", ":0", 1), strings.Replace(s, ":", ";", 1), s + "g",
		s4 + ".", "." + s4, strings.Replace(s4, ".", "..", 1), s4 + ".1", "0" + s4, strings.Replace(s4, ".", ".0", 1),
		"256." + s4, s4[:len(s4)-1], "", ":", "::", ":::", "1", "1::", "::1", "1:2:3:4:5:6:7::", "::2:3:4:5:6:7:8",
		"1:2:3:4::5:6:7:8", "12345::", "fffff::", "1.2.3", "1.2.3.4.5", "a.b.c.d", s + "%eth0"}
	out = append(out, muts[r.Intn(len(muts))], muts[r.Intn(len(muts))])
	// prefixes
	l := r.Intn(140)
	pfxs := []string{fmt.Sprintf("%s/%d", s, l), fmt.Sprintf("%s/%d", s4, r.Intn(40)), s4 + "/", "/" + s4, s4 + "/1/2",
		s4 + "/+8", s4 + "/-1", s4 + "/256", s4 + "/300", s4 + "/08", s4 + "/ 8", s4 + "/8x", s + "/999999999999999999999", s4 + "/0x10"}
	out = append(out, pfxs[r.Intn(len(pfxs))], pfxs[r.Intn(len(pfxs))])
	return out
}

func main() {
	cfg := hx.Parse()
	tr := hx.NewTrace(cfg.Out)
	nviol := 0
	do := func(id, in string) {
		var res result
		var err error
		panicked, val := hx.Guard(func() { res, err = runInput(in) })
		if err != nil {
			fmt.Println("HARNESS-ERROR", err)
			os.Exit(2)
		}
		if panicked {
			res = result{obs: "PANIC", sig: "panic", detail: fmt.Sprint(val)}
		}
		tr.Case(id, res.nt, in, res.obs)
		tr.Count("kind_" + strings.Fields(in)[0])
		if res.sig != "" {
			hx.Violation(id, res.sig, res.detail)
			nviol++
		}
	}
	if cfg.Mode == "replay" {
		for _, c := range hx.InputsFrom(cfg.Replay) {
			do(c[0], c[1])
		}
		tr.Close(cfg.Stats, map[string]interface{}{"spec_violations": nviol})
		return
	}
	for _, c := range hx.InputsFrom(hx.CorpusFiles(cfg.Corpus)...) {
		do("corpus-"+c[0], c[1])
	}
	rng := hx.NewRNG(cfg.Seed)
	thorough := cfg.Tier == "thorough"
	if cfg.Mode == "search" {
		thorough = true
	}
	n := 0
	next := func() *hx.RNG { n++; return rng.Fork(uint64(n)) }
	id := func() string { return fmt.Sprintf("g%d", n) }

	// 1. all length pairs x one-bit-different address pairs (IPv4: always all pairs; IPv6: all pairs)
	k4, k6 := 3, 1
	if thorough {
		k4, k6 = 14, 14
	}
	for lp := 0; lp <= 32; lp++ {
		for lx := 0; lx <= 32; lx++ {
			r := next()
			for _, b := range bitChoices(r, 32, lp, lx, k4) {
				r2 := next()
				do(id(), onePair(r2, 4, lp, lx, b, tr))
			}
		}
	}
	for lp := 0; lp <= 128; lp++ {
		for lx := 0; lx <= 128; lx++ {
			r := next()
			for _, b := range bitChoices(r, 128, lp, lx, k6) {
				r2 := next()
				do(id(), onePair(r2, 6, lp, lx, b, tr))
			}
		}
	}
	// 2. every position / mask count on a few addresses
	reps := 1
	if thorough {
		reps = 8
	}
	for rep := 0; rep < reps; rep++ {
		for pos := 0; pos <= 255; pos++ {
			if pos > 140 && pos%16 != 15 && pos%16 != 0 {
				continue
			}
			r := next()
			do(id(), fmt.Sprintf("ab %s %d", rndIP(r, 4), pos))
			r = next()
			do(id(), fmt.Sprintf("ab %s %d", rndIP(r, 6), pos))
		}
	}
	for l := 0; l <= 255; l++ {
		next()
		do(id(), fmt.Sprintf("bl %d", l))
		r := next()
		do(id(), fmt.Sprintf("cl %x %d", rnd64(r)<<uint(r.Intn(64)), l))
	}
	// 3. random mix
	for i := 0; i < cfg.N; i++ {
		r := next()
		switch c := r.Intn(100); {
		case c < 30: // random prefix pairs, both families, occasionally mixed
			f1, f2 := 4, 4
			if r.Bool() {
				f1, f2 = 6, 6
			}
			if r.Intn(10) == 0 {
				f2 = 10 - f1
			}
			p, x := rndIP(r, f1), rndIP(r, f2)
			lp, lx := r.Intn(p.width()+1), r.Intn(x.width()+1)
			if r.Intn(3) > 0 {
				p, x = canon(p, lp), canon(x, lx)
			}
			do(id(), fmt.Sprintf("pp %s %d %s %d", p, lp, x, lx))
		case c < 36: // out-of-range lengths and ill-formed IPv4 words: correspondence only
			f := 4
			if r.Bool() {
				f = 6
			}
			p, x := rndIP(r, f), rndIP(r, f)
			if f == 4 && r.Bool() {
				p.hi, x.lo = rnd64(r), rnd64(r)
			}
			do(id(), fmt.Sprintf("pp %s %d %s %d", p, r.Intn(256), x, r.Intn(256)))
			tr.Count("pp_out_of_range")
		case c < 66: // text round trip
			f := 6
			if r.Intn(4) == 0 {
				f = 4
			}
			a := rndIP(r, f)
			if f == 6 && r.Intn(3) == 0 { // several zero runs
				for k := 0; k < 3; k++ {
					a.hi &^= 0xffff << (16 * uint(r.Intn(4)))
					a.lo &^= 0xffff << (16 * uint(r.Intn(4)))
				}
			}
			if f == 6 && r.Intn(40) == 0 {
				a.hi, a.lo = 0, 0xffff00000000|a.lo&0xffffffff
			}
			do(id(), fmt.Sprintf("tx %s %d", a, r.Intn(a.width()+1)))
		case c < 86:
			for _, s := range textCases(r) {
				next()
				do(id(), "ps "+hexOf(s))
			}
		default:
			ln := []int{0, 1, 3, 4, 5, 15, 16, 17, 4, 16, 16}[r.Intn(11)]
			b := make([]byte, ln)
			for k := range b {
				b[k] = byte(r.U64())
			}
			if ln == 16 && r.Intn(3) == 0 {
				copy(b, []byte{0, 0, 0, 0, 0, 0, 0, 0, 0, 0, 0xff, 0xff})
				if r.Intn(3) == 0 {
					b[r.Intn(12)] ^= 1
				}
			}
			if ln == 0 {
				do(id(), "by -")
			} else {
				do(id(), "by "+hex.EncodeToString(b))
			}
		}
	}
	tr.Close(cfg.Stats, map[string]interface{}{"spec_violations": nviol})
}
