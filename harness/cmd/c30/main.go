// C30 harness: IS-IS PDU codec (protocols/isis/packet).
//
// Case inputs (first token selects the stream):
//
//	D <hex>                      packet.Decode on the bytes            => <packet> | Err | PANIC
//	L <hex>                      packet.DecodeL2Hello                  => L2H:... | Err | PANIC
//	E <packet>                   header+body Serialize, LLC in front, packet.Decode
//	                                                                   => <wire hex> <packet> | Err | PANIC
//	K <LSP body>                 UpdateLength + SetChecksum            => LSP:...
//	T <ctor> <args>              a TLV constructor (area, host, proto, ipif, entries, p2padj, pad, terid, extis, extip),
//	                             the TLV put into an LSP that is serialized and decoded
//	                                                                   => <tlv> <wire hex> <packet> | Err | PANIC
//	C <maxlen> <srcid> <entries> packet.NewCSNPs, each PDU serialized and decoded
//	P <maxlen> <srcid> <entries> packet.NewPSNPs, ditto                => n=<k> (<built body> <decoded packet>)* | PANIC
//
// Spec oracle (independent of the model): a well-formed PDU (wfPkt: exactly the guard of the Coq
// round trip theorems) must decode back to its own content (TLVs without a decoder compared as
// unknown TLVs holding the bytes a reference encoder in this file computes); NewCSNPs/NewPSNPs must
// not panic and must hand every LSP entry to exactly one PDU that decodes back.
package main

import (
	"bytes"
	"encoding/binary"
	"encoding/hex"
	"fmt"
	"os"
	"path/filepath"
	"sort"
	"strconv"
	"strings"

	bnet "github.com/bio-routing/bio-rd/net"
	"github.com/bio-routing/bio-rd/protocols/isis/packet"
	"github.com/bio-routing/bio-rd/protocols/isis/types"

	"verifharness/hx"
)

var llc = []byte{0xfe, 0xfe, 0x03}

// ------------------------------------------------------------------ reference encoder / oracle

func be32(v uint32) []byte { b := make([]byte, 4); binary.BigEndian.PutUint32(b, v); return b }

func refSub(t packet.TLV) []byte {
	switch v := t.(type) {
	case *packet.LinkLocalRemoteIdentifiersSubTLV:
		return append(append([]byte{v.TLVType, v.TLVLength}, be32(v.Local)...), be32(v.Remote)...)
	case *packet.IPv4AddressSubTLV:
		return append([]byte{v.TLVType, v.TLVLength}, be32(v.Address)...)
	case *packet.UnknownTLV:
		return append([]byte{v.TLVType, v.TLVLength}, v.TLVValue...)
	}
	return nil
}

// refValue: the value bytes of the TLVs readTLV has no decoder for
func refValue(t packet.TLV) ([]byte, bool) {
	switch v := t.(type) {
	case *packet.UnknownTLV:
		return v.TLVValue, true
	case *packet.PaddingTLV:
		return v.PaddingData, true
	case *packet.ExtendedISReachabilityTLV:
		b := []byte{}
		for _, n := range v.Neighbors {
			b = append(b, srcBytes(n.NeighborID)...)
			b = append(b, be32(n.Metric)[1:]...)
			b = append(b, n.SubTLVLength)
			for _, s := range n.SubTLVs {
				b = append(b, refSub(s)...)
			}
		}
		return b, true
	case *packet.ExtendedIPReachabilityTLV:
		b := []byte{}
		for _, r := range v.ExtendedIPReachabilities {
			b = append(b, be32(r.Metric)...)
			b = append(b, r.UDSubBitPfxLen)
			n := (int(r.UDSubBitPfxLen&63) + 7) / 8
			b = append(b, append(be32(r.Address), 0, 0, 0, 0)[:n]...)
			for _, s := range r.SubTLVs {
				b = append(b, refSub(s)...)
			}
		}
		return b, true
	case *packet.TrafficEngineeringRouterIDTLV:
		return be32(v.Address), true
	}
	return nil, false
}

func hasDecoder(ty uint8) bool {
	switch ty {
	case 137, 12, 129, 132, 1, 240, 6, 9:
		return true
	}
	return false
}

// wfTLV mirrors Spec.ISISCodecSpec.wf_tlv (ranges of numeric fields hold by Go's types)
func wfTLV(t packet.TLV) bool {
	if raw, ok := refValue(t); ok {
		return !hasDecoder(t.Type()) && int(t.Length()) == len(raw)
	}
	switch v := t.(type) {
	case *packet.AreaAddressesTLV:
		n := 0
		for _, a := range v.AreaIDs {
			n += 1 + len(a)
		}
		return v.TLVType == 1 && int(v.TLVLength) == n
	case *packet.ChecksumTLV:
		return v.TLVType == 12
	case *packet.DynamicHostNameTLV:
		return v.TLVType == 137 && int(v.TLVLength) == len(v.Hostname)
	case *packet.ProtocolsSupportedTLV:
		return v.TLVType == 129 && int(v.TLVLength) == len(v.NetworkLayerProtocolIDs)
	case *packet.IPInterfaceAddressesTLV:
		return v.TLVType == 132 && int(v.TLVLength) == 4*len(v.IPv4Addresses)
	case *packet.P2PAdjacencyStateTLV:
		return v.TLVType == 240 && ((v.TLVLength == 5 && v.NeighborSystemID == types.SystemID{} && v.NeighborExtendedLocalCircuitID == 0) || v.TLVLength == 15)
	case *packet.ISNeighborsTLV:
		return v.TLVType == 6
	case *packet.LSPEntriesTLV:
		return v.TLVType == 9 && int(v.TLVLength) == 16*len(v.LSPEntries)
	}
	return false
}

func wfTLVs(ts []packet.TLV) bool {
	for _, t := range ts {
		if !wfTLV(t) {
			return false
		}
	}
	return true
}

func bodyTLVs(b interface{}) []packet.TLV {
	switch v := b.(type) {
	case *packet.P2PHello:
		return v.TLVs
	case *packet.LSPDU:
		return v.TLVs
	case *packet.CSNP:
		return v.TLVs
	case *packet.PSNP:
		return v.TLVs
	}
	return nil
}

func kindName(b interface{}) string {
	switch b.(type) {
	case *packet.P2PHello:
		return "hello"
	case *packet.LSPDU:
		return "lsp"
	case *packet.CSNP:
		return "csnp"
	case *packet.PSNP:
		return "psnp"
	}
	return "none"
}

func typeOfBody(b interface{}) uint8 {
	switch b.(type) {
	case *packet.P2PHello:
		return packet.P2P_HELLO
	case *packet.LSPDU:
		return packet.L2_LS_PDU_TYPE
	case *packet.CSNP:
		return packet.L2_CSNP_TYPE
	case *packet.PSNP:
		return packet.L2_PSNP_TYPE
	}
	return 0
}

// wfPkt mirrors the hypotheses of C30_roundtrip_*: the header names the body's PDU type, TLVs are well-formed
func wfPkt(p *pkt) bool {
	return p.body != nil && p.hdr.PDUType == typeOfBody(p.body) && wfTLVs(bodyTLVs(p.body))
}

func expectTLV(t packet.TLV) string {
	if raw, ok := refValue(t); ok {
		return fmt.Sprintf("U,%d,%d,%s", t.Type(), t.Length(), hexs(raw))
	}
	return renderTLV(t)
}

// expectation: (header, fixed fields of the body, TLV renderings) the decoder has to return
func expectation(p *pkt) (string, string, []string) {
	var tl []string
	sum := uint16(0)
	for _, t := range bodyTLVs(p.body) {
		tl = append(tl, expectTLV(t))
		sum += uint16(t.Length()) + 2
	}
	fields := ""
	switch v := p.body.(type) {
	case *packet.P2PHello:
		fields = fmt.Sprintf("HELLO:%d:%s:%d:%d:%d", v.CircuitType, hexs(v.SystemID[:]), v.HoldingTimer, uint16(20+sum), v.LocalCircuitID)
	default:
		s := renderBody(p.body)
		fields = s[:strings.LastIndex(s, ":[")]
	}
	return renderHeader(&p.hdr), fields, tl
}

// compareDecoded returns "" or what differs first
func compareDecoded(p *pkt, got *packet.ISISPacket) string {
	eh, ef, et := expectation(p)
	if renderHeader(got.Header) != eh {
		return "header"
	}
	gb := renderBody(bodyOf(got))
	i := strings.LastIndex(gb, ":[")
	if i < 0 || gb[:i] != ef {
		return "fields"
	}
	gts := bodyTLVs(bodyOf(got))
	if len(gts) != len(et) {
		return "tlv-count"
	}
	for k, t := range gts {
		if renderTLV(t) != et[k] {
			return "tlv-" + et[k][:1]
		}
	}
	return ""
}

func bodyOf(p *packet.ISISPacket) interface{} {
	if p.Body == nil {
		return nil
	}
	return p.Body
}

// ------------------------------------------------------------------ running the implementation

func obsDecode(b []byte) (string, *packet.ISISPacket) {
	var res *packet.ISISPacket
	var err error
	if panicked, _ := hx.Guard(func() { res, err = packet.Decode(bytes.NewBuffer(append([]byte{}, b...))) }); panicked {
		return "PANIC", nil
	}
	if err != nil {
		return "Err", nil
	}
	return renderPkt(&pkt{hdr: *res.Header, body: bodyOf(res)}), res
}

func obsDecodeL2(b []byte) string {
	var res *packet.L2Hello
	var err error
	if panicked, _ := hx.Guard(func() { res, err = packet.DecodeL2Hello(bytes.NewBuffer(append([]byte{}, b...))) }); panicked {
		return "PANIC"
	}
	if err != nil {
		return "Err"
	}
	return renderBody(res)
}

func serialize(p *pkt) []byte {
	body := bytes.NewBuffer(nil)
	if s, ok := p.body.(packet.Serializable); ok && p.body != nil {
		s.Serialize(body)
	}
	out := bytes.NewBuffer(nil)
	out.Write(llc)
	p.hdr.Serialize(out)
	out.Write(body.Bytes())
	return out.Bytes()
}

type verdict struct{ sig, detail string }

// runE: the round trip of one PDU value
func runE(p *pkt) (obs string, nt bool, v *verdict) {
	wf := wfPkt(p)
	kind := kindName(p.body)
	nt = len(bodyTLVs(p.body)) > 0
	var wire []byte
	if panicked, val := hx.Guard(func() { wire = serialize(p) }); panicked {
		if wf {
			v = &verdict{"roundtrip:" + kind + ":serialize-panic", fmt.Sprint(val)}
		}
		return "PANIC -", nt, v
	}
	d, got := obsDecode(wire)
	obs = hexs(wire) + " " + d
	if !wf {
		return obs, nt, nil
	}
	switch d {
	case "PANIC":
		v = &verdict{"roundtrip:" + kind + ":panic", "decoding the serialized PDU panicked"}
	case "Err":
		v = &verdict{"roundtrip:" + kind + ":decode-error", "the serialized PDU does not decode"}
	default:
		if what := compareDecoded(p, got); what != "" {
			v = &verdict{"roundtrip:" + kind + ":" + what, "decoded " + d}
		}
	}
	return obs, nt, v
}

func runK(l *packet.LSPDU) string {
	if panicked, _ := hx.Guard(func() { l.UpdateLength(); l.SetChecksum() }); panicked {
		return "PANIC"
	}
	return renderBody(l)
}

// runT: a TLV constructor. fits = the content needs at most 255 value bytes (computed here, independently)
func runT(f []string) (obs string, nt bool, v *verdict, err error) {
	var t packet.TLV
	fits := true
	err = tryParse(func() {
		arg := func(i int) string {
			if len(f) <= i {
				fail("T %s: argument %d missing", f[1], i-1)
			}
			return f[i]
		}
		switch f[1] {
		case "area":
			as := parseAreas(arg(2))
			n := 0
			for _, a := range as {
				n += 1 + len(a)
			}
			fits = n <= 255
			t = packet.NewAreaAddressesTLV(as)
		case "host":
			b := unhex(arg(2))
			fits = len(b) <= 255
			t = packet.NewDynamicHostnameTLV(b)
		case "proto":
			b := unhex(arg(2))
			fits = len(b) <= 255
			x := packet.NewProtocolsSupportedTLV(b)
			t = &x
		case "ipif":
			pfxs := []*bnet.Prefix{}
			for _, a := range split(arg(2), "|") {
				pfxs = append(pfxs, bnet.NewPfx(bnet.IPv4(uint32(num(a, 32))), 32).Ptr())
			}
			fits = 4*len(pfxs) <= 255
			t = packet.NewIPInterfaceAddressesTLV(pfxs)
		case "entries":
			es := parseEntries(arg(2))
			fits = 16*len(es) <= 255
			t = packet.NewLSPEntriesTLV(es)
		case "p2padj":
			t = packet.NewP2PAdjacencyStateTLV(uint8(num(arg(2), 8)), uint32(num(arg(3), 32)))
		case "pad":
			t = packet.NewPaddingTLV(uint8(num(arg(2), 8)))
		case "terid":
			t = packet.NewTrafficEngineeringRouterIDTLV(uint32(num(arg(2), 32)))
		case "extis":
			x := packet.NewExtendedISReachabilityTLV()
			total := 0
			for _, n := range split(arg(2), "|") {
				g := strings.Split(n, ".")
				need(g, 4, "extis neighbor")
				nb := packet.NewExtendedISReachabilityNeighbor(srcID(g[0]), uint32(num(g[1], 32)))
				sub := 0
				for _, st := range parseSubs(g[3]) {
					raw := refSub(st)
					if int(st.Length()) != len(raw)-2 {
						fits = false
					}
					sub += len(raw)
					nb.AddSubTLV(st)
				}
				if sub > 255 {
					fits = false
				}
				total += 11 + sub
				x.AddNeighbor(nb)
			}
			if total > 255 {
				fits = false
			}
			t = x
		case "extip":
			x := packet.NewExtendedIPReachabilityTLV()
			total := 0
			for _, n := range split(arg(2), "|") {
				g := strings.Split(n, ".")
				need(g, 3, "extip reach")
				pl := uint8(num(g[1], 8))
				total += 5 + (int(pl&63)+7)/8
				x.AddExtendedIPReachability(packet.NewExtendedIPReachability(uint32(num(g[0], 32)), pl, uint32(num(g[2], 32))))
			}
			fits = total <= 255
			t = x
		default:
			fail("unknown constructor %q", f[1])
		}
	})
	if err != nil {
		return
	}
	p := &pkt{hdr: snpHeader(packet.L2_LS_PDU_TYPE, packet.LSPDUMinLen), body: &packet.LSPDU{TLVs: []packet.TLV{t}}}
	o, _, pv := runE(p)
	obs = renderTLV(t) + " " + o
	if fits && !wfTLV(t) {
		v = &verdict{"ctor:" + f[1] + ":length-field-wrong", renderTLV(t)[:min(len(renderTLV(t)), 200)]}
	} else if fits {
		v = pv
	}
	return obs, true, v, nil
}

func snpHeader(ty uint8, li uint8) packet.ISISHeader {
	return packet.ISISHeader{ProtoDiscriminator: 0x83, LengthIndicator: li, ProtocolIDExtension: 1, PDUType: ty, Version: 1}
}

func entryKey(e *packet.LSPEntry) string { return renderEntry(e) }

// runSNPs: NewCSNPs / NewPSNPs on a slice with len == cap
func runSNPs(csnp bool, maxlen int, src types.SourceID, es []*packet.LSPEntry) (obs string, nt bool, v *verdict) {
	name := "psnps"
	if csnp {
		name = "csnps"
	}
	in := make([]string, 0, len(es))
	for _, e := range es {
		in = append(in, entryKey(e))
	}
	arg := make([]*packet.LSPEntry, len(es))
	copy(arg, es)
	var pdus []*pkt
	if panicked, val := hx.Guard(func() {
		if csnp {
			for _, c := range packet.NewCSNPs(src, arg, maxlen) {
				c := c
				pdus = append(pdus, &pkt{hdr: snpHeader(packet.L2_CSNP_TYPE, packet.CSNPMinLen), body: &c})
			}
		} else {
			for _, c := range packet.NewPSNPs(src, arg, maxlen) {
				c := c
				pdus = append(pdus, &pkt{hdr: snpHeader(packet.L2_PSNP_TYPE, packet.PSNPMinLen), body: &c})
			}
		}
	}); panicked {
		sig := "panic:" + name
		if (csnp && maxlen < 51) || (!csnp && maxlen < 35) {
			sig += ":nothing-fits"
		}
		return "PANIC", true, &verdict{sig, fmt.Sprintf("%d entries, maxPDULen %d: %v", len(es), maxlen, val)}
	}
	toks := []string{fmt.Sprintf("n=%d", len(pdus))}
	var out []string
	for _, p := range pdus {
		built := renderBody(p.body)
		o, _, pv := runE(p)
		d := o[strings.IndexByte(o, ' ')+1:]
		toks = append(toks, built, d)
		if v == nil && !wfPkt(p) {
			v = &verdict{"roundtrip:" + name + ":pdu-not-representable", built[:min(len(built), 160)]}
		}
		if v == nil && pv != nil {
			v = pv
		}
		for _, t := range bodyTLVs(p.body) {
			if e, ok := t.(*packet.LSPEntriesTLV); ok {
				for _, x := range e.LSPEntries {
					out = append(out, entryKey(x))
				}
			}
		}
	}
	nt = len(pdus) > 1 || len(es) > 15
	minlen := 35
	if csnp {
		minlen = 51
	}
	if v == nil && maxlen >= minlen {
		a, b := append([]string{}, in...), append([]string{}, out...)
		sort.Strings(a)
		sort.Strings(b)
		if strings.Join(a, " ") != strings.Join(b, " ") {
			v = &verdict{"roundtrip:" + name + ":entries-differ", fmt.Sprintf("%d entries in, %d entries in %d PDUs", len(in), len(out), len(pdus))}
		}
	}
	return strings.Join(toks, " "), nt, v
}

func min(a, b int) int {
	if a < b {
		return a
	}
	return b
}

// ------------------------------------------------------------------ one case

type runner struct {
	tr    *hx.Trace
	nviol int
}

func (r *runner) do(id, input string) {
	f := strings.Fields(input)
	if len(f) == 0 {
		return
	}
	var obs string
	var nt bool
	var v *verdict
	bad := func(err error) {
		fmt.Printf("HARNESS-ERROR case=%s bad input: %v\n", id, err)
	}
	switch f[0] {
	case "D", "L":
		if len(f) != 2 {
			bad(fmt.Errorf("want 1 argument"))
			return
		}
		var b []byte
		if err := tryParse(func() { b = unhex(f[1]) }); err != nil {
			bad(err)
			return
		}
		if f[0] == "D" {
			obs, _ = obsDecode(b)
			nt = len(b) > 11 && obs != "PANIC" && (obs == "Err" || !strings.HasSuffix(obs, "/N"))
		} else {
			obs = obsDecodeL2(b)
			nt = len(b) > 19
		}
		if obs == "PANIC" {
			v = &verdict{"decode-panic", "decoding " + f[1][:min(len(f[1]), 200)] + " panicked"}
		}
	case "E":
		if len(f) != 2 {
			bad(fmt.Errorf("want 1 argument"))
			return
		}
		var p *pkt
		if err := tryParse(func() { p = parsePkt(f[1]) }); err != nil {
			bad(err)
			return
		}
		obs, nt, v = runE(p)
	case "K":
		if len(f) != 2 {
			bad(fmt.Errorf("want 1 argument"))
			return
		}
		var b interface{}
		if err := tryParse(func() { b = parseBody(f[1]) }); err != nil {
			bad(err)
			return
		}
		l, ok := b.(*packet.LSPDU)
		if !ok {
			bad(fmt.Errorf("K wants an LSP"))
			return
		}
		obs = runK(l)
		nt = len(l.TLVs) > 0
	case "T":
		if len(f) < 2 {
			bad(fmt.Errorf("want a constructor name"))
			return
		}
		var err error
		obs, nt, v, err = runT(f)
		if err != nil {
			bad(err)
			return
		}
	case "C", "P":
		if len(f) != 4 {
			bad(fmt.Errorf("want 3 arguments"))
			return
		}
		var src types.SourceID
		var es []*packet.LSPEntry
		maxlen, err := strconv.Atoi(f[1])
		if err == nil {
			err = tryParse(func() { src = srcID(f[2]); es = parseEntries(f[3]) })
		}
		if err != nil {
			bad(err)
			return
		}
		obs, nt, v = runSNPs(f[0] == "C", maxlen, src, es)
	default:
		bad(fmt.Errorf("unknown stream %q", f[0]))
		return
	}
	r.tr.Case(id, nt, input, obs)
	r.tr.Count("stream_" + f[0])
	if v != nil {
		hx.Violation(id, v.sig, v.detail)
		r.nviol++
	}
}

// ------------------------------------------------------------------ main

func fuzzSeeds() [][]byte {
	repo := os.Getenv("VERIF_REPO")
	if repo == "" {
		repo = "/repo"
	}
	m, _ := filepath.Glob(filepath.Join(repo, "fuzzing", "packet", "corpus", "*"))
	sort.Strings(m)
	var out [][]byte
	for _, p := range m {
		b, err := os.ReadFile(p)
		if err == nil && len(b) <= 4096 {
			out = append(out, b)
		}
	}
	return out
}

func main() {
	cfg := hx.Parse()
	r := &runner{tr: hx.NewTrace(cfg.Out)}
	if cfg.Mode == "replay" {
		for _, c := range hx.InputsFrom(cfg.Replay) {
			r.do(c[0], c[1])
		}
	} else {
		for _, c := range hx.InputsFrom(hx.CorpusFiles(cfg.Corpus)...) {
			r.do("corpus-"+c[0], c[1])
			r.tr.Count("corpus")
		}
		// the fuzzing seeds of the repository (BGP messages): raw, and behind a valid LLC + IS-IS header
		for i, b := range fuzzSeeds() {
			r.do(fmt.Sprintf("fz%d", i), "D "+hexs(b))
			ty := []byte{0x11, 0x14, 0x19, 0x1b}[i%4]
			pre := append(append([]byte{}, llc...), 0x83, 27, 1, 0, ty, 1, 0, 0)
			r.do(fmt.Sprintf("fzh%d", i), "D "+hex.EncodeToString(append(pre, b...)))
			r.tr.Count("fuzz_seed")
		}
		rng := hx.NewRNG(cfg.Seed)
		generate(r, rng, cfg.N, cfg.Tier)
	}
	r.tr.Close(cfg.Stats, map[string]interface{}{"spec_violations": r.nviol})
}
