// Canonical text form of IS-IS PDUs (shared syntax with ocaml/c30/c30_run.ml).
//
//	packet : H:<pd>.<li>.<pie>.<idl>.<type>.<ver>.<maxarea>/<body>
//	body   : N
//	       | HELLO:<ct>:<sysid>:<hold>:<len>:<lcid>:[tlvs]
//	       | LSP:<len>:<life>:<lspid>:<seq>:<csum>:<typeblock>:[tlvs]
//	       | CSNP:<len>:<srcid>:<startlspid>:<endlspid>:[tlvs]
//	       | PSNP:<len>:<srcid>:[tlvs]
//	       | L2H:<ct>:<sysid>:<hold>:<len>:<prio>:<dis>:[tlvs]
//	tlvs   : tlv;tlv;...            tlv: <K>,<type>,<len>,<field>,...
//	 A areas a|a|a ("-" = none)   K csum   D name   S ids   I addr|addr   J state,extcid,nsys,nextcid   N snpa
//	 E entry|entry (life.lspid.seq.csum)   U value   G padding
//	 X nbr|nbr (srcid.metric.sublen.sub+sub)   Y reach|reach (metric.udpfx.addr.sub+sub)   T addr
//	 sub: l~type~len~local~remote | a~type~len~addr | u~type~len~value
//
// byte strings are lower case hex, "_" when empty; an empty list is "_"; numbers are decimal.
package main

import (
	"encoding/hex"
	"fmt"
	"strconv"
	"strings"

	"github.com/bio-routing/bio-rd/protocols/isis/packet"
	"github.com/bio-routing/bio-rd/protocols/isis/types"
)

type pkt struct {
	hdr  packet.ISISHeader
	body interface{} // nil | *packet.P2PHello | *packet.LSPDU | *packet.CSNP | *packet.PSNP
}

func hexs(b []byte) string {
	if len(b) == 0 {
		return "_"
	}
	return hex.EncodeToString(b)
}

func join(xs []string, sep string) string {
	if len(xs) == 0 {
		return "_"
	}
	return strings.Join(xs, sep)
}

func srcBytes(s types.SourceID) []byte { return append(append([]byte{}, s.SystemID[:]...), s.CircuitID) }
func lspidBytes(l packet.LSPID) []byte {
	return append(append([]byte{}, l.SystemID[:]...), l.PseudonodeID, l.LSPNumber)
}

func renderEntry(e *packet.LSPEntry) string {
	return fmt.Sprintf("%d.%s.%d.%d", e.RemainingLifetime, hexs(lspidBytes(e.LSPID)), e.SequenceNumber, e.LSPChecksum)
}

func renderSub(t packet.TLV) string {
	switch v := t.(type) {
	case *packet.LinkLocalRemoteIdentifiersSubTLV:
		return fmt.Sprintf("l~%d~%d~%d~%d", v.TLVType, v.TLVLength, v.Local, v.Remote)
	case *packet.IPv4AddressSubTLV:
		return fmt.Sprintf("a~%d~%d~%d", v.TLVType, v.TLVLength, v.Address)
	case *packet.UnknownTLV:
		return fmt.Sprintf("u~%d~%d~%s", v.TLVType, v.TLVLength, hexs(v.TLVValue))
	}
	return fmt.Sprintf("?%T", t)
}

func renderSubs(ts []packet.TLV) string {
	var xs []string
	for _, t := range ts {
		xs = append(xs, renderSub(t))
	}
	return join(xs, "+")
}

func renderTLV(t packet.TLV) string {
	switch v := t.(type) {
	case *packet.AreaAddressesTLV:
		var xs []string
		for _, a := range v.AreaIDs {
			xs = append(xs, hexs(a))
		}
		if len(xs) == 0 {
			return fmt.Sprintf("A,%d,%d,-", v.TLVType, v.TLVLength)
		}
		return fmt.Sprintf("A,%d,%d,%s", v.TLVType, v.TLVLength, strings.Join(xs, "|"))
	case *packet.ChecksumTLV:
		return fmt.Sprintf("K,%d,%d,%d", v.TLVType, v.TLVLength, v.Checksum)
	case *packet.DynamicHostNameTLV:
		return fmt.Sprintf("D,%d,%d,%s", v.TLVType, v.TLVLength, hexs(v.Hostname))
	case *packet.ProtocolsSupportedTLV:
		return fmt.Sprintf("S,%d,%d,%s", v.TLVType, v.TLVLength, hexs(v.NetworkLayerProtocolIDs))
	case packet.ProtocolsSupportedTLV:
		return renderTLV(&v)
	case *packet.IPInterfaceAddressesTLV:
		var xs []string
		for _, a := range v.IPv4Addresses {
			xs = append(xs, strconv.FormatUint(uint64(a), 10))
		}
		return fmt.Sprintf("I,%d,%d,%s", v.TLVType, v.TLVLength, join(xs, "|"))
	case *packet.P2PAdjacencyStateTLV:
		return fmt.Sprintf("J,%d,%d,%d,%d,%s,%d", v.TLVType, v.TLVLength, v.AdjacencyState, v.ExtendedLocalCircuitID,
			hexs(v.NeighborSystemID[:]), v.NeighborExtendedLocalCircuitID)
	case packet.P2PAdjacencyStateTLV:
		return renderTLV(&v)
	case *packet.ISNeighborsTLV:
		return fmt.Sprintf("N,%d,%d,%s", v.TLVType, v.TLVLength, hexs(v.NeighborSNPA[:]))
	case packet.ISNeighborsTLV:
		return renderTLV(&v)
	case *packet.LSPEntriesTLV:
		var xs []string
		for _, e := range v.LSPEntries {
			xs = append(xs, renderEntry(e))
		}
		return fmt.Sprintf("E,%d,%d,%s", v.TLVType, v.TLVLength, join(xs, "|"))
	case *packet.UnknownTLV:
		return fmt.Sprintf("U,%d,%d,%s", v.TLVType, v.TLVLength, hexs(v.TLVValue))
	case *packet.PaddingTLV:
		return fmt.Sprintf("G,%d,%d,%s", v.TLVType, v.TLVLength, hexs(v.PaddingData))
	case *packet.ExtendedISReachabilityTLV:
		var xs []string
		for _, n := range v.Neighbors {
			xs = append(xs, fmt.Sprintf("%s.%d.%d.%s", hexs(srcBytes(n.NeighborID)), n.Metric, n.SubTLVLength, renderSubs(n.SubTLVs)))
		}
		return fmt.Sprintf("X,%d,%d,%s", v.TLVType, v.TLVLength, join(xs, "|"))
	case *packet.ExtendedIPReachabilityTLV:
		var xs []string
		for _, r := range v.ExtendedIPReachabilities {
			xs = append(xs, fmt.Sprintf("%d.%d.%d.%s", r.Metric, r.UDSubBitPfxLen, r.Address, renderSubs(r.SubTLVs)))
		}
		return fmt.Sprintf("Y,%d,%d,%s", v.TLVType, v.TLVLength, join(xs, "|"))
	case *packet.TrafficEngineeringRouterIDTLV:
		return fmt.Sprintf("T,%d,%d,%d", v.TLVType, v.TLVLength, v.Address)
	}
	return fmt.Sprintf("?%T", t)
}

func renderTLVs(ts []packet.TLV) string {
	xs := make([]string, 0, len(ts))
	for _, t := range ts {
		xs = append(xs, renderTLV(t))
	}
	return "[" + strings.Join(xs, ";") + "]"
}

func renderHeader(h *packet.ISISHeader) string {
	return fmt.Sprintf("H:%d.%d.%d.%d.%d.%d.%d", h.ProtoDiscriminator, h.LengthIndicator, h.ProtocolIDExtension,
		h.IDLength, h.PDUType, h.Version, h.MaxAreaAddresses)
}

func renderBody(b interface{}) string {
	switch v := b.(type) {
	case nil:
		return "N"
	case *packet.P2PHello:
		return fmt.Sprintf("HELLO:%d:%s:%d:%d:%d:%s", v.CircuitType, hexs(v.SystemID[:]), v.HoldingTimer, v.PDULength, v.LocalCircuitID, renderTLVs(v.TLVs))
	case *packet.LSPDU:
		return fmt.Sprintf("LSP:%d:%d:%s:%d:%d:%d:%s", v.Length, v.RemainingLifetime, hexs(lspidBytes(v.LSPID)), v.SequenceNumber, v.Checksum, v.TypeBlock, renderTLVs(v.TLVs))
	case *packet.CSNP:
		return fmt.Sprintf("CSNP:%d:%s:%s:%s:%s", v.PDULength, hexs(srcBytes(v.SourceID)), hexs(lspidBytes(v.StartLSPID)), hexs(lspidBytes(v.EndLSPID)), renderTLVs(v.TLVs))
	case *packet.PSNP:
		return fmt.Sprintf("PSNP:%d:%s:%s", v.PDULength, hexs(srcBytes(v.SourceID)), renderTLVs(v.TLVs))
	case *packet.L2Hello:
		return fmt.Sprintf("L2H:%d:%s:%d:%d:%d:%s:%s", v.CircuitType, hexs(v.SystemID[:]), v.HoldingTimer, v.PDULength, v.Priority, hexs(v.DesignatedIS[:]), renderTLVs(v.TLVs))
	}
	return fmt.Sprintf("?%T", b)
}

func renderPkt(p *pkt) string { return renderHeader(&p.hdr) + "/" + renderBody(p.body) }

// ------------------------------------------------------------------ parser

type perr struct{ msg string }

func fail(f string, a ...interface{}) { panic(perr{fmt.Sprintf(f, a...)}) }

func unhex(s string) []byte {
	if s == "_" || s == "" {
		return []byte{}
	}
	b, err := hex.DecodeString(s)
	if err != nil {
		fail("bad hex %q", s)
	}
	return b
}

func num(s string, bits int) uint64 {
	v, err := strconv.ParseUint(s, 10, bits)
	if err != nil {
		fail("bad number %q (%d bits)", s, bits)
	}
	return v
}

func split(s, sep string) []string {
	if s == "_" || s == "" {
		return nil
	}
	return strings.Split(s, sep)
}

func fixed(s string, n int) []byte {
	b := unhex(s)
	if len(b) != n {
		fail("%q: want %d bytes", s, n)
	}
	return b
}

func sysID(s string) (r types.SystemID) { copy(r[:], fixed(s, 6)); return }
func srcID(s string) types.SourceID {
	b := fixed(s, 7)
	r := types.SourceID{CircuitID: b[6]}
	copy(r.SystemID[:], b[:6])
	return r
}
func lspID(s string) packet.LSPID {
	b := fixed(s, 8)
	r := packet.LSPID{PseudonodeID: b[6], LSPNumber: b[7]}
	copy(r.SystemID[:], b[:6])
	return r
}

func need(f []string, n int, what string) {
	if len(f) != n {
		fail("%s: want %d fields, have %d", what, n, len(f))
	}
}

func parseEntry(s string) *packet.LSPEntry {
	f := strings.Split(s, ".")
	need(f, 4, "entry")
	return &packet.LSPEntry{RemainingLifetime: uint16(num(f[0], 16)), LSPID: lspID(f[1]), SequenceNumber: uint32(num(f[2], 32)), LSPChecksum: uint16(num(f[3], 16))}
}

func parseEntries(s string) []*packet.LSPEntry {
	es := []*packet.LSPEntry{}
	for _, x := range split(s, "|") {
		es = append(es, parseEntry(x))
	}
	return es
}

// parseAreas: "-" is no area, "_" is one empty area
func parseAreas(s string) []types.AreaID {
	as := []types.AreaID{}
	if s == "-" {
		return as
	}
	for _, a := range strings.Split(s, "|") {
		as = append(as, types.AreaID(unhex(a)))
	}
	return as
}

func parseSubs(s string) []packet.TLV {
	ts := []packet.TLV{}
	for _, x := range split(s, "+") {
		f := strings.Split(x, "~")
		if len(f) < 3 {
			fail("sub tlv %q", x)
		}
		ty, ln := uint8(num(f[1], 8)), uint8(num(f[2], 8))
		switch f[0] {
		case "l":
			need(f, 5, "sub l")
			ts = append(ts, &packet.LinkLocalRemoteIdentifiersSubTLV{TLVType: ty, TLVLength: ln, Local: uint32(num(f[3], 32)), Remote: uint32(num(f[4], 32))})
		case "a":
			need(f, 4, "sub a")
			ts = append(ts, &packet.IPv4AddressSubTLV{TLVType: ty, TLVLength: ln, Address: uint32(num(f[3], 32))})
		case "u":
			need(f, 4, "sub u")
			ts = append(ts, &packet.UnknownTLV{TLVType: ty, TLVLength: ln, TLVValue: unhex(f[3])})
		default:
			fail("sub tlv kind %q", f[0])
		}
	}
	return ts
}

func parseTLV(s string) packet.TLV {
	f := strings.Split(s, ",")
	if len(f) < 4 {
		fail("tlv %q", s)
	}
	ty, ln := uint8(num(f[1], 8)), uint8(num(f[2], 8))
	switch f[0] {
	case "A":
		need(f, 4, "A")
		t := &packet.AreaAddressesTLV{TLVType: ty, TLVLength: ln, AreaIDs: []types.AreaID{}}
		t.AreaIDs = parseAreas(f[3])
		return t
	case "K":
		need(f, 4, "K")
		return &packet.ChecksumTLV{TLVType: ty, TLVLength: ln, Checksum: uint16(num(f[3], 16))}
	case "D":
		need(f, 4, "D")
		return &packet.DynamicHostNameTLV{TLVType: ty, TLVLength: ln, Hostname: unhex(f[3])}
	case "S":
		need(f, 4, "S")
		return &packet.ProtocolsSupportedTLV{TLVType: ty, TLVLength: ln, NetworkLayerProtocolIDs: unhex(f[3])}
	case "I":
		need(f, 4, "I")
		t := &packet.IPInterfaceAddressesTLV{TLVType: ty, TLVLength: ln, IPv4Addresses: []uint32{}}
		for _, a := range split(f[3], "|") {
			t.IPv4Addresses = append(t.IPv4Addresses, uint32(num(a, 32)))
		}
		return t
	case "J":
		need(f, 7, "J")
		return &packet.P2PAdjacencyStateTLV{TLVType: ty, TLVLength: ln, AdjacencyState: uint8(num(f[3], 8)), ExtendedLocalCircuitID: uint32(num(f[4], 32)),
			NeighborSystemID: sysID(f[5]), NeighborExtendedLocalCircuitID: uint32(num(f[6], 32))}
	case "N":
		need(f, 4, "N")
		return &packet.ISNeighborsTLV{TLVType: ty, TLVLength: ln, NeighborSNPA: sysID(f[3])}
	case "E":
		need(f, 4, "E")
		return &packet.LSPEntriesTLV{TLVType: ty, TLVLength: ln, LSPEntries: parseEntries(f[3])}
	case "U":
		need(f, 4, "U")
		return &packet.UnknownTLV{TLVType: ty, TLVLength: ln, TLVValue: unhex(f[3])}
	case "G":
		need(f, 4, "G")
		return &packet.PaddingTLV{TLVType: ty, TLVLength: ln, PaddingData: unhex(f[3])}
	case "X":
		need(f, 4, "X")
		t := &packet.ExtendedISReachabilityTLV{TLVType: ty, TLVLength: ln, Neighbors: []*packet.ExtendedISReachabilityNeighbor{}}
		for _, n := range split(f[3], "|") {
			g := strings.Split(n, ".")
			need(g, 4, "X neighbor")
			t.Neighbors = append(t.Neighbors, &packet.ExtendedISReachabilityNeighbor{NeighborID: srcID(g[0]), Metric: uint32(num(g[1], 32)),
				SubTLVLength: uint8(num(g[2], 8)), SubTLVs: parseSubs(g[3])})
		}
		return t
	case "Y":
		need(f, 4, "Y")
		t := &packet.ExtendedIPReachabilityTLV{TLVType: ty, TLVLength: ln, ExtendedIPReachabilities: []*packet.ExtendedIPReachability{}}
		for _, n := range split(f[3], "|") {
			g := strings.Split(n, ".")
			need(g, 4, "Y reach")
			t.ExtendedIPReachabilities = append(t.ExtendedIPReachabilities, &packet.ExtendedIPReachability{Metric: uint32(num(g[0], 32)),
				UDSubBitPfxLen: uint8(num(g[1], 8)), Address: uint32(num(g[2], 32)), SubTLVs: parseSubs(g[3])})
		}
		return t
	case "T":
		need(f, 4, "T")
		return &packet.TrafficEngineeringRouterIDTLV{TLVType: ty, TLVLength: ln, Address: uint32(num(f[3], 32))}
	}
	fail("tlv kind %q", f[0])
	return nil
}

func parseTLVs(s string) []packet.TLV {
	if len(s) < 2 || s[0] != '[' || s[len(s)-1] != ']' {
		fail("tlvs %q", s)
	}
	ts := []packet.TLV{}
	s = s[1 : len(s)-1]
	if s == "" {
		return ts
	}
	for _, x := range strings.Split(s, ";") {
		ts = append(ts, parseTLV(x))
	}
	return ts
}

func parseBody(s string) interface{} {
	f := strings.Split(s, ":")
	switch f[0] {
	case "N":
		return nil
	case "HELLO":
		need(f, 7, "HELLO")
		return &packet.P2PHello{CircuitType: uint8(num(f[1], 8)), SystemID: sysID(f[2]), HoldingTimer: uint16(num(f[3], 16)),
			PDULength: uint16(num(f[4], 16)), LocalCircuitID: uint8(num(f[5], 8)), TLVs: parseTLVs(f[6])}
	case "LSP":
		need(f, 8, "LSP")
		return &packet.LSPDU{Length: uint16(num(f[1], 16)), RemainingLifetime: uint16(num(f[2], 16)), LSPID: lspID(f[3]),
			SequenceNumber: uint32(num(f[4], 32)), Checksum: uint16(num(f[5], 16)), TypeBlock: uint8(num(f[6], 8)), TLVs: parseTLVs(f[7])}
	case "CSNP":
		need(f, 6, "CSNP")
		return &packet.CSNP{PDULength: uint16(num(f[1], 16)), SourceID: srcID(f[2]), StartLSPID: lspID(f[3]), EndLSPID: lspID(f[4]), TLVs: parseTLVs(f[5])}
	case "PSNP":
		need(f, 4, "PSNP")
		return &packet.PSNP{PDULength: uint16(num(f[1], 16)), SourceID: srcID(f[2]), TLVs: parseTLVs(f[3])}
	}
	fail("body kind %q", f[0])
	return nil
}

func parseHeader(s string) packet.ISISHeader {
	if !strings.HasPrefix(s, "H:") {
		fail("header %q", s)
	}
	f := strings.Split(s[2:], ".")
	need(f, 7, "header")
	return packet.ISISHeader{ProtoDiscriminator: uint8(num(f[0], 8)), LengthIndicator: uint8(num(f[1], 8)), ProtocolIDExtension: uint8(num(f[2], 8)),
		IDLength: uint8(num(f[3], 8)), PDUType: uint8(num(f[4], 8)), Version: uint8(num(f[5], 8)), MaxAreaAddresses: uint8(num(f[6], 8))}
}

func parsePkt(s string) *pkt {
	i := strings.IndexByte(s, '/')
	if i < 0 {
		fail("packet %q", s)
	}
	return &pkt{hdr: parseHeader(s[:i]), body: parseBody(s[i+1:])}
}

// tryParse runs f and turns a syntax failure into an error.
func tryParse(f func()) (err error) {
	defer func() {
		if r := recover(); r != nil {
			if p, ok := r.(perr); ok {
				err = fmt.Errorf("%s", p.msg)
				return
			}
			panic(r)
		}
	}()
	f()
	return nil
}
